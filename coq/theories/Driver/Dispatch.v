(** Line-protocol dispatcher for the extracted model: op name + argument trees -> result tree.
    Serialisation of results happens here (inside Coq), the OCaml driver only moves bytes. *)
From Coq Require Import List String Ascii Bool Arith.
From Spil Require Import Base.Str Base.Dict Base.Outcome Base.Tree Base.PyPath Regex.Re
  Resolva.Template Resolva.Resolver Conf.ConfUtil Conf.Conf Sid.Query Sid.Sid Search.Unfold Search.FindList.
Import ListNotations.
Local Open Scope string_scope.

Definition t_out {A} (f : A -> tree) (o : outcome A) : tree :=
  match o with
  | Ok a => N [L "ok"; f a]
  | Raise e => N [L "raise"; L (exn_name e)]
  end.

Definition t_sid (x : sid) : tree := N [L (s_string x); L (s_type x); of_pairs (s_fields x)].
Definition t_opt {A} (f : A -> tree) (o : option A) : tree :=
  match o with Some a => N [f a] | None => N [] end.
Definition t_bool (b : bool) : tree := L (if b then "1" else "0").
Definition t_typed_dict (td : string * dict string) : tree := N [L (fst td); of_pairs (snd td)].

Fixpoint nat_to_str_aux (fuel n : nat) (acc : string) : string :=
  match fuel with
  | O => acc
  | S f => let acc' := String (ascii_of_nat (48 + n mod 10)) acc in
           if Nat.ltb n 10 then acc' else nat_to_str_aux f (n / 10) acc'
  end.
Definition nat_to_str (n : nat) : string := nat_to_str_aux (S n) n "".
Definition t_nat (n : nat) : tree := L (nat_to_str n).
Fixpoint str_to_nat_aux (s : string) (acc : nat) : nat :=
  match s with
  | "" => acc
  | String a r => str_to_nat_aux r (10 * acc + (nat_of_ascii a - 48))
  end.
Definition str_to_nat (s : string) : nat := str_to_nat_aux s 0.

Definition bad : tree := N [L "badargs"].

Section D.
Variable Ld : Loaded.

Definition parse_src (t : tree) : option src :=
  match t with
  | N [L "s"; L s] => Some (FromString s)
  | N [L "q"; L q] => Some (FromQuery q)
  | N [L "f"; d] => option_map FromFields (t_pairs d)
  | N [L "p"; L p; L cfg] => Some (FromPath p cfg)
  | N [L "x"; N [L s; L ty; d]] => option_map (fun d => FromSid (mkSid s ty d)) (t_pairs d)
  | _ => None
  end.

Definition with_sid (t : tree) (f : sid -> tree) : tree :=
  match parse_src t with
  | None => bad
  | Some s => match sid_factory Ld s with
              | Ok x => f x
              | Raise e => N [L "raise-src"; L (exn_name e)]
              end
  end.

Definition parse_kw (t : tree) : option (dict (option string)) :=
  match t with
  | N l => opt_all (map (fun e => match e with
                                  | N [L k; N []] => Some (k, None)
                                  | N [L k; N [L v]] => Some (k, Some v)
                                  | _ => None end) l)
  | _ => None
  end.

Definition resolver_named (name : string) : option resolver :=
  if String.eqb name "sid" then Some (l_sid Ld)
  else option_map lp_resolver (find (fun p => String.eqb (pc_name (lp_conf p)) name) (l_paths Ld)).

Definition dispatch (op : string) (args : list tree) : tree :=
  match op, args with
  | "sid", [s] => match parse_src s with Some s => t_out t_sid (sid_factory Ld s) | None => bad end
  | "obs", [s] => with_sid s (fun x => N [t_sid x; t_bool (sid_bool x); t_nat (sid_len x); L (uri x);
                                          t_opt L (basetype Ld x); t_opt L (keytype x); t_bool (is_search Ld x);
                                          t_bool (is_leaf Ld x); L (as_query x)])
  | "copy", [s] => with_sid s (fun x => t_out t_sid (sid_copy Ld x))
  | "eval_repr", [s] => with_sid s (fun x =>
      if mem_c "'" (uri x) || mem_c "\" (uri x) || mem_c "010" (uri x) || mem_c "013" (uri x)
      then N [L "raise"; L "Unmodelled"] else t_out t_sid (sid_copy Ld x))
  | "get_as", [s; L k] => with_sid s (fun x => t_out t_sid (get_as Ld x k))
  | "parent", [s] => with_sid s (fun x => t_out t_sid (parent Ld x))
  | "div", [s; L v] => with_sid s (fun x => t_out t_sid (sid_div Ld x v))
  | "get_with_kw", [s; kw] =>
      match parse_kw kw with
      | Some kw => with_sid s (fun x => t_out t_sid (get_with_kw Ld x kw))
      | None => bad
      end
  | "get_with_q", [s; L q] => with_sid s (fun x => t_out t_sid (get_with_query Ld x q))
  | "path", [s; L cfg] => with_sid s (fun x => t_out (t_opt L) (sid_path Ld x cfg))
  | "path", [s; L cfg; L _] => with_sid s (fun x => t_out (t_opt L) (sid_path Ld x cfg))
  | "pathroundtrip", [s; L c1; L c2] => with_sid s (fun x =>
      t_out (t_opt t_sid) (do p <- sid_path Ld x c1;
                           match p with
                           | None => Ok None
                           | Some p => do y <- sid_factory Ld (FromPath p c2); Ok (Some y)
                           end))
  | "path_owner", [L p; L cfg] =>
      t_out (fun xp => N [t_sid (fst xp); t_opt L (snd xp)])
            (do x <- sid_factory Ld (FromPath p cfg); do pp <- sid_path Ld x cfg; Ok (x, pp))
  | "eq", [a; b] => with_sid a (fun x => with_sid b (fun y => t_bool (sid_eqb x y)))
  | "to_dict", [L q] => t_out of_pairs (to_dict q)
  | "to_string", [d] => match t_pairs d with Some d => L (to_string d) | None => bad end
  | "update", [d; L q] => match t_pairs d with Some d => t_out of_pairs (update d q) | None => bad end
  | "resolve_first", [L rn; L s] =>
      match resolver_named rn with
      | Some r => t_out (t_opt t_typed_dict) (resolve_first r s)
      | None => bad end
  | "resolve_all", [L rn; L s] =>
      match resolver_named rn with
      | Some r => t_out (fun l => N (map t_typed_dict l)) (resolve_all r s)
      | None => bad end
  | "resolve_one", [L rn; L s; L lab] =>
      match resolver_named rn with
      | Some r => t_out of_pairs (resolve_one r s lab)
      | None => bad end
  | "format_all", [L rn; d] =>
      match resolver_named rn, t_pairs d with
      | Some r, Some d => t_out of_pairs (format_all r d)
      | _, _ => bad end
  | "path_to_dict", [L p; L cfg] => t_out (t_opt t_typed_dict) (path_to_dict Ld p cfg)
  | "dict_to_path", [d; L ty; L cfg] =>
      match t_pairs d with Some d => t_out L (dict_to_path Ld d ty cfg) | None => bad end
  | "norm_path", [L p] => L (norm_path p)
  | "unfold", [L q; L uniq; L extra] =>
      t_out (fun l => N (map t_sid l)) (unfold_search Ld q (String.eqb uniq "1") (String.eqb extra "1"))
  | "unfold", [L q; L uniq; L extra; L spelling] =>
      if String.eqb spelling "sidarg"
      then t_out (fun l => N (map t_sid l))
                 (do x <- Sid Ld q; unfold_search Ld (s_string x) (String.eqb uniq "1") (String.eqb extra "1"))   (* unfold_search(Sid(q)): str(sid) *)
      else t_out (fun l => N (map t_sid l)) (unfold_search Ld q (String.eqb uniq "1") (String.eqb extra "1"))
  | "consume_partial", [items; L q; L n] =>
      match t_strs items with
      | Some it => if Nat.eqb (str_to_nat n) 0 then N [L "ok"; N []]      (* a generator that is never advanced runs nothing *)
                   else t_out (fun l => of_strs (firstn (str_to_nat n) l)) (find_list Ld it q)
      | None => bad end
  | "fields_mutate", [s; L _; L _] => with_sid s (fun x => N [L "ok"; N [t_sid x; t_sid x; t_bool true; t_bool true]])
  | "sid_multi", [L s; L q; d] =>
      match t_pairs d with
      | Some d =>
          let src := if negb (sempty s) then FromString s else if negb (sempty q) then FromQuery q else FromFields d in
          t_out (fun x => N [t_sid x; t_bool true]) (sid_factory Ld src)
      | None => bad end
  | "fields_arg_mutate", [d; L _; L _] =>
      match t_pairs d with
      | Some d => t_out (fun x => N [t_sid x; t_bool true]) (sid_factory Ld (FromFields d))
      | None => bad end
  | "eq_hash", [a; b] => with_sid a (fun x => with_sid b (fun y =>
      N [L "ok"; N [t_bool (sid_eqb x y); t_bool (String.eqb (repr x) (repr y)); t_bool (sid_eqb x y);
                    t_bool (sid_eq_str x (s_string y)); t_bool (sid_eqb x y); L (uri x); L (uri y)]]))
  | "sorted", [N srcs] =>
      match opt_all (map parse_src srcs) with
      | Some l => t_out (fun xs => of_strs (sort_s (map s_string xs))) (mapM (sid_factory Ld) l)
      | None => bad end
  | "extensions", [L q] => t_out L (extensions Ld q)
  | "or_op", [L q] => t_out (fun l => of_strs (sort_s l)) (or_op q)
  | "expand", [L q] => t_out (fun l => N (map t_sid (sort_sids l))) (expand Ld q)
  | "find_list", [items; L q] =>
      match t_strs items with Some it => t_out of_strs (find_list Ld it q) | None => bad end
  (* a Sid made from its own path: Sid(path=x.path(cfg), config=cfg), then an observation / navigation on it *)
  | "via_path", [s; L cfg; L what; L arg] => with_sid s (fun x =>
      match sid_path Ld x cfg with
      | Ok (Some p) =>
          match sid_of_path Ld p cfg with
          | Ok y => if String.eqb what "get_as" then t_out t_sid (get_as Ld y arg)
                    else if String.eqb what "parent" then t_out t_sid (parent Ld y)
                    else N [L "ok"; t_sid y]
          | Raise e => N [L "raise"; L (exn_name e)]
          end
      | Ok None => N [L "ok"; N []]
      | Raise e => N [L "raise"; L (exn_name e)]
      end)
  (* FindInList(items, do_pre_sort=True): the list is replaced by its sorted set at construction *)
  | "find_list", [items; L q; L "pre_sort"] =>
      match t_strs items with Some it => t_out of_strs (find_list Ld (sort_s (nodup_s it)) q) | None => bad end
  | "find_list_sids", [items; L q; L "pre_sort"] =>
      match t_strs items with Some it => t_out (fun l => N (map t_sid l)) (find_list_sids Ld (sort_s (nodup_s it)) q) | None => bad end
  | "find_list_sids", [items; L q] =>
      match t_strs items with Some it => t_out (fun l => N (map t_sid l)) (find_list_sids Ld it q) | None => bad end
  | "find_one", [items; L q] =>
      match t_strs items with Some it => t_out (t_opt L) (find_one Ld it q) | None => bad end
  | "exists", [items; L q] =>
      match t_strs items with Some it => t_out t_bool (exists_ Ld it q) | None => bad end
  | "match", [s; L q] => with_sid s (fun x => t_out t_bool (sid_match Ld x q))
  | "glob_match", [L pat; L item] => t_out t_bool (glob_match pat item)
  | "dump", [] =>
      N [of_pairs (l_sid_templates Ld);
         N (map (fun e => N [L (fst e); L (fst (snd e)); L (fst (snd (snd e))); of_strs (snd (snd (snd e)))])
                (resolver_dump (l_sid Ld)));
         N (map (fun p => N [L (pc_name (lp_conf p));
                             N (map (fun e => N [L (fst e); L (fst (snd e)); L (fst (snd (snd e))); of_strs (snd (snd (snd e)))])
                                    (resolver_dump (lp_resolver p)))])
                (l_paths Ld))]
  | _, _ => N [L "unknown-op"; L op]
  end.
End D.

(* operations that need no configuration *)
Definition dispatch0 (op : string) (args : list tree) : option tree :=
  match op, args with
  | "extrapolate", [t; te; L sep] =>
      match t_pairs t, t_strs te with
      | Some t, Some te => Some (of_pairs (extrapolate_templates sep t te))
      | _, _ => Some bad end
  | "pattern_replacing", [t; kp] =>
      match t_pairs t, t_kpairs_list kp with
      | Some t, Some kp => Some (of_pairs (pattern_replacing t kp))
      | _, _ => Some bad end
  | "tpl_search", [L template; L s] =>
      match mk_tpl "t" template with
      | Some tp => Some (N [L "ok"; t_opt of_pairs (search_anchored (tp_re tp) s)])
      | None => Some (N [L "outside-fragment"]) end
  | _, _ => None
  end.

Definition run (st : option Loaded) (op : string) (args : list tree) : tree :=
  match dispatch0 op args with
  | Some t => t
  | None => match st with
            | Some Ld => dispatch Ld op args
            | None => N [L "no-conf"]
            end
  end.
