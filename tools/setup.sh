#!/bin/bash
# Build the framework from files on disk only: all of coq/theories (full .vo build), then extraction + driver.
set -e
cd "$(dirname "$0")/.."
cd coq
coq_makefile -f _CoqProject -o Makefile > /dev/null 2>&1
timeout 3000 make -j16 > make.log 2>&1 || { tail -40 make.log; exit 1; }
cd ..
tools/build_driver.sh
mkdir -p evidence replays work
echo "setup ok"
