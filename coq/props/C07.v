From Coq Require Import List String.
Example C07_placeholder : True. Proof. exact I. Qed.
Print Assumptions C07_placeholder.
