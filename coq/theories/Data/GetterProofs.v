(** C16: Getter <-> Finder over data sets and histories: proofs (definitions in Data/GetterDefs.v). *)
From Coq Require Import List String Ascii Bool Arith Lia.
From Spil Require Import Base.Str Base.Dict Base.Outcome Base.PyPath Base.StrProofs
  Conf.Conf Conf.Routing Conf.WF Sid.Sid FS.Fs
  Search.Unfold Search.FindList Search.Finders Search.SortLemmas Search.FindersProofs Search.ConstantsLemmas
  Search.TreeListDefs Search.AlgebraDefs Search.LastAgreeProofs Search.AlgebraTreeProofs
  Path.UnambiguousDefs Search.TreeListProofs Search.AlgebraTreeDefs Data.SidLevelDefs Data.SidLevelLast
  Data.Data Data.CrashProofs Data.DataProofs Data.HistoryDefs Data.HistoryProofs Data.GetterDefs.
Import ListNotations.
Local Open Scope string_scope.

(** * 0. Generic facts *)

Lemma dget_in_keys {V} (d : dict V) k : In k (map fst d) -> exists v, dget d k = Some v.
Proof.
  induction d as [|[k' v'] d IH]; cbn [map fst In dget]; [intros []|].
  intros H. destruct (String.eqb k k') eqn:E; [eexists; reflexivity|].
  destruct H as [H | H]; [subst k'; rewrite String.eqb_refl in E; discriminate | exact (IH H)].
Qed.

Lemma dget_map_keys {V} (f : string -> V) : forall l k, In k l -> dget (map (fun a => (a, f a)) l) k = Some (f k).
Proof.
  induction l as [|a l IH]; intros k H; [destruct H|]. cbn [map dget].
  destruct (String.eqb k a) eqn:E.
  - apply String.eqb_eq in E. subst a. reflexivity.
  - destruct H as [H | H]; [subst a; rewrite String.eqb_refl in E; discriminate | exact (IH k H)].
Qed.

Lemma Forall2_nth_error {A B} (P : A -> B -> Prop) l1 l2 : Forall2 P l1 l2 ->
  forall i a, nth_error l1 i = Some a -> exists b, nth_error l2 i = Some b /\ P a b.
Proof.
  induction 1 as [|a0 b0 l1 l2 H0 _ IH]; intros i a Hi; destruct i as [|i]; cbn [nth_error] in *; try discriminate.
  - inversion Hi; subst. exists b0. split; [reflexivity | exact H0].
  - exact (IH i a Hi).
Qed.

Lemma Forall2_impl' {A B} (P Q : A -> B -> Prop) l1 l2 : (forall a b, P a b -> Q a b) -> Forall2 P l1 l2 -> Forall2 Q l1 l2.
Proof. intros H. induction 1; constructor; auto. Qed.

(* concat_mapM is mapM followed by concat *)
Lemma concat_mapM_as_mapM {A B} (f : A -> outcome (list B)) : forall l,
  concat_mapM f l = (do parts <- mapM f l; Ok (List.concat parts)).
Proof.
  induction l as [|a l IH]; [reflexivity|]. cbn [concat_mapM mapM]. destruct (f a) as [y|e]; cbn [bind]; [|reflexivity].
  rewrite IH. destruct (mapM f l) as [ys|e]; cbn [bind List.concat]; reflexivity.
Qed.

Lemma concat_mapM_ok_iff {A B} (f : A -> outcome (list B)) l r :
  concat_mapM f l = Ok r <-> exists parts, Forall2 (fun a p => f a = Ok p) l parts /\ r = List.concat parts.
Proof.
  rewrite concat_mapM_as_mapM. split.
  - destruct (mapM f l) as [parts|e] eqn:E; cbn [bind]; [|discriminate]. intros H. inversion H; subst.
    exists parts. split; [apply SortLemmas.mapM_Forall2; exact E | reflexivity].
  - intros (parts & H & ->). assert (E : mapM f l = Ok parts).
    { induction H as [|a p l parts Hap _ IH]; [reflexivity|]. cbn [mapM]. rewrite Hap. cbn [bind]. rewrite IH. reflexivity. }
    rewrite E. reflexivity.
Qed.

(* the elements that contribute nothing can be dropped *)
Lemma concat_mapM_filter {A B} (f : A -> outcome (list B)) (keep : A -> bool) : forall l,
  (forall a, In a l -> keep a = false -> f a = Ok []) ->
  concat_mapM f l = concat_mapM f (filter keep l).
Proof.
  induction l as [|a l IH]; intros H; [reflexivity|]. cbn [filter].
  assert (IH' := IH (fun b Hb => H b (or_intror Hb))).
  destruct (keep a) eqn:E; cbn [concat_mapM]; rewrite IH'; [reflexivity|].
  rewrite (H a (or_introl eq_refl) E). cbn [bind].
  destruct (concat_mapM f (filter keep l)); reflexivity.
Qed.

Lemma mapM_app {A B} (f : A -> outcome B) : forall l1 l2,
  mapM f (l1 ++ l2) = (do a <- mapM f l1; do b <- mapM f l2; Ok (a ++ b)%list).
Proof.
  induction l1 as [|x l1 IH]; intros l2; cbn [app mapM].
  - cbn [bind]. destruct (mapM f l2); reflexivity.
  - destruct (f x) as [y|e]; cbn [bind]; [|reflexivity]. rewrite IH.
    destruct (mapM f l1) as [a|e]; cbn [bind]; [|reflexivity].
    destruct (mapM f l2) as [b|e]; cbn [bind]; reflexivity.
Qed.

(* a search per element, each followed by a map over its results, is the map over all the results *)
Lemma concat_mapM_then_mapM {A B C} (f : A -> outcome (list B)) (g : B -> outcome C) : forall l parts,
  Forall2 (fun a p => f a = Ok p) l parts ->
  concat_mapM (fun a => do p <- f a; mapM g p) l = mapM g (List.concat parts).
Proof.
  intros l parts H. induction H as [|a p l parts Hap _ IH]; [reflexivity|].
  cbn [concat_mapM List.concat]. rewrite Hap. cbn [bind]. rewrite IH, mapM_app. reflexivity.
Qed.

(** * 1. The record of one Sid *)

Lemma dget_stored_record d k : dget (stored_record d) k = option_map Some (dget d k).
Proof. exact (dget_map_some d k). Qed.

Lemma stored_record_keys d : map fst (stored_record d) = dkeys d.
Proof. unfold stored_record, dkeys. rewrite map_map. reflexivity. Qed.

Lemma with_sid_unfold enc x data :
  with_sid enc x data = match encode enc x with
                        | Some e => if truthy e then dset data "sid" (Some e) else data
                        | None => data
                        end.
Proof. unfold with_sid, sid_entry. destruct (encode enc x) as [e|]; [destruct (truthy e)|]; reflexivity. Qed.

(* the value under any key of the full mapping *)
Lemma rec_val_with_sid stored x enc k :
  rec_val (with_sid enc x (stored_record stored)) k = full_val stored x enc k.
Proof.
  unfold rec_val, with_sid, full_val. destruct (sid_entry enc x) as [e|].
  - destruct (String.eqb k "sid") eqn:E.
    + apply String.eqb_eq in E. subst k. rewrite CrashProofs.dget_dset_same. reflexivity.
    + apply String.eqb_neq in E. rewrite CrashProofs.dget_dset_other by congruence.
      rewrite dget_stored_record. destruct (dget stored k); reflexivity.
  - rewrite dget_stored_record. destruct (dget stored k); reflexivity.
Qed.

(* no attributes list: the stored data, plus "sid" when the encoder gives a truthy string *)
Theorem record_from_full stored x enc :
  record_from stored x [] enc = with_sid enc x (stored_record stored) /\
  map fst (record_from stored x [] enc) = full_keys stored x enc.
Proof.
  split; [reflexivity|]. unfold record_from, full_keys, with_sid. cbn [project_record].
  destruct (sid_entry enc x) as [e|]; [|apply stored_record_keys].
  rewrite dset_keys, stored_record_keys. reflexivity.
Qed.

(* with an attributes list: exactly those keys, in that order, missing ones None *)
Theorem record_from_attrs stored x attrs enc : attrs <> [] ->
  record_from stored x attrs enc = map (fun k => (k, full_val stored x enc k)) attrs /\
  map fst (record_from stored x attrs enc) = attrs.
Proof.
  intros Ha. assert (E : record_from stored x attrs enc = map (fun k => (k, full_val stored x enc k)) attrs).
  { unfold record_from. destruct attrs as [|a attrs]; [congruence|]. unfold project_record.
    apply map_ext. intros k. fold (rec_val (with_sid enc x (stored_record stored)) k).
    rewrite rec_val_with_sid. reflexivity. }
  split; [exact E|]. rewrite E, map_map. cbn [fst]. apply map_id.
Qed.

(* every key of the record carries the value of the full mapping (None when it is not stored) *)
Theorem record_from_value stored x attrs enc k : In k (map fst (record_from stored x attrs enc)) ->
  dget (record_from stored x attrs enc) k = Some (full_val stored x enc k).
Proof.
  destruct attrs as [|a attrs].
  - intros H. destruct (dget_in_keys _ k H) as (v & Hv). rewrite Hv. f_equal.
    rewrite <- rec_val_with_sid. unfold rec_val. cbn [record_from project_record] in Hv.
    unfold record_from in Hv. cbn [project_record] in Hv. rewrite Hv. reflexivity.
  - intros H. assert (Hne : a :: attrs <> []) by discriminate.
    destruct (record_from_attrs stored x (a :: attrs) enc Hne) as (E & Hk). rewrite Hk in H. rewrite E.
    exact (dget_map_keys (full_val stored x enc) (a :: attrs) k H).
Qed.

Lemma full_val_sid stored x enc e : sid_entry enc x = Some e -> full_val stored x enc "sid" = Some e.
Proof. intros H. unfold full_val. rewrite H. reflexivity. Qed.

Lemma full_val_other stored x enc k : k <> "sid" -> full_val stored x enc k = dget stored k.
Proof.
  intros H. unfold full_val. destruct (sid_entry enc x); [|reflexivity].
  apply String.eqb_neq in H. rewrite H. reflexivity.
Qed.

Lemma full_keys_sid stored x enc e : sid_entry enc x = Some e -> In "sid" (full_keys stored x enc).
Proof.
  intros H. unfold full_keys. rewrite H. destruct (in_list "sid" (dkeys stored)) eqn:E.
  - apply in_list_In. exact E.
  - apply in_or_app. right. left. reflexivity.
Qed.

Section Proofs.
Variables (c : Conf) (Ld : Loaded) (Rt : Routing).
Hypothesis Hload : load c = Some Ld.
Hypothesis Hwf : wf_loadedb Ld = true.

(* [get_data_paths] in terms of [record_from] *)
Lemma get_data_paths_record F cfg x attrs enc r : get_data_paths Ld F cfg x attrs enc = Ok r ->
  (sid_path Ld x (default_cfg Ld cfg) = Ok None /\ r = []) \/
  (exists p, sid_path Ld x (default_cfg Ld cfg) = Ok (Some p) /\
             r = record_from (load_sidecar F (sidecar Ld p)) x attrs enc).
Proof.
  intros H. destruct (get_data_paths_inv Ld F cfg x attrs enc r H) as [G | (p & Hp & E)]; [left; exact G|].
  right. exists p. split; [exact Hp|]. rewrite E. unfold record_from. rewrite with_sid_unfold. reflexivity.
Qed.

Lemma get_data_paths_path F cfg x attrs enc p : sid_path Ld x (default_cfg Ld cfg) = Ok (Some p) ->
  get_data_paths Ld F cfg x attrs enc = Ok (record_from (load_sidecar F (sidecar Ld p)) x attrs enc).
Proof.
  intros Hp. unfold get_data_paths. rewrite Hp. cbn [bind]. unfold record_from. rewrite with_sid_unfold. reflexivity.
Qed.

Lemma record_of_intro store cfg attrs enc s x p :
  Sid Ld s = Ok x -> sid_path Ld x (default_cfg Ld cfg) = Ok (Some p) ->
  record_of Ld store cfg attrs enc s (record_from (store (sidecar Ld p)) x attrs enc).
Proof.
  intros Hs Hp. exists x. split; [exact Hs|]. right. exists p. split; [exact Hp|]. split; [reflexivity|].
  split; [|split].
  - intros ->. apply record_from_full.
  - intros Ha. apply (record_from_attrs _ x attrs enc Ha).
  - intros k. apply record_from_value.
Qed.

(** ** get_paths_records: the first sentence of the property, for every tree *)
Theorem get_paths_records F cfg s attrs enc recs : get_paths Ld F cfg s attrs enc = Ok recs ->
  exists found, ffind Ld F (FPaths "" (default_cfg Ld cfg)) s = Ok found /\
    List.length recs = List.length found /\
    Forall2 (record_of Ld (load_sidecar F) cfg attrs enc) found recs.
Proof using Hload Hwf.
  intros H. destruct (get_is_map_of_find c Ld Hload Hwf F cfg s attrs enc recs H) as (found & Hf & Hl & Hall).
  exists found. split; [exact Hf|]. split; [exact Hl|].
  revert Hall. apply Forall2_impl'. intros s0 r (x & Hs & Hg).
  destruct (get_data_paths_record F cfg x attrs enc r Hg) as [(Hn & ->) | (p & Hp & ->)].
  - exists x. split; [exact Hs|]. left. split; [exact Hn | reflexivity].
  - exact (record_of_intro (load_sidecar F) cfg attrs enc s0 x p Hs Hp).
Qed.

(* the same by positions *)
Corollary get_paths_records_nth F cfg s attrs enc recs : get_paths Ld F cfg s attrs enc = Ok recs ->
  exists found, ffind Ld F (FPaths "" (default_cfg Ld cfg)) s = Ok found /\
    List.length recs = List.length found /\
    forall i si, nth_error found i = Some si ->
      exists r, nth_error recs i = Some r /\ record_of Ld (load_sidecar F) cfg attrs enc si r.
Proof using Hload Hwf.
  intros H. destruct (get_paths_records F cfg s attrs enc recs H) as (found & Hf & Hl & Hall).
  exists found. split; [exact Hf|]. split; [exact Hl|]. exact (Forall2_nth_error _ _ _ Hall).
Qed.

(* and conversely: [get_paths] succeeds as soon as the finder does and every found string re-reads as a Sid
   whose path can be formatted *)
Theorem get_paths_total F cfg s attrs enc found :
  ffind Ld F (FPaths "" (default_cfg Ld cfg)) s = Ok found ->
  (forall si, In si found -> exists x po, Sid Ld si = Ok x /\ sid_path Ld x (default_cfg Ld cfg) = Ok po) ->
  exists recs, get_paths Ld F cfg s attrs enc = Ok recs.
Proof using Hload Hwf.
  intros Hf Hall. unfold get_paths. rewrite Hf. cbn [bind]. clear Hf.
  induction found as [|si found IH]; [eexists; reflexivity|]. cbn [mapM].
  destruct (Hall si (or_introl eq_refl)) as (x & po & Hs & Hp). rewrite Hs. cbn [bind].
  unfold get_data_paths at 1. rewrite Hp. cbn [bind].
  destruct (IH (fun sj Hj => Hall sj (or_intror Hj))) as (recs & ->). cbn [bind].
  destruct po; eexists; reflexivity.
Qed.


(** * 2. After a history of create / set / update calls *)

Lemma record_of_ext store store' cfg attrs enc s r : (forall dp, store dp = store' dp) ->
  record_of Ld store cfg attrs enc s r -> record_of Ld store' cfg attrs enc s r.
Proof.
  intros E (x & Hs & [G | (p & Hp & G)]); exists x; (split; [exact Hs|]); [left; exact G|].
  right. exists p. split; [exact Hp|]. rewrite <- (E (sidecar Ld p)). exact G.
Qed.

(* what any sidecar holds after the history *)
Lemma load_after_history F0 ops dp : hist_nodupb ops = true ->
  load_sidecar (fst (run_hist Ld Rt F0 ops)) dp = overlay Ld Rt F0 ops dp.
Proof. intros Hg. exact (data_history Ld Rt ops F0 dp Hg). Qed.

(* a sidecar that no call succeeded to write holds what it held *)
Lemma overlay_untouched F0 ops dp : ~ In dp (written_targets Ld Rt F0 ops) -> overlay Ld Rt F0 ops dp = load_sidecar F0 dp.
Proof. intros H. unfold overlay. rewrite (writes_to_not_written Ld Rt ops F0 dp H). reflexivity. Qed.

(* the record of one Sid after the history, for any attributes list ([data_history_read] is the case attrs = []) *)
Theorem get_data_after_history F0 ops cfg x p attrs enc : hist_nodupb ops = true ->
  sid_path Ld x (default_cfg Ld cfg) = Ok (Some p) ->
  get_data_paths Ld (fst (run_hist Ld Rt F0 ops)) cfg x attrs enc =
  Ok (record_from (overlay Ld Rt F0 ops (sidecar Ld p)) x attrs enc).
Proof.
  intros Hg Hp. rewrite (get_data_paths_path _ cfg x attrs enc p Hp), (load_after_history F0 ops _ Hg). reflexivity.
Qed.

(** ** get_paths_after_history: every record of [get_paths] over the tree a history leaves is built from the overlay of the
    writes to the sidecar of its Sid, for every initial tree and whatever the finder finds in the final tree *)
Theorem get_paths_after_history F0 ops cfg s attrs enc recs : hist_nodupb ops = true ->
  get_paths Ld (fst (run_hist Ld Rt F0 ops)) cfg s attrs enc = Ok recs ->
  exists found, ffind Ld (fst (run_hist Ld Rt F0 ops)) (FPaths "" (default_cfg Ld cfg)) s = Ok found /\
    List.length recs = List.length found /\
    Forall2 (record_of Ld (overlay Ld Rt F0 ops) cfg attrs enc) found recs.
Proof using Hload Hwf.
  intros Hg H. destruct (get_paths_records _ cfg s attrs enc recs H) as (found & Hf & Hl & Hall).
  exists found. split; [exact Hf|]. split; [exact Hl|]. revert Hall. apply Forall2_impl'. intros s0 r.
  apply record_of_ext. intros dp. exact (load_after_history F0 ops dp Hg).
Qed.

(* by positions, the record spelled out *)
Corollary get_paths_after_history_nth F0 ops cfg s attrs enc recs : hist_nodupb ops = true ->
  get_paths Ld (fst (run_hist Ld Rt F0 ops)) cfg s attrs enc = Ok recs ->
  exists found, ffind Ld (fst (run_hist Ld Rt F0 ops)) (FPaths "" (default_cfg Ld cfg)) s = Ok found /\
    List.length recs = List.length found /\
    forall i si, nth_error found i = Some si ->
      exists r x, nth_error recs i = Some r /\ Sid Ld si = Ok x /\
        ((sid_path Ld x (default_cfg Ld cfg) = Ok None /\ r = []) \/
         (exists p, sid_path Ld x (default_cfg Ld cfg) = Ok (Some p) /\
            r = project_record (with_sid enc x (stored_record
                   (fold_left dupdate (writes_to Ld Rt (sidecar Ld p) F0 ops) (load_sidecar F0 (sidecar Ld p))))) attrs)).
Proof using Hload Hwf.
  intros Hg H. destruct (get_paths_after_history F0 ops cfg s attrs enc recs Hg H) as (found & Hf & Hl & Hall).
  exists found. split; [exact Hf|]. split; [exact Hl|]. intros i si Hi.
  destruct (Forall2_nth_error _ _ _ Hall i si Hi) as (r & Hr & x & Hs & G). exists r, x. split; [exact Hr|]. split; [exact Hs|].
  destruct G as [G | (p & Hp & E & _)]; [left; exact G|]. right. exists p. split; [exact Hp | exact E].
Qed.

(** * 3. GetFromAll (grouped by Getter, after the repair of D30) *)

(** ** the groups *)

Local Notation gstep := (fun acc q => match getter_for Rt (s_type q) false with
                                      | GPaths cfg => add_to_getter_group cfg q acc
                                      | _ => acc
                                      end).

Definition glookup (G : list (string * list sid)) (cfg : string) : list sid :=
  match dget G cfg with Some l => l | None => [] end.

Lemma add_group_lookup cfg q : forall G kc,
  glookup (add_to_getter_group cfg q G) kc = if String.eqb kc cfg then (glookup G kc ++ [q])%list else glookup G kc.
Proof.
  unfold glookup. induction G as [|[c0 l0] G IH]; intros kc; cbn [add_to_getter_group dget].
  - destruct (String.eqb kc cfg); reflexivity.
  - destruct (String.eqb c0 cfg) eqn:E0; cbn [dget].
    + apply String.eqb_eq in E0. subst c0. destruct (String.eqb kc cfg); reflexivity.
    + destruct (String.eqb kc c0) eqn:E1; [|exact (IH kc)].
      apply String.eqb_eq in E1. subst c0. rewrite E0. reflexivity.
Qed.

Lemma add_group_keys cfg q : forall G,
  map fst (add_to_getter_group cfg q G) = if in_list cfg (map fst G) then map fst G else (map fst G ++ [cfg])%list.
Proof.
  induction G as [|[c0 l0] G IH]; cbn [add_to_getter_group map fst in_list existsb]; [reflexivity|].
  rewrite (String.eqb_sym cfg c0). destruct (String.eqb c0 cfg); cbn [map fst orb]; [reflexivity|].
  rewrite IH. fold (in_list cfg (map fst G)). destruct (in_list cfg (map fst G)); reflexivity.
Qed.

Lemma add_group_nonempty cfg q : forall G, Forall (fun g => snd g <> []) G ->
  Forall (fun g => snd g <> []) (add_to_getter_group cfg q G).
Proof.
  induction G as [|[c0 l0] G IH]; intros H; cbn [add_to_getter_group].
  - constructor; [discriminate | constructor].
  - inversion H as [|? ? H0 Ht]; subst. destruct (String.eqb c0 cfg).
    + constructor; [|exact Ht]. cbn [snd]. destruct l0; discriminate.
    + constructor; [exact H0 | exact (IH Ht)].
Qed.

Lemma add_group_nodup cfg q G : NoDup (map fst G) -> NoDup (map fst (add_to_getter_group cfg q G)).
Proof.
  intros H. rewrite add_group_keys. destruct (in_list cfg (map fst G)) eqn:E; [exact H|].
  apply in_list_false in E. apply NoDup_snoc; assumption.
Qed.

Lemma fold_groups_inv : forall qs G, NoDup (map fst G) -> Forall (fun g => snd g <> []) G ->
  NoDup (map fst (fold_left gstep qs G)) /\ Forall (fun g => snd g <> []) (fold_left gstep qs G) /\
  forall kc, glookup (fold_left gstep qs G) kc = (glookup G kc ++ filter (routed_to Rt kc) qs)%list.
Proof.
  induction qs as [|q qs IH]; intros G Hnd Hne; cbn [fold_left filter].
  - split; [exact Hnd|]. split; [exact Hne|]. intros kc. rewrite app_nil_r. reflexivity.
  - unfold routed_to at 1. destruct (getter_for Rt (s_type q) false) as [cfg| |] eqn:Eg.
    + destruct (IH _ (add_group_nodup cfg q G Hnd) (add_group_nonempty cfg q G Hne)) as (I1 & I2 & I3).
      split; [exact I1|]. split; [exact I2|]. intros kc. rewrite I3, add_group_lookup.
      rewrite (String.eqb_sym cfg kc). destruct (String.eqb kc cfg); [rewrite <- app_assoc|]; reflexivity.
    + destruct (IH G Hnd Hne) as (I1 & I2 & I3). split; [exact I1|]. split; [exact I2|]. exact I3.
    + destruct (IH G Hnd Hne) as (I1 & I2 & I3). split; [exact I1|]. split; [exact I2|]. exact I3.
Qed.

Lemma dget_of_In {V} : forall (d : dict V) k v, NoDup (map fst d) -> In (k, v) d -> dget d k = Some v.
Proof.
  induction d as [|[k0 v0] d IH]; intros k v Hnd Hin; [destruct Hin|]. cbn [dget]. cbn [map fst] in Hnd.
  inversion Hnd as [|? ? Hk0 Hnd']; subst. destruct Hin as [E | Hin].
  - inversion E; subst. rewrite String.eqb_refl. reflexivity.
  - destruct (String.eqb k k0) eqn:E; [|exact (IH k v Hnd' Hin)].
    apply String.eqb_eq in E. subst k0. exfalso. apply Hk0. apply in_map_iff. exists (k, v). auto.
Qed.

Lemma In_of_dget {V} : forall (d : dict V) k v, dget d k = Some v -> In (k, v) d.
Proof.
  induction d as [|[k0 v0] d IH]; intros k v H; cbn [dget] in H; [discriminate|].
  destruct (String.eqb k k0) eqn:E.
  - apply String.eqb_eq in E. inversion H; subst. left. reflexivity.
  - right. exact (IH k v H).
Qed.

(** what [group_by_getter] is: one group per path configuration that serves one of the typed searches (no configuration
    twice), holding, in order, exactly the typed searches it serves *)
Theorem group_by_getter_spec qs :
  NoDup (map fst (group_by_getter Rt qs)) /\
  (forall g, In g (group_by_getter Rt qs) -> snd g = filter (routed_to Rt (fst g)) qs /\ snd g <> []) /\
  (forall q cfg, In q qs -> getter_for Rt (s_type q) false = GPaths cfg ->
     In (cfg, filter (routed_to Rt cfg) qs) (group_by_getter Rt qs)).
Proof.
  unfold group_by_getter.
  destruct (fold_groups_inv qs [] (NoDup_nil _) (Forall_nil _)) as (Hnd & Hne & Hl).
  split; [exact Hnd|]. split.
  - intros [kc l] Hg. cbn [fst snd]. rewrite Forall_forall in Hne. split; [|exact (Hne _ Hg)].
    pose proof (Hl kc) as E. unfold glookup at 1 in E. rewrite (dget_of_In _ kc l Hnd Hg) in E. exact E.
  - intros q cfg Hq Hg. pose proof (Hl cfg) as E. cbn [glookup dget app] in E. unfold glookup in E.
    assert (Hin : In q (filter (routed_to Rt cfg) qs)).
    { apply filter_In. split; [exact Hq|]. unfold routed_to. rewrite Hg. apply String.eqb_refl. }
    destruct (dget (fold_left gstep qs []) cfg) as [l|] eqn:Ed.
    + change (match @dget (list sid) [] cfg with Some l0 => l0 | None => [] end) with (@nil sid) in E. cbn [app] in E.
      subst l. exact (In_of_dget _ cfg _ Ed).
    + change (match @dget (list sid) [] cfg with Some l0 => l0 | None => [] end) with (@nil sid) in E. cbn [app] in E.
      rewrite <- E in Hin. destruct Hin.
Qed.

(* the typed searches without a path getter are in no group: they can be left out *)
Lemma fold_groups_filter : forall qs G, fold_left gstep qs G = fold_left gstep (filter (has_path_getter Rt) qs) G.
Proof.
  induction qs as [|q qs IH]; intros G; [reflexivity|]. cbn [filter fold_left]. unfold has_path_getter at 1.
  destruct (getter_for Rt (s_type q) false) as [cfg| |] eqn:Eg; cbn [fold_left]; [rewrite Eg|..]; apply IH.
Qed.

Theorem group_by_getter_filter qs : group_by_getter Rt qs = group_by_getter Rt (filter (has_path_getter Rt) qs).
Proof. exact (fold_groups_filter qs []). Qed.

Lemma fold_groups_one cfg' : forall qs l0, (forall q, In q qs -> getter_for Rt (s_type q) false = GPaths cfg') ->
  fold_left gstep qs [(cfg', l0)] = [(cfg', (l0 ++ qs)%list)].
Proof.
  induction qs as [|q qs IH]; intros l0 H; cbn [fold_left]; [rewrite app_nil_r; reflexivity|].
  rewrite (H q (or_introl eq_refl)). cbn [add_to_getter_group]. rewrite String.eqb_refl.
  rewrite (IH _ (fun q' Hq' => H q' (or_intror Hq'))), <- app_assoc. reflexivity.
Qed.

(* every typed search is served by the same path configuration: ONE group, the whole unfolding *)
Theorem group_by_getter_all cfg' qs : (forall q, In q qs -> getter_for Rt (s_type q) false = GPaths cfg') ->
  group_by_getter Rt qs = match qs with [] => [] | _ => [(cfg', qs)] end.
Proof.
  intros H. unfold group_by_getter. destruct qs as [|q qs]; [reflexivity|]. cbn [fold_left].
  rewrite (H q (or_introl eq_refl)). cbn [add_to_getter_group].
  exact (fold_groups_one cfg' qs [q] (fun q' Hq' => H q' (or_intror Hq'))).
Qed.

(* the mixed case: the searches without path getter are dropped from the group *)
Theorem group_by_getter_one cfg' qs :
  (forall q cfg, In q qs -> getter_for Rt (s_type q) false = GPaths cfg -> cfg = cfg') ->
  group_by_getter Rt qs = match filter (has_path_getter Rt) qs with [] => [] | l => [(cfg', l)] end.
Proof.
  intros H. rewrite group_by_getter_filter, (group_by_getter_all cfg' (filter (has_path_getter Rt) qs)).
  { destruct (filter (has_path_getter Rt) qs); reflexivity. }
  intros q Hq. apply filter_In in Hq.
  destruct Hq as (Hq & Hp). unfold has_path_getter in Hp.
  destruct (getter_for Rt (s_type q) false) as [cfg| |] eqn:Eg; try discriminate.
  rewrite (H q cfg Hq Eg) in *. reflexivity.
Qed.

(** ** get_all_is_concat: the concatenation, over the groups, of what each group's Getter returns for the whole group *)
Theorem get_all_is_concat F s attrs enc :
  get_all Ld Rt F s attrs enc =
  (do qs <- unfold_search Ld s false false;
   do parts <- mapM (get_all_group Ld F attrs enc) (group_by_getter Rt qs);
   Ok (List.concat parts)).
Proof.
  unfold get_all. destruct (unfold_search Ld s false false) as [qs|e]; cbn [bind]; [|reflexivity].
  rewrite <- concat_mapM_as_mapM. reflexivity.
Qed.

Corollary get_all_ok_iff F s attrs enc qs recs : unfold_search Ld s false false = Ok qs ->
  (get_all Ld Rt F s attrs enc = Ok recs <->
   exists parts, Forall2 (fun g part => get_all_group Ld F attrs enc g = Ok part) (group_by_getter Rt qs) parts /\
                 recs = List.concat parts).
Proof.
  intros Hu. unfold get_all. rewrite Hu. cbn [bind].
  apply (concat_mapM_ok_iff (get_all_group Ld F attrs enc) (group_by_getter Rt qs) recs).
Qed.

Corollary get_all_flat_map F s attrs enc qs (h : string * list sid -> list record) : unfold_search Ld s false false = Ok qs ->
  (forall g, In g (group_by_getter Rt qs) -> get_all_group Ld F attrs enc g = Ok (h g)) ->
  get_all Ld Rt F s attrs enc = Ok (flat_map h (group_by_getter Rt qs)).
Proof.
  intros Hu Hg. unfold get_all. rewrite Hu. cbn [bind].
  exact (concat_mapM_flat (get_all_group Ld F attrs enc) h (group_by_getter Rt qs) Hg).
Qed.

(** ** get_all_no_getter_types: the typed searches whose type has no path getter are in no group ... *)
Theorem get_all_no_getter_types F s attrs enc :
  get_all Ld Rt F s attrs enc =
  (do qs <- unfold_search Ld s false false;
   concat_mapM (get_all_group Ld F attrs enc) (group_by_getter Rt (filter (has_path_getter Rt) qs))).
Proof.
  unfold get_all. destruct (unfold_search Ld s false false) as [qs|e]; cbn [bind]; [|reflexivity].
  rewrite <- group_by_getter_filter. reflexivity.
Qed.

Lemma routed_has_getter cfg q : routed_to Rt cfg q = true -> getter_for Rt (s_type q) false = GPaths cfg.
Proof.
  unfold routed_to. destruct (getter_for Rt (s_type q) false) as [c0| |]; try discriminate.
  intros H. apply String.eqb_eq in H. subst c0. reflexivity.
Qed.

Corollary group_member qs g q : In g (group_by_getter Rt qs) -> In q (snd g) ->
  In q qs /\ getter_for Rt (s_type q) false = GPaths (fst g).
Proof.
  intros Hg Hq. destruct (group_by_getter_spec qs) as (_ & Hs & _). destruct (Hs g Hg) as (E & _).
  rewrite E in Hq. apply filter_In in Hq. destruct Hq as (Hq & Hr). split; [exact Hq | exact (routed_has_getter _ q Hr)].
Qed.

(* ... and never make it fail: a failure of get_all is a failure of the unfolding or of the Getter of one of the groups *)
Theorem get_all_raise F s attrs enc e : get_all Ld Rt F s attrs enc = Raise e ->
  unfold_search Ld s false false = Raise e \/
  exists qs g, unfold_search Ld s false false = Ok qs /\ In g (group_by_getter Rt qs) /\
    snd g = filter (routed_to Rt (fst g)) qs /\ snd g <> [] /\
    do_get_paths Ld F (fst g) (snd g) attrs enc = Raise e.
Proof.
  unfold get_all. destruct (unfold_search Ld s false false) as [qs|e'] eqn:Hu; cbn [bind].
  - intros H. right. apply concat_mapM_raise in H. destruct H as (g & Hg & H).
    destruct (group_by_getter_spec qs) as (_ & Hs & _). destruct (Hs g Hg) as (E & Hne).
    exists qs, g. auto.
  - intros H. left. inversion H. reflexivity.
Qed.

(* the records all come from a group, i.e. from typed searches with that path getter *)
Corollary get_all_records_from F s attrs enc recs r : get_all Ld Rt F s attrs enc = Ok recs -> In r recs ->
  exists qs g part, unfold_search Ld s false false = Ok qs /\ In g (group_by_getter Rt qs) /\
    snd g = filter (routed_to Rt (fst g)) qs /\ snd g <> [] /\
    do_get_paths Ld F (fst g) (snd g) attrs enc = Ok part /\ In r part.
Proof.
  unfold get_all. destruct (unfold_search Ld s false false) as [qs|e'] eqn:Hu; cbn [bind]; [|discriminate].
  intros H Hr. destruct (concat_mapM_In _ _ recs r H Hr) as (g & part & Hg & Hp & Hin).
  destruct (group_by_getter_spec qs) as (_ & Hs & _). destruct (Hs g Hg) as (E & Hne).
  exists qs, g, part. split; [reflexivity|]. split; [exact Hg|]. split; [exact E|]. split; [exact Hne|].
  split; [exact Hp | exact Hin].
Qed.

(** ** GetFromAll = GetFromPaths when one path configuration serves the search *)

Lemma ffind_paths_eq F cfg s x : Sid Ld s = Ok x ->
  ffind Ld F (FPaths "" cfg) s =
  if shortcut Ld s then do_find_g Ld (paths_star Ld F cfg) [x]
  else (do qs <- unfold_search Ld s false false; do_find_g Ld (paths_star Ld F cfg) qs).
Proof.
  intros Hs. unfold ffind. rewrite find_g_via_searches. cbn [fstar]. unfold find_searches.
  rewrite shortcut_direct, Hs. cbn [bind]. destruct (find_direct Ld x); reflexivity.
Qed.

Lemma do_get_paths_nil F cfg attrs enc : do_get_paths Ld F cfg [] attrs enc = Ok [].
Proof. reflexivity. Qed.

(* whatever the routing: if the typed searches with a path getter all have the configuration cfg', GetFromAll is do_get of
   GetFromPaths(cfg') on those typed searches (the others are dropped) *)
Theorem get_all_one_getter F s attrs enc cfg' qs : unfold_search Ld s false false = Ok qs ->
  (forall q cfg, In q qs -> getter_for Rt (s_type q) false = GPaths cfg -> cfg = cfg') ->
  get_all Ld Rt F s attrs enc = do_get_paths Ld F cfg' (filter (has_path_getter Rt) qs) attrs enc.
Proof.
  intros Hu H. unfold get_all. rewrite Hu. cbn [bind]. rewrite (group_by_getter_one cfg' qs H).
  destruct (filter (has_path_getter Rt) qs) as [|q l]; [reflexivity|]. rewrite concat_mapM_one. reflexivity.
Qed.

Lemma filter_all {A} (f : A -> bool) : forall l, (forall a, In a l -> f a = true) -> filter f l = l.
Proof.
  induction l as [|a l IH]; intros H; [reflexivity|]. cbn [filter]. rewrite (H a (or_introl eq_refl)).
  f_equal. apply IH. intros b Hb. apply H. right. exact Hb.
Qed.

(** ** get_all_eq_get_paths: EVERY typed search of the unfolding is served by the path configuration cfg' (and the search
    re-reads as a Sid, and Finder.find does not take its shortcut): GetFromAll IS GetFromPaths(cfg').  No independence and no
    "no last search" hypothesis: the one group is searched by one do_find, as FindInPaths.find does. *)
Theorem get_all_eq_get_paths F s attrs enc x qs cfg' : Sid Ld s = Ok x -> shortcut Ld s = false ->
  unfold_search Ld s false false = Ok qs ->
  (forall q, In q qs -> getter_for Rt (s_type q) false = GPaths cfg') ->
  group_by_getter Rt qs = match qs with [] => [] | _ => [(cfg', qs)] end /\
  get_all Ld Rt F s attrs enc = get_paths Ld F cfg' s attrs enc.
Proof.
  intros Hs Hsc Hu Hg. split; [exact (group_by_getter_all cfg' qs Hg)|].
  rewrite (get_all_one_getter F s attrs enc cfg' qs Hu).
  2:{ intros q cfg Hq E. rewrite (Hg q Hq) in E. inversion E. reflexivity. }
  rewrite filter_all.
  2:{ intros q Hq. unfold has_path_getter. rewrite (Hg q Hq). reflexivity. }
  unfold do_get_paths, get_paths. rewrite (ffind_paths_eq F _ s x Hs), Hsc, Hu. reflexivity.
Qed.

(* the mixed case: some types have no path getter; GetFromAll is GetFromPaths(cfg') restricted to the served typed searches *)
Theorem get_all_eq_get_paths_mixed F s attrs enc x qs cfg' : Sid Ld s = Ok x -> shortcut Ld s = false ->
  unfold_search Ld s false false = Ok qs ->
  (forall q cfg, In q qs -> getter_for Rt (s_type q) false = GPaths cfg -> cfg = cfg') ->
  group_by_getter Rt qs = match filter (has_path_getter Rt) qs with [] => [] | l => [(cfg', l)] end /\
  get_all Ld Rt F s attrs enc =
  (do found <- do_find_g Ld (paths_star Ld F (default_cfg Ld cfg')) (filter (has_path_getter Rt) qs);
   mapM (fun s0 => do x0 <- Sid Ld s0; get_data_paths Ld F cfg' x0 attrs enc) found) /\
  ffind Ld F (FPaths "" (default_cfg Ld cfg')) s = do_find_g Ld (paths_star Ld F (default_cfg Ld cfg')) qs.
Proof.
  intros Hs Hsc Hu Hg. split; [exact (group_by_getter_one cfg' qs Hg)|]. split.
  - rewrite (get_all_one_getter F s attrs enc cfg' qs Hu Hg). reflexivity.
  - rewrite (ffind_paths_eq F _ s x Hs), Hsc, Hu. reflexivity.
Qed.

(** ** get_all_single: one typed search -> one group of one *)
Theorem get_all_single F s attrs enc x q cfg' : Sid Ld s = Ok x ->
  unfold_search Ld s false false = Ok [q] ->
  getter_for Rt (s_type q) false = GPaths cfg' ->
  (shortcut Ld s = false \/ q = x) ->
  get_all Ld Rt F s attrs enc = get_paths Ld F cfg' s attrs enc.
Proof.
  intros Hs Hu Hg Hsc. unfold get_all. rewrite Hu. cbn [bind]. unfold group_by_getter. cbn [fold_left]. rewrite Hg.
  cbn [add_to_getter_group]. rewrite concat_mapM_one. cbn [fst snd].
  unfold do_get_paths, get_paths. rewrite (ffind_paths_eq F _ s x Hs), Hu. cbn [bind].
  destruct (shortcut Ld s); [|reflexivity]. destruct Hsc as [Hsc | ->]; [discriminate | reflexivity].
Qed.

(** ** get_all_length: the records of GetFromAll are, one for one and in order, those of the Sids FindInPaths(cfg') finds *)
Theorem get_all_length F s attrs enc x qs cfg' recs : Sid Ld s = Ok x -> shortcut Ld s = false ->
  unfold_search Ld s false false = Ok qs ->
  (forall q, In q qs -> getter_for Rt (s_type q) false = GPaths cfg') ->
  get_all Ld Rt F s attrs enc = Ok recs ->
  exists found, ffind Ld F (FPaths "" (default_cfg Ld cfg')) s = Ok found /\
    List.length recs = List.length found /\
    Forall2 (record_of Ld (load_sidecar F) cfg' attrs enc) found recs.
Proof using Hload Hwf.
  intros Hs Hsc Hu Hg H. rewrite (proj2 (get_all_eq_get_paths F s attrs enc x qs cfg' Hs Hsc Hu Hg)) in H.
  exact (get_paths_records F cfg' s attrs enc recs H).
Qed.

(** * 4. get_data / get_attr *)

(* GetFromAll.get_data(sid): the record of that Sid from the path getter of its type *)
Theorem get_data_all_is_record F s attrs enc x cfg : Sid Ld s = Ok x ->
  getter_for Rt (s_type x) false = GPaths cfg ->
  get_data_all Ld Rt F s attrs enc = get_data_paths Ld F cfg x attrs enc.
Proof. intros Hs Hg. unfold get_data_all. rewrite Hs. cbn [bind]. rewrite Hg. reflexivity. Qed.

(* ... and nothing for a type without one *)
Theorem get_data_all_no_getter F s attrs enc x : Sid Ld s = Ok x ->
  (forall cfg, getter_for Rt (s_type x) false <> GPaths cfg) ->
  get_data_all Ld Rt F s attrs enc = Ok [].
Proof.
  intros Hs Hg. unfold get_data_all. rewrite Hs. cbn [bind].
  destruct (getter_for Rt (s_type x) false) as [cfg| |]; [exfalso; exact (Hg cfg eq_refl) | reflexivity | reflexivity].
Qed.

(* Sid.get_attr(a): one value of the record get_data returns (python None when the key is missing, or when there is no getter) *)
Theorem get_attr_is_value F x a cfg : a <> "next.version" ->
  getter_for Rt (s_type x) false = GPaths cfg ->
  get_attr Ld Rt F x a = (do r <- get_data_paths Ld F cfg x [] EncStr; Ok (rec_val r a)).
Proof.
  intros Ha Hg. unfold get_attr. apply String.eqb_neq in Ha. rewrite Ha, Hg. reflexivity.
Qed.

(* spelled out: the stored value of the key, the string of the Sid for "sid", None otherwise *)
Corollary get_attr_value F x a cfg p : a <> "next.version" ->
  getter_for Rt (s_type x) false = GPaths cfg ->
  sid_path Ld x (default_cfg Ld cfg) = Ok (Some p) ->
  get_attr Ld Rt F x a = Ok (full_val (load_sidecar F (sidecar Ld p)) x EncStr a).
Proof.
  intros Ha Hg Hp. rewrite (get_attr_is_value F x a cfg Ha Hg), (get_data_paths_path F cfg x [] EncStr p Hp).
  cbn [bind]. unfold record_from. cbn [project_record]. rewrite rec_val_with_sid. reflexivity.
Qed.

Theorem get_attr_no_getter F x a : a <> "next.version" ->
  (forall cfg, getter_for Rt (s_type x) false <> GPaths cfg) -> get_attr Ld Rt F x a = Ok None.
Proof.
  intros Ha Hg. unfold get_attr. apply String.eqb_neq in Ha. rewrite Ha.
  destruct (getter_for Rt (s_type x) false) as [cfg| |]; [exfalso; exact (Hg cfg eq_refl) | reflexivity | reflexivity].
Qed.

End Proofs.

(** * 5. FindInPaths over several typed searches that are pairwise independent = the concatenation of the single searches *)

Lemma in_list_app x a b : in_list x (a ++ b)%list = in_list x a || in_list x b.
Proof. unfold in_list. apply existsb_app. Qed.

Section StarConcat.
Variable Ld : Loaded.
Variable cfg : string.
Variable F : fs.

(* the inner loop of star_search_simple from a state (fp0, res0) none of whose recorded paths the search q would accept:
   the same as from the empty state, put behind (fp0, res0) *)
Lemma inner_shift q : forall found fp0 res0 a b,
  (forall p, In p found -> In p fp0 -> exists x, sid_factory Ld (FromPath p cfg) = Ok x /\ accepts q x = false) ->
  fold_left (pstep Ld cfg q) found (Ok ((fp0 ++ a)%list, (res0 ++ b)%list)) =
  match fold_left (pstep Ld cfg q) found (Ok (a, b)) with
  | Ok (a', b') => Ok ((fp0 ++ a')%list, (res0 ++ b')%list)
  | Raise e => Raise e
  end.
Proof.
  induction found as [|p found IH]; intros fp0 res0 a b H; [reflexivity|].
  assert (H' : forall p0, In p0 found -> In p0 fp0 -> exists x, sid_factory Ld (FromPath p0 cfg) = Ok x /\ accepts q x = false).
  { intros p0 Hp0. apply H. right. exact Hp0. }
  cbn [fold_left]. rewrite !pstep_ok, in_list_app.
  destruct (in_list p a) eqn:Ea.
  - rewrite orb_true_r. exact (IH fp0 res0 a b H').
  - rewrite orb_false_r. destruct (in_list p fp0) eqn:E0.
    + apply in_list_In in E0. destruct (H p (or_introl eq_refl) E0) as (x & Hx & Hacc).
      rewrite Hx. cbn [bind]. rewrite Hacc. exact (IH fp0 res0 a b H').
    + destruct (sid_factory Ld (FromPath p cfg)) as [x|e]; cbn [bind].
      * destruct (accepts q x).
        -- rewrite <- !app_assoc. exact (IH fp0 res0 _ _ H').
        -- exact (IH fp0 res0 a b H').
      * rewrite !pstep_raise. reflexivity.
Qed.

Lemma fp_inv_nil : fp_inv Ld cfg [] [].
Proof. intros p []. Qed.

(* one search alone *)
Lemma paths_star_single q r : paths_star Ld F cfg [q] = Ok r ->
  exists po found a, sid_path Ld q cfg = Ok po /\ fs_glob F (pattern_str po) = Some found /\
    fold_left (pstep Ld cfg q) found (Ok ([], [])) = Ok (a, r).
Proof.
  rewrite paths_star_unfold. cbn [fold_left]. unfold ostep. cbn [bind].
  destruct (sid_path Ld q cfg) as [po|e]; cbn [bind]; [|discriminate]. cbn [existsb].
  fold (pattern_str po). destruct (fs_glob F (pattern_str po)) as [found|] eqn:Eg; [|discriminate].
  destruct (fold_left (pstep Ld cfg q) found (Ok ([], []))) as [[a b]|e] eqn:E; cbn [bind fst snd]; [|discriminate].
  intros H. inversion H; subst. exists po, found, a. auto.
Qed.

(* what one search alone finds: the Sids of the globbed paths it accepts *)
Lemma paths_star_single_In q r po found : paths_star Ld F cfg [q] = Ok r ->
  sid_path Ld q cfg = Ok po -> fs_glob F (pattern_str po) = Some found ->
  forall p x, In p found -> sid_factory Ld (FromPath p cfg) = Ok x -> accepts q x = true -> In (s_string x) r.
Proof.
  intros H Hpo Hgl p x Hp Hx Hacc. destruct (paths_star_single q r H) as (po' & found' & a & Hpo' & Hgl' & Hfold).
  rewrite Hpo in Hpo'. inversion Hpo'; subst po'. rewrite Hgl in Hgl'. inversion Hgl'; subst found'.
  pose proof (inner_spec Ld cfg q found [] [] fp_inv_nil) as Hs. rewrite Hfold in Hs.
  destruct Hs as (_ & _ & _ & Hres). apply Hres. right. exists p, x. auto.
Qed.

Definition searched_hit (sd : list (string * string)) (q : sid) (po : option string) : bool :=
  existsb (fun tp => String.eqb (fst tp) (s_type q) && String.eqb (snd tp) (pattern_str po)) sd.

Lemma outer_concat : forall qs parts sd fp res,
  Forall2 (fun q r => paths_star Ld F cfg [q] = Ok r) qs parts ->
  fp_inv Ld cfg fp res ->
  (forall q po, In q qs -> sid_path Ld q cfg = Ok po -> searched_hit sd q po = false) ->
  (forall q r s, In q qs -> paths_star Ld F cfg [q] = Ok r -> In s r -> ~ In s res) ->
  ForallOrdPairs (independent Ld F cfg) qs ->
  exists sd' fp', fold_left (ostep Ld cfg F) qs (Ok (sd, fp, res)) = Ok (sd', fp', (res ++ List.concat parts)%list).
Proof.
  induction qs as [|q qs IH]; intros parts sd fp res Hparts Hinv Hsd Hres Hind.
  - inversion Hparts; subst. cbn [fold_left List.concat]. rewrite app_nil_r. exists sd, fp. reflexivity.
  - inversion Hparts as [|q0 r qs0 parts' Hq Hrest]; subst. inversion Hind as [|q0 qs0 Hhd Htl]; subst.
    destruct (paths_star_single q r Hq) as (po & found & a & Hpo & Hgl & Hfold).
    assert (Hshift : fold_left (pstep Ld cfg q) found (Ok (fp, res)) = Ok ((fp ++ a)%list, (res ++ r)%list)).
    { rewrite <- (app_nil_r fp) at 1. rewrite <- (app_nil_r res) at 1. rewrite inner_shift, Hfold; [reflexivity|].
      intros p Hp Hfp. destruct (Hinv p Hfp) as (x & Hx & Hin). exists x. split; [exact Hx|].
      destruct (accepts q x) eqn:Hacc; [|reflexivity]. exfalso.
      apply (Hres q r (s_string x) (or_introl eq_refl) Hq); [|exact Hin].
      exact (paths_star_single_In q r po found Hq Hpo Hgl p x Hp Hx Hacc). }
    assert (Hinv' : fp_inv Ld cfg (fp ++ a) (res ++ r)).
    { pose proof (inner_spec Ld cfg q found fp res Hinv) as Hs. rewrite Hshift in Hs. exact (proj1 Hs). }
    cbn [fold_left]. unfold ostep at 2. cbn [bind]. rewrite Hpo. cbn [bind].
    fold (pattern_str po). fold (searched_hit sd q po). rewrite (Hsd q po (or_introl eq_refl) Hpo), Hgl, Hshift.
    cbn [bind fst snd].
    destruct (IH parts' (sd ++ [(s_type q, pattern_str po)])%list (fp ++ a)%list (res ++ r)%list Hrest Hinv') as (sd' & fp' & E).
    + intros q' po' Hq' Hpo'. unfold searched_hit. rewrite existsb_app. fold (searched_hit sd q' po').
      rewrite (Hsd q' po' (or_intror Hq') Hpo'). cbn [orb existsb fst snd]. rewrite orb_false_r.
      rewrite Forall_forall in Hhd. destruct (Hhd q' Hq') as (Hdg & _). exact (Hdg po po' Hpo Hpo').
    + intros q' r' s Hq' Hr' Hs Hin. apply in_app_or in Hin. destruct Hin as [Hin | Hin].
      * exact (Hres q' r' s (or_intror Hq') Hr' Hs Hin).
      * rewrite Forall_forall in Hhd. destruct (Hhd q' Hq') as (_ & Hdj). exact (Hdj r r' Hq Hr' s Hin Hs).
    + exact Htl.
    + exists sd', fp'. rewrite E. cbn [List.concat]. rewrite app_assoc. reflexivity.
Qed.

(** FindInPaths.star_search over typed searches that glob pairwise different (type, pattern) pairs and whose single
    results are pairwise disjoint: the concatenation, in order, of the single results *)
Theorem paths_star_concat qs parts :
  Forall2 (fun q r => paths_star Ld F cfg [q] = Ok r) qs parts ->
  ForallOrdPairs (independent Ld F cfg) qs ->
  paths_star Ld F cfg qs = Ok (List.concat parts).
Proof.
  intros Hparts Hind. rewrite paths_star_unfold.
  destruct (outer_concat qs parts [] [] [] Hparts fp_inv_nil) as (sd' & fp' & E).
  - intros q po _ _. reflexivity.
  - intros q r s _ _ _ [].
  - exact Hind.
  - rewrite E. reflexivity.
Qed.

End StarConcat.

(** * 6. Over a data set: every found Sid has a path, so every record is the full one and GetFromPaths does not fail when
      FindInPaths does not *)

Lemma Forall2_and_left {A B} (P : A -> B -> Prop) (Q : A -> Prop) l1 l2 : Forall2 P l1 l2 -> (forall a, In a l1 -> Q a) ->
  Forall2 (fun a b => Q a /\ P a b) l1 l2.
Proof.
  induction 1 as [|a b l1 l2 Hab _ IH]; intros HQ; constructor.
  - split; [apply HQ; left; reflexivity | exact Hab].
  - apply IH. intros a0 Ha0. apply HQ. right. exact Ha0.
Qed.

Section Dataset.
Variables (c : Conf) (Ld : Loaded).
Hypothesis Hload : load c = Some Ld.
Hypothesis Hwf : wf_loadedb Ld = true.
Hypothesis Hpu : paths_unambiguousb Ld = true.
Variable cfg : string.
Variable E : list sid.
Variable F : fs.
Hypothesis HD : dataset_ok Ld (default_cfg Ld cfg) E F.
Hypothesis Hplain : forall e, In e E -> plain_member e.

(* what the tree finder finds over a data set (guard [tree_guard0]: the typed searches are good searches of C11) are strings
   of members; a member re-reads as itself and has a path *)
Lemma found_member s found : tree_guard0 Ld (default_cfg Ld cfg) s ->
  ffind Ld F (FPaths "" (default_cfg Ld cfg)) s = Ok found ->
  forall si, In si found -> exists x p, In x E /\ si = s_string x /\ Sid Ld si = Ok x /\
                                        sid_path Ld x (default_cfg Ld cfg) = Ok (Some p).
Proof using Hload Hwf Hpu HD Hplain.
  intros Hg Hf si Hsi. destruct (ffind_paths Ld F "" _ s found Hf) as (qs & Hfs & Hdf).
  destruct (Hg qs Hfs) as (Hqs & Hinj).
  apply (tree_do_find_typed c Ld Hload Hwf Hpu _ E F HD qs found Hqs Hinj Hdf) in Hsi.
  destruct Hsi as (x & q & Hx & _ & -> & _). destruct (ds_path _ _ _ _ HD x Hx) as (p & Hp & _).
  exists x, p. split; [exact Hx|]. split; [reflexivity|]. split; [|exact Hp].
  exact (Sid_member c Ld Hload Hwf _ E F HD x Hx (Hplain x Hx)).
Qed.

Theorem get_paths_records_dataset s attrs enc recs : tree_guard0 Ld (default_cfg Ld cfg) s ->
  get_paths Ld F cfg s attrs enc = Ok recs ->
  exists found, ffind Ld F (FPaths "" (default_cfg Ld cfg)) s = Ok found /\
    List.length recs = List.length found /\
    Forall2 (fun si r => exists x p, In x E /\ si = s_string x /\ Sid Ld si = Ok x /\
                           sid_path Ld x (default_cfg Ld cfg) = Ok (Some p) /\
                           r = record_from (load_sidecar F (sidecar Ld p)) x attrs enc) found recs.
Proof using Hload Hwf Hpu HD Hplain.
  intros Hg H. destruct (get_paths_records c Ld Hload Hwf F cfg s attrs enc recs H) as (found & Hf & Hl & Hall).
  exists found. split; [exact Hf|]. split; [exact Hl|].
  pose proof (Forall2_and_left _ _ _ _ Hall (found_member s found Hg Hf)) as Hall2.
  revert Hall2. apply Forall2_impl'. intros si r ((x & p & Hx & Hsi & Hs & Hp) & (x' & Hs' & G)).
  rewrite Hs in Hs'. inversion Hs'; subst x'. exists x, p. split; [exact Hx|]. split; [exact Hsi|]. split; [exact Hs|].
  split; [exact Hp|]. destruct G as [(Hn & _) | (p' & Hp' & -> & _)]; [congruence|].
  rewrite Hp in Hp'. inversion Hp'; subst p'. reflexivity.
Qed.

(* GetFromPaths succeeds whenever FindInPaths does *)
Theorem get_paths_total_dataset s attrs enc found : tree_guard0 Ld (default_cfg Ld cfg) s ->
  ffind Ld F (FPaths "" (default_cfg Ld cfg)) s = Ok found ->
  get_paths Ld F cfg s attrs enc =
  Ok (map (fun si => match Sid Ld si with
                     | Ok x => match sid_path Ld x (default_cfg Ld cfg) with
                               | Ok (Some p) => record_from (load_sidecar F (sidecar Ld p)) x attrs enc
                               | _ => []
                               end
                     | Raise _ => []
                     end) found).
Proof using Hload Hwf Hpu HD Hplain.
  intros Hg Hf. pose proof (found_member s found Hg Hf) as Hm. unfold get_paths. rewrite Hf. cbn [bind]. clear Hf.
  induction found as [|si found IH]; [reflexivity|]. cbn [mapM map].
  destruct (Hm si (or_introl eq_refl)) as (x & p & _ & _ & Hs & Hp). rewrite Hs. cbn [bind].
  rewrite (get_data_paths_path Ld F cfg x attrs enc p Hp), Hp. cbn [bind].
  rewrite (IH (fun sj Hj => Hm sj (or_intror Hj))). reflexivity.
Qed.

End Dataset.
