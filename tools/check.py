#!/venv/bin/python
"""Entry point:  check.py <property id> [--tier quick|thorough] [--replay file]"""
import sys, os, argparse, importlib
sys.path.insert(0, os.path.dirname(os.path.abspath(__file__)))
from harness import runner

def main():
    ap = argparse.ArgumentParser()
    ap.add_argument('prop')
    ap.add_argument('--tier', default=os.environ.get('VERIF_TIER', 'quick'))
    ap.add_argument('--replay')
    a = ap.parse_args()
    seed = int(os.environ.get('VERIF_SEED', '1'))
    mod = importlib.import_module('props.' + a.prop.lower())
    sys.exit(runner.run_check(mod.PROP, a.tier, seed, a.replay))

if __name__ == '__main__':
    main()
