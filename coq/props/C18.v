(** C18 — get_last, get_next and get_new implement a gap-free version workflow.  Property theorems only.
    Proved about the model of the demo NextGetter and the Sid methods: the successor of "v"+ddd is requested as exactly
    "v"+(n+1) formatted with 3 digits through get_with on the same Sid (all other fields untouched), the first version is
    v001, formatted versions parse back, are pairwise distinct and ordered like the numbers (so ">" picks the numerically
    last), and a number needing 4 digits cannot be a version.  get_last / get_new over a tree go through FindInAll: their
    agreement with the specification is checked on the implementation over generated trees and create(get_new) chains
    and by correspondence with the file-system model: NOT theorems (partial). *)
From Coq Require Import List String Ascii Bool Arith Permutation Sorted.
From Spil Require Import Base.Str Base.Dict Base.Outcome Regex.Re Conf.Conf Conf.Routing Conf.WF Sid.Sid
  Search.Unfold Search.FindList Search.Finders Search.FindListProofs Search.FindersProofs FS.Fs Data.Data Data.VersionProofs Data.VersionOrderProofs Data.DataSpecProofs.
From SpilGen Require Hamlet.
Import ListNotations.
Local Open Scope string_scope.

Theorem C18_next_concrete : forall Ld Rt F x0 x n,
  sid_factory Ld (FromSid x0) = Ok x -> sid_get x "version" = Some ("v" ++ fmt_03d n) ->
  next_version Ld Rt F x0 = request_version Ld x (S n).
Proof. exact next_version_concrete. Qed.
Print Assumptions C18_next_concrete.

Theorem C18_next_first : forall Ld Rt F x0 x,
  sid_factory Ld (FromSid x0) = Ok x -> sid_get x "version" = None ->
  next_version Ld Rt F x0 = request_version Ld x 1 /\ "v" ++ fmt_03d 1 = "v001".
Proof. exact next_version_first. Qed.
Print Assumptions C18_next_first.

Theorem C18_versions_ordered : forall n m, n < m -> m < 1000 -> str_ltb (vname n) (vname m) = true.
Proof. exact vname_monotone. Qed.
Print Assumptions C18_versions_ordered.

Theorem C18_versions_distinct : forall n m, n <> m -> vname n <> vname m.
Proof. exact vname_distinct. Qed.
Print Assumptions C18_versions_distinct.

Theorem C18_parse_format : forall n, py_int (fmt_03d n) = Some n.
Proof. exact py_int_fmt. Qed.
Print Assumptions C18_parse_format.

Theorem C18_three_digits : forall n, n < 1000 -> String.length (fmt_03d n) = 3.
Proof. exact fmt_03d_length. Qed.
Print Assumptions C18_three_digits.

(* the order used by ">" (segment by segment, as strings) IS the numeric order on versions *)
Theorem C18_version_order_is_numeric : forall pre post n m, n < 1000 -> m < 1000 ->
  segs_ltb (pre ++ [vname n] ++ post)%list (pre ++ [vname m] ++ post)%list = Nat.ltb n m.
Proof. exact version_order_is_numeric. Qed.
Print Assumptions C18_version_order_is_numeric.

(* so the ">" answer of ANY finder carries the numerically greatest version among the candidates of its group *)
Theorem C18_last_is_greatest : forall Ld star qs l q0 rest founds pre,
  sorted_search_g Ld star qs = Ok l -> qs = q0 :: rest ->
  index_of ">" (split_c "/" (s_string q0)) = Some (List.length pre) ->
  founds_of Ld star qs = Ok founds ->
  forall r e post n m, In r l -> In e founds ->
    split_c "/" r = (pre ++ [vname n] ++ post)%list -> split_c "/" e = (pre ++ [vname m] ++ post)%list ->
    n < 1000 -> m < 1000 -> m <= n.
Proof. exact sorted_search_g_greatest_version. Qed.
Print Assumptions C18_last_is_greatest.

(* get_last(key): the first answer of FindInAll for the Sid with key := ">", when it carries a value for the key; else the empty Sid *)
Theorem C18_get_last : forall Ld Rt F x key y, get_last Ld Rt F x key = Ok y ->
  y = empty_sid \/
  exists k q l s v, effective_key x key = Some k /\
    get_with_kw Ld x [(k, Some ">")] = Ok q /\ find_all Ld Rt F (s_string q) = Ok l /\
    hd_error l = Some s /\ Sid Ld s = Ok y /\ sid_get y k = Some v /\ truthy v = true.
Proof. exact get_last_cases. Qed.
Print Assumptions C18_get_last.

(* beyond the last representable version the result is the empty Sid: instance on today's configuration *)
Example C18_beyond_last :
  match sid_factory Hamlet.the_loaded (FromString "hamlet/a/char/x/model/v999") with
  | Ok x => match next_version Hamlet.the_loaded (mkRouting [] [] true) [] x with
            | Ok y => negb (sid_bool y)
            | Raise _ => false
            end
  | Raise _ => false
  end = true.
Proof. vm_compute. reflexivity. Qed.
Print Assumptions C18_beyond_last.
