From Coq Require Import List String.
Example C08_placeholder : True. Proof. exact I. Qed.
Print Assumptions C08_placeholder.
