"""C09 the '>' (last) operator."""
from harness.runner import PropBase, Case
from harness import gen
from props import listsearch as ls

class C09(PropBase):
    id = 'C09'
    rule = ("universes with several versions / names per group (names containing '-', '.', '+', '_') x searches with '>' at any position "
            "(optionally a second '>' further right, '*', aliases, '**' elsewhere); non-trivial = at least one group answered; distinct by (universe, search)")
    partial_note = 'FindInList part; FindInPaths / FindInAll / get_last parts are exercised by the file-system checks (C11, C18)'
    def gt_search(self, rng, v, items):
        cands = [s for s in items if s.count('/') >= 1]
        base = rng.choice(cands) if cands else v.sid(v.any_type(rng), rng)
        segs = base.split('/')
        i = rng.randrange(1, len(segs)) if len(segs) > 1 else 0
        segs[i] = '>'
        for j in range(len(segs)):
            if j == i:
                continue
            r = rng.random()
            if r < 0.35:
                segs[j] = '*'
            elif r < 0.42 and j > i:
                segs[j] = '>'
            elif r < 0.5:
                segs[j] = segs[j] + ',' + rng.choice(ls.NAMES)
        if rng.random() < 0.15 and v.alias and i != len(segs) - 1:
            segs[-1] = rng.choice(list(v.alias))
        if rng.random() < 0.15 and i >= 2:
            segs = segs[:1] + ['**'] + segs[i:]
        return '/'.join(segs)
    def cases(self, rng, ctx, tier):
        v = gen.vocab_from_ctx(ctx)
        nu, ns = (50, 30) if tier == 'quick' else (600, 100)
        out = []
        for _ in range(nu):
            items = ls.universe(rng, v, kind=rng.choice(['full', 'leaf', 'full']), size=rng.randint(6, 20))
            for _ in range(ns):
                q = self.gt_search(rng, v, items)
                out.append(Case('find_list', [items, q], 'find', {}))
        return out
    def phase2(self, rng, ctx, cases, impl_out, tier):
        seen = set(); more = []
        for c in cases:
            q = c.args[1]
            if q not in seen:
                seen.add(q)
                more.append(Case('unfold', [q, '0', '0'], 'unfold', {}))
        return more
    def oracle_bulk(self, cases, impl_out, ctx):
        unfold = {}
        for c, o in zip(cases, impl_out):
            if c.op == 'unfold':
                unfold[c.args[0]] = o
        fails = []
        for c, o in zip(cases, impl_out):
            if c.op != 'find_list':
                continue
            items, q = c.args
            u = unfold.get(q)
            if u is None or u[0] != 'ok' or not u[1] or not ls.plain(q):
                continue
            forms = [x[0] for x in u[1]]
            positions = set(f.split('/').index('>') for f in forms if '>' in f.split('/'))
            if len(positions) != 1 or any('>' not in f.split('/') for f in forms):
                continue          # the property speaks of '>' at one position
            index = positions.pop()
            matching = []
            for e in items:
                if e not in matching and any(ls.glob(f.replace('>', '*'), e) for f in forms):
                    matching.append(e)
            groups = {}
            for e in matching:
                segs = e.split('/')
                key = tuple(segs[:index])
                if key not in groups or segs[index:] > groups[key]:
                    groups[key] = segs[index:]
            exp = sorted('/'.join(list(k) + r) for k, r in groups.items())
            if o[0] != 'ok':
                fails.append((c, o, 'find(%r) raised %r' % (q, o))); continue
            if sorted(o[1]) != exp or len(set(o[1])) != len(o[1]):
                fails.append((c, o, "find(%r): expected one greatest entry per group %r, got %r" % (q, exp, sorted(o[1]))))
        return fails
    def nontrivial(self, case, impl):
        return case.args if case.op == 'find_list' and impl[0] == 'ok' and impl[1] else None
    def histogram_key(self, case, impl):
        if case.op == 'find_list':
            return 'find:%s' % ('raise' if impl[0] != 'ok' else min(len(impl[1]), 5))
        return case.op

PROP = C09()
