(** Extraction of the executable model. Directives used: exactly those of ExtrOcamlBasic
    and ExtrOcamlString (bool, option, unit, prod, list, sumbool, sumor -> OCaml's own;
    ascii -> char, string -> char list). nat stays the extracted inductive. *)
From Coq Require Import ExtrOcamlBasic ExtrOcamlString.
From Spil Require Import Base.Tree Conf.Conf Driver.Dispatch.
Extraction Language OCaml.
Separate Extraction Dispatch.run Conf.load_tree Tree.tree.
