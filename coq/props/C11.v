(** C11 — all Finders give the same answer for the same data.  Property theorems only.
    Search/Finders.v is generic: every finder (path tree, list, constants) is the SAME find / do_find / sorted_search
    over its own star search.  Proved: the answer depends on the finder only through its star search (congruence); for ">"
    even only through the SET of candidates (order of enumeration irrelevant); the generic finder over a list IS the
    list finder of C08/C09; injected junk (paths that resolve to no Sid) changes no result of a path search and makes none fail;
    every path-search result is a Sid of the searched type that resolves from an existing matching path and matches the search.
    And the equality itself, for star searches (Search/TreeListProofs.v, TreeJunk.v): for every configuration passing
    [paths_unambiguousb], every data set E of naturally typed concrete Sids materialised as a tree F in which nothing else
    resolves to a Sid ([dataset_ok]), and every list of typed searches without ">" ([searches_ok], [pat_inj]):
    the path search returns exactly the members of E of the searched type that glob-match the search; it is included in
    the list search over the strings of E, what the list search finds in addition has another type than the search that
    matched it (the list finder does not look at types), and the two are equal when the searched types cover the matches
    ([types_covered]); junk of the three kinds (resolves to nothing / to an unsearched type / fails the field check) changes
    no result and no failure.  The clause "no path component starts with a dot" of [dataset_ok] is necessary: see
    [C11_hidden_name_differs].  ">" searches: [C11_finder_congruence] + C09 reduce them to the same candidate sets. *)
From Coq Require Import List String Ascii Bool Arith Permutation Sorted.
From Spil Require Import Base.Str Base.Dict Base.Outcome Regex.Re Conf.Conf Conf.Routing Conf.WF Sid.Sid
  Search.Unfold Search.FindList Search.Finders Search.FindListProofs Search.FindersProofs FS.Fs Data.Data Data.VersionProofs
  Search.GlobProofs Sid.SidProofs Path.UnambiguousDefs Search.TreeListDefs Search.TreeGlob Search.TreeListProofs Search.TreeJunk.
From Spil Require Import Sid.TypingSpec Data.SidLevelDefs Search.ConstantsDefs Search.ConstantsLemmas Search.ConstantsProofs Search.ConstantsTree.
From SpilGen Require Hamlet.
Import ListNotations.
Local Open Scope string_scope.

Theorem C11_finder_congruence : forall Ld star1 star2, (forall qs, star1 qs = star2 qs) ->
  (forall qs, sorted_search_g Ld star1 qs = sorted_search_g Ld star2 qs) /\
  (forall qs, do_find_g Ld star1 qs = do_find_g Ld star2 qs) /\
  (forall s, find_g Ld star1 s = find_g Ld star2 s).
Proof. exact find_g_ext. Qed.
Print Assumptions C11_finder_congruence.

Theorem C11_list_instance : forall Ld items,
  (forall qs, sorted_search_g Ld (fun qs0 => star_search qs0 items) qs = sorted_search Ld qs items) /\
  (forall qs, do_find_g Ld (fun qs0 => star_search qs0 items) qs = do_find Ld qs items) /\
  (forall s, find_g Ld (fun qs => star_search qs items) s = find_list Ld items s).
Proof. exact flist_is_find_list. Qed.
Print Assumptions C11_list_instance.

(* files / folders that resolve to no Sid never change a path search nor make it fail *)
Theorem C11_junk : forall Ld cfg F F',
  (forall p, In p (dkeys F) -> In p (dkeys F')) ->
  (forall p, In p (dkeys F') -> ~ In p (dkeys F) -> sid_factory Ld (FromPath p cfg) = Ok empty_sid) ->
  forall id s, set_rel (ffind Ld F (FPaths id cfg) s) (ffind Ld F' (FPaths id cfg) s).
Proof. exact find_paths_junk. Qed.
Print Assumptions C11_junk.

(* soundness of a path search: every result comes from an existing path matching the glob of the search,
   resolving to a Sid of the searched type whose fields match the search (the repaired D14) *)
Theorem C11_paths_sound : forall Ld cfg F qs r, paths_star Ld F cfg qs = Ok r ->
  forall s, In s r -> exists q, In q qs /\ hit Ld cfg F q s.
Proof. exact paths_star_sound. Qed.
Print Assumptions C11_paths_sound.

Theorem C11_paths_one : forall Ld cfg F q r, paths_star Ld F cfg [q] = Ok r -> forall s, In s r <-> hit Ld cfg F q s.
Proof. exact paths_star_spec_one. Qed.
Print Assumptions C11_paths_one.

(** ** tree search = list search over the same entities (star searches) *)

Theorem C11_tree_search_spec : forall c Ld, load c = Some Ld -> wf_loadedb Ld = true -> paths_unambiguousb Ld = true ->
  forall cfg E F, dataset_ok Ld cfg E F -> forall qs, searches_ok Ld cfg qs -> pat_inj Ld cfg qs ->
  forall l, paths_star Ld F cfg qs = Ok l ->
  forall s, In s l <-> exists e q, In e E /\ In q qs /\ s = s_string e /\ s_type e = s_type q /\
                                   glob_rel (s_string q) (s_string e).
Proof. exact tree_search_glob. Qed.
Print Assumptions C11_tree_search_spec.

Theorem C11_tree_vs_list : forall c Ld, load c = Some Ld -> wf_loadedb Ld = true -> paths_unambiguousb Ld = true ->
  forall cfg E F, dataset_ok Ld cfg E F -> forall qs, searches_ok Ld cfg qs -> pat_inj Ld cfg qs ->
  forall l l', paths_star Ld F cfg qs = Ok l -> star_search qs (map s_string E) = Ok l' ->
  (forall s, In s l -> In s l') /\
  (forall s, In s l' -> ~ In s l -> forall e q, In e E -> In q qs -> s = s_string e ->
     glob_rel (s_string q) s -> s_type e <> s_type q).
Proof. exact tree_vs_list. Qed.
Print Assumptions C11_tree_vs_list.

Theorem C11_tree_eq_list : forall c Ld, load c = Some Ld -> wf_loadedb Ld = true -> paths_unambiguousb Ld = true ->
  forall cfg E F, dataset_ok Ld cfg E F -> forall qs, searches_ok Ld cfg qs -> pat_inj Ld cfg qs ->
  forall l l', types_covered E qs -> paths_star Ld F cfg qs = Ok l -> star_search qs (map s_string E) = Ok l' ->
  forall s, In s l <-> In s l'.
Proof. exact tree_eq_list. Qed.
Print Assumptions C11_tree_eq_list.

(* the same with junk in the tree: paths that resolve to nothing, to a Sid of an unsearched type, or to one failing the field check *)
Theorem C11_tree_eq_list_junk : forall c Ld, load c = Some Ld -> wf_loadedb Ld = true -> paths_unambiguousb Ld = true ->
  forall cfg E F F', dataset_ok Ld cfg E F -> (forall p, In p (dkeys F) -> In p (dkeys F')) ->
  forall qs, searches_ok Ld cfg qs -> pat_inj Ld cfg qs ->
  (forall p, In p (dkeys F') -> ~ In p (dkeys F) ->
     exists x, sid_factory Ld (FromPath p cfg) = Ok x /\
       (sid_bool x = false \/ (forall q, In q qs -> s_type x <> s_type q \/ fields_match q x = false))) ->
  forall l' l2, types_covered E qs -> paths_star Ld F' cfg qs = Ok l' -> star_search qs (map s_string E) = Ok l2 ->
  forall s, In s l' <-> In s l2.
Proof. exact tree_eq_list_junk. Qed.
Print Assumptions C11_tree_eq_list_junk.

Theorem C11_junk_no_fail : forall Ld cfg F F', (forall p, In p (dkeys F) -> In p (dkeys F')) ->
  forall qs,
  (forall p, In p (dkeys F') -> ~ In p (dkeys F) ->
     exists x, sid_factory Ld (FromPath p cfg) = Ok x /\
       (sid_bool x = false \/ (forall q, In q qs -> s_type x <> s_type q \/ fields_match q x = false))) ->
  (exists ex, paths_star Ld F' cfg qs = Raise ex) <-> (exists ex, paths_star Ld F cfg qs = Raise ex).
Proof. exact junk_no_fail. Qed.
Print Assumptions C11_junk_no_fail.

(* the glob of the file system on one path component is the glob relation of the list finder *)
Theorem C11_fn_match_is_glob : forall p n, mem_c "/" n = false ->
  (fn_match (S (String.length p + String.length n)) p n = true <-> glob_rel p n).
Proof. exact fn_match_iff_glob. Qed.
Print Assumptions C11_fn_match_is_glob.

(** ** instances on the configuration of this run *)

Definition mk (s : string) : sid := match Sid Hamlet.the_loaded s with Ok x => x | Raise _ => empty_sid end.
Definition pth (x : sid) : string := match sid_path Hamlet.the_loaded x "" with Ok (Some p) => p | _ => "" end.
Definition unf (s : string) : list sid :=
  match unfold_search Hamlet.the_loaded s false false with Ok l => l | Raise _ => [] end.
Definition E0 : list sid :=
  [mk "hamlet/a/char/ophelia/model/v001/w/ma"; mk "hamlet/a/char/polonius/model/v002/w/ma"; mk "hamlet/a/char/ophelia"].
Definition F0 : fs := map (fun e => (pth e, Dir)) E0.
Definition F1 : fs := List.app F0 [(pth (mk "hamlet/a/char/ophelia") ++ "/notes.txt", File CEmpty);
                                  (pth (mk "hamlet/a/char/ophelia") ++ "/rig", Dir)].
Definition qs0 : list sid := unf "hamlet/a/char/*/**".

(* the hypotheses of the theorems are satisfiable: data set, searches (three typed searches), junk *)
Example C11_hypotheses_hold :
  dataset_okb Hamlet.the_loaded "" E0 F0 = true /\
  forallb (fun q => typed_searchb Hamlet.the_loaded q && search_okb Hamlet.the_loaded "" q) qs0 = true /\
  pat_injb Hamlet.the_loaded "" qs0 = true /\ types_coveredb E0 qs0 = true /\ List.length qs0 = 3 /\
  fs_subb F0 F1 = true /\ junk_kindsb Hamlet.the_loaded "" F0 F1 qs0 = true.
Proof. vm_compute. repeat split; reflexivity. Qed.
Print Assumptions C11_hypotheses_hold.

Example C11_instance_results :
  paths_star Hamlet.the_loaded F1 "" qs0 = Ok ["hamlet/a/char/ophelia/model/v001/w/ma"; "hamlet/a/char/polonius/model/v002/w/ma"] /\
  star_search qs0 (map s_string E0) = Ok ["hamlet/a/char/ophelia/model/v001/w/ma"; "hamlet/a/char/polonius/model/v002/w/ma"].
Proof. vm_compute. split; reflexivity. Qed.
Print Assumptions C11_instance_results.

(* the clause "no path component starts with a dot" is necessary: glob's "*" does not match a leading ".", so an asset
   named ".ophelia", present in the tree, is found by the list finder and not by the tree finder (observation O2 of DESIGN.md:
   outside the value sets of the property, like D26) *)
Example C11_hidden_name_differs :
  let Eh := [mk "hamlet/a/char/.ophelia/model/v001/w/ma"; mk "hamlet/a/char/ophelia/model/v001/w/ma"] in
  let Fh := map (fun e => (pth e, Dir)) Eh in
  let qh := unf "hamlet/a/char/*/model/*/w/ma" in
  paths_star Hamlet.the_loaded Fh "" qh = Ok ["hamlet/a/char/ophelia/model/v001/w/ma"] /\
  star_search qh (map s_string Eh) = Ok ["hamlet/a/char/.ophelia/model/v001/w/ma"; "hamlet/a/char/ophelia/model/v001/w/ma"].
Proof. vm_compute. split; reflexivity. Qed.
Print Assumptions C11_hidden_name_differs.

(** ** levels that the configuration backs by constants are answered from those constants (Search/ConstantsProofs.v) *)

(* FindInConstants on one typed search at its level: without "*" the Sid itself (existence by configuration); with "*" in the
   last value only, the configured values its templates accept, in order; with "*" above, the same below every parent the
   parent finder finds (or the literal value below each) *)
Theorem C11_constants_star :
  forall (c : Conf) (Ld : Loaded),
  load c = Some Ld ->
  wf_loadedb Ld = true ->
  forall (F : fs) (id key : string) (values : list string) (pfd : option finder) (q : sid),
  const_guard Ld key q ->
  forallb const_value_okb values = true ->
  let star := fstar Ld F (FConstants id key values pfd) in
  let keys := map fst (s_fields q) in
  (mem_c "*" (s_string q) = false -> star [q] = Ok [s_string q]) /\
  (mem_c "*" (s_string q) = true ->
   mem_c "*" (par_str (s_string q)) = false -> star [q] = Ok (expand Ld keys (s_string q) values)) /\
  (mem_c "*" (par_str (s_string q)) = true ->
   match pfd with
   | Some pf =>
       forall root rp : sid,
       get_as Ld q key = Ok root ->
       parent Ld root = Ok rp ->
       typed_search Ld rp /\
       s_string rp = par_str (s_string q) /\
       s_fields rp = removelast (s_fields q) /\
       (dget (s_fields q) key = Some "*" ->
        (forall e : exn, find_g_sid Ld (fstar Ld F pf) rp = Raise e -> star [q] = Raise e) /\
        (forall found : list string,
         find_g_sid Ld (fstar Ld F pf) rp = Ok found ->
         Forall (found_ok Ld (removelast keys)) found -> star [q] = Ok (flat_map (expand_below Ld keys values) found))) /\
       (forall w : string,
        dget (s_fields q) key = Some w ->
        w <> "*" ->
        mem_c ":" w = false ->
        forall found : list string,
        find_g_sid Ld (fstar Ld F pf) rp = Ok found ->
        Forall plain_found found -> star [q] = Ok (map (fun p : string => child_str p w) found))
   | None => star [q] = Raise SpilException
   end).
Proof. exact constants_star_spec. Qed.
Print Assumptions C11_constants_star.

(* ... with the path finder as parent, over a data set materialised as a tree: the accepted values below every matching member *)
Theorem C11_constants_over_tree :
  forall (c : Conf) (Ld : Loaded),
  load c = Some Ld ->
  wf_loadedb Ld = true ->
  paths_unambiguousb Ld = true ->
  forall (cfg : string) (E : list sid) (F : fs),
  dataset_ok Ld cfg E F ->
  forall (Rt : Routing) (s : string) (q : sid) (id key : string) (values : list string) (idp : string) 
    (root rp : sid) (qs' : list sid) (l : list string),
  unfold_search Ld s false false = Ok [q] ->
  finder_for Rt (s_type q) = Some (FConstants id key values (Some (FPaths idp cfg))) ->
  const_guard Ld key q ->
  forallb const_value_okb values = true ->
  mem_c ">" (s_string q) = false ->
  mem_c "*" (par_str (s_string q)) = true ->
  dget (s_fields q) key = Some "*" ->
  get_as Ld q key = Ok root ->
  parent Ld root = Ok rp ->
  is_search Ld rp = true ->
  unfold_search Ld (s_string rp) false false = Ok qs' ->
  searches_ok Ld cfg qs' ->
  pat_inj Ld cfg qs' ->
  (forall q' : sid, In q' qs' -> map fst (s_fields q') = removelast (map fst (s_fields q))) ->
  (forall e : sid, In e E -> plain_member e) ->
  find_all Ld Rt F s = Ok l ->
  forall r : string,
  In r l <->
  (exists (e q' : sid) (v : string),
     In e E /\
     In q' qs' /\
     s_type e = s_type q' /\
     glob_rel (s_string q') (s_string e) /\
     In v values /\ accepted Ld (map fst (s_fields q)) (child_str (s_string e) v) /\ r = child_str (s_string e) v).
Proof. exact find_all_constants_over_tree. Qed.
Print Assumptions C11_constants_over_tree.

(* instance: the state level of the live configuration is served by a constants finder whose parent is the path finder; on the
   EMPTY tree a state Sid exists and a version has its states as children (existence by configuration) *)
Example C11_constants_instance :
  let x := mk "hamlet/a/char/ophelia/model/v001/w" in
  match finder_for (match parse_routing Hamlet.raw with Some r => r | None => mkRouting [] [] false end) (s_type x) with
  | Some (FConstants _ key values (Some (FPaths _ _))) => String.eqb key "state" && negb (match values with [] => true | _ => false end)
  | _ => false
  end = true.
Proof. vm_compute. reflexivity. Qed.
Print Assumptions C11_constants_instance.

(** ** the three finders agree (Search/AlgebraAllProofs.v): FindInAll over the tree (every typed search of the unfolding routed to
    the path finder [FPaths id cfg]) = FindInPaths over the tree = FindInList over the strings of the data set, as sets, for the
    whole [find] of a query-free search string in the guarded fragment.  [guarded] is the guard of the list finder (C10),
    [tree_guard] that of the path finder (on what [Finder.find] hands to the star search: the Sid itself when the shortcut is
    taken, else the unfolding), [all_guard] that of FindInAll (FindInAll always unfolds: the same conditions on the unfolding,
    plus the routing).  When FindInAll and FindInPaths.find look at the same typed searches (in particular whenever the shortcut
    is not taken) [all_guard] follows from [tree_guard] and the routing hypothesis, and the two return the same LIST. *)
From Spil Require Import Search.UnfoldSpec Search.LastAgreeProofs Search.AlgebraDefs Search.AlgebraTreeDefs Search.AlgebraAllDefs
  Search.AlgebraAllProofs.

Theorem C11_three_finders_agree :
  forall (c : Conf) (Ld : Loaded),
  load c = Some Ld ->
  wf_loadedb Ld = true ->
  unfold_conf_okb Ld = true ->
  paths_unambiguousb Ld = true ->
  forall (cfg : string) (E : list sid) (F : fs),
  dataset_ok Ld cfg E F ->
  forall (Rt : Routing) (id s : string) (l l' l'' : list string),
  guarded Ld s ->
  tree_guard Ld cfg E s ->
  all_guard Ld Rt id cfg E s ->
  find_all Ld Rt F s = Ok l ->
  ffind Ld F (FPaths id cfg) s = Ok l' ->
  find_list Ld (map s_string E) s = Ok l'' ->
  forall e : string, (In e l <-> In e l') /\ (In e l' <-> In e l'').
Proof. exact find_all_eq_find_paths_eq_find_list. Qed.
Print Assumptions C11_three_finders_agree.

(* under the hypotheses of C10_find_all_denotes (the guard of the tree finder, the routing hypothesis, both look at the same
   typed searches): FindInAll and FindInPaths return the same list, duplicate-free, with the elements of the list finder's *)
Theorem C11_three_finders_agree_same :
  forall (c : Conf) (Ld : Loaded),
  load c = Some Ld ->
  wf_loadedb Ld = true ->
  unfold_conf_okb Ld = true ->
  paths_unambiguousb Ld = true ->
  forall (cfg : string) (E : list sid) (F : fs),
  dataset_ok Ld cfg E F ->
  forall (Rt : Routing) (id s : string) (l l' l'' : list string),
  guarded Ld s ->
  tree_guard Ld cfg E s ->
  (forall qs : list sid, unfold_search Ld s false false = Ok qs -> routed_to Rt (FPaths id cfg) qs) ->
  find_searches Ld s = unfold_search Ld s false false ->
  find_all Ld Rt F s = Ok l ->
  ffind Ld F (FPaths id cfg) s = Ok l' ->
  find_list Ld (map s_string E) s = Ok l'' ->
  l = l' /\ NoDup l /\ NoDup l'' /\ (forall e : string, In e l <-> In e l'').
Proof. exact find_all_eq_find_paths_eq_find_list_same. Qed.
Print Assumptions C11_three_finders_agree_same.
