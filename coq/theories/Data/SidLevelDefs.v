(** C12 / C18 at the level of Sids over a data set: definitions and guards
    (the proofs are in Data/SidLevelProofs.v and Data/SidLevelLast.v; instances in gen/SidLevelExamples.v). *)
From Coq Require Import List String Ascii Bool Arith.
From Spil Require Import Base.Str Base.Dict Base.Outcome Base.PyPath Regex.Re
  Resolva.Template Resolva.Resolver Conf.ConfUtil Conf.Conf Conf.WF Conf.Routing Sid.Query Sid.Sid Sid.TypingSpec
  Sid.SidProofs Path.UnambiguousDefs FS.Fs Search.Unfold Search.FindList Search.Finders
  Search.GlobProofs Search.TreeListDefs Search.TreeListProofs Data.Data.
Import ListNotations.
Local Open Scope string_scope.

(** ** Routing: every typed search goes to the path finder [FPaths id cfg] *)

Definition routed_to (Rt : Routing) (fd : finder) (qs : list sid) : Prop :=
  forall q, In q qs -> finder_for Rt (s_type q) = Some fd.

Definition is_pathsb (id cfg : string) (o : option finder) : bool :=
  match o with
  | Some (FPaths i c) => String.eqb i id && String.eqb c cfg
  | _ => false
  end.

Definition routed_tob (Rt : Routing) (id cfg : string) (qs : list sid) : bool :=
  forallb (fun q => is_pathsb id cfg (finder_for Rt (s_type q))) qs.

(** ** Strings: the parent string *)

(* the string without its last "/"-segment ("" for a single segment) *)
Definition parent_str (s : string) : string := join "/" (removelast (split_c "/" s)).

(* no glob character *)
Definition plain_glob (s : string) : bool := negb (glob_magic s).

(** ** The guards on an unfolded search list, as one boolean *)

(* typed searches that the tree finder answers exactly (C11), all routed to the path finder *)
Definition paths_searchesb (Ld : Loaded) (Rt : Routing) (id cfg : string) (qs : list sid) : bool :=
  routed_tob Rt id cfg qs
  && forallb (fun q => typed_searchb Ld q && search_okb Ld cfg q) qs
  && pat_injb Ld cfg qs.

(* a concrete Sid unfolds to typed versions of its own string, itself among them *)
Definition self_unfoldb (x : sid) (qs : list sid) : bool :=
  existsb (sid_eqb_full x) qs && forallb (fun q => String.eqb (s_string q) (s_string x)) qs.

(* the searches refine "<parent>/<something>": same parent string *)
Definition under_parentb (par : string) (qs : list sid) : bool :=
  forallb (fun q => String.eqb (parent_str (s_string q)) par) qs.

(* every member of E under the parent is globbed by a search of its own type
   (the "type condition" of children / siblings as a guard over the data set) *)
Definition covered (E qs : list sid) (par : string) : Prop :=
  forall e, In e E -> parent_str (s_string e) = par ->
    exists q, In q qs /\ s_type e = s_type q /\ glob_rel (s_string q) (s_string e).

Definition coveredb (E qs : list sid) (par : string) : bool :=
  forallb (fun e => negb (String.eqb (parent_str (s_string e)) par)
                    || existsb (fun q => String.eqb (s_type e) (s_type q) && globs_b q e) qs) E.

(** ** exists() : the guard on x, computed *)

Definition exists_guardb (Ld : Loaded) (Rt : Routing) (id cfg : string) (x : sid) : bool :=
  nat_typedb Ld x && plain_glob (s_string x) &&
  match unfold_search Ld (s_string x) false false with
  | Ok qs => paths_searchesb Ld Rt id cfg qs && self_unfoldb x qs
  | Raise _ => false
  end.

(** ** children() / siblings() : the guard on x, computed *)

Definition children_guardb (Ld : Loaded) (Rt : Routing) (id cfg : string) (x : sid) : bool :=
  plain_glob (s_string x) && negb (is_leaf Ld x) &&
  match sid_div Ld x "*" with
  | Ok q => match unfold_search Ld (s_string q) false false with
            | Ok qs => paths_searchesb Ld Rt id cfg qs && under_parentb (s_string x) qs
            | Raise _ => false
            end
  | Raise _ => false
  end.

Definition siblings_guardb (Ld : Loaded) (Rt : Routing) (id cfg : string) (x : sid) : bool :=
  plain_glob (parent_str (s_string x)) &&
  match keytype x with
  | None => false
  | Some k =>
      match get_as Ld x k with
      | Ok a => match get_with_kw Ld a [(k, Some "*")] with
                | Ok q => match unfold_search Ld (s_string q) false false with
                          | Ok qs => paths_searchesb Ld Rt id cfg qs && under_parentb (parent_str (s_string x)) qs
                          | Raise _ => false
                          end
                | Raise _ => false
                end
      | Raise _ => false
      end
  end.

(** ** a file tree closed under parent directories *)

Definition fs_closed (F : fs) : Prop :=
  forall p, In p (dkeys F) -> parent_path p <> p -> In (parent_path p) (dkeys F).

Definition fs_closedb (F : fs) : bool :=
  forallb (fun p => String.eqb (parent_path p) p || in_list (parent_path p) (dkeys F)) (dkeys F).

(** ** get_last (C18) *)

(* the "*" search the sorted search runs for a ">" search *)
Definition starred (Ld : Loaded) (q : sid) : outcome sid := Sid Ld (replace ">" "*" (uri q)).

Definition has_gt (q : sid) : bool := Nat.ltb 0 (count ">" (s_string q)).

(* the strings of the members are read back plainly by the Sid factory *)
Definition plain_member (e : sid) : Prop := mem_c "?" (s_string e) = false /\ mem_c ":" (s_string e) = false.
Definition plain_memberb (e : sid) : bool := negb (mem_c "?" (s_string e)) && negb (mem_c ":" (s_string e)).

(* a candidate of the ">" search: a member of the data set whose segments are those of the search, but for
   the segment at the ">" position, and whose type is the type of one of the typed searches *)
Definition last_candidate (Ld : Loaded) (E qs : list sid) (pre post : list string) (e : sid) : Prop :=
  In e E /\ (exists w, split_c "/" (s_string e) = pre ++ [w] ++ post)%list /\
  exists q q', In q qs /\ starred Ld q = Ok q' /\ s_type e = s_type q'.

(* the guard on one typed search of the unfolded ">" search: its "*" version is a typed search the tree
   finder answers exactly (C11), its segments are [pre ++ ["*"] ++ post], and the key at the "*" is [k] *)
Definition star_okb (Ld : Loaded) (cfg : string) (k : string) (pre post : list string) (q : sid) : bool :=
  match starred Ld q with
  | Ok q' => typed_searchb Ld q' && search_okb Ld cfg q'
             && list_eqb (split_c "/" (s_string q')) (pre ++ ["*"] ++ post)%list
             && match nth_error (map fst (s_fields q')) (List.length pre) with
                | Some k' => String.eqb k' k
                | None => false
                end
  | Raise _ => false
  end.

Definition key_index (x : sid) (k : string) : option nat := index_of k (map fst (s_fields x)).

(* the guard on x and the key, computed *)
Definition last_guardb (Ld : Loaded) (Rt : Routing) (id cfg : string) (x : sid) (k : string) : bool :=
  negb (sempty k) && sid_bool x &&
  match key_index x k, get_with_kw Ld x [(k, Some ">")] with
  | Some i, Ok q0 =>
      let segs := split_c "/" (s_string x) in
      let pre := firstn i segs in
      let post := skipn (S i) segs in
      forallb plain_glob (pre ++ post)%list &&
      match unfold_search Ld (s_string q0) false false with
      | Ok qs =>
          routed_tob Rt id cfg qs && existsb has_gt qs
          && match qs with
             | q1 :: _ => match index_of ">" (split_c "/" (s_string q1)) with
                          | Some j => Nat.eqb j (List.length pre)
                          | None => false
                          end
             | [] => false
             end
          && forallb (star_okb Ld cfg k pre post) qs
      | Raise _ => false
      end
  | _, _ => false
  end.
