(** Dispatcher for the stateful (file-system) operations: op + args + fs  ->  result tree + fs. *)
From Coq Require Import List String Ascii Bool Arith.
From Spil Require Import Base.Str Base.Dict Base.Outcome Base.Tree Base.PyPath Regex.Re
  Resolva.Template Resolva.Resolver Conf.ConfUtil Conf.Conf Conf.Routing Sid.Query Sid.Sid
  Search.Unfold Search.FindList Search.Finders FS.Fs Data.Data Data.Crash Driver.Dispatch.
Import ListNotations.
Local Open Scope string_scope.

Definition t_content (c : content) : tree :=
  match c with
  | CEmpty => N [L "empty"]
  | CJson d => N [L "json"; of_pairs d]
  | CCorrupt => N [L "corrupt"]
  end.

Definition t_node (n : node) : tree :=
  match n with
  | Dir => N [L "dir"]
  | File c => N [L "file"; t_content c]
  | Unreadable => N [L "unreadable"]
  end.

Definition t_record (r : record) : tree :=
  N (map (fun kv => N [L (fst kv); t_opt L (snd kv)]) r).

Definition parse_enc (s : string) : encoder :=
  if String.eqb s "uri" then EncUri else if String.eqb s "none" then EncNone else if String.eqb s "last" then EncLast else EncStr.

(* put a node and its missing ancestors (as directories) *)
Definition fs_put (F : fs) (p : string) (n : node) : fs :=
  let anc := removelast (ancestors_and_self p) in
  let F1 := fold_left (fun acc a => if fs_exists acc a then acc else fs_add acc a Dir) anc F in
  fs_add F1 p n.

Definition with_fs {A} (F : fs) (f : A -> tree) (o : outcome (fs * A)) : tree * fs :=
  match o with
  | Ok (F', a) => (N [L "ok"; f a], F')
  | Raise e => (N [L "raise"; L (exn_name e)], F)
  end.

Definition sorted_strs (l : list string) : tree := of_strs (sort_s l).

(* create(get_new("version")) repeated k times, stopping at the empty Sid *)
Fixpoint publish_chain (Ld : Loaded) (Rt : Routing) (F : fs) (cfg : string) (x : sid) (k : nat) (acc : list string)
  : outcome (fs * list string) :=
  match k with
  | O => Ok (F, acc)
  | S k' =>
      do n <- get_new Ld Rt F x "version";
      if negb (sid_bool n) then Ok (F, (acc ++ [s_string n])%list) else
      do r <- w_create Ld Rt F cfg (uri n) [];
      publish_chain Ld Rt (fst r) cfg x k' (acc ++ [s_string n])%list
  end.

Definition run_fs (st : option Loaded) (rt : option Routing) (F : fs) (op : string) (args : list tree) : tree * fs :=
  match st, rt with
  | Some Ld, Some Rt =>
    let pure (t : tree) := (t, F) in
    let on_sid (s : tree) (f : sid -> tree) : tree * fs := pure (with_sid Ld s f) in
    match op, args with
    | "fs_reset", [] => (L "ok", [])
    | "fs_put", [L p; L "dir"] => (L "ok", fs_put F p Dir)
    | "fs_put", [L p; L "empty"] => (L "ok", fs_put F p (File CEmpty))
    | "fs_put", [L p; L "corrupt"] => (L "ok", fs_put F p (File CCorrupt))
    | "fs_put", [L p; L "unreadable"] => (L "ok", fs_put F p Unreadable)
    | "fs_put", [L p; L "json"; d] =>
        match t_pairs d with Some d => (L "ok", fs_put F p (File (CJson d))) | None => pure bad end
    | "fs_dump", [] => pure (N (map (fun pn => N [L (fst pn); L (match snd pn with Dir => "dir" | _ => "file" end)])
                                    (filter (fun pn => true) F)))
    | "sidecar", [L p] => pure (L (sidecar Ld p))
    | "w_create", [L cfg; L s; d] =>
        match t_pairs d with Some d => with_fs F t_bool (w_create Ld Rt F cfg s d) | None => pure bad end
    | "w_update", [L cfg; L s; d] =>
        match t_pairs d with Some d => with_fs F t_bool (w_update Ld F cfg s d) | None => pure bad end
    (* the same with a trailing tag naming the (long-lived) writer object used: a writer has no state of its own *)
    | "w_create", [L cfg; L s; d; L _] =>
        match t_pairs d with Some d => with_fs F t_bool (w_create Ld Rt F cfg s d) | None => pure bad end
    | "w_update", [L cfg; L s; d; L _] =>
        match t_pairs d with Some d => with_fs F t_bool (w_update Ld F cfg s d) | None => pure bad end
    | "w_set", [L cfg; L s; L k; L v; L _] => with_fs F t_bool (w_update Ld F cfg s [(k, v)])
    | "sidecar_of", [L cfg; L s] =>
        match (do x <- Sid Ld s; sid_path Ld x (default_cfg Ld cfg)) with
        | Ok (Some p) => pure (L (sidecar Ld p))
        | _ => pure bad
        end
    | "corrupt_sidecar", [L cfg; L s; L kind] =>
        match (do x <- Sid Ld s; sid_path Ld x (default_cfg Ld cfg)) with
        | Ok (Some p) =>
            let dp := sidecar Ld p in
            (L "ok", fs_add F dp (if String.eqb kind "dir" then Dir else if String.eqb kind "empty" || String.eqb kind "trunc:0" then File CEmpty else File CCorrupt))
        | _ => pure bad
        end
    | "crash_write", [L cfg; L s; d; L mode; L n] =>
        match t_pairs d with
        | None => pure bad
        | Some data =>
            match (do x <- Sid Ld s; do po <- sid_path Ld x (default_cfg Ld cfg); Ok po) with
            | Raise e => pure (N [L "raise"; L (exn_name e)])
            | Ok None => pure (N [L "raise"; L "SpilException"])
            | Ok (Some p) =>
                if negb (fs_exists F p) then pure (N [L "raise"; L "SpilException"]) else
                let dp := sidecar Ld p in
                match fs_get F dp with
                | Some (File (CJson prev)) =>
                    let effs := write_effects dp (dupdate prev data) 1 in
                    (* mode "syscall": the process dies right before its n-th file-system changing call (0: opening the temporary
                       file for writing, 1: the replace; from 2 on the write completes) *)
                    let k := if String.eqb mode "before" then 0
                             else if String.eqb mode "partial" then (if Nat.eqb (str_to_nat n) 0 then 1 else 2)
                             else if String.eqb mode "before_replace" then 3
                             else if String.eqb mode "syscall" then (match str_to_nat n with 0 => 0 | 1 => 3 | _ => 4 end)
                             else 4 in
                    let completed := String.eqb mode "none" || (String.eqb mode "syscall" && Nat.leb 2 (str_to_nat n)) in
                    (N [L (if completed then "completed" else "crashed")], crash_at F effs (if completed then 4 else k))
                | None =>
                    let effs := write_effects dp data 1 in
                    (* mode "syscall": the process dies right before its n-th file-system changing call (0: opening the temporary
                       file for writing, 1: the replace; from 2 on the write completes) *)
                    let k := if String.eqb mode "before" then 0
                             else if String.eqb mode "partial" then (if Nat.eqb (str_to_nat n) 0 then 1 else 2)
                             else if String.eqb mode "before_replace" then 3
                             else if String.eqb mode "syscall" then (match str_to_nat n with 0 => 0 | 1 => 3 | _ => 4 end)
                             else 4 in
                    let completed := String.eqb mode "none" || (String.eqb mode "syscall" && Nat.leb 2 (str_to_nat n)) in
                    (N [L (if completed then "completed" else "crashed")], crash_at F effs (if completed then 4 else k))
                | Some Dir | Some Unreadable => pure (N [L "raise"; L "OSError"])
                | Some (File _) => pure (N [L "raise"; L "JSONDecodeError"])
                end
            end
        end
    | "get_data_paths", [L cfg; s; attrs; L enc] =>
        match t_strs attrs with
        | Some a => on_sid s (fun x => t_out t_record (get_data_paths Ld F cfg x a (parse_enc enc)))
        | None => pure bad end
    | "get_data_paths_new", [L cfg; s; attrs; L enc] =>
        match t_strs attrs with
        | Some a => on_sid s (fun x => t_out t_record (get_data_paths Ld F cfg x a (parse_enc enc)))
        | None => pure bad end
    | "w_set", [L cfg; L s; L k; L v] => with_fs F t_bool (w_update Ld F cfg s [(k, v)])
    | "publish_chain", [L cfg; L s; L k] =>
        match Sid Ld s with
        | Ok x => with_fs F of_strs (publish_chain Ld Rt F cfg x (str_to_nat k) [])
        | Raise e => pure (N [L "raise"; L (exn_name e)])
        end
    | "get_paths", [L cfg; L q; attrs; L enc] =>
        match t_strs attrs with
        | Some a => pure (t_out (fun l => N (map t_record l)) (get_paths Ld F cfg q a (parse_enc enc)))
        | None => pure bad end
    | "get_all", [L q; attrs; L enc] =>
        match t_strs attrs with
        | Some a => pure (t_out (fun l => N (map t_record l)) (get_all Ld Rt F q a (parse_enc enc)))
        | None => pure bad end
    | "get_data_all", [L s; attrs; L enc] =>
        match t_strs attrs with
        | Some a => pure (t_out t_record (get_data_all Ld Rt F s a (parse_enc enc)))
        | None => pure bad end
    (* a long-lived Finder instance: the model is pure, so it answers like a new one; a partially consumed generator
       (numeric count) is not compared *)
    | "pfind", [L "all"; L _; L q; L "all"] => pure (t_out sorted_strs (find_all Ld Rt F q))
    | "pfind", [L "paths"; L cfg; L q; L "all"] => pure (t_out sorted_strs (ffind Ld F (FPaths "" (default_cfg Ld cfg)) q))
    | "pfind", [_; _; _; _] => pure (N [L "raise"; L "Unmodelled"])
    | "find_paths", [L cfg; L q] => pure (t_out sorted_strs (ffind Ld F (FPaths "" (default_cfg Ld cfg)) q))
    | "find_all", [L q] => pure (t_out sorted_strs (find_all Ld Rt F q))
    (* the search handed over as a Sid object built from the string: the same search *)
    | "find_all", [L q; L "sidarg"] => pure (t_out sorted_strs (find_all Ld Rt F q))
    | "find_list", [items; L q; L "sidarg"] =>
        pure (match t_strs items, Sid Ld q with
              | Some it, Ok x => t_out of_strs (find_g_sid Ld (fun qs => star_search qs it) x)
              | Some _, Raise e => N [L "raise"; L (exn_name e)]
              | None, _ => bad end)
    | "find_paths", [L cfg; L q; L "sidarg"] =>
        pure (match Sid Ld q with
              | Ok x => t_out sorted_strs (find_g_sid Ld (fstar Ld F (FPaths "" (default_cfg Ld cfg))) x)
              | Raise e => N [L "raise"; L (exn_name e)] end)
    (* find_one is the first result in enumeration order: modelled only when every unfolded search is a sorted (">") search *)
    | "find_all_one", [L q] =>
        match unfold_search Ld q false false with
        | Ok qs => if forallb (fun x => mem_c ">" (s_string x)) qs
                   then pure (t_out (t_opt L) (find_all_one Ld Rt F q))
                   else pure (N [L "raise"; L "Unmodelled"])
        | Raise _ => pure (t_out (t_opt L) (find_all_one Ld Rt F q))
        end
    (* Finder.exists(s) = bool(find_one(s)): some result, and the first one a non-empty string *)
    | "finder_exists", [L "paths"; L cfg; L q] =>
        pure (t_out t_bool (match ffind Ld F (FPaths "" (default_cfg Ld cfg)) q with
                            | Ok l => Ok (match l with s :: _ => truthy s | [] => false end) | Raise e => Raise e end))
    | "finder_exists", [L "all"; L _; L q] =>
        pure (t_out t_bool (match find_all Ld Rt F q with
                            | Ok l => Ok (match l with s :: _ => truthy s | [] => false end) | Raise e => Raise e end))
    | "sid_exists", [s] => on_sid s (fun x => t_out t_bool (sid_exists Ld Rt F x))
    | "children", [s] => on_sid s (fun x => t_out sorted_strs (children Ld Rt F x))
    | "siblings", [s] => on_sid s (fun x => t_out sorted_strs (siblings Ld Rt F x))
    | "get_last", [s; L k] => on_sid s (fun x => t_out t_sid (get_last Ld Rt F x (Some k)))
    | "get_next", [s; L k] => on_sid s (fun x => t_out t_sid (get_next Ld Rt F x k))
    | "get_new", [s; L k] => on_sid s (fun x => t_out t_sid (get_new Ld Rt F x k))
    | "get_attr", [s; L a] => on_sid s (fun x => t_out (t_opt L) (get_attr Ld Rt F x a))
    | _, _ => pure (run (Some Ld) op args)
    end
  | _, _ => (run st op args, F)
  end.

(** A history in one request: "seq" [[op1; args1]; [op2; args2]; ...] runs the operations in order on the threaded
    file-system state and returns the list of their answers.  The model is pure, so every answer is the answer of the
    operation alone: this is what the implementation is compared with when a history is sent as one case (C02, C12, C13). *)
Fixpoint run_seq (st : option Loaded) (rt : option Routing) (F : fs) (steps : list tree) (acc : list tree) : tree * fs :=
  match steps with
  | [] => (N (rev acc), F)
  | N [L op; N args] :: rest =>
      let '(r, F') := run_fs st rt F op args in run_seq st rt F' rest (r :: acc)
  | _ :: rest => run_seq st rt F rest (bad :: acc)
  end.

Definition run_top (st : option Loaded) (rt : option Routing) (F : fs) (op : string) (args : list tree) : tree * fs :=
  if String.eqb op "seq" then run_seq st rt F args [] else run_fs st rt F op args.
