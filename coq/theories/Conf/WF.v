(** wf_confb: the decidable well-formedness predicate the general theorems assume (DESIGN.md 5).
    Every clause is syntactic and evaluated by vm_compute on the generated configuration. *)
From Coq Require Import List String Ascii Bool Arith.
From Spil Require Import Base.Str Base.Dict Base.Outcome Base.Tree Regex.Re
  Resolva.Template Resolva.Resolver Conf.ConfUtil Conf.Conf.
Import ListNotations.
Local Open Scope string_scope.

Fixpoint nodupb (l : list string) : bool :=
  match l with
  | [] => true
  | x :: t => negb (in_list x t) && nodupb t
  end.

(* every character class / literal of a pattern excludes "/" *)
Fixpoint slash_free (r : re) : bool :=
  match r with
  | Eps => true
  | Chr a => negb (Ascii.eqb a "/")
  | Cls c | Star c => match c with
                      | CDigit | CNotSlash => true
                      | CDot | CAny => false
                      | CSet neg chars => if neg then existsb (Ascii.eqb "/") chars
                                          else negb (existsb (Ascii.eqb "/") chars)
                      end
  | Seq a b | Alt a b => slash_free a && slash_free b
  | Grp _ a => slash_free a
  end.

(* a sid template is  ph "/" ph "/" ... "/" ph  with distinct keys *)
Fixpoint sid_shape (items : list item) : bool :=
  match items with
  | [Ph _ _] => true
  | Ph _ _ :: Lit "/" :: rest => sid_shape rest
  | _ => false
  end.

(* the pattern's language contains no string with a newline (so python's "$" cannot swallow one) *)
Fixpoint nl_free (r : re) : bool :=
  match r with
  | Eps => true
  | Chr a => negb (Ascii.eqb a "010")
  | Cls c | Star c => match c with
                      | CDigit | CDot => true
                      | CNotSlash | CAny => false
                      | CSet neg chars => if neg then false else negb (existsb (Ascii.eqb "010") chars)
                      end
  | Seq a b | Alt a b => nl_free a && nl_free b
  | Grp _ a => nl_free a
  end.

Fixpoint group_free (r : re) : bool :=
  match r with
  | Eps | Chr _ | Cls _ | Star _ => true
  | Seq a b | Alt a b => group_free a && group_free b
  | Grp _ _ => false
  end.

(* a placeholder is open (the default pattern) or closed: slash-free, newline-free, no inner groups *)
Definition ph_ok (i : item) : bool :=
  match i with
  | Lit _ => true
  | Ph _ None => true
  | Ph _ (Some e) => match parse_re e with
                     | Some r => slash_free r && nl_free r && group_free r
                     | None => false
                     end
  end.

Definition wf_sid_tpl (t : tpl) : bool :=
  sid_shape (tp_items t) && nodupb (item_names (tp_items t)) && forallb ph_ok (tp_items t).

Definition wf_loadedb (Ld : Loaded) : bool :=
  nodupb (map tp_name (r_tpls (l_sid Ld)))
  && forallb wf_sid_tpl (r_tpls (l_sid Ld))
  && negb (r_check_dup (l_sid Ld))
  && nodupb (map fst (c_sid_templates (l_conf Ld))).

Definition wf_confb (c : Conf) : bool :=
  match load c with
  | Some Ld => wf_loadedb Ld
  | None => false
  end.
