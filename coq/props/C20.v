(** C20 — the guarantees hold for any well-formed configuration, not only the demo one.  Property theorems only.
    Every general theorem of C01-C08 / C11 is quantified over ALL configurations [c] that load and satisfy the decidable
    well-formedness predicate [wf_loadedb] (Conf/WF.v: the documented conventions made checkable).  This file collects
    them under that single pair of hypotheses.  The instance side (each member of the generated family parses, loads exactly
    as the implementation loaded it, and is well-formed; then the C01-C08 streams against a fresh implementation process)
    is run by tools/props/c20.py on every check. *)
From Coq Require Import List String Ascii Bool Arith Permutation Sorted.
From Spil Require Import Base.Str Base.Dict Base.Outcome Base.PyPath Resolva.Template Resolva.Resolver Conf.Conf Conf.WF Sid.Query Sid.Sid
  Sid.TypingSpec Sid.TypingProofs Sid.SidProofs Sid.QueryProofs Search.Unfold Search.FindList Search.GlobProofs Search.FindListProofs
  Search.UnfoldProofs Path.PathProofs Path.UnambiguousDefs Path.UnambiguousProofs Path.TotalDefs Path.TotalProofs
  Search.UnfoldSpec Search.DenoteProofs Search.Finders FS.Fs Search.TreeListDefs Search.TreeListProofs
  Sid.NewlineLemmas Sid.NewlineProofs Sid.NewlineHits Sid.NewlineConf.
From Spil Require Import Conf.Routing Data.Data Search.AlgebraDefs Data.SidLevelDefs Data.CreateDefs Data.PublishDefs Driver.DispatchFs Search.LastAgreeProofs.
From Spil Require Search.AlgebraProofs Data.SidLevelProofs Data.CreateProofs Data.PublishProofs.
From SpilGen Require Hamlet.
Import ListNotations.
Local Open Scope string_scope.

Theorem C20_all : forall c Ld, load c = Some Ld -> wf_loadedb Ld = true ->
  (* C01 typing *)
  (forall s, sid_to_dict Ld s "" = Ok (natural Ld s)) /\
  (forall s ty, ty <> "" -> sid_to_dict Ld s ty = Ok (forced Ld ty s)) /\
  (forall s, mem_c "?" s = false -> exists x, Sid Ld s = Ok x) /\
  (* C02 canonical form and round trips *)
  (forall s t d, natural Ld s = Some (t, d) ->
     exists tp, find_tpl (l_sid Ld) t = Some tp /\ map fst d = item_names (tp_items tp) /\ s = join "/" (map snd d)) /\
  (forall x, naturally_typed Ld x -> mem_c "?" (s_string x) = false -> Sid Ld (uri x) = Ok x /\ sid_copy Ld x = Ok x) /\
  (forall x d', naturally_typed Ld x -> mem_c "010" (s_string x) = false -> Permutation (s_fields x) d' ->
     sid_factory Ld (FromFields d') = Ok x) /\
  (* C03 hierarchy *)
  (forall x i, naturally_typed Ld x -> mem_c "010" (s_string x) = false -> 1 <= i <= List.length (s_fields x) ->
     exists y, get_as Ld x (nth (i - 1) (map fst (s_fields x)) "") = Ok y /\ s_fields y = firstn i (s_fields x) /\
               s_string y = join "/" (firstn i (split_c "/" (s_string x))) /\ sid_bool y = true) /\
  (* C04 queries *)
  (forall s q t d s' t' d', NoDup (map fst d) -> apply_query Ld s q t d = Ok (s', t', d') -> q <> "" ->
     (s' = s ++ "?" ++ q /\ t' = t /\ d' = d) \/
     (exists ov, update d q = Ok ov /\ (forall k, dget d' k = dget ov k) /\ List.length d' = List.length ov /\ forced Ld t' s' = Some (t', d'))) /\
  (* C06 paths *)
  (forall p cfg x, sid_of_path Ld p cfg = Ok x -> sid_bool x = true -> sid_path Ld x cfg = Ok (Some (norm_path p))) /\
  (* C07 unfolding *)
  (forall s u e ex, unfold_search Ld s u e = Raise ex -> ex = SpilException \/ ex = Unmodelled) /\
  (forall s u e l, unfold_search Ld s u e = Ok l -> Forall (fun x => sid_bool x = true /\ count "?" (s_string x) = 0) l /\ NoDup (map uri l)) /\
  (* C08 list search *)
  (forall items s l, find_list Ld items s = Ok l -> incl l items).
Proof.
  intros c Ld Hl Hw. repeat split.
  - intros s. exact (sid_to_dict_natural c Ld s Hl Hw).
  - intros s ty Hty. exact (sid_to_dict_forced c Ld s ty Hl Hw Hty).
  - intros s Hs. exact (Sid_total c Ld Hl Hw s Hs).
  - intros s t d H. exact (natural_canonical c Ld Hl Hw s t d H).
  - exact (proj1 (roundtrip_uri c Ld Hl Hw x H H0)).
  - exact (proj2 (roundtrip_uri c Ld Hl Hw x H H0)).
  - intros x d' H1 H2 H3. exact (roundtrip_fields c Ld Hl Hw x d' H1 H2 H3).
  - intros x i H1 H2 H3. exact (get_as_prefix c Ld Hl Hw x i H1 H2 H3).
  - intros s q t d s' t' d' H1 H2 H3. exact (apply_query_all_or_nothing c Ld Hl Hw s q t d s' t' d' H1 H2 H3).
  - intros p cfg x H1 H2. exact (path_owner c Ld p cfg x Hl Hw H1 H2).
  - intros s u e ex H. exact (unfold_errors c Ld Hl Hw s u e ex H).
  - exact (unfold_typed_clean Ld s u e l H).
  - exact (unfold_uri_nodup Ld s u e l H).
  - intros items s l H. exact (find_list_incl Ld items s l H).
Qed.
Print Assumptions C20_all.

(* the theorems that need more than well-formedness: the same statement for ALL configurations passing the decidable checks
   on path templates and on the search configuration (each generated family member is shown to pass them at run time) *)
Theorem C20_all_guarded : forall c Ld, load c = Some Ld -> wf_loadedb Ld = true ->
  paths_unambiguousb Ld = true -> paths_totalb Ld = true -> unfold_conf_okb Ld = true -> nl_safe (r_tpls (l_sid Ld)) = true ->
  (* C02 / C03 without any guard on the string *)
  (forall x d', naturally_typed Ld x -> Permutation (s_fields x) d' -> sid_factory Ld (FromFields d') = Ok x) /\
  (forall x i, naturally_typed Ld x -> 1 <= i <= List.length (s_fields x) ->
     exists y, get_as Ld x (nth (i - 1) (map fst (s_fields x)) "") = Ok y /\ s_fields y = firstn i (s_fields x) /\
               s_string y = join "/" (firstn i (split_c "/" (s_string x))) /\ sid_bool y = true) /\
  (* C05 round trip *)
  (forall x cfg p, naturally_typed Ld x -> concrete Ld x -> path_values_ok x ->
     sid_path Ld x cfg = Ok (Some p) -> sid_of_path Ld p cfg = Ok x) /\
  (* C06 never raises, for every string *)
  (forall p cfg pc, get_path_config Ld cfg = Ok pc -> exists x, sid_of_path Ld p cfg = Ok x) /\
  (* C07 denotation *)
  (forall s l, search_ok s = true -> unfold_search Ld s false false = Ok l ->
     forall x, In x l <-> exists b y, In b (bodies Ld s) /\ typed_of Ld b y /\ narrowed Ld y x) /\
  (* C11 tree search = the matching entities of the searched type *)
  (forall cfg E F, dataset_ok Ld cfg E F -> forall qs, searches_ok Ld cfg qs -> pat_inj Ld cfg qs ->
     forall l, paths_star Ld F cfg qs = Ok l ->
     forall s, In s l <-> exists e q, In e E /\ In q qs /\ s = s_string e /\ s_type e = s_type q /\
                                      glob_rel (s_string q) (s_string e)).
Proof.
  intros c Ld Hl Hw Hu Ht Hc Hn. split; [|split]; [| |repeat split].
  - intros x d' H1 H2. exact (roundtrip_fields_conf c Ld Hl Hw Hn x d' H1 H2).
  - intros x i H1 H2. exact (get_as_prefix_conf c Ld Hl Hw Hn x i H1 H2).
  - intros x cfg p H1 H2 H3 H4. exact (roundtrip c Ld x cfg p Hl Hw Hu H1 H2 H3 H4).
  - intros p cfg pc H. exact (path_never_raises c Ld p cfg pc Hl Hw Hu Ht H).
  - exact (proj1 (unfold_noquery_spec c Ld Hl Hw Hc s l H H0 x)).
  - exact (proj2 (unfold_noquery_spec c Ld Hl Hw Hc s l H H0 x)).
  - exact (proj1 (tree_search_glob c Ld Hl Hw Hu cfg E F H qs H0 H1 l H2 s)).
  - exact (proj2 (tree_search_glob c Ld Hl Hw Hu cfg E F H qs H0 H1 l H2 s)).
Qed.
Print Assumptions C20_all_guarded.

(* searches and the data layer over a data set materialised as a tree: the same statements for ALL configurations (C09 '>' answer of
   tree and list finder, C10 what a list search returns, C12 exists() is membership, C15 exists() after any history of creations,
   C18 k successive create(get_new) steps), each under its decidable guards *)
Theorem C20_all_data : forall c Ld, load c = Some Ld -> wf_loadedb Ld = true -> paths_unambiguousb Ld = true ->
  (* C09 *)
  (forall cfg E F, dataset_okb Ld cfg E F = true ->
     forall s qs idp l l', find_searches Ld s = Ok qs -> last_agree_guardb Ld cfg E qs = true -> existsb has_gt qs = true ->
     ffind Ld F (FPaths idp cfg) s = Ok l -> find_list Ld (map s_string E) s = Ok l' -> l = l') /\
  (* C10 *)
  (unfold_conf_okb Ld = true -> forall items s l, guarded Ld s -> find_list Ld items s = Ok l ->
     NoDup l /\ (forall e, In e l <-> In e items /\ matched Ld s e)) /\
  (* C12 *)
  (forall cfg E F, dataset_ok Ld cfg E F -> forall Rt id x b,
     exists_guardb Ld Rt id cfg x = true -> sid_exists Ld Rt F x = Ok b -> b = true <-> In x E) /\
  (* C15 *)
  (forall Rt cfg id ss x b, dataset_okb Ld (default_cfg Ld cfg) [] fs_root = true -> hist_okb Ld cfg ss = true ->
     exists_guardb Ld Rt id (default_cfg Ld cfg) x = true ->
     sid_exists Ld Rt (run_creates Ld Rt cfg fs_root ss) x = Ok b ->
     b = true <->
     (exists s z p, In s (created Ld Rt cfg fs_root ss) /\ Sid Ld s = Ok z /\
        sid_path Ld z (default_cfg Ld cfg) = Ok (Some p) /\ anc_with_path Ld (default_cfg Ld cfg) z x)) /\
  (* C18 *)
  (forall Rt id cfg0 x E F n k F' out, version_confb Ld = true -> rt_touch Rt = true ->
     chain_guardb Ld Rt id (default_cfg Ld cfg0) x = true -> dataset_okb Ld (default_cfg Ld cfg0) E F = true ->
     fs_invb F = true -> forallb plain_memberb E = true -> chain_topb E x n = true ->
     creatableb Ld (default_cfg Ld cfg0) x n k = true ->
     publish_chain Ld Rt F cfg0 x k [] = Ok (F', out) ->
     let j := Nat.min k (999 - n) in
     out = (map s_string (published x n j) ++ (if (k <=? 999 - n)%nat then [] else [""]))%list /\
     (exists E', dataset_ok Ld (default_cfg Ld cfg0) E' F' /\ chain_top E' x (n + j) /\ incl E E' /\
                 (forall e, In e (published x n j) -> In e E' /\ ~ In e E))).
Proof.
  intros c Ld Hl Hw Hu. split; [|split; [|split; [|split]]].
  - intros cfg E F Hd s qs idp l l'. exact (last_agree_findb c Ld cfg E F Hl Hw Hu Hd s qs idp l l').
  - intros Hc items s l. exact (AlgebraProofs.find_list_denotes c Ld Hl Hw Hc items s l).
  - intros cfg E F Hd Rt id x b. exact (SidLevelProofs.sid_exists_specb c Ld Hl Hw Hu cfg E F Hd Rt id x b).
  - intros Rt cfg id ss x b. exact (CreateProofs.exists_after_history c Ld Hl Hw Hu Rt cfg id ss x b).
  - intros Rt id cfg0 x E F n k F' out Hv Ht. exact (PublishProofs.publish_chain_b c Ld Rt id cfg0 x E F n k F' out Hl Hw Hu Hv Ht).
Qed.
Print Assumptions C20_all_data.

(* the hypotheses are satisfiable: today's configuration (and, at run time, every member of the generated family) *)
Example C20_instance : load Hamlet.the_conf = Some Hamlet.the_loaded /\ wf_loadedb Hamlet.the_loaded = true.
Proof. split; [exact Hamlet.the_loaded_eq | exact Hamlet.conf_wf]. Qed.
Print Assumptions C20_instance.
