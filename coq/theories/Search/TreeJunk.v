(** C11: paths that no search of the list accepts (junk: resolve to the empty Sid, to a Sid of another
    type, or to a Sid failing the field check) do not change the result set of FindInPaths.star_search and
    never make it fail.  Generalises FindersProofs.paths_star_junk (new paths resolve to the empty Sid). *)
From Coq Require Import List String Ascii Bool Arith Lia.
From Spil Require Import Base.Str Base.Dict Base.Outcome Base.StrProofs Base.SplitProofs Base.PyPath
  Conf.Conf Conf.WF Sid.Sid Sid.SidProofs Path.UnambiguousDefs
  FS.Fs Search.FindList Search.GlobProofs Search.Finders Search.FindersProofs
  Search.TreeListDefs Search.TreeListProofs.
Import ListNotations.
Local Open Scope string_scope.

Lemma rejects_cases q x :
  sid_bool x = false \/ s_type x <> s_type q \/ fields_match q x = false -> FindersProofs.accepts q x = false.
Proof.
  rewrite accepts_split. intros [H | [H | H]].
  - rewrite H, andb_false_r. reflexivity.
  - apply String.eqb_neq in H. rewrite H. reflexivity.
  - rewrite H, andb_false_r. reflexivity.
Qed.

Section JunkGen.
Variable Ld : Loaded.
Variable cfg : string.
Variables F F' : fs.
Hypothesis Hsub : forall p, In p (dkeys F) -> In p (dkeys F').

(* a new path resolves (without raising) to a Sid that search q does not accept *)
Definition rejected_by (q : sid) (p : string) : Prop :=
  exists x, sid_factory Ld (FromPath p cfg) = Ok x /\ FindersProofs.accepts q x = false.

Lemma inner_junk_gen q found found' fp fp' res res' :
  incl found found' ->
  (forall p, In p found' -> ~ In p found -> rejected_by q p) ->
  fp_inv Ld cfg fp res -> fp_inv Ld cfg fp' res' ->
  (forall p, In p fp <-> In p fp') -> (forall s, In s res <-> In s res') ->
  match fold_left (pstep Ld cfg q) found (Ok (fp, res)), fold_left (pstep Ld cfg q) found' (Ok (fp', res')) with
  | Ok (a, b), Ok (a', b') =>
      fp_inv Ld cfg a b /\ fp_inv Ld cfg a' b' /\ (forall p, In p a <-> In p a') /\ (forall s, In s b <-> In s b')
  | Raise _, Raise _ => True
  | _, _ => False
  end.
Proof.
  intros Hincl Hnew Hi Hi' Hfp Hres.
  pose proof (inner_spec Ld cfg q found fp res Hi) as S1.
  pose proof (inner_spec Ld cfg q found' fp' res' Hi') as S2.
  assert (Hacc : forall p, (In p found /\ exists x, sid_factory Ld (FromPath p cfg) = Ok x /\
                                                    FindersProofs.accepts q x = true) <->
                           (In p found' /\ exists x, sid_factory Ld (FromPath p cfg) = Ok x /\
                                                     FindersProofs.accepts q x = true)).
  { intros p. split; intros (Hp & x & Hx & Ha).
    - split; [apply Hincl; exact Hp | exists x; auto].
    - destruct (in_dec string_dec p found) as [Hin|Hnin]; [split; [exact Hin | exists x; auto]|].
      destruct (Hnew p Hp Hnin) as (x' & Hx' & Ha'). rewrite Hx' in Hx. inversion Hx; subst x'. congruence. }
  destruct (fold_left (pstep Ld cfg q) found (Ok (fp, res))) as [[a b]|e];
    destruct (fold_left (pstep Ld cfg q) found' (Ok (fp', res'))) as [[a' b']|e'].
  - destruct S1 as (I1 & I2 & I3 & I4). destruct S2 as (J1 & J2 & J3 & J4).
    split; [exact I1|]. split; [exact J1|]. split.
    + intros p. rewrite I3, J3, Hfp, Hacc. reflexivity.
    + intros s. rewrite I4, J4, Hres. split; (intros [H|(p & x & Hp & Hx & Ha & Hs)]; [left; exact H|right]).
      * exists p, x. split; [apply Hincl; exact Hp | auto].
      * destruct (proj2 (Hacc p) (conj Hp (ex_intro _ x (conj Hx Ha)))) as (Hp' & _). exists p, x. auto.
  - destruct S1 as (_ & I2 & _). destruct S2 as (p & Hp & He).
    destruct (in_dec string_dec p found) as [Hin|Hnin].
    + destruct (I2 p Hin) as (x & Hx). congruence.
    + destruct (Hnew p Hp Hnin) as (x' & Hx' & _). congruence.
  - destruct S2 as (_ & J2 & _). destruct S1 as (p & Hp & He).
    destruct (J2 p (Hincl p Hp)) as (x & Hx). congruence.
  - exact I.
Qed.

Lemma ostep_rel_gen st st' q :
  (forall p, In p (dkeys F') -> ~ In p (dkeys F) -> rejected_by q p) ->
  st_rel Ld cfg st st' -> st_rel Ld cfg (ostep Ld cfg F st q) (ostep Ld cfg F' st' q).
Proof.
  intros Hjunk.
  destruct st as [[[sd fp] res]|e], st' as [[[sd' fp'] res']|e']; intros H; simpl in H; try contradiction;
    [|exact I].
  destruct H as (<- & Hi & Hi' & Hfp & Hres). unfold ostep. cbn [bind].
  destruct (sid_path Ld q cfg) as [po|e]; cbn [bind]; [|exact I].
  set (pattern := match po with Some p => p | None => "None" end).
  destruct (existsb _ sd).
  - simpl. auto.
  - destruct (fs_glob F pattern) as [found|] eqn:Eg, (fs_glob F' pattern) as [found'|] eqn:Eg'.
    + pose proof (inner_junk_gen q found found' fp fp' res res' (glob_monotone _ _ _ _ _ Eg Eg' Hsub)) as Hj.
      assert (Hnew : forall p, In p found' -> ~ In p found -> rejected_by q p).
      { intros p Hp Hn. destruct (glob_new_paths _ _ _ _ _ Eg Eg' p Hp Hn) as (H1 & H2). apply (Hjunk p H1 H2). }
      specialize (Hj Hnew Hi Hi' Hfp Hres).
      destruct (fold_left (pstep Ld cfg q) found (Ok (fp, res))) as [[a b]|e];
        destruct (fold_left (pstep Ld cfg q) found' (Ok (fp', res'))) as [[a' b']|e']; cbn [bind fst snd];
        try contradiction; [|exact I].
      simpl. destruct Hj as (H1 & H2 & H3 & H4). auto.
    + apply (fs_glob_defined F F') in Eg'. congruence.
    + apply (fs_glob_defined F F') in Eg. congruence.
    + exact I.
Qed.

Lemma ofold_rel_gen : forall qs st st',
  (forall q p, In q qs -> In p (dkeys F') -> ~ In p (dkeys F) -> rejected_by q p) ->
  st_rel Ld cfg st st' ->
  st_rel Ld cfg (fold_left (ostep Ld cfg F) qs st) (fold_left (ostep Ld cfg F') qs st').
Proof.
  induction qs as [|q qs IH]; intros st st' Hj H; [exact H|]. cbn [fold_left]. apply IH.
  - intros q' p Hq'. apply Hj. right. exact Hq'.
  - apply ostep_rel_gen; [|exact H]. intros p. apply Hj. left. reflexivity.
Qed.

(** same set of results, and one raises iff the other does *)
Theorem paths_star_junk_gen qs :
  (forall q p, In q qs -> In p (dkeys F') -> ~ In p (dkeys F) -> rejected_by q p) ->
  set_rel (paths_star Ld F cfg qs) (paths_star Ld F' cfg qs).
Proof.
  intros Hj. rewrite !paths_star_unfold.
  assert (H0 : st_rel Ld cfg (Ok ([], [], [])) (Ok ([], [], []))).
  { simpl. split; [reflexivity|]. split; [intros p []|]. split; [intros p []|]. split; intros; reflexivity. }
  pose proof (ofold_rel_gen qs _ _ Hj H0) as H.
  destruct (fold_left (ostep Ld cfg F) qs (Ok ([], [], []))) as [[[sd fp] res]|e];
    destruct (fold_left (ostep Ld cfg F') qs (Ok ([], [], []))) as [[[sd' fp'] res']|e'];
    simpl in H; try contradiction; cbn [bind]; [|exact I].
  simpl. tauto.
Qed.

(** the three kinds of junk of the property: every added path resolves to the empty Sid, or to a Sid of a
    type that is not searched, or to a Sid that fails the field check of the searches of its type *)
Corollary paths_star_junk_kinds qs :
  (forall p, In p (dkeys F') -> ~ In p (dkeys F) ->
     exists x, sid_factory Ld (FromPath p cfg) = Ok x /\
       (sid_bool x = false \/
        forall q, In q qs -> s_type x <> s_type q \/ fields_match q x = false)) ->
  set_rel (paths_star Ld F cfg qs) (paths_star Ld F' cfg qs).
Proof.
  intros Hj. apply paths_star_junk_gen. intros q p Hq Hp Hn. destruct (Hj p Hp Hn) as (x & Hx & Hc).
  exists x. split; [exact Hx|]. apply rejects_cases. destruct Hc as [Hb | Hc]; [left; exact Hb|].
  right. exact (Hc q Hq).
Qed.

Corollary paths_star_junk_kinds_ok qs l' :
  (forall p, In p (dkeys F') -> ~ In p (dkeys F) ->
     exists x, sid_factory Ld (FromPath p cfg) = Ok x /\
       (sid_bool x = false \/
        forall q, In q qs -> s_type x <> s_type q \/ fields_match q x = false)) ->
  paths_star Ld F' cfg qs = Ok l' ->
  exists l, paths_star Ld F cfg qs = Ok l /\ forall s, In s l <-> In s l'.
Proof.
  intros Hj H'. pose proof (paths_star_junk_kinds qs Hj) as Hr. rewrite H' in Hr.
  destruct (paths_star Ld F cfg qs) as [l|e]; [|contradiction]. exists l. split; [reflexivity | exact Hr].
Qed.

End JunkGen.

(** * C11 on a tree with junk: the clean tree F holds exactly the paths of E; F' adds junk of the three kinds *)

Section TreeWithJunk.
Variables (c : Conf) (Ld : Loaded).
Hypothesis Hload : load c = Some Ld.
Hypothesis Hwf : wf_loadedb Ld = true.
Hypothesis Hpu : paths_unambiguousb Ld = true.
Variable cfg : string.
Variable E : list sid.
Variables F F' : fs.
Hypothesis HD : dataset_ok Ld cfg E F.
Hypothesis Hsub : forall p, In p (dkeys F) -> In p (dkeys F').
Variable qs : list sid.
Hypothesis Hqs : searches_ok Ld cfg qs.
Hypothesis Hinj : pat_inj Ld cfg qs.
Hypothesis Hjunk : forall p, In p (dkeys F') -> ~ In p (dkeys F) ->
  exists x, sid_factory Ld (FromPath p cfg) = Ok x /\
    (sid_bool x = false \/ forall q, In q qs -> s_type x <> s_type q \/ fields_match q x = false).

(* junk never appears in the results *)
Theorem tree_search_glob_junk l' : paths_star Ld F' cfg qs = Ok l' ->
  forall s, In s l' <->
    exists e q, In e E /\ In q qs /\ s = s_string e /\ s_type e = s_type q /\ glob_rel (s_string q) (s_string e).
Proof.
  intros H' s. destruct (paths_star_junk_kinds_ok Ld cfg F F' Hsub qs l' Hjunk H') as (l & H & Heq).
  rewrite <- Heq. exact (tree_search_glob c Ld Hload Hwf Hpu cfg E F HD qs Hqs Hinj l H s).
Qed.

(* junk never makes a search fail (nor succeed) *)
Theorem junk_no_fail :
  (exists ex, paths_star Ld F' cfg qs = Raise ex) <-> (exists ex, paths_star Ld F cfg qs = Raise ex).
Proof.
  pose proof (paths_star_junk_kinds Ld cfg F F' Hsub qs Hjunk) as Hr.
  destruct (paths_star Ld F cfg qs) as [r|e], (paths_star Ld F' cfg qs) as [r'|e']; simpl in Hr; try contradiction.
  - split; intros (ex & He); discriminate.
  - split; intros _; eauto.
Qed.

(* tree with junk = list of the Sids, when every globbed member of E is globbed by a search of its own type *)
Theorem tree_eq_list_junk l' l2 : types_covered E qs ->
  paths_star Ld F' cfg qs = Ok l' -> star_search qs (map s_string E) = Ok l2 ->
  forall s, In s l' <-> In s l2.
Proof.
  intros Hta H' H2 s. destruct (paths_star_junk_kinds_ok Ld cfg F F' Hsub qs l' Hjunk H') as (l & H & Heq).
  rewrite <- Heq. exact (tree_eq_list c Ld Hload Hwf Hpu cfg E F HD qs Hqs Hinj l l2 Hta H H2 s).
Qed.

End TreeWithJunk.

(** * Decidable version of the junk hypotheses *)

Definition fs_subb (F F' : fs) : bool := forallb (fun p => in_list p (dkeys F')) (dkeys F).

Definition junk_kindsb (Ld : Loaded) (cfg : string) (F F' : fs) (qs : list sid) : bool :=
  forallb (fun p => in_list p (dkeys F) ||
                    match sid_factory Ld (FromPath p cfg) with
                    | Ok x => negb (sid_bool x) ||
                              forallb (fun q => negb (String.eqb (s_type x) (s_type q)) || negb (fields_match q x)) qs
                    | Raise _ => false
                    end) (dkeys F').

Lemma fs_subb_sound F F' : fs_subb F F' = true -> forall p, In p (dkeys F) -> In p (dkeys F').
Proof. unfold fs_subb. rewrite forallb_forall. intros H p Hp. apply in_list_In. exact (H p Hp). Qed.

Lemma junk_kindsb_sound Ld cfg F F' qs : junk_kindsb Ld cfg F F' qs = true ->
  forall p, In p (dkeys F') -> ~ In p (dkeys F) ->
    exists x, sid_factory Ld (FromPath p cfg) = Ok x /\
      (sid_bool x = false \/ forall q, In q qs -> s_type x <> s_type q \/ fields_match q x = false).
Proof.
  unfold junk_kindsb. rewrite forallb_forall. intros H p Hp Hn. specialize (H p Hp).
  apply orb_true_iff in H. destruct H as [H | H]; [apply in_list_In in H; contradiction|].
  destruct (sid_factory Ld (FromPath p cfg)) as [x|ex]; [|discriminate]. exists x. split; [reflexivity|].
  apply orb_true_iff in H. destruct H as [H | H]; [left; apply negb_true_iff; exact H|]. right.
  rewrite forallb_forall in H. intros q Hq. specialize (H q Hq). apply orb_true_iff in H.
  destruct H as [H | H]; apply negb_true_iff in H; [left; apply String.eqb_neq; exact H | right; exact H].
Qed.

Print Assumptions paths_star_junk_gen.
Print Assumptions tree_search_glob_junk.
Print Assumptions junk_no_fail.
Print Assumptions tree_eq_list_junk.
