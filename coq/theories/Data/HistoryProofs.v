(** C15: "the data read for a Sid is the overlay, in call order, of everything written to it", over histories of
    create / set / update calls (definitions: Data/HistoryDefs.v).

    What turns out to carry the property: a creation ([fs_touch] / [fs_mkdir_parents]) never changes a node that is
    there, and what it adds is a directory or an empty file, both of which READ as "no data" exactly like a missing
    sidecar.  So the overlay equation needs no hypothesis on paths and none on the tree; the only guard is that the
    written dicts have distinct keys (first write to a missing sidecar dumps the argument verbatim). *)
From Coq Require Import List String Ascii Bool Arith Lia.
From Spil Require Import Base.Str Base.Dict Base.Outcome Base.PyPath Base.StrProofs Base.SplitProofs
  Conf.Conf Conf.Routing Sid.Sid Sid.SidLemmas FS.Fs Search.TreeListDefs Data.Data Data.CrashProofs Data.DataProofs
  Data.CreateDefs Data.CreateFs Data.HistoryDefs.
Import ListNotations.
Local Open Scope string_scope.

(** * Strings *)

Lemma app_inv_tail_s : forall (a b s : string), a ++ s = b ++ s -> a = b.
Proof.
  induction a as [|x a IH]; intros b s H; destruct b as [|y b]; cbn [append] in H.
  - reflexivity.
  - exfalso. apply (f_equal String.length) in H. cbn [String.length] in H. rewrite length_app_s in H. lia.
  - exfalso. apply (f_equal String.length) in H. cbn [String.length] in H. rewrite length_app_s in H. lia.
  - inversion H as [[Hx Hr]]. f_equal. exact (IH b s Hr).
Qed.

Lemma mem_c_mid c a b : mem_c c (a ++ String c b) = true.
Proof. rewrite mem_c_app. cbn [mem_c]. rewrite Ascii.eqb_refl. cbn [orb]. apply orb_true_r. Qed.

(* a string is cut at its last separator in one way only *)
Lemma last_sep_unique c : forall a1 a2 s1 s2, mem_c c s1 = false -> mem_c c s2 = false ->
  a1 ++ String c s1 = a2 ++ String c s2 -> a1 = a2 /\ s1 = s2.
Proof.
  induction a1 as [|x a1 IH]; intros a2 s1 s2 H1 H2 E; destruct a2 as [|y a2]; cbn [append] in E.
  - inversion E. split; reflexivity.
  - exfalso. injection E as Hc Hs. rewrite Hs, mem_c_mid in H1. discriminate.
  - exfalso. injection E as Hc Hs. rewrite <- Hs, mem_c_mid in H2. discriminate.
  - injection E as Hx Hr. destruct (IH a2 s1 s2 H1 H2 Hr) as (-> & ->). subst y. split; reflexivity.
Qed.

Lemma mem_c_take c : forall n s, mem_c c s = false -> mem_c c (take n s) = false.
Proof.
  induction n as [|n IH]; intros s H; destruct s as [|a s]; cbn [take mem_c] in *; try reflexivity.
  apply orb_false_iff in H. destruct H as (Ha & Hs). rewrite Ha. cbn [orb]. exact (IH s Hs).
Qed.

Lemma split_c_app_gen c : forall a b, split_c c (a ++ String c b) = (split_c c a ++ split_c c b)%list.
Proof.
  induction a as [|x a IH]; intros b; cbn [append split_c].
  - rewrite Ascii.eqb_refl. reflexivity.
  - rewrite IH. destruct (Ascii.eqb x c); [reflexivity|].
    destruct (split_c c a) as [|h t] eqn:Es; [exfalso; exact (split_c_not_nil c a Es)|]. reflexivity.
Qed.

Lemma last_opt_In' {A} (l : list A) x : last_opt l = Some x -> In x l.
Proof.
  induction l as [|a l IH]; cbn [last_opt]; [discriminate|]. destruct l as [|b l].
  - intros H. inversion H. left. reflexivity.
  - intros H. right. exact (IH H).
Qed.

(** * The sidecar of a path: directory part, dotted stem, data suffix *)

Lemma path_name_no_slash p : mem_c "/" (path_name p) = false.
Proof.
  unfold path_name. destruct (last_opt (snd (path_parts p))) as [n|] eqn:E; [|reflexivity].
  apply last_opt_In' in E. unfold path_parts in E. destruct (sempty p); [destruct E|].
  destruct (splitroot p) as [root rel]. cbn [snd] in E. apply filter_In in E. destruct E as (E & _).
  pose proof (split_c_nomem_all "/" rel) as Hall. rewrite Forall_forall in Hall. exact (Hall n E).
Qed.

Lemma sidecar_stem_no_slash p : mem_c "/" (sidecar_stem p) = false.
Proof.
  assert (Hn : mem_c "/" ("." ++ path_name p) = false).
  { cbn [append mem_c]. rewrite path_name_no_slash. reflexivity. }
  unfold sidecar_stem. destruct (rfind_dot ("." ++ path_name p)) as [i|]; [|exact Hn].
  destruct (Nat.ltb 0 i && Nat.ltb i (String.length ("." ++ path_name p) - 1)); [|exact Hn].
  apply mem_c_take. exact Hn.
Qed.

(* the stem begins with the "." that makes the file hidden *)
Lemma sidecar_stem_dot p : exists r, sidecar_stem p = String "." r.
Proof.
  unfold sidecar_stem. change ("." ++ path_name p) with (String "." (path_name p)).
  destruct (rfind_dot (String "." (path_name p))) as [i|]; [|eexists; reflexivity].
  destruct (Nat.ltb 0 i) eqn:E0; cbn [andb]; [|eexists; reflexivity].
  destruct (Nat.ltb i (String.length (String "." (path_name p)) - 1)); [|eexists; reflexivity].
  destruct i as [|i]; [discriminate|]. cbn [take]. eexists. reflexivity.
Qed.

Theorem sidecar_path_stem suf p :
  sidecar_path suf p = (if String.eqb (parent_path p) "/" then "/" else parent_path p ++ "/") ++ sidecar_stem p ++ suf.
Proof. reflexivity. Qed.

Lemma parent_path_not_empty p : parent_path p <> "".
Proof.
  unfold parent_path. destruct (removelast (split_c "/" p)) as [|x [|y t]]; [discriminate| |].
  - destruct x; discriminate.
  - rewrite join_cons2. destruct x; discriminate.
Qed.

Lemma sidecar_dir_slash p : exists a, sidecar_dir p = a ++ "/" /\ (a = "" <-> parent_path p = "/").
Proof.
  unfold sidecar_dir. destruct (String.eqb (parent_path p) "/") eqn:E.
  - exists "". split; [reflexivity|]. apply String.eqb_eq in E. split; intros _; [exact E | reflexivity].
  - exists (parent_path p). split; [reflexivity|]. apply String.eqb_neq in E. split; intros H.
    + exfalso. exact (parent_path_not_empty p H).
    + contradiction.
Qed.

(* the converse of [sidecar_same_stem]: two paths share their sidecar ONLY IF they lie in the same directory and
   their names have the same dotted stem (they differ by no more than the last extension).  No hypothesis. *)
Theorem sidecar_injective suf p1 p2 : sidecar_path suf p1 = sidecar_path suf p2 ->
  parent_path p1 = parent_path p2 /\ sidecar_stem p1 = sidecar_stem p2.
Proof.
  intros H. rewrite !sidecar_path_stem in H. fold (sidecar_dir p1) (sidecar_dir p2) in H.
  rewrite <- !app_assoc_s in H. apply app_inv_tail_s in H.
  destruct (sidecar_dir_slash p1) as (a1 & E1 & I1). destruct (sidecar_dir_slash p2) as (a2 & E2 & I2).
  rewrite E1, E2 in H. rewrite !app_assoc_s in H. cbn [append] in H.
  destruct (last_sep_unique "/" a1 a2 _ _ (sidecar_stem_no_slash p1) (sidecar_stem_no_slash p2) H) as (Ha & Hs).
  split; [|exact Hs]. subst a2.
  unfold sidecar_dir in E1, E2.
  destruct (String.eqb (parent_path p1) "/") eqn:B1; destruct (String.eqb (parent_path p2) "/") eqn:B2.
  - apply String.eqb_eq in B1, B2. congruence.
  - exfalso. apply String.eqb_neq in B2. apply B2. apply I2. apply I1. apply String.eqb_eq. exact B1.
  - exfalso. apply String.eqb_neq in B1. apply B1. apply I1. apply I2. apply String.eqb_eq. exact B2.
  - exact (app_inv_tail_s _ _ _ (eq_trans E1 (eq_sym E2))).
Qed.

(* a sidecar path has a component that starts with "." *)
Lemma sidecar_hidden suf p : no_hiddenb (sidecar_path suf p) = false.
Proof.
  rewrite sidecar_path_stem. fold (sidecar_dir p).
  destruct (sidecar_dir_slash p) as (a & -> & _). destruct (sidecar_stem_dot p) as (r & ->).
  rewrite app_assoc_s. cbn [append]. unfold no_hiddenb. rewrite split_c_app_gen, forallb_app.
  cbn [split_c]. change (Ascii.eqb "." "/") with false. cbv iota.
  destruct (split_c "/" (r ++ suf)) as [|h t]; cbn [forallb is_hidden negb andb str1]; apply andb_false_r.
Qed.

(** * What the paths a creation may add look like *)

Lemma forallb_firstn {A} (f : A -> bool) (l : list A) k : forallb f l = true -> forallb f (firstn k l) = true.
Proof.
  intros H. apply forallb_forall. intros x Hx. rewrite forallb_forall in H. apply H.
  rewrite <- (firstn_skipn k l). apply in_or_app. left. exact Hx.
Qed.

Lemma anc_visible p q : no_hiddenb p = true -> In q (ancestors_and_self p) -> no_hiddenb q = true.
Proof.
  intros Hp Hq. apply anc_char in Hq. destruct Hq as (_ & k & (Hk & _) & ->).
  unfold no_hiddenb. rewrite (split_firstn p k Hk). apply forallb_firstn. exact Hp.
Qed.

Lemma created_visible p q : path_visibleb p = true -> In q (created_paths p) -> no_hiddenb q = true.
Proof.
  unfold path_visibleb, created_paths. intros H Hq. apply andb_true_iff in H. destruct H as (H1 & H2).
  destruct Hq as [<- | Hq]; [exact H1|]. apply in_app_or in Hq. destruct Hq as [Hq | Hq].
  - exact (anc_visible p q H1 Hq).
  - exact (anc_visible _ q H2 Hq).
Qed.

(* for an absolute path the guard is [no_hiddenb] alone *)
Lemma created_visible_abs p : abs_path p = true -> no_hiddenb p = true -> path_visibleb p = true.
Proof.
  intros Ha Hp. unfold path_visibleb. rewrite Hp. cbn [andb].
  pose proof (abs_split_len p Ha) as Hl.
  destruct (Nat.eq_dec (List.length (split_c "/" p)) 2) as [E2 | N2].
  - rewrite (parent_path_short p Ha E2). reflexivity.
  - rewrite (parent_path_long p) by lia. unfold no_hiddenb. rewrite split_firstn by lia.
    apply forallb_firstn. exact Hp.
Qed.

(* for an absolute path the paths a creation may add are the path and the directories above it *)
Lemma created_paths_abs p q : abs_path p = true -> In q (created_paths p) ->
  q = p \/ q = "/" \/ In q (ancestors_and_self p).
Proof.
  intros Ha [<- | Hq]; [left; reflexivity|]. apply in_app_or in Hq. destruct Hq as [Hq | Hq].
  - right. right. exact Hq.
  - right. exact (proper_dirs_anc p q Ha Hq).
Qed.

(** * The file tree under a creation: nothing that is there changes; what is added is a directory or an empty file *)

Definition added_node (o : option node) : Prop := o = Some Dir \/ o = Some (File CEmpty).

Lemma fs_exists_false_get (F : fs) p : fs_exists F p = false -> fs_get F p = None.
Proof. unfold fs_exists, dmem, fs_get. destruct (dget F p); [discriminate | reflexivity]. Qed.

Lemma fs_add_get_same (F : fs) p n : fs_get (fs_add F p n) p = Some n.
Proof. unfold fs_get, fs_add. apply dget_dset_same. Qed.

Lemma fs_add_get_other (F : fs) p n q : q <> p -> fs_get (fs_add F p n) q = fs_get F q.
Proof. intros H. unfold fs_get, fs_add. apply dget_dset_other. congruence. Qed.

Lemma mkdir_fold_get q : forall (l : list string) (F : fs),
  let F' := fold_left (fun acc a => if fs_exists acc a then acc else fs_add acc a Dir) l F in
  fs_get F' q = fs_get F q \/ (fs_get F q = None /\ In q l /\ fs_get F' q = Some Dir).
Proof.
  induction l as [|a l IH]; intros F; cbn [fold_left]; [left; reflexivity|].
  specialize (IH (if fs_exists F a then F else fs_add F a Dir)). cbv zeta in IH |- *.
  destruct (fs_exists F a) eqn:Ex.
  - destruct IH as [IH | (I1 & I2 & I3)]; [left; exact IH | right; repeat split; [exact I1 | right; exact I2 | exact I3]].
  - destruct (String.eqb q a) eqn:Eq.
    + apply String.eqb_eq in Eq. subst a. rewrite fs_add_get_same in IH.
      right. split; [exact (fs_exists_false_get F q Ex)|]. split; [left; reflexivity|].
      destruct IH as [IH | (I1 & _)]; [exact IH | discriminate].
    + apply String.eqb_neq in Eq. rewrite (fs_add_get_other F a Dir q Eq) in IH.
      destruct IH as [IH | (I1 & I2 & I3)]; [left; exact IH | right; repeat split; [exact I1 | right; exact I2 | exact I3]].
Qed.

Lemma mkdir_get (F F' : fs) p : fs_mkdir_parents F p = Ok F' ->
  forall q, fs_get F' q = fs_get F q \/ (fs_get F q = None /\ In q (ancestors_and_self p) /\ fs_get F' q = Some Dir).
Proof.
  unfold fs_mkdir_parents. destruct (fs_exists F p); [discriminate|].
  destruct (existsb _ (ancestors_and_self p)); [discriminate|].
  intros H q. inversion H. apply mkdir_fold_get.
Qed.

Lemma touch_get (F F' : fs) p : fs_touch F p = Ok F' ->
  forall q, fs_get F' q = fs_get F q \/
            (fs_get F q = None /\ (q = p \/ In q (ancestors_and_self (parent_path p))) /\ added_node (fs_get F' q)).
Proof.
  unfold fs_touch. intros H q.
  destruct (if fs_exists F (parent_path p) then _ else _) as [F1|e] eqn:E1; cbn [bind] in H; [|discriminate].
  assert (K1 : fs_get F1 q = fs_get F q \/
               (fs_get F q = None /\ In q (ancestors_and_self (parent_path p)) /\ fs_get F1 q = Some Dir)).
  { destruct (fs_exists F (parent_path p)).
    - destruct (fs_isdir F (parent_path p)); [|discriminate]. inversion E1. left. reflexivity.
    - exact (mkdir_get F F1 _ E1 q). }
  assert (K2 : fs_get F' q = fs_get F1 q \/ (fs_get F1 q = None /\ q = p /\ fs_get F' q = Some (File CEmpty))).
  { destruct (fs_get F1 p) as [n|] eqn:Eg.
    - destruct n; try discriminate; inversion H; left; reflexivity.
    - inversion H. destruct (String.eqb q p) eqn:Eq.
      + apply String.eqb_eq in Eq. subst q. right. rewrite fs_add_get_same. repeat split. exact Eg.
      + apply String.eqb_neq in Eq. left. apply fs_add_get_other. exact Eq. }
  destruct K2 as [K2 | (N1 & -> & K2)].
  - rewrite K2. destruct K1 as [K1 | (A & B & C)]; [left; exact K1|].
    right. split; [exact A|]. split; [right; exact B|]. left. exact C.
  - right. split.
    + destruct K1 as [K1 | (A & _)]; [rewrite <- K1; exact N1 | exact A].
    + split; [left; reflexivity | right; exact K2].
Qed.

Section Hist.
Variables (L : Loaded) (R : Routing).

Lemma create_op_get F x p F' : create_op L R F x p = Ok F' ->
  forall q, fs_get F' q = fs_get F q \/ (fs_get F q = None /\ In q (created_paths p) /\ added_node (fs_get F' q)).
Proof.
  unfold create_op, created_paths. intros H q. destruct (truthy (path_suffix p) && is_leaf L x).
  - destruct (rt_touch R).
    + destruct (touch_get F F' p H q) as [K | (A & B & C)]; [left; exact K|].
      right. split; [exact A|]. split; [|exact C]. destruct B as [-> | B]; [left; reflexivity|].
      right. apply in_or_app. right. exact B.
    + inversion H. left. reflexivity.
  - destruct (mkdir_get F F' p H q) as [K | (A & B & C)]; [left; exact K|].
    right. split; [exact A|]. split; [|left; exact C]. right. apply in_or_app. left. exact B.
Qed.

(* a creation does not change what is read from any sidecar *)
Lemma added_load F Fm dp :
  (fs_get Fm dp = fs_get F dp \/ (fs_get F dp = None /\ added_node (fs_get Fm dp))) ->
  load_sidecar Fm dp = load_sidecar F dp.
Proof.
  unfold load_sidecar. intros [-> | (-> & [-> | ->])]; reflexivity.
Qed.

(** * One call *)

Lemma w_create_inv F cfg s data F' b : w_create L R F cfg s data = Ok (F', b) ->
  exists x p Fm, Sid L s = Ok x /\ sid_path L x (default_cfg L cfg) = Ok (Some p) /\
    fs_exists F p = false /\ create_op L R F x p = Ok Fm /\
    ((F' = Fm /\ wrote (WCreate cfg s data) (Ok b) = false) \/
     (wrote (WCreate cfg s data) (Ok b) = true /\ write_data L Fm p data = Ok F')).
Proof.
  unfold w_create, create_op. destruct (Sid L s) as [x|e] eqn:Es; [|discriminate]. cbn [bind].
  destruct (sid_path L x (default_cfg L cfg)) as [[p|]|e] eqn:Ep; try discriminate. cbn [bind].
  destruct (fs_exists F p) eqn:Ex; [discriminate|].
  destruct (if truthy (path_suffix p) && is_leaf L x then _ else _) as [F1|e] eqn:Eo; [|discriminate]. cbn [bind].
  intros H. exists x, p, F1. split; [reflexivity|]. split; [exact Ep|]. split; [exact Ex|]. split; [exact Eo|].
  destruct (fs_exists F1 p); cbn [negb] in H.
  - destruct data as [|kv data].
    + inversion H. left. split; reflexivity.
    + destruct (write_data L F1 p (kv :: data)) as [F2|e] eqn:Ew; cbn [bind] in H; [|discriminate].
      inversion H. subst. right. split; reflexivity.
  - inversion H. left. split; [reflexivity|]. destruct data; reflexivity.
Qed.

Lemma entity_path_eq cfg s x p : Sid L s = Ok x -> sid_path L x (default_cfg L cfg) = Ok (Some p) ->
  entity_path L cfg s = Some p.
Proof. intros Hs Hp. unfold entity_path. rewrite Hs, Hp. reflexivity. Qed.

Lemma entity_path_inv cfg s p : entity_path L cfg s = Some p ->
  exists x, Sid L s = Ok x /\ sid_path L x (default_cfg L cfg) = Ok (Some p).
Proof.
  unfold entity_path. destruct (Sid L s) as [x|e]; [|discriminate].
  destruct (sid_path L x (default_cfg L cfg)) as [[q|]|e] eqn:Ep; try discriminate.
  intros H. inversion H. subst q. exists x. split; [reflexivity | exact Ep].
Qed.

(* the shape of one call: a creation part (only for a create() that does not raise), then no write at all or one
   successful [write_data] to the sidecar of the entity *)
Lemma wstep_cases F op F1 o : wstep L R F op = (F1, o) ->
  exists Fm,
    (forall q, fs_get Fm q = fs_get F q \/
               (fs_get F q = None /\ In q (op_created L op o) /\ added_node (fs_get Fm q))) /\
    ((F1 = Fm /\ wrote op o = false) \/
     (wrote op o = true /\ exists p, entity_path L (op_cfg op) (op_sid op) = Some p /\
                                     write_data L Fm p (op_data op) = Ok F1)).
Proof.
  unfold wstep. destruct (wrun L R F op) as [[F' b]|e] eqn:E; intros H; inversion H; subst; clear H.
  - destruct op as [cfg s data | cfg s data]; cbn [wrun] in E.
    + destruct (w_create_inv _ _ _ _ _ _ E) as (x & p & Fm & Hs & Hp & _ & Hc & Hw).
      exists Fm. split.
      * intros q. cbn [op_created]. rewrite (entity_path_eq cfg s x p Hs Hp). exact (create_op_get F x p Fm Hc q).
      * destruct Hw as [Hw | (Hw1 & Hw2)]; [left; exact Hw|]. right. split; [exact Hw1|].
        exists p. split; [exact (entity_path_eq cfg s x p Hs Hp) | exact Hw2].
    + destruct (w_update_inv L _ _ _ _ _ _ E) as (x & p & Hs & Hp & _ & Hw & ->).
      exists F. split; [intros q; left; reflexivity|]. right. split; [reflexivity|].
      exists p. split; [exact (entity_path_eq cfg s x p Hs Hp) | exact Hw].
  - exists F1. split; [intros q; left; reflexivity|]. left. split; reflexivity.
Qed.

Lemma target_is_of op p dp : entity_path L (op_cfg op) (op_sid op) = Some p ->
  target_is L op dp = String.eqb (sidecar L p) dp.
Proof. intros H. unfold target_is, op_target, target. rewrite H. reflexivity. Qed.

Lemma op_target_of op p : entity_path L (op_cfg op) (op_sid op) = Some p -> op_target L op = Some (sidecar L p).
Proof. intros H. unfold op_target, target. rewrite H. reflexivity. Qed.

Lemma nodupb_sound l : nodupb l = true -> NoDup l.
Proof.
  induction l as [|x l IH]; cbn [nodupb]; intros H; [constructor|].
  apply andb_true_iff in H. destruct H as (H1 & H2). constructor; [|exact (IH H2)].
  apply in_list_false. destruct (in_list x l); [discriminate | reflexivity].
Qed.

(* what is read from the written sidecar after a [write_data] *)
Lemma write_data_load F p data F' : write_data L F p data = Ok F' -> NoDup (map fst data) ->
  load_sidecar F' (sidecar L p) = dupdate (load_sidecar F (sidecar L p)) data.
Proof.
  intros H Hnd. destruct (write_data_inv L F p data F' H) as [(E & ->) | (prev & E & ->)];
    unfold load_sidecar; rewrite fs_add_get_same, E.
  - symmetry. apply dupdate_nil_nodup. exact Hnd.
  - reflexivity.
Qed.

(* the overlay step: a call that succeeds with a write to dp overlays its data, any other call changes nothing
   of what is read from dp *)
Lemma wstep_load F op F1 o dp : wstep L R F op = (F1, o) -> nodupb (dkeys (op_data op)) = true ->
  load_sidecar F1 dp = if wrote op o && target_is L op dp
                       then dupdate (load_sidecar F dp) (op_data op)
                       else load_sidecar F dp.
Proof.
  intros H Hnd. destruct (wstep_cases F op F1 o H) as (Fm & Hc & Hw).
  assert (Hl : load_sidecar Fm dp = load_sidecar F dp).
  { apply added_load. destruct (Hc dp) as [K | (A & _ & C)]; [left; exact K | right; split; assumption]. }
  destruct Hw as [(-> & ->) | (-> & p & Hp & Hw)]; cbn [andb]; [exact Hl|].
  rewrite (target_is_of op p dp Hp). destruct (String.eqb (sidecar L p) dp) eqn:Eq.
  - apply String.eqb_eq in Eq. subst dp. rewrite <- Hl.
    apply write_data_load; [exact Hw | apply nodupb_sound; exact Hnd].
  - apply String.eqb_neq in Eq. rewrite <- Hl. unfold load_sidecar.
    rewrite (write_data_frame L Fm p (op_data op) F1 dp Hw); [reflexivity | congruence].
Qed.

(* the same without any guard, for a sidecar that the call did not succeed to write *)
Lemma wstep_load_same F op F1 o dp : wstep L R F op = (F1, o) ->
  (wrote op o = true -> op_target L op <> Some dp) -> load_sidecar F1 dp = load_sidecar F dp.
Proof.
  intros H Hn. destruct (wstep_cases F op F1 o H) as (Fm & Hc & Hw).
  assert (Hl : load_sidecar Fm dp = load_sidecar F dp).
  { apply added_load. destruct (Hc dp) as [K | (A & _ & C)]; [left; exact K | right; split; assumption]. }
  destruct Hw as [(-> & _) | (Hwr & p & Hp & Hw)]; [exact Hl|].
  rewrite <- Hl. unfold load_sidecar. rewrite (write_data_frame L Fm p (op_data op) F1 dp Hw); [reflexivity|].
  intros ->. apply (Hn Hwr). exact (op_target_of op p Hp).
Qed.

Lemma wstep_frame F op F1 o q : wstep L R F op = (F1, o) ->
  ~ In q (op_created L op o) -> (wrote op o = true -> op_target L op <> Some q) -> fs_get F1 q = fs_get F q.
Proof.
  intros H Hc Hn. destruct (wstep_cases F op F1 o H) as (Fm & Hm & Hw).
  assert (Hg : fs_get Fm q = fs_get F q) by (destruct (Hm q) as [K | (_ & B & _)]; [exact K | contradiction]).
  destruct Hw as [(-> & _) | (Hwr & p & Hp & Hw)]; [exact Hg|].
  rewrite <- Hg. apply (write_data_frame L Fm p (op_data op) F1 q Hw).
  intros ->. apply (Hn Hwr). exact (op_target_of op p Hp).
Qed.

(* a sidecar that cannot be loaded stays as it is, and no call succeeds to write it *)
Lemma wstep_blocked F op F1 o dp n : wstep L R F op = (F1, o) ->
  fs_get F dp = Some n -> node_blocked n = true ->
  fs_get F1 dp = Some n /\ wrote op o && target_is L op dp = false.
Proof.
  intros H Hg Hb. destruct (wstep_cases F op F1 o H) as (Fm & Hm & Hw).
  assert (Hgm : fs_get Fm dp = Some n).
  { destruct (Hm dp) as [K | (A & _)]; [rewrite K; exact Hg | congruence]. }
  destruct Hw as [(-> & ->) | (-> & p & Hp & Hw)]; cbn [andb]; [split; [exact Hgm | reflexivity]|].
  rewrite (target_is_of op p dp Hp). destruct (String.eqb (sidecar L p) dp) eqn:Eq.
  - exfalso. apply String.eqb_eq in Eq. subst dp.
    destruct (write_data_inv L Fm p (op_data op) F1 Hw) as [(E & _) | (prev & E & _)]; rewrite E in Hgm.
    + discriminate.
    + inversion Hgm. subst n. discriminate.
  - apply String.eqb_neq in Eq. split; [|reflexivity].
    rewrite (write_data_frame L Fm p (op_data op) F1 dp Hw); [exact Hgm | congruence].
Qed.

(* with visible created paths, a hidden path that is absent or a JSON file stays absent or a JSON file *)
Lemma wstep_unblocked F op F1 o dp : wstep L R F op = (F1, o) ->
  (forall q, In q (op_created L op o) -> no_hiddenb q = true) -> no_hiddenb dp = false ->
  sidecar_free F dp = true -> sidecar_free F1 dp = true.
Proof.
  intros H Hv Hd Hf. destruct (wstep_cases F op F1 o H) as (Fm & Hm & Hw).
  assert (Hgm : fs_get Fm dp = fs_get F dp).
  { destruct (Hm dp) as [K | (_ & B & _)]; [exact K|]. rewrite (Hv dp B) in Hd. discriminate. }
  destruct Hw as [(-> & _) | (_ & p & Hp & Hw)].
  - unfold sidecar_free in *. rewrite Hgm. exact Hf.
  - destruct (String.eqb (sidecar L p) dp) eqn:Eq.
    + apply String.eqb_eq in Eq. subst dp. unfold sidecar_free.
      destruct (write_data_inv L Fm p (op_data op) F1 Hw) as [(_ & ->) | (prev & _ & ->)];
        rewrite fs_add_get_same; reflexivity.
    + apply String.eqb_neq in Eq. unfold sidecar_free in *.
      rewrite (write_data_frame L Fm p (op_data op) F1 dp Hw) by congruence. rewrite Hgm. exact Hf.
Qed.

Lemma op_created_visible op o :
  (if op_is_create op then match entity_path L (op_cfg op) (op_sid op) with Some p => path_visibleb p | None => true end
   else true) = true ->
  forall q, In q (op_created L op o) -> no_hiddenb q = true.
Proof.
  intros H q Hq. destruct op as [cfg s data | cfg s data]; cbn [op_created op_is_create op_cfg op_sid] in *.
  - destruct o as [b|e]; [|destruct Hq]. destruct (entity_path L cfg s) as [p|]; [|destruct Hq].
    exact (created_visible p q H Hq).
  - destruct Hq.
Qed.

(** * Histories *)

(** the data read from any sidecar after a history is the overlay, in call order, of the data of the calls that
    succeeded with a write to it, over what was read before.  Whatever the tree and whatever dp: if dp holds
    something that cannot be loaded, nothing is read before, no write succeeds ([data_history_blocked]) and
    nothing is read after. *)
Theorem data_history : forall ops F dp, hist_nodupb ops = true ->
  load_sidecar (fst (run_hist L R F ops)) dp = fold_left dupdate (writes_to L R dp F ops) (load_sidecar F dp).
Proof.
  induction ops as [|op r IH]; intros F dp Hg; [reflexivity|].
  cbn [hist_nodupb forallb] in Hg. apply andb_true_iff in Hg. destruct Hg as (Hop & Hr).
  cbn [run_hist writes_to]. destruct (wstep L R F op) as [F1 o] eqn:E.
  specialize (IH F1 dp Hr). destruct (run_hist L R F1 r) as [F2 os]. cbn [fst] in *.
  rewrite fold_left_app, IH. f_equal.
  rewrite (wstep_load F op F1 o dp E Hop). destruct (wrote op o && target_is L op dp); reflexivity.
Qed.

(* if dp holds a corrupt / empty / unreadable file or a directory, it stays, and no write to it succeeds *)
Theorem data_history_blocked : forall ops F dp n, fs_get F dp = Some n -> node_blocked n = true ->
  fs_get (fst (run_hist L R F ops)) dp = Some n /\ writes_to L R dp F ops = [].
Proof.
  induction ops as [|op r IH]; intros F dp n Hg Hb; [split; [exact Hg | reflexivity]|].
  cbn [run_hist writes_to]. destruct (wstep L R F op) as [F1 o] eqn:E.
  destruct (wstep_blocked F op F1 o dp n E Hg Hb) as (Hg1 & Hw). rewrite Hw.
  destruct (IH F1 dp n Hg1 Hb) as (I1 & I2). destruct (run_hist L R F1 r) as [F2 os]. cbn [fst] in *.
  split; [exact I1 | exact I2].
Qed.

(* any path that no successful write addressed and no creation may have added is as it was *)
Theorem data_history_frame : forall ops F q,
  ~ In q (written_targets L R F ops) -> ~ In q (created_by L R F ops) ->
  fs_get (fst (run_hist L R F ops)) q = fs_get F q.
Proof.
  induction ops as [|op r IH]; intros F q Hw Hc; [reflexivity|].
  cbn [run_hist written_targets created_by] in *. destruct (wstep L R F op) as [F1 o] eqn:E.
  assert (I : fs_get (fst (run_hist L R F1 r)) q = fs_get F1 q).
  { apply IH; intros Hin; [apply Hw | apply Hc]; apply in_or_app; right; exact Hin. }
  destruct (run_hist L R F1 r) as [F2 os]. cbn [fst] in *. rewrite I.
  apply (wstep_frame F op F1 o q E).
  - intros Hin. apply Hc. apply in_or_app. left. exact Hin.
  - intros Hwr Ht. apply Hw. apply in_or_app. left. rewrite Hwr, Ht. left. reflexivity.
Qed.

(* ... and what is READ from a sidecar that no successful write addressed is as it was, even where a creation
   put a directory or an empty file at its place (no guard) *)
Theorem data_history_load_same : forall ops F dp, ~ In dp (written_targets L R F ops) ->
  load_sidecar (fst (run_hist L R F ops)) dp = load_sidecar F dp.
Proof.
  induction ops as [|op r IH]; intros F dp Hw; [reflexivity|].
  cbn [run_hist written_targets] in *. destruct (wstep L R F op) as [F1 o] eqn:E.
  assert (I : load_sidecar (fst (run_hist L R F1 r)) dp = load_sidecar F1 dp).
  { apply IH. intros Hin. apply Hw. apply in_or_app. right. exact Hin. }
  destruct (run_hist L R F1 r) as [F2 os]. cbn [fst] in *. rewrite I.
  apply (wstep_load_same F op F1 o dp E).
  intros Hwr Ht. apply Hw. apply in_or_app. left. rewrite Hwr, Ht. left. reflexivity.
Qed.

Theorem data_history_isolation ops F cfg' y attrs enc :
  (forall py, sid_path L y (default_cfg L cfg') = Ok (Some py) -> ~ In (sidecar L py) (written_targets L R F ops)) ->
  get_data_paths L (fst (run_hist L R F ops)) cfg' y attrs enc = get_data_paths L F cfg' y attrs enc.
Proof.
  intros H. unfold get_data_paths, bind.
  destruct (sid_path L y (default_cfg L cfg')) as [[py|]|e] eqn:Ey; try reflexivity.
  rewrite (data_history_load_same ops F (sidecar L py) (H py eq_refl)). reflexivity.
Qed.

(* the record that get_data returns after the history *)
Theorem data_history_read ops F cfg x p enc : hist_nodupb ops = true ->
  sid_path L x (default_cfg L cfg) = Ok (Some p) ->
  get_data_paths L (fst (run_hist L R F ops)) cfg x [] enc =
  Ok (let data := map (fun kv => (fst kv, Some (snd kv)))
                      (fold_left dupdate (writes_to L R (sidecar L p) F ops) (load_sidecar F (sidecar L p))) in
      match encode enc x with
      | Some e => if truthy e then dset data "sid" (Some e) else data
      | None => data
      end).
Proof.
  intros Hg Hp. unfold get_data_paths. rewrite Hp. cbn [bind project_record].
  rewrite (data_history ops F (sidecar L p) Hg). reflexivity.
Qed.

(* the writes that count are among the written targets *)
Lemma writes_to_not_written : forall ops F dp, ~ In dp (written_targets L R F ops) -> writes_to L R dp F ops = [].
Proof.
  induction ops as [|op r IH]; intros F dp Hw; [reflexivity|].
  cbn [writes_to written_targets] in *. destruct (wstep L R F op) as [F1 o].
  rewrite (IH F1 dp) by (intros Hin; apply Hw; apply in_or_app; right; exact Hin).
  rewrite app_nil_r. destruct (wrote op o); cbn [andb]; [|reflexivity].
  unfold target_is. destruct (op_target L op) as [q|]; [|reflexivity].
  destruct (String.eqb q dp) eqn:Eq; [|reflexivity]. apply String.eqb_eq in Eq. subst q.
  exfalso. apply Hw. left. reflexivity.
Qed.

(* a written target is the sidecar of the entity of one of the calls *)
Lemma written_targets_incl : forall ops F q, In q (written_targets L R F ops) ->
  exists op p, In op ops /\ entity_path L (op_cfg op) (op_sid op) = Some p /\ q = sidecar L p.
Proof.
  induction ops as [|op r IH]; intros F q H; [destruct H|].
  cbn [written_targets] in H. destruct (wstep L R F op) as [F1 o]. apply in_app_or in H. destruct H as [H | H].
  - destruct (wrote op o); [|destruct H]. unfold op_target, target in H.
    destruct (entity_path L (op_cfg op) (op_sid op)) as [p|] eqn:Ep; cbn [option_map] in H; [|destruct H].
    destruct H as [<- | []]. exists op, p. split; [left; reflexivity|]. split; [exact Ep | reflexivity].
  - destruct (IH F1 q H) as (op' & p & Hin & Hp & Hq). exists op', p. split; [right; exact Hin|]. split; assumption.
Qed.

(* "writing to one entity never changes the data of an entity whose path differs from its own by more than the file
   extension": if no call of the history addresses an entity in the same directory with the same dotted stem as the
   path of y, the data of y is as it was *)
Theorem data_history_isolation_paths ops F cfg' y attrs enc :
  (forall py op p, sid_path L y (default_cfg L cfg') = Ok (Some py) -> In op ops ->
     entity_path L (op_cfg op) (op_sid op) = Some p ->
     parent_path p <> parent_path py \/ sidecar_stem p <> sidecar_stem py) ->
  get_data_paths L (fst (run_hist L R F ops)) cfg' y attrs enc = get_data_paths L F cfg' y attrs enc.
Proof.
  intros H. apply data_history_isolation. intros py Hpy Hin.
  destruct (written_targets_incl ops F _ Hin) as (op & p & Hop & Hp & Hq).
  unfold sidecar in Hq. destruct (sidecar_injective _ _ _ Hq) as (E1 & E2).
  destruct (H py op p Hpy Hop Hp) as [N | N]; apply N; symmetry; assumption.
Qed.

(** * Where the visibility of the created paths matters: a sidecar is never blocked by a creation *)

Theorem data_history_unblocked : forall ops F dp, hist_pathsb L ops = true -> no_hiddenb dp = false ->
  sidecar_free F dp = true -> sidecar_free (fst (run_hist L R F ops)) dp = true.
Proof.
  induction ops as [|op r IH]; intros F dp Hg Hd Hf; [exact Hf|].
  cbn [hist_pathsb forallb] in Hg. apply andb_true_iff in Hg. destruct Hg as (Hop & Hr).
  cbn [run_hist]. destruct (wstep L R F op) as [F1 o] eqn:E.
  pose proof (wstep_unblocked F op F1 o dp E (op_created_visible op o Hop) Hd Hf) as Hf1.
  specialize (IH F1 dp Hr Hd Hf1). destruct (run_hist L R F1 r) as [F2 os]. exact IH.
Qed.

(* ... so that updating an entity that exists succeeds *)
Theorem update_free_succeeds F cfg s data x p : Sid L s = Ok x -> sid_path L x (default_cfg L cfg) = Ok (Some p) ->
  fs_exists F p = true -> sidecar_free F (sidecar L p) = true ->
  exists F', w_update L F cfg s data = Ok (F', true).
Proof.
  intros Hs Hp He Hf. unfold w_update. rewrite Hs. cbn [bind]. rewrite Hp. cbn [bind]. rewrite He. cbn [negb].
  unfold write_data, sidecar_free in *. destruct (fs_get F (sidecar L p)) as [[|[|d|]|]|]; try discriminate;
    cbn [bind]; eexists; reflexivity.
Qed.

Corollary data_history_update_succeeds ops F cfg s data x p : hist_pathsb L ops = true ->
  Sid L s = Ok x -> sid_path L x (default_cfg L cfg) = Ok (Some p) ->
  sidecar_free F (sidecar L p) = true -> fs_exists (fst (run_hist L R F ops)) p = true ->
  exists F', w_update L (fst (run_hist L R F ops)) cfg s data = Ok (F', true).
Proof.
  intros Hg Hs Hp Hf He. apply (update_free_succeeds _ cfg s data x p Hs Hp He).
  apply data_history_unblocked; [exact Hg | apply sidecar_hidden | exact Hf].
Qed.

(* the statements under the full guard *)
Corollary data_history_visible ops F dp : hist_visibleb L ops = true ->
  load_sidecar (fst (run_hist L R F ops)) dp = fold_left dupdate (writes_to L R dp F ops) (load_sidecar F dp).
Proof. unfold hist_visibleb. intros H. apply andb_true_iff in H. apply data_history. exact (proj1 H). Qed.

End Hist.
