(** C10 — search results obey the algebra of the search syntax.  Property theorems only.
    Proved: a result set is determined by the set of glob forms of the unfolded searches (so equal unfoldings give equal
    results on ANY list), the "," rule at the level of the unfolding (cartesian product), no duplicates, results are
    entries of the data set; and, from the C07 denotation (Search/AlgebraProofs.v), for the list-backed finder, every
    configuration passing [unfold_conf_okb] and searches in the guarded fragment (plain strings, url-safe filters, no ">"):
    the characterisation of a search result and the FIVE rewrite rules as set equalities.  The guards are explicit and
    decidable ([shortcut_okb]: a typed non-search Sid is searched as itself, so narrowing must keep its string; [lit_ok] /
    [filt_okb]: the list finder does not re-type entries; [narrow_stableb]); each rule is instantiated on the live
    configuration below.  On FindInPaths / FindInAll the rules are checked as result-set equalities on the implementation
    over real trees (tools/props/c10.py) and follow for star searches from C11_tree_search_spec. *)
From Coq Require Import List String Ascii Bool Arith Permutation Sorted.
From Spil Require Import Base.Str Base.Dict Base.Outcome Regex.Re Conf.Conf Conf.WF Sid.Sid
  Search.Unfold Search.FindList Search.GlobProofs Search.FindListProofs Search.UnfoldProofs
  Resolva.Template Resolva.Resolver Sid.TypingSpec Search.UnfoldSpec Search.AlgebraDefs Search.AlgebraProofs.
From SpilGen Require Hamlet.
Import ListNotations.
Local Open Scope string_scope.

(* the result depends only on the SET of search forms: two unfoldings with the same forms find the same entries *)
Theorem C10_forms_determine_results : forall qs1 qs2 items l1 l2,
  star_search qs1 items = Ok l1 -> star_search qs2 items = Ok l2 ->
  (forall e, (exists q, In q qs1 /\ glob_rel (s_string q) e) <-> (exists q, In q qs2 /\ glob_rel (s_string q) e)) ->
  forall e, In e l1 <-> In e l2.
Proof.
  intros qs1 qs2 items l1 l2 H1 H2 Heq e.
  rewrite (star_search_glob_spec qs1 items l1 H1 e), (star_search_glob_spec qs2 items l2 H2 e).
  split; intros [Hi Hq]; (split; [exact Hi | apply Heq; exact Hq]).
Qed.
Print Assumptions C10_forms_determine_results.

(* union: the results of the concatenation of two search lists are the union of the results *)
Theorem C10_union : forall qs1 qs2 items l l1 l2,
  star_search (qs1 ++ qs2) items = Ok l -> star_search qs1 items = Ok l1 -> star_search qs2 items = Ok l2 ->
  forall e, In e l <-> In e l1 \/ In e l2.
Proof.
  intros qs1 qs2 items l l1 l2 H H1 H2 e.
  rewrite (star_search_glob_spec _ items l H e), (star_search_glob_spec qs1 items l1 H1 e), (star_search_glob_spec qs2 items l2 H2 e).
  split.
  - intros [Hi (q & Hq & Hg)]. apply in_app_or in Hq. destruct Hq as [Hq|Hq]; [left|right]; (split; [exact Hi | exists q; split; assumption]).
  - intros [[Hi (q & Hq & Hg)]|[Hi (q & Hq & Hg)]]; (split; [exact Hi | exists q; split; [apply in_or_app|exact Hg]]); [left|right]; exact Hq.
Qed.
Print Assumptions C10_union.

Theorem C10_comma_product : forall s, contains start_marker s = false ->
  forall r, In r (or_on_path s) <->
    exists choice, Forall2 (fun part alt => In alt (if contains ors part then map strip (split_c "," part) else [part]))
                           (split_c "/" s) choice /\ r = join "/" choice.
Proof. exact or_on_path_product'. Qed.
Print Assumptions C10_comma_product.

Theorem C10_nodup : forall qs items l, star_search qs items = Ok l -> NoDup l.
Proof. intros qs items l H. exact (proj1 (star_search_spec qs items l H)). Qed.
Print Assumptions C10_nodup.

Example C10_instance :
  find_list Hamlet.the_loaded ["hamlet/a/char/x/model/v001/w/ma"; "hamlet/a/char/x/model/v001/w/mb"; "hamlet/a/char/x/model/v001/w/hip"] "hamlet/a/char/x/model/v001/w/maya"
  = Ok ["hamlet/a/char/x/model/v001/w/ma"; "hamlet/a/char/x/model/v001/w/mb"].
Proof. vm_compute. reflexivity. Qed.
Print Assumptions C10_instance.

(** ** The algebra as theorems (list-backed finder) *)

(* what a list search returns: the entries glob-matched by a typed search the expression denotes (C07 denotation); no duplicates *)
Theorem C10_find_list_denotes :
  forall (c : Conf) (Ld : Loaded),
  load c = Some Ld ->
  wf_loadedb Ld = true ->
  unfold_conf_okb Ld = true ->
  forall (items : list string) (s : string) (l : list string),
  guarded Ld s -> find_list Ld items s = Ok l -> NoDup l /\ (forall e : string, In e l <-> In e items /\ matched Ld s e).
Proof. exact find_list_denotes. Qed.
Print Assumptions C10_find_list_denotes.

(* rule 1: a "," list = the union of its alternatives *)
Theorem C10_comma_rule :
  forall (c : Conf) (Ld : Loaded),
  load c = Some Ld ->
  wf_loadedb Ld = true ->
  unfold_conf_okb Ld = true ->
  forall (items pre : list string) (a b : string) (post l la lb : list string),
  Forall noslash pre ->
  Forall noslash post ->
  alt_okb a = true ->
  alt_okb b = true ->
  (post = [] -> a <> "" /\ b <> "") ->
  search_ok (mk pre (a ++ "," ++ b) post) = true ->
  shortcut_okb Ld (mk pre (a ++ "," ++ b) post) = true ->
  nosort Ld (mk pre (a ++ "," ++ b) post) ->
  search_ok (mk pre a post) = true ->
  shortcut_okb Ld (mk pre a post) = true ->
  search_ok (mk pre b post) = true ->
  shortcut_okb Ld (mk pre b post) = true ->
  find_list Ld items (mk pre (a ++ "," ++ b) post) = Ok l ->
  find_list Ld items (mk pre a post) = Ok la ->
  find_list Ld items (mk pre b post) = Ok lb -> NoDup l /\ (forall e : string, In e l <-> In e la \/ In e lb).
Proof. exact comma_rule2. Qed.
Print Assumptions C10_comma_rule.

(* ... for any number of alternatives, in any segment *)
Theorem C10_comma_rule_n :
  forall (c : Conf) (Ld : Loaded),
  load c = Some Ld ->
  wf_loadedb Ld = true ->
  unfold_conf_okb Ld = true ->
  forall (items pre alts post l : list string) (ls : list (list string)),
  alts <> [] ->
  Forall noslash pre ->
  Forall noslash post ->
  Forall (fun a : string => alt_okb a = true) alts ->
  (post = [] -> Forall (fun a : string => a <> "") alts) ->
  search_ok (mk pre (join "," alts) post) = true ->
  shortcut_okb Ld (mk pre (join "," alts) post) = true ->
  nosort Ld (mk pre (join "," alts) post) ->
  (forall a : string, In a alts -> search_ok (mk pre a post) = true /\ shortcut_okb Ld (mk pre a post) = true) ->
  find_list Ld items (mk pre (join "," alts) post) = Ok l ->
  Forall2 (fun (a : string) (l' : list string) => find_list Ld items (mk pre a post) = Ok l') alts ls ->
  NoDup l /\ (forall e : string, In e l <-> (exists l' : list string, In l' ls /\ In e l')).
Proof. exact comma_rule. Qed.
Print Assumptions C10_comma_rule_n.

(* rule 2: an alias = the union of its member extensions *)
Theorem C10_alias_rule :
  forall (c : Conf) (Ld : Loaded),
  load c = Some Ld ->
  wf_loadedb Ld = true ->
  unfold_conf_okb Ld = true ->
  forall (items pre : list string) (a : string) (ms l : list string) (ls : list (list string)),
  Forall noslash pre ->
  noslash a ->
  dget (c_extension_alias (l_conf Ld)) a = Some ms ->
  a <> "" ->
  mem_c "," a = false ->
  Forall (fun m : string => dmem (c_extension_alias (l_conf Ld)) m = false) ms ->
  search_ok (mk pre a []) = true ->
  shortcut_okb Ld (mk pre a []) = true ->
  nosort Ld (mk pre a []) ->
  (forall m : string, In m ms -> search_ok (mk pre m []) = true /\ shortcut_okb Ld (mk pre m []) = true) ->
  find_list Ld items (mk pre a []) = Ok l ->
  Forall2 (fun (m : string) (l' : list string) => find_list Ld items (mk pre m []) = Ok l') ms ls ->
  NoDup l /\ (forall e : string, In e l <-> (exists l' : list string, In l' ls /\ In e l')).
Proof. exact alias_rule. Qed.
Print Assumptions C10_alias_rule.

(* rule 3: "**" = the union over the numbers n of "/*" levels, restricted to leaf types *)
Theorem C10_dstar_rule :
  forall (c : Conf) (Ld : Loaded),
  load c = Some Ld ->
  wf_loadedb Ld = true ->
  unfold_conf_okb Ld = true ->
  forall items pre post l : list string,
  pre <> [] ->
  Forall noslash pre ->
  Forall noslash post ->
  (post = [] -> dmem (c_extension_alias (l_conf Ld)) "**" = false) ->
  (post = [] -> dmem (c_extension_alias (l_conf Ld)) "*" = false) ->
  (post = [] -> lastpre_ok Ld pre) ->
  search_ok (mk pre "**" post) = true ->
  shortcut Ld (mk pre "**" post) = false ->
  nosort Ld (mk pre "**" post) ->
  find_list Ld items (mk pre "**" post) = Ok l ->
  NoDup l /\ (forall e : string, In e l <-> In e items /\ (exists n : nat, matched_by (levels_on Ld pre n post) e)).
Proof. exact dstar_rule. Qed.
Print Assumptions C10_dstar_rule.

(* rule 4: appending a filter k=v on a key the searched types have open = the results whose field k is v *)
Theorem C10_filter_rule :
  forall (c : Conf) (Ld : Loaded),
  load c = Some Ld ->
  wf_loadedb Ld = true ->
  unfold_conf_okb Ld = true ->
  forall (items : list string) (body k v : string) (l lf : list string),
  search_ok body = true ->
  contains "**" body = false ->
  narrow_stableb Ld body = true ->
  shortcut_okb Ld body = true ->
  nosort Ld body ->
  atomb k = true ->
  atomb v = true ->
  literalb v = true ->
  startswith "~" v = false ->
  value_alts Ld k v = [v] ->
  filt_okb Ld body k v = true ->
  ~ In "" (bodies Ld body) ->
  shortcut Ld (body ++ "?" ++ k ++ "=" ++ v) = false ->
  nosort_by (denotes_q Ld body [(k, v)]) ->
  find_list Ld items body = Ok l ->
  find_list Ld items (body ++ "?" ++ k ++ "=" ++ v) = Ok lf ->
  NoDup lf /\ (forall e : string, In e lf <-> In e l /\ field_in Ld body k e v).
Proof. exact filter_rule. Qed.
Print Assumptions C10_filter_rule.

(* rule 5: replacing a "*" by a literal = the subset having that value *)
Theorem C10_literal_rule :
  forall (c : Conf) (Ld : Loaded),
  load c = Some Ld ->
  wf_loadedb Ld = true ->
  unfold_conf_okb Ld = true ->
  forall (items pre : list string) (v : string) (post l lv : list string),
  Forall noslash pre ->
  Forall noslash post ->
  noslash v ->
  literalb v = true ->
  mem_c "," v = false ->
  (post = [] -> v <> "" /\ dmem (c_extension_alias (l_conf Ld)) v = false) ->
  (post = [] -> dmem (c_extension_alias (l_conf Ld)) "*" = false) ->
  lit_ok Ld pre post v ->
  search_ok (mk pre "*" post) = true ->
  contains "**" (mk pre "*" post) = false ->
  narrow_stableb Ld (mk pre "*" post) = true ->
  shortcut_okb Ld (mk pre "*" post) = true ->
  nosort Ld (mk pre "*" post) ->
  search_ok (mk pre v post) = true ->
  contains "**" (mk pre v post) = false ->
  narrow_stableb Ld (mk pre v post) = true ->
  shortcut_okb Ld (mk pre v post) = true ->
  nosort Ld (mk pre v post) ->
  find_list Ld items (mk pre "*" post) = Ok l ->
  find_list Ld items (mk pre v post) = Ok lv ->
  NoDup lv /\ (forall e : string, In e lv <-> In e l /\ nth_error (split_c "/" e) (Datatypes.length pre) = Some v).
Proof. exact literal_rule. Qed.
Print Assumptions C10_literal_rule.

(* the characterisation with a trailing url-safe query *)
Theorem C10_find_list_query_denotes :
  forall (c : Conf) (Ld : Loaded),
  load c = Some Ld ->
  wf_loadedb Ld = true ->
  unfold_conf_okb Ld = true ->
  forall (items : list string) (body : string) (qd : list (string * string)) (l : list string),
  search_ok body = true ->
  query_okb qd = true ->
  ~ In "" (bodies Ld body) ->
  shortcut Ld (body ++ "?" ++ query_str qd) = false ->
  nosort_by (denotes_q Ld body qd) ->
  find_list Ld items (body ++ "?" ++ query_str qd) = Ok l ->
  NoDup l /\ (forall e : string, In e l <-> In e items /\ matched_by (denotes_q Ld body qd) e).
Proof. exact find_list_query_denotes. Qed.
Print Assumptions C10_find_list_query_denotes.

(** ** Every rule instantiated on the configuration of this run: all guards discharged by computation *)

Definition L := Hamlet.the_loaded.

Lemma conf_unfold_ok : unfold_conf_okb L = true.
Proof. vm_compute. reflexivity. Qed.

Definition items : list string :=
  ["hamlet/a/char/ophelia"; "hamlet/a/char/claudius"; "hamlet/a/prop/skull"; "hamlet/a/char";
   "hamlet/a/char/ophelia/model/v001/w/ma"; "hamlet/a/char/ophelia/model/v001/w/mb";
   "hamlet/a/char/ophelia/model/v001/w/mp4"; "hamlet/a/char/ophelia/model";
   "hamlet/s/sq010/sh0010"; "hamlet/x/char/ophelia"].

(* computation, only on decidable goals (never normalise a Prop that mentions the configuration) *)
Ltac calc :=
  match goal with
  | |- @eq bool _ _ => vm_compute; reflexivity
  | |- noslash _ => vm_compute; reflexivity
  | |- @eq (outcome _) _ _ => vm_compute; reflexivity
  | |- @eq (list string) _ _ => vm_compute; reflexivity
  | |- @eq (option _) _ _ => vm_compute; reflexivity
  end.
Ltac nosort_calc := apply (nosortb_nosort Hamlet.the_conf L Hamlet.the_loaded_eq Hamlet.conf_wf conf_unfold_ok); calc.
Ltac f2 := repeat (first [apply Forall2_nil | apply Forall2_cons; [calc|]]).
Ltac segs := match goal with |- Forall _ _ => repeat constructor end.

(** Rule 0: the characterisation of [find_list] *)
Example C10_denotes_hamlet :
  NoDup ["hamlet/a/char/ophelia"; "hamlet/a/char/claudius"] /\
  forall e, In e ["hamlet/a/char/ophelia"; "hamlet/a/char/claudius"] <-> In e items /\ matched L "hamlet/a/char/*" e.
Proof.
  apply (find_list_denotes Hamlet.the_conf L Hamlet.the_loaded_eq Hamlet.conf_wf conf_unfold_ok items "hamlet/a/char/*").
  - split; [calc|]. split; [calc | nosort_calc].
  - calc.
Qed.

(** Rule 1: "hamlet/a/char/ophelia,claudius" = "hamlet/a/char/ophelia" U "hamlet/a/char/claudius" *)
Example C10_comma_hamlet :
  NoDup ["hamlet/a/char/claudius"; "hamlet/a/char/ophelia"] /\
  forall e, In e ["hamlet/a/char/claudius"; "hamlet/a/char/ophelia"] <->
            In e ["hamlet/a/char/ophelia"] \/ In e ["hamlet/a/char/claudius"].
Proof.
  apply (comma_rule2 Hamlet.the_conf L Hamlet.the_loaded_eq Hamlet.conf_wf conf_unfold_ok items
           ["hamlet"; "a"; "char"] "ophelia" "claudius" []); try calc; try segs.
  - intros _. split; discriminate.
  - nosort_calc.
Qed.

(* a "," list in a middle segment, three alternatives *)
Example C10_comma_middle_hamlet :
  NoDup ["hamlet/a/char/ophelia"; "hamlet/a/char/claudius"; "hamlet/a/prop/skull"] /\
  forall e, In e ["hamlet/a/char/ophelia"; "hamlet/a/char/claudius"; "hamlet/a/prop/skull"] <->
    exists l', In l' [["hamlet/a/char/ophelia"; "hamlet/a/char/claudius"]; ["hamlet/a/prop/skull"]; []] /\ In e l'.
Proof.
  apply (comma_rule Hamlet.the_conf L Hamlet.the_loaded_eq Hamlet.conf_wf conf_unfold_ok items
           ["hamlet"; "a"] ["char"; "prop"; "set"] ["*"]); try calc; try segs; try discriminate.
  - nosort_calc.
  - intros a [<-|[<-|[<-|[]]]]; split; calc.
  - f2.
Qed.

(** Rule 2: the alias "maya" = "ma" U "mb" *)
Example C10_alias_hamlet :
  NoDup ["hamlet/a/char/ophelia/model/v001/w/ma"; "hamlet/a/char/ophelia/model/v001/w/mb"] /\
  forall e, In e ["hamlet/a/char/ophelia/model/v001/w/ma"; "hamlet/a/char/ophelia/model/v001/w/mb"] <->
    exists l', In l' [["hamlet/a/char/ophelia/model/v001/w/ma"]; ["hamlet/a/char/ophelia/model/v001/w/mb"]] /\ In e l'.
Proof.
  apply (alias_rule Hamlet.the_conf L Hamlet.the_loaded_eq Hamlet.conf_wf conf_unfold_ok items
           ["hamlet"; "a"; "char"; "ophelia"; "model"; "v001"; "w"] "maya" ["ma"; "mb"]); try calc; try segs; try discriminate.
  - nosort_calc.
  - intros m [<-|[<-|[]]]; split; calc.
  - f2.
Qed.

(** Rule 3: "hamlet/a/char/**" *)
Example C10_dstar_hamlet :
  NoDup ["hamlet/a/char/ophelia/model/v001/w/ma"; "hamlet/a/char/ophelia/model/v001/w/mb";
         "hamlet/a/char/ophelia/model/v001/w/mp4"] /\
  forall e, In e ["hamlet/a/char/ophelia/model/v001/w/ma"; "hamlet/a/char/ophelia/model/v001/w/mb";
                  "hamlet/a/char/ophelia/model/v001/w/mp4"] <->
    In e items /\ exists n, matched_by (levels_on L ["hamlet"; "a"; "char"] n []) e.
Proof.
  apply (dstar_rule Hamlet.the_conf L Hamlet.the_loaded_eq Hamlet.conf_wf conf_unfold_ok items ["hamlet"; "a"; "char"] []);
    try calc; try segs; try discriminate.
  - intros _. calc.
  - intros _. calc.
  - intros _ x. vm_compute. tauto.
  - nosort_calc.
Qed.

(** Rule 4: "hamlet/a/*/*?assettype=char" = the results of "hamlet/a/*/*" whose assettype is "char" *)
Example C10_filter_hamlet :
  NoDup ["hamlet/a/char/ophelia"; "hamlet/a/char/claudius"] /\
  forall e, In e ["hamlet/a/char/ophelia"; "hamlet/a/char/claudius"] <->
    In e ["hamlet/a/char/ophelia"; "hamlet/a/char/claudius"; "hamlet/a/prop/skull"] /\
    field_in L "hamlet/a/*/*" "assettype" e "char".
Proof.
  apply (filter_rule Hamlet.the_conf L Hamlet.the_loaded_eq Hamlet.conf_wf conf_unfold_ok items "hamlet/a/*/*" "assettype" "char");
    try calc.
  - nosort_calc.
  - vm_compute. intros [H|[]]. discriminate H.
  - apply (nosortb_query Hamlet.the_conf L Hamlet.the_loaded_eq Hamlet.conf_wf conf_unfold_ok "hamlet/a/*/*" [("assettype", "char")]); try calc.
    vm_compute. intros [H|[]]. discriminate H.
Qed.

(** Rule 5: "hamlet/a/char/ophelia" = the results of "hamlet/a/char/*" whose 4th segment is "ophelia" *)
Example C10_literal_hamlet :
  NoDup ["hamlet/a/char/ophelia"] /\
  forall e, In e ["hamlet/a/char/ophelia"] <->
    In e ["hamlet/a/char/ophelia"; "hamlet/a/char/claudius"] /\ nth_error (split_c "/" e) 3 = Some "ophelia".
Proof.
  apply (literal_rule Hamlet.the_conf L Hamlet.the_loaded_eq Hamlet.conf_wf conf_unfold_ok items ["hamlet"; "a"; "char"] "ophelia" []);
    try calc; try segs.
  - intros _. split; [discriminate | calc].
  - intros _. calc.
  - apply lit_okb_ok. calc.
  - nosort_calc.
  - nosort_calc.
Qed.

(* a literal in a middle segment: the shortcut is not taken on either side *)
Example C10_literal_middle_hamlet :
  NoDup ["hamlet/a/char/ophelia"; "hamlet/a/char/claudius"] /\
  forall e, In e ["hamlet/a/char/ophelia"; "hamlet/a/char/claudius"] <->
    In e ["hamlet/a/char/ophelia"; "hamlet/a/char/claudius"; "hamlet/a/prop/skull"] /\
    nth_error (split_c "/" e) 2 = Some "char".
Proof.
  apply (literal_rule Hamlet.the_conf L Hamlet.the_loaded_eq Hamlet.conf_wf conf_unfold_ok items ["hamlet"; "a"] "char" ["*"]);
    try calc; try segs; try discriminate.
  - apply lit_okb_ok. calc.
  - nosort_calc.
  - nosort_calc.
Qed.

Print Assumptions C10_comma_hamlet.
Print Assumptions C10_alias_hamlet.
Print Assumptions C10_dstar_hamlet.
Print Assumptions C10_filter_hamlet.
Print Assumptions C10_literal_hamlet.

Print Assumptions C10_denotes_hamlet.
Print Assumptions C10_comma_middle_hamlet.
Print Assumptions C10_literal_middle_hamlet.
