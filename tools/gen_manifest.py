#!/usr/bin/env python3
"""Writes MANIFEST.json from the table below (kept in one place so it stays valid)."""
import json, os
V = os.path.dirname(os.path.dirname(os.path.abspath(__file__)))

TB = ('Trusted: Coq 8.16.1 kernel + vm_compute; the hand-written Gallina model under coq/theories (validated against /repo by the correspondence run of this check, not verified); '
      'tools/extract_conf.py; extraction (ExtrOcamlBasic, ExtrOcamlString) + ocaml/driver.ml; the harness generators and oracles; CPython str/dict/re/urllib/pathlib semantics as modelled (DESIGN.md 8). ')

CLAIMED = {
 'C01': dict(
    text='Theorems for every loadable, well-formed configuration and every string (unbounded length): the model of the code path (whole-template regex with python priority order and "$", canonical check, fallback over all templates; sid_factory) equals the segment-wise specification (first template whose every placeholder pattern accepts its whole segment; forced type for a uri; untyped otherwise; never fails). Instance obligations re-proved on every run from the regenerated configuration (it parses, loads to exactly the regexes/formats/keys the implementation loaded, is well-formed). Differential run of the extracted model against the implementation on vocabulary-driven, mutated, forced-type and junk strings, plus an independent python oracle of the property.',
    note=TB + 'Strings containing "?" are C04\'s subject. Code points > 255 outside the model.',
    technique='Coq proof (regex matcher soundness/completeness/uniqueness, induction over templates) + generated-instance obligations + correspondence',
    design='6 C01'),
 'C02': dict(
    text='Theorems (all configurations, all naturally typed Sids): the string is the canonical rendering of the fields in template order; Sid(uri) and copy() give back the Sid; Sid(fields=d\') for every permutation d\' of the fields gives back the Sid - in full (no guard on the string) for every configuration passing the decidable check nl_safe, with the exact condition for any well-formed configuration and a refutation of the unguarded statement without nl_safe; typed Sids are equal iff type and fields are equal; as_query/to_dict round trip on url-safe fields and the query rebuild (guarded). eval(repr()) is covered by correspondence only. Differential run + oracle over the per-key value products of every type incl. search Sids and colliding key sets.',
    note=TB + 'eval(repr(sid)) is modelled as Sid(uri) for quote-free strings (modelled, not verified). nl_safe is proved for the live configuration (and every family member) on every run.',
    technique='Coq proof + generated-instance obligations + correspondence',
    design='6 C02'),
 'C03': dict(
    text='Theorems: get_as(k_i) is typed with exactly the first i fields and the i-segment prefix string; parent = get_as(second-to-last key) / itself for one field; parent / last value gives back the Sid; len / keytype / basetype coherence; navigation on untyped Sids returns the empty Sid. The forced-type counterexample to "parent / value" is proved as a _refuted example and excluded by the naturally_typed hypothesis. Differential run over every key of generated Sids of every type + oracle.',
    note=TB + 'get_as / div are full (no guard on the string) for configurations passing the decidable check nl_safe (proved for the live configuration on every run); guarded forms for any well-formed configuration; the unguarded statement is refuted on a configuration outside the conventions.',
    technique='Coq proof (prefix closure + same-key-set-same-sequence wf clauses) + correspondence',
    design='6 C03'),
 'C04': dict(
    text='Theorems: apply_query never raises SpilException; its result is either untouched with the query kept in the string, or the overlay typed by the key set with a canonical clean string; get_with(**kw) returns the empty Sid or a typed canonical Sid whose fields are exactly the requested overlay (None removes, also when absent). Differential run over typed Sids x 1-3 pair overlays (existing / deeper / foreign / optional / invalid / search / odd / None) and an independent decision-table oracle.',
    note=TB + 'Percent escapes >= %80 are outside the modelled urllib fragment (Unmodelled).',
    technique='Coq proof + correspondence + decision-table oracle',
    design='6 C04'),
 'C07': dict(
    text='Theorems (all configurations, all search strings): every unfolded result is typed with no unapplied query, no duplicates, sorted, the only error raised is SpilException, the "," alternatives of the path part are distributed as a cartesian product. Refinement theorems (all configurations passing the decidable guards, all plain search strings, all url-safe queries): the model pipeline (extensions, or_op, expand, type narrowing) returns exactly the declarative denotation of Search/UnfoldSpec.v - bodies = product of "," alternatives with aliases replaced by members; per body every template accepting it, or for "/**" every number of "/*" levels completing it to a leaf type of the root\'s basetype; each url-safe query choice applied through the C04 table; basetype narrowing - and raises SpilException exactly when a body has several "/**" or a "/**" on a root without leaf key. An executable specification written from the property text, independent of model and code, is also compared with the implementation on every generated search (it covers the queries outside the url-safe fragment); the model pipeline is compared with the implementation call by call.',
    note=TB + 'PARTIAL only outside the guards: queries with percent escapes / ";" / "+" / blank values, bodies containing "?" ":" newline or the internal start marker, and configurations with typed narrowing are covered by the python denotation oracle and correspondence, not by the refinement theorems.',
    technique='Coq proof (refinement of the unfolding pipeline to a declarative denotation) + executable denotation oracle + correspondence',
    design='6 C07'),
 'C08': dict(
    text='Theorems: glob2re with python re.match equals the glob relation ("*" = any run without "/", other characters literal; None iff a "[...]" class is formed), matching is segment-wise with equal segment counts; FindInList star search returns, each once, exactly the entries matching at least one search form; results are entries of the list. Differential run + oracle (independent glob matcher over the implementation\'s unfolded forms) over generated universes (hierarchies, leaf-only, near-miss / untyped / duplicate entries), incl. Sid.match.',
    note=TB + 'A "[...]" class in a search is outside the model (Unmodelled) — the recorded D10 behaviour.',
    technique='Coq proof (matcher soundness/completeness -> glob relation) + correspondence',
    design='6 C08'),
 'C09': dict(
    text='Theorems: segment-wise comparison is a strict total order; sort_paths sorts; group_firsts over the descending order returns exactly one entry per distinct prefix before the ">" position, the greatest of its group; composed for sorted_search; over a data set materialised as a tree the tree finder, the list finder and FindInAll (routed to the path finder) return the identical list for a ">" search (guards computed, instantiated on the live configuration). Differential run + oracle over universes with names containing "-", ".", "+", "_" and prefix-related names, ">" at every position, optional second ">".',
    note=TB + 'FindInAll across several finders, find_one and get_last are tied by the file-system stream of this check (real trees: FindInPaths, FindInAll find / find_one, FindInList, Sid.get_last) and by the C18 theorems.',
    technique='Coq proof (order + sort + groupby) + correspondence',
    design='6 C09'),
 'C10': dict(
    text='Theorems: the result set is determined by the set of glob forms of the unfolded searches on any data set, results of concatenated search lists are unions, comma alternatives unfold to the cartesian product, no duplicates; and, from the C07 denotation, for the list-backed finder and every configuration passing unfold_conf_okb: a search returns exactly the entries glob-matched by a typed search it denotes, and the five rewrite rules (comma list = union of alternatives, alias = union of members, "**" = union over n levels restricted to leaf types, filter k=v = the results whose field k is v, literal = the subset with that value) hold as set equalities under explicit decidable guards, each instantiated on the live configuration on every run. The five rules are also checked as result-set equalities on the implementation (pairs of searches over generated universes) on FindInList (both constructor modes), FindInPaths and FindInAll over real trees, and by correspondence.',
    note=TB + 'Guards of the rule theorems: plain search strings, url-safe filter values, no ">" (sorted search), narrowing keeps the string of a typed non-search Sid (shortcut_okb), the list finder does not re-type entries (lit_ok / filt_okb). The same denotation theorem and the five rules are proved for FindInPaths over a data set materialised as a tree (tree_guard) and for FindInAll when every typed search is routed to the path finder (all_guard); levels served by constants and searches outside the guards are oracle-checked.',
    technique='Coq proof (rules derived from the denotation refinement of C07 + glob relation of C08) + rewrite-pair oracle on three finders + correspondence',
    design='6 C10'),
 'C12': dict(
    text='Theorems (Finder level): find_one is the head of find, exists is non-emptiness (guard: no empty-string entry; the edge is proved as a _refuted example), as_sid=False strings are the strings of the as_sid=True results; Sid level, over a data set materialised as a tree and for the levels served by the path finder: exists() is membership, children() / siblings() are exactly the members below / beside the Sid, what exists has an existing parent, a leaf has no children (decidable guards, evaluated on the live configuration on every run). Differential run + oracle on FindInList universes, and histories over real trees in one process (exists / children / siblings asked before and after creations).',
    note=TB + 'Levels served by configured constants (project, type, assettype, state in the demo): existence and children are by configuration for every file system (theorems C12_constants_exists / C12_constants_children), compared with the implementation by correspondence.',
    technique='Coq proof + correspondence',
    design='6 C12'),
 'C13': dict(
    text='Theorems about the cache wrappers as state machines (exact popitem eviction of caching.py at any capacity; functools.lru_cache over-approximated by arbitrary forgetting): every answer after any history equals the pure function, the invariant is kept, nested caches compose; key soundness of the repaired key (positional/keyword spellings bind alike), with the pinned tree\'s key refuted as a theorem; a Sid-object key never hits a plain-string entry. The wrappers are DATA: tools/extract_caching.py translates spil/util/caching.py (python ast, fail-closed) on every run into one descriptor per decorator (key form, eviction, storing policy, keyword forwarding, capacity) and lists every decorated function of the source; the generated Coq file proves that the descriptors are of an accepted shape and that every cached function uses one of them, and the theorems (transparency after any history at the source capacity, key soundness, the rejected shapes refuted) are stated for every accepted descriptor. Tie: histories in single implementation processes (colliding pools, all spellings, both path configurations in either order, capacity 2-4, several hash seeds) compared call by call with the pure model, and a sample with fresh processes; a disagreement is replayed in a fresh process to produce the failing history.',
    note=TB + 'tools/extract_caching.py is part of the trusted base (it recognises exactly the statement shapes listed in Cache/Desc.v and fails closed on anything else). That the body behind a wrapper is a pure function of its arguments is what the history correspondence checks. Interpreter start-up state is not modelled; fresh-process comparison is sampled.',
    technique='Coq proof (invariant by induction over call histories, for every accepted wrapper descriptor) + translator from caching.py to descriptors + history correspondence + fresh-process replay',
    design='6 C13'),
 'C14': dict(
    text='Theorems: == is uri equality, equal Sids have equal repr (hash argument), == with a string is string equality, __lt__ is a strict total order on strings; frame theorem over an explicit object store: no sequence of operations (Sids sharing cached dictionaries, copies handed out, callers mutating every container they hold) changes the fields an existing Sid refers to; the dictionary returned by fields is a fresh object. Tie: pairs incl. same-string Sids of different forced types (==, hash, set, dict, sorted) and mutation histories with re-observation and identity probes on the implementation.',
    note=TB + 'The object store is a model of aliasing (which containers are shared / copied); python hash() itself is abstracted to a function of repr.',
    technique='Coq proof (heap invariant by induction over operations) + mutation/identity probes on the implementation',
    design='6 C14'),
 'C05': dict(
    text='Theorems: for every configuration passing the decidable unambiguity check paths_unambiguousb (each path template factors a string in one way only, earlier templates are separated from the concrete strings of later ones, mappings injective, key orders coherent) and every naturally typed concrete Sid whose values are not "" / "." and contain no "/" or newline, Sid(path=sid.path(c), config=c) is the Sid, the path resolver gives back its type and fields, the reverse check of dict_to_path succeeds, and two such Sids never share a path; the configuration of the run is proved to pass the check (by computation, on every run). Also: the conditional round trip with the resolver answer as explicit hypothesis; one path never yields two Sids; untyped Sids and types without path template have path None; under two path configurations that are the same up to the leading literal root the paths of EVERY Sid differ by exactly that prefix (proved for the configurations of the run on every run); pathlib normalisation is idempotent; the "." / "" value collision (D26) is proved as an example. Differential run + oracle over every concrete Sid of every type in every path configuration (round trip, function, injectivity over the generated set, root-only difference, positional / keyword).',
    note=TB + 'The unambiguity check is sufficient, not complete (it rejects templates whose literal text has regex-special characters other than ".", relative templates, and placeholder patterns with a star other than the default). Both load orders are compared by the configuration translator on every run.',
    technique='Coq proof (unambiguous factorisation of path templates by shape scanning -> full round trip, injectivity, normal forms) + correspondence + oracle',
    design='6 C05'),
 'C06': dict(
    text='Theorems: whenever Sid(path=p, config=c) is typed its path(c) is p (normalised); otherwise it is the empty Sid; for every configuration passing the decidable checks paths_unambiguousb and paths_totalb, EVERY path string (no guard on characters or length) and every configured configuration the call returns a Sid (never raises) - proved on every run for the live configuration, with the extra clause shown necessary by counterexample configurations; for arbitrary well-formed configurations the call returns a Sid or ResolvaException, the latter only from the reverse check of the re-formatted path. Differential run + oracle over systematically mutated paths (desynchronised duplicates, every literal character, dropped / duplicated components, trailing parts, swapped roots, newline).',
    note=TB + 'The two checks are sufficient, not complete (see C05). An unknown configuration name is a ConfigError by design of get_path_config and outside "every configured path configuration".',
    technique='Coq proof + correspondence + mutation stream oracle',
    design='6 C06'),
 'C11': dict(
    text='Theorems over the generic finder model: every finder is the same find / do_find / sorted_search over its own star search, so answers depend on the finder only through its candidates (for ">" only through the candidate set); the generic finder over a list is the list finder; junk that resolves to no Sid changes no path-search result and makes none fail; every path-search result resolves from an existing matching path, has the searched type and matches the search; and the equality itself for star searches: for every configuration passing paths_unambiguousb, every data set of naturally typed concrete Sids materialised as a tree in which nothing else resolves to a Sid, and typed searches without ">", the tree search returns exactly the entities of the searched type that glob-match the search, is included in the list search over the same entities and equals it when the searched types cover the matches, with or without junk of three kinds (resolves to nothing / to an unsearched type / fails the field check), which also never changes whether a search fails. Tie: real temporary trees (local + server + list + FindInAll), with and without junk, compared with each other (oracle) and with the file-system model (glob, FindInPaths, FindInConstants, FindInAll).',
    note=TB + 'Guards of the equality theorem: no path component starts with a dot (necessary: glob does not match hidden names - proved as an example), wildcard on a mapped key only as a whole "*", searches whose type has a path template; ">" searches reduce to the same candidate sets through the congruence theorem and C09. What FindInConstants answers is characterised by theorem (C11_constants_star, C11_constants_over_tree); FindInAll across several finders is oracle + correspondence. scandir order, symlinks, permissions, case-insensitive file systems are not modelled.',
    technique='Coq proof (path pattern globs the path of every matching entity + round trip -> tree search = list search; junk invariance) + finder-agreement oracle on real trees + correspondence',
    design='6 C11'),
 'C15': dict(
    text='Theorems over the file-system / writer / getter model: create of an existing entity and update of a missing one (or of a Sid without path) raise SpilException (no new state); a read after a write is the overlay of previous data and written values; a write touches only the sidecar of the written entity, so reads of entities with another sidecar are unchanged; paths differing only by the extension share a sidecar; "exists exactly from the moment it or a descendant was created" as an invariant by induction over histories of creations from the empty tree (dataset_ok kept by every successful creation passing the decidable guard create_guardb; exists() after any history is true exactly for the created Sids and their ancestors that have a path); the data loaded after ANY history of create / update / set is the overlay, in call order, of the successful writes to that sidecar (only guard: distinct keys per written dictionary), with frame, isolation ("differs by more than the extension": sidecar injectivity) and blocked-sidecar theorems. Tie: all histories of <= 2 (thorough 3) operations over a reduced alphabet + random histories, each from an empty real tree, with tree-to-model comparison after every history and a direct oracle (overlay, exists after create of self or descendant).',
    note=TB + 'The history invariant covers creations without data at levels served by the path finder (a sidecar is a hidden file that resolves to a Sid at a level with a free value); the rest of existence-through-search is correspondence + oracle. A new process is not separately started per read (the writer and getter hold no state; sampled by the C13 fresh-process mechanism).',
    technique='Coq proof + exhaustive short histories / random histories against a real tree',
    design='6 C15'),
 'C16': dict(
    text='Theorems: GetFromPaths.get is the map of get_data over the Sids its finder finds (same length, same order); with attributes the record has exactly those keys; the "sid" key carries the encoder result and is untouched when the encoder returns None; types without Getter yield nothing without failing; pointwise form of the first sentence for every tree and over data sets, the records after any history of create / update / set (overlay of C15), GetFromAll.get = GetFromPaths.get when every typed search is routed to one path Getter (failures included), get_data / get_attr as the record of the Sid and one value of it. Tie: get vs find vs get_data in one implementation process (order), model correspondence as multisets, three encoders, attribute subsets.',
    note=TB + 'GetFromAll groups the typed searches by Getter (the Getters are built once per config since the repair of D30) and hands each group to one do_get; modelled as such (group_by_getter).',
    technique='Coq proof + correspondence + get/find oracle',
    design='6 C16'),
 'C17': dict(
    text='Theorem: for the write as repaired (temporary sibling written in any number of chunks, then os.replace) and EVERY crash point (prefix of the effect list), the sidecar holds the complete old or the complete new data and no other path but the temporary file changes; the in-place write of the pinned tree is refuted as a theorem; corrupt / empty / directory sidecars read as no data. Tie: the harness intercepts pathlib.write_text / os.replace in the implementation, injects the crash at each point (every byte boundary in thorough), compares the real tree with the model tree, reads back, and sets again.',
    note=TB + 'Durability (fsync) and kernel atomicity of rename are assumptions; the crash is simulated from the harness (no source hook).',
    technique='Coq proof by case analysis over crash prefixes + fault injection on the implementation',
    design='6 C17'),
 'C18': dict(
    text='Theorems about the model of NextGetter / get_next: the successor of v+ddd is requested as v+(n+1) in 3 digits through get_with on the same Sid; first version v001; formatted versions parse back, are distinct and ordered like numbers; 4-digit numbers are not versions (empty Sid); get_last(k) over a data set materialised as a tree is the member agreeing with the Sid off k that carries the greatest value (numeric for versions), the empty Sid iff there is none (levels served by the path finder, decidable guards evaluated on the live configuration); get_new is the successor of the last existing version, which does not exist yet, or the empty Sid beyond v999, and k successive create(get_new) steps yield the next versions in order, strictly increasing, each new, until 999 (theorems by induction over the chain, instantiated on the live configuration). Tie: generated trees with empty / dense / sparse / maximal version sets, every Sid level, "*" / ">" versions, create(get_new) chains; oracle from the property text + model correspondence of get_last / get_next / get_new through FindInAll.',
    note=TB + 'State-level Sids (served by constants) and lagging states are correspondence + oracle; NextGetter is demo plug-in code with "version" / "v" / 3 digits built in.',
    technique='Coq proof (version arithmetic, next_version) + correspondence + oracle on version workflows',
    design='6 C18'),
 'C19': dict(
    text='General theorems (Coq, no bound on number of types / keys / levels) about a line-by-line Gallina model of extrapolate_templates and pattern_replacing: explicit types kept in order, no duplicate names or templates, every added entry is a well-named prefix level of an extrapolated type, nothing else, every level covered; tied to spil/conf/util.py by differential runs of the extracted model against the implementation on grammar-generated configurations and on the live configuration.',
    note=TB + 'Placement (directly after, longest first) is checked by the oracle and correspondence, not yet a theorem.',
    technique='Coq proof by fold invariant over the template list + correspondence (extracted model vs impl)',
    design='6 C19'),
 'C20': dict(
    text='C20_all: every general theorem of C01-C08 is stated for ALL configurations that load and satisfy the decidable well-formedness predicate (no mention of demo names; a grep obligation enforces that the model contains no demo literal). Instance side on every run: members of a generated configuration family (renamed keys / basetypes / codes / leaf key, inserted level, other separators / folders / vocabularies / digit patterns, third basetype, third path configuration) are translated, proved to parse / load exactly as the implementation loaded them / be well-formed, and the C01-C08 streams run against a fresh implementation process per member.',
    note=TB + 'quick: 3 members; thorough: 40. The family generator (tools/confgen.py) is trusted to produce configurations of the documented shape.',
    technique='Coq proof over all well-formed configurations + per-member instance obligations + correspondence per member',
    design='6 C20'),
}

NOT_APPLICABLE = {}

def main():
    checks = []
    for pid in sorted(CLAIMED):
        c = CLAIMED[pid]
        checks.append({
            'property_id': pid,
            'quick_cmd': './check %s --tier quick' % pid,
            'thorough_cmd': './check %s --tier thorough' % pid,
            'evidence_file': 'evidence/%s.json' % pid,
            'replay_cmd_template': './check %s --replay {path}' % pid,
            'engine': 'coq-model',
            'level_claimed': {'category': 'proof', 'text': c['text'], 'design_ref': c['design']},
            'level_note': c['note'],
            'technique': c['technique'],
        })
    props = [json.loads(l)['id'] for l in open(os.path.join(V, 'properties.jsonl'))]
    na = []
    for pid in props:
        if pid not in CLAIMED:
            na.append({'property_id': pid, 'reason': NOT_APPLICABLE.get(pid, 'not yet built in this round: model and theorems for this property are still to be written (see DESIGN.md section 10); the technique applies')})
    m = {
        'version': 1,
        'setup_cmd': 'tools/setup.sh',
        'hooks': {'guard': 'SPIL_VERIF', 'enable': 'no source hooks are needed: checks drive the unmodified working tree of /repo from the harness (PYTHONPATH=/repo)',
                  'baseline_off_cmd': 'cd /repo && /venv/bin/python -m pytest -ra -q -p no:cacheprovider --timeout=900 --continue-on-collection-errors',
                  'source_commits': [], 'add_only': True},
        'engines': [{'name': 'coq-model', 'path': 'coq/', 'serves_properties': sorted(CLAIMED),
                     'kind_free_text': 'Coq 8.16.1 development (hand-written executable model + theorems), configuration regenerated from /repo on every run, extracted model compared with the implementation'}],
        'checks': checks,
        'not_applicable': na,
        'notes': 'See DESIGN.md. fix: commits in /repo are listed in known_findings.json (fixed entries).',
    }
    json.dump(m, open(os.path.join(V, 'MANIFEST.json'), 'w'), indent=1)

if __name__ == '__main__':
    main()
