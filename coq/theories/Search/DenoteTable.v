(** The C04 table read declaratively: [apply_query] on typed fields is [table_result] on the updated fields;
    reading url-safe queries; the declarative form of narrowing and of query application (C07). *)
From Coq Require Import List String Ascii Bool Arith Lia Permutation.
From Spil Require Import Base.Str Base.Dict Base.Outcome Base.StrProofs Base.SplitProofs
  Regex.Re Regex.MatchProofs Resolva.Template Resolva.Resolver Conf.ConfUtil Conf.Conf Conf.WF
  Sid.Query Sid.Sid Sid.TypingSpec Sid.TypingProofs Sid.SidLemmas Sid.SidProofs Sid.QueryStringProofs Sid.QueryProofs
  Search.Unfold Search.SortLemmas Search.UnfoldProofs Search.UnfoldSpec Search.DenoteLemmas Search.DenoteQuery.
Import ListNotations.
Local Open Scope string_scope.

Lemma find_name ty : forall l : list tpl,
  match find (fun tp => String.eqb (tp_name tp) ty) l with
  | Some tp => in_list ty (map tp_name l) = true /\ In tp l /\ tp_name tp = ty
  | None => in_list ty (map tp_name l) = false
  end.
Proof.
  induction l as [|a l IH]; [reflexivity|]. cbn [find map]. rewrite in_list_cons, (String.eqb_sym ty).
  destruct (String.eqb (tp_name a) ty) eqn:E.
  - cbn [orb]. apply String.eqb_eq in E. split; [reflexivity|]. split; [left; reflexivity | exact E].
  - cbn [orb]. destruct (find _ l) as [tp|]; [|exact IH]. destruct IH as (H1 & H2 & H3). split; [exact H1|].
    split; [right; exact H2 | exact H3].
Qed.

Section Table.
Variables (c : Conf) (Ld : Loaded).
Hypothesis Hload : load c = Some Ld.
Hypothesis Hwf : wf_loadedb Ld = true.

Local Notation tpls := (r_tpls (l_sid Ld)).
Local Notation r := (l_sid Ld).
Local Notation names t := (item_names (tp_items t)).

Lemma str_of_fmt tp ov : str_of tp ov = fmt_str tp ov.
Proof. reflexivity. Qed.

Definition nonl (ov : dict string) : Prop := Forall (fun kv => mem_c "010" (snd kv) = false) ov.

Lemma str_of_nonl tp ov : nonl ov -> mem_c "010" (str_of tp ov) = false.
Proof.
  intros H. unfold str_of. apply mem_c_join; [reflexivity|]. apply Forall_forall. intros x Hx.
  apply in_map_iff in Hx. destruct Hx as (n & <- & _). destruct (dget ov n) as [v|] eqn:E; [|reflexivity].
  apply dget_Some_In in E. unfold nonl in H. rewrite Forall_forall in H. apply (H _ E).
Qed.

Lemma format_carries ov tp : nonl ov -> In tp tpls ->
  format_tpl r tp ov = Ok (if carries ov tp then Some (str_of tp ov) else None).
Proof.
  intros Hnl Hin. unfold carries.
  destruct (keys_eq (dkeys ov) (names tp)) eqn:Hk; cbn [andb];
    [|apply (format_tpl_keys_false c Ld Hload Hwf tp ov Hin Hk)].
  rewrite str_of_fmt. destruct (sempty (fmt_str tp ov)) eqn:Es.
  - destruct (fmt_str tp ov) eqn:Ef; [|discriminate]. rewrite (accepts_empty Ld Hwf tp Hin).
    destruct (format_tpl_cases c Ld Hload Hwf tp ov Hin) as [H|(_ & _ & H)]; [exact H|]. rewrite Ef in H. congruence.
  - rewrite (format_tpl_nonl c Ld Hload Hwf tp ov Hin Hk).
    + destruct (accepts tp (fmt_str tp ov)); reflexivity.
    + rewrite <- str_of_fmt. apply str_of_nonl. exact Hnl.
    + apply sempty_false. exact Es.
Qed.

Lemma fhit_carries ov : nonl ov -> forall l, incl l tpls ->
  flat_map (fhit Ld ov) l = map (fun tp => (tp_name tp, str_of tp ov)) (filter (carries ov) l).
Proof.
  intros Hnl. induction l as [|t l IH]; intros Hincl; [reflexivity|].
  cbn [flat_map filter]. rewrite IH by (intros x Hx; apply Hincl; right; exact Hx).
  unfold fhit at 1. rewrite (format_carries ov t Hnl (Hincl t (or_introl eq_refl))).
  destruct (carries ov t); reflexivity.
Qed.

Lemma types_candidates ov : nonl ov -> ov <> [] ->
  dict_to_types Ld ov = Ok (map tp_name (candidates Ld ov)).
Proof.
  intros Hnl Hne. rewrite (dict_to_types_eq c Ld Hload Hwf ov Hne).
  rewrite (fhit_carries ov Hnl tpls (incl_refl _)), map_map. reflexivity.
Qed.

Lemma candidate_parts ov tp : In tp (candidates Ld ov) ->
  In tp tpls /\ carries ov tp = true /\ exists d0, accepts tp (str_of tp ov) = Some d0.
Proof.
  unfold candidates. intros H. apply filter_In in H. destruct H as (Hin & Hc). split; [exact Hin|]. split; [exact Hc|].
  unfold carries in Hc. apply andb_true_iff in Hc. destruct Hc as (_ & Hc).
  destruct (accepts tp (str_of tp ov)) as [d0|]; [exists d0; reflexivity | discriminate].
Qed.

Lemma finish_candidate s q ty d ov tp d0 : nonl ov -> ov <> [] ->
  In tp (candidates Ld ov) -> accepts tp (str_of tp ov) = Some d0 ->
  finish Ld s q ty d ov (tp_name tp) = Ok (str_of tp ov, tp_name tp, d0).
Proof.
  intros Hnl Hne Hc Ha. destruct (candidate_parts ov tp Hc) as (Hin & Hcar & _).
  unfold finish.
  assert (Hf : format_tpl r tp ov = Ok (Some (str_of tp ov))) by (rewrite (format_carries ov tp Hnl Hin), Hcar; reflexivity).
  rewrite (rdict_hit c Ld Hload Hwf tp ov _ Hin Hne Hf). cbn [bind].
  pose proof (accepts_ne Ld Hwf tp _ d0 Hin Ha) as Hsne. apply sempty_false in Hsne. rewrite Hsne.
  rewrite (sid_to_dict_typed c Ld Hload Hwf tp _ Hin). cbn [bind].
  apply sempty_false in Hsne.
  rewrite (forced_of_accepts c Ld Hload Hwf tp _ d0 Hin Hsne Ha). reflexivity.
Qed.

Lemma candidates_nil : candidates Ld [] = [].
Proof.
  unfold candidates. assert (H : forall l, incl l tpls -> filter (carries []) l = []).
  { induction l as [|t l IH]; intros Hincl; [reflexivity|]. cbn [filter].
    assert (Hc : carries [] t = false).
    { unfold carries. cbn [dkeys map]. pose proof (names_ne Ld Hwf t (Hincl t (or_introl eq_refl))) as Hn.
      destruct (names t) as [|n ns] eqn:En; [congruence|]. reflexivity. }
    rewrite Hc. apply IH. intros x Hx. apply Hincl. right. exact Hx. }
  apply H. apply incl_refl.
Qed.

(** The C04 table *)
Theorem apply_query_table s q ty d ov : (ty = "" -> d = []) -> q <> "" -> update d q = Ok ov -> nonl ov ->
  apply_query Ld s q ty d =
  Ok (match table_result Ld ov ty (is_search_str Ld (s ++ "?" ++ q)) with
      | Some x => (s_string x, s_type x, s_fields x)
      | None => (s ++ "?" ++ q, ty, d)
      end).
Proof.
  intros Hg Hq Hu Hnl. rewrite apply_query_unfold.
  assert (G : sempty ty && negb (match d with [] => true | _ => false end) = false).
  { destruct (sempty ty) eqn:E; [|reflexivity]. destruct ty; [|discriminate]. rewrite (Hg eq_refl). reflexivity. }
  rewrite G. apply sempty_false in Hq. rewrite Hq. rewrite Hu. cbn [bind].
  destruct ov as [|p ov'] eqn:Eov.
  { rewrite dict_to_types_nil. cbn [bind]. unfold table_result, chosen. rewrite candidates_nil. reflexivity. }
  rewrite <- Eov in *. assert (Hne : ov <> []) by (rewrite Eov; discriminate).
  rewrite (types_candidates ov Hnl Hne). cbn [bind]. unfold table_result, chosen.
  destruct (candidates Ld ov) as [|tp0 [|tp1 rest]] eqn:Ec; cbn [map].
  - reflexivity.
  - assert (Hin : In tp0 (candidates Ld ov)) by (rewrite Ec; left; reflexivity).
    destruct (candidate_parts ov tp0 Hin) as (_ & _ & d0 & Ha). rewrite Ha.
    apply (finish_candidate s q ty d ov tp0 d0 Hnl Hne Hin Ha).
  - pose proof (find_name ty (tp0 :: tp1 :: rest)) as Hf. cbn [map] in Hf.
    destruct (find (fun tp => String.eqb (tp_name tp) ty) (tp0 :: tp1 :: rest)) as [tp|].
    + destruct Hf as (Hi & Hin & Hn). rewrite Hi. rewrite <- Ec in Hin.
      destruct (candidate_parts ov tp Hin) as (_ & _ & d0 & Ha). rewrite Ha. rewrite <- Hn.
      apply (finish_candidate s q (tp_name tp) d ov tp d0 Hnl Hne Hin Ha).
    + rewrite Hf. destruct (is_search_str Ld (s ++ "?" ++ q)); [|reflexivity].
      assert (Hin : In tp0 (candidates Ld ov)) by (rewrite Ec; left; reflexivity).
      destruct (candidate_parts ov tp0 Hin) as (_ & _ & d0 & Ha). rewrite Ha.
      apply (finish_candidate s q ty d ov tp0 d0 Hnl Hne Hin Ha).
Qed.

End Table.

(** * reading url-safe queries *)

Lemma fold_left_ext {A B} (f g : A -> B -> A) : (forall a b, f a b = g a b) ->
  forall l a, fold_left f l a = fold_left g l a.
Proof. intros H. induction l as [|b l IH]; intros a; [reflexivity|]. cbn [fold_left]. rewrite H. apply IH. Qed.

Lemma update_q d qd : qdict qd -> NoDup (map fst qd) -> qd <> [] ->
  update d (query_str qd) = Ok (updated d qd).
Proof.
  intros Hq Hnd Hne. unfold update. change (query_str qd) with (join "&" (map enc qd)).
  rewrite (to_dict_q qd Hq Hnd Hne). cbn [bind]. f_equal. unfold updated. apply fold_left_ext.
  intros a [k v]. unfold set_pair. cbn [fst snd]. change option_prefix with "~".
  destruct (startswith "~" v); cbn [negb]; [rewrite orb_false_r | rewrite orb_true_r]; reflexivity.
Qed.

Lemma replace_del_nomem a c0 s : mem_c a s = false -> mem_c a (replace (str1 c0) "" s) = false.
Proof.
  unfold replace, str1. cbn [sempty]. induction s as [|b s IH]; intros H; [reflexivity|].
  cbn [mem_c] in H. apply orb_false_iff in H. destruct H as (Hb & Hs).
  cbn [replace_aux startswith String.length Nat.sub]. destruct (Ascii.eqb c0 b && true).
  - cbn [append]. apply IH. exact Hs.
  - cbn [mem_c]. rewrite Hb, (IH Hs). reflexivity.
Qed.

Lemma dset_nonl d k v : nonl d -> mem_c "010" v = false -> nonl (dset d k v).
Proof.
  unfold nonl. induction d as [|[k' v'] d IH]; intros H Hv; cbn [dset].
  - constructor; [exact Hv | constructor].
  - inversion H; subst. destruct (String.eqb k k'); constructor; auto.
Qed.

Lemma updated_nonl qd : adict qd -> forall d, nonl d -> nonl (updated d qd).
Proof.
  unfold updated. induction qd as [|[k v] qd IH]; intros Ha d Hd; [exact Hd|]. inversion Ha as [|? ? (Hk & Hv) Ha']; subst.
  cbn [fold_left]. apply (IH Ha'). unfold set_pair. cbn [fst snd] in *.
  assert (Hvn : mem_c "010" v = false) by (apply (atom_nomem v "010" Hv eq_refl)).
  destruct (startswith "~" v).
  - destruct (dmem d k); [|exact Hd]. apply dset_nonl; [exact Hd|]. change "~" with (str1 "~").
    apply replace_del_nomem. exact Hvn.
  - apply dset_nonl; assumption.
Qed.

Lemma simple_query_parts q nq : simple_query q = Some nq ->
  q = query_str nq /\ adict nq /\ NoDup (map fst nq) /\ nq <> [].
Proof.
  unfold simple_query. set (items := map (split1_c "=") (split_c "&" q)).
  destruct (forallb _ items && nodupb (map fst items)) eqn:E; [|discriminate]. intros H. inversion H as [Hnq]. clear H.
  apply andb_true_iff in E. destruct E as (Hall & Hnd). rewrite forallb_forall in Hall.
  set (g := fun it : string * option string => (fst it, match snd it with Some v => v | None => "" end)).
  assert (Hstr : forall p, In p (split_c "&" q) -> kv_str (g (split1_c "=" p)) = p /\
                   atom (fst (g (split1_c "=" p))) /\ atom (snd (g (split1_c "=" p)))).
  { intros p Hp. assert (Hit : In (split1_c "=" p) items) by (apply in_map; exact Hp).
    specialize (Hall _ Hit). destruct (split1_c "=" p) as [k [v|]] eqn:Es; cbn [fst snd] in Hall; [|discriminate].
    apply andb_true_iff in Hall. destruct Hall as (Hk & Hv).
    destruct (split1_c_some _ _ _ _ Es) as (Ep & _). unfold g, kv_str. cbn [fst snd]. split; [symmetry; exact Ep | auto]. }
  split; [|split; [|split]].
  - unfold query_str, items. rewrite !map_map. rewrite (map_id_in (fun p => kv_str (g (split1_c "=" p)))).
    + symmetry. apply (join_split_c "&" q).
    + intros p Hp. apply (Hstr p Hp).
  - unfold items. rewrite map_map. apply Forall_forall. intros kv Hkv. apply in_map_iff in Hkv.
    destruct Hkv as (p & <- & Hp). apply (Hstr p Hp).
  - apply nodupb_NoDup. rewrite map_map. exact Hnd.
  - unfold items. intros E. apply map_eq_nil in E. apply map_eq_nil in E. exact (split_c_not_nil _ _ E).
Qed.

(** * the declarative form of query application and of narrowing *)

Section Decl.
Variables (c : Conf) (Ld : Loaded).
Hypothesis Hload : load c = Some Ld.
Hypothesis Hwf : wf_loadedb Ld = true.

Local Notation tpls := (r_tpls (l_sid Ld)).

Lemma wt_fields_nonl y : wt Ld y -> mem_c "010" (s_string y) = false -> nonl (s_fields y).
Proof.
  intros Hw Hnl. destruct (forced_inv Ld _ _ _ _ Hw) as (_ & _ & tp & Hin & _ & Ha).
  destruct (accepts_fields Ld Hwf tp _ _ Hin Ha) as (_ & Hsnd & _).
  unfold nonl. apply Forall_forall. intros kv Hkv.
  assert (Hv : In (snd kv) (split_c "/" (s_string y))) by (rewrite <- Hsnd; apply in_map; exact Hkv).
  apply (mem_c_piece "010" "/" _ _ Hnl Hv).
Qed.

Theorem query_applied_table qd y x : wt Ld y -> mem_c "010" (s_string y) = false ->
  adict qd -> NoDup (map fst qd) -> qd <> [] ->
  (query_applied Ld (query_str qd) y x <-> table_applied Ld qd y x).
Proof.
  intros Hw Hnl Ha Hnd Hne.
  pose proof (update_q (s_fields y) qd (adict_qdict qd Ha) Hnd Hne) as Hu.
  pose proof (updated_nonl qd Ha _ (wt_fields_nonl y Hw Hnl)) as Hov.
  destruct (wt_parts Ld Hwf y Hw) as (Htne & _).
  assert (Hq : query_str qd <> "") by (apply (qquery_ne qd (adict_qdict qd Ha) Hne)).
  pose proof (apply_query_table c Ld Hload Hwf (s_string y) (query_str qd) (s_type y) (s_fields y) _
                (fun E => False_ind _ (Htne E)) Hq Hu Hov) as Ht.
  unfold query_applied, table_applied. rewrite Ht. split.
  - intros (E & Hc). destruct (table_result Ld _ _ _) as [x'|].
    + assert (Ex : x' = x) by (destruct x, x'; cbn in *; congruence). subst x'. auto.
    + exfalso. inversion E as [[E1 E2 E3]]. rewrite <- E1 in Hc.
      change "?" with (str1 "?") in Hc at 1. rewrite count_str1, count_c_app in Hc. cbn in Hc. lia.
  - intros (E & Hc). rewrite E. auto.
Qed.

Lemma table_result_wt ov ty sy x : nonl ov -> table_result Ld ov ty sy = Some x ->
  wt Ld x /\ mem_c "010" (s_string x) = false.
Proof.
  unfold table_result. intros Hnl H. destruct (chosen Ld ov ty sy) as [tp|] eqn:Ec; [|discriminate].
  destruct (accepts tp (str_of tp ov)) as [d|] eqn:Ea; [|discriminate]. inversion H; subst x. clear H.
  assert (Hin : In tp tpls).
  { unfold chosen in Ec. destruct (candidates Ld ov) as [|tp0 [|tp1 rest]] eqn:Ecs; [discriminate| |].
    - inversion Ec; subst tp0. apply (candidate_parts Ld ov tp). rewrite Ecs. left. reflexivity.
    - pose proof (find_name ty (tp0 :: tp1 :: rest)) as Hf.
      destruct (find _ (tp0 :: tp1 :: rest)) as [tp'|].
      + inversion Ec; subst tp'. destruct Hf as (_ & Hf & _). apply (candidate_parts Ld ov tp). rewrite Ecs. exact Hf.
      + destruct sy; [|discriminate]. inversion Ec; subst tp0. apply (candidate_parts Ld ov tp). rewrite Ecs. left. reflexivity. }
  split; [apply (wt_typed c Ld Hload Hwf _ tp d Hin Ea) | cbn [s_string]; apply (str_of_nonl tp ov Hnl)].
Qed.

Lemma table_applied_wt qd y x : wt Ld y -> mem_c "010" (s_string y) = false -> adict qd ->
  table_applied Ld qd y x -> wt Ld x /\ mem_c "010" (s_string x) = false.
Proof.
  intros Hw Hnl Ha (Ht & _). apply (table_result_wt _ _ _ x (updated_nonl qd Ha _ (wt_fields_nonl y Hw Hnl)) Ht).
Qed.

Lemma narrowing_query_simple t : narrowing_simple Ld = true ->
  narrowing_query Ld t = "" \/ exists nq, simple_query (narrowing_query Ld t) = Some nq.
Proof.
  intros H. unfold narrowing_query.
  destruct (dget (c_base_narrowing (l_conf Ld)) (basetype_of Ld t)) as [q|] eqn:E; [|left; reflexivity].
  apply dget_Some_In in E. unfold narrowing_simple in H. rewrite forallb_forall in H. specialize (H _ E). cbn [snd] in H.
  apply orb_true_iff in H. destruct H as [H|H].
  - left. destruct q; [reflexivity | discriminate].
  - right. destruct (simple_query q) as [nq|]; [exists nq; reflexivity | discriminate].
Qed.

Theorem narrowed_decl_iff y x : narrowing_simple Ld = true -> wt Ld y -> mem_c "010" (s_string y) = false ->
  (narrowed Ld y x <-> narrowed_decl Ld y x).
Proof.
  intros Hs Hw Hnl. unfold narrowed, narrowed_decl.
  destruct (sempty (narrowing_query Ld (s_type y))) eqn:E; [reflexivity|].
  destruct (narrowing_query_simple (s_type y) Hs) as [H|(nq & Hnq)]; [rewrite H in E; discriminate|].
  rewrite Hnq. destruct (simple_query_parts _ nq Hnq) as (Eq & Ha & Hnd & Hne). rewrite Eq at 1.
  apply query_applied_table; assumption.
Qed.

End Decl.
