#!/venv/bin/python
"""Entry point:  check.py <property id> [--tier quick|thorough] [--replay file]"""
import sys, os, argparse, importlib
sys.path.insert(0, os.path.dirname(os.path.abspath(__file__)))
from harness import runner

def main():
    ap = argparse.ArgumentParser()
    ap.add_argument('prop')
    ap.add_argument('--tier', default=os.environ.get('VERIF_TIER', 'quick'))
    ap.add_argument('--replay')
    a = ap.parse_args()
    seed = int(os.environ.get('VERIF_SEED', '1'))
    mod = importlib.import_module('props.' + a.prop.lower())
    try:
        code = runner.run_check(mod.PROP, a.tier, seed, a.replay)
    except Exception:
        # the check could not be completed (the generators / oracles met something they do not handle - typically an implementation
        # that answers outside everything the harness expects): the property is no longer shown to hold
        import traceback
        from harness import core
        tb = traceback.format_exc()
        sys.stderr.write(tb)
        path = core.write_replay(mod.PROP.id, {'property': mod.PROP.id, 'kind': 'no-longer-checks', 'obligation': 'check-completes',
                                              'detail': tb[-3000:], 'cases': [], 'seed': seed})
        print('VIOLATION property=%s replay=%s no-failing-input-found' % (mod.PROP.id, path))
        code = 1
    sys.exit(code)

if __name__ == '__main__':
    main()
