(** Newline-tolerant versions of [resolve_tpl_nonl] and [format_tpl_nonl] (Sid/SidLemmas.v), and an
    exact description of what the factory computes from a field dictionary ([sid_of_fields_spec]).

    The reverse check of resolva's [format_one] re-resolves the string it has just formatted with the
    SAME template; its regex search ends in python's "$", which also matches before a final newline.
    Two facts:
    - a template that ACCEPTS a string (segment by segment, Sid/TypingSpec.v) always passes its own
      reverse check, with exactly the accepted fields, newlines or not ([resolve_tpl_accepts]);
    - a template that does NOT accept the string can still pass the reverse check: then the string
      ends with a newline ([rc_hit_cases]).  Such a "false hit" matters when the template shares its
      key set with the one that types the string and comes first in the configuration. *)
From Coq Require Import List String Ascii Bool Arith Lia Permutation.
From Spil Require Import Base.Str Base.Dict Base.Outcome Base.Tree Base.StrProofs Base.SplitProofs
  Regex.Re Regex.MatchProofs Resolva.Template Resolva.Resolver Conf.ConfUtil Conf.Conf Conf.WF
  Sid.Query Sid.Sid Sid.TypingSpec Sid.TypingProofs Sid.SidLemmas Sid.SidProofs.
Import ListNotations.
Local Open Scope string_scope.

(** ** Definitions *)

(* the reverse check of [format_tpl] on string [s] with template [t] succeeds *)
Definition rc_hit (Ld : Loaded) (t : tpl) (s : string) : bool :=
  match resolve_tpl (l_sid Ld) t s with Ok (Some _) => true | _ => false end.

(* [t] has key sequence [ks] and its reverse check passes on [s] *)
Definition hit_sel (Ld : Loaded) (ks : list string) (s : string) (t : tpl) : bool :=
  strs_eqb (item_names (tp_items t)) ks && rc_hit Ld t s.

(* the first template, in configuration order, that formats data with keys [ks] to [s] *)
Definition first_hit (Ld : Loaded) (ks : list string) (s : string) : option tpl :=
  find (hit_sel Ld ks s) (r_tpls (l_sid Ld)).

(* THE GUARD: that first template (if any) accepts [s].  Decidable, evaluable by vm_compute. *)
Definition nl_ok (Ld : Loaded) (ks : list string) (s : string) : bool :=
  match first_hit Ld ks s with
  | Some t => match accepts t s with Some _ => true | None => false end
  | None => true
  end.

(** ** Lists *)

Lemma strs_eqb_refl l : strs_eqb l l = true.
Proof. induction l as [|x l IH]; simpl; [reflexivity|]. rewrite String.eqb_refl, IH. reflexivity. Qed.

Lemma find_app_s {A} (f : A -> bool) l1 l2 :
  find f (l1 ++ l2) = match find f l1 with Some x => Some x | None => find f l2 end.
Proof.
  induction l1 as [|a l1 IH]; simpl; [reflexivity|]. destruct (f a); [reflexivity | exact IH].
Qed.

Lemma flat_map_sel_find {A B} (sel : A -> bool) (h : A -> B) (g : A -> list B) l :
  (forall t, In t l -> g t = if sel t then [h t] else []) ->
  match flat_map g l with
  | [] => find sel l = None
  | y :: _ => exists t, find sel l = Some t /\ y = h t
  end.
Proof.
  induction l as [|a l IH]; intros Hg; [reflexivity|].
  cbn [flat_map find]. rewrite (Hg a) by (left; reflexivity).
  destruct (sel a) eqn:Ea.
  - cbn [app]. exists a. split; reflexivity.
  - cbn [app]. apply IH. intros t Ht. apply Hg. right. exact Ht.
Qed.

(* a string that ends with a newline, cut after some prefix: the non-empty rest ends with a newline *)
Lemma app_ends_nl : forall (a b s0 : string), a ++ b = s0 ++ nl -> b <> "" -> exists b0, b = b0 ++ nl.
Proof.
  induction a as [|x a IH]; intros b s0 E Hb.
  - exists s0. exact E.
  - destruct s0 as [|y s0].
    + cbn [append] in E. unfold nl in E. inversion E as [[Ex Ea]].
      destruct a; [|discriminate]. cbn [append] in Ea. congruence.
    + cbn [append] in E. inversion E as [[Ex Ea]]. apply (IH b s0 Ea Hb).
Qed.

Lemma join_ends_nl : forall (l : list string) s0, l <> [] -> join "/" l = s0 ++ nl ->
  exists v0, last l "" = v0 ++ nl.
Proof.
  induction l as [|a l IH]; intros s0 Hne E; [congruence|].
  destruct l as [|b l].
  - exists s0. exact E.
  - rewrite join_cons2 in E. change (last (a :: b :: l) "") with (last (b :: l) "").
    rewrite <- app_assoc_s in E.
    destruct (join "/" (b :: l)) as [|y rest] eqn:Ej.
    + exfalso. rewrite app_nil_r_s in E.
      assert (G : exists b0, "/" = b0 ++ nl) by (apply (app_ends_nl a "/" s0 E); discriminate).
      destruct G as ([|z b0] & G); [discriminate G|]. cbn [append] in G.
      inversion G as [[Ez Eb]]. destruct b0; discriminate.
    + destruct (app_ends_nl (a ++ "/") (String y rest) s0 E) as (b0 & Eb); [discriminate|].
      apply (IH b0); [discriminate | exact Eb].
Qed.

(** ** Relative to one well-formed loaded configuration *)

Section Loaded.
Variables (c : Conf) (Ld : Loaded).
Hypothesis Hload : load c = Some Ld.
Hypothesis Hwf : wf_loadedb Ld = true.

Local Notation tpls := (r_tpls (l_sid Ld)).
Local Notation r := (l_sid Ld).
Local Notation names t := (item_names (tp_items t)).

(** *** resolve_tpl without the newline guard (replaces [resolve_tpl_nonl]) *)

(* an accepted string resolves to exactly the accepted fields: whatever newlines it contains *)
Lemma resolve_tpl_accepts t s d : In t tpls -> accepts t s = Some d ->
  resolve_tpl r t s = Ok (Some d).
Proof.
  intros Hin Ha. destruct (tpl_spec2_all c Ld Hload Hwf t s Hin) as (x & Hx & H). rewrite Hx.
  destruct x as [d1|]; [|congruence].
  destruct H as (_ & segs & s2 & _ & _ & _ & [(_ & Ha1) | (_ & Ha1)]); congruence.
Qed.

(* in general: None, the accepted fields, or a "false hit" on a string that ends with a newline *)
Lemma resolve_tpl_cases t s : In t tpls ->
  resolve_tpl r t s = Ok (accepts t s) \/
  (accepts t s = None /\ exists d segs, resolve_tpl r t s = Ok (Some d) /\ d <> [] /\
     s = join "/" segs ++ nl).
Proof.
  intros Hin. destruct (tpl_spec2_all c Ld Hload Hwf t s Hin) as (x & Hx & H). rewrite Hx.
  destruct x as [d1|]; [|left; rewrite H; reflexivity].
  destruct H as (Hd & segs & s2 & _ & _ & Es & [(-> & Ha1) | (-> & Ha1)]).
  - left. rewrite Ha1. reflexivity.
  - right. split; [exact Ha1|]. exists d1, segs. repeat split; assumption.
Qed.

Lemma rc_hit_accepts t s d : In t tpls -> accepts t s = Some d -> rc_hit Ld t s = true.
Proof. intros Hin Ha. unfold rc_hit. rewrite (resolve_tpl_accepts t s d Hin Ha). reflexivity. Qed.

Lemma rc_hit_cases t s : In t tpls -> rc_hit Ld t s = true ->
  accepts t s <> None \/ (accepts t s = None /\ exists s0, s = s0 ++ nl).
Proof.
  intros Hin Hh. unfold rc_hit in Hh.
  destruct (resolve_tpl_cases t s Hin) as [E | (Ha & d & segs & E & _ & Es)].
  - left. rewrite E in Hh. destruct (accepts t s); [discriminate | discriminate].
  - right. split; [exact Ha|]. exists (join "/" segs). exact Es.
Qed.

(* no false hit on a string that does not end with a newline *)
Lemma rc_hit_no_nl t s : In t tpls -> (forall s0, s <> s0 ++ nl) ->
  rc_hit Ld t s = match accepts t s with Some _ => true | None => false end.
Proof.
  intros Hin Hs. destruct (accepts t s) as [d|] eqn:Ea.
  - apply (rc_hit_accepts t s d Hin Ea).
  - destruct (rc_hit Ld t s) eqn:Eh; [|reflexivity]. exfalso.
    destruct (rc_hit_cases t s Hin Eh) as [H | (_ & s0 & E)]; [congruence | exact (Hs s0 E)].
Qed.

(** *** format_tpl without the newline guard (replaces [format_tpl_nonl]) *)

Lemma format_tpl_rc t dd : In t tpls ->
  keys_eq (dkeys dd) (names t) = true -> fmt_str t dd <> "" ->
  format_tpl r t dd = Ok (if rc_hit Ld t (fmt_str t dd) then Some (fmt_str t dd) else None).
Proof.
  intros Hin Hk Hne. unfold format_tpl. rewrite (tpl_keys c Ld Hload Hwf t Hin), Hk. cbn [negb].
  destruct (tpl_parts Ld Hwf t Hin) as (Hsh & _).
  rewrite (fmt_vals _ dd Hsh (keys_eq_dget dd t Hk)). cbn [bind].
  fold (fmt_str t dd). unfold resolve_one.
  apply sempty_false in Hne. rewrite Hne, (tpl_find c Ld Hload Hwf t Hin).
  destruct (resolve_tpl_total c Ld Hload Hwf t (fmt_str t dd) Hin) as (x & Hx & Hd).
  unfold rc_hit. rewrite Hx. cbn [bind].
  destruct x as [d|]; [|reflexivity]. destruct d; [congruence | reflexivity].
Qed.

(* the own template of accepted data formats it back: the newline-tolerant [format_tpl_nonl] *)
Lemma format_tpl_accepts t dd d : In t tpls ->
  keys_eq (dkeys dd) (names t) = true -> accepts t (fmt_str t dd) = Some d ->
  format_tpl r t dd = Ok (Some (fmt_str t dd)).
Proof.
  intros Hin Hk Ha.
  assert (Hne : fmt_str t dd <> "").
  { intros E. pose proof (first_seg_nonempty Ld Hwf t _ d Hin Ha) as Hg. rewrite E in Hg.
    apply Hg. reflexivity. }
  rewrite (format_tpl_rc t dd Hin Hk Hne), (rc_hit_accepts t _ d Hin Ha). reflexivity.
Qed.

Lemma forced_name t s : In t tpls -> s <> "" ->
  forced Ld (tp_name t) s =
  match accepts t s with Some d => Some (tp_name t, d) | None => None end.
Proof.
  intros Hin Hs. unfold forced. apply sempty_false in Hs.
  rewrite Hs, (tpl_find c Ld Hload Hwf t Hin). reflexivity.
Qed.

Lemma tpl_name_inj t1 t2 : In t1 tpls -> In t2 tpls -> tp_name t1 = tp_name t2 -> t1 = t2.
Proof.
  intros H1 H2 E. pose proof (tpl_find c Ld Hload Hwf t1 H1) as F1.
  pose proof (tpl_find c Ld Hload Hwf t2 H2) as F2. rewrite E in F1. congruence.
Qed.

(** *** first_hit *)

Lemma first_hit_inv ks s t : first_hit Ld ks s = Some t ->
  In t tpls /\ names t = ks /\ rc_hit Ld t s = true.
Proof.
  unfold first_hit. intros H. apply find_some in H. destruct H as (Hin & H).
  unfold hit_sel in H. apply andb_true_iff in H. destruct H as (H1 & H2).
  split; [exact Hin|]. split; [apply strs_eqb_eq; exact H1 | exact H2].
Qed.

Lemma first_hit_some tp s d : In tp tpls -> accepts tp s = Some d ->
  exists t, first_hit Ld (names tp) s = Some t.
Proof.
  intros Hin Ha. unfold first_hit. destruct (find _ tpls) as [t|] eqn:E; [exists t; reflexivity|].
  exfalso. pose proof (find_none _ _ E tp Hin) as H. unfold hit_sel in H.
  rewrite strs_eqb_refl, (rc_hit_accepts tp s d Hin Ha) in H. discriminate.
Qed.

(** *** What the factory computes from a field dictionary *)

(* [dd]: the data in canonical order; [dd']: any reordering of it.  Each template either does not
   have the keys, or formats to the same string and is a hit exactly when its reverse check passes. *)
Lemma fhit_sel (dd dd' : dict string) tq t :
  NoDup (map fst dd) -> In tq tpls -> names tq = map fst dd ->
  join "/" (map snd dd) <> "" -> Permutation dd dd' -> In t tpls ->
  fhit Ld dd' t = if hit_sel Ld (map fst dd) (join "/" (map snd dd)) t
                  then [(tp_name t, join "/" (map snd dd))] else [].
Proof.
  intros Hnd Hq Hnq Hne Hp Hin. unfold fhit, hit_sel.
  pose proof (Permutation_map fst Hp) as Hpk.
  destruct (keys_eq (dkeys dd') (names t)) eqn:Hk.
  - assert (Hn : names t = map fst dd).
    { rewrite <- Hnq. apply keys_eq_iff in Hk. destruct Hk as (Hk1 & Hk2). unfold dkeys in *.
      apply (same_seq Ld Hwf t tq Hin Hq).
      - intros k Hk. rewrite Hnq. apply (Permutation_in _ (Permutation_sym Hpk)). apply Hk2. exact Hk.
      - intros k Hk. apply Hk1. apply (Permutation_in _ Hpk). rewrite <- Hnq. exact Hk. }
    assert (Hf : fmt_str t dd' = join "/" (map snd dd)).
    { apply fmt_str_same; [exact Hnd | exact Hn|]. intros k. apply dget_perm; assumption. }
    rewrite (format_tpl_rc t dd' Hin Hk) by (rewrite Hf; exact Hne).
    rewrite Hf, Hn, strs_eqb_refl. cbn [andb].
    destruct (rc_hit Ld t _); reflexivity.
  - rewrite (format_tpl_keys_false c Ld Hload Hwf t dd' Hin Hk).
    destruct (strs_eqb (names t) (map fst dd)) eqn:Es; [|reflexivity]. exfalso.
    apply strs_eqb_eq in Es.
    assert (Hk' : keys_eq (dkeys dd') (names t) = true).
    { apply keys_eq_iff. rewrite Es. unfold dkeys.
      split; intros k Hk0; [apply (Permutation_in _ (Permutation_sym Hpk)) | apply (Permutation_in _ Hpk)];
        exact Hk0. }
    congruence.
Qed.

(* The factory on fields, exactly: the first template with these keys whose reverse check passes on
   the joined values is chosen; the result is typed iff that template accepts the string. *)
Theorem sid_of_fields_spec (dd dd' : dict string) tq :
  dd <> [] -> NoDup (map fst dd) -> In tq tpls -> names tq = map fst dd ->
  join "/" (map snd dd) <> "" -> Permutation dd dd' ->
  sid_of_fields Ld dd' =
  Ok (match first_hit Ld (map fst dd) (join "/" (map snd dd)) with
      | Some t => match accepts t (join "/" (map snd dd)) with
                  | Some d0 => mkSid (join "/" (map snd dd)) (tp_name t) d0
                  | None => empty_sid
                  end
      | None => empty_sid
      end).
Proof.
  intros Hdd Hnd Hq Hnq Hne Hp.
  assert (Hdd' : dd' <> []).
  { intros ->. apply Permutation_sym, Permutation_nil in Hp. congruence. }
  rewrite (sid_of_fields_eq c Ld Hload Hwf dd' Hdd').
  pose proof (flat_map_sel_find (hit_sel Ld (map fst dd) (join "/" (map snd dd)))
                (fun t => (tp_name t, join "/" (map snd dd))) (fhit Ld dd') tpls) as H.
  specialize (H (fun t Hin => fhit_sel dd dd' tq t Hnd Hq Hnq Hne Hp Hin)).
  unfold first_hit.
  destruct (flat_map (fhit Ld dd') tpls) as [|[n f] rest].
  - rewrite H. reflexivity.
  - destruct H as (t & Hfind & Ey). rewrite Hfind. inversion Ey; subst n f.
    apply find_some in Hfind. destruct Hfind as (Hin & _).
    unfold of_forced. rewrite (forced_name t _ Hin Hne).
    destruct (accepts t _); reflexivity.
Qed.

(** *** The guard *)

(* no string-level newline at the end: the guard holds *)
Lemma nl_ok_no_trailing ks s : (forall s0, s <> s0 ++ nl) -> nl_ok Ld ks s = true.
Proof.
  intros Hs. unfold nl_ok. destruct (first_hit Ld ks s) as [t|] eqn:E; [|reflexivity].
  destruct (first_hit_inv ks s t E) as (Hin & _ & Hh).
  rewrite (rc_hit_no_nl t s Hin Hs) in Hh. destruct (accepts t s); [reflexivity | discriminate].
Qed.

Lemma nl_ok_nonl ks s : mem_c "010" s = false -> nl_ok Ld ks s = true.
Proof.
  intros H. apply nl_ok_no_trailing. intros s0 E. rewrite E, mem_nl_nl in H. discriminate.
Qed.

End Loaded.
