#!/venv/bin/python
"""Runs operations on the real implementation (spil in /repo's working tree) and prints one JSON
tree per request line.  Started as a fresh process: PYTHONPATH=<confdir>:<repo>, HOME=<empty dir>.
   impl_worker.py <requests.jsonl> <responses.jsonl>
Each request: {"op": str, "args": tree}.  The result trees mirror theories/Driver/Dispatch.v."""
import sys, os, io, json, contextlib

with contextlib.redirect_stdout(io.StringIO()):
    import spil
    from spil import Sid, conf, SpilException
    from spil.sid.core import query_helper, sid_resolver
    from spil.sid.pathops import fs_resolver
    from spil.conf.util import extrapolate_templates, pattern_replacing
    from resolva import Resolver
    from resolva.utils import ResolvaException
    import resolva.template as rtemplate
    from pathlib import Path
    from collections import OrderedDict

if os.environ.get('VERIF_MAX_SIZE'):
    import spil.util.caching as _caching
    _caching._max_size = int(os.environ['VERIF_MAX_SIZE'])

EXN = {'SpilException': 'SpilException', 'ResolvaException': 'ResolvaException', 'ValueError': 'ValueError',
       'KeyError': 'KeyError', 'TypeError': 'TypeError', 'error': 'ReError', 'JSONDecodeError': 'JSONDecodeError',
       'NotImplementedError': 'NotImplementedError'}

def exn_name(e):
    n = type(e).__name__
    if isinstance(e, OSError):
        return 'OSError'
    return EXN.get(n, 'Other:' + n)

def pairs(d):
    return [[str(k), v if isinstance(v, str) else repr(v)] for k, v in d.items()]

def t_sid(x):
    return [x.string, x.type, pairs(x._fields)]

def t_bool(b):
    return '1' if b else '0'

def t_opt(v):
    return [] if v is None else [v]

def out(f):
    try:
        return ['ok', f()]
    except Exception as e:
        return ['raise', exn_name(e)]

def mk_src(t):
    k = t[0]
    if k == 's':
        return Sid(t[1])
    if k == 'q':
        return Sid(query=t[1])
    if k == 'f':
        return Sid(fields=OrderedDict((a, b) for a, b in t[1]))
    if k == 'p':
        return Sid(path=t[1], config=(t[2] or None))
    if k == 'x':
        # a Sid object given by value: rebuild through its uri (only used with model-produced sids)
        s, ty, d = t[1]
        x = Sid(from_factory=True)
        x._init(string=s, type=ty, fields=OrderedDict((a, b) for a, b in d))
        return Sid(x)
    raise ValueError(k)

def with_sid(t, f):
    try:
        x = mk_src(t)
    except Exception as e:
        return ['raise-src', exn_name(e)]
    return f(x)

def resolver_dump(r):
    return [[label, r.get_regex_for(label).pattern, r.get_format_for(label), sorted(r.get_keys_for(label))]
            for label in r.get_labels()]

def resolver_named(name):
    if name != 'sid':
        from spil.sid.pathops.pathconfig import get_path_config
        get_path_config(name)
    return Resolver.get(name)

def typed_dict(t, d):
    return [t, pairs(d)]

_PERSISTENT = {}
_WRITERS = {}

def fs_roots():
    import posixpath
    from spil.sid.pathops.pathconfig import get_path_config
    roots = []
    for name in conf.path_configs.keys():
        pc = get_path_config(name)
        firsts = [t.split('(?P<')[0].split('{')[0] for t in pc.path_templates.values()]
        r = posixpath.commonprefix(firsts)
        roots.append(r[:r.rfind('/')] if not r.endswith('/') else r.rstrip('/'))
    return roots

def enc_fn(name):
    if name == 'uri':
        return lambda x: x.uri
    if name == 'none':
        return lambda x: None
    if name == 'last':
        return lambda x: (list(x.fields.values())[-1] if x.fields else None)
    return str

def t_record(d):
    return [[str(k), ([] if v is None else [v if isinstance(v, str) else repr(v)])] for k, v in d.items()]

def do_fs(op, a):
    import shutil, json as _json
    from spil import WriteToPaths, GetFromPaths, GetFromAll, FindInPaths, FindInAll
    if op == 'fs_reset':
        _WRITERS.clear()
        for r in fs_roots():
            if '/work/' not in r and '/tmp/' not in r:
                raise RuntimeError('refusing to reset ' + r)
            shutil.rmtree(r, ignore_errors=True)
        return 'ok'
    if op == 'fs_put':
        p = Path(a[0])
        if not any(str(p).startswith(r) for r in fs_roots()):
            raise RuntimeError('outside roots ' + str(p))
        kind = a[1]
        if kind == 'dir':
            p.mkdir(parents=True, exist_ok=True)
        else:
            p.parent.mkdir(parents=True, exist_ok=True)
            if kind == 'empty':
                p.write_text('')
            elif kind == 'corrupt':
                p.write_text('{"a": "b", ')
            elif kind == 'json':
                p.write_text(_json.dumps(OrderedDict((k, v) for k, v in a[2]), indent=4))
        return 'ok'
    if op == 'fs_dump':
        res = []
        for r in fs_roots():
            for d, dirs, files in os.walk(r):
                res.append([d, 'dir'])
                for f in files:
                    res.append([os.path.join(d, f), 'file'])
        return sorted(res)
    if op == 'sidecar':
        return str(conf.get_data_json_path(Path(a[0])))
    def writer(cfg, tag):
        # a tagged writer lives as long as the tree (until the next fs_reset): several writer objects take turns on the same entities
        if not tag:
            return WriteToPaths(cfg or None)
        if (tag, cfg) not in _WRITERS:
            _WRITERS[(tag, cfg)] = WriteToPaths(cfg or None)
        return _WRITERS[(tag, cfg)]
    if op == 'w_create':
        return out(lambda: t_bool(writer(a[0], a[3] if len(a) > 3 else '').create(a[1], data=OrderedDict((k, v) for k, v in a[2]) or None)))
    if op == 'w_update':
        return out(lambda: t_bool(writer(a[0], a[3] if len(a) > 3 else '').update(a[1], data=OrderedDict((k, v) for k, v in a[2]))))
    if op == 'w_set':
        return out(lambda: t_bool(writer(a[0], a[4] if len(a) > 4 else '').set(a[1], a[2], a[3])))
    if op == 'sidecar_of':
        x = Sid(a[1])
        return str(conf.get_data_json_path(x.path(a[0] or None)))
    if op == 'corrupt_sidecar':
        x = Sid(a[1])
        dp = conf.get_data_json_path(x.path(a[0] or None))
        if a[2].startswith('trunc:'):
            # the existing sidecar cut after n bytes (always a strict prefix of what was written)
            raw = dp.read_bytes()
            n = min(int(a[2].split(':')[1]), max(len(raw) - 1, 0))
            dp.write_bytes(raw[:n])
            return 'ok'
        if dp.exists():
            if dp.is_dir():
                shutil.rmtree(dp)
            else:
                dp.unlink()
        if a[2] == 'corrupt':
            dp.write_text('{"a": "1", ')
        elif a[2] == 'empty':
            dp.write_text('')
        elif a[2] == 'dir':
            dp.mkdir()
        return 'ok'
    if op == 'crash_write':
        # WriteToPaths.update with a simulated process death at a chosen point of its file-system effects
        import pathlib, os as _os
        cfg, sid, data, mode, n = a[0], a[1], OrderedDict((k, v) for k, v in a[2]), a[3], int(a[4])
        class Crash(BaseException):
            pass
        orig_wt, orig_rep = pathlib.Path.write_text, _os.replace
        state = {'writes': 0}
        def wt(self, text, *aa, **kw):
            state['writes'] += 1
            if mode == 'before':
                raise Crash()
            if mode == 'partial':
                with open(self, 'w') as f:
                    f.write(text[:min(n, max(len(text) - 1, 0))])
                raise Crash()
            return orig_wt(self, text, *aa, **kw)
        def rep(src, dst, *aa, **kw):
            if mode == 'before_replace':
                raise Crash()
            r = orig_rep(src, dst, *aa, **kw)
            if mode == 'after_replace':
                raise Crash()
            return r
        if mode == 'syscall':
            # independent of HOW the writer is coded: the process dies right before its n-th call that changes the file system
            # below the project roots (open for writing, os.open with write flags, replace / rename / unlink / remove / rmdir)
            import io as _io, builtins as _bi
            roots_ = tuple(fs_roots())
            names = ['replace', 'rename', 'unlink', 'remove', 'rmdir']
            saved = {nm: getattr(_os, nm) for nm in names}
            saved_open, saved_ioopen, saved_osopen = _bi.open, _io.open, _os.open
            def under(p_):
                try:
                    return str(_os.fspath(p_)).startswith(roots_)
                except TypeError:
                    return False
            def tick(p_):
                if under(p_):
                    if state['writes'] == n:
                        raise Crash()
                    state['writes'] += 1
            def mk(nm):
                def f(p_, *aa, **kw):
                    tick(p_)
                    return saved[nm](p_, *aa, **kw)
                return f
            def my_open(file, mode_='r', *aa, **kw):
                if any(ch in str(mode_) for ch in 'wax+'):
                    tick(file)
                return saved_ioopen(file, mode_, *aa, **kw)
            def my_osopen(path, flags, *aa, **kw):
                if flags & (_os.O_WRONLY | _os.O_RDWR | _os.O_CREAT | _os.O_TRUNC | _os.O_APPEND):
                    tick(path)
                return saved_osopen(path, flags, *aa, **kw)
            for nm in names:
                setattr(_os, nm, mk(nm))
            _bi.open = my_open; _io.open = my_open; _os.open = my_osopen
            try:
                try:
                    WriteToPaths(cfg or None).update(sid, data=data)
                    res = ['completed']
                except Crash:
                    res = ['crashed']
                except Exception as e:
                    res = ['raise', exn_name(e)]
            finally:
                for nm in names:
                    setattr(_os, nm, saved[nm])
                _bi.open = saved_open; _io.open = saved_ioopen; _os.open = saved_osopen
            return res
        pathlib.Path.write_text = wt
        _os.replace = rep
        try:
            try:
                WriteToPaths(cfg or None).update(sid, data=data)
                res = ['completed']
            except Crash:
                res = ['crashed']
            except Exception as e:
                res = ['raise', exn_name(e)]
        finally:
            pathlib.Path.write_text = orig_wt
            _os.replace = orig_rep
        return res
    if op == 'get_data_paths':
        # the same Getter instance for the whole process (a new instance per call is op get_data_paths_new)
        g = _PERSISTENT.setdefault(('getter', a[0]), GetFromPaths(a[0] or None))
        return with_sid(a[1], lambda x: out(lambda: t_record(g.get_data(x, attributes=list(a[2]) or None, sid_encode=enc_fn(a[3])))))
    if op == 'get_data_paths_new':
        return with_sid(a[1], lambda x: out(lambda: t_record(GetFromPaths(a[0] or None).get_data(x, attributes=list(a[2]) or None, sid_encode=enc_fn(a[3])))))
    if op == 'publish_chain':
        def f():
            w = WriteToPaths(a[0] or None)
            x = Sid(a[1])
            res = []
            for _ in range(int(a[2])):
                n = x.get_new('version')
                res.append(str(n))
                if not n:
                    break
                w.create(n)
            return res
        return out(f)
    if op == 'get_and_find':
        def f():
            g = GetFromPaths(a[0] or None)
            enc = enc_fn(a[3])
            attrs = list(a[2]) or None
            found = list(g.finder.find(a[1], as_sid=True))
            records = list(g.get(a[1], attributes=attrs, sid_encode=enc))
            singles = [g.get_data(x, attributes=attrs, sid_encode=enc) for x in found]
            one = g.get_one(a[1], attributes=attrs, sid_encode=enc)
            return [[[x.string, x.uri] for x in found], [t_record(r) for r in records], [t_record(r) for r in singles], t_record(one or {})]
        return out(f)
    if op == 'get_paths':
        # (the records are collected first, as a caller keeping the results does, then serialised)
        return out(lambda: [t_record(r) for r in list(GetFromPaths(a[0] or None).get(a[1], attributes=list(a[2]) or None, sid_encode=enc_fn(a[3])))])
    if op == 'get_all':
        return out(lambda: [t_record(r) for r in list(GetFromAll().get(a[0], attributes=list(a[1]) or None, sid_encode=enc_fn(a[2])))])
    if op == 'get_data_all':
        return out(lambda: t_record(GetFromAll().get_data(a[0], attributes=list(a[1]) or None, sid_encode=enc_fn(a[2]))))
    if op == 'find_paths':
        return out(lambda: sorted(FindInPaths(a[0] or None).find(Sid(a[1]) if len(a) > 2 and a[2] == 'sidarg' else a[1], as_sid=False)))
    if op == 'find_paths_raw':
        return out(lambda: list(FindInPaths(a[0] or None).find(a[1], as_sid=False)))
    if op == 'find_all':
        return out(lambda: sorted(FindInAll().find(Sid(a[0]) if len(a) > 1 and a[1] == 'sidarg' else a[0], as_sid=False)))
    if op == 'finder_exists':
        # exists() of the Finder object itself (not Sid.exists): a[0] = 'paths' | 'all'
        return out(lambda: t_bool((FindInPaths(a[1] or None) if a[0] == 'paths' else FindInAll()).exists(a[2])))
    if op == 'find_all_one':
        return out(lambda: t_opt(FindInAll().find_one(a[0], as_sid=False)))
    if op == 'find_all_raw':
        return out(lambda: list(FindInAll().find(a[0], as_sid=False)))
    if op == 'sid_exists':
        return with_sid(a[0], lambda x: out(lambda: t_bool(x.exists())))
    if op == 'children':
        return with_sid(a[0], lambda x: out(lambda: sorted(str(c) for c in x.children())))
    if op == 'siblings':
        return with_sid(a[0], lambda x: out(lambda: sorted(str(c) for c in x.siblings())))
    if op == 'get_last':
        return with_sid(a[0], lambda x: out(lambda: t_sid(x.get_last(a[1] or None))))
    if op == 'get_next':
        return with_sid(a[0], lambda x: out(lambda: t_sid(x.get_next(a[1]))))
    if op == 'get_new':
        return with_sid(a[0], lambda x: out(lambda: t_sid(x.get_new(a[1]))))
    if op == 'get_attr':
        def f(x):
            v = x.get_attr(a[1])
            return [] if v is None else [v if isinstance(v, str) else repr(v)]
        return with_sid(a[0], lambda x: out(lambda: f(x)))
    return None

_PERSIST = {}
_DANGLING = []

def do(op, a):
    if op == 'seq':
        return [do(o, x) for o, x in a]
    r = do_fs(op, a)
    if r is not None:
        return r
    if op == 'sid':
        return out(lambda: t_sid(mk_src(a[0])))
    if op == 'obs':
        def f(x):
            return [t_sid(x), t_bool(bool(x)), str(len(x)), x.uri, t_opt(x.basetype), t_opt(x.keytype),
                    t_bool(x.is_search()), t_bool(x.is_leaf()), x.as_query()]
        return with_sid(a[0], f)
    if op == 'copy':
        return with_sid(a[0], lambda x: out(lambda: t_sid(x.copy())))
    if op == 'eval_repr':
        return with_sid(a[0], lambda x: out(lambda: t_sid(eval(repr(x)))))
    if op == 'get_as':
        return with_sid(a[0], lambda x: out(lambda: t_sid(x.get_as(a[1]))))
    if op == 'parent':
        return with_sid(a[0], lambda x: out(lambda: t_sid(x.parent)))
    if op == 'div':
        return with_sid(a[0], lambda x: out(lambda: t_sid(x / a[1])))
    if op == 'get_with_kw':
        kw = OrderedDict((k, (v[0] if v else None)) for k, v in a[1])
        return with_sid(a[0], lambda x: out(lambda: t_sid(x.get_with(**kw))))
    if op == 'get_with_q':
        return with_sid(a[0], lambda x: out(lambda: t_sid(x.get_with(query=a[1]))))
    if op == 'path':
        def f(x):
            def g():
                sp = a[2] if len(a) > 2 else 'pos'
                if sp == 'kw':
                    p = x.path(config=(a[1] or None))
                elif sp == 'default' and not a[1]:
                    p = x.path()
                else:
                    p = x.path(a[1] or None)
                return [] if p is None else [str(p)]
            return out(g)
        return with_sid(a[0], f)
    if op == 'pathroundtrip':
        def f(x):
            def g():
                p = x.path(a[1] or None)
                if p is None:
                    return []
                return [t_sid(Sid(path=str(p), config=(a[2] or None)))]
            return out(g)
        return with_sid(a[0], f)
    if op == 'path_owner':
        def f():
            x = Sid(path=a[0], config=(a[1] or None))
            p = x.path(a[1] or None)
            return [t_sid(x), [] if p is None else [str(p)]]
        return out(f)
    if op == 'via_path':
        def f(x):
            def g():
                p = x.path(a[1] or None)
                if p is None:
                    return []
                y = Sid(path=str(p), config=(a[1] or None))
                if a[2] == 'get_as':
                    return t_sid(y.get_as(a[3]))
                if a[2] == 'parent':
                    return t_sid(y.parent)
                return t_sid(y)
            return out(g)
        return with_sid(a[0], f)
    if op == 'eq':
        return with_sid(a[0], lambda x: with_sid(a[1], lambda y: t_bool(x == y)))
    if op == 'to_dict':
        return out(lambda: pairs(query_helper.to_dict(a[0])))
    if op == 'to_string':
        return query_helper.to_string(OrderedDict((k, v) for k, v in a[0]))
    if op == 'update':
        return out(lambda: pairs(query_helper.update(OrderedDict((k, v) for k, v in a[0]), a[1])))
    if op == 'resolve_first':
        def f():
            t, d = resolver_named(a[0]).resolve_first(a[1])
            return [] if t is None else [typed_dict(t, d)]
        return out(f)
    if op == 'resolve_all':
        return out(lambda: [typed_dict(t, d) for t, d in resolver_named(a[0]).resolve_all(a[1]).items()])
    if op == 'resolve_one':
        return out(lambda: pairs(resolver_named(a[0]).resolve_one(a[1], a[2])))
    if op == 'format_all':
        return out(lambda: pairs(resolver_named(a[0]).format_all(OrderedDict((k, v) for k, v in a[1]))))
    if op == 'path_to_dict':
        def f():
            t, d = fs_resolver.path_to_dict(a[0], config=(a[1] or None))
            return [] if t is None else [typed_dict(t, d)]
        return out(f)
    if op == 'dict_to_path':
        return out(lambda: str(fs_resolver.dict_to_path(OrderedDict((k, v) for k, v in a[0]), a[1] or None, config=(a[2] or None))))
    if op == 'norm_path':
        return str(Path(a[0]))
    if op == 'extrapolate':
        import spil.conf.util as cu
        old = cu.sidtype_keytype_sep
        cu.sidtype_keytype_sep = a[2]
        try:
            return pairs(extrapolate_templates(OrderedDict((k, v) for k, v in a[0]), list(a[1])))
        finally:
            cu.sidtype_keytype_sep = old
    if op == 'pattern_replacing':
        t = OrderedDict((k, v) for k, v in a[0])
        kp = OrderedDict((k, OrderedDict((f, r) for f, r in v)) for k, v in a[1])
        pattern_replacing(t, kp)
        return pairs(t)
    if op == 'tpl_search':
        try:
            rx = rtemplate.construct_regular_expression(a[0])
        except Exception as e:
            return ['compile-error', exn_name(e)]
        m = rx.search(a[1])
        return ['ok', [] if m is None else [pairs(m.groupdict())]]
    if op == 'unfold':
        from spil.sid.read.tools import unfold_search
        if len(a) > 3 and a[3] == 'pos':
            return out(lambda: [t_sid(x) for x in unfold_search(a[0], a[1] == '1', a[2] == '1')])
        if len(a) > 3 and a[3] == 'default' and a[1] == '0' and a[2] == '0':
            return out(lambda: [t_sid(x) for x in unfold_search(a[0])])
        if len(a) > 3 and a[3] == 'sidarg':
            return out(lambda: [t_sid(x) for x in unfold_search(Sid(a[0]), do_uniquify=(a[1] == '1'), do_extrapolate=(a[2] == '1'))])
        return out(lambda: [t_sid(x) for x in unfold_search(a[0], do_uniquify=(a[1] == '1'), do_extrapolate=(a[2] == '1'))])
    if op == 'extensions':
        from spil.sid.read.unfolders.extensions import extensions
        return out(lambda: extensions(a[0]))
    if op == 'or_op':
        from spil.sid.read.unfolders.or_op import or_op
        return out(lambda: sorted(or_op(a[0])))
    if op == 'expand':
        from spil.sid.core.utils import expand
        return out(lambda: [t_sid(x) for x in sorted(expand(a[0]), key=lambda x: (x.string, x.type))])
    if op in ('find_list', 'find_list_sids', 'find_one', 'exists'):
        from spil import FindInList
        fl = FindInList(list(a[0]), do_pre_sort=(len(a) > 2 and a[2] == 'pre_sort'))
        if op == 'find_list':
            return out(lambda: list(fl.find(Sid(a[1]) if len(a) > 2 and a[2] == 'sidarg' else a[1], as_sid=False)))
        if op == 'find_list_sids':
            return out(lambda: [t_sid(x) for x in fl.find(a[1], as_sid=True)])
        if op == 'find_one':
            return out(lambda: t_opt(fl.find_one(a[1], as_sid=False)))
        return out(lambda: t_bool(fl.exists(a[1])))
    if op == 'match':
        return with_sid(a[0], lambda x: out(lambda: t_bool(x.match(a[1]))))
    if op == 'glob_match':
        import re as _re
        from spil.sid.read.finders.find_list import glob2re
        return out(lambda: t_bool(_re.match(glob2re(a[0]), a[1]) is not None))
    if op == 'pfind':
        # one long-lived Finder instance per kind (as an application holds it); a[2] = 'all' or the number of results to take
        # before the generator is left unconsumed
        from spil import FindInPaths, FindInAll
        kind = (a[0], a[1])
        if kind not in _PERSIST:
            _PERSIST[kind] = FindInAll() if a[0] == 'all' else FindInPaths(a[1] or None)
        def f():
            g = _PERSIST[kind].find(a[2], as_sid=False)
            if a[3] == 'all':
                return sorted(g)
            res = []
            for _ in range(int(a[3])):
                try:
                    res.append(next(g))
                except StopIteration:
                    break
            _DANGLING.append(g)
            return res
        return out(f)
    if op == 'consume_partial':
        from spil import FindInList
        def f():
            g = FindInList(list(a[0])).find(a[1], as_sid=False)
            res = []
            for _ in range(int(a[2])):
                try:
                    res.append(next(g))
                except StopIteration:
                    break
            return res
        return out(f)
    if op == 'fields_mutate':
        def f(x):
            before = [t_sid(x), x.uri, str(hash(x) == hash(Sid(x.uri)))]
            d = x.fields
            d[a[1]] = a[2]
            for k in list(d)[:1]:
                d.pop(k)
            d2 = x.fields
            d2.clear()
            y = Sid(a[0][1]) if a[0][0] == 's' else x
            return [t_sid(x), t_sid(y), t_bool(before == [t_sid(x), x.uri, str(hash(x) == hash(Sid(x.uri)))]), t_bool(x.fields is not x.fields)]
        return with_sid(a[0], lambda x: out(lambda: f(x)))
    if op == 'sid_multi':
        # several constructor arguments at once: the first has priority, the others are ignored
        def f():
            before = t_sid(Sid(a[0])) if a[0] else None
            kw = {}
            if a[0]:
                kw['sid'] = a[0]
            if a[1]:
                kw['query'] = a[1]
            if a[2]:
                kw['fields'] = OrderedDict((k, v) for k, v in a[2])
            x = Sid(**kw)
            after = t_sid(Sid(a[0])) if a[0] else None
            return [t_sid(x), t_bool(before == after)]
        return out(f)
    if op == 'fields_arg_mutate':
        def f():
            d = OrderedDict((k, v) for k, v in a[0])
            x = Sid(fields=d)
            before = [t_sid(x), x.uri, x.as_query()]
            d[a[1]] = a[2]
            for k in list(d)[:1]:
                d.pop(k)
            return [before[0], t_bool(before == [t_sid(x), x.uri, x.as_query()])]
        return out(f)
    if op == 'eq_hash':
        def f(x, y):
            return [t_bool(x == y), t_bool(hash(x) == hash(y)), t_bool(len({x, y}) == 1), t_bool(x == y.string), t_bool(len({x: 1, y: 2}) == 1), x.uri, y.uri]
        return with_sid(a[0], lambda x: with_sid(a[1], lambda y: out(lambda: f(x, y))))
    if op == 'sorted':
        def f():
            sids = [mk_src(t) for t in a[0]]
            return [x.string for x in sorted(sids)]
        return out(f)
    if op == 'dump':
        from spil.sid.pathops.pathconfig import get_path_config
        for name in conf.path_configs.keys():
            get_path_config(name)
        return [pairs(conf.sid_templates), resolver_dump(Resolver.get('sid')),
                [[name, resolver_dump(Resolver.get(name))] for name in conf.path_configs.keys()]]
    return ['unknown-op', op]

def main():
    reqs, resps = sys.argv[1], sys.argv[2]
    with open(reqs) as f, open(resps, 'w') as g:
        for line in f:
            r = json.loads(line)
            try:
                res = do(r['op'], r['args'])
            except Exception as e:  # harness-level failure: never silently equal to a model answer
                res = ['worker-error', type(e).__name__, str(e)[:200]]
            g.write(json.dumps(res) + '\n')

if __name__ == '__main__':
    main()
