(** C10: the algebra of the search syntax, proved from the C07 denotation. *)
From Coq Require Import List String Ascii Bool Arith Lia Permutation.
From Spil Require Import Base.Str Base.Dict Base.Outcome Base.StrProofs Base.SplitProofs
  Regex.Re Regex.MatchProofs Resolva.Template Resolva.Resolver Conf.ConfUtil Conf.Conf Conf.WF
  Sid.Query Sid.Sid Sid.TypingSpec Sid.TypingProofs Sid.SidLemmas Sid.SidProofs Sid.QueryStringProofs Sid.QueryProofs
  Search.Unfold Search.FindList Search.SortLemmas Search.UnfoldProofs Search.GlobProofs Search.FindListProofs
  Search.UnfoldSpec Search.DenoteLemmas Search.DenoteQuery Search.DenoteTable Search.DenoteProofs
  Search.AlgebraDefs.
Import ListNotations.
Local Open Scope string_scope.

(** * 0. [do_find] without ">" is [star_search] *)

Lemma mem_gt_count s : Nat.ltb 0 (count ">" s) = mem_c ">" s.
Proof. change ">" with (str1 ">"). rewrite count_str1. apply count_c_pos. Qed.

Lemma do_find_star Ld qs items l :
  (forall q, In q qs -> mem_c ">" (s_string q) = false) ->
  do_find Ld qs items = Ok l ->
  NoDup l /\ forall e, In e l <-> In e items /\ exists q, In q qs /\ glob_rel (s_string q) e.
Proof.
  intros Hgt H. unfold do_find in H. destruct qs as [|q0 qs'].
  - inversion H; subst l. split; [constructor|]. intros e. split; [intros []|].
    intros (_ & q & [] & _).
  - assert (Hex : existsb (fun q => Nat.ltb 0 (count ">" (s_string q))) (q0 :: qs') = false).
    { destruct (existsb _ (q0 :: qs')) eqn:E; [|reflexivity]. exfalso.
      apply existsb_exists in E. destruct E as (q & Hq & Hc). rewrite mem_gt_count, (Hgt q Hq) in Hc. discriminate. }
    rewrite Hex in H. split.
    + apply (star_search_spec _ _ _ H).
    + apply (star_search_glob_spec _ _ _ H).
Qed.

Lemma Forall2_In_l {A B} (R : A -> B -> Prop) l1 l2 x : Forall2 R l1 l2 -> In x l1 ->
  exists y, In y l2 /\ R x y.
Proof.
  induction 1 as [|x' y l1 l2 Hxy H IH]; intros Hin; [destruct Hin|].
  destruct Hin as [<-|Hin]; [exists y; split; [left; reflexivity | exact Hxy]|].
  destruct (IH Hin) as (y0 & Hy0 & HR). exists y0. split; [right; exact Hy0 | exact HR].
Qed.

Section Algebra.
Variables (c : Conf) (Ld : Loaded).
Hypothesis Hload : load c = Some Ld.
Hypothesis Hwf : wf_loadedb Ld = true.
Hypothesis Hconf : unfold_conf_okb Ld = true.

Local Notation tpls := (r_tpls (l_sid Ld)).

Lemma search_ok_parts s : search_ok s = true ->
  mem_c "?" s = false /\ mem_c ":" s = false /\ mem_c "010" s = false.
Proof.
  unfold search_ok, plain_str. intros Hs.
  apply andb_true_iff in Hs. destruct Hs as (Hs & _).
  apply andb_true_iff in Hs. destruct Hs as (Hs & H3).
  apply andb_true_iff in Hs. destruct Hs as (H1 & H2).
  apply negb_true_iff in H1, H2, H3. auto.
Qed.

(** * 1. The unfolded branch *)

Lemma find_list_branch items s :
  find_list Ld items s =
  (do x <- Sid Ld s;
   if shortcut Ld s then do_find Ld [x] items
   else do qs <- unfold_search Ld s false false; do_find Ld qs items).
Proof.
  unfold find_list, shortcut. destruct (Sid Ld s) as [x|ex]; reflexivity.
Qed.

Lemma find_list_unfolded items s l : shortcut Ld s = false -> find_list Ld items s = Ok l ->
  exists qs, unfold_search Ld s false false = Ok qs /\ do_find Ld qs items = Ok l.
Proof.
  intros Hsc H. rewrite find_list_branch in H. destruct (Sid Ld s) as [x|ex]; [|discriminate].
  cbn [bind] in H. rewrite Hsc in H.
  destruct (unfold_search Ld s false false) as [qs|ex]; [|discriminate]. cbn [bind] in H.
  exists qs. auto.
Qed.

(* query-free search, unfolded branch *)
Theorem find_list_denotes_unfolded items s l :
  search_ok s = true -> shortcut Ld s = false -> nosort Ld s ->
  find_list Ld items s = Ok l ->
  NoDup l /\ forall e, In e l <-> In e items /\ matched Ld s e.
Proof.
  intros Hs Hsc Hns H. destruct (find_list_unfolded items s l Hsc H) as (qs & Hu & Hf).
  pose proof (unfold_noquery_spec c Ld Hload Hwf Hconf s qs Hs Hu) as Hspec.
  assert (Hgt : forall q, In q qs -> mem_c ">" (s_string q) = false).
  { intros q Hq. apply Hns. apply Hspec. exact Hq. }
  destruct (do_find_star Ld qs items l Hgt Hf) as (Hnd & Hin). split; [exact Hnd|].
  intros e. rewrite Hin. split; intros (Hi & q & Hq & Hg); (split; [exact Hi|]); exists q;
    (split; [apply Hspec; exact Hq | exact Hg]).
Qed.

(* a search with a trailing url-safe query, unfolded branch *)
Theorem find_list_query_denotes items body qd l :
  search_ok body = true -> query_okb qd = true -> ~ In "" (bodies Ld body) ->
  shortcut Ld (body ++ "?" ++ query_str qd) = false ->
  nosort_by (denotes_q Ld body qd) ->
  find_list Ld items (body ++ "?" ++ query_str qd) = Ok l ->
  NoDup l /\ forall e, In e l <-> In e items /\ matched_by (denotes_q Ld body qd) e.
Proof.
  intros Hs Hq Hne Hsc Hns H. destruct (find_list_unfolded items _ l Hsc H) as (qs & Hu & Hf).
  pose proof (unfold_query_spec c Ld Hload Hwf Hconf body qd qs Hs Hq Hne Hu) as Hspec.
  assert (Hgt : forall q, In q qs -> mem_c ">" (s_string q) = false).
  { intros q Hq'. apply Hns. apply Hspec. exact Hq'. }
  destruct (do_find_star Ld qs items l Hgt Hf) as (Hnd & Hin). split; [exact Hnd|].
  intros e. rewrite Hin. split; intros (Hi & q & Hq' & Hg); (split; [exact Hi|]); exists q;
    (split; [apply Hspec; exact Hq' | exact Hg]).
Qed.

(* a decidable reading of the [nosort_by] guard of a filtered search *)
Lemma nosortb_query body qd : search_ok body = true -> query_okb qd = true -> ~ In "" (bodies Ld body) ->
  nosortb Ld (body ++ "?" ++ query_str qd) = true -> nosort_by (denotes_q Ld body qd).
Proof.
  intros Hs Hq Hne H. unfold nosortb in H.
  destruct (unfold_search Ld (body ++ "?" ++ query_str qd) false false) as [qs|ex] eqn:Hu; [|discriminate].
  intros x Hx. apply (unfold_query_spec c Ld Hload Hwf Hconf body qd qs Hs Hq Hne Hu) in Hx.
  apply negb_true_iff in H. destruct (mem_c ">" (s_string x)) eqn:E; [|reflexivity].
  assert (Hex : existsb (fun q => mem_c ">" (s_string q)) qs = true) by (apply existsb_exists; exists x; auto).
  congruence.
Qed.

(** * 2. The shortcut branch *)

Lemma stable_at_spec b tp d : stable_at Ld b tp = true -> accepts tp b = Some d -> mem_c "?" b = false ->
  (exists x, narrowed Ld (mkSid b (tp_name tp) d) x) /\
  (forall x, narrowed Ld (mkSid b (tp_name tp) d) x -> s_string x = b).
Proof.
  intros Hst Ha Hq. unfold stable_at in Hst. rewrite Ha in Hst. unfold narrowed. cbn [s_type s_string s_fields].
  destruct (sempty (narrowing_query Ld (tp_name tp))) eqn:En.
  - split; [eexists; reflexivity|]. intros x ->. reflexivity.
  - cbn [orb] in Hst. unfold query_applied. cbn [s_type s_string s_fields].
    destruct (apply_query Ld b (narrowing_query Ld (tp_name tp)) (tp_name tp) d) as [[[s' t'] f']|ex] eqn:Eq; [|discriminate].
    apply String.eqb_eq in Hst. subst s'. split.
    + exists (mkSid b t' f'). cbn [s_type s_string s_fields]. split; [reflexivity | apply mem_count_q; exact Hq].
    + intros x (E & _). inversion E. reflexivity.
Qed.

Lemma narrow_stable_at s b tp : narrow_stableb Ld s = true -> In b (bodies Ld s) -> In tp tpls ->
  stable_at Ld b tp = true.
Proof.
  intros H Hb Htp. unfold narrow_stableb in H. rewrite forallb_forall in H. specialize (H b Hb).
  unfold stable_body in H. rewrite forallb_forall in H. apply (H tp Htp).
Qed.

(* what the shortcut test says of a plain string *)
Lemma shortcut_inv s : search_ok s = true -> shortcut Ld s = true ->
  exists t d, natural Ld s = Some (t, d) /\ Sid Ld s = Ok (mkSid s t d).
Proof.
  intros Hs Hsc. destruct (search_ok_parts s Hs) as (Hq & Hc & _).
  pose proof (Sid_plain c Ld Hload Hwf s Hq Hc) as E. unfold shortcut in Hsc. rewrite E in Hsc.
  destruct (natural Ld s) as [[t d]|].
  - exists t, d. split; [reflexivity | exact E].
  - cbn in Hsc. discriminate.
Qed.

Lemma natural_accepts s t d : natural Ld s = Some (t, d) ->
  exists tp, In tp tpls /\ tp_name tp = t /\ accepts tp s = Some d.
Proof.
  unfold natural. destruct (sempty s); [discriminate|]. intros H.
  destruct (natural_in_inv s _ _ _ H) as (pre & tp & post & E & Hn & Ha & _).
  exists tp. split; [rewrite E; apply in_or_app; right; left; reflexivity | auto].
Qed.

(* under [shortcut_okb] the entries matched by the denotation are those matched by s itself *)
Lemma shortcut_matched s e : search_ok s = true -> shortcut Ld s = true -> shortcut_okb Ld s = true ->
  mem_c ">" s = false /\ (matched Ld s e <-> glob_rel s e).
Proof.
  intros Hs Hsc Hok. unfold shortcut_okb in Hok. rewrite Hsc in Hok. cbn [negb orb] in Hok.
  apply andb_true_iff in Hok. destruct Hok as (Hok & Hst).
  apply andb_true_iff in Hok. destruct Hok as (Hok & Hgt).
  apply andb_true_iff in Hok. destruct Hok as (Hb & Hd).
  apply negb_true_iff in Hgt. apply Nat.eqb_eq in Hd. split; [exact Hgt|].
  destruct (search_ok_parts s Hs) as (Hq & Hc & _).
  assert (Hbs : bodies Ld s = [s]).
  { destruct (bodies Ld s) as [|b [|b2 l]]; try discriminate. apply String.eqb_eq in Hb. subst b. reflexivity. }
  assert (Hin : In s (bodies Ld s)) by (rewrite Hbs; left; reflexivity).
  split.
  - intros (x & (b & y & Hb' & Hy & Hn) & Hg). rewrite Hbs in Hb'. destruct Hb' as [<-|[]].
    unfold typed_of in Hy. rewrite Hd in Hy. cbn [Nat.eqb] in Hy. destruct Hy as (tp & d & Htp & Ha & ->).
    destruct (stable_at_spec s tp d (narrow_stable_at s s tp Hst Hin Htp) Ha Hq) as (_ & Hu).
    rewrite (Hu x Hn) in Hg. exact Hg.
  - intros Hg. destruct (shortcut_inv s Hs Hsc) as (t & d & Hn & _).
    destruct (natural_accepts s t d Hn) as (tp & Htp & _ & Ha).
    destruct (stable_at_spec s tp d (narrow_stable_at s s tp Hst Hin Htp) Ha Hq) as ((x & Hx) & Hu).
    exists x. split.
    + exists s, (mkSid s (tp_name tp) d). split; [exact Hin|]. split; [|exact Hx].
      unfold typed_of. rewrite Hd. cbn [Nat.eqb]. exists tp, d. auto.
    + rewrite (Hu x Hx). exact Hg.
Qed.

Theorem find_list_shortcut items s l :
  search_ok s = true -> shortcut Ld s = true -> mem_c ">" s = false ->
  find_list Ld items s = Ok l ->
  NoDup l /\ forall e, In e l <-> In e items /\ glob_rel s e.
Proof.
  intros Hs Hsc Hgt H. rewrite find_list_branch in H. destruct (shortcut_inv s Hs Hsc) as (t & d & _ & E).
  rewrite E in H. cbn [bind] in H. rewrite Hsc in H.
  destruct (do_find_star Ld [mkSid s t d] items l) as (Hnd & Hin); [|exact H|].
  - intros q [<-|[]]. exact Hgt.
  - split; [exact Hnd|]. intros e. rewrite Hin. split.
    + intros (Hi & q & [<-|[]] & Hg). auto.
    + intros (Hi & Hg). split; [exact Hi|]. exists (mkSid s t d). split; [left; reflexivity | exact Hg].
Qed.

(** * 3. The characterisation of [find_list] on query-free searches (rule 0) *)

Theorem find_list_denotes items s l :
  guarded Ld s -> find_list Ld items s = Ok l ->
  NoDup l /\ forall e, In e l <-> In e items /\ matched Ld s e.
Proof.
  intros (Hs & Hok & Hns) H. destruct (shortcut Ld s) eqn:Hsc.
  - destruct (find_list_shortcut items s l Hs Hsc) as (Hnd & Hin);
      [apply (shortcut_matched s "" Hs Hsc Hok) | exact H|].
    split; [exact Hnd|]. intros e. rewrite Hin.
    destruct (shortcut_matched s e Hs Hsc Hok) as (_ & Hm). rewrite Hm. reflexivity.
  - apply find_list_denotes_unfolded; assumption.
Qed.

(* the decidable reading of [nosort] *)
Lemma nosortb_nosort s : search_ok s = true -> nosortb Ld s = true -> nosort Ld s.
Proof.
  intros Hs H. unfold nosortb in H. destruct (unfold_search Ld s false false) as [qs|ex] eqn:Hu; [|discriminate].
  intros x Hx. apply (unfold_noquery_spec c Ld Hload Hwf Hconf s qs Hs Hu) in Hx.
  apply negb_true_iff in H. destruct (mem_c ">" (s_string x)) eqn:E; [|reflexivity].
  assert (Hex : existsb (fun q => mem_c ">" (s_string q)) qs = true) by (apply existsb_exists; exists x; auto).
  congruence.
Qed.

(** * 4. The bodies of a search given by its segments *)

Lemma alts_of_parts_mid : forall pre g post,
  alts_of_parts Ld (pre ++ g :: post) =
  (map comma_alts pre ++ seg_alts Ld post g :: alts_of_parts Ld post)%list.
Proof.
  induction pre as [|p pre IH]; intros g post.
  - cbn [app map]. destruct post as [|p2 post]; reflexivity.
  - cbn [app map]. rewrite <- IH. cbn [alts_of_parts].
    destruct (pre ++ g :: post)%list eqn:E; [destruct pre; discriminate | reflexivity].
Qed.

Lemma split_mk pre g post : Forall noslash pre -> noslash g -> Forall noslash post ->
  split_c "/" (mk pre g post) = (pre ++ g :: post)%list.
Proof.
  intros Hpre Hg Hpost. unfold mk. apply (split_c_join "/").
  - destruct pre; discriminate.
  - apply Forall_app. split; [exact Hpre | constructor; assumption].
Qed.

(* a body of pre/g/post: a choice in every segment *)

Lemma bodies_mk pre g post : Forall noslash pre -> noslash g -> Forall noslash post ->
  forall b, In b (bodies Ld (mk pre g post)) <->
    exists c1 x c2, b = join "/" (c1 ++ x :: c2) /\ choice_pre pre c1 /\ In x (seg_alts Ld post g) /\ choice_post Ld post c2.
Proof.
  intros Hpre Hg Hpost b. unfold bodies, alts_of_segments. rewrite (split_mk pre g post Hpre Hg Hpost).
  rewrite alts_of_parts_mid, in_map_iff. split.
  - intros (ch & <- & Hch). apply product_In in Hch. apply Forall2_app_inv_l_s in Hch.
    destruct Hch as (c1 & c2' & -> & H1 & H2). inversion H2 as [|? x ? c2 Hx H3]; subst.
    exists c1, x, c2. split; [reflexivity|]. split; [apply Forall2_map_l in H1; exact H1|]. auto.
  - intros (c1 & x & c2 & -> & H1 & Hx & H2). exists (c1 ++ x :: c2)%list. split; [reflexivity|].
    apply product_In. apply Forall2_app; [apply Forall2_map_l; exact H1|]. constructor; assumption.
Qed.

(* if the alternatives of segment g are the union of those of the segments gs, so are the bodies *)
Lemma bodies_seg_union pre g post gs :
  Forall noslash pre -> noslash g -> Forall noslash post -> Forall noslash gs ->
  (forall x, In x (seg_alts Ld post g) <-> exists a, In a gs /\ In x (seg_alts Ld post a)) ->
  forall b, In b (bodies Ld (mk pre g post)) <-> exists a, In a gs /\ In b (bodies Ld (mk pre a post)).
Proof.
  intros Hpre Hg Hpost Hgs Hseg b. rewrite (bodies_mk pre g post Hpre Hg Hpost). rewrite Forall_forall in Hgs. split.
  - intros (c1 & x & c2 & -> & H1 & Hx & H2). apply Hseg in Hx. destruct Hx as (a & Ha & Hx).
    exists a. split; [exact Ha|]. apply (bodies_mk pre a post Hpre (Hgs a Ha) Hpost). exists c1, x, c2. auto.
  - intros (a & Ha & Hb). apply (bodies_mk pre a post Hpre (Hgs a Ha) Hpost) in Hb.
    destruct Hb as (c1 & x & c2 & -> & H1 & Hx & H2). exists c1, x, c2. split; [reflexivity|]. split; [exact H1|].
    split; [|exact H2]. apply Hseg. exists a. auto.
Qed.

(** * 5. Union rules: from bodies to result sets *)

Lemma denotes_union s ss : (forall b, In b (bodies Ld s) <-> exists s', In s' ss /\ In b (bodies Ld s')) ->
  forall x, denotes Ld s x <-> exists s', In s' ss /\ denotes Ld s' x.
Proof.
  intros Hb x. split.
  - intros (b & y & Hin & Hy & Hn). apply Hb in Hin. destruct Hin as (s' & Hs' & Hin). exists s'. split; [exact Hs'|].
    exists b, y. auto.
  - intros (s' & Hs' & b & y & Hin & Hy & Hn). exists b, y. split; [apply Hb; exists s'; auto | auto].
Qed.

Lemma matched_union s ss : (forall b, In b (bodies Ld s) <-> exists s', In s' ss /\ In b (bodies Ld s')) ->
  forall e, matched Ld s e <-> exists s', In s' ss /\ matched Ld s' e.
Proof.
  intros Hb e. split.
  - intros (x & Hx & Hg). apply (denotes_union s ss Hb) in Hx. destruct Hx as (s' & Hs' & Hx).
    exists s'. split; [exact Hs'|]. exists x. auto.
  - intros (s' & Hs' & x & Hx & Hg). exists x. split; [|exact Hg]. apply (denotes_union s ss Hb). exists s'. auto.
Qed.

Lemma nosort_union s ss : (forall b, In b (bodies Ld s) <-> exists s', In s' ss /\ In b (bodies Ld s')) ->
  (nosort Ld s <-> forall s', In s' ss -> nosort Ld s').
Proof.
  intros Hb. split.
  - intros H s' Hs' x Hx. apply H. apply (denotes_union s ss Hb). exists s'. auto.
  - intros H x Hx. apply (denotes_union s ss Hb) in Hx. destruct Hx as (s' & Hs' & Hx). apply (H s' Hs' x Hx).
Qed.

(* the result set of s is the union of the result sets of the searches ss *)
Theorem union_rule items s ss l ls :
  (forall b, In b (bodies Ld s) <-> exists s', In s' ss /\ In b (bodies Ld s')) ->
  search_ok s = true -> shortcut_okb Ld s = true -> nosort Ld s ->
  (forall s', In s' ss -> search_ok s' = true /\ shortcut_okb Ld s' = true) ->
  find_list Ld items s = Ok l ->
  Forall2 (fun s' l' => find_list Ld items s' = Ok l') ss ls ->
  NoDup l /\ forall e, In e l <-> exists l', In l' ls /\ In e l'.
Proof.
  intros Hb Hs Hok Hns Hss H Hall.
  destruct (find_list_denotes items s l (conj Hs (conj Hok Hns)) H) as (Hnd & Hin). split; [exact Hnd|].
  intros e. rewrite Hin. clear Hin.
  assert (Hg : forall s', In s' ss -> guarded Ld s').
  { intros s' Hs'. destruct (Hss s' Hs') as (H1 & H2). split; [exact H1|]. split; [exact H2|].
    apply (proj1 (nosort_union s ss Hb) Hns s' Hs'). }
  split.
  - intros (Hi & Hm). apply (matched_union s ss Hb) in Hm. destruct Hm as (s' & Hs' & Hm).
    destruct (Forall2_In_l _ _ _ _ Hall Hs') as (l' & Hl' & Hf). exists l'. split; [exact Hl'|].
    apply (find_list_denotes items s' l' (Hg s' Hs') Hf). auto.
  - intros (l' & Hl' & He). destruct (Forall2_In_r _ _ _ _ Hall Hl') as (s' & Hs' & Hf).
    apply (find_list_denotes items s' l' (Hg s' Hs') Hf) in He. destruct He as (Hi & Hm).
    split; [exact Hi|]. apply (matched_union s ss Hb). exists s'. auto.
Qed.

(** * 6. Rule 1: a "," list is the union of its alternatives *)

Lemma alt_okb_parts a : alt_okb a = true -> strip a = a /\ mem_c "," a = false /\ mem_c "/" a = false.
Proof.
  unfold alt_okb. intros H. apply andb_true_iff in H. destruct H as (H & H3).
  apply andb_true_iff in H. destruct H as (H1 & H2). apply String.eqb_eq in H1.
  apply negb_true_iff in H2, H3. auto.
Qed.

Lemma comma_alts_single a : mem_c "," a = false -> comma_alts a = [a].
Proof. intros H. unfold comma_alts. rewrite H. reflexivity. Qed.

Lemma comma_alts_join alts : alts <> [] -> Forall (fun a => alt_okb a = true) alts ->
  comma_alts (join "," alts) = alts.
Proof.
  intros Hne Hall. destruct alts as [|a [|b t]]; [congruence| |].
  - inversion Hall; subst. cbn [join]. apply comma_alts_single. apply (alt_okb_parts a); assumption.
  - unfold comma_alts. change "," with (str1 ","). rewrite mem_c_join_two.
    rewrite (split_c_join ","); [|discriminate|].
    + apply map_id_in. intros x Hx. rewrite Forall_forall in Hall. apply (alt_okb_parts x (Hall x Hx)).
    + eapply Forall_impl; [|exact Hall]. intros x Hx. apply (alt_okb_parts x Hx).
Qed.

Lemma join_nonempty sep a t : a <> "" -> join sep (a :: t) <> "".
Proof. intros Ha. destruct t as [|b t]; [exact Ha|]. rewrite join_cons2. destruct a; [congruence | discriminate]. Qed.

Lemma last_alts_single a : a <> "" -> mem_c "," a = false ->
  forall x, In x (last_alts Ld a) <-> In x (alias_members Ld a).
Proof.
  intros Ha Hc x. unfold last_alts. apply sempty_false in Ha. rewrite Ha, nodup_s_In, (comma_alts_single a Hc).
  cbn [flat_map]. rewrite app_nil_r. reflexivity.
Qed.

Lemma comma_seg_alts post alts : alts <> [] -> Forall (fun a => alt_okb a = true) alts ->
  (post = [] -> Forall (fun a => a <> "") alts) ->
  forall x, In x (seg_alts Ld post (join "," alts)) <-> exists a, In a alts /\ In x (seg_alts Ld post a).
Proof.
  intros Hne Hall Hlast x. pose proof Hall as Hall'. rewrite Forall_forall in Hall'. destruct post as [|p post]; cbn [seg_alts].
  - specialize (Hlast eq_refl). rewrite Forall_forall in Hlast.
    assert (Hj : sempty (join "," alts) = false).
    { apply sempty_false. destruct alts as [|a t]; [congruence|]. apply join_nonempty. apply Hlast. left. reflexivity. }
    unfold last_alts at 1. rewrite Hj, nodup_s_In, (comma_alts_join alts Hne Hall), in_flat_map. split.
    + intros (a & Ha & Hx). exists a. split; [exact Ha|].
      apply (last_alts_single a (Hlast a Ha)); [apply (alt_okb_parts a (Hall' a Ha)) | exact Hx].
    + intros (a & Ha & Hx). exists a. split; [exact Ha|].
      apply (last_alts_single a (Hlast a Ha)); [apply (alt_okb_parts a (Hall' a Ha)) | exact Hx].
  - rewrite (comma_alts_join alts Hne Hall). split.
    + intros Hx. exists x. split; [exact Hx|]. rewrite comma_alts_single; [left; reflexivity|].
      apply (alt_okb_parts x (Hall' x Hx)).
    + intros (a & Ha & Hx). rewrite comma_alts_single in Hx by apply (alt_okb_parts a (Hall' a Ha)).
      destruct Hx as [<-|[]]. exact Ha.
Qed.

Lemma noslash_join_comma alts : Forall (fun a => alt_okb a = true) alts -> noslash (join "," alts).
Proof.
  intros Hall. unfold noslash. apply mem_c_join; [reflexivity|]. eapply Forall_impl; [|exact Hall].
  intros a Ha. apply (alt_okb_parts a Ha).
Qed.

Lemma comma_bodies pre alts post : alts <> [] -> Forall noslash pre -> Forall noslash post ->
  Forall (fun a => alt_okb a = true) alts -> (post = [] -> Forall (fun a => a <> "") alts) ->
  forall b, In b (bodies Ld (mk pre (join "," alts) post)) <->
            exists s', In s' (map (fun a => mk pre a post) alts) /\ In b (bodies Ld s').
Proof.
  intros Hne Hpre Hpost Hall Hlast b.
  rewrite (bodies_seg_union pre (join "," alts) post alts Hpre (noslash_join_comma alts Hall) Hpost).
  - split.
    + intros (a & Ha & Hb). exists (mk pre a post). split; [apply (in_map (fun a0 => mk pre a0 post)); exact Ha | exact Hb].
    + intros (s' & Hs' & Hb). apply in_map_iff in Hs'. destruct Hs' as (a & <- & Ha). exists a. auto.
  - eapply Forall_impl; [|exact Hall]. intros a Ha. apply (alt_okb_parts a Ha).
  - apply comma_seg_alts; assumption.
Qed.

(* Rule 1, n alternatives.  Guards: the alternatives are stripped, without "," and "/" (and non
   empty when they form the last segment); every search involved passes [search_ok] and
   [shortcut_okb]; no sorted search ([nosort]) *)
Theorem comma_rule items pre alts post l ls :
  alts <> [] -> Forall noslash pre -> Forall noslash post ->
  Forall (fun a => alt_okb a = true) alts -> (post = [] -> Forall (fun a => a <> "") alts) ->
  search_ok (mk pre (join "," alts) post) = true -> shortcut_okb Ld (mk pre (join "," alts) post) = true ->
  nosort Ld (mk pre (join "," alts) post) ->
  (forall a, In a alts -> search_ok (mk pre a post) = true /\ shortcut_okb Ld (mk pre a post) = true) ->
  find_list Ld items (mk pre (join "," alts) post) = Ok l ->
  Forall2 (fun a l' => find_list Ld items (mk pre a post) = Ok l') alts ls ->
  NoDup l /\ forall e, In e l <-> exists l', In l' ls /\ In e l'.
Proof.
  intros Hne Hpre Hpost Hall Hlast Hs Hok Hns Hss H Hfs.
  apply (union_rule items _ (map (fun a => mk pre a post) alts) l ls
           (comma_bodies pre alts post Hne Hpre Hpost Hall Hlast) Hs Hok Hns).
  - intros s' Hs'. apply in_map_iff in Hs'. destruct Hs' as (a & <- & Ha). apply (Hss a Ha).
  - exact H.
  - apply Forall2_map_l. exact Hfs.
Qed.

(* Rule 1, two alternatives *)
Corollary comma_rule2 items pre a b post l la lb :
  Forall noslash pre -> Forall noslash post -> alt_okb a = true -> alt_okb b = true ->
  (post = [] -> a <> "" /\ b <> "") ->
  search_ok (mk pre (a ++ "," ++ b) post) = true -> shortcut_okb Ld (mk pre (a ++ "," ++ b) post) = true ->
  nosort Ld (mk pre (a ++ "," ++ b) post) ->
  search_ok (mk pre a post) = true -> shortcut_okb Ld (mk pre a post) = true ->
  search_ok (mk pre b post) = true -> shortcut_okb Ld (mk pre b post) = true ->
  find_list Ld items (mk pre (a ++ "," ++ b) post) = Ok l ->
  find_list Ld items (mk pre a post) = Ok la -> find_list Ld items (mk pre b post) = Ok lb ->
  NoDup l /\ forall e, In e l <-> In e la \/ In e lb.
Proof.
  intros Hpre Hpost Ha Hb Hlast Hs Hok Hns Hsa Hoa Hsb Hob H Hfa Hfb.
  change (a ++ "," ++ b) with (join "," [a; b]) in *.
  destruct (comma_rule items pre [a; b] post l [la; lb]) as (Hnd & Hin); try assumption.
  - discriminate.
  - constructor; [exact Ha|]. constructor; [exact Hb | constructor].
  - intros E. destruct (Hlast E). constructor; [assumption|]. constructor; [assumption | constructor].
  - intros x [<-|[<-|[]]]; auto.
  - constructor; [exact Hfa|]. constructor; [exact Hfb | constructor].
  - split; [exact Hnd|]. intros e. rewrite Hin. split.
    + intros (l' & [<-|[<-|[]]] & He); auto.
    + intros [He|He]; [exists la | exists lb]; cbn; auto.
Qed.

(** * 7. Rule 2: an extension alias is the union of its members *)

Lemma member_nonempty m : member_ok m = true -> m <> "".
Proof.
  unfold member_ok. intros H. apply andb_true_iff in H. destruct H as (_ & H). unfold atomb in H.
  apply andb_true_iff in H. destruct H as (H & _). apply negb_true_iff in H. apply sempty_false. exact H.
Qed.

Lemma alias_seg_alts a ms : dget (c_extension_alias (l_conf Ld)) a = Some ms -> a <> "" -> mem_c "," a = false ->
  Forall (fun m => dmem (c_extension_alias (l_conf Ld)) m = false) ms ->
  forall x, In x (seg_alts Ld [] a) <-> exists m, In m ms /\ In x (seg_alts Ld [] m).
Proof.
  intros Ha Hne Hc Hms x. cbn [seg_alts]. rewrite (last_alts_single a Hne Hc). unfold alias_members at 1. rewrite Ha.
  destruct (alias_ok Ld Hconf a ms Ha) as (_ & Hok). rewrite Forall_forall in Hms.
  assert (Hm : forall m, In m ms -> forall z, In z (last_alts Ld m) <-> z = m).
  { intros m Hin z. pose proof (Hok m Hin) as Hmo. rewrite (last_alts_single m (member_nonempty m Hmo)).
    - unfold alias_members. specialize (Hms m Hin). unfold dmem in Hms.
      destruct (dget (c_extension_alias (l_conf Ld)) m); [discriminate|]. split; [intros [<-|[]]; reflexivity | intros ->; left; reflexivity].
    - apply (member_ok_parts m Hmo). }
  split.
  - intros Hx. exists x. split; [exact Hx|]. apply (Hm x Hx). reflexivity.
  - intros (m & Hin & Hx). apply (Hm m Hin) in Hx. subst x. exact Hin.
Qed.

Lemma alias_bodies pre a ms : Forall noslash pre -> noslash a ->
  dget (c_extension_alias (l_conf Ld)) a = Some ms -> a <> "" -> mem_c "," a = false ->
  Forall (fun m => dmem (c_extension_alias (l_conf Ld)) m = false) ms ->
  forall b, In b (bodies Ld (mk pre a [])) <->
            exists s', In s' (map (fun m => mk pre m []) ms) /\ In b (bodies Ld s').
Proof.
  intros Hpre Hsl Ha Hne Hc Hms b.
  rewrite (bodies_seg_union pre a [] ms Hpre Hsl (Forall_nil _)).
  - split.
    + intros (m & Hm & Hb). exists (mk pre m []). split; [apply (in_map (fun m0 => mk pre m0 [])); exact Hm | exact Hb].
    + intros (s' & Hs' & Hb). apply in_map_iff in Hs'. destruct Hs' as (m & <- & Hm). exists m. auto.
  - apply Forall_forall. intros m Hm. destruct (alias_ok Ld Hconf a ms Ha) as (_ & Hok).
    apply (member_ok_parts m (Hok m Hm)).
  - apply alias_seg_alts; assumption.
Qed.

(* Rule 2.  Guards: the alias name a is a non empty segment without ","; no member is itself an
   alias name (the implementation does not expand recursively); [search_ok], [shortcut_okb] for
   every search involved, [nosort] *)
Theorem alias_rule items pre a ms l ls :
  Forall noslash pre -> noslash a ->
  dget (c_extension_alias (l_conf Ld)) a = Some ms -> a <> "" -> mem_c "," a = false ->
  Forall (fun m => dmem (c_extension_alias (l_conf Ld)) m = false) ms ->
  search_ok (mk pre a []) = true -> shortcut_okb Ld (mk pre a []) = true -> nosort Ld (mk pre a []) ->
  (forall m, In m ms -> search_ok (mk pre m []) = true /\ shortcut_okb Ld (mk pre m []) = true) ->
  find_list Ld items (mk pre a []) = Ok l ->
  Forall2 (fun m l' => find_list Ld items (mk pre m []) = Ok l') ms ls ->
  NoDup l /\ forall e, In e l <-> exists l', In l' ls /\ In e l'.
Proof.
  intros Hpre Hsl Ha Hne Hc Hms Hs Hok Hns Hss H Hfs.
  apply (union_rule items _ (map (fun m => mk pre m []) ms) l ls
           (alias_bodies pre a ms Hpre Hsl Ha Hne Hc Hms) Hs Hok Hns).
  - intros s' Hs'. apply in_map_iff in Hs'. destruct Hs' as (m & <- & Hm). apply (Hss m Hm).
  - exact H.
  - apply Forall2_map_l. exact Hfs.
Qed.

(** * 8. Glob facts: a literal segment matches only itself, "*" matches any segment *)

Lemma glob_literal : forall v e, literalb v = true -> (glob_rel v e <-> e = v).
Proof.
  induction v as [|a v IH]; intros e Hl.
  - split; [intros H; inversion H; reflexivity | intros ->; constructor].
  - unfold literalb in Hl. cbn [mem_c] in Hl. apply andb_true_iff in Hl. destruct Hl as (H1 & H2).
    apply negb_true_iff in H1, H2. apply orb_false_iff in H1, H2. destruct H1 as (Ha1 & Hv1). destruct H2 as (Ha2 & Hv2).
    assert (Hlv : literalb v = true) by (unfold literalb; rewrite Hv1, Hv2; reflexivity).
    assert (Hs : a <> "*"%char) by (intros ->; discriminate).
    assert (Hq : a <> "?"%char) by (intros ->; discriminate).
    split.
    + intros H. inversion H; subst; try congruence. f_equal. apply (IH e0 Hlv). assumption.
    + intros ->. apply g_char; [exact Hs | exact Hq|]. apply (IH v Hlv). reflexivity.
Qed.

Lemma noslash_all_cls e : mem_c "/" e = false -> all_cls CNotSlash e.
Proof.
  induction e as [|a e IH]; intros H; [constructor|]. cbn [mem_c] in H. apply orb_false_iff in H. destruct H as (Ha & He).
  constructor; [|apply IH; exact He]. apply not_slash_iff. intros ->. discriminate.
Qed.

Lemma glob_star_seg e : mem_c "/" e = false -> glob_rel "*" e.
Proof.
  intros H. rewrite <- (app_nil_r_s e). apply star_glob; [apply noslash_all_cls; exact H | constructor].
Qed.

Lemma Forall2_mid_inv {A B} (R : A -> B -> Prop) l1 x l2 l : Forall2 R (l1 ++ x :: l2) l ->
  exists a y b, l = (a ++ y :: b)%list /\ Forall2 R l1 a /\ R x y /\ Forall2 R l2 b.
Proof.
  intros H. apply Forall2_app_inv_l_s in H. destruct H as (a & b' & -> & H1 & H2).
  inversion H2 as [|? y ? b Hy H3]; subst. exists a, y, b. auto.
Qed.

Lemma nth_error_mid {A} (a : list A) y b : nth_error (a ++ y :: b) (List.length a) = Some y.
Proof. induction a as [|x a IH]; [reflexivity | exact IH]. Qed.

Lemma nth_error_mid_inv {A} : forall (l : list A) n y, nth_error l n = Some y ->
  exists a b, l = (a ++ y :: b)%list /\ List.length a = n.
Proof.
  induction l as [|x l IH]; intros n y H; [destruct n; discriminate|]. destruct n as [|n].
  - inversion H; subst. exists [], l. auto.
  - destruct (IH n y H) as (a & b & -> & Hl). exists (x :: a), b. split; [reflexivity | cbn; rewrite Hl; reflexivity].
Qed.

(* the glob of  c1/v/c2  with v literal = the glob of  c1/*/c2  restricted to the entries whose
   segment at that position is v *)
Lemma glob_literal_seg c1 c2 v e : Forall noslash c1 -> Forall noslash c2 -> noslash v -> literalb v = true ->
  (glob_rel (join "/" (c1 ++ v :: c2)) e <->
   glob_rel (join "/" (c1 ++ "*" :: c2)) e /\ nth_error (split_c "/" e) (List.length c1) = Some v).
Proof.
  intros H1 H2 Hv Hl.
  assert (Hns : forall g, noslash g -> Forall (fun x => mem_c "/" x = false) (c1 ++ g :: c2)).
  { intros g Hg. apply Forall_app. split; [exact H1 | constructor; assumption]. }
  rewrite (glob_join_segments (c1 ++ v :: c2)) by (try apply (Hns v Hv); destruct c1; discriminate).
  rewrite (glob_join_segments (c1 ++ "*" :: c2)) by (try apply (Hns "*" eq_refl); destruct c1; discriminate).
  split.
  - intros H. apply Forall2_mid_inv in H. destruct H as (a & y & b & E & Ha & Hy & Hb).
    apply (glob_literal v y Hl) in Hy. subst y. rewrite E.
    rewrite (Forall2_length_s _ _ _ Ha). split; [|apply nth_error_mid].
    apply Forall2_app; [exact Ha|]. constructor; [|exact Hb]. apply glob_star_seg. exact Hv.
  - intros (H & Hn). apply Forall2_mid_inv in H. destruct H as (a & y & b & E & Ha & Hy & Hb).
    rewrite E in Hn |- *. rewrite (Forall2_length_s _ _ _ Ha), nth_error_mid in Hn. inversion Hn; subst y.
    apply Forall2_app; [exact Ha|]. constructor; [|exact Hb]. apply (glob_literal v v Hl). reflexivity.
Qed.

(** * 9. Searches without "**" whose narrowing keeps the string: matched = typable body + glob *)

Lemma typableb_spec b : typableb Ld b = true <-> typable Ld b.
Proof.
  unfold typableb, typable. rewrite existsb_exists. split.
  - intros (tp & Hin & H). destruct (accepts tp b) as [d|] eqn:E; [|discriminate]. exists tp, d. auto.
  - intros (tp & d & Hin & H). exists tp. rewrite H. auto.
Qed.

Lemma matched_plain s e : search_ok s = true -> contains "**" s = false -> narrow_stableb Ld s = true ->
  (matched Ld s e <-> exists b, In b (bodies Ld s) /\ typable Ld b /\ glob_rel b e).
Proof.
  intros Hs Hd Hst. split.
  - intros (x & (b & y & Hb & Hy & Hn) & Hg). exists b. split; [exact Hb|].
    unfold typed_of, dstar in Hy. rewrite (bodies_no_dstar Ld Hconf s b Hd Hb) in Hy. cbn [Nat.eqb] in Hy.
    destruct Hy as (tp & d & Htp & Ha & ->). split; [exists tp, d; auto|].
    destruct (bodies_plain Ld Hconf s b Hs Hb) as (Hq & _).
    destruct (stable_at_spec b tp d (narrow_stable_at s b tp Hst Hb Htp) Ha Hq) as (_ & Hu).
    rewrite (Hu x Hn) in Hg. exact Hg.
  - intros (b & Hb & (tp & d & Htp & Ha) & Hg).
    destruct (bodies_plain Ld Hconf s b Hs Hb) as (Hq & _).
    destruct (stable_at_spec b tp d (narrow_stable_at s b tp Hst Hb Htp) Ha Hq) as ((x & Hx) & Hu).
    exists x. split; [|rewrite (Hu x Hx); exact Hg].
    exists b, (mkSid b (tp_name tp) d). split; [exact Hb|]. split; [|exact Hx].
    unfold typed_of, dstar. rewrite (bodies_no_dstar Ld Hconf s b Hd Hb). cbn [Nat.eqb]. exists tp, d. auto.
Qed.

(** * 10. Rule 5: replacing a "*" by a literal value *)

Lemma seg_alts_self post g : mem_c "," g = false ->
  (post = [] -> g <> "" /\ dmem (c_extension_alias (l_conf Ld)) g = false) ->
  forall x, In x (seg_alts Ld post g) <-> x = g.
Proof.
  intros Hc Hlast x. destruct post as [|p post]; cbn [seg_alts].
  - destruct (Hlast eq_refl) as (Hne & Hal). rewrite (last_alts_single g Hne Hc). unfold alias_members.
    unfold dmem in Hal. destruct (dget (c_extension_alias (l_conf Ld)) g); [discriminate|].
    split; [intros [<-|[]]; reflexivity | intros ->; left; reflexivity].
  - rewrite (comma_alts_single g Hc). split; [intros [<-|[]]; reflexivity | intros ->; left; reflexivity].
Qed.

Lemma choice_pre_noslash pre c1 : Forall noslash pre -> choice_pre pre c1 -> Forall noslash c1.
Proof.
  intros Hpre H. induction H as [|p a pre c1 Ha _ IH]; [constructor|]. inversion Hpre; subst.
  constructor; [|apply IH; assumption]. apply (comma_alts_nomem "/" p a); assumption.
Qed.

Lemma last_alts_noslash g x : noslash g -> In x (last_alts Ld g) -> noslash x.
Proof.
  intros Hg Hx. destruct (last_alts_cases Ld g x Hx) as [->|[H|H]]; [reflexivity | |].
  - apply (comma_alts_nomem "/" g x); assumption.
  - apply (member_noslash Ld Hconf x H).
Qed.

Lemma choice_post_noslash : forall post c2, Forall noslash post -> choice_post Ld post c2 -> Forall noslash c2.
Proof.
  unfold choice_post. induction post as [|g post IH]; intros c2 Hpost H.
  - inversion H. constructor.
  - inversion Hpost as [|? ? Hg Hrest]; subst. destruct post as [|g2 post].
    + cbn [alts_of_parts] in H. inversion H as [|? x ? t Hx Ht]; subst. inversion Ht; subst.
      constructor; [|constructor]. apply (last_alts_noslash g x Hg Hx).
    + change (alts_of_parts Ld (g :: g2 :: post)) with (comma_alts g :: alts_of_parts Ld (g2 :: post)) in H.
      inversion H as [|? x ? t Hx Ht]; subst. constructor; [|apply (IH t Hrest Ht)].
      apply (comma_alts_nomem "/" g x); assumption.
Qed.

(* Rule 5.  s = pre/*/post, sv = pre/v/post.  Guards: v is a literal (no "*" "?" "," "/"; non
   empty and not an alias name when it is the last segment, where "*" must not be an alias name
   either); the bodies of s and their instances are typable together ([lit_ok]); for both
   searches: [search_ok], no "**", basetype narrowing keeps the search strings
   ([narrow_stableb]), [shortcut_okb], [nosort] *)
Theorem literal_rule items pre v post l lv :
  Forall noslash pre -> Forall noslash post -> noslash v -> literalb v = true -> mem_c "," v = false ->
  (post = [] -> v <> "" /\ dmem (c_extension_alias (l_conf Ld)) v = false) ->
  (post = [] -> dmem (c_extension_alias (l_conf Ld)) "*" = false) ->
  lit_ok Ld pre post v ->
  search_ok (mk pre "*" post) = true -> contains "**" (mk pre "*" post) = false ->
  narrow_stableb Ld (mk pre "*" post) = true -> shortcut_okb Ld (mk pre "*" post) = true -> nosort Ld (mk pre "*" post) ->
  search_ok (mk pre v post) = true -> contains "**" (mk pre v post) = false ->
  narrow_stableb Ld (mk pre v post) = true -> shortcut_okb Ld (mk pre v post) = true -> nosort Ld (mk pre v post) ->
  find_list Ld items (mk pre "*" post) = Ok l ->
  find_list Ld items (mk pre v post) = Ok lv ->
  NoDup lv /\
  forall e, In e lv <-> In e l /\ nth_error (split_c "/" e) (List.length pre) = Some v.
Proof.
  intros Hpre Hpost Hv Hl Hc Hlastv Hlasts Hlit Hs Hd Hst Hok Hns Hsv Hdv Hstv Hokv Hnsv H Hfv.
  destruct (find_list_denotes items _ l (conj Hs (conj Hok Hns)) H) as (_ & Hin).
  destruct (find_list_denotes items _ lv (conj Hsv (conj Hokv Hnsv)) Hfv) as (Hndv & Hinv).
  split; [exact Hndv|]. intros e. rewrite Hin, Hinv.
  rewrite (matched_plain _ e Hs Hd Hst), (matched_plain _ e Hsv Hdv Hstv).
  assert (Hstar : forall x, In x (seg_alts Ld post "*") <-> x = "*").
  { apply seg_alts_self; [reflexivity|]. intros E. split; [discriminate | apply (Hlasts E)]. }
  pose proof (seg_alts_self post v Hc Hlastv) as Hval.
  split.
  - intros (Hi & b & Hb & Ht & Hg). apply (bodies_mk pre v post Hpre Hv Hpost) in Hb.
    destruct Hb as (c1 & x & c2 & -> & H1 & Hx & H2). apply Hval in Hx. subst x.
    apply (glob_literal_seg c1 c2 v e (choice_pre_noslash pre c1 Hpre H1) (choice_post_noslash post c2 Hpost H2) Hv Hl) in Hg.
    destruct Hg as (Hg & Hn). rewrite <- (Forall2_length_s _ _ _ H1) in Hn. split; [|exact Hn]. split; [exact Hi|].
    exists (join "/" (c1 ++ "*" :: c2)). split; [|split; [apply (Hlit c1 c2 H1 H2); exact Ht | exact Hg]].
    apply (bodies_mk pre "*" post Hpre eq_refl Hpost). exists c1, "*", c2. split; [reflexivity|]. split; [exact H1|].
    split; [apply Hstar; reflexivity | exact H2].
  - intros ((Hi & b & Hb & Ht & Hg) & Hn). split; [exact Hi|]. apply (bodies_mk pre "*" post Hpre eq_refl Hpost) in Hb.
    destruct Hb as (c1 & x & c2 & -> & H1 & Hx & H2). apply Hstar in Hx. subst x.
    exists (join "/" (c1 ++ v :: c2)). split; [|split; [apply (Hlit c1 c2 H1 H2); exact Ht|]].
    + apply (bodies_mk pre v post Hpre Hv Hpost). exists c1, v, c2. split; [reflexivity|]. split; [exact H1|].
      split; [apply Hval; reflexivity | exact H2].
    + apply (glob_literal_seg c1 c2 v e (choice_pre_noslash pre c1 Hpre H1) (choice_post_noslash post c2 Hpost H2) Hv Hl).
      split; [exact Hg|]. rewrite <- (Forall2_length_s _ _ _ H1). exact Hn.
Qed.

Lemma lit_okb_ok pre post v : lit_okb Ld pre post v = true -> lit_ok Ld pre post v.
Proof.
  unfold lit_okb, lit_ok. intros H c1 c2 H1 H2. rewrite forallb_forall in H.
  assert (Hc1 : In c1 (product (map comma_alts pre))) by (apply product_In; apply Forall2_map_l; exact H1).
  specialize (H c1 Hc1). rewrite forallb_forall in H.
  assert (Hc2 : In c2 (product (alts_of_parts Ld post))) by (apply product_In; exact H2).
  specialize (H c2 Hc2). apply Bool.eqb_prop in H. rewrite <- !typableb_spec, H. reflexivity.
Qed.

(** * 11. Dictionaries built by [combine]: reading and setting one key *)

Lemma dget_combine_split : forall (keys segs : list string) k w, List.length keys = List.length segs ->
  dget (combine keys segs) k = Some w ->
  exists k1 k2 c1 c2, keys = (k1 ++ k :: k2)%list /\ segs = (c1 ++ w :: c2)%list /\
                      List.length k1 = List.length c1 /\ ~ In k k1.
Proof.
  induction keys as [|n keys IH]; intros segs k w Hlen H; [discriminate|].
  destruct segs as [|g segs]; [discriminate|]. cbn [combine dget] in H. destruct (String.eqb k n) eqn:E.
  - apply String.eqb_eq in E. subst n. inversion H; subst g. exists [], keys, [], segs. repeat split; auto.
  - apply String.eqb_neq in E. cbn [List.length] in Hlen. injection Hlen as Hlen.
    destruct (IH segs k w Hlen H) as (k1 & k2 & c1 & c2 & -> & -> & Hl & Hn).
    exists (n :: k1), k2, (g :: c1), c2. repeat split; [cbn; rewrite Hl; reflexivity|].
    intros [Hk|Hk]; [congruence | exact (Hn Hk)].
Qed.

Lemma dset_combine_mid : forall (k1 : list string) k k2 c1 (w : string) c2 v, List.length k1 = List.length c1 -> ~ In k k1 ->
  dset (combine (k1 ++ k :: k2) (c1 ++ w :: c2)) k v = combine (k1 ++ k :: k2) (c1 ++ v :: c2).
Proof.
  induction k1 as [|n k1 IH]; intros k k2 c1 w c2 v Hlen Hn.
  - destruct c1; [|discriminate]. cbn [app combine dset]. rewrite String.eqb_refl. reflexivity.
  - destruct c1 as [|g c1]; [discriminate|]. cbn [app combine dset].
    assert (E : String.eqb k n = false) by (apply String.eqb_neq; intros ->; apply Hn; left; reflexivity).
    rewrite E. f_equal. apply IH; [cbn in Hlen; lia | intros Hk; apply Hn; right; exact Hk].
Qed.

Lemma field_nth : forall (k1 : list string) k k2 (se : list string), ~ In k k1 ->
  List.length se = List.length (k1 ++ k :: k2) ->
  dget (combine (k1 ++ k :: k2) se) k = nth_error se (List.length k1).
Proof.
  induction k1 as [|n k1 IH]; intros k k2 se Hn Hlen.
  - destruct se as [|g se]; [discriminate|]. cbn [app combine dget]. rewrite String.eqb_refl. reflexivity.
  - destruct se as [|g se]; [discriminate|]. cbn [app combine dget List.length nth_error].
    assert (E : String.eqb k n = false) by (apply String.eqb_neq; intros ->; apply Hn; left; reflexivity).
    rewrite E. apply IH; [intros Hk; apply Hn; right; exact Hk | cbn in Hlen; lia].
Qed.

Lemma vals_combine : forall (names segs : list string), NoDup names -> List.length names = List.length segs ->
  map (fun n => match dget (combine names segs) n with Some v => v | None => "" end) names = segs.
Proof.
  induction names as [|n names IH]; intros segs Hnd Hlen; destruct segs as [|g segs]; try discriminate; [reflexivity|].
  inversion Hnd as [|? ? Hn Hnd']; subst. cbn [map combine dget]. rewrite String.eqb_refl. f_equal.
  transitivity (map (fun n0 => match dget (combine names segs) n0 with Some v => v | None => "" end) names).
  - apply map_ext_in. intros a Ha.
    assert (E : String.eqb a n = false) by (apply String.eqb_neq; intros ->; exact (Hn Ha)).
    rewrite E. reflexivity.
  - apply IH; [exact Hnd' | cbn in Hlen; lia].
Qed.

(** * 12. Rule 4: a trailing filter k=v *)

Lemma set_field_decomp tp b d k w v : In tp tpls -> accepts tp b = Some d -> dget d k = Some w ->
  exists k1 k2 c1 c2, item_names (tp_items tp) = (k1 ++ k :: k2)%list /\ split_c "/" b = (c1 ++ w :: c2)%list /\
    List.length k1 = List.length c1 /\ ~ In k k1 /\
    dset d k v = combine (item_names (tp_items tp)) (c1 ++ v :: c2) /\
    set_field tp d k v = join "/" (c1 ++ v :: c2).
Proof.
  intros Htp Ha Hk. destruct (accepts_inv Ld Hwf tp b d Htp Ha) as (Ed & Hlen).
  destruct (tpl_parts Ld Hwf tp Htp) as (_ & Hnd & _).
  rewrite Ed in Hk. destruct (dget_combine_split _ _ k w (eq_sym Hlen) Hk) as (k1 & k2 & c1 & c2 & En & Es & Hl & Hn).
  exists k1, k2, c1, c2. split; [exact En|]. split; [exact Es|]. split; [exact Hl|]. split; [exact Hn|].
  assert (Eset : dset d k v = combine (item_names (tp_items tp)) (c1 ++ v :: c2)).
  { rewrite Ed, Es, En. apply dset_combine_mid; assumption. }
  split; [exact Eset|]. unfold set_field, str_of. rewrite Eset. f_equal. apply vals_combine; [exact Hnd|].
  rewrite <- Hlen, Es, !app_length. reflexivity.
Qed.

Lemma table_result_self ov tp dv sy : In tp tpls ->
  keys_eq (dkeys ov) (item_names (tp_items tp)) = true -> accepts tp (str_of tp ov) = Some dv ->
  table_result Ld ov (tp_name tp) sy = Some (mkSid (str_of tp ov) (tp_name tp) dv).
Proof.
  intros Htp Hk Ha. unfold table_result.
  assert (Hc : In tp (candidates Ld ov)).
  { unfold candidates. apply filter_In. split; [exact Htp|]. unfold carries. rewrite Hk, Ha. reflexivity. }
  assert (Ech : chosen Ld ov (tp_name tp) sy = Some tp).
  { unfold chosen. destruct (candidates Ld ov) as [|t0 [|t1 rest]] eqn:Ec.
    - destruct Hc.
    - destruct Hc as [->|[]]. reflexivity.
    - pose proof (find_name (tp_name tp) (t0 :: t1 :: rest)) as Hf.
      destruct (find _ (t0 :: t1 :: rest)) as [tp'|].
      + destruct Hf as (_ & Hin' & Hn). f_equal. apply (tpl_by_name c Ld Hload Hwf tp' tp); [|exact Htp | exact Hn].
        apply (candidate_parts Ld ov tp'). rewrite Ec. exact Hin'.
      + exfalso. apply in_list_false in Hf. apply Hf. apply in_map. exact Hc. }
  rewrite Ech, Ha. reflexivity.
Qed.

Lemma filt_at_spec body k v b tp d : filt_okb Ld body k v = true -> In b (bodies Ld body) -> In tp tpls ->
  accepts tp b = Some d ->
  dget d k = Some "*" /\ exists dv, accepts tp (set_field tp d k v) = Some dv /\
                                   stable_at Ld (set_field tp d k v) tp = true.
Proof.
  intros H Hb Htp Ha. unfold filt_okb in H. rewrite forallb_forall in H. specialize (H b Hb).
  rewrite forallb_forall in H. specialize (H tp Htp). unfold filt_at in H. rewrite Ha in H.
  apply andb_true_iff in H. destruct H as (H1 & H2). split.
  - destruct (dget d k) as [w|]; [|discriminate]. apply String.eqb_eq in H1. subst w. reflexivity.
  - destruct (accepts tp (set_field tp d k v)) as [dv|]; [|discriminate]. exists dv. auto.
Qed.

Lemma queries_single k v : value_alts Ld k v = [v] -> queries Ld [(k, v)] = [query_str [(k, v)]].
Proof. intros H. unfold queries, query_dicts. cbn [map fst snd]. rewrite H. reflexivity. Qed.

(* the filter k=v applied to one typed search (b, tp, d) of the body *)
Lemma filter_applied body k v b tp d :
  search_ok body = true -> atom k -> atom v -> startswith "~" v = false -> filt_okb Ld body k v = true ->
  In b (bodies Ld body) -> In tp tpls -> accepts tp b = Some d ->
  exists dv, accepts tp (set_field tp d k v) = Some dv /\ stable_at Ld (set_field tp d k v) tp = true /\
    mem_c "?" (set_field tp d k v) = false /\
    forall x1, query_applied Ld (query_str [(k, v)]) (mkSid b (tp_name tp) d) x1 <->
               x1 = mkSid (set_field tp d k v) (tp_name tp) dv.
Proof.
  intros Hs Hk Hv Ht Hf Hb Htp Ha.
  destruct (filt_at_spec body k v b tp d Hf Hb Htp Ha) as (Hget & dv & Hav & Hst).
  destruct (bodies_plain Ld Hconf body b Hs Hb) as (Hq & _ & Hnl & _).
  destruct (set_field_decomp tp b d k "*" v Htp Ha Hget) as (k1 & k2 & c1 & c2 & En & Es & Hl & Hn & Eset & Esf).
  destruct (accepts_inv Ld Hwf tp b d Htp Ha) as (_ & Hlen).
  exists dv. split; [exact Hav|]. split; [exact Hst|].
  assert (Hqf : mem_c "?" (set_field tp d k v) = false).
  { rewrite Esf. apply mem_c_join; [reflexivity|]. pose proof (mem_c_split "?" "/" b Hq) as Hall. rewrite Es in Hall.
    apply Forall_app in Hall. destruct Hall as (H1 & H2). inversion H2; subst.
    apply Forall_app. split; [exact H1|]. constructor; [|assumption]. apply (atom_nomem v "?" Hv). reflexivity. }
  split; [exact Hqf|]. intros x1.
  pose proof (wt_typed c Ld Hload Hwf b tp d Htp Ha) as Hw.
  assert (Had : adict [(k, v)]) by (constructor; [split; assumption | constructor]).
  assert (Hnd1 : NoDup (map fst [(k, v)])) by (cbn [map fst]; constructor; [intros [] | constructor]).
  assert (Hne1 : [(k, v)] <> []) by discriminate.
  rewrite (query_applied_table c Ld Hload Hwf [(k, v)] (mkSid b (tp_name tp) d) x1 Hw Hnl Had Hnd1 Hne1).
  unfold table_applied. cbn [s_fields s_type s_string]. unfold updated. cbn [fold_left]. unfold set_pair. cbn [fst snd]. rewrite Ht.
  assert (Hkeys : keys_eq (dkeys (dset d k v)) (item_names (tp_items tp)) = true).
  { rewrite Eset. unfold dkeys. rewrite map_fst_combine; [apply keys_eq_refl|].
    rewrite <- Hlen, Es, !app_length. reflexivity. }
  rewrite (table_result_self (dset d k v) tp dv _ Htp Hkeys Hav). fold (set_field tp d k v). split.
  - intros (E & _). inversion E. reflexivity.
  - intros ->. split; [reflexivity|]. cbn [s_string]. apply mem_count_q. exact Hqf.
Qed.

Lemma filter_matched body k v e :
  search_ok body = true -> contains "**" body = false -> atom k -> atom v -> startswith "~" v = false ->
  value_alts Ld k v = [v] -> filt_okb Ld body k v = true ->
  (matched_by (denotes_q Ld body [(k, v)]) e <->
   exists b tp d, In b (bodies Ld body) /\ In tp tpls /\ accepts tp b = Some d /\ glob_rel (set_field tp d k v) e).
Proof.
  intros Hs Hd Hk Hv Ht Hva Hf. split.
  - intros (x & (b & u & y & x1 & Hb & Hu & Hy & Ha & Hn) & Hg).
    rewrite (queries_single k v Hva) in Hu. destruct Hu as [<-|[]].
    unfold typed_of, dstar in Hy. rewrite (bodies_no_dstar Ld Hconf body b Hd Hb) in Hy. cbn [Nat.eqb] in Hy.
    destruct Hy as (tp & d & Htp & Hacc & ->). exists b, tp, d. repeat (split; [assumption|]).
    destruct (filter_applied body k v b tp d Hs Hk Hv Ht Hf Hb Htp Hacc) as (dv & Hav & Hst & Hqf & Hx1).
    apply Hx1 in Ha. subst x1.
    destruct (stable_at_spec _ tp dv Hst Hav Hqf) as (_ & Hu). rewrite (Hu x Hn) in Hg. exact Hg.
  - intros (b & tp & d & Hb & Htp & Hacc & Hg).
    destruct (filter_applied body k v b tp d Hs Hk Hv Ht Hf Hb Htp Hacc) as (dv & Hav & Hst & Hqf & Hx1).
    destruct (stable_at_spec _ tp dv Hst Hav Hqf) as ((x & Hx) & Hu).
    exists x. split; [|rewrite (Hu x Hx); exact Hg].
    exists b, (query_str [(k, v)]), (mkSid b (tp_name tp) d), (mkSid (set_field tp d k v) (tp_name tp) dv).
    split; [exact Hb|]. split; [rewrite (queries_single k v Hva); left; reflexivity|].
    split; [|split; [apply Hx1; reflexivity | exact Hx]].
    unfold typed_of, dstar. rewrite (bodies_no_dstar Ld Hconf body b Hd Hb). cbn [Nat.eqb]. exists tp, d. auto.
Qed.

(* the glob of the filtered string = the glob of the body restricted to field k = v *)
Lemma filter_glob k v b tp d e : In tp tpls -> accepts tp b = Some d -> dget d k = Some "*" ->
  atom v -> literalb v = true ->
  (glob_rel (set_field tp d k v) e <->
   glob_rel b e /\ dget (combine (item_names (tp_items tp)) (split_c "/" e)) k = Some v).
Proof.
  intros Htp Ha Hget Hv Hl.
  destruct (set_field_decomp tp b d k "*" v Htp Ha Hget) as (k1 & k2 & c1 & c2 & En & Es & Hlk & Hn & _ & Esf).
  destruct (accepts_inv Ld Hwf tp b d Htp Ha) as (_ & Hlen).
  assert (Eb : b = join "/" (c1 ++ "*" :: c2)) by (rewrite <- Es; symmetry; apply (join_split_c "/" b)).
  pose proof (split_c_nomem_all "/" b) as Hall. rewrite Es in Hall. apply Forall_app in Hall. destruct Hall as (H1 & H2).
  pose proof (Forall_inv_tail H2) as H2'.
  assert (Hvs : noslash v) by (apply (atom_nomem v "/" Hv); reflexivity).
  rewrite Esf, (glob_literal_seg c1 c2 v e H1 H2' Hvs Hl), <- Eb.
  assert (Hf : glob_rel b e -> dget (combine (item_names (tp_items tp)) (split_c "/" e)) k = nth_error (split_c "/" e) (List.length c1)).
  { intros Hg. rewrite En, <- Hlk. apply field_nth; [exact Hn|]. rewrite <- En, <- Hlen. symmetry. apply (glob_segments b e Hg). }
  split; intros (Hg & Hx); (split; [exact Hg|]); [rewrite (Hf Hg) | rewrite <- (Hf Hg)]; exact Hx.
Qed.

(* Rule 4.  Guards: body is a plain search without "**" whose narrowing keeps the strings; k and v
   are url-safe tokens, v a literal not starting with "~" and not an alias when k is a leaf key
   ([value_alts] = [v]); k is a key of every searched type, searched as "*", v is accepted there and
   narrowing keeps the filtered strings ([filt_okb]); the filtered search does not take the shortcut;
   no sorted search on either side *)
Theorem filter_rule items body k v l lf :
  search_ok body = true -> contains "**" body = false ->
  narrow_stableb Ld body = true -> shortcut_okb Ld body = true -> nosort Ld body ->
  atomb k = true -> atomb v = true -> literalb v = true -> startswith "~" v = false ->
  value_alts Ld k v = [v] -> filt_okb Ld body k v = true ->
  ~ In "" (bodies Ld body) ->
  shortcut Ld (body ++ "?" ++ k ++ "=" ++ v) = false ->
  nosort_by (denotes_q Ld body [(k, v)]) ->
  find_list Ld items body = Ok l ->
  find_list Ld items (body ++ "?" ++ k ++ "=" ++ v) = Ok lf ->
  NoDup lf /\ forall e, In e lf <-> In e l /\ field_in Ld body k e v.
Proof.
  intros Hs Hd Hst Hok Hns Hk Hv Hl Ht Hva Hf Hne Hsc Hnsf H Hff.
  change (body ++ "?" ++ k ++ "=" ++ v) with (body ++ "?" ++ query_str [(k, v)]) in Hsc, Hff.
  assert (Hqok : query_okb [(k, v)] = true).
  { unfold query_okb. cbn [map fst snd nodupb forallb negb andb]. rewrite Hk. cbn [andb].
    unfold value_okb. rewrite (split_c_nomem "," v); [cbn [forallb]; rewrite Hv; reflexivity|].
    apply (atom_nomem v "," Hv). reflexivity. }
  destruct (find_list_query_denotes items body [(k, v)] lf Hs Hqok Hne Hsc Hnsf Hff) as (Hnd & Hin).
  destruct (find_list_denotes items body l (conj Hs (conj Hok Hns)) H) as (_ & Hinl).
  split; [exact Hnd|]. intros e. rewrite Hin, Hinl, (filter_matched body k v e Hs Hd Hk Hv Ht Hva Hf).
  rewrite (matched_plain body e Hs Hd Hst). split.
  - intros (Hi & b & tp & d & Hb & Htp & Ha & Hg).
    destruct (filt_at_spec body k v b tp d Hf Hb Htp Ha) as (Hget & _).
    apply (filter_glob k v b tp d e Htp Ha Hget Hv Hl) in Hg. destruct Hg as (Hg & Hfield).
    split; [split; [exact Hi|]; exists b; split; [exact Hb|]; split; [exists tp, d; auto | exact Hg]|].
    exists b, tp, d. auto 6.
  - intros ((Hi & _) & b & tp & d & Hb & Htp & Ha & Hg & Hfield). split; [exact Hi|].
    exists b, tp, d. repeat (split; [assumption|]).
    destruct (filt_at_spec body k v b tp d Hf Hb Htp Ha) as (Hget & _).
    apply (filter_glob k v b tp d e Htp Ha Hget Hv Hl). auto.
Qed.

(** * 13. Strings: the one occurrence of "/**" *)

Lemma count_ge1 : forall X Y, 1 <= count "/**" (X ++ "/**" ++ Y).
Proof.
  induction X as [|a X IH]; intros Y.
  - change ("" ++ "/**" ++ Y) with ("/**" ++ Y). rewrite (count_hit "/" "**" Y). lia.
  - change (String a X ++ "/**" ++ Y) with (String a (X ++ "/**" ++ Y)).
    destruct (startswith "/**" (String a (X ++ "/**" ++ Y))) eqn:E.
    + destruct (startswith_inv _ _ E) as (rest & Er). rewrite Er, (count_hit "/" "**" rest). lia.
    + rewrite (count_miss "/" "**" _ _ E). apply IH.
Qed.

Lemma occ_unique new : forall A B, count "/**" (A ++ "/**" ++ B) = 1 ->
  replace "/**" new (A ++ "/**" ++ B) = A ++ new ++ B /\ hd "" (split_s "/**" (A ++ "/**" ++ B)) = A.
Proof.
  induction A as [|a A IH]; intros B H.
  - change ("" ++ "/**" ++ B) with ("/**" ++ B) in *. rewrite (count_hit "/" "**" B) in H.
    rewrite (replace_hit "/" "**" new B), (split_s_hit "/" "**" B), (count0_replace "/" "**" B new) by lia.
    split; reflexivity.
  - change (String a A ++ "/**" ++ B) with (String a (A ++ "/**" ++ B)) in *.
    destruct (startswith "/**" (String a (A ++ "/**" ++ B))) eqn:E.
    + exfalso. destruct (startswith_inv _ _ E) as (rest & Er). rewrite Er, (count_hit "/" "**" rest) in H.
      assert (H0 : count "/**" rest = 0) by lia. clear H.
      change ("/**" ++ rest) with (String "/" (String "*" (String "*" rest))) in Er. injection Er as Ea E1.
      destruct A as [|a1 A]; [discriminate E1|]. injection E1 as Ea1 E2.
      destruct A as [|a2 A]; [discriminate E2|]. injection E2 as Ea2 E3.
      pose proof (count_ge1 A B) as Hge. subst rest. simpl append in Hge, H0. lia.
    + rewrite (count_miss "/" "**" _ _ E) in H. destruct (IH B H) as (Hr & Hh).
      rewrite (replace_miss "/" "**" new _ _ E), Hr, (split_s_miss "/" "**" _ _ E). split; [reflexivity|].
      destruct (split_s "/**" (A ++ "/**" ++ B)) as [|h t]; cbn [hd] in *; subst; reflexivity.
Qed.

(* the text that follows a non empty list of segments *)
Definition tail_str (l : list string) : string := match l with [] => "" | _ => "/" ++ join "/" l end.

Lemma join_app_tail : forall c1 l2, c1 <> [] -> join "/" (c1 ++ l2) = join "/" c1 ++ tail_str l2.
Proof.
  induction c1 as [|x c1 IH]; intros l2 Hne; [congruence|]. destruct c1 as [|y c1].
  - cbn [app]. destruct l2 as [|z l2]; [cbn; rewrite app_nil_r_s; reflexivity|]. rewrite join_cons2. reflexivity.
  - change ((x :: y :: c1) ++ l2)%list with (x :: (y :: c1) ++ l2)%list. cbn [app].
    rewrite !join_cons2. change (y :: (c1 ++ l2)%list) with ((y :: c1) ++ l2)%list.
    rewrite (IH l2 ltac:(discriminate)), !app_assoc_s. reflexivity.
Qed.

Lemma tail_str_cons g l : tail_str (g :: l) = "/" ++ g ++ tail_str l.
Proof. unfold tail_str. destruct l as [|z l]; [cbn [join]; rewrite app_nil_r_s; reflexivity | rewrite join_cons2; reflexivity]. Qed.

Lemma tail_str_stars n l : tail_str (repeat "*" n ++ l) = srepeat "/*" n ++ tail_str l.
Proof.
  induction n as [|n IH]; [reflexivity|]. cbn [repeat app srepeat]. rewrite tail_str_cons, IH, !app_assoc_s. reflexivity.
Qed.

(* a body  c1/**/c2  with one "/**": its root, and "/**" replaced by n levels "/*" *)
Lemma dstar_body c1 c2 n : c1 <> [] -> count "/**" (join "/" (c1 ++ "**" :: c2)) = 1 ->
  replace dstar (srepeat "/*" n) (join "/" (c1 ++ "**" :: c2)) = join "/" (c1 ++ repeat "*" n ++ c2) /\
  root_of (join "/" (c1 ++ "**" :: c2)) = join "/" c1.
Proof.
  intros Hne H. rewrite (join_app_tail c1 _ Hne), tail_str_cons in *.
  change ("/" ++ "**" ++ tail_str c2) with ("/**" ++ tail_str c2) in *.
  destruct (occ_unique (srepeat "/*" n) _ _ H) as (Hr & Hh). unfold root_of, dstar. split; [|exact Hh].
  rewrite Hr, (join_app_tail c1 _ Hne), tail_str_stars. reflexivity.
Qed.

(** * 14. The bodies of  pre/*/.../*/post *)

Lemma alts_of_parts_app : forall init post, post <> [] ->
  alts_of_parts Ld (init ++ post) = (map comma_alts init ++ alts_of_parts Ld post)%list.
Proof.
  induction init as [|p init IH]; intros post Hne; [reflexivity|].
  cbn [app map]. rewrite <- (IH post Hne). cbn [alts_of_parts].
  destruct (init ++ post)%list eqn:E; [|reflexivity]. apply app_eq_nil in E. destruct E; congruence.
Qed.

Lemma choice_star_list : forall n cm, choice_pre (repeat "*" n) cm <-> cm = repeat "*" n.
Proof.
  unfold choice_pre. induction n as [|n IH]; intros cm; cbn [repeat].
  - split; [intros H; inversion H; reflexivity | intros ->; constructor].
  - split.
    + intros H. inversion H as [|? x ? t Hx Ht]; subst. destruct Hx as [<-|[]]. f_equal. apply IH. exact Ht.
    + intros ->. constructor; [left; reflexivity | apply IH; reflexivity].
Qed.

Lemma choice_pre_app p1 p2 ch : choice_pre (p1 ++ p2) ch <->
  exists a b, ch = (a ++ b)%list /\ choice_pre p1 a /\ choice_pre p2 b.
Proof.
  unfold choice_pre. split.
  - intros H. apply Forall2_app_inv_l_s in H. exact H.
  - intros (a & b & -> & Ha & Hb). apply Forall2_app; assumption.
Qed.

Lemma choice_stars pre n post ch : pre <> [] ->
  (post = [] -> dmem (c_extension_alias (l_conf Ld)) "*" = false) -> (post = [] -> lastpre_ok Ld pre) ->
  (Forall2 (fun l a => In a l) (alts_of_parts Ld (pre ++ repeat "*" n ++ post)) ch <->
   exists c1 c2, ch = (c1 ++ repeat "*" n ++ c2)%list /\ choice_pre pre c1 /\ choice_post Ld post c2).
Proof.
  intros Hne Hstar Hlp. destruct post as [|p post].
  - (* "**" was the last segment *)
    rewrite app_nil_r.
    assert (Hc2 : forall c2, choice_post Ld [] c2 <-> c2 = []).
    { intros c2. unfold choice_post. cbn [alts_of_parts]. split; [intros H; inversion H; reflexivity | intros ->; constructor]. }
    assert (Hsnoc : forall init g P, (forall x, In x (last_alts Ld g) <-> P x) ->
              (Forall2 (fun l a => In a l) (alts_of_parts Ld (init ++ [g])) ch <->
               exists ci x, ch = (ci ++ [x])%list /\ choice_pre init ci /\ P x)).
    { intros init g P HP. rewrite alts_of_parts_snoc. split.
      - intros H. apply Forall2_mid_inv in H. destruct H as (a & y & b & -> & Ha & Hy & Hb). inversion Hb; subst.
        exists a, y. split; [reflexivity|]. split; [apply Forall2_map_l in Ha; exact Ha | apply HP; exact Hy].
      - intros (ci & x & -> & Hci & Hx). apply Forall2_app; [apply Forall2_map_l; exact Hci|].
        constructor; [apply HP; exact Hx | constructor]. }
    destruct n as [|m].
    + cbn [repeat app]. rewrite app_nil_r. rewrite (removelast_last_s pre Hne) at 1.
      rewrite (Hsnoc (removelast pre) (last pre "") _ (Hlp eq_refl)). split.
      * intros (ci & x & -> & Hci & Hx). exists (ci ++ [x])%list, []. rewrite app_nil_r. split; [reflexivity|].
        split; [|apply Hc2; reflexivity]. rewrite (removelast_last_s pre Hne). apply choice_pre_app.
        exists ci, [x]. split; [reflexivity|]. split; [exact Hci|]. constructor; [exact Hx | constructor].
      * intros (c1 & c2 & -> & H1 & H2). apply Hc2 in H2. subst c2. rewrite app_nil_r.
        rewrite (removelast_last_s pre Hne) in H1. apply choice_pre_app in H1. destruct H1 as (a & b & -> & Ha & Hb).
        inversion Hb as [|? x ? t Hx Ht]; subst. inversion Ht; subst. exists a, x. auto.
    + change (repeat "*" (S m)) with ("*" :: repeat "*" m). rewrite repeat_cons, app_assoc.
      rewrite (Hsnoc (pre ++ repeat "*" m)%list "*" (fun x => x = "*")).
      2:{ apply (seg_alts_self [] "*" eq_refl). intros _. split; [discriminate | apply Hstar; reflexivity]. }
      split.
      * intros (ci & x & -> & Hci & ->). apply choice_pre_app in Hci. destruct Hci as (a & b & -> & Ha & Hb).
        apply choice_star_list in Hb. subst b. exists a, []. rewrite app_nil_r, <- app_assoc. split; [reflexivity|].
        split; [exact Ha | apply Hc2; reflexivity].
      * intros (c1 & c2 & -> & H1 & H2). apply Hc2 in H2. subst c2. rewrite app_nil_r.
        exists (c1 ++ repeat "*" m)%list, "*". split; [rewrite <- app_assoc; reflexivity|]. split; [|reflexivity].
        apply choice_pre_app. exists c1, (repeat "*" m). split; [reflexivity|]. split; [exact H1 | apply choice_star_list; reflexivity].
  - rewrite app_assoc, (alts_of_parts_app _ (p :: post)) by discriminate. split.
    + intros H. apply Forall2_app_inv_l_s in H. destruct H as (cc & c2 & -> & Hcc & H2).
      apply Forall2_map_l in Hcc. apply choice_pre_app in Hcc. destruct Hcc as (a & b & -> & Ha & Hb).
      apply choice_star_list in Hb. subst b. exists a, c2. rewrite <- app_assoc. auto.
    + intros (c1 & c2 & -> & H1 & H2). rewrite app_assoc. apply Forall2_app; [|exact H2]. apply Forall2_map_l.
      apply choice_pre_app. exists c1, (repeat "*" n). split; [reflexivity|]. split; [exact H1 | apply choice_star_list; reflexivity].
Qed.

Lemma noslash_stars n : Forall noslash (repeat "*" n).
Proof. apply Forall_forall. intros x Hx. apply repeat_spec in Hx. subst x. reflexivity. Qed.

Lemma bodies_mkn pre n post : pre <> [] -> Forall noslash pre -> Forall noslash post ->
  (post = [] -> dmem (c_extension_alias (l_conf Ld)) "*" = false) -> (post = [] -> lastpre_ok Ld pre) ->
  forall b, In b (bodies Ld (mkn pre n post)) <->
    exists c1 c2, b = join "/" (c1 ++ repeat "*" n ++ c2) /\ choice_pre pre c1 /\ choice_post Ld post c2.
Proof.
  intros Hne Hpre Hpost Hstar Hlp b. unfold bodies, alts_of_segments, mkn.
  rewrite (split_c_join "/").
  2:{ destruct pre; [congruence | discriminate]. }
  2:{ apply Forall_app. split; [exact Hpre|]. apply Forall_app. split; [apply noslash_stars | exact Hpost]. }
  rewrite in_map_iff. split.
  - intros (ch & <- & Hch). apply product_In in Hch. apply (choice_stars pre n post ch Hne Hstar Hlp) in Hch.
    destruct Hch as (c1 & c2 & -> & H1 & H2). exists c1, c2. auto.
  - intros (c1 & c2 & -> & H1 & H2). exists (c1 ++ repeat "*" n ++ c2)%list. split; [reflexivity|].
    apply product_In. apply (choice_stars pre n post _ Hne Hstar Hlp). exists c1, c2. auto.
Qed.

Lemma choice_pre_ne pre c1 : pre <> [] -> choice_pre pre c1 -> c1 <> [].
Proof. intros Hne H. inversion H; subst; [congruence | discriminate]. Qed.

Lemma dstar_body_count c1 c2 : c1 <> [] -> ~ body_error Ld (join "/" (c1 ++ "**" :: c2)) ->
  count "/**" (join "/" (c1 ++ "**" :: c2)) = 1.
Proof.
  intros Hne Herr. pose proof (count_ge1 (join "/" c1) (tail_str c2)) as Hge.
  rewrite (join_app_tail c1 _ Hne), tail_str_cons in *.
  change ("/" ++ "**" ++ tail_str c2) with ("/**" ++ tail_str c2) in *.
  destruct (Nat.eq_dec (count "/**" (join "/" c1 ++ "/**" ++ tail_str c2)) 1) as [E|E]; [exact E|].
  exfalso. apply Herr. left. unfold dstar. lia.
Qed.

(* Rule 3.  s = pre/**/post.  Guards: pre is not empty; when "**" is the last segment, neither "**"
   nor "*" is an alias name and alias expansion does not change the last segment of pre; [search_ok];
   the shortcut is not taken; no sorted search *)
Theorem dstar_rule items pre post l :
  pre <> [] -> Forall noslash pre -> Forall noslash post ->
  (post = [] -> dmem (c_extension_alias (l_conf Ld)) "**" = false) ->
  (post = [] -> dmem (c_extension_alias (l_conf Ld)) "*" = false) ->
  (post = [] -> lastpre_ok Ld pre) ->
  search_ok (mk pre "**" post) = true -> shortcut Ld (mk pre "**" post) = false -> nosort Ld (mk pre "**" post) ->
  find_list Ld items (mk pre "**" post) = Ok l ->
  NoDup l /\ forall e, In e l <-> In e items /\ exists n, matched_by (levels_on Ld pre n post) e.
Proof.
  intros Hne Hpre Hpost Hdd Hstar Hlp Hs Hsc Hns H.
  destruct (find_list_denotes_unfolded items _ l Hs Hsc Hns H) as (Hnd & Hin). split; [exact Hnd|].
  assert (Herr : forall b, In b (bodies Ld (mk pre "**" post)) -> ~ body_error Ld b).
  { intros b Hb Hbe. destruct (find_list_unfolded items _ l Hsc H) as (qs & Hu & _).
    destruct (unfold_noquery_errors c Ld Hload Hwf Hconf _ Hs) as (Hr & _).
    rewrite Hr in Hu by (exists b; auto). discriminate. }
  assert (Hdstar : forall x, In x (seg_alts Ld post "**") <-> x = "**").
  { apply seg_alts_self; [reflexivity|]. intros E. split; [discriminate | apply (Hdd E)]. }
  assert (Hbod : forall b, In b (bodies Ld (mk pre "**" post)) <->
            exists c1 c2, b = join "/" (c1 ++ "**" :: c2) /\ choice_pre pre c1 /\ choice_post Ld post c2).
  { intros b. rewrite (bodies_mk pre "**" post Hpre eq_refl Hpost). split.
    - intros (c1 & x & c2 & -> & H1 & Hx & H2). apply Hdstar in Hx. subst x. exists c1, c2. auto.
    - intros (c1 & c2 & -> & H1 & H2). exists c1, "**", c2. split; [reflexivity|]. split; [exact H1|].
      split; [apply Hdstar; reflexivity | exact H2]. }
  assert (Hroot : forall c1 c2 n, choice_pre pre c1 -> choice_post Ld post c2 ->
            firstn (List.length pre) (split_c "/" (join "/" (c1 ++ repeat "*" n ++ c2))) = c1).
  { intros c1 c2 n H1 H2. rewrite (split_c_join "/").
    - rewrite (Forall2_length_s _ _ _ H1). apply firstn_app_exact.
    - pose proof (choice_pre_ne pre c1 Hne H1). destruct c1; [congruence | discriminate].
    - apply Forall_app. split; [apply (choice_pre_noslash pre c1 Hpre H1)|]. apply Forall_app.
      split; [apply noslash_stars | apply (choice_post_noslash post c2 Hpost H2)]. }
  assert (Hden : forall x, denotes Ld (mk pre "**" post) x <-> exists n, levels_on Ld pre n post x).
  { intros x. split.
    - intros (b & y & Hb & Hy & Hn). pose proof (Herr b Hb) as Hbe. apply Hbod in Hb.
      destruct Hb as (c1 & c2 & -> & H1 & H2). pose proof (choice_pre_ne pre c1 Hne H1) as Hc1.
      pose proof (dstar_body_count c1 c2 Hc1 Hbe) as Hcnt.
      unfold typed_of, dstar in Hy. rewrite Hcnt in Hy. cbn [Nat.eqb] in Hy.
      destruct Hy as (lk & n & tp & d & Hleaf & Htp & Ha & Hlast & ->).
      destruct (dstar_body c1 c2 n Hc1 Hcnt) as (Er & Eroot). rewrite Er in Ha, Hn. rewrite Eroot in Hleaf.
      exists n, (join "/" (c1 ++ repeat "*" n ++ c2)), tp, d, lk.
      split; [apply (bodies_mkn pre n post Hne Hpre Hpost Hstar Hlp); exists c1, c2; auto|].
      rewrite (Hroot c1 c2 n H1 H2). auto.
    - intros (n & bn & tp & d & lk & Hb & Htp & Ha & Hleaf & Hlast & Hn).
      apply (bodies_mkn pre n post Hne Hpre Hpost Hstar Hlp) in Hb. destruct Hb as (c1 & c2 & -> & H1 & H2).
      rewrite (Hroot c1 c2 n H1 H2) in Hleaf. pose proof (choice_pre_ne pre c1 Hne H1) as Hc1.
      assert (Hb : In (join "/" (c1 ++ "**" :: c2)) (bodies Ld (mk pre "**" post))) by (apply Hbod; exists c1, c2; auto).
      pose proof (dstar_body_count c1 c2 Hc1 (Herr _ Hb)) as Hcnt.
      destruct (dstar_body c1 c2 n Hc1 Hcnt) as (Er & Eroot).
      exists (join "/" (c1 ++ "**" :: c2)), (mkSid (join "/" (c1 ++ repeat "*" n ++ c2)) (tp_name tp) d).
      split; [exact Hb|]. split; [|exact Hn]. unfold typed_of, dstar. rewrite Hcnt. cbn [Nat.eqb].
      exists lk, n, tp, d. rewrite Er, Eroot. auto 6. }
  intros e. rewrite Hin. split.
  - intros (Hi & x & Hx & Hg). split; [exact Hi|]. apply Hden in Hx. destruct Hx as (n & Hx). exists n, x. auto.
  - intros (Hi & n & x & Hx & Hg). split; [exact Hi|]. exists x. split; [apply Hden; exists n; exact Hx | exact Hg].
Qed.

(** Rule 3 and the result lists of the n-level searches *)

Lemma plain_denotes_iff s x : contains "**" s = false -> (plain_denotes Ld s x <-> denotes Ld s x).
Proof.
  intros Hd. split.
  - intros (b & tp & d & Hb & Htp & Ha & Hn). exists b, (mkSid b (tp_name tp) d). split; [exact Hb|]. split; [|exact Hn].
    unfold typed_of, dstar. rewrite (bodies_no_dstar Ld Hconf s b Hd Hb). cbn [Nat.eqb]. exists tp, d. auto.
  - intros (b & y & Hb & Hy & Hn). unfold typed_of, dstar in Hy. rewrite (bodies_no_dstar Ld Hconf s b Hd Hb) in Hy.
    cbn [Nat.eqb] in Hy. destruct Hy as (tp & d & Htp & Ha & ->). exists b, tp, d. auto.
Qed.

Lemma levels_plain pre n post x : levels_on Ld pre n post x -> plain_denotes Ld (mkn pre n post) x.
Proof. intros (b & tp & d & lk & Hb & Htp & Ha & _ & _ & Hn). exists b, tp, d. auto. Qed.

(* every result of pre/**/post is a result of one of the n-level searches *)
Corollary dstar_rule_incl items pre post l e :
  pre <> [] -> Forall noslash pre -> Forall noslash post ->
  (post = [] -> dmem (c_extension_alias (l_conf Ld)) "**" = false) ->
  (post = [] -> dmem (c_extension_alias (l_conf Ld)) "*" = false) ->
  (post = [] -> lastpre_ok Ld pre) ->
  search_ok (mk pre "**" post) = true -> shortcut Ld (mk pre "**" post) = false -> nosort Ld (mk pre "**" post) ->
  find_list Ld items (mk pre "**" post) = Ok l -> In e l ->
  exists n, forall ln, guarded Ld (mkn pre n post) -> contains "**" (mkn pre n post) = false ->
    find_list Ld items (mkn pre n post) = Ok ln -> In e ln.
Proof.
  intros Hne Hpre Hpost Hdd Hstar Hlp Hs Hsc Hns H He.
  destruct (dstar_rule items pre post l Hne Hpre Hpost Hdd Hstar Hlp Hs Hsc Hns H) as (_ & Hin).
  apply Hin in He. destruct He as (Hi & n & x & Hx & Hg). exists n. intros ln Hgd Hd Hf.
  apply (find_list_denotes items _ ln Hgd Hf). split; [exact Hi|]. exists x. split; [|exact Hg].
  apply (plain_denotes_iff _ x Hd). apply levels_plain. exact Hx.
Qed.

(* conversely, a level all of whose typed searches are of a leaf type is included *)
Corollary dstar_rule_level items pre post l n ln :
  pre <> [] -> Forall noslash pre -> Forall noslash post ->
  (post = [] -> dmem (c_extension_alias (l_conf Ld)) "**" = false) ->
  (post = [] -> dmem (c_extension_alias (l_conf Ld)) "*" = false) ->
  (post = [] -> lastpre_ok Ld pre) ->
  search_ok (mk pre "**" post) = true -> shortcut Ld (mk pre "**" post) = false -> nosort Ld (mk pre "**" post) ->
  find_list Ld items (mk pre "**" post) = Ok l ->
  (forall x, plain_denotes Ld (mkn pre n post) x -> levels_on Ld pre n post x) ->
  guarded Ld (mkn pre n post) -> contains "**" (mkn pre n post) = false ->
  find_list Ld items (mkn pre n post) = Ok ln -> incl ln l.
Proof.
  intros Hne Hpre Hpost Hdd Hstar Hlp Hs Hsc Hns H Hleaf Hgd Hd Hf e He.
  destruct (dstar_rule items pre post l Hne Hpre Hpost Hdd Hstar Hlp Hs Hsc Hns H) as (_ & Hin).
  apply (find_list_denotes items _ ln Hgd Hf) in He. destruct He as (Hi & x & Hx & Hg).
  apply Hin. split; [exact Hi|]. exists n, x. split; [|exact Hg]. apply Hleaf. apply (plain_denotes_iff _ x Hd). exact Hx.
Qed.

End Algebra.

Print Assumptions find_list_denotes.
Print Assumptions find_list_query_denotes.
Print Assumptions comma_rule.
Print Assumptions comma_rule2.
Print Assumptions alias_rule.
Print Assumptions dstar_rule.
Print Assumptions dstar_rule_incl.
Print Assumptions dstar_rule_level.
Print Assumptions filter_rule.
Print Assumptions literal_rule.
