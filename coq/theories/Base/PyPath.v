(** pathlib.PurePosixPath (python 3.12): str(Path(s)) normalisation, name, suffix, with_name, with_suffix. *)
From Coq Require Import List String Ascii Bool Arith.
From Spil Require Import Base.Str.
Import ListNotations.
Local Open Scope string_scope.

(* posixpath.splitroot *)
Definition splitroot (p : string) : string * string :=
  match p with
  | String "/" (String "/" (String "/" _)) => ("/", drop 1 p)
  | String "/" (String "/" r) => ("//", r)
  | String "/" r => ("/", r)
  | _ => ("", p)
  end.

Definition path_parts (p : string) : string * list string :=
  if sempty p then ("", []) else
  let (root, rel) := splitroot p in
  (root, filter (fun x => negb (sempty x) && negb (String.eqb x ".")) (split_c "/" rel)).

Definition format_parts (root : string) (tail : list string) : string :=
  let s := root ++ join "/" tail in
  if sempty s then "." else s.

(* str(Path(p)) *)
Definition norm_path (p : string) : string :=
  let (root, tail) := path_parts p in format_parts root tail.

Definition path_name (p : string) : string :=
  match last_opt (snd (path_parts p)) with Some n => n | None => "" end.

(* index of the last "." in s, if any (as count of chars before it) *)
Fixpoint rfind_dot_aux (s : string) (i : nat) (best : option nat) : option nat :=
  match s with
  | "" => best
  | String a s' => rfind_dot_aux s' (S i) (if Ascii.eqb a "." then Some i else best)
  end.
Definition rfind_dot (s : string) : option nat := rfind_dot_aux s 0 None.

(* PurePath.suffix (3.12): i = name.rfind('.'); if 0 < i < len(name) - 1: name[i:] else '' *)
Definition path_suffix (p : string) : string :=
  let name := path_name p in
  match rfind_dot name with
  | Some i => if Nat.ltb 0 i && Nat.ltb i (String.length name - 1) then drop i name else ""
  | None => ""
  end.
