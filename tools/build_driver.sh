#!/bin/bash
# Extract the executable model and compile the OCaml driver.  Usage: build_driver.sh
set -e
cd "$(dirname "$0")/.."
mkdir -p ocaml/gen
cd ocaml/gen
rm -f *.ml *.mli *.cm* *.o
timeout 300 coqc -Q ../../coq/theories Spil ../../coq/extract/Extract.v > extract.log 2>&1 || { cat extract.log; exit 1; }
rm -f ../../coq/extract/Extract.vo ../../coq/extract/Extract.glob ../../coq/extract/.Extract.aux ../../coq/extract/Extract.vok ../../coq/extract/Extract.vos
cp ../driver.ml driver.ml
ORDER=$(ocamlfind ocamldep -sort *.mli *.ml)
timeout 300 ocamlfind ocamlopt -w -a -O2 -o ../driver $ORDER 2>/dev/null || timeout 300 ocamlfind ocamlopt -w -a -o ../driver $ORDER
echo "driver built"
