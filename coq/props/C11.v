(** C11 — all Finders give the same answer for the same data.  Property theorems only.
    Search/Finders.v is generic: every finder (path tree, list, constants) is the SAME find / do_find / sorted_search
    over its own star search.  Proved: the answer depends on the finder only through its star search (congruence); for ">"
    even only through the SET of candidates (order of enumeration irrelevant); the generic finder over a list IS the
    list finder of C08/C09; injected junk (paths that resolve to no Sid) changes no result of a path search and makes none fail;
    every path-search result is a Sid of the searched type that resolves from an existing matching path and matches the search.
    The equality "tree search = list search over the same entities" itself is checked on the implementation (real trees,
    both configurations, junk) and by correspondence with the file-system model: NOT a theorem (partial). *)
From Coq Require Import List String Ascii Bool Arith Permutation Sorted.
From Spil Require Import Base.Str Base.Dict Base.Outcome Regex.Re Conf.Conf Conf.Routing Conf.WF Sid.Sid
  Search.Unfold Search.FindList Search.Finders Search.FindListProofs Search.FindersProofs FS.Fs Data.Data Data.VersionProofs.
From SpilGen Require Hamlet.
Import ListNotations.
Local Open Scope string_scope.

Theorem C11_finder_congruence : forall Ld star1 star2, (forall qs, star1 qs = star2 qs) ->
  (forall qs, sorted_search_g Ld star1 qs = sorted_search_g Ld star2 qs) /\
  (forall qs, do_find_g Ld star1 qs = do_find_g Ld star2 qs) /\
  (forall s, find_g Ld star1 s = find_g Ld star2 s).
Proof. exact find_g_ext. Qed.
Print Assumptions C11_finder_congruence.

Theorem C11_list_instance : forall Ld items,
  (forall qs, sorted_search_g Ld (fun qs0 => star_search qs0 items) qs = sorted_search Ld qs items) /\
  (forall qs, do_find_g Ld (fun qs0 => star_search qs0 items) qs = do_find Ld qs items) /\
  (forall s, find_g Ld (fun qs => star_search qs items) s = find_list Ld items s).
Proof. exact flist_is_find_list. Qed.
Print Assumptions C11_list_instance.

(* files / folders that resolve to no Sid never change a path search nor make it fail *)
Theorem C11_junk : forall Ld cfg F F',
  (forall p, In p (dkeys F) -> In p (dkeys F')) ->
  (forall p, In p (dkeys F') -> ~ In p (dkeys F) -> sid_factory Ld (FromPath p cfg) = Ok empty_sid) ->
  forall id s, set_rel (ffind Ld F (FPaths id cfg) s) (ffind Ld F' (FPaths id cfg) s).
Proof. exact find_paths_junk. Qed.
Print Assumptions C11_junk.

(* soundness of a path search: every result comes from an existing path matching the glob of the search,
   resolving to a Sid of the searched type whose fields match the search (the repaired D14) *)
Theorem C11_paths_sound : forall Ld cfg F qs r, paths_star Ld F cfg qs = Ok r ->
  forall s, In s r -> exists q, In q qs /\ hit Ld cfg F q s.
Proof. exact paths_star_sound. Qed.
Print Assumptions C11_paths_sound.

Theorem C11_paths_one : forall Ld cfg F q r, paths_star Ld F cfg [q] = Ok r -> forall s, In s r <-> hit Ld cfg F q s.
Proof. exact paths_star_spec_one. Qed.
Print Assumptions C11_paths_one.
