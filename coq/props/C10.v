(** C10 — search results obey the algebra of the search syntax.  Property theorems only.
    Proved: a result set is determined by the set of glob forms of the unfolded searches (so equal unfoldings give equal
    results on ANY list), the "," rule at the level of the unfolding (cartesian product), no duplicates, results are
    entries of the data set.  The alias / "**" / filter / literal rules are checked as result-set equalities on the
    implementation on every run (tools/props/c10.py): NOT theorems (partial). *)
From Coq Require Import List String Ascii Bool Arith Permutation Sorted.
From Spil Require Import Base.Str Base.Dict Base.Outcome Regex.Re Conf.Conf Conf.WF Sid.Sid
  Search.Unfold Search.FindList Search.GlobProofs Search.FindListProofs Search.UnfoldProofs.
From SpilGen Require Hamlet.
Import ListNotations.
Local Open Scope string_scope.

(* the result depends only on the SET of search forms: two unfoldings with the same forms find the same entries *)
Theorem C10_forms_determine_results : forall qs1 qs2 items l1 l2,
  star_search qs1 items = Ok l1 -> star_search qs2 items = Ok l2 ->
  (forall e, (exists q, In q qs1 /\ glob_rel (s_string q) e) <-> (exists q, In q qs2 /\ glob_rel (s_string q) e)) ->
  forall e, In e l1 <-> In e l2.
Proof.
  intros qs1 qs2 items l1 l2 H1 H2 Heq e.
  rewrite (star_search_glob_spec qs1 items l1 H1 e), (star_search_glob_spec qs2 items l2 H2 e).
  split; intros [Hi Hq]; (split; [exact Hi | apply Heq; exact Hq]).
Qed.
Print Assumptions C10_forms_determine_results.

(* union: the results of the concatenation of two search lists are the union of the results *)
Theorem C10_union : forall qs1 qs2 items l l1 l2,
  star_search (qs1 ++ qs2) items = Ok l -> star_search qs1 items = Ok l1 -> star_search qs2 items = Ok l2 ->
  forall e, In e l <-> In e l1 \/ In e l2.
Proof.
  intros qs1 qs2 items l l1 l2 H H1 H2 e.
  rewrite (star_search_glob_spec _ items l H e), (star_search_glob_spec qs1 items l1 H1 e), (star_search_glob_spec qs2 items l2 H2 e).
  split.
  - intros [Hi (q & Hq & Hg)]. apply in_app_or in Hq. destruct Hq as [Hq|Hq]; [left|right]; (split; [exact Hi | exists q; split; assumption]).
  - intros [[Hi (q & Hq & Hg)]|[Hi (q & Hq & Hg)]]; (split; [exact Hi | exists q; split; [apply in_or_app|exact Hg]]); [left|right]; exact Hq.
Qed.
Print Assumptions C10_union.

Theorem C10_comma_product : forall s, contains start_marker s = false ->
  forall r, In r (or_on_path s) <->
    exists choice, Forall2 (fun part alt => In alt (if contains ors part then map strip (split_c "," part) else [part]))
                           (split_c "/" s) choice /\ r = join "/" choice.
Proof. exact or_on_path_product'. Qed.
Print Assumptions C10_comma_product.

Theorem C10_nodup : forall qs items l, star_search qs items = Ok l -> NoDup l.
Proof. intros qs items l H. exact (proj1 (star_search_spec qs items l H)). Qed.
Print Assumptions C10_nodup.

Example C10_instance :
  find_list Hamlet.the_loaded ["hamlet/a/char/x/model/v001/w/ma"; "hamlet/a/char/x/model/v001/w/mb"; "hamlet/a/char/x/model/v001/w/hip"] "hamlet/a/char/x/model/v001/w/maya"
  = Ok ["hamlet/a/char/x/model/v001/w/ma"; "hamlet/a/char/x/model/v001/w/mb"].
Proof. vm_compute. reflexivity. Qed.
Print Assumptions C10_instance.
