(** Model of spil/sid/core/sid_resolver.py, spil/sid/pathops/fs_resolver.py,
    spil/sid/core/query_helper.apply_query, spil/sid/core/sid_factory.py and the
    StringSid / TypedSid / PathSid methods of spil/sid/sid.py.  Pure layer (no caches). *)
From Coq Require Import List String Ascii Bool Arith.
From Spil Require Import Base.Str Base.Dict Base.Outcome Base.PyPath Regex.Re
  Resolva.Template Resolva.Resolver Conf.ConfUtil Conf.Conf Sid.Query.
Import ListNotations.
Local Open Scope string_scope.

Record sid := mkSid { s_string : string; s_type : string; s_fields : dict string }.

Definition truthy (s : string) : bool := negb (sempty s).
Definition empty_sid : sid := mkSid "" "" [].
Definition untyped (s : string) : sid := mkSid s "" [].

Definition sid_bool (x : sid) : bool := match s_fields x with [] => false | _ => true end.
Definition sid_len (x : sid) : nat := List.length (s_fields x).
Definition uri (x : sid) : string :=
  (if sempty (s_type x) then "" else s_type x ++ ":") ++ s_string x.
Definition repr (x : sid) : string := "Sid('" ++ uri x ++ "')".

Section WithConf.
Variable L : Loaded.
Let c := l_conf L.
Let r := l_sid L.

(** ** sid_resolver *)

(* fmt(template)(data) == sid *)
Definition canonical (t : string) (d : dict string) (s : string) : outcome bool :=
  match find_tpl r t with
  | None => Raise KeyError           (* get_format_for(template) is None: unreachable *)
  | Some tp => do f <- fmt (tp_items tp) d; Ok (String.eqb f s)
  end.

Fixpoint first_canonical (l : list (string * dict string)) (s : string) : outcome (option (string * dict string)) :=
  match l with
  | [] => Ok None
  | (t, d) :: rest =>
      do ok <- canonical t d s;
      if ok then Ok (Some (t, d)) else first_canonical rest s
  end.

(* sid_to_dict(sid, _type): None = (None, None) *)
Definition sid_to_dict (s : string) (ty : string) : outcome (option (string * dict string)) :=
  do res <- (if sempty ty
             then resolve_first r s
             else do d <- resolve_one r s ty; Ok (match d with [] => None | _ => Some (ty, d) end));
  match res with
  | None => Ok None
  | Some (t, d) =>
      do ok <- canonical t d s;
      if ok then Ok (Some (t, d))
      else if sempty ty then do all <- resolve_all r s; first_canonical all s
      else Ok None
  end.

Definition sid_to_dicts (s : string) : outcome (list (string * dict string)) := resolve_all r s.

(* dict_to_type(data, all=True) *)
Definition dict_to_types (d : dict string) : outcome (list string) :=
  do fa <- format_all r d; Ok (map fst fa).

(* sid_resolver.dict_to_sid(data, _type) with a given type: "" when it does not format *)
Definition rdict_to_sid (d : dict string) (ty : string) : outcome string :=
  match d with
  | [] => Raise SpilException
  | _ => do f <- format_one r d ty; Ok (match f with Some s => s | None => "" end)
  end.

(** ** query_helper.apply_query.  [ty = ""] and [fields = []] stand for None. *)

Definition is_search_str (s : string) : bool :=
  existsb (fun sym => contains sym s) (c_search_symbols c).

Definition apply_query (s query ty : string) (fields : dict string)
  : outcome (string * string * dict string) :=
  if sempty ty && negb (match fields with [] => true | _ => false end) then Raise SpilException else
  if sempty query then Ok (s, ty, fields) else
  do new_data <- update fields query;
  do new_types <- dict_to_types new_data;
  let unapplied := Ok (s ++ "?" ++ query, ty, fields) in
  let finish (t : string) :=
      do ns <- rdict_to_sid new_data t;
      if sempty ns then Raise SpilException else
      do back <- sid_to_dict ns t;
      match back with
      | Some (_, ordered) => Ok (ns, t, ordered)
      | None => unapplied
      end in
  match new_types with
  | [] => unapplied
  | [t] => finish t
  | t0 :: _ =>
      if in_list ty new_types then finish ty
      else if is_search_str (s ++ "?" ++ query) then finish t0
      else unapplied
  end.

(** ** sid_factory *)

(* sid_to_sid on the string form *)
Definition sid_of_string (input : string) : outcome sid :=
  let (body, q) := split1_c "?" input in
  let query := match q with Some q => q | None => "" end in
  let (ty_in, str) := match split1_c ":" body with
                      | (t, Some rest) => (t, rest)
                      | (_, None) => ("", body)
                      end in
  do res <- sid_to_dict str ty_in;
  let (ty, fields) := match res with Some (t, d) => (t, d) | None => ("", []) end in
  if truthy query && truthy str && (match fields with [] => true | _ => false end)
  then Ok (mkSid (str ++ "?" ++ query) "" []) else
  if sempty query then Ok (mkSid str ty fields)
  else do '(s', t', f') <- apply_query str query ty fields; Ok (mkSid s' t' f').

(* dict_to_sid(fields): None -> empty Sid at the factory *)
Definition sid_of_fields (fields : dict string) : outcome sid :=
  do types <- dict_to_types fields;
  match types with
  | [] => Ok empty_sid
  | ty :: _ =>
      do s <- rdict_to_sid fields ty;
      do back <- sid_to_dict s ty;
      match back with
      | Some (_, d) => Ok (mkSid s ty d)
      | None => Ok empty_sid
      end
  end.

(** ** fs_resolver *)

Definition get_path_config (config : string) : outcome LoadedPath :=
  let name := if sempty config then
                (if sempty (c_default_path_conf c)
                 then match c_path_confs c with p :: _ => pc_name p | [] => "" end
                 else c_default_path_conf c)
              else config in
  match find (fun p => String.eqb (pc_name (lp_conf p)) name) (l_paths L) with
  | Some p => Ok p
  | None => Raise ConfigError
  end.

Definition basetype_of (ty : string) : string := hd "" (split_s (c_sep c) ty).

Definition map_in (mapping : list (string * list (string * string))) (key value : string) : string :=
  match dget mapping key with
  | Some ((_ :: _) as m) => match dget m value with Some v => v | None => value end
  | _ => value
  end.

(* utils.get_key(mapping, value, value): first key whose value is [value] *)
Definition get_key (m : list (string * string)) (value : string) : string :=
  match find (fun kv => String.eqb (snd kv) value) m with
  | Some (k, _) => k
  | None => value
  end.

Definition path_to_dict (path : string) (config : string) : outcome (option (string * dict string)) :=
  do pc <- get_path_config config;
  do res <- resolve_first (lp_resolver pc) path;
  match res with
  | None => Ok None
  | Some (template, data) =>
      let data' := map (fun kv => (fst kv, map_in (pc_mapping (lp_conf pc)) (fst kv) (snd kv))) data in
      match dget (c_key_types c) (basetype_of template) with
      | None => Raise TypeError
      | Some keys =>
          let ordered := flat_map (fun k => match dget data' k with Some v => [(k, v)] | None => [] end) keys in
          Ok (Some (template, ordered))
      end
  end.


Definition dict_to_path (data : dict string) (ty : string) (config : string) : outcome string :=
  match data with
  | [] => Raise SpilException
  | _ =>
    do pc <- get_path_config config;
    let pr := lp_resolver pc in
    let defaults := pc_defaults (lp_conf pc) in
    let mapping := pc_mapping (lp_conf pc) in
    let d1 := map (fun kv => match dget defaults (fst kv) with
                             | Some dv => if negb (truthy (snd kv)) && truthy dv then (fst kv, dv) else kv
                             | None => kv end) data in
    do ty' <- (if sempty ty
               then do ff <- format_first pr d1;
                    match ff with Some (t, _) => Ok t | None => Raise SpilException end
               else Ok ty);
    match find_tpl pr ty' with
    | None => Raise SpilException
    | Some tp =>
      match tp_keys tp with
      | [] => Raise SpilException
      | template_keys =>
        let d2 := map (fun kv => match dget mapping (fst kv) with
                                 | Some ((_ :: _) as m) => if truthy (snd kv) then (fst kv, get_key m (snd kv)) else kv
                                 | _ => kv end) d1 in
        let d3 := fold_left (fun d k => match dget defaults k with
                                        | Some dv => if negb (dmem d k) && truthy dv then dset d k dv else d
                                        | None => d end) template_keys d2 in
        if negb (keys_eq (dkeys d3) template_keys) then Raise SpilException else
        do path <- fmt (tp_items tp) d3;
        do checked <- format_one pr d3 ty';
        match checked with
        | Some p' => if String.eqb p' path then Ok (norm_path path) else Raise SpilException
        | None => Raise SpilException
        end
      end
    end
  end.

(* PathSid.path(config): None when undefined or SpilException *)
Definition sid_path (x : sid) (config : string) : outcome (option string) :=
  match s_fields x with
  | [] => Ok None
  | _ => match dict_to_path (s_fields x) (s_type x) config with
         | Ok p => Ok (Some p)
         | Raise SpilException => Ok None
         | Raise e => Raise e
         end
  end.

(* sid_factory.path_to_sid *)
Definition sid_of_path (path config : string) : outcome sid :=
  match path_to_dict path config with
  | Raise ResolvaException => Ok empty_sid
  | Raise e => Raise e
  | Ok None => Ok empty_sid
  | Ok (Some (ty, fields)) =>
      match fields with
      | [] => Ok empty_sid
      | _ =>
        do rs <- rdict_to_sid fields ty;
        if sempty rs then Ok empty_sid else
        match dict_to_path fields ty config with
        | Raise SpilException => Ok empty_sid
        | Raise e => Raise e
        | Ok p => if String.eqb p (norm_path path) then Ok (mkSid rs ty fields) else Ok empty_sid
        end
      end
  end.

Inductive src :=
| FromString (s : string)
| FromSid (x : sid)
| FromQuery (q : string)
| FromFields (d : dict string)
| FromPath (p : string) (config : string).

Definition sid_factory (s : src) : outcome sid :=
  match s with
  | FromString str => if sempty str then Ok empty_sid else sid_of_string str
  | FromSid x => if sid_bool x then sid_of_string (uri x) else Ok empty_sid
  | FromQuery q => if sempty q then Ok empty_sid else sid_of_string ("?" ++ q)
  | FromFields d => match d with [] => Ok empty_sid | _ => sid_of_fields d end
  | FromPath p cfg => if sempty p then Ok empty_sid else sid_of_path p cfg
  end.

Definition Sid (s : string) : outcome sid := sid_factory (FromString s).

(** ** Sid methods *)

Definition sid_copy (x : sid) : outcome sid := Sid (uri x).

Definition is_search (x : sid) : bool := is_search_str (s_string x).

(* __eq__ between Sids / with a plain string *)
Definition sid_eqb (x y : sid) : bool := String.eqb (uri x) (uri y).
Definition sid_eq_str (x : sid) (s : string) : bool := String.eqb (s_string x) s.
Definition sid_ltb (x y : sid) : bool := str_ltb (s_string x) (s_string y).

(* self / other *)
Definition sid_div (x : sid) (other : string) : outcome sid := Sid (s_string x ++ sip ++ other).

Definition basetype (x : sid) : option string :=
  if sempty (s_type x) then None else Some (basetype_of (s_type x)).
Definition keytype (x : sid) : option string := last_opt (dkeys (s_fields x)).

Definition sid_get (x : sid) (k : string) : option string := dget (s_fields x) k.

Fixpoint fields_upto (d : dict string) (k : string) : dict string :=
  match d with
  | [] => []
  | (k', v) :: t => if String.eqb k' k then [(k', v)] else (k', v) :: fields_upto t k
  end.

Definition get_as (x : sid) (k : string) : outcome sid :=
  match s_fields x with
  | [] => Ok empty_sid
  | d => if dmem d k then sid_factory (FromFields (fields_upto d k)) else Ok empty_sid
  end.

Definition parent (x : sid) : outcome sid :=
  match rev (dkeys (s_fields x)) with
  | [] => Ok empty_sid
  | [_] => sid_copy x
  | _ :: pk :: _ => get_as x pk
  end.

(* get_with with keyword arguments: a None value removes the key *)
Definition apply_kwargs (d : dict string) (kw : dict (option string)) : dict string :=
  let removed := fold_left (fun acc kv => match snd kv with None => dpop acc (fst kv) | Some _ => acc end) kw d in
  fold_left (fun acc kv => match snd kv with Some v => dset acc (fst kv) v | None => acc end) kw removed.

Definition get_with_kw (x : sid) (kw : dict (option string)) : outcome sid :=
  if truthy (s_string x) && negb (sid_bool x) then Ok empty_sid else
  let data := apply_kwargs (s_fields x) kw in
  do ns <- sid_factory (FromFields data);
  if is_search ns && negb (sid_bool ns) then Sid (join "/" (dvals data)) else Ok ns.

Definition get_with_query (x : sid) (q : string) : outcome sid :=
  if truthy (s_string x) && negb (sid_bool x) then Ok empty_sid else
  if sempty q then get_with_kw x [] else Sid (uri x ++ "?" ++ q).

Definition leaf_key_for (bt : option string) : option string :=
  match bt with
  | None => c_leaf_default c
  | Some b => dget (c_leaf_keys c) b
  end.

Definition is_leaf (x : sid) : bool :=
  match leaf_key_for (basetype x) with
  | Some lk => match sid_get x lk with Some v => truthy v | None => false end
  | None => false     (* fields.get(None) *)
  end.

Definition as_query (x : sid) : string := to_string (s_fields x).

End WithConf.
