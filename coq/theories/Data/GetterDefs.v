(** C16: Getter <-> Finder over data sets and histories: definitions (proofs in Data/GetterProofs.v,
    restatements in props/C16.v).

    A record of GetFromPaths is described by what is stored in the sidecar of the Sid's path
    ([stored_record]), the entry "sid" ([sid_entry], [with_sid]) and the projection on the attributes
    ([project_record] of Data/Data.v): [record_from]. *)
From Coq Require Import List String Ascii Bool Arith.
From Spil Require Import Base.Str Base.Dict Base.Outcome Base.PyPath Conf.Conf Conf.Routing Sid.Sid FS.Fs
  Search.Unfold Search.Finders Search.TreeListDefs Data.Data Data.HistoryDefs.
Import ListNotations.
Local Open Scope string_scope.

(** ** The record of one Sid *)

(* the stored data as a mapping (every stored value is a string, none is python None) *)
Definition stored_record (d : dict string) : record := map (fun kv => (fst kv, Some (snd kv))) d.

(* what goes under "sid": the encoded Sid when the encoder gives a truthy string, else nothing *)
Definition sid_entry (enc : encoder) (x : sid) : option string :=
  match encode enc x with
  | Some e => if truthy e then Some e else None
  | None => None
  end.

(* data["sid"] = e : in place when the stored data has a key "sid" already, else appended *)
Definition with_sid (enc : encoder) (x : sid) (data : record) : record :=
  match sid_entry enc x with
  | Some e => dset data "sid" (Some e)
  | None => data
  end.

(* the value of a key in a mapping, python None when the key is missing *)
Definition rec_val (data : record) (k : string) : option string :=
  match dget data k with Some v => v | None => None end.

(* the record built from the stored data [stored] of the Sid [x] *)
Definition record_from (stored : dict string) (x : sid) (attrs : list string) (enc : encoder) : record :=
  project_record (with_sid enc x (stored_record stored)) attrs.

(* the keys of the full record (no attributes list) *)
Definition full_keys (stored : dict string) (x : sid) (enc : encoder) : list string :=
  match sid_entry enc x with
  | Some _ => if in_list "sid" (dkeys stored) then dkeys stored else (dkeys stored ++ ["sid"])%list
  | None => dkeys stored
  end.

(* the value of a key of the record *)
Definition full_val (stored : dict string) (x : sid) (enc : encoder) (k : string) : option string :=
  match sid_entry enc x with
  | Some e => if String.eqb k "sid" then Some e else dget stored k
  | None => dget stored k
  end.

Section WithEnv.
Variable L : Loaded.
Variable R : Routing.

(** ** Pointwise: the record [r] that a found Sid string [s] gets, given what is stored at a sidecar ([store dp]).
    A found Sid whose re-read has no path under the configuration gets the empty mapping (get_data returns {}). *)
Definition record_of (store : string -> dict string) (cfg : string) (attrs : list string) (enc : encoder)
           (s : string) (r : record) : Prop :=
  exists x, Sid L s = Ok x /\
    ((sid_path L x (default_cfg L cfg) = Ok None /\ r = []) \/
     (exists p, sid_path L x (default_cfg L cfg) = Ok (Some p) /\
        r = record_from (store (sidecar L p)) x attrs enc /\
        (attrs = [] -> map fst r = full_keys (store (sidecar L p)) x enc) /\
        (attrs <> [] -> map fst r = attrs) /\
        (forall k, In k (map fst r) -> dget r k = Some (full_val (store (sidecar L p)) x enc k)))).

(** ** After a history of create / set / update calls from the tree F0: what the sidecar dp holds is the overlay, in call
    order, of the data of the calls that succeeded with a write to it, over what it held in F0 (HistoryProofs.data_history) *)
Definition overlay (F0 : fs) (ops : list wop) (dp : string) : dict string :=
  fold_left dupdate (writes_to L R dp F0 ops) (load_sidecar F0 dp).

(** ** GetFromAll (after the repair of D30): the typed searches are grouped by the path configuration of their Getter
    ([group_by_getter] of Data/Data.v) and each group is handed to its Getter's do_get *)

Definition get_all_group (F : fs) (attrs : list string) (enc : encoder) (g : string * list sid) : outcome (list record) :=
  do_get_paths L F (fst g) (snd g) attrs enc.

Definition has_path_getter (q : sid) : bool :=
  match getter_for R (s_type q) false with GPaths _ => true | _ => false end.

(* the typed search is served by the path getter of configuration cfg *)
Definition routed_to (cfg : string) (q : sid) : bool :=
  match getter_for R (s_type q) false with GPaths c0 => String.eqb c0 cfg | _ => false end.

(** ** FindInPaths over several typed searches vs. one by one (hypotheses of [GetterProofs.paths_star_concat]) *)

(* two typed searches glob different (type, pattern) pairs: FindInPaths, given both, skips neither *)
Definition distinct_globs (cfg : string) (q q' : sid) : Prop :=
  forall po po', sid_path L q cfg = Ok po -> sid_path L q' cfg = Ok po' ->
    String.eqb (s_type q) (s_type q') && String.eqb (pattern_str po) (pattern_str po') = false.

(* the results of the two single searches have no Sid in common *)
Definition disjoint_results (F : fs) (cfg : string) (q q' : sid) : Prop :=
  forall r r', paths_star L F cfg [q] = Ok r -> paths_star L F cfg [q'] = Ok r' ->
    forall s, In s r -> ~ In s r'.

Definition independent (F : fs) (cfg : string) (q q' : sid) : Prop :=
  distinct_globs cfg q q' /\ disjoint_results F cfg q q'.

End WithEnv.
