"""Shared generators / oracles for list-backed search (C08, C09, C10, C12)."""
from harness import gen
from props.c07 import make_search, denote, SpecError
from props.c04 import SIMPLE

NAMES = ['a', 'x', 'a-b', 'a.b', 'a_b', 'a+b', 'y', 'ophelia', 'main', 'n1', 'hamlet2', 'X', '~tmp', '\xe9lan', 'zz~', 'n9', 'n10', 'a-9', 'a-10']

def universe(rng, vocab, kind=None, size=None):
    """A list of sid strings: hierarchies with ancestors, leaf-only, with near-miss / untyped / duplicate entries."""
    kind = kind or rng.choice(['full', 'full', 'leaf', 'mixed'])
    size = size or rng.randint(3, 14)
    leafs = []
    # a few shared prefixes so that entries share parents
    for _ in range(size):
        t = rng.choice(vocab.order)
        fields = vocab.fields(t, rng)
        segs = []
        for (k, e), (_, val) in zip(vocab.types[t], fields):
            if vocab.alternatives(e) is None:
                val = rng.choice(NAMES[:5]) if rng.random() < 0.8 else rng.choice(NAMES)
            else:
                alts = [a for a in vocab.alternatives(e) if a not in ('\\*', '\\>')]
                if any('\\d' in a for a in alts):
                    a = rng.choice(alts)
                    val = vocab.instantiate(a, rng, 'random')
                    # few distinct versions
                    val = val[:-1] + rng.choice('123')
            segs.append(val)
        leafs.append('/'.join(segs))
    items = []
    for s in leafs:
        parts = s.split('/')
        if kind in ('full', 'mixed'):
            for i in range(1, len(parts) + 1):
                items.append('/'.join(parts[:i]))
        else:
            items.append(s)
    seen = set(); out = []
    for s in items:
        if s not in seen:
            seen.add(s); out.append(s)
    if kind == 'mixed':
        for _ in range(rng.randint(1, 4)):
            r = rng.random()
            if r < 0.4 and out:
                out.append(gen.mutate_string(rng.choice(out), rng, vocab).replace('?', ''))
            elif r < 0.6:
                out.append(gen.junk_string(rng).replace('?', ''))
            elif r < 0.8 and out:
                out.append(rng.choice(out))       # duplicate entry
            else:
                out.append(rng.choice(out) + 'x' if out else 'x')
    rng.shuffle(out)
    return out

def search_from(rng, vocab, items, allow_gt=False):
    """A search derived from an entry of the universe (so that it often matches something)."""
    cands = [s for s in items if s and '\n' not in s]
    base = rng.choice(cands) if cands and rng.random() < 0.85 else vocab.sid(vocab.any_type(rng), rng)
    segs = base.split('/')
    from props.c01 import natural as _natural
    nt = _natural(vocab, base) if ':' not in base and '?' not in base else None
    open_pos = set()
    if nt:
        open_pos = set(i for i, (k, e) in enumerate(vocab.types[nt[0]]) if vocab.alternatives(e) is None)
    for i in range(len(segs)):
        r = rng.random()
        if i in open_pos and len(segs[i]) >= 3 and rng.random() < 0.3 and not any(ch in segs[i] for ch in '*>,?:[]'):
            # a star inside a free value: head*tail, the two taken from the value itself and possibly overlapping in it ("ophel*lia"
            # does not match "ophelia": a star stands for a run of characters, never for a negative length)
            w = segs[i]
            k_, j_ = rng.randrange(1, len(w)), rng.randrange(1, len(w))
            segs[i] = w[:k_] + '*' + w[j_:]
            continue
        if r < 0.3:
            segs[i] = '*'
        elif r < 0.36 and allow_gt:
            segs[i] = '>'
        elif r < 0.45:
            segs[i] = segs[i] + ',' + rng.choice(NAMES + ['ma', 'v001', 'w'])
        elif r < 0.5 and segs[i]:
            segs[i] = segs[i][0] + '*'
    if rng.random() < 0.3 and len(segs) >= 2:
        i = rng.randrange(1, len(segs)); j = rng.randrange(i, len(segs) + 1)
        segs = segs[:i] + ['**'] + segs[j:]
    if rng.random() < 0.15 and vocab.alias:
        segs[-1] = rng.choice(list(vocab.alias))
    s = '/'.join(segs)
    if rng.random() < 0.25:
        k = rng.choice(vocab.all_keys())
        exprs = [e for tt in vocab.order for kk, e in vocab.types[tt] if kk == k]
        s += '?' + k + '=' + vocab.value(rng.choice(exprs), rng)
    return s

def seg_glob(pat, seg):
    """'*' matches any run of characters (no '/'), every other character matches itself"""
    if pat == '':
        return seg == ''
    if pat[0] == '*':
        return any(seg_glob(pat[1:], seg[i:]) for i in range(len(seg) + 1))
    return seg != '' and seg[0] == pat[0] and seg_glob(pat[1:], seg[1:])

def glob(pat, entry):
    ps, es = pat.split('/'), entry.split('/')
    return len(ps) == len(es) and all(seg_glob(p, e) for p, e in zip(ps, es))

def plain(s):
    return not (set(s) - SIMPLE - set('/?=&~'))
