(** C18: on version segments "vNNN" the path order used by the ">" search is the numeric order. *)
From Coq Require Import List String Ascii Bool Arith Lia.
From Spil Require Import Base.Str Base.Dict Base.Outcome Base.StrProofs Base.SplitProofs
  Conf.Conf Conf.Routing Sid.Query Sid.Sid Cache.OrderProofs
  Search.Unfold Search.UnfoldProofs Search.FindList Search.FindListProofs Search.Finders Search.FindersProofs
  Data.VersionProofs.
Import ListNotations.
Local Open Scope string_scope.
Local Open Scope list_scope.

Lemma vname_ltb n m : n < 1000 -> m < 1000 -> str_ltb (vname n) (vname m) = Nat.ltb n m.
Proof.
  intros Hn Hm. destruct (Nat.ltb_spec n m) as [H|H].
  - apply vname_monotone; assumption.
  - destruct (Nat.eq_dec n m) as [->|Hne]; [apply str_ltb_irrefl|].
    apply str_ltb_asym. apply vname_monotone; [lia | assumption].
Qed.

(** C2 *)
Theorem version_order_is_numeric pre post n m : n < 1000 -> m < 1000 ->
  segs_ltb (pre ++ [vname n] ++ post) (pre ++ [vname m] ++ post) = Nat.ltb n m.
Proof.
  intros Hn Hm. induction pre as [|x pre IH].
  - cbn [app segs_ltb]. rewrite (vname_ltb n m Hn Hm), (vname_ltb m n Hm Hn).
    destruct (Nat.ltb_spec n m) as [H|H]; [reflexivity|].
    destruct (Nat.ltb_spec m n) as [H'|H']; [reflexivity|]. apply segs_ltb_irrefl.
  - cbn [app segs_ltb]. rewrite str_ltb_irrefl. exact IH.
Qed.

Lemma firstn_length_app {A} (a b : list A) : firstn (List.length a) (a ++ b) = a.
Proof. induction a as [|x a IH]; simpl; [reflexivity | rewrite IH; reflexivity]. Qed.

(** the ">" answer over versions: the returned path of a group carries the numerically greatest
    version among all candidates that differ from it only in the version segment at the ">" position *)
Corollary sorted_search_g_greatest_version Ld star qs l q0 rest founds pre :
  sorted_search_g Ld star qs = Ok l -> qs = q0 :: rest ->
  index_of ">" (split_c "/" (s_string q0)) = Some (List.length pre) ->
  founds_of Ld star qs = Ok founds ->
  forall r e post n m, In r l -> In e founds ->
    split_c "/" r = pre ++ [vname n] ++ post ->
    split_c "/" e = pre ++ [vname m] ++ post ->
    n < 1000 -> m < 1000 -> m <= n.
Proof.
  intros H Hqs Hi Hf r e post n m Hr He Er Ee Hn Hm.
  pose proof (sorted_search_g_greatest Ld star qs l (List.length pre) q0 rest founds H Hqs Hi Hf r e Hr He) as Hge.
  rewrite Er, Ee in Hge. rewrite !firstn_length_app in Hge. specialize (Hge eq_refl).
  rewrite (version_order_is_numeric pre post n m Hn Hm) in Hge.
  apply Nat.ltb_ge in Hge. exact Hge.
Qed.

(* a search list containing a ">" is answered by the sorted search *)
Lemma do_find_g_sorted Ld star qs :
  existsb (fun q => Nat.ltb 0 (count ">" (s_string q))) qs = true ->
  do_find_g Ld star qs = sorted_search_g Ld star qs.
Proof. unfold do_find_g. destruct qs as [|q qs]; [discriminate|]. intros ->. reflexivity. Qed.

Corollary do_find_g_greatest_version Ld star qs l q0 rest founds pre :
  do_find_g Ld star qs = Ok l ->
  existsb (fun q => Nat.ltb 0 (count ">" (s_string q))) qs = true ->
  qs = q0 :: rest ->
  index_of ">" (split_c "/" (s_string q0)) = Some (List.length pre) ->
  founds_of Ld star qs = Ok founds ->
  forall r e post n m, In r l -> In e founds ->
    split_c "/" r = pre ++ [vname n] ++ post ->
    split_c "/" e = pre ++ [vname m] ++ post ->
    n < 1000 -> m < 1000 -> m <= n.
Proof.
  intros H Hex. rewrite (do_find_g_sorted Ld star qs Hex) in H.
  exact (sorted_search_g_greatest_version Ld star qs l q0 rest founds pre H).
Qed.
