(** Model of spil/util/caching.py (lru_cache, lru_kw_cache, hit_cache wrappers) and of
    functools.lru_cache (over-approximated: may forget any entry at any time).
    A cache is an insertion-ordered table; a cached function's body may itself use inner caches
    (state [S] with invariant [InvS]), which is how the wrappers nest in spil. *)
From Coq Require Import List Bool Arith Lia.
Import ListNotations.

Section Memo.
Variables (K V S : Type).
Variable keq : K -> K -> bool.          (* python: hash(a) == hash(b) and a == b *)
Variable f : K -> V.                    (* the pure function the wrapped body computes *)
Variable truthy : V -> bool.

(* the wrapped body: runs against the inner state *)
Variable body : K -> S -> V * S.
Variable InvS : S -> Prop.
Hypothesis body_pure : forall k s, InvS s -> fst (body k s) = f k /\ InvS (snd (body k s)).
(* key soundness: two calls that map to equal keys denote the same pure call *)
Hypothesis keq_sound : forall a b, keq a b = true -> f a = f b.

Definition table := list (K * V).

Fixpoint lookup (t : table) (k : K) : option V :=
  match t with
  | [] => None
  | (k', v) :: r => if keq k k' then Some v else lookup r k
  end.

Definition Inv (t : table) : Prop := Forall (fun kv => snd kv = f (fst kv)) t.

(* dict.popitem(): drops the most recently inserted entry *)
Definition popitem (t : table) : table := removelast t.

Definition make_room (max_size : nat) (t : table) : table :=
  if Nat.leb max_size (length t) then popitem t else t.

(* lru_cache / lru_kw_cache wrapper *)
Definition cached_call (max_size : nat) (st : table * S) (k : K) : V * (table * S) :=
  let (t, s) := st in
  match lookup t k with
  | Some v => (v, (t, s))
  | None =>
      let t' := make_room max_size t in
      let (v, s') := body k s in
      (v, (t' ++ [(k, v)], s'))
  end.

(* hit_cache wrapper: only truthy results are stored *)
Definition hit_cached_call (max_size : nat) (st : table * S) (k : K) : V * (table * S) :=
  let (t, s) := st in
  match lookup t k with
  | Some v => (v, (t, s))
  | None =>
      let t' := make_room max_size t in
      let (v, s') := body k s in
      if truthy v then (v, (t' ++ [(k, v)], s')) else (v, (t', s'))
  end.

(* functools.lru_cache, over-approximated: before answering it may have forgotten any entries *)
Definition forgetful_call (keep : K * V -> bool) (st : table * S) (k : K) : V * (table * S) :=
  let (t, s) := st in
  let t0 := filter keep t in
  match lookup t0 k with
  | Some v => (v, (t0, s))
  | None => let (v, s') := body k s in (v, (t0 ++ [(k, v)], s'))
  end.

Lemma lookup_inv t k v : Inv t -> lookup t k = Some v -> v = f k.
Proof.
  induction t as [|[k' v'] r IH]; simpl; intros Hi Hl; [discriminate|].
  unfold Inv in Hi. apply Forall_cons_iff in Hi. destruct Hi as [Hhd Htl]. simpl in Hhd.
  destruct (keq k k') eqn:E.
  - inversion Hl as [Hv]. rewrite <- Hv. rewrite Hhd. symmetry. apply keq_sound. exact E.
  - apply IH; [exact Htl | exact Hl].
Qed.

Lemma inv_removelast t : Inv t -> Inv (removelast t).
Proof.
  unfold Inv. induction t as [|x r IH]; simpl; intros H; [constructor|].
  destruct r as [|y r']; [constructor|].
  inversion H; subst. constructor; [assumption|]. apply IH. assumption.
Qed.

Lemma inv_make_room n t : Inv t -> Inv (make_room n t).
Proof. unfold make_room, popitem. intros H. destruct (Nat.leb n (length t)); [apply inv_removelast|]; exact H. Qed.

Lemma inv_snoc t k : Inv t -> Inv (t ++ [(k, f k)]).
Proof. unfold Inv. intros H. apply Forall_app. split; [exact H|]. constructor; [reflexivity|constructor]. Qed.

Lemma inv_filter keep t : Inv t -> Inv (filter keep t).
Proof.
  unfold Inv. rewrite !Forall_forall. intros H x Hx. apply filter_In in Hx. apply H. exact (proj1 Hx).
Qed.

Definition InvSt (st : table * S) : Prop := Inv (fst st) /\ InvS (snd st).

Theorem cached_call_pure n st k : InvSt st ->
  fst (cached_call n st k) = f k /\ InvSt (snd (cached_call n st k)).
Proof.
  destruct st as [t s]. intros [Ht Hs]. simpl in Ht, Hs. unfold cached_call.
  destruct (lookup t k) eqn:El.
  - simpl. split; [apply (lookup_inv t k v Ht El) | split; assumption].
  - destruct (body_pure k s Hs) as [Hv Hs']. destruct (body k s) as [v s'] eqn:Eb. simpl in Hv, Hs'. simpl.
    subst v. split; [reflexivity|]. split; simpl; [|exact Hs'].
    apply inv_snoc. apply inv_make_room. exact Ht.
Qed.

Theorem hit_cached_call_pure n st k : InvSt st ->
  fst (hit_cached_call n st k) = f k /\ InvSt (snd (hit_cached_call n st k)).
Proof.
  destruct st as [t s]. intros [Ht Hs]. simpl in Ht, Hs. unfold hit_cached_call.
  destruct (lookup t k) eqn:El.
  - simpl. split; [apply (lookup_inv t k v Ht El) | split; assumption].
  - destruct (body_pure k s Hs) as [Hv Hs']. destruct (body k s) as [v s'] eqn:Eb. simpl in Hv, Hs'.
    subst v. destruct (truthy (f k)); simpl; (split; [reflexivity|]); split; simpl; try exact Hs'.
    + apply inv_snoc. apply inv_make_room. exact Ht.
    + apply inv_make_room. exact Ht.
Qed.

Theorem forgetful_call_pure keep st k : InvSt st ->
  fst (forgetful_call keep st k) = f k /\ InvSt (snd (forgetful_call keep st k)).
Proof.
  destruct st as [t s]. intros [Ht Hs]. simpl in Ht, Hs. unfold forgetful_call.
  pose proof (inv_filter keep t Ht) as Ht0.
  destruct (lookup (filter keep t) k) eqn:El.
  - simpl. split; [apply (lookup_inv _ k v Ht0 El) | split; assumption].
  - destruct (body_pure k s Hs) as [Hv Hs']. destruct (body k s) as [v s'] eqn:Eb. simpl in Hv, Hs'. simpl.
    subst v. split; [reflexivity|]. split; simpl; [|exact Hs']. apply inv_snoc. exact Ht0.
Qed.

(* any history of calls through the wrapper, any capacity: every answer is the pure one *)
Fixpoint run (n : nat) (st : table * S) (ks : list K) : list V * (table * S) :=
  match ks with
  | [] => ([], st)
  | k :: r => let (v, st') := cached_call n st k in
              let (vs, st'') := run n st' r in (v :: vs, st'')
  end.

Theorem run_pure n : forall ks st, InvSt st -> fst (run n st ks) = map f ks /\ InvSt (snd (run n st ks)).
Proof.
  induction ks as [|k r IH]; intros st Hst; simpl; [split; [reflexivity|exact Hst]|].
  destruct (cached_call_pure n st k Hst) as [Hv Hst']. destruct (cached_call n st k) as [v st'] eqn:E. simpl in Hv, Hst'.
  destruct (IH st' Hst') as [Hvs Hst'']. destruct (run n st' r) as [vs st''] eqn:Er. simpl in Hvs, Hst''. simpl.
  subst. split; [reflexivity | exact Hst''].
Qed.

(* the answer to a call after any history equals its answer from the empty cache *)
Corollary history_independent n h k st0 :
  InvSt st0 -> Inv [] ->
  forall s1, InvS s1 ->
  fst (cached_call n (snd (run n st0 h)) k) = fst (cached_call n ([], s1) k).
Proof.
  intros H0 _ s1 Hs1.
  destruct (run_pure n h st0 H0) as [_ Hst].
  rewrite (proj1 (cached_call_pure n _ k Hst)).
  assert (Hst1 : InvSt ([], s1)) by (split; [constructor | exact Hs1]).
  rewrite (proj1 (cached_call_pure n _ k Hst1)). reflexivity.
Qed.

End Memo.
