(** Lemmas about Base/Str.v and Base/Dict.v. *)
From Coq Require Import List String Ascii Bool Arith Lia.
From Spil Require Import Base.Str Base.Dict.
Import ListNotations.
Local Open Scope string_scope.

Lemma in_list_In x l : in_list x l = true <-> In x l.
Proof.
  unfold in_list. rewrite existsb_exists. split.
  - intros (y & Hy & E). apply String.eqb_eq in E. subst. exact Hy.
  - intros H. exists x. split; [exact H | apply String.eqb_refl].
Qed.

Lemma in_list_false x l : in_list x l = false <-> ~ In x l.
Proof.
  rewrite <- in_list_In. destruct (in_list x l).
  - split; intros H; [discriminate | exfalso; apply H; reflexivity].
  - split; intros H; [intros H'; discriminate | reflexivity].
Qed.

Lemma app_assoc_s (a b c : string) : (a ++ b) ++ c = a ++ (b ++ c).
Proof. induction a as [|x a IH]; simpl; congruence. Qed.
Lemma app_nil_r_s (a : string) : a ++ "" = a.
Proof. induction a as [|x a IH]; simpl; congruence. Qed.
Lemma length_app_s (a b : string) : String.length (a ++ b) = String.length a + String.length b.
Proof. induction a as [|x a IH]; simpl; congruence. Qed.

Lemma NoDup_snoc {A} (l : list A) x : NoDup l -> ~ In x l -> NoDup (l ++ [x]).
Proof.
  induction l as [|y l IH]; simpl; intros Hn Hx.
  - constructor; [intros [] | constructor].
  - inversion Hn as [|? ? Hy Hl]; subst. constructor.
    + rewrite in_app_iff. intros [H|[H|[]]]; [apply Hy; exact H | apply Hx; left; symmetry; exact H].
    + apply IH; [exact Hl | intros H; apply Hx; right; exact H].
Qed.

Section DictLemmas.
Context {V : Type}.

Lemma dset_keys (d : dict V) k v :
  map fst (dset d k v) = if in_list k (map fst d) then map fst d else (map fst d ++ [k])%list.
Proof.
  induction d as [|[k' v'] d IH]; simpl.
  - reflexivity.
  - rewrite (String.eqb_sym k k'). destruct (String.eqb k' k) eqn:E; simpl.
    + reflexivity.
    + rewrite IH. destruct (in_list k (map fst d)); reflexivity.
Qed.

Lemma dset_new (d : dict V) k v : ~ In k (map fst d) -> dset d k v = (d ++ [(k, v)])%list.
Proof.
  induction d as [|[k' v'] d IH]; simpl; intros H.
  - reflexivity.
  - destruct (String.eqb k k') eqn:E.
    + apply String.eqb_eq in E. subst. exfalso. apply H. left. reflexivity.
    + f_equal. apply IH. intros H'. apply H. right. exact H'.
Qed.

Lemma dset_nodup (d : dict V) k v : NoDup (map fst d) -> NoDup (map fst (dset d k v)).
Proof.
  intros H. rewrite dset_keys. destruct (in_list k (map fst d)) eqn:E.
  - exact H.
  - apply in_list_false in E.
    apply NoDup_snoc; assumption.
Qed.

End DictLemmas.

(* a fold_left invariant indexed by the already processed prefix *)
Lemma fold_left_inv {A B} (f : B -> A -> B) (P : list A -> B -> Prop) (l : list A) (init : B) :
  P [] init ->
  (forall done x todo acc, l = (done ++ x :: todo)%list -> P done acc -> P (done ++ [x])%list (f acc x)) ->
  P l (fold_left f l init).
Proof.
  intros H0 Hs.
  assert (G : forall todo done acc, l = (done ++ todo)%list -> P done acc -> P l (fold_left f todo acc)).
  { induction todo as [|x todo IH]; intros done acc E HP; simpl.
    - rewrite app_nil_r in E. subst. exact HP.
    - apply (IH (done ++ [x])%list).
      + rewrite <- app_assoc. simpl. exact E.
      + apply (Hs done x todo acc E HP). }
  apply (G l [] init); auto.
Qed.
