(** C17 — an interrupted attribute write leaves the old or the new data, never a ruin.  Property theorems only.
    Data/Crash.v: the file-system effects of the (repaired) write = temporary sibling written in any number of chunks,
    then an atomic replace; a crash = any prefix of that list.  The tie: the harness intercepts pathlib / os in the
    implementation, injects the crash at each point, compares the real tree with the model tree and reads back. *)
From Coq Require Import List String Ascii Bool Arith.
From Spil Require Import Base.Str Base.Dict Base.Outcome Base.PyPath Resolva.Resolver Conf.Conf Conf.Routing Conf.WF Sid.Sid
  Search.Unfold Search.Finders FS.Fs Data.Data Data.Crash Path.PathProofs Data.DataProofs Data.CrashProofs.
From SpilGen Require Hamlet.
Import ListNotations.
Local Open Scope string_scope.

(* at EVERY crash point the sidecar holds the complete old or the complete new data; nothing else but the temporary file changes *)
Theorem C17_atomic : forall f dp new chunks n,
  let f' := crash_at f (write_effects dp new chunks) n in
  (fs_get f' dp = fs_get f dp \/ fs_get f' dp = Some (File (CJson new))) /\
  (forall q, q <> dp -> q <> tmp_of dp -> fs_get f' q = fs_get f q).
Proof. exact crash_atomic. Qed.
Print Assumptions C17_atomic.

Theorem C17_read_old_or_new : forall f dp new chunks n,
  let f' := crash_at f (write_effects dp new chunks) n in
  read_sidecar f' dp = read_sidecar f dp \/ read_sidecar f' dp = Some new.
Proof. exact crash_read_old_or_new. Qed.
Print Assumptions C17_read_old_or_new.

(* the write of the pinned tree (truncate the sidecar itself, then write) is refuted: the repaired defect D16 *)
Theorem C17_in_place_write_refuted : exists f dp new chunks n old,
  read_sidecar f dp = Some old /\
  read_sidecar (crash_at f (write_effects_in_place dp new chunks) n) dp <> Some old /\
  read_sidecar (crash_at f (write_effects_in_place dp new chunks) n) dp <> Some new.
Proof. exact in_place_write_refuted. Qed.
Print Assumptions C17_in_place_write_refuted.

(* a sidecar that is unreadable, empty, not valid JSON or a directory reads as "no stored data" (just the sid entry) *)
Theorem C17_tolerant_read : forall F dp, (forall d, fs_get F dp <> Some (File (CJson d))) -> load_sidecar F dp = [].
Proof.
  intros F dp H. unfold load_sidecar. destruct (fs_get F dp) as [[|[|d|]|]|] eqn:E; try reflexivity.
  exfalso. exact (H d eq_refl).
Qed.
Print Assumptions C17_tolerant_read.
