(** C12 — exists, find_one, children and siblings agree with find.  Property theorems only (Finder level, list-backed;
    the Sid-level clauses over the file system are exercised by correspondence in the data checks). *)
From Coq Require Import List String Ascii Bool Arith Permutation Sorted.
From Spil Require Import Base.Str Base.Dict Base.Outcome Regex.Re Conf.Conf Conf.WF Sid.Sid
  Search.Unfold Search.FindList Search.GlobProofs Search.FindListProofs Search.UnfoldProofs.
From SpilGen Require Hamlet.
Import ListNotations.
Local Open Scope string_scope.

Theorem C12_find_one : forall L items s o, find_one L items s = Ok o ->
  exists l, find_list L items s = Ok l /\ o = hd_error l.
Proof. exact find_one_spec. Qed.
Print Assumptions C12_find_one.

Theorem C12_exists : forall L items s b, ~ In "" items -> exists_ L items s = Ok b ->
  exists l, find_list L items s = Ok l /\ b = negb (match l with [] => true | _ => false end).
Proof. exact exists_nonempty. Qed.
Print Assumptions C12_exists.

(* as_sid=False yields exactly the strings of the as_sid=True results *)
Theorem C12_as_sid : forall c Ld, load c = Some Ld -> wf_loadedb Ld = true ->
  forall items s xs, Forall plain_entry items -> find_list_sids Ld items s = Ok xs ->
  exists l, find_list Ld items s = Ok l /\ map s_string xs = l.
Proof. exact find_list_sids_strings_items. Qed.
Print Assumptions C12_as_sid.

(* the guard of C12_exists is needed: the recorded edge (D20) *)
Example C12_exists_empty_string_refuted :
  exists_ Hamlet.the_loaded [""] "*" = Ok false /\ find_list Hamlet.the_loaded [""] "*" = Ok [""].
Proof. vm_compute. split; reflexivity. Qed.
Print Assumptions C12_exists_empty_string_refuted.
