(** C11: "searching the file tree = searching the list of existing Sids": definitions and guards
    (proofs are in Search/TreeGlob.v, TreePattern.v, TreeListProofs.v, TreeJunk.v). *)
From Coq Require Import List String Ascii Bool Arith.
From Spil Require Import Base.Str Base.Dict Base.Outcome Base.PyPath Regex.Re
  Resolva.Template Resolva.Resolver Conf.ConfUtil Conf.Conf Conf.WF Sid.Query Sid.Sid Sid.TypingSpec
  Sid.SidProofs Path.UnambiguousDefs FS.Fs Search.Finders.
Import ListNotations.
Local Open Scope string_scope.

(** ** The field check of FindInPaths.star_search (third conjunct of [FindersProofs.accepts]) *)

Definition fields_match (q x : sid) : bool :=
  forallb (fun kv => let pat := replace ">" "*" (snd kv) in
                     let val := match sid_get x (fst kv) with Some w => w | None => "None" end in
                     fn_match (S (String.length pat + String.length val)) pat val)
          (s_fields q).

(** ** Search Sids *)

(* a typed search Sid as produced by unfolding: Sid("type:string"), i.e. the template named by the type
   accepts the string and gives the fields (every naturally typed Sid is one) *)
Definition typed_search (Ld : Loaded) (q : sid) : Prop :=
  forced Ld (s_type q) (s_string q) = Some (s_type q, s_fields q).

Fixpoint dict_eqb (a b : dict string) : bool :=
  match a, b with
  | [], [] => true
  | (k, v) :: a', (k', v') :: b' => String.eqb k k' && String.eqb v v' && dict_eqb a' b'
  | _, _ => false
  end.

Definition typed_searchb (Ld : Loaded) (q : sid) : bool :=
  match forced Ld (s_type q) (s_string q) with
  | Some (t, d) => String.eqb t (s_type q) && dict_eqb d (s_fields q)
  | None => false
  end.

(* star search: no ">" in a value *)
Definition no_gtb (q : sid) : bool := forallb (fun kv => negb (mem_c ">" (snd kv))) (s_fields q).

Definition glob_magic (v : string) : bool := mem_c "*" v || mem_c "?" v.

(* a key that goes through the path mapping is searched either by a literal value or by a whole "*"
   (which the mapping leaves alone): "h*" on a mapped key globs the sid value "hamlet" in the list
   but not the path value "HAMLET" in the tree *)
Definition search_map_okb (lp : LoadedPath) (q : sid) : bool :=
  forallb (fun kv => match dget (pc_mapping (lp_conf lp)) (fst kv) with
                     | Some ((_ :: _) as m) =>
                         negb (glob_magic (snd kv))
                         || (String.eqb (snd kv) "*" && String.eqb (get_key m "*") "*")
                     | _ => true
                     end) (s_fields q).

(* the search formats to a path pattern (PathSid.path is not None) *)
Definition has_patternb (Ld : Loaded) (cfg : string) (q : sid) : bool :=
  match sid_path Ld q cfg with Ok (Some _) => true | _ => false end.

Definition search_okb (Ld : Loaded) (cfg : string) (q : sid) : bool :=
  path_values_okb q && no_gtb q && has_patternb Ld cfg q &&
  match get_path_config Ld cfg with Ok pc => search_map_okb pc q | Raise _ => false end.

Definition pattern_str (po : option string) : string := match po with Some p => p | None => "None" end.

(* FindInPaths skips a search whose (type, pattern) was already globbed: two searches of the list with the
   same type and the same pattern have the same fields (so the skipped one would have found the same) *)
Definition pat_inj (Ld : Loaded) (cfg : string) (qs : list sid) : Prop :=
  forall q q' po po', In q qs -> In q' qs -> s_type q = s_type q' ->
    sid_path Ld q cfg = Ok po -> sid_path Ld q' cfg = Ok po' -> pattern_str po = pattern_str po' ->
    s_fields q = s_fields q'.

Definition pat_injb (Ld : Loaded) (cfg : string) (qs : list sid) : bool :=
  forallb (fun q => forallb (fun q' =>
    match sid_path Ld q cfg, sid_path Ld q' cfg with
    | Ok po, Ok po' =>
        negb (String.eqb (s_type q) (s_type q') && String.eqb (pattern_str po) (pattern_str po'))
        || dict_eqb (s_fields q) (s_fields q')
    | _, _ => true
    end) qs) qs.

(** ** The data set: a list of Sids E and a file system F that holds exactly their paths (plus junk) *)

(* glob's "*" and "?" do not match a leading "." of a path component *)
Definition no_hiddenb (p : string) : bool := forallb (fun c => negb (is_hidden c)) (split_c "/" p).

Record dataset_ok (Ld : Loaded) (cfg : string) (E : list sid) (F : fs) : Prop := {
  ds_nat : forall e, In e E -> naturally_typed Ld e;
  ds_conc : forall e, In e E -> concrete Ld e;
  ds_vals : forall e, In e E -> path_values_ok e;
  ds_path : forall e, In e E ->
    exists p, sid_path Ld e cfg = Ok (Some p) /\ In p (dkeys F) /\ no_hiddenb p = true;
  (* everything else in F is junk: a path that resolves to a non-empty Sid resolves to a member of E *)
  ds_only : forall p x, In p (dkeys F) -> sid_factory Ld (FromPath p cfg) = Ok x -> sid_bool x = true -> In x E
}.

Definition sid_eqb_full (x y : sid) : bool :=
  String.eqb (s_string x) (s_string y) && String.eqb (s_type x) (s_type y) && dict_eqb (s_fields x) (s_fields y).

Definition nat_typedb (Ld : Loaded) (x : sid) : bool :=
  match natural Ld (s_string x) with
  | Some (t, d) => String.eqb t (s_type x) && dict_eqb d (s_fields x)
  | None => false
  end.

Definition dataset_okb (Ld : Loaded) (cfg : string) (E : list sid) (F : fs) : bool :=
  forallb (fun e => nat_typedb Ld e && concreteb Ld e && path_values_okb e &&
                    match sid_path Ld e cfg with
                    | Ok (Some p) => in_list p (dkeys F) && no_hiddenb p
                    | _ => false
                    end) E
  && forallb (fun p => match sid_factory Ld (FromPath p cfg) with
                       | Ok x => negb (sid_bool x) || existsb (sid_eqb_full x) E
                       | Raise _ => true
                       end) (dkeys F).
