(** Every wrapper that a descriptor accepted by [desc_okb] denotes is transparent: whatever the eviction policy, the storing
    policy and the capacity, every answer after any history is the answer of the pure function; and the key such a
    descriptor computes determines the call that is forwarded.  The two rejected shapes are refuted by witnesses. *)
From Coq Require Import List String Ascii Bool Arith Lia.
From Spil Require Import Base.Str Base.Dict Cache.Memo Cache.Wiring Cache.Desc.
Import ListNotations.
Local Open Scope string_scope.

Section Machine.
Variables (K V S : Type).
Variable keq : K -> K -> bool.
Variable f : K -> V.
Variable truthy : V -> bool.
Variable body : K -> S -> V * S.
Variable InvS : S -> Prop.
Hypothesis body_pure : forall k s, InvS s -> fst (body k s) = f k /\ InvS (snd (body k s)).
Hypothesis keq_sound : forall a b, keq a b = true -> f a = f b.

Notation Inv := (Inv K V f).
Notation InvSt := (InvSt K V S f InvS).

Lemma inv_evict e n t : Inv t -> Inv (evict K V e n t).
Proof.
  intros H. unfold evict. destruct (Nat.leb n (List.length t)); [|exact H].
  destruct e; [apply (inv_removelast K V f); exact H | constructor | exact H].
Qed.

Theorem desc_call_pure e st n s k : InvSt s ->
  fst (desc_call K V S keq truthy body e st n s k) = f k /\ InvSt (snd (desc_call K V S keq truthy body e st n s k)).
Proof.
  destruct s as [t s0]. intros [Ht Hs]. simpl in Ht, Hs. unfold desc_call.
  destruct (lookup K V keq t k) eqn:El.
  - simpl. split; [apply (lookup_inv K V keq f keq_sound t k v Ht El) | split; assumption].
  - destruct (body_pure k s0 Hs) as [Hv Hs']. destruct (body k s0) as [v s'] eqn:Eb. simpl in Hv, Hs'. subst v.
    pose proof (inv_evict e n t Ht) as Ht'.
    destruct st.
    + simpl. split; [reflexivity|]. split; simpl; [|exact Hs']. apply (inv_snoc K V f). exact Ht'.
    + destruct (truthy (f k)); simpl; (split; [reflexivity|]); split; simpl; try exact Hs'; try exact Ht'.
      apply (inv_snoc K V f). exact Ht'.
Qed.

Theorem desc_run_pure e st n : forall ks s, InvSt s ->
  fst (desc_run K V S keq truthy body e st n s ks) = map f ks /\ InvSt (snd (desc_run K V S keq truthy body e st n s ks)).
Proof.
  induction ks as [|k r IH]; intros s Hs; simpl; [split; [reflexivity|exact Hs]|].
  destruct (desc_call_pure e st n s k Hs) as [Hv Hs']. destruct (desc_call K V S keq truthy body e st n s k) as [v s'] eqn:E.
  simpl in Hv, Hs'. destruct (IH s' Hs') as [Hvs Hs'']. destruct (desc_run K V S keq truthy body e st n s' r) as [vs s''] eqn:Er.
  simpl in Hvs, Hs''. simpl. subst. split; [reflexivity | exact Hs''].
Qed.

(* the answer after any history = the answer from the empty cache *)
Corollary desc_history_independent e st n h k s0 s1 : InvSt s0 -> InvS s1 ->
  fst (desc_call K V S keq truthy body e st n (snd (desc_run K V S keq truthy body e st n s0 h)) k)
  = fst (desc_call K V S keq truthy body e st n ([], s1) k).
Proof.
  intros H0 H1. destruct (desc_run_pure e st n h s0 H0) as [_ Hst].
  rewrite (proj1 (desc_call_pure e st n _ k Hst)).
  assert (Hst1 : InvSt ([], s1)) by (split; [constructor | exact H1]).
  rewrite (proj1 (desc_call_pure e st n _ k Hst1)). reflexivity.
Qed.
End Machine.

(** Key soundness per key form *)

(* a call the wrapper can receive: keywords only when it accepts them *)
Definition admissible (d : wrapper_desc) (c : call) : Prop := wd_kw d = false -> c_kw c = [].

Theorem desc_key_sound d params c1 c2 : desc_okb d = true ->
  admissible d c1 -> admissible d c2 ->
  NoDup (map fst (c_kw c1)) -> NoDup (map fst (c_kw c2)) ->
  key_under (wd_key d) c1 = key_under (wd_key d) c2 -> bind params c1 = bind params c2.
Proof.
  intros Hok A1 A2 N1 N2 E. unfold desc_okb in Hok. apply andb_true_iff in Hok. destruct Hok as [_ Hk].
  destruct (wd_key d) eqn:Ek; cbn [key_under] in E.
  - apply (key_sound params c1 c2 N1 N2). unfold keyof. inversion E. reflexivity.
  - apply negb_true_iff in Hk. specialize (A1 Hk). specialize (A2 Hk).
    destruct c1 as [p1 k1], c2 as [p2 k2]. cbn in *. subst. inversion E. reflexivity.
  - apply negb_true_iff in Hk. specialize (A1 Hk). specialize (A2 Hk).
    destruct c1 as [p1 k1], c2 as [p2 k2]. cbn in *. subst. inversion E. reflexivity.
Qed.

(* a wrapper that takes keywords but keys on their names only, or on the positional arguments only, is not sound *)
Theorem desc_names_only_refuted : exists params c1 c2,
  key_under KNamesOnly c1 = key_under KNamesOnly c2 /\ bind params c1 <> bind params c2.
Proof.
  exists [("path", ANone); ("_type", ANone); ("config", ANone)],
         (mkCall [AStr "/p"] [("config", AStr "local")]), (mkCall [AStr "/p"] [("config", AStr "server")]).
  split; [reflexivity | discriminate].
Qed.

Theorem desc_args_only_refuted : exists params c1 c2,
  key_under KArgs c1 = key_under KArgs c2 /\ bind params c1 <> bind params c2.
Proof.
  exists [("path", ANone); ("_type", ANone); ("config", ANone)],
         (mkCall [AStr "/p"] [("config", AStr "local")]), (mkCall [AStr "/p"] [("config", AStr "server")]).
  split; [reflexivity | discriminate].
Qed.

(* a wrapper that accepts keywords and does not forward them (or the converse) is rejected *)
Lemma desc_ok_forwards d : desc_okb d = true -> wd_kw d = wd_pass_kw d.
Proof. unfold desc_okb. intros H. apply andb_true_iff in H. destruct H as [H _]. apply eqb_prop. exact H. Qed.
