(** C02 / C03 without the "no newline in the string" guard of Sid/SidProofs.v.

    [roundtrip_fields_full], [get_as_prefix_full], [div_parent_full]: the statements of
    [roundtrip_fields], [get_as_prefix], [div_parent] where [mem_c "010" (s_string x) = false]
    is replaced by the decidable guard [nl_ok] (Sid/NewlineLemmas.v): the first template, in
    configuration order, that has the keys of the data and whose reverse check ("$" of python: also
    before a final newline) passes on the formatted string, accepts that string.

    - The guard is NECESSARY AND SUFFICIENT ([roundtrip_fields_iff]): a fully unguarded statement
      is false of the model (Sid/NewlineRefute.v gives a loadable, well-formed configuration and a
      naturally typed Sid on which all three fail).
    - The guard holds whenever the relevant string does not END with a newline (newlines inside
      are harmless): [nl_ok_no_trailing]; hence the old theorems are corollaries.
    - The guard holds for every Sid of a configuration in which no template with a closed last
      placeholder comes before a template with the same keys and an open last placeholder
      ([nl_safe], Sid/NewlineConf.v: decidable, true of the live configuration, gen/HamletNewline.v):
      [roundtrip_fields_conf], [get_as_prefix_conf], [div_parent_conf] are unguarded there. *)
From Coq Require Import List String Ascii Bool Arith Lia Permutation.
From Spil Require Import Base.Str Base.Dict Base.Outcome Base.Tree Base.StrProofs Base.SplitProofs
  Regex.Re Regex.MatchProofs Resolva.Template Resolva.Resolver Conf.ConfUtil Conf.Conf Conf.WF
  Sid.Query Sid.Sid Sid.TypingSpec Sid.TypingProofs Sid.SidLemmas Sid.SidProofs Sid.NewlineLemmas.
Import ListNotations.
Local Open Scope string_scope.

Section Proofs.
Variables (c : Conf) (Ld : Loaded).
Hypothesis Hload : load c = Some Ld.
Hypothesis Hwf : wf_loadedb Ld = true.

Local Notation tpls := (r_tpls (l_sid Ld)).
Local Notation r := (l_sid Ld).
Local Notation names t := (item_names (tp_items t)).

(** * C02: fields round trip *)

(* what the factory gives on a reordering of the fields of a naturally typed Sid *)
Lemma roundtrip_fields_value x d' : naturally_typed Ld x -> Permutation (s_fields x) d' ->
  sid_factory Ld (FromFields d') =
  Ok (if nl_ok Ld (map fst (s_fields x)) (s_string x) then x else empty_sid).
Proof.
  intros H Hp.
  destruct (nat_parts Ld x H) as (Hs & pre & tp & post & E & Hin & Hn & Ha & Hpre).
  destruct (accepts_fields Ld Hwf tp _ _ Hin Ha) as (Hfst & _ & Hne & Hstr).
  pose proof (nat_nodup Ld Hwf x H) as Hnd.
  assert (Hd' : d' <> []).
  { intros ->. apply Permutation_sym, Permutation_nil in Hp. congruence. }
  assert (Hjs : join "/" (map snd (s_fields x)) <> "") by (rewrite <- Hstr; exact Hs).
  pose proof (sid_of_fields_spec c Ld Hload Hwf (s_fields x) d' tp Hne Hnd Hin (eq_sym Hfst) Hjs Hp)
    as Hspec.
  rewrite <- Hstr in Hspec.
  assert (Hgoal : sid_of_fields Ld d' =
                  Ok (if nl_ok Ld (map fst (s_fields x)) (s_string x) then x else empty_sid)).
  { rewrite Hspec. unfold nl_ok.
    destruct (first_hit Ld (map fst (s_fields x)) (s_string x)) as [t|] eqn:Ef.
    - destruct (accepts t (s_string x)) as [d0|] eqn:Ea0; [|reflexivity].
      (* the first hit is accepted: it is the template that types x *)
      assert (Et : t = tp).
      { unfold first_hit in Ef. rewrite E, find_app_s in Ef.
        destruct (find _ pre) as [t1|] eqn:Epre.
        - inversion Ef; subst t1. apply find_some in Epre. destruct Epre as (Hin1 & _).
          rewrite (Hpre t Hin1) in Ea0. discriminate.
        - cbn [find] in Ef. unfold hit_sel at 1 in Ef.
          rewrite <- Hfst, strs_eqb_refl, (rc_hit_accepts c Ld Hload Hwf tp _ _ Hin Ha) in Ef.
          cbn [andb] in Ef. congruence. }
      subst t. rewrite Ha in Ea0. inversion Ea0; subst d0. rewrite Hn. destruct x; reflexivity.
    - exfalso. destruct (first_hit_some c Ld Hload Hwf tp _ _ Hin Ha) as (t & Et).
      rewrite <- Hfst in Et. congruence. }
  unfold sid_factory. destruct d'; [congruence | exact Hgoal].
Qed.

Theorem roundtrip_fields_full x d' : naturally_typed Ld x ->
  nl_ok Ld (map fst (s_fields x)) (s_string x) = true ->
  Permutation (s_fields x) d' -> sid_factory Ld (FromFields d') = Ok x.
Proof. intros H Hg Hp. rewrite (roundtrip_fields_value x d' H Hp), Hg. reflexivity. Qed.

(* the guard is the weakest possible *)
Theorem roundtrip_fields_iff x d' : naturally_typed Ld x -> Permutation (s_fields x) d' ->
  (sid_factory Ld (FromFields d') = Ok x <->
   nl_ok Ld (map fst (s_fields x)) (s_string x) = true).
Proof.
  intros H Hp. rewrite (roundtrip_fields_value x d' H Hp). split.
  - destruct (nl_ok Ld _ _); [reflexivity|]. intros E. exfalso.
    destruct (nat_parts Ld x H) as (Hs & _). inversion E as [Ex]. rewrite <- Ex in Hs.
    apply Hs. reflexivity.
  - intros ->. reflexivity.
Qed.

(** * C03: hierarchy *)

(* newline-tolerant [fields_hit] *)
Lemma fields_hit_full (dd : dict string) tq :
  dd <> [] -> NoDup (map fst dd) ->
  Forall (fun v => mem_c "/" v = false) (map snd dd) ->
  nl_ok Ld (map fst dd) (join "/" (map snd dd)) = true ->
  join "/" (map snd dd) <> "" ->
  In tq tpls -> names tq = map fst dd -> accepts tq (join "/" (map snd dd)) <> None ->
  exists n, sid_of_fields Ld dd = Ok (mkSid (join "/" (map snd dd)) n dd) /\
            forced Ld n (join "/" (map snd dd)) = Some (n, dd).
Proof.
  intros Hdd Hnd Hsl Hg Hne Hq Hnq Haq.
  pose proof (sid_of_fields_spec c Ld Hload Hwf dd dd tq Hdd Hnd Hq Hnq Hne (Permutation_refl dd))
    as Hspec.
  set (s' := join "/" (map snd dd)) in *.
  assert (Hsplit : split_c "/" s' = map snd dd).
  { unfold s'. apply (split_c_join "/"); [|exact Hsl]. destruct dd; [congruence | discriminate]. }
  unfold nl_ok in Hg.
  destruct (first_hit Ld (map fst dd) s') as [t|] eqn:Ef.
  - destruct (accepts t s') as [d0|] eqn:Ea0; [|discriminate].
    destruct (first_hit_inv Ld _ _ _ Ef) as (Hin & Hn & _).
    destruct (accepts_inv Ld Hwf t s' d0 Hin Ea0) as (Ed0 & _).
    rewrite Hn, Hsplit, combine_fst_snd in Ed0. subst d0.
    exists (tp_name t). split; [exact Hspec|].
    rewrite (forced_name c Ld Hload Hwf t s' Hin Hne), Ea0. reflexivity.
  - exfalso. destruct (accepts tq s') as [dq|] eqn:Eq; [|congruence].
    destruct (first_hit_some c Ld Hload Hwf tq s' dq Hq Eq) as (t & Et).
    rewrite Hnq in Et. congruence.
Qed.

(* the guard of the prefix of length i *)
Definition nl_ok_prefix (x : sid) (i : nat) : bool :=
  nl_ok Ld (firstn i (map fst (s_fields x))) (join "/" (firstn i (split_c "/" (s_string x)))).

Lemma prefix_fields_full x i : naturally_typed Ld x -> nl_ok_prefix x i = true ->
  1 <= i <= List.length (s_fields x) ->
  exists n, sid_of_fields Ld (firstn i (s_fields x)) =
            Ok (mkSid (join "/" (firstn i (split_c "/" (s_string x)))) n (firstn i (s_fields x))) /\
            forced Ld n (join "/" (firstn i (split_c "/" (s_string x)))) = Some (n, firstn i (s_fields x)).
Proof.
  intros H Hg Hi. unfold nl_ok_prefix in Hg.
  destruct (nat_parts Ld x H) as (Hs & pre & tp & post & _ & Hin & _ & Ha & _).
  destruct (accepts_fields Ld Hwf tp _ _ Hin Ha) as (Hfst & Hsnd & Hne & _).
  pose proof (nat_nodup Ld Hwf x H) as Hnd.
  destruct (tpl_parts Ld Hwf tp Hin) as (Hsh & _ & ps & Hps & _ & Hpn).
  set (d := s_fields x) in *. set (s := s_string x) in *.
  assert (Hlen : List.length (names tp) = List.length d) by (rewrite <- Hfst, map_length; reflexivity).
  destruct (prefix_tpl Ld Hwf tp (i - 1) Hin) as (tq & Hq & Hitems); [lia|].
  assert (Hi1 : i - 1 + 1 = i) by lia.
  assert (Hnq : names tq = map fst (firstn i d)).
  { rewrite Hitems, (names_firstn _ Hsh), Hi1, <- Hfst, firstn_map. reflexivity. }
  assert (Hsnd' : map snd (firstn i d) = firstn i (split_c "/" s)).
  { rewrite <- firstn_map, Hsnd. reflexivity. }
  rewrite <- Hsnd'. rewrite <- Hsnd', firstn_map in Hg.
  assert (Hsl : Forall (fun v => mem_c "/" v = false) (map snd (firstn i d))).
  { rewrite Hsnd'. apply Forall_firstn. apply split_c_nomem_all. }
  assert (Hdd : firstn i d <> []) by (apply firstn_ne; [lia | exact Hne]).
  assert (Hne' : join "/" (map snd (firstn i d)) <> "").
  { pose proof (first_seg_nonempty Ld Hwf tp s _ Hin Ha) as Hg0.
    rewrite Hsnd'. destruct (split_c "/" s) as [|g segs]; cbn [hd] in Hg0; [congruence|].
    destruct i as [|i]; [lia|]. cbn [firstn].
    destruct (firstn i segs); [exact Hg0|]. rewrite join_cons2. destruct g; [congruence | discriminate]. }
  apply (fields_hit_full (firstn i d) tq Hdd).
  - rewrite <- firstn_map. apply NoDup_firstn. exact Hnd.
  - exact Hsl.
  - exact Hg.
  - exact Hne'.
  - exact Hq.
  - exact Hnq.
  - unfold accepts. rewrite Hitems, (phs_firstn _ Hsh ps (i - 1) Hps), Hi1. cbv zeta.
    assert (Hmne : map snd (firstn i d) <> []) by (intros E; apply map_eq_nil in E; congruence).
    pose proof (split_c_join "/" _ Hmne Hsl) as Hsj. unfold str1 in Hsj. rewrite Hsj.
    unfold accepts in Ha. rewrite Hps in Ha. cbv zeta in Ha.
    destruct (segs_ok ps (split_c "/" s)) eqn:Eok; [|discriminate].
    rewrite Hsnd', (segs_ok_firstn i _ _ Eok). discriminate.
Qed.

Theorem get_as_prefix_full x i : naturally_typed Ld x -> nl_ok_prefix x i = true ->
  1 <= i <= List.length (s_fields x) ->
  exists y, get_as Ld x (nth (i - 1) (map fst (s_fields x)) "") = Ok y /\
    s_fields y = firstn i (s_fields x) /\
    s_string y = join "/" (firstn i (split_c "/" (s_string x))) /\
    sid_bool y = true.
Proof.
  intros H Hg Hi.
  destruct (prefix_fields_full x i H Hg Hi) as (n & Hsf & _).
  pose proof (nat_nodup Ld Hwf x H) as Hnd.
  exists (mkSid (join "/" (firstn i (split_c "/" (s_string x)))) n (firstn i (s_fields x))).
  split; [|split; [reflexivity | split; [reflexivity|]]].
  - assert (Hm : dmem (s_fields x) (nth (i - 1) (map fst (s_fields x)) "") = true).
    { unfold dmem. destruct (dget (s_fields x) (nth (i - 1) (map fst (s_fields x)) "")) eqn:E; [reflexivity|].
      exfalso. apply dget_None_keys in E. apply E. apply nth_In. rewrite map_length. lia. }
    unfold get_as.
    destruct (s_fields x) as [|p d0] eqn:Ed; [simpl in Hi; lia|].
    rewrite Hm. rewrite (fields_upto_nth _ (i - 1) Hnd) by lia.
    replace (S (i - 1)) with i by lia.
    unfold sid_factory. destruct i as [|i]; [lia|]. exact Hsf.
  - unfold sid_bool. cbn [s_fields]. destruct i; [lia|].
    destruct (s_fields x); [simpl in Hi; lia | reflexivity].
Qed.

(* guards: no "?" and no ":" in the string (so that the string alone is read back plainly);
   the newline guard concerns the PARENT's string only *)
Theorem div_parent_full x y : naturally_typed Ld x ->
  1 < List.length (s_fields x) ->
  mem_c "?" (s_string x) = false -> mem_c ":" (s_string x) = false ->
  nl_ok_prefix x (List.length (s_fields x) - 1) = true ->
  parent Ld x = Ok y ->
  sid_div Ld y (last (map snd (s_fields x)) "") = Ok x.
Proof.
  intros H Hn Hq Hc Hg Hp.
  destruct (parent_spec c Ld Hload Hwf x H) as (Hps & _). rewrite (Hps Hn) in Hp.
  destruct (get_as_prefix_full x (List.length (s_fields x) - 1) H Hg) as (y' & Hy' & _ & Hstr & _); [lia|].
  replace (List.length (s_fields x) - 1 - 1) with (List.length (s_fields x) - 2) in Hy' by lia.
  rewrite Hy' in Hp. inversion Hp; subst y'. clear Hp.
  unfold sid_div. rewrite Hstr.
  destruct (nat_parts Ld x H) as (_ & pre & tp & post & _ & Hin & _ & Ha & _).
  destruct (accepts_fields Ld Hwf tp _ _ Hin Ha) as (_ & Hsnd & Hne & _).
  rewrite Hsnd.
  assert (Hlen : List.length (split_c "/" (s_string x)) = List.length (s_fields x)).
  { rewrite <- Hsnd, map_length. reflexivity. }
  assert (Es : join "/" (firstn (List.length (s_fields x) - 1) (split_c "/" (s_string x))) ++ sip ++
               last (split_c "/" (s_string x)) "" = s_string x).
  { rewrite <- (join_split_c "/" (s_string x)) at 3.
    rewrite (firstn_last (split_c "/" (s_string x)) (split_c_not_nil _ _)) at 3.
    rewrite Hlen. unfold sip. symmetry. apply join_snoc.
    apply firstn_ne; [lia | apply split_c_not_nil]. }
  rewrite Es. rewrite (Sid_plain c Ld Hload Hwf _ Hq Hc). unfold naturally_typed in H. rewrite H.
  destruct x; reflexivity.
Qed.

End Proofs.
