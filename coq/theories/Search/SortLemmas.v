(** Generic facts used by Search/FindListProofs.v and Search/UnfoldProofs.v:
    insertion sort w.r.t. a total transitive boolean order, [mapM], [concat_mapM], [nodup_s]. *)
From Coq Require Import List String Ascii Bool Arith Lia Permutation Sorted.
From Spil Require Import Base.Str Base.StrProofs Base.Outcome Search.Unfold.
Import ListNotations.

Section InsertionSort.
Context {A : Type}.
Variable leb : A -> A -> bool.
Hypothesis leb_total : forall a b, leb a b = false -> leb b a = true.
Hypothesis leb_trans : forall a b c, leb a b = true -> leb b c = true -> leb a c = true.

Fixpoint ins (x : A) (l : list A) : list A :=
  match l with
  | [] => [x]
  | y :: t => if leb x y then x :: l else y :: ins x t
  end.
Definition isort (l : list A) : list A := fold_right ins [] l.

Lemma ins_perm x l : Permutation (x :: l) (ins x l).
Proof.
  induction l as [|y t IH]; simpl.
  - apply Permutation_refl.
  - destruct (leb x y).
    + apply Permutation_refl.
    + eapply perm_trans; [apply perm_swap|]. apply perm_skip. exact IH.
Qed.

Lemma isort_perm l : Permutation l (isort l).
Proof.
  induction l as [|x l IH]; simpl.
  - constructor.
  - eapply perm_trans; [apply perm_skip; exact IH | apply ins_perm].
Qed.

Definition le (a b : A) : Prop := leb a b = true.

Lemma ins_sorted x l : StronglySorted le l -> StronglySorted le (ins x l).
Proof.
  induction l as [|y t IH]; intros Hs; simpl.
  - constructor; constructor.
  - inversion Hs as [|? ? Hst Hall]; subst. destruct (leb x y) eqn:E.
    + constructor; [exact Hs|]. constructor; [exact E|].
      rewrite Forall_forall in *. intros z Hz. apply (leb_trans x y z E). apply Hall. exact Hz.
    + constructor; [apply IH; exact Hst|].
      rewrite Forall_forall in *. intros z Hz.
      apply (Permutation_in _ (Permutation_sym (ins_perm x t))) in Hz. destruct Hz as [<-|Hz].
      * apply leb_total. exact E.
      * apply Hall. exact Hz.
Qed.

Lemma isort_sorted l : StronglySorted le (isort l).
Proof.
  induction l as [|x l IH]; simpl; [constructor | apply ins_sorted; exact IH].
Qed.

End InsertionSort.

Lemma StronglySorted_snoc {A} (R : A -> A -> Prop) l x :
  StronglySorted R l -> Forall (fun a => R a x) l -> StronglySorted R (l ++ [x]).
Proof.
  induction l as [|y l IH]; intros Hs Hall; simpl.
  - constructor; constructor.
  - inversion Hs as [|? ? Hst Hy]; subst. inversion Hall as [|? ? Hyx Hall']; subst.
    constructor; [apply IH; assumption|].
    apply Forall_app. split; [exact Hy | constructor; [exact Hyx | constructor]].
Qed.

Lemma StronglySorted_rev {A} (R : A -> A -> Prop) l :
  StronglySorted R l -> StronglySorted (fun a b => R b a) (rev l).
Proof.
  induction 1 as [|x l Hs IH Hall]; simpl; [constructor|].
  apply StronglySorted_snoc; [exact IH|].
  rewrite Forall_forall in *. intros y Hy. apply Hall. apply in_rev. exact Hy.
Qed.

Lemma StronglySorted_impl {A} (R R' : A -> A -> Prop) l :
  (forall a b, R a b -> R' a b) -> StronglySorted R l -> StronglySorted R' l.
Proof.
  intros HR. induction 1 as [|x l Hs IH Hall]; constructor; [exact IH|].
  rewrite Forall_forall in *. intros y Hy. apply HR. apply Hall. exact Hy.
Qed.

Lemma StronglySorted_nth {A} (R : A -> A -> Prop) l d :
  StronglySorted R l -> forall i j, i < j < List.length l -> R (nth i l d) (nth j l d).
Proof.
  induction 1 as [|x l Hs IH Hall]; intros i j Hij; simpl in Hij; [lia|].
  destruct j as [|j]; [lia|]. destruct i as [|i]; simpl.
  - rewrite Forall_forall in Hall. apply Hall. apply nth_In. lia.
  - apply IH. lia.
Qed.

(** ** mapM / concat_mapM *)

Lemma mapM_length {A B} (f : A -> outcome B) : forall l r, mapM f l = Ok r -> List.length r = List.length l.
Proof.
  induction l as [|x l IH]; intros r H; simpl in H.
  - inversion H. reflexivity.
  - destruct (f x) as [y|e]; [|discriminate]. cbn [bind] in H.
    destruct (mapM f l) as [ys|e]; [|discriminate]. cbn [bind] in H. inversion H; subst. simpl.
    f_equal. apply IH. reflexivity.
Qed.

Lemma mapM_Forall2 {A B} (f : A -> outcome B) : forall l r, mapM f l = Ok r ->
  Forall2 (fun x y => f x = Ok y) l r.
Proof.
  induction l as [|x l IH]; intros r H; simpl in H.
  - inversion H. constructor.
  - destruct (f x) as [y|e] eqn:E; [|discriminate]. cbn [bind] in H.
    destruct (mapM f l) as [ys|e]; [|discriminate]. cbn [bind] in H. inversion H; subst.
    constructor; [exact E | apply IH; reflexivity].
Qed.

Lemma mapM_In {A B} (f : A -> outcome B) l r y : mapM f l = Ok r -> In y r ->
  exists x, In x l /\ f x = Ok y.
Proof.
  intros H Hy. apply mapM_Forall2 in H. induction H as [|x y' l r Hxy H IH]; [destruct Hy|].
  destruct Hy as [<-|Hy].
  - exists x. split; [left; reflexivity | exact Hxy].
  - destruct (IH Hy) as (x0 & Hin & E). exists x0. split; [right; exact Hin | exact E].
Qed.

Lemma mapM_raise {A B} (f : A -> outcome B) l e : mapM f l = Raise e ->
  exists x, In x l /\ f x = Raise e.
Proof.
  induction l as [|x l IH]; simpl; intros H; [discriminate|].
  destruct (f x) as [y|e'] eqn:E; cbn [bind] in H.
  - destruct (mapM f l) as [ys|e'] eqn:E2; cbn [bind] in H; [discriminate|].
    inversion H; subst. destruct (IH eq_refl) as (x0 & Hin & Hx). exists x0. split; [right; exact Hin | exact Hx].
  - inversion H; subst. exists x. split; [left; reflexivity | exact E].
Qed.

Lemma concat_mapM_In {A B} (f : A -> outcome (list B)) : forall l r y, concat_mapM f l = Ok r -> In y r ->
  exists x ys, In x l /\ f x = Ok ys /\ In y ys.
Proof.
  induction l as [|x l IH]; intros r y H Hy; simpl in H.
  - inversion H; subst. destruct Hy.
  - destruct (f x) as [ys|e] eqn:E; [|discriminate]. cbn [bind] in H.
    destruct (concat_mapM f l) as [r'|e] eqn:E2; [|discriminate]. cbn [bind] in H. inversion H; subst.
    apply in_app_or in Hy. destruct Hy as [Hy|Hy].
    + exists x, ys. repeat split; [left; reflexivity | exact E | exact Hy].
    + destruct (IH r' y eq_refl Hy) as (x0 & ys0 & Hin & E0 & Hy0).
      exists x0, ys0. repeat split; [right; exact Hin | exact E0 | exact Hy0].
Qed.

Lemma concat_mapM_raise {A B} (f : A -> outcome (list B)) l e : concat_mapM f l = Raise e ->
  exists x, In x l /\ f x = Raise e.
Proof.
  induction l as [|x l IH]; simpl; intros H; [discriminate|].
  destruct (f x) as [y|e'] eqn:E; cbn [bind] in H.
  - destruct (concat_mapM f l) as [ys|e'] eqn:E2; cbn [bind] in H; [discriminate|].
    inversion H; subst. destruct (IH eq_refl) as (x0 & Hin & Hx). exists x0. split; [right; exact Hin | exact Hx].
  - inversion H; subst. exists x. split; [left; reflexivity | exact E].
Qed.

(** ** nodup_s *)

Lemma nodup_s_In x l : In x (nodup_s l) <-> In x l.
Proof.
  induction l as [|y l IH]; simpl; [reflexivity|].
  destruct (in_list y l) eqn:E.
  - rewrite IH. split; [auto|]. intros [<-|H]; [apply in_list_In; exact E | exact H].
  - simpl. rewrite IH. reflexivity.
Qed.

Lemma nodup_s_NoDup l : NoDup (nodup_s l).
Proof.
  induction l as [|y l IH]; simpl; [constructor|].
  destruct (in_list y l) eqn:E; [exact IH|].
  constructor; [|exact IH]. rewrite nodup_s_In. apply in_list_false. exact E.
Qed.
