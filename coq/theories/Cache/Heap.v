(** Object identity and mutation: which dictionaries a caller can reach (C14).
    A Sid object holds a reference to its fields dictionary; that dictionary may be shared with the resolver's
    cache and with other Sid objects of the same string.  The public API hands out only *copies*
    ([fields]); callers can mutate what they were handed. *)
From Coq Require Import List String Bool Arith Lia.
From Spil Require Import Base.Str Base.Dict.
Import ListNotations.

Definition loc := nat.
Definition heap := list (loc * dict string).

Fixpoint hget (h : heap) (l : loc) : option (dict string) :=
  match h with
  | [] => None
  | (l', d) :: r => if Nat.eqb l l' then Some d else hget r l
  end.

Fixpoint hset (h : heap) (l : loc) (d : dict string) : heap :=
  match h with
  | [] => [(l, d)]
  | (l', d') :: r => if Nat.eqb l l' then (l', d) :: r else (l', d') :: hset r l d
  end.

Record world := mkWorld {
  w_heap : heap;
  w_next : loc;
  w_user : list loc;                    (* handles the caller holds (returned containers) *)
  w_sids : list (string * string * loc) (* Sid objects created so far: string, type, reference to fields *)
}.

Inductive hop :=
| HNewFresh (s ty : string) (d : dict string)       (* a Sid whose fields dictionary is a new object *)
| HNewShared (s ty : string) (i : nat)              (* a Sid sharing the dictionary of the i-th Sid (cache hit) *)
| HFields (i : nat)                                 (* x.fields : a private copy is handed to the caller *)
| HMutate (l : loc) (k v : string)                  (* the caller writes into a container it holds *)
| HPop (l : loc) (k : string)
| HClear (l : loc).

Definition in_locs (l : loc) (ls : list loc) : bool := existsb (Nat.eqb l) ls.

Definition hstep (w : world) (o : hop) : world :=
  match o with
  | HNewFresh s ty d =>
      mkWorld (hset (w_heap w) (w_next w) d) (S (w_next w)) (w_user w) (w_sids w ++ [(s, ty, w_next w)])
  | HNewShared s ty i =>
      match nth_error (w_sids w) i with
      | Some (_, _, l) => mkWorld (w_heap w) (w_next w) (w_user w) (w_sids w ++ [(s, ty, l)])
      | None => w
      end
  | HFields i =>
      match nth_error (w_sids w) i with
      | Some (_, _, l) =>
          match hget (w_heap w) l with
          | Some d => mkWorld (hset (w_heap w) (w_next w) d) (S (w_next w)) (w_next w :: w_user w) (w_sids w)
          | None => w
          end
      | None => w
      end
  | HMutate l k v =>
      if in_locs l (w_user w)
      then match hget (w_heap w) l with
           | Some d => mkWorld (hset (w_heap w) l (dset d k v)) (w_next w) (w_user w) (w_sids w)
           | None => w
           end
      else w                              (* the caller holds no such container *)
  | HPop l k =>
      if in_locs l (w_user w)
      then match hget (w_heap w) l with
           | Some d => mkWorld (hset (w_heap w) l (dpop d k)) (w_next w) (w_user w) (w_sids w)
           | None => w
           end
      else w
  | HClear l =>
      if in_locs l (w_user w)
      then mkWorld (hset (w_heap w) l []) (w_next w) (w_user w) (w_sids w)
      else w
  end.

Definition init_world : world := mkWorld [] 0 [] [].

Lemma hget_hset_same h l d : hget (hset h l d) l = Some d.
Proof.
  induction h as [|[l' d'] r IH]; simpl.
  - rewrite Nat.eqb_refl. reflexivity.
  - destruct (Nat.eqb l l') eqn:E; simpl; rewrite E; [reflexivity | exact IH].
Qed.

Lemma hget_hset_other h l l' d : l <> l' -> hget (hset h l d) l' = hget h l'.
Proof.
  intros Hne. induction h as [|[l0 d0] r IH]; simpl.
  - destruct (Nat.eqb l' l) eqn:E; [apply Nat.eqb_eq in E; congruence | reflexivity].
  - destruct (Nat.eqb l l0) eqn:E; simpl.
    + apply Nat.eqb_eq in E. subst l0. destruct (Nat.eqb l' l) eqn:E'; [apply Nat.eqb_eq in E'; congruence | reflexivity].
    + destruct (Nat.eqb l' l0); [reflexivity | exact IH].
Qed.

(* well-formedness: allocated locations are below w_next; Sid dictionaries are not caller-held *)
Definition WInv (w : world) : Prop :=
  (forall l, In l (w_user w) -> l < w_next w) /\
  (forall s ty l, In (s, ty, l) (w_sids w) -> l < w_next w /\ ~ In l (w_user w)).

Lemma in_locs_In l ls : in_locs l ls = true <-> In l ls.
Proof.
  unfold in_locs. rewrite existsb_exists. split.
  - intros (x & Hx & E). apply Nat.eqb_eq in E. subst. exact Hx.
  - intros H. exists l. split; [exact H | apply Nat.eqb_refl].
Qed.

Lemma winv_init : WInv init_world.
Proof. split; simpl; intros; contradiction. Qed.

Lemma winv_step w o : WInv w -> WInv (hstep w o).
Proof.
  intros [Hu Hs]. destruct o as [s ty d|s ty i|i|l k v|l k|l]; simpl.
  - split; simpl.
    + intros l Hl. specialize (Hu l Hl). lia.
    + intros s0 ty0 l Hin. apply in_app_or in Hin. destruct Hin as [Hin|[Hin|[]]].
      * destruct (Hs _ _ _ Hin) as [H1 H2]. split; [lia | exact H2].
      * inversion Hin; subst. split; [lia|]. intros Hc. specialize (Hu _ Hc). lia.
  - destruct (nth_error (w_sids w) i) as [[[s0 ty0] l]|] eqn:E; [|split; assumption].
    split; simpl; [exact Hu|].
    intros s1 ty1 l1 Hin. apply in_app_or in Hin. destruct Hin as [Hin|[Hin|[]]].
    + exact (Hs _ _ _ Hin).
    + inversion Hin; subst. apply nth_error_In in E. exact (Hs _ _ _ E).
  - destruct (nth_error (w_sids w) i) as [[[s0 ty0] l]|] eqn:E; [|split; assumption].
    destruct (hget (w_heap w) l); [|split; assumption].
    split; simpl.
    + intros l0 [<-|Hl]; [lia | specialize (Hu l0 Hl); lia].
    + intros s1 ty1 l1 Hin. destruct (Hs _ _ _ Hin) as [H1 H2]. split; [lia|].
      intros [Hc|Hc]; [lia | exact (H2 Hc)].
  - destruct (in_locs l (w_user w)); [|split; assumption]. destruct (hget (w_heap w) l); split; assumption.
  - destruct (in_locs l (w_user w)); [|split; assumption]. destruct (hget (w_heap w) l); split; assumption.
  - destruct (in_locs l (w_user w)); split; assumption.
Qed.

(* one step never changes the dictionary a Sid refers to *)
Lemma frame_step w o s ty l : WInv w -> In (s, ty, l) (w_sids w) ->
  hget (w_heap (hstep w o)) l = hget (w_heap w) l.
Proof.
  intros [Hu Hs] Hin. destruct (Hs _ _ _ Hin) as [Hlt Hnu].
  destruct o as [s0 ty0 d|s0 ty0 i|i|l0 k v|l0 k|l0]; simpl.
  - apply hget_hset_other. lia.
  - destruct (nth_error (w_sids w) i) as [[[? ?] ?]|]; reflexivity.
  - destruct (nth_error (w_sids w) i) as [[[? ?] l1]|]; [|reflexivity].
    destruct (hget (w_heap w) l1); [|reflexivity]. simpl. apply hget_hset_other. lia.
  - destruct (in_locs l0 (w_user w)) eqn:E; [|reflexivity]. apply in_locs_In in E.
    destruct (hget (w_heap w) l0); [|reflexivity]. simpl. apply hget_hset_other. intros ->. exact (Hnu E).
  - destruct (in_locs l0 (w_user w)) eqn:E; [|reflexivity]. apply in_locs_In in E.
    destruct (hget (w_heap w) l0); [|reflexivity]. simpl. apply hget_hset_other. intros ->. exact (Hnu E).
  - destruct (in_locs l0 (w_user w)) eqn:E; [|reflexivity]. apply in_locs_In in E.
    simpl. apply hget_hset_other. intros ->. exact (Hnu E).
Qed.

Lemma sids_grow w o x : In x (w_sids w) -> In x (w_sids (hstep w o)).
Proof.
  intros Hin. destruct o as [s ty d|s ty i|i|l k v|l k|l]; simpl.
  - apply in_or_app. left. exact Hin.
  - destruct (nth_error (w_sids w) i) as [[[? ?] ?]|]; [apply in_or_app; left|]; exact Hin.
  - destruct (nth_error (w_sids w) i) as [[[? ?] l1]|]; [|exact Hin]. destruct (hget (w_heap w) l1); exact Hin.
  - destruct (in_locs l (w_user w)); [|exact Hin]. destruct (hget (w_heap w) l); exact Hin.
  - destruct (in_locs l (w_user w)); [|exact Hin]. destruct (hget (w_heap w) l); exact Hin.
  - destruct (in_locs l (w_user w)); exact Hin.
Qed.

(** Frame theorem: whatever happens after a Sid exists (new Sids sharing its dictionary, copies handed out,
    callers mutating every container they hold), the fields it refers to are what they were. *)
Theorem frame : forall ops w s ty l, WInv w -> In (s, ty, l) (w_sids w) ->
  hget (w_heap (fold_left hstep ops w)) l = hget (w_heap w) l.
Proof.
  induction ops as [|o ops IH]; intros w s ty l Hw Hin; simpl; [reflexivity|].
  rewrite (IH (hstep w o) s ty l (winv_step w o Hw) (sids_grow w o _ Hin)).
  apply (frame_step w o s ty l Hw Hin).
Qed.

(* a copy handed out by [fields] is a new object: not the dictionary of any Sid *)
Theorem fields_private w i : WInv w ->
  forall l, In l (w_user (hstep w (HFields i))) -> forall s ty l', In (s, ty, l') (w_sids (hstep w (HFields i))) -> l <> l'.
Proof.
  intros Hw l Hl s ty l' Hin. destruct (winv_step w (HFields i) Hw) as [_ Hs].
  destruct (Hs _ _ _ Hin) as [_ Hnu]. intros ->. exact (Hnu Hl).
Qed.
