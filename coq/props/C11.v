From Coq Require Import List String.
Example C11_placeholder : True. Proof. exact I. Qed.
Print Assumptions C11_placeholder.
