(** The extra decidable clause [paths_totalb] under which [Sid(path=p)] never raises, for EVERY string p
    (definitions only; the theorem is in Path/TotalProofs.v).

    Why a clause is needed at all (beyond [wf_loadedb] and [paths_unambiguousb]):
    the only failure of [sid_of_path] is the ResolvaException of the reverse check of [dict_to_path]:
    the fields read from p are mapped back, formatted with the path template of the type that was read,
    and the formatted string f is re-resolved with the same template; resolva raises when two
    occurrences of the same placeholder read back different values.  Three things can go wrong for a
    template WITH a duplicated placeholder, and none of them is excluded by the other checks:
    - python's "$" also matches before a final newline.  With a closed pattern such as (x|x\n) at the end of
      "/{a:(x|x\n)}/{a:(x|x\n)}", the path "/x\n/x\n\n" reads a = "x\n" twice; the formatted string
      "/x\n/x\n" re-resolves (first alternative first, then "$" before the last newline) to a = "x\n" and
      a = "x": ResolvaException.  [tail_okb] asks that the last element of the template is a literal, an
      open placeholder ([^/]*, greedy: it takes the newline itself), or a closed placeholder all of whose
      alternatives end with a class that rejects the newline.
    - the value written in f is not the value read from p, but its image under
      path value -> sid value (map_in) -> default for "" -> path value (get_key, first key).  When the mapping
      is not injective, or a captured word happens to be a sid value of the mapping, or a default is
      substituted for "", the new word need not match the placeholder's pattern, and f can then factor in
      another way.  [elem_rt_ok] asks that the pattern's language is closed under that round trip; it is
      the identity except on finitely many candidate words ("" and the two columns of the mapping), so the
      clause is a finite check.
    - [dict_to_path] formats with the FIRST template carrying the name of the type, [path_to_dict] reads with
      the first template that matches; two templates of one resolver with the same name would make them
      differ.  (In the implementation the templates of a configuration are the items of a python dict, so
      the names are distinct by construction; the model's list does not know it.)
    Templates without a duplicated placeholder need nothing: their reverse check cannot raise. *)
From Coq Require Import List String Ascii Bool Arith.
From Spil Require Import Base.Str Base.Dict Base.Outcome Base.Tree Regex.Re Resolva.Template Resolva.Resolver
  Conf.ConfUtil Conf.Conf Conf.WF Sid.Query Sid.Sid Sid.TypingSpec Path.ShapeProofs Path.UnambiguousDefs.
Import ListNotations.
Local Open Scope list_scope.

(** ** The round trip of one value of key [n]:  sid value -> path value, as [dict_to_path] does it *)

Definition post_val (lp : LoadedPath) (n s : string) : string :=
  let s1 := match dget (pc_defaults (lp_conf lp)) n with
            | Some dv => if negb (truthy s) && truthy dv then dv else s
            | None => s
            end in
  match dget (pc_mapping (lp_conf lp)) n with
  | Some ((_ :: _) as m) => if truthy s1 then get_key m s1 else s1
  | _ => s1
  end.

(* captured word -> (map_in) sid value -> path value written by [dict_to_path] *)
Definition rt_val (lp : LoadedPath) (n w : string) : string :=
  post_val lp n (map_in (pc_mapping (lp_conf lp)) n w).

(* the only words on which [rt_val] can differ from the identity *)
Definition cands (lp : LoadedPath) (n : string) : list string :=
  EmptyString :: match dget (pc_mapping (lp_conf lp)) n with
                 | Some m => map fst m ++ map snd m
                 | None => []
                 end.

(* decidable membership in the language of a scan element *)
Definition in_selb (s : sel) (w : string) : bool :=
  match s with
  | SFix Sh => in_shapesb Sh (chars w)
  | SOpen => negb (mem_c "/" w)
  end.

(* the language of the placeholder is closed under the round trip *)
Definition elem_rt_ok (lp : LoadedPath) (e : elem) : bool :=
  match e with
  | ELit _ => true
  | EPh n _ _ =>
      match sel_of e with
      | Some s => forallb (fun w => implb (in_selb s w) (in_selb s (rt_val lp n w))) (cands lp n)
      | None => false
      end
  end.

(** ** The end of the template and python's "$" *)

(* the words of the shape are not empty and do not end with a newline *)
Definition no_nl_end (sh : list cls) : bool :=
  match rev sh with c :: _ => negb (in_cls c "010") | [] => false end.

Definition tail_okb (es : list elem) : bool :=
  match rev es with
  | EPh _ _ b :: _ =>
      is_open b || match shapes b with Some Sh => forallb no_nl_end Sh | None => false end
  | _ => true        (* a literal: not a newline by [lit_nl_ok], part of [tpl_ok] *)
  end.

(** ** The clause *)

(* no duplicated placeholder, or: good end and closed under the round trip *)
Definition tpl_total_ok (lp : LoadedPath) (t : tpl) : bool :=
  nodupb (item_names (tp_items t))
  || match tpl_elems t with
     | Some es => tail_okb es && forallb (elem_rt_ok lp) es
     | None => false
     end.

Definition path_total_conf_ok (lp : LoadedPath) : bool :=
  nodupb (map tp_name (r_tpls (lp_resolver lp)))
  && forallb (tpl_total_ok lp) (r_tpls (lp_resolver lp)).

Definition paths_totalb (Ld : Loaded) : bool := forallb path_total_conf_ok (l_paths Ld).
