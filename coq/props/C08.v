(** C08 — searching a list returns exactly the entries that glob-match the search.  Property theorems only.
    [glob_rel] (Search/GlobProofs.v) is the independent specification: "*" matches any run of characters except "/",
    every other character matches itself ("?" one character, only reachable through an unapplied query). *)
From Coq Require Import List String Ascii Bool Arith Permutation Sorted.
From Spil Require Import Base.Str Base.Dict Base.Outcome Regex.Re Conf.Conf Conf.WF Sid.Sid
  Search.Unfold Search.FindList Search.GlobProofs Search.FindListProofs Search.UnfoldProofs.
From SpilGen Require Hamlet.
Import ListNotations.
Local Open Scope string_scope.

(* glob2re + python re.match  =  the glob relation (incl. newlines inside names); None iff a "[...]" class is formed *)
Theorem C08_glob2re : forall pat r e, glob2re pat = Some r -> (match_full r e = true <-> glob_rel pat e).
Proof. exact glob2re_spec. Qed.
Print Assumptions C08_glob2re.

(* the number of segments must agree; matching is segment-wise *)
Theorem C08_segmentwise : forall pat e, glob_rel pat e <-> Forall2 glob_rel (split_c "/" pat) (split_c "/" e).
Proof. exact glob_segmentwise. Qed.
Print Assumptions C08_segmentwise.

(* exactly the entries matching at least one search form, each once *)
Theorem C08_star_search : forall qs items l, star_search qs items = Ok l ->
  NoDup l /\ forall e, In e l <-> In e items /\ exists q, In q qs /\ glob_match (s_string q) e = Ok true.
Proof. exact star_search_spec. Qed.
Print Assumptions C08_star_search.

Theorem C08_star_search_glob : forall qs items l, star_search qs items = Ok l ->
  forall e, In e l <-> In e items /\ exists q, In q qs /\ glob_rel (s_string q) e.
Proof. exact star_search_glob_spec. Qed.
Print Assumptions C08_star_search_glob.

(* results are entries of the list *)
Theorem C08_found_in_list : forall L items s l, find_list L items s = Ok l -> incl l items.
Proof. exact find_list_incl. Qed.
Print Assumptions C08_found_in_list.

Example C08_instance :
  find_list Hamlet.the_loaded ["hamlet/a/char/x"; "hamlet/a/char/x/model"; "hamlet/a/prop/y"; "junk"] "hamlet/a/*/*"
  = Ok ["hamlet/a/char/x"; "hamlet/a/prop/y"].
Proof. vm_compute. reflexivity. Qed.
Print Assumptions C08_instance.
