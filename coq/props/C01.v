(** C01 — a string is typed exactly as the configured templates say, else stays untyped.
    Property theorems only.  [natural] / [forced] / [accepts] (Sid/TypingSpec.v) are the independent,
    segment-wise statement; [sid_to_dict] (Sid/Sid.v) is the model of the code path
    (whole-template regex with python's priority order and "$", canonical check, fallback over all templates). *)
From Coq Require Import List String Ascii.
From Spil Require Import Base.Str Base.Dict Base.Outcome Regex.Re Regex.MatchProofs Resolva.Resolver
  Conf.Conf Conf.WF Sid.Sid Sid.TypingSpec Sid.TypingProofs Sid.SidProofs.
From SpilGen Require Hamlet.
Import ListNotations.
Local Open Scope string_scope.

(* natural typing: for every configuration that loads and is well-formed, every string of any length *)
Theorem C01_natural : forall c Ld s, load c = Some Ld -> wf_loadedb Ld = true ->
  sid_to_dict Ld s "" = Ok (natural Ld s).
Proof. exact sid_to_dict_natural. Qed.
Print Assumptions C01_natural.

(* a 'type:' prefix forces that one template *)
Theorem C01_forced : forall c Ld s ty, load c = Some Ld -> wf_loadedb Ld = true -> ty <> "" ->
  sid_to_dict Ld s ty = Ok (forced Ld ty s).
Proof. exact sid_to_dict_forced. Qed.
Print Assumptions C01_forced.

(* "the pattern accepts its whole segment" is language membership (declarative relation), not an artefact of the matcher *)
Theorem C01_seg_ok_is_membership : forall r seg, seg_ok r seg = true <-> exists c, Matches r seg c.
Proof. exact match_full_iff. Qed.
Print Assumptions C01_seg_ok_is_membership.

(* the factory: Sid(s) for a plain string (no ":" and no "?"; strings with "?" are C04's subject) *)
Theorem C01_plain : forall c Ld, load c = Some Ld -> wf_loadedb Ld = true ->
  forall s, mem_c "?" s = false -> mem_c ":" s = false ->
  Sid Ld s = Ok (typed_or_untyped s (natural Ld s)).
Proof. exact Sid_plain. Qed.
Print Assumptions C01_plain.

(* a uri: the part before the first ":" forces the type (an empty prefix means natural typing); the Sid's string is the body *)
Theorem C01_uri : forall c Ld, load c = Some Ld -> wf_loadedb Ld = true ->
  forall ty body, mem_c "?" body = false -> mem_c ":" ty = false -> mem_c "?" ty = false ->
  Sid Ld (ty ++ ":" ++ body) = Ok (typed_or_untyped body (if sempty ty then natural Ld body else forced Ld ty body)).
Proof. exact Sid_uri. Qed.
Print Assumptions C01_uri.

(* creating a Sid from any string (without query) never fails *)
Theorem C01_total : forall c Ld, load c = Some Ld -> wf_loadedb Ld = true ->
  forall s, mem_c "?" s = false -> exists x, Sid Ld s = Ok x.
Proof. exact Sid_total. Qed.
Print Assumptions C01_total.

(* the untyped Sid: False, empty type, no fields, length 0, string verbatim *)
Theorem C01_untyped_obs : forall c Ld s, load c = Some Ld -> wf_loadedb Ld = true ->
  let x := mkSid s "" [] in
  sid_bool x = false /\ sid_len x = 0 /\ s_type x = "" /\ s_fields x = [] /\ s_string x = s.
Proof. exact untyped_obs. Qed.
Print Assumptions C01_untyped_obs.

(* instance: today's configuration (regenerated from /repo on this run) loads and is well-formed, so the theorem applies to it *)
Theorem C01_instance : forall s, sid_to_dict Hamlet.the_loaded s "" = Ok (natural Hamlet.the_loaded s).
Proof. intro s. exact (sid_to_dict_natural Hamlet.the_conf Hamlet.the_loaded s Hamlet.the_loaded_eq Hamlet.conf_wf). Qed.
Print Assumptions C01_instance.

(* non-vacuity: a concrete non-trivial string is typed by the specification *)
Example C01_example : exists d, natural Hamlet.the_loaded "hamlet/a/char" = Some ("asset__assettype", d).
Proof. vm_compute. eexists. reflexivity. Qed.
Print Assumptions C01_example.
