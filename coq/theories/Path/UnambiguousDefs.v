(** C05: the decidable check [paths_unambiguousb] on a loaded configuration (definitions only;
    soundness is in Path/UnambiguousProofs.v). *)
From Coq Require Import List String Ascii Bool Arith.
From Spil Require Import Base.Str Base.Dict Base.Outcome Base.Tree Regex.Re Resolva.Template Resolva.Resolver
  Conf.ConfUtil Conf.Conf Conf.WF Sid.Query Sid.Sid Sid.TypingSpec Path.ShapeProofs.
Import ListNotations.
Local Open Scope list_scope.

(** ** A compiled template as a list of elements: one per literal character, one per placeholder *)

Inductive elem :=
| ELit (a : ascii)
| EPh (n g : string) (b : re).      (* key, group name, body *)

Definition lit_atom (a : ascii) : re := if Ascii.eqb a "." then Cls CDot else Chr a.
Definition lit_cls (a : ascii) : cls := if Ascii.eqb a "." then CDot else CSet false [a].

Definition elem_re (e : elem) : re :=
  match e with ELit a => lit_atom a | EPh _ g b => Grp g b end.

(* equality with a literal atom *)
Definition atom_eqb (r1 r2 : re) : bool :=
  match r1, r2 with
  | Chr a, Chr b => Ascii.eqb a b
  | Cls CDot, Cls CDot => true
  | _, _ => false
  end.
Fixpoint atoms_eqb (l1 l2 : list re) : bool :=
  match l1, l2 with
  | [], [] => true
  | x :: a, y :: b => atom_eqb x y && atoms_eqb a b
  | _, _ => false
  end.

(* the literal text compiles to one atom per character: plain characters and "." only *)
Definition lit_selfb (t : string) : bool :=
  match parse_lit (String.length t) t with
  | Some l => atoms_eqb l (map lit_atom (chars t))
  | None => false
  end.

Fixpoint elems_of (items : list item) (seen : list string) : option (list elem) :=
  match items with
  | [] => Some []
  | Lit t :: rest =>
      if lit_selfb t then
        match elems_of rest seen with Some r => Some (map ELit (chars t) ++ r) | None => None end
      else None
  | Ph n e :: rest =>
      let cnt := S (count_name n seen) in
      match ph_re e, elems_of rest (n :: seen) with
      | Some b, Some r => Some (EPh n (n ++ pad3 cnt)%string b :: r)
      | _, _ => None
      end
  end.

Definition is_open (b : re) : bool := match b with Star CNotSlash => true | _ => false end.

(* all words the element can match *)
Definition sel_of (e : elem) : option sel :=
  match e with
  | ELit a => Some (SFix [[lit_cls a]])
  | EPh _ _ b => if is_open b then Some SOpen
                 else match shapes b with Some Sh => Some (SFix Sh) | None => None end
  end.

(* the alternatives "\*" and "\>" of a placeholder pattern *)
Definition is_sym_shape (sh : list cls) : bool :=
  match sh with
  | [CSet false [a]] => Ascii.eqb a "*" || Ascii.eqb a ">"
  | _ => false
  end.
Definition conc (Sh : list (list cls)) : list (list cls) := filter (fun sh => negb (is_sym_shape sh)) Sh.

(* the words of the element in the formatted path of a concrete Sid *)
Definition csel_of (e : elem) : option sel :=
  match e with
  | ELit a => Some (SFix [[CSet false [a]]])
  | EPh _ _ b => if is_open b then Some SOpen
                 else match shapes b with Some Sh => Some (SFix (conc Sh)) | None => None end
  end.

Definition sels_of (es : list elem) : option (list sel) := opt_all (map sel_of es).
Definition csels_of (es : list elem) : option (list sel) := opt_all (map csel_of es).

Definition tpl_elems (t : tpl) : option (list elem) := elems_of (tp_items t) [].

(** ** Checks on one path template *)

Definition lit_nl_ok (e : elem) : bool :=
  match e with ELit a => negb (Ascii.eqb a "010") | EPh _ _ _ => true end.

Definition is_sl (e : elem) : bool := match e with ELit a => Ascii.eqb a "/" | EPh _ _ _ => false end.

Fixpoint split_at {A} (f : A -> bool) (l : list A) : list (list A) :=
  match l with
  | [] => [[]]
  | x :: t => if f x then [] :: split_at f t
              else match split_at f t with h :: r => (x :: h) :: r | [] => [[x]] end
  end.

(* a "/"-component of the template that cannot format to "" or "." *)
Definition comp_ok (c : list elem) : bool :=
  match c with
  | [] => false
  | [ELit a] => negb (Ascii.eqb a ".")
  | _ => true
  end.

(* the template is absolute, "/"-separated into such components (so that pathlib leaves its paths unchanged) *)
Definition comps_ok (es : list elem) : bool :=
  match split_at is_sl es with
  | [] :: c :: cs => forallb comp_ok (c :: cs)
  | _ => false
  end.

Definition tpl_ok (t : tpl) : bool :=
  match tpl_elems t with
  | Some es =>
      match sels_of es, csels_of es with
      | Some ss, Some _ => own_ok ss && forallb lit_nl_ok es && comps_ok es
      | _, _ => false
      end
  | None => false
  end.

(* t' (listed earlier) cannot match a path formatted by t from concrete values *)
Definition tpl_sep (t' t : tpl) : bool :=
  match tpl_elems t', tpl_elems t with
  | Some es', Some es =>
      match sels_of es', csels_of es with
      | Some a, Some b => sepb a b
      | _, _ => false
      end
  | _, _ => false
  end.

Fixpoint earlier_sep (pre l : list tpl) : bool :=
  match l with
  | [] => true
  | t :: r => forallb (fun t' => tpl_sep t' t) pre && earlier_sep (pre ++ [t]) r
  end.

(** ** Checks on the mapping and on the keys *)

Definition val_okb (v : string) : bool :=
  negb (sempty v) && negb (String.eqb v ".") && negb (mem_c "/" v) && negb (mem_c "010" v).

(* path-side values are usable path parts; one sid value per path value *)
Definition mapping_ok (mp : list (string * list (string * string))) : bool :=
  forallb (fun km => nodupb (map fst (snd km)) && forallb (fun kv => val_okb (fst kv)) (snd km)) mp.

(* a path template named like a sid template has the keys of that sid template, and key_types lists
   them in the order of the sid template *)
Definition tpl_keys_ok (Ld : Loaded) (tp : tpl) : bool :=
  match find_tpl (l_sid Ld) (tp_name tp) with
  | Some ts =>
      keys_eq (item_names (tp_items tp)) (item_names (tp_items ts))
      && match dget (c_key_types (l_conf Ld)) (hd EmptyString (split_s (c_sep (l_conf Ld)) (tp_name tp))) with
         | Some keys => strs_eqb (filter (fun k => in_list k (item_names (tp_items ts))) keys)
                                 (item_names (tp_items ts))
         | None => false
         end
  | None => true
  end.

Definition path_conf_ok (Ld : Loaded) (lp : LoadedPath) : bool :=
  let ts := r_tpls (lp_resolver lp) in
  forallb tpl_ok ts && earlier_sep [] ts && mapping_ok (pc_mapping (lp_conf lp)) && forallb (tpl_keys_ok Ld) ts.

Definition paths_unambiguousb (Ld : Loaded) : bool := forallb (path_conf_ok Ld) (l_paths Ld).

(** ** Hypotheses on the Sid *)

(* no value is "" or "." or contains "/" or a newline *)
Definition val_ok (v : string) : Prop :=
  v <> EmptyString /\ v <> "."%string /\ mem_c "/" v = false /\ mem_c "010" v = false.

Definition path_values_ok (x : sid) : Prop := Forall (fun kv => val_ok (snd kv)) (s_fields x).

(* the value of key k as it is written in the path: through the mapping (sid value -> path value) *)
Definition pm (mapping : list (string * list (string * string))) (k v : string) : string :=
  match dget mapping k with
  | Some ((_ :: _) as m) => get_key m v
  | _ => v
  end.

Definition path_data (lp : LoadedPath) (x : sid) : dict string :=
  map (fun kv => (fst kv, pm (pc_mapping (lp_conf lp)) (fst kv) (snd kv))) (s_fields x).

(* for one path configuration: the value of a mapped key is in the range of its mapping, and the path value
   of every closed placeholder of the path template of x's type matches one of the alternatives of
   the placeholder's pattern other than "\*" and "\>" *)
Definition concrete_for (lp : LoadedPath) (x : sid) : Prop :=
  (forall k v m, In (k, v) (s_fields x) -> dget (pc_mapping (lp_conf lp)) k = Some m -> m <> [] ->
                 In v (map snd m)) /\
  (forall tp es n g b Sh v, find_tpl (lp_resolver lp) (s_type x) = Some tp -> tpl_elems tp = Some es ->
     In (EPh n g b) es -> is_open b = false -> shapes b = Some Sh ->
     dget (path_data lp x) n = Some v -> in_shapes (conc Sh) (chars v)).

Definition concrete (Ld : Loaded) (x : sid) : Prop :=
  forall lp, In lp (l_paths Ld) -> concrete_for lp x.

(** ** Decidable versions of the hypotheses (sound, see UnambiguousProofs.v): to instantiate the theorems *)

Definition path_values_okb (x : sid) : bool := forallb (fun kv => val_okb (snd kv)) (s_fields x).

Definition in_shapesb (Sh : list (list cls)) (w : list ascii) : bool := existsb (fun sh => wm sh w) Sh.

Definition concrete_forb (lp : LoadedPath) (x : sid) : bool :=
  forallb (fun kv => match dget (pc_mapping (lp_conf lp)) (fst kv) with
                     | Some ((_ :: _) as m) => in_list (snd kv) (map snd m)
                     | _ => true
                     end) (s_fields x)
  && match find_tpl (lp_resolver lp) (s_type x) with
     | Some tp =>
         match tpl_elems tp with
         | Some es =>
             forallb (fun e => match e with
                               | EPh n _ b =>
                                   is_open b ||
                                   match shapes b, dget (path_data lp x) n with
                                   | Some Sh, Some v => in_shapesb (conc Sh) (chars v)
                                   | _, _ => true
                                   end
                               | ELit _ => true
                               end) es
         | None => true
         end
     | None => true
     end.

Definition concreteb (Ld : Loaded) (x : sid) : bool := forallb (fun lp => concrete_forb lp x) (l_paths Ld).
