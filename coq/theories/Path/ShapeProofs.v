(** Stage A (C05): shapes of closed patterns, prefix codes, and unique factorisation of a string
    along a list of "scan elements" (closed = finite union of class sequences, open = any slash-free string).
    Generic lemmas, no reference to templates. *)
From Coq Require Import List String Ascii Bool Arith Lia.
From Spil Require Import Base.Str Base.StrProofs Base.SplitProofs Regex.Re Regex.MatchProofs
  Conf.WF Sid.TypingProofs.
Import ListNotations.
Local Open Scope list_scope.

(** * Strings as lists of characters *)

Notation chars := list_ascii_of_string.
Notation str := string_of_list_ascii.

Lemma chars_app (a b : string) : chars (a ++ b)%string = chars a ++ chars b.
Proof. induction a as [|x a IH]; simpl; congruence. Qed.

Lemma str_app (a b : list ascii) : str (a ++ b) = (str a ++ str b)%string.
Proof. induction a as [|x a IH]; simpl; congruence. Qed.

Lemma chars_inj (a b : string) : chars a = chars b -> a = b.
Proof.
  intros H. rewrite <- (string_of_list_ascii_of_string a), <- (string_of_list_ascii_of_string b), H.
  reflexivity.
Qed.

Lemma mem_c_chars c s : mem_c c s = false <-> ~ In c (chars s).
Proof.
  induction s as [|a s IH]; simpl.
  - split; [intros _ [] | reflexivity].
  - rewrite orb_false_iff, IH. split.
    + intros (H1 & H2) [E | E]; [subst; rewrite Ascii.eqb_refl in H1; discriminate | auto].
    + intros H. split.
      * destruct (Ascii.eqb a c) eqn:E; [|reflexivity]. apply Ascii.eqb_eq in E. exfalso. apply H. left. exact E.
      * intros H'. apply H. right. exact H'.
Qed.

(** * Words matching a shape (a fixed sequence of character classes) *)

Fixpoint wm (sh : list cls) (w : list ascii) : bool :=
  match sh, w with
  | [], [] => true
  | c :: sh', a :: w' => in_cls c a && wm sh' w'
  | _, _ => false
  end.

Definition in_shapes (S : list (list cls)) (w : list ascii) : Prop :=
  exists sh, In sh S /\ wm sh w = true.

Lemma wm_length : forall sh w, wm sh w = true -> List.length w = List.length sh.
Proof.
  induction sh as [|c sh IH]; intros [|a w] H; simpl in *; try discriminate; [reflexivity|].
  apply andb_true_iff in H. destruct H as (_ & H). rewrite (IH w H). reflexivity.
Qed.

Lemma wm_app : forall s1 w1 s2 w2, wm s1 w1 = true -> wm s2 w2 = true -> wm (s1 ++ s2) (w1 ++ w2) = true.
Proof.
  induction s1 as [|c s1 IH]; intros [|a w1] s2 w2 H1 H2; simpl in *; try discriminate; [exact H2|].
  apply andb_true_iff in H1. destruct H1 as (Ha & H1). rewrite Ha. simpl. apply IH; assumption.
Qed.

Lemma wm_app_inv : forall s1 s2 w, wm (s1 ++ s2) w = true ->
  exists w1 w2, w = w1 ++ w2 /\ wm s1 w1 = true /\ wm s2 w2 = true.
Proof.
  induction s1 as [|c s1 IH]; intros s2 w H; simpl in *.
  - exists [], w. repeat split; auto.
  - destruct w as [|a w]; [discriminate|]. apply andb_true_iff in H. destruct H as (Ha & H).
    destruct (IH s2 w H) as (w1 & w2 & -> & H1 & H2).
    exists (a :: w1), w2. repeat split; auto. simpl. rewrite Ha, H1. reflexivity.
Qed.

(** * Shapes of a closed pattern *)

Fixpoint shapes (r : re) : option (list (list cls)) :=
  match r with
  | Eps => Some [[]]
  | Chr a => Some [[CSet false [a]]]
  | Cls c => Some [[c]]
  | Seq r1 r2 =>
      match shapes r1, shapes r2 with
      | Some S1, Some S2 => Some (flat_map (fun s1 => map (app s1) S2) S1)
      | _, _ => None
      end
  | Alt r1 r2 =>
      match shapes r1, shapes r2 with
      | Some S1, Some S2 => Some (S1 ++ S2)
      | _, _ => None
      end
  | Star _ => None
  | Grp _ _ => None
  end.

Lemma in_cls_single a b : in_cls (CSet false [a]) b = Ascii.eqb b a.
Proof. simpl. destruct (Ascii.eqb b a); reflexivity. Qed.

Lemma shapes_sound : forall r w c, Matches r w c -> forall S, shapes r = Some S ->
  c = [] /\ in_shapes S (chars w).
Proof.
  induction 1 as [| a | c a Ha | r1 r2 w1 w2 c1 c2 M1 IH1 M2 IH2 | r1 r2 w c M1 IH1
                 | r1 r2 w c M2 IH2 | c w Hw | n r w c M1 IH1]; intros S HS; simpl in HS.
  - inversion HS; subst. split; [reflexivity|]. exists []. split; [left; reflexivity | reflexivity].
  - inversion HS; subst. split; [reflexivity|]. exists [CSet false [a]]. split; [left; reflexivity|].
    simpl. rewrite Ascii.eqb_refl. reflexivity.
  - inversion HS; subst. split; [reflexivity|]. exists [c]. split; [left; reflexivity|].
    simpl. rewrite Ha. reflexivity.
  - destruct (shapes r1) as [S1|]; [|discriminate]. destruct (shapes r2) as [S2|]; [|discriminate].
    inversion HS; subst. destruct (IH1 S1 eq_refl) as (-> & s1 & Hs1 & Hw1).
    destruct (IH2 S2 eq_refl) as (-> & s2 & Hs2 & Hw2). split; [reflexivity|].
    exists (s1 ++ s2). split.
    + apply in_flat_map. exists s1. split; [exact Hs1|]. apply in_map. exact Hs2.
    + rewrite chars_app. apply wm_app; assumption.
  - destruct (shapes r1) as [S1|]; [|discriminate]. destruct (shapes r2) as [S2|]; [|discriminate].
    inversion HS; subst. destruct (IH1 S1 eq_refl) as (-> & s1 & Hs1 & Hw1). split; [reflexivity|].
    exists s1. split; [apply in_or_app; left; exact Hs1 | exact Hw1].
  - destruct (shapes r1) as [S1|]; [|discriminate]. destruct (shapes r2) as [S2|]; [|discriminate].
    inversion HS; subst. destruct (IH2 S2 eq_refl) as (-> & s2 & Hs2 & Hw2). split; [reflexivity|].
    exists s2. split; [apply in_or_app; right; exact Hs2 | exact Hw2].
  - discriminate.
  - discriminate.
Qed.

Lemma shapes_complete : forall r S, shapes r = Some S ->
  forall w, in_shapes S w -> Matches r (str w) [].
Proof.
  induction r as [| a | c | r1 IH1 r2 IH2 | r1 IH1 r2 IH2 | c | n r IH]; intros S HS w (sh & Hin & Hw);
    simpl in HS; try discriminate.
  - inversion HS; subst. destruct Hin as [<- | []]. destruct w; [|discriminate]. constructor.
  - inversion HS; subst. destruct Hin as [<- | []].
    destruct w as [|b [|b2 w]]; cbn [wm] in Hw; try discriminate.
    + rewrite in_cls_single, andb_true_r in Hw. apply Ascii.eqb_eq in Hw. subst b. constructor.
    + rewrite andb_false_r in Hw. discriminate.
  - inversion HS; subst. destruct Hin as [<- | []].
    destruct w as [|b [|b2 w]]; cbn [wm] in Hw; try discriminate.
    + rewrite andb_true_r in Hw. constructor. exact Hw.
    + rewrite andb_false_r in Hw. discriminate.
  - destruct (shapes r1) as [S1|]; [|discriminate]. destruct (shapes r2) as [S2|]; [|discriminate].
    inversion HS; subst. apply in_flat_map in Hin. destruct Hin as (s1 & Hs1 & Hin).
    apply in_map_iff in Hin. destruct Hin as (s2 & <- & Hs2).
    destruct (wm_app_inv s1 s2 w Hw) as (w1 & w2 & -> & H1 & H2).
    rewrite str_app. change (@nil (string * string)) with (@nil (string * string) ++ []).
    constructor.
    + apply (IH1 S1 eq_refl). exists s1. auto.
    + apply (IH2 S2 eq_refl). exists s2. auto.
  - destruct (shapes r1) as [S1|]; [|discriminate]. destruct (shapes r2) as [S2|]; [|discriminate].
    inversion HS; subst. apply in_app_or in Hin. destruct Hin as [Hin | Hin].
    + apply MAltL. apply (IH1 S1 eq_refl). exists sh. auto.
    + apply MAltR. apply (IH2 S2 eq_refl). exists sh. auto.
Qed.

(** * Disjoint character classes (decided by enumeration of the 256 characters) *)

Definition all_ascii : list ascii := map ascii_of_nat (seq 0 256).

Lemma all_ascii_all a : In a all_ascii.
Proof.
  unfold all_ascii. rewrite <- (ascii_nat_embedding a). apply in_map. apply in_seq.
  pose proof (nat_ascii_bounded a). lia.
Qed.

Definition cls_disj (c1 c2 : cls) : bool :=
  forallb (fun a => negb (in_cls c1 a && in_cls c2 a)) all_ascii.

Lemma cls_disj_sound c1 c2 a : cls_disj c1 c2 = true -> in_cls c1 a = true -> in_cls c2 a = true -> False.
Proof.
  unfold cls_disj. rewrite forallb_forall. intros H H1 H2. specialize (H a (all_ascii_all a)).
  rewrite H1, H2 in H. discriminate.
Qed.

(** * Prefix relations between shapes *)

(* some position (before either ends) carries disjoint classes *)
Fixpoint disj_prefix (s' s : list cls) : bool :=
  match s', s with
  | c' :: r', c :: r => cls_disj c' c || disj_prefix r' r
  | _, _ => false
  end.

Lemma disj_prefix_sound : forall s' s w' w t' t,
  disj_prefix s' s = true -> wm s' w' = true -> wm s w = true -> w' ++ t' = w ++ t -> False.
Proof.
  induction s' as [|c' s' IH]; intros s w' w t' t Hd H' H E; [discriminate|].
  destruct s as [|c s]; [discriminate|].
  destruct w' as [|a' w']; [discriminate|]. destruct w as [|a w]; [discriminate|].
  cbn [wm] in H', H. apply andb_true_iff in H', H. destruct H' as (Ha' & H'), H as (Ha & H).
  simpl in E. injection E as Ea Et. subst a'. cbn [disj_prefix] in Hd. apply orb_true_iff in Hd. destruct Hd as [Hd | Hd].
  - exact (cls_disj_sound c' c a Hd Ha' Ha).
  - exact (IH s w' w t' t Hd H' H Et).
Qed.

Lemma app_inv_length {A} : forall (a b c d : list A),
  a ++ b = c ++ d -> List.length a = List.length c -> a = c /\ b = d.
Proof.
  induction a as [|x a IH]; intros b [|y c] d E L; simpl in *; try discriminate.
  - split; [reflexivity | exact E].
  - injection E as Ex Et. subst y. injection L as L. destruct (IH b c d Et L) as (-> & ->). split; reflexivity.
Qed.

(* no word of S' is prefix-comparable with a word of S *)
Definition pref_incomparable (S' S : list (list cls)) : bool :=
  forallb (fun s' => forallb (fun s => disj_prefix s' s) S) S'.

(* no word of one is a PROPER prefix of a word of the other *)
Definition no_proper_prefix (S' S : list (list cls)) : bool :=
  forallb (fun s' => forallb (fun s => Nat.eqb (List.length s') (List.length s) || disj_prefix s' s) S) S'.

Lemma pref_incomparable_sound S' S w' w t' t :
  pref_incomparable S' S = true -> in_shapes S' w' -> in_shapes S w -> w' ++ t' = w ++ t -> False.
Proof.
  unfold pref_incomparable. rewrite forallb_forall. intros H (s' & Hs' & Hw') (s & Hs & Hw) E.
  specialize (H s' Hs'). rewrite forallb_forall in H. specialize (H s Hs).
  exact (disj_prefix_sound s' s w' w t' t H Hw' Hw E).
Qed.

Lemma no_proper_prefix_sound S' S w' w t' t :
  no_proper_prefix S' S = true -> in_shapes S' w' -> in_shapes S w -> w' ++ t' = w ++ t ->
  w' = w /\ t' = t.
Proof.
  unfold no_proper_prefix. rewrite forallb_forall. intros H (s' & Hs' & Hw') (s & Hs & Hw) E.
  specialize (H s' Hs'). rewrite forallb_forall in H. specialize (H s Hs).
  apply orb_true_iff in H. destruct H as [H | H].
  - apply Nat.eqb_eq in H. apply app_inv_length; [exact E|].
    rewrite (wm_length _ _ Hw'), (wm_length _ _ Hw). exact H.
  - exfalso. exact (disj_prefix_sound s' s w' w t' t H Hw' Hw E).
Qed.

(** * Scan elements and factorisations *)

Inductive sel :=
| SFix (S : list (list cls))     (* closed: finite union of shapes *)
| SOpen.                         (* open: any slash-free word *)

Definition sel_lang (e : sel) (w : list ascii) : Prop :=
  match e with
  | SFix Sh => in_shapes Sh w
  | SOpen => ~ In "/"%char w
  end.

Definition Fact (es : list sel) (ws : list (list ascii)) : Prop := Forall2 sel_lang es ws.

(* every word of the element is slash-free *)
Definition sel_sf (e : sel) : bool :=
  match e with
  | SOpen => true
  | SFix Sh => forallb (forallb cls_slash_free) Sh
  end.

(* the element is the literal "/" *)
Definition sel_is_slash (e : sel) : bool :=
  match e with
  | SFix [[CSet false [a]]] => Ascii.eqb a "/"
  | _ => false
  end.

Lemma wm_slash_free : forall sh w, forallb cls_slash_free sh = true -> wm sh w = true -> ~ In "/"%char w.
Proof.
  induction sh as [|c sh IH]; intros [|a w] Hs Hw; simpl in *; try discriminate; [intros []|].
  apply andb_true_iff in Hs, Hw. destruct Hs as (Hc & Hs), Hw as (Ha & Hw).
  intros [E | E].
  - subst a. pose proof (cls_slash c "/"%char Hc Ha) as H. discriminate.
  - exact (IH w Hs Hw E).
Qed.

Lemma sel_sf_sound e w : sel_sf e = true -> sel_lang e w -> ~ In "/"%char w.
Proof.
  destruct e as [S|]; simpl; [|auto]. rewrite forallb_forall. intros H (sh & Hin & Hw).
  exact (wm_slash_free sh w (H sh Hin) Hw).
Qed.

Lemma sel_is_slash_inv e : sel_is_slash e = true -> e = SFix [[CSet false ["/"%char]]].
Proof.
  intros H. destruct e as [S|]; [|discriminate H].
  destruct S as [|sh S]; [discriminate H|]. destruct sh as [|c sh]; [discriminate H|].
  destruct c as [| | | |neg l]; try discriminate H. destruct neg; [discriminate H|].
  destruct l as [|a l]; [discriminate H|]. destruct l; [|discriminate H]. destruct sh; [|discriminate H].
  destruct S; [|discriminate H]. cbn [sel_is_slash] in H. apply Ascii.eqb_eq in H. subst a. reflexivity.
Qed.

Lemma sel_is_slash_sound e w : sel_is_slash e = true -> sel_lang e w -> w = ["/"%char].
Proof.
  intros H L. rewrite (sel_is_slash_inv e H) in L. cbn [sel_lang] in L. destruct L as (sh & [<- | []] & Hw).
  destruct w as [|b [|b2 w]]; cbn [wm] in Hw; try discriminate Hw.
  - rewrite in_cls_single, andb_true_r in Hw. apply Ascii.eqb_eq in Hw. subst b. reflexivity.
  - rewrite andb_false_r in Hw. discriminate Hw.
Qed.

Lemma slash_split_list : forall (a b x y : list ascii),
  ~ In "/"%char a -> ~ In "/"%char b -> a ++ "/"%char :: x = b ++ "/"%char :: y -> a = b /\ x = y.
Proof.
  induction a as [|c a IH]; intros [|d b] x y Ha Hb E; simpl in E.
  - injection E as E. split; [reflexivity | exact E].
  - injection E as E1 E2. subst d. exfalso. apply Hb. left. reflexivity.
  - injection E as E1 E2. subst c. exfalso. apply Ha. left. reflexivity.
  - injection E as E1 E2. subst d. destruct (IH b x y) as (-> & ->); auto.
    + intros H. apply Ha. right. exact H.
    + intros H. apply Hb. right. exact H.
Qed.

(** * The left scan *)

Definition sel_incomp (e' e : sel) : bool :=
  match e', e with SFix S', SFix Sh => pref_incomparable S' Sh | _, _ => false end.
Definition sel_sync (e' e : sel) : bool :=
  match e', e with SFix S', SFix Sh => no_proper_prefix S' Sh | _, _ => false end.
Definition next_slash (l : list sel) : bool :=
  match l with x :: _ => sel_is_slash x | [] => false end.

(* None = the two lists cannot factor the same string; Some = where the scan got stuck *)
Fixpoint lscan (es' es : list sel) : option (list sel * list sel) :=
  match es', es with
  | e' :: r', e :: r =>
      if sel_incomp e' e then None
      else if sel_sync e' e || (sel_sf e' && sel_sf e && next_slash r' && next_slash r) then lscan r' r
      else Some (es', es)
  | _, _ => Some (es', es)
  end.

Lemma sel_incomp_sound e' e w' w t' t :
  sel_incomp e' e = true -> sel_lang e' w' -> sel_lang e w -> w' ++ t' = w ++ t -> False.
Proof.
  destruct e' as [S'|], e as [S|]; try discriminate. apply pref_incomparable_sound.
Qed.

Lemma sel_sync_sound e' e w' w t' t :
  sel_sync e' e = true -> sel_lang e' w' -> sel_lang e w -> w' ++ t' = w ++ t -> w' = w /\ t' = t.
Proof.
  destruct e' as [S'|], e as [S|]; try discriminate. apply no_proper_prefix_sound.
Qed.

Lemma next_slash_inv r ws : next_slash r = true -> Fact r ws -> exists ws1, ws = ["/"%char] :: ws1.
Proof.
  destruct r as [|x r]; [discriminate|]. intros H F. inversion F as [|? w ? ws1 Hx _]; subst.
  exists ws1. rewrite (sel_is_slash_sound x w H Hx). reflexivity.
Qed.

Lemma lscan_sound : forall es' es ws' ws, Fact es' ws' -> Fact es ws -> List.concat ws' = List.concat ws ->
  match lscan es' es with
  | None => False
  | Some (r', r) => exists pre wr' wr, ws' = pre ++ wr' /\ ws = pre ++ wr /\
                      Fact r' wr' /\ Fact r wr /\ List.concat wr' = List.concat wr
  end.
Proof.
  induction es' as [|e' r' IH]; intros es ws' ws F' F E.
  - cbn [lscan]. exists [], ws', ws. repeat split; auto.
  - destruct es as [|e r].
    + cbn [lscan]. exists [], ws', ws. repeat split; auto.
    + inversion F' as [|? w' ? ws1' He' F1']; subst. inversion F as [|? w ? ws1 He F1]; subst.
      cbn [List.concat] in E. cbn [lscan].
      destruct (sel_incomp e' e) eqn:Ei.
      { exact (sel_incomp_sound e' e w' w _ _ Ei He' He E). }
      destruct (sel_sync e' e || (sel_sf e' && sel_sf e && next_slash r' && next_slash r)) eqn:Es.
      * assert (G : w' = w /\ List.concat ws1' = List.concat ws1).
        { apply orb_true_iff in Es. destruct Es as [Es | Es].
          - exact (sel_sync_sound e' e w' w _ _ Es He' He E).
          - apply andb_true_iff in Es. destruct Es as (Es & N).
            apply andb_true_iff in Es. destruct Es as (Es & N').
            apply andb_true_iff in Es. destruct Es as (Sf' & Sf).
            destruct (next_slash_inv r' ws1' N' F1') as (x' & ->).
            destruct (next_slash_inv r ws1 N F1) as (x & ->).
            cbn [List.concat app] in E.
            destruct (slash_split_list w' w _ _ (sel_sf_sound e' w' Sf' He') (sel_sf_sound e w Sf He) E) as (-> & E2).
            split; [reflexivity|]. cbn [List.concat app]. rewrite E2. reflexivity. }
        destruct G as (-> & E1). specialize (IH r ws1' ws1 F1' F1 E1).
        destruct (lscan r' r) as [[q' q]|]; [|exact IH].
        destruct IH as (pre & wr' & wr & -> & -> & G1 & G2 & G3).
        exists (w :: pre), wr', wr. repeat split; auto.
      * exists [], (w' :: ws1'), (w :: ws1). repeat split; auto.
Qed.

(** * Reversal: the right scan is the left scan of the mirrored lists *)

Definition srev (e : sel) : sel :=
  match e with SFix Sh => SFix (map (@rev cls) Sh) | SOpen => SOpen end.
Definition rv (es : list sel) : list sel := rev (map srev es).
Definition rvw (ws : list (list ascii)) : list (list ascii) := rev (map (@rev ascii) ws).

Lemma wm_rev sh w : wm sh w = true -> wm (rev sh) (rev w) = true.
Proof.
  revert w. induction sh as [|c sh IH]; intros [|a w] H; simpl in *; try discriminate; [reflexivity|].
  apply andb_true_iff in H. destruct H as (Ha & H). apply wm_app; [apply IH; exact H|].
  simpl. rewrite Ha. reflexivity.
Qed.

Lemma srev_lang e w : sel_lang e w -> sel_lang (srev e) (rev w).
Proof.
  destruct e as [S|]; simpl.
  - intros (sh & Hin & Hw). exists (rev sh). split; [apply in_map; exact Hin | apply wm_rev; exact Hw].
  - intros H Hin. apply H. apply in_rev. exact Hin.
Qed.

Lemma Forall2_rev {A B} (P : A -> B -> Prop) l1 l2 : Forall2 P l1 l2 -> Forall2 P (rev l1) (rev l2).
Proof.
  induction 1 as [|x y l1 l2 Hxy _ IH]; simpl; [constructor|].
  apply Forall2_app; [exact IH | constructor; [exact Hxy | constructor]].
Qed.

Lemma Fact_rv es ws : Fact es ws -> Fact (rv es) (rvw ws).
Proof.
  intros F. unfold rv, rvw. apply Forall2_rev.
  induction F as [|e w es ws He _ IH]; simpl; constructor; [apply srev_lang; exact He | exact IH].
Qed.

Lemma concat_rvw ws : List.concat (rvw ws) = rev (List.concat ws).
Proof.
  unfold rvw. induction ws as [|w ws IH]; simpl; [reflexivity|].
  rewrite concat_app, IH, rev_app_distr. simpl. rewrite app_nil_r. reflexivity.
Qed.

Lemma rvw_inj a b : rvw a = rvw b -> a = b.
Proof.
  unfold rvw. intros H. apply (f_equal (@rev _)) in H. rewrite !rev_involutive in H.
  revert b H. induction a as [|x a IH]; intros [|y b] H; simpl in H; try discriminate; [reflexivity|].
  injection H as H1 H2. apply (f_equal (@rev _)) in H1. rewrite !rev_involutive in H1. subst y.
  rewrite (IH b H2). reflexivity.
Qed.

Lemma Fact_length es ws : Fact es ws -> List.length ws = List.length es.
Proof. induction 1; simpl; congruence. Qed.

(** * Unique factorisation along one list *)

Definition own_ok (es : list sel) : bool :=
  match lscan es es with
  | Some (r', r) =>
      match lscan (rv r') (rv r) with
      | Some (q', q) => Nat.eqb (List.length q') (List.length q) && Nat.leb (List.length q) 1
      | None => false
      end
  | None => false
  end.

Theorem own_unique es ws' ws : own_ok es = true ->
  Fact es ws' -> Fact es ws -> List.concat ws' = List.concat ws -> ws' = ws.
Proof.
  unfold own_ok. intros Hok F' F E.
  pose proof (lscan_sound es es ws' ws F' F E) as H1.
  destruct (lscan es es) as [[r' r]|]; [|discriminate].
  destruct H1 as (pre & wr' & wr & -> & -> & G' & G & E1). f_equal.
  assert (E2 : List.concat (rvw wr') = List.concat (rvw wr)) by (rewrite !concat_rvw, E1; reflexivity).
  pose proof (lscan_sound (rv r') (rv r) _ _ (Fact_rv _ _ G') (Fact_rv _ _ G) E2) as H2.
  destruct (lscan (rv r') (rv r)) as [[q' q]|]; [|discriminate].
  apply andb_true_iff in Hok. destruct Hok as (L1 & L2).
  apply Nat.eqb_eq in L1. apply Nat.leb_le in L2.
  destruct H2 as (pre2 & x' & x & X' & X & Q' & Q & E3).
  apply rvw_inj. rewrite X', X. f_equal.
  pose proof (Fact_length _ _ Q') as Lx'. pose proof (Fact_length _ _ Q) as Lx.
  destruct x' as [|a' [|? ?]], x as [|a [|? ?]]; simpl in *; try lia; [reflexivity|].
  rewrite !app_nil_r in E3. subst a'. reflexivity.
Qed.

(** * Two lists that cannot factor the same string *)

Definition is_none {A} (o : option A) : bool := match o with None => true | Some _ => false end.

Definition nslash (es : list sel) : nat := List.length (filter sel_is_slash es).
Definition all_sf_or_slash (es : list sel) : bool := forallb (fun e => sel_is_slash e || sel_sf e) es.

Fixpoint cnt_slash (w : list ascii) : nat :=
  match w with [] => 0 | a :: w' => (if Ascii.eqb a "/" then 1 else 0) + cnt_slash w' end.

Lemma cnt_slash_app a b : cnt_slash (a ++ b) = cnt_slash a + cnt_slash b.
Proof. induction a as [|x a IH]; simpl; [reflexivity | rewrite IH; lia]. Qed.

Lemma cnt_slash_0 w : ~ In "/"%char w -> cnt_slash w = 0.
Proof.
  induction w as [|a w IH]; simpl; intros H; [reflexivity|].
  destruct (Ascii.eqb a "/") eqn:E.
  - apply Ascii.eqb_eq in E. exfalso. apply H. left. exact E.
  - apply IH. intros H'. apply H. right. exact H'.
Qed.

Lemma nslash_le es ws : Fact es ws -> nslash es <= cnt_slash (List.concat ws).
Proof.
  unfold nslash. induction 1 as [|e w es ws He _ IH]; simpl; [lia|].
  rewrite cnt_slash_app. destruct (sel_is_slash e) eqn:Es; simpl; [|lia].
  rewrite (sel_is_slash_sound e w Es He). simpl. lia.
Qed.

Lemma nslash_eq es ws : all_sf_or_slash es = true -> Fact es ws -> cnt_slash (List.concat ws) = nslash es.
Proof.
  unfold nslash, all_sf_or_slash. intros Ha F. induction F as [|e w es ws He _ IH]; simpl; [reflexivity|].
  simpl in Ha. apply andb_true_iff in Ha. destruct Ha as (Ha & Hr). rewrite cnt_slash_app, (IH Hr).
  destruct (sel_is_slash e) eqn:Es; simpl.
  - rewrite (sel_is_slash_sound e w Es He). reflexivity.
  - simpl in Ha. rewrite (cnt_slash_0 w (sel_sf_sound e w Ha He)). reflexivity.
Qed.

(* es' : the other list (all its words); es : the own list (its concrete words) *)
Definition sepb (es' es : list sel) : bool :=
  is_none (lscan es' es) || is_none (lscan (rv es') (rv es))
  || (all_sf_or_slash es && Nat.ltb (nslash es) (nslash es')).

Theorem sepb_sound es' es ws' ws : sepb es' es = true ->
  Fact es' ws' -> Fact es ws -> List.concat ws' = List.concat ws -> False.
Proof.
  unfold sepb. intros H F' F E. apply orb_true_iff in H. destruct H as [H | H].
  - apply orb_true_iff in H. destruct H as [H | H].
    + pose proof (lscan_sound es' es ws' ws F' F E) as G. destruct (lscan es' es); [discriminate | exact G].
    + assert (E2 : List.concat (rvw ws') = List.concat (rvw ws)) by (rewrite !concat_rvw, E; reflexivity).
      pose proof (lscan_sound _ _ _ _ (Fact_rv _ _ F') (Fact_rv _ _ F) E2) as G.
      destruct (lscan (rv es') (rv es)); [discriminate | exact G].
  - apply andb_true_iff in H. destruct H as (Ha & Hl). apply Nat.ltb_lt in Hl.
    pose proof (nslash_le es' ws' F') as H1. pose proof (nslash_eq es ws Ha F) as H2.
    rewrite E in H1. lia.
Qed.
