(** Python [str] operations on 8-bit strings, as total structural functions.
    Model file: definitions only (proofs are in StrProofs.v). *)
From Coq Require Import List String Ascii Bool Arith.
Import ListNotations.
Local Open Scope string_scope.

Definition str1 (a : ascii) : string := String a "".

Definition sempty (s : string) : bool := match s with "" => true | _ => false end.

(* python: s.startswith(p) *)
Fixpoint startswith (p s : string) : bool :=
  match p with
  | "" => true
  | String a p' => match s with
                   | "" => false
                   | String b s' => Ascii.eqb a b && startswith p' s'
                   end
  end.

Fixpoint rev_s_aux (s acc : string) : string :=
  match s with "" => acc | String a s' => rev_s_aux s' (String a acc) end.
Definition rev_s (s : string) : string := rev_s_aux s "".

Definition endswith (p s : string) : bool := startswith (rev_s p) (rev_s s).

(* python: sub in s *)
Fixpoint contains (sub s : string) : bool :=
  startswith sub s || match s with "" => false | String _ s' => contains sub s' end.

Fixpoint mem_c (c : ascii) (s : string) : bool :=
  match s with "" => false | String a s' => Ascii.eqb a c || mem_c c s' end.

(* python: s.split(c) for a one-character separator *)
Fixpoint split_c (c : ascii) (s : string) : list string :=
  match s with
  | "" => [""]
  | String a s' =>
      if Ascii.eqb a c then "" :: split_c c s'
      else match split_c c s' with
           | h :: t => String a h :: t
           | [] => [str1 a]
           end
  end.

(* python: sep.join(l) *)
Fixpoint join (sep : string) (l : list string) : string :=
  match l with
  | [] => ""
  | [x] => x
  | x :: t => x ++ sep ++ join sep t
  end.

(* python: s.split(c, 1) as (head, Some tail) / (s, None) *)
Fixpoint split1_c (c : ascii) (s : string) : string * option string :=
  match s with
  | "" => ("", None)
  | String a s' =>
      if Ascii.eqb a c then ("", Some s')
      else let (h, t) := split1_c c s' in (String a h, t)
  end.

(* python: s.split(sep) for a non-empty multi-character separator.
   [skip] counts the characters of a separator occurrence still to be dropped. *)
Fixpoint split_s_aux (sep : string) (skip : nat) (s : string) : list string :=
  match s with
  | "" => [""]
  | String a s' =>
      match skip with
      | S n => split_s_aux sep n s'
      | O => if startswith sep s then "" :: split_s_aux sep (String.length sep - 1) s'
             else match split_s_aux sep 0 s' with
                  | h :: t => String a h :: t
                  | [] => [str1 a]
                  end
      end
  end.
Definition split_s (sep s : string) : list string := split_s_aux sep 0 s.

(* python: s.replace(old, new), old non-empty *)
Fixpoint replace_aux (old new : string) (skip : nat) (s : string) : string :=
  match s with
  | "" => ""
  | String a s' =>
      match skip with
      | S n => replace_aux old new n s'
      | O => if startswith old s then new ++ replace_aux old new (String.length old - 1) s'
             else String a (replace_aux old new 0 s')
      end
  end.
Definition replace (old new s : string) : string :=
  if sempty old then s else replace_aux old new 0 s.

(* python: s.count(sub), sub non-empty (non-overlapping occurrences) *)
Fixpoint count_aux (sub : string) (skip : nat) (s : string) : nat :=
  match s with
  | "" => 0
  | String a s' =>
      match skip with
      | S n => count_aux sub n s'
      | O => if startswith sub s then S (count_aux sub (String.length sub - 1) s')
             else count_aux sub 0 s'
      end
  end.
Definition count (sub s : string) : nat := count_aux sub 0 s.

Fixpoint count_c (c : ascii) (s : string) : nat :=
  match s with "" => 0 | String a s' => (if Ascii.eqb a c then 1 else 0) + count_c c s' end.

(* python str.strip(): whitespace restricted to code points <= 255 *)
Definition is_space (a : ascii) : bool :=
  let n := nat_of_ascii a in
  (Nat.leb 9 n && Nat.leb n 13) || (Nat.leb 28 n && Nat.leb n 32) || Nat.eqb n 133 || Nat.eqb n 160.

Fixpoint lstrip (s : string) : string :=
  match s with
  | "" => ""
  | String a s' => if is_space a then lstrip s' else s
  end.
Definition strip (s : string) : string := rev_s (lstrip (rev_s (lstrip s))).

Fixpoint drop (n : nat) (s : string) : string :=
  match n, s with
  | O, _ => s
  | S n', String _ s' => drop n' s'
  | S _, "" => ""
  end.
Fixpoint take (n : nat) (s : string) : string :=
  match n, s with
  | O, _ => ""
  | S n', String a s' => String a (take n' s')
  | S _, "" => ""
  end.
(* python: s[:-n] for n >= 1 *)
Definition drop_last (n : nat) (s : string) : string := take (String.length s - n) s.
(* python: s[:len(s)-n] (n may exceed len: negative index semantics are NOT modelled; callers guarantee n <= len) *)

(* python: a < b on str (code point order) *)
Fixpoint str_ltb (a b : string) : bool :=
  match a, b with
  | "", "" => false
  | "", String _ _ => true
  | String _ _, "" => false
  | String x a', String y b' =>
      let nx := nat_of_ascii x in let ny := nat_of_ascii y in
      if Nat.ltb nx ny then true else if Nat.ltb ny nx then false else str_ltb a' b'
  end.
Definition str_leb (a b : string) : bool := negb (str_ltb b a).

Definition is_digit (a : ascii) : bool :=
  let n := nat_of_ascii a in Nat.leb 48 n && Nat.leb n 57.

Fixpoint all_c (f : ascii -> bool) (s : string) : bool :=
  match s with "" => true | String a s' => f a && all_c f s' end.

Definition in_list (s : string) (l : list string) : bool := existsb (String.eqb s) l.

Fixpoint nodup_s (l : list string) : list string :=
  match l with
  | [] => []
  | x :: t => if in_list x t then nodup_s t else x :: nodup_s t
  end.

(* keep first occurrences (python: iteration order of a dict built by successive insertion) *)
Fixpoint uniq_first_aux (seen l : list string) : list string :=
  match l with
  | [] => []
  | x :: t => if in_list x seen then uniq_first_aux seen t else x :: uniq_first_aux (x :: seen) t
  end.
Definition uniq_first (l : list string) : list string := uniq_first_aux [] l.

(* insertion sort by str_leb: python sorted() on str is stable; on equal strings order is irrelevant *)
Fixpoint insert_sorted (x : string) (l : list string) : list string :=
  match l with
  | [] => [x]
  | y :: t => if str_leb x y then x :: l else y :: insert_sorted x t
  end.
Definition sort_s (l : list string) : list string := fold_right insert_sorted [] l.

(* last element *)
Fixpoint last_opt {A} (l : list A) : option A :=
  match l with [] => None | [x] => Some x | _ :: t => last_opt t end.
