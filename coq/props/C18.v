From Coq Require Import List String.
Example C18_placeholder : True. Proof. exact I. Qed.
Print Assumptions C18_placeholder.
