From Coq Require Import List String.
Example C15_placeholder : True. Proof. exact I. Qed.
Print Assumptions C15_placeholder.
