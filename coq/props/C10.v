(** C10 — search results obey the algebra of the search syntax.  Property theorems only.
    Proved: a result set is determined by the set of glob forms of the unfolded searches (so equal unfoldings give equal
    results on ANY list), the "," rule at the level of the unfolding (cartesian product), no duplicates, results are
    entries of the data set; and, from the C07 denotation (Search/AlgebraProofs.v), for the list-backed finder, every
    configuration passing [unfold_conf_okb] and searches in the guarded fragment (plain strings, url-safe filters, no ">"):
    the characterisation of a search result and the FIVE rewrite rules as set equalities.  The guards are explicit and
    decidable ([shortcut_okb]: a typed non-search Sid is searched as itself, so narrowing must keep its string; [lit_ok] /
    [filt_okb]: the list finder does not re-type entries; [narrow_stableb]); each rule is instantiated on the live
    configuration below.  On FindInPaths / FindInAll the rules are checked as result-set equalities on the implementation
    over real trees (tools/props/c10.py) and follow for star searches from C11_tree_search_spec. *)
From Coq Require Import List String Ascii Bool Arith Permutation Sorted.
From Spil Require Import Base.Str Base.Dict Base.Outcome Regex.Re Conf.Conf Conf.WF Sid.Sid
  Search.Unfold Search.FindList Search.GlobProofs Search.FindListProofs Search.UnfoldProofs
  Resolva.Template Resolva.Resolver Sid.TypingSpec Search.UnfoldSpec Search.AlgebraDefs Search.AlgebraProofs.
From SpilGen Require Hamlet.
Import ListNotations.
Local Open Scope string_scope.

(* the result depends only on the SET of search forms: two unfoldings with the same forms find the same entries *)
Theorem C10_forms_determine_results : forall qs1 qs2 items l1 l2,
  star_search qs1 items = Ok l1 -> star_search qs2 items = Ok l2 ->
  (forall e, (exists q, In q qs1 /\ glob_rel (s_string q) e) <-> (exists q, In q qs2 /\ glob_rel (s_string q) e)) ->
  forall e, In e l1 <-> In e l2.
Proof.
  intros qs1 qs2 items l1 l2 H1 H2 Heq e.
  rewrite (star_search_glob_spec qs1 items l1 H1 e), (star_search_glob_spec qs2 items l2 H2 e).
  split; intros [Hi Hq]; (split; [exact Hi | apply Heq; exact Hq]).
Qed.
Print Assumptions C10_forms_determine_results.

(* union: the results of the concatenation of two search lists are the union of the results *)
Theorem C10_union : forall qs1 qs2 items l l1 l2,
  star_search (qs1 ++ qs2) items = Ok l -> star_search qs1 items = Ok l1 -> star_search qs2 items = Ok l2 ->
  forall e, In e l <-> In e l1 \/ In e l2.
Proof.
  intros qs1 qs2 items l l1 l2 H H1 H2 e.
  rewrite (star_search_glob_spec _ items l H e), (star_search_glob_spec qs1 items l1 H1 e), (star_search_glob_spec qs2 items l2 H2 e).
  split.
  - intros [Hi (q & Hq & Hg)]. apply in_app_or in Hq. destruct Hq as [Hq|Hq]; [left|right]; (split; [exact Hi | exists q; split; assumption]).
  - intros [[Hi (q & Hq & Hg)]|[Hi (q & Hq & Hg)]]; (split; [exact Hi | exists q; split; [apply in_or_app|exact Hg]]); [left|right]; exact Hq.
Qed.
Print Assumptions C10_union.

Theorem C10_comma_product : forall s, contains start_marker s = false ->
  forall r, In r (or_on_path s) <->
    exists choice, Forall2 (fun part alt => In alt (if contains ors part then map strip (split_c "," part) else [part]))
                           (split_c "/" s) choice /\ r = join "/" choice.
Proof. exact or_on_path_product'. Qed.
Print Assumptions C10_comma_product.

Theorem C10_nodup : forall qs items l, star_search qs items = Ok l -> NoDup l.
Proof. intros qs items l H. exact (proj1 (star_search_spec qs items l H)). Qed.
Print Assumptions C10_nodup.

Example C10_instance :
  find_list Hamlet.the_loaded ["hamlet/a/char/x/model/v001/w/ma"; "hamlet/a/char/x/model/v001/w/mb"; "hamlet/a/char/x/model/v001/w/hip"] "hamlet/a/char/x/model/v001/w/maya"
  = Ok ["hamlet/a/char/x/model/v001/w/ma"; "hamlet/a/char/x/model/v001/w/mb"].
Proof. vm_compute. reflexivity. Qed.
Print Assumptions C10_instance.

(** ** The algebra as theorems (list-backed finder) *)

(* what a list search returns: the entries glob-matched by a typed search the expression denotes (C07 denotation); no duplicates *)
Theorem C10_find_list_denotes :
  forall (c : Conf) (Ld : Loaded),
  load c = Some Ld ->
  wf_loadedb Ld = true ->
  unfold_conf_okb Ld = true ->
  forall (items : list string) (s : string) (l : list string),
  guarded Ld s -> find_list Ld items s = Ok l -> NoDup l /\ (forall e : string, In e l <-> In e items /\ matched Ld s e).
Proof. exact find_list_denotes. Qed.
Print Assumptions C10_find_list_denotes.

(* rule 1: a "," list = the union of its alternatives *)
Theorem C10_comma_rule :
  forall (c : Conf) (Ld : Loaded),
  load c = Some Ld ->
  wf_loadedb Ld = true ->
  unfold_conf_okb Ld = true ->
  forall (items pre : list string) (a b : string) (post l la lb : list string),
  Forall noslash pre ->
  Forall noslash post ->
  alt_okb a = true ->
  alt_okb b = true ->
  (post = [] -> a <> "" /\ b <> "") ->
  search_ok (mk pre (a ++ "," ++ b) post) = true ->
  shortcut_okb Ld (mk pre (a ++ "," ++ b) post) = true ->
  nosort Ld (mk pre (a ++ "," ++ b) post) ->
  search_ok (mk pre a post) = true ->
  shortcut_okb Ld (mk pre a post) = true ->
  search_ok (mk pre b post) = true ->
  shortcut_okb Ld (mk pre b post) = true ->
  find_list Ld items (mk pre (a ++ "," ++ b) post) = Ok l ->
  find_list Ld items (mk pre a post) = Ok la ->
  find_list Ld items (mk pre b post) = Ok lb -> NoDup l /\ (forall e : string, In e l <-> In e la \/ In e lb).
Proof. exact comma_rule2. Qed.
Print Assumptions C10_comma_rule.

(* ... for any number of alternatives, in any segment *)
Theorem C10_comma_rule_n :
  forall (c : Conf) (Ld : Loaded),
  load c = Some Ld ->
  wf_loadedb Ld = true ->
  unfold_conf_okb Ld = true ->
  forall (items pre alts post l : list string) (ls : list (list string)),
  alts <> [] ->
  Forall noslash pre ->
  Forall noslash post ->
  Forall (fun a : string => alt_okb a = true) alts ->
  (post = [] -> Forall (fun a : string => a <> "") alts) ->
  search_ok (mk pre (join "," alts) post) = true ->
  shortcut_okb Ld (mk pre (join "," alts) post) = true ->
  nosort Ld (mk pre (join "," alts) post) ->
  (forall a : string, In a alts -> search_ok (mk pre a post) = true /\ shortcut_okb Ld (mk pre a post) = true) ->
  find_list Ld items (mk pre (join "," alts) post) = Ok l ->
  Forall2 (fun (a : string) (l' : list string) => find_list Ld items (mk pre a post) = Ok l') alts ls ->
  NoDup l /\ (forall e : string, In e l <-> (exists l' : list string, In l' ls /\ In e l')).
Proof. exact comma_rule. Qed.
Print Assumptions C10_comma_rule_n.

(* rule 2: an alias = the union of its member extensions *)
Theorem C10_alias_rule :
  forall (c : Conf) (Ld : Loaded),
  load c = Some Ld ->
  wf_loadedb Ld = true ->
  unfold_conf_okb Ld = true ->
  forall (items pre : list string) (a : string) (ms l : list string) (ls : list (list string)),
  Forall noslash pre ->
  noslash a ->
  dget (c_extension_alias (l_conf Ld)) a = Some ms ->
  a <> "" ->
  mem_c "," a = false ->
  Forall (fun m : string => dmem (c_extension_alias (l_conf Ld)) m = false) ms ->
  search_ok (mk pre a []) = true ->
  shortcut_okb Ld (mk pre a []) = true ->
  nosort Ld (mk pre a []) ->
  (forall m : string, In m ms -> search_ok (mk pre m []) = true /\ shortcut_okb Ld (mk pre m []) = true) ->
  find_list Ld items (mk pre a []) = Ok l ->
  Forall2 (fun (m : string) (l' : list string) => find_list Ld items (mk pre m []) = Ok l') ms ls ->
  NoDup l /\ (forall e : string, In e l <-> (exists l' : list string, In l' ls /\ In e l')).
Proof. exact alias_rule. Qed.
Print Assumptions C10_alias_rule.

(* rule 3: "**" = the union over the numbers n of "/*" levels, restricted to leaf types *)
Theorem C10_dstar_rule :
  forall (c : Conf) (Ld : Loaded),
  load c = Some Ld ->
  wf_loadedb Ld = true ->
  unfold_conf_okb Ld = true ->
  forall items pre post l : list string,
  pre <> [] ->
  Forall noslash pre ->
  Forall noslash post ->
  (post = [] -> dmem (c_extension_alias (l_conf Ld)) "**" = false) ->
  (post = [] -> dmem (c_extension_alias (l_conf Ld)) "*" = false) ->
  (post = [] -> lastpre_ok Ld pre) ->
  search_ok (mk pre "**" post) = true ->
  shortcut Ld (mk pre "**" post) = false ->
  nosort Ld (mk pre "**" post) ->
  find_list Ld items (mk pre "**" post) = Ok l ->
  NoDup l /\ (forall e : string, In e l <-> In e items /\ (exists n : nat, matched_by (levels_on Ld pre n post) e)).
Proof. exact dstar_rule. Qed.
Print Assumptions C10_dstar_rule.

(* rule 4: appending a filter k=v on a key the searched types have open = the results whose field k is v *)
Theorem C10_filter_rule :
  forall (c : Conf) (Ld : Loaded),
  load c = Some Ld ->
  wf_loadedb Ld = true ->
  unfold_conf_okb Ld = true ->
  forall (items : list string) (body k v : string) (l lf : list string),
  search_ok body = true ->
  contains "**" body = false ->
  narrow_stableb Ld body = true ->
  shortcut_okb Ld body = true ->
  nosort Ld body ->
  atomb k = true ->
  atomb v = true ->
  literalb v = true ->
  startswith "~" v = false ->
  value_alts Ld k v = [v] ->
  filt_okb Ld body k v = true ->
  ~ In "" (bodies Ld body) ->
  shortcut Ld (body ++ "?" ++ k ++ "=" ++ v) = false ->
  nosort_by (denotes_q Ld body [(k, v)]) ->
  find_list Ld items body = Ok l ->
  find_list Ld items (body ++ "?" ++ k ++ "=" ++ v) = Ok lf ->
  NoDup lf /\ (forall e : string, In e lf <-> In e l /\ field_in Ld body k e v).
Proof. exact filter_rule. Qed.
Print Assumptions C10_filter_rule.

(* rule 5: replacing a "*" by a literal = the subset having that value *)
Theorem C10_literal_rule :
  forall (c : Conf) (Ld : Loaded),
  load c = Some Ld ->
  wf_loadedb Ld = true ->
  unfold_conf_okb Ld = true ->
  forall (items pre : list string) (v : string) (post l lv : list string),
  Forall noslash pre ->
  Forall noslash post ->
  noslash v ->
  literalb v = true ->
  mem_c "," v = false ->
  (post = [] -> v <> "" /\ dmem (c_extension_alias (l_conf Ld)) v = false) ->
  (post = [] -> dmem (c_extension_alias (l_conf Ld)) "*" = false) ->
  lit_ok Ld pre post v ->
  search_ok (mk pre "*" post) = true ->
  contains "**" (mk pre "*" post) = false ->
  narrow_stableb Ld (mk pre "*" post) = true ->
  shortcut_okb Ld (mk pre "*" post) = true ->
  nosort Ld (mk pre "*" post) ->
  search_ok (mk pre v post) = true ->
  contains "**" (mk pre v post) = false ->
  narrow_stableb Ld (mk pre v post) = true ->
  shortcut_okb Ld (mk pre v post) = true ->
  nosort Ld (mk pre v post) ->
  find_list Ld items (mk pre "*" post) = Ok l ->
  find_list Ld items (mk pre v post) = Ok lv ->
  NoDup lv /\ (forall e : string, In e lv <-> In e l /\ nth_error (split_c "/" e) (Datatypes.length pre) = Some v).
Proof. exact literal_rule. Qed.
Print Assumptions C10_literal_rule.

(* the characterisation with a trailing url-safe query *)
Theorem C10_find_list_query_denotes :
  forall (c : Conf) (Ld : Loaded),
  load c = Some Ld ->
  wf_loadedb Ld = true ->
  unfold_conf_okb Ld = true ->
  forall (items : list string) (body : string) (qd : list (string * string)) (l : list string),
  search_ok body = true ->
  query_okb qd = true ->
  ~ In "" (bodies Ld body) ->
  shortcut Ld (body ++ "?" ++ query_str qd) = false ->
  nosort_by (denotes_q Ld body qd) ->
  find_list Ld items (body ++ "?" ++ query_str qd) = Ok l ->
  NoDup l /\ (forall e : string, In e l <-> In e items /\ matched_by (denotes_q Ld body qd) e).
Proof. exact find_list_query_denotes. Qed.
Print Assumptions C10_find_list_query_denotes.

(** ** Every rule instantiated on the configuration of this run: all guards discharged by computation *)

Definition L := Hamlet.the_loaded.

Lemma conf_unfold_ok : unfold_conf_okb L = true.
Proof. vm_compute. reflexivity. Qed.

Definition items : list string :=
  ["hamlet/a/char/ophelia"; "hamlet/a/char/claudius"; "hamlet/a/prop/skull"; "hamlet/a/char";
   "hamlet/a/char/ophelia/model/v001/w/ma"; "hamlet/a/char/ophelia/model/v001/w/mb";
   "hamlet/a/char/ophelia/model/v001/w/mp4"; "hamlet/a/char/ophelia/model";
   "hamlet/s/sq010/sh0010"; "hamlet/x/char/ophelia"].

(* computation, only on decidable goals (never normalise a Prop that mentions the configuration) *)
Ltac calc :=
  match goal with
  | |- @eq bool _ _ => vm_compute; reflexivity
  | |- noslash _ => vm_compute; reflexivity
  | |- @eq (outcome _) _ _ => vm_compute; reflexivity
  | |- @eq (list string) _ _ => vm_compute; reflexivity
  | |- @eq (option _) _ _ => vm_compute; reflexivity
  end.
Ltac nosort_calc := apply (nosortb_nosort Hamlet.the_conf L Hamlet.the_loaded_eq Hamlet.conf_wf conf_unfold_ok); calc.
Ltac f2 := repeat (first [apply Forall2_nil | apply Forall2_cons; [calc|]]).
Ltac segs := match goal with |- Forall _ _ => repeat constructor end.

(** Rule 0: the characterisation of [find_list] *)
Example C10_denotes_hamlet :
  NoDup ["hamlet/a/char/ophelia"; "hamlet/a/char/claudius"] /\
  forall e, In e ["hamlet/a/char/ophelia"; "hamlet/a/char/claudius"] <-> In e items /\ matched L "hamlet/a/char/*" e.
Proof.
  apply (find_list_denotes Hamlet.the_conf L Hamlet.the_loaded_eq Hamlet.conf_wf conf_unfold_ok items "hamlet/a/char/*").
  - split; [calc|]. split; [calc | nosort_calc].
  - calc.
Qed.

(** Rule 1: "hamlet/a/char/ophelia,claudius" = "hamlet/a/char/ophelia" U "hamlet/a/char/claudius" *)
Example C10_comma_hamlet :
  NoDup ["hamlet/a/char/claudius"; "hamlet/a/char/ophelia"] /\
  forall e, In e ["hamlet/a/char/claudius"; "hamlet/a/char/ophelia"] <->
            In e ["hamlet/a/char/ophelia"] \/ In e ["hamlet/a/char/claudius"].
Proof.
  apply (comma_rule2 Hamlet.the_conf L Hamlet.the_loaded_eq Hamlet.conf_wf conf_unfold_ok items
           ["hamlet"; "a"; "char"] "ophelia" "claudius" []); try calc; try segs.
  - intros _. split; discriminate.
  - nosort_calc.
Qed.

(* a "," list in a middle segment, three alternatives *)
Example C10_comma_middle_hamlet :
  NoDup ["hamlet/a/char/ophelia"; "hamlet/a/char/claudius"; "hamlet/a/prop/skull"] /\
  forall e, In e ["hamlet/a/char/ophelia"; "hamlet/a/char/claudius"; "hamlet/a/prop/skull"] <->
    exists l', In l' [["hamlet/a/char/ophelia"; "hamlet/a/char/claudius"]; ["hamlet/a/prop/skull"]; []] /\ In e l'.
Proof.
  apply (comma_rule Hamlet.the_conf L Hamlet.the_loaded_eq Hamlet.conf_wf conf_unfold_ok items
           ["hamlet"; "a"] ["char"; "prop"; "set"] ["*"]); try calc; try segs; try discriminate.
  - nosort_calc.
  - intros a [<-|[<-|[<-|[]]]]; split; calc.
  - f2.
Qed.

(** Rule 2: the alias "maya" = "ma" U "mb" *)
Example C10_alias_hamlet :
  NoDup ["hamlet/a/char/ophelia/model/v001/w/ma"; "hamlet/a/char/ophelia/model/v001/w/mb"] /\
  forall e, In e ["hamlet/a/char/ophelia/model/v001/w/ma"; "hamlet/a/char/ophelia/model/v001/w/mb"] <->
    exists l', In l' [["hamlet/a/char/ophelia/model/v001/w/ma"]; ["hamlet/a/char/ophelia/model/v001/w/mb"]] /\ In e l'.
Proof.
  apply (alias_rule Hamlet.the_conf L Hamlet.the_loaded_eq Hamlet.conf_wf conf_unfold_ok items
           ["hamlet"; "a"; "char"; "ophelia"; "model"; "v001"; "w"] "maya" ["ma"; "mb"]); try calc; try segs; try discriminate.
  - nosort_calc.
  - intros m [<-|[<-|[]]]; split; calc.
  - f2.
Qed.

(** Rule 3: "hamlet/a/char/**" *)
Example C10_dstar_hamlet :
  NoDup ["hamlet/a/char/ophelia/model/v001/w/ma"; "hamlet/a/char/ophelia/model/v001/w/mb";
         "hamlet/a/char/ophelia/model/v001/w/mp4"] /\
  forall e, In e ["hamlet/a/char/ophelia/model/v001/w/ma"; "hamlet/a/char/ophelia/model/v001/w/mb";
                  "hamlet/a/char/ophelia/model/v001/w/mp4"] <->
    In e items /\ exists n, matched_by (levels_on L ["hamlet"; "a"; "char"] n []) e.
Proof.
  apply (dstar_rule Hamlet.the_conf L Hamlet.the_loaded_eq Hamlet.conf_wf conf_unfold_ok items ["hamlet"; "a"; "char"] []);
    try calc; try segs; try discriminate.
  - intros _. calc.
  - intros _. calc.
  - intros _ x. vm_compute. tauto.
  - nosort_calc.
Qed.

(** Rule 4: "hamlet/a/*/*?assettype=char" = the results of "hamlet/a/*/*" whose assettype is "char" *)
Example C10_filter_hamlet :
  NoDup ["hamlet/a/char/ophelia"; "hamlet/a/char/claudius"] /\
  forall e, In e ["hamlet/a/char/ophelia"; "hamlet/a/char/claudius"] <->
    In e ["hamlet/a/char/ophelia"; "hamlet/a/char/claudius"; "hamlet/a/prop/skull"] /\
    field_in L "hamlet/a/*/*" "assettype" e "char".
Proof.
  apply (filter_rule Hamlet.the_conf L Hamlet.the_loaded_eq Hamlet.conf_wf conf_unfold_ok items "hamlet/a/*/*" "assettype" "char");
    try calc.
  - nosort_calc.
  - vm_compute. intros [H|[]]. discriminate H.
  - apply (nosortb_query Hamlet.the_conf L Hamlet.the_loaded_eq Hamlet.conf_wf conf_unfold_ok "hamlet/a/*/*" [("assettype", "char")]); try calc.
    vm_compute. intros [H|[]]. discriminate H.
Qed.

(** Rule 5: "hamlet/a/char/ophelia" = the results of "hamlet/a/char/*" whose 4th segment is "ophelia" *)
Example C10_literal_hamlet :
  NoDup ["hamlet/a/char/ophelia"] /\
  forall e, In e ["hamlet/a/char/ophelia"] <->
    In e ["hamlet/a/char/ophelia"; "hamlet/a/char/claudius"] /\ nth_error (split_c "/" e) 3 = Some "ophelia".
Proof.
  apply (literal_rule Hamlet.the_conf L Hamlet.the_loaded_eq Hamlet.conf_wf conf_unfold_ok items ["hamlet"; "a"; "char"] "ophelia" []);
    try calc; try segs.
  - intros _. split; [discriminate | calc].
  - intros _. calc.
  - apply lit_okb_ok. calc.
  - nosort_calc.
  - nosort_calc.
Qed.

(* a literal in a middle segment: the shortcut is not taken on either side *)
Example C10_literal_middle_hamlet :
  NoDup ["hamlet/a/char/ophelia"; "hamlet/a/char/claudius"] /\
  forall e, In e ["hamlet/a/char/ophelia"; "hamlet/a/char/claudius"] <->
    In e ["hamlet/a/char/ophelia"; "hamlet/a/char/claudius"; "hamlet/a/prop/skull"] /\
    nth_error (split_c "/" e) 2 = Some "char".
Proof.
  apply (literal_rule Hamlet.the_conf L Hamlet.the_loaded_eq Hamlet.conf_wf conf_unfold_ok items ["hamlet"; "a"] "char" ["*"]);
    try calc; try segs; try discriminate.
  - apply lit_okb_ok. calc.
  - nosort_calc.
  - nosort_calc.
Qed.

Print Assumptions C10_comma_hamlet.
Print Assumptions C10_alias_hamlet.
Print Assumptions C10_dstar_hamlet.
Print Assumptions C10_filter_hamlet.
Print Assumptions C10_literal_hamlet.

Print Assumptions C10_denotes_hamlet.
Print Assumptions C10_comma_middle_hamlet.
Print Assumptions C10_literal_middle_hamlet.

(** ** The algebra for the TREE finder FindInPaths (Search/AlgebraTreeDefs.v, AlgebraTreeProofs.v)

    For a data set E (list of Sids) materialised as a file tree F ([dataset_ok Ld cfg E F] of C11), a configuration passing
    [unfold_conf_okb] and [paths_unambiguousb], and a search string s in the guarded fragment whose typed searches (what
    [Finder.find] hands to the star search: [find_searches Ld s], the Sid itself or the unfolding) satisfy the hypotheses of
    C11_tree_eq_list ([tree_guard Ld cfg E s] = [searches_ok] /\ [pat_inj] /\ [types_covered]; decidable: [tree_guardb]):
    FindInPaths.find(s) returns, without duplicates, exactly the strings of the members of E that s matches, i.e. the same set
    as FindInList over the strings of E; hence all FIVE rules hold for the tree finder as set equalities.
    - [nosort] is NOT a hypothesis here: [searches_ok] already excludes ">" ([tree_guard_nosort]).
    - no extra conjunct "the type of e has a path template": every member of E has a path by [dataset_ok].
    - no duplicates needs no hypothesis on the tree beyond [dataset_ok]: a path globbed by the pattern of a good search that
      resolves to a Sid has as many components as its normal form, hence IS the path of that Sid ([hit_path_own]), so two hits
      with the same Sid string come from the same path ([paths_star_NoDup_dataset]).
    - without [types_covered] the tree finder returns the members matched by a typed search OF THEIR OWN TYPE
      ([C10_find_paths_denotes_typed]): a subset of the list answer. *)
From Spil Require Import Conf.Routing FS.Fs Path.UnambiguousDefs Search.Finders Search.TreeListDefs Search.TreeListProofs
  Search.LastAgreeProofs Search.AlgebraTreeDefs Search.AlgebraTreeProofs.

(* rule 0: what a tree search returns *)
Theorem C10_find_paths_denotes :
  forall (c : Conf) (Ld : Loaded),
  load c = Some Ld ->
  wf_loadedb Ld = true ->
  unfold_conf_okb Ld = true ->
  paths_unambiguousb Ld = true ->
  forall (cfg : string) (E : list sid) (F : fs),
  dataset_ok Ld cfg E F ->
  forall (id s : string) (l : list string),
  search_ok s = true ->
  shortcut_okb Ld s = true ->
  tree_guard Ld cfg E s ->
  ffind Ld F (FPaths id cfg) s = Ok l ->
  NoDup l /\ (forall e : string, In e l <-> In e (map s_string E) /\ matched Ld s e).
Proof. exact find_paths_denotes. Qed.
Print Assumptions C10_find_paths_denotes.

(* ... under the guard of the list finder *)
Theorem C10_find_paths_denotes_guarded :
  forall (c : Conf) (Ld : Loaded),
  load c = Some Ld ->
  wf_loadedb Ld = true ->
  unfold_conf_okb Ld = true ->
  paths_unambiguousb Ld = true ->
  forall (cfg : string) (E : list sid) (F : fs),
  dataset_ok Ld cfg E F ->
  forall (id s : string) (l : list string),
  guarded Ld s ->
  tree_guard Ld cfg E s ->
  ffind Ld F (FPaths id cfg) s = Ok l ->
  NoDup l /\ (forall e : string, In e l <-> In e (map s_string E) /\ matched Ld s e).
Proof. exact find_paths_denotes_guarded. Qed.
Print Assumptions C10_find_paths_denotes_guarded.

(* the decidable guard is sound *)
Theorem C10_tree_guardb_sound : forall (Ld : Loaded) (cfg : string) (E : list sid) (s : string),
  tree_guardb Ld cfg E s = true -> tree_guard Ld cfg E s.
Proof. exact tree_guardb_sound. Qed.
Print Assumptions C10_tree_guardb_sound.

(* without [types_covered]: the members of E matched by a denoted typed search of their own type *)
Theorem C10_find_paths_denotes_typed :
  forall (c : Conf) (Ld : Loaded),
  load c = Some Ld ->
  wf_loadedb Ld = true ->
  unfold_conf_okb Ld = true ->
  paths_unambiguousb Ld = true ->
  forall (cfg : string) (E : list sid) (F : fs),
  dataset_ok Ld cfg E F ->
  forall (id s : string) (l : list string),
  search_ok s = true ->
  shortcut Ld s = false ->
  tree_guard0 Ld cfg s ->
  ffind Ld F (FPaths id cfg) s = Ok l ->
  forall e : string, In e l <-> (exists x : sid, In x E /\ e = s_string x /\ matched_typed Ld s x).
Proof. exact find_paths_denotes_typed. Qed.
Print Assumptions C10_find_paths_denotes_typed.

(* with a trailing url-safe query *)
Theorem C10_find_paths_query_denotes :
  forall (c : Conf) (Ld : Loaded),
  load c = Some Ld ->
  wf_loadedb Ld = true ->
  unfold_conf_okb Ld = true ->
  paths_unambiguousb Ld = true ->
  forall (cfg : string) (E : list sid) (F : fs),
  dataset_ok Ld cfg E F ->
  forall (id body : string) (qd : list (string * string)) (l : list string),
  search_ok body = true ->
  query_okb qd = true ->
  ~ In "" (bodies Ld body) ->
  shortcut Ld (body ++ "?" ++ query_str qd) = false ->
  tree_guard Ld cfg E (body ++ "?" ++ query_str qd) ->
  ffind Ld F (FPaths id cfg) (body ++ "?" ++ query_str qd) = Ok l ->
  NoDup l /\ (forall e : string, In e l <-> In e (map s_string E) /\ matched_by (denotes_q Ld body qd) e).
Proof. exact find_paths_query_denotes. Qed.
Print Assumptions C10_find_paths_query_denotes.

(* FindInPaths.star_search over a data set returns no duplicates *)
Theorem C10_paths_star_nodup :
  forall (c : Conf) (Ld : Loaded),
  load c = Some Ld ->
  wf_loadedb Ld = true ->
  paths_unambiguousb Ld = true ->
  forall (cfg : string) (E : list sid) (F : fs),
  dataset_ok Ld cfg E F ->
  forall (qs : list sid) (l : list string), searches_ok Ld cfg qs -> paths_star Ld F cfg qs = Ok l -> NoDup l.
Proof. exact paths_star_NoDup_dataset. Qed.
Print Assumptions C10_paths_star_nodup.

(* tree finder = list finder over the strings of the data set, for the whole [find] *)
Theorem C10_find_paths_eq_find_list :
  forall (c : Conf) (Ld : Loaded),
  load c = Some Ld ->
  wf_loadedb Ld = true ->
  unfold_conf_okb Ld = true ->
  paths_unambiguousb Ld = true ->
  forall (cfg : string) (E : list sid) (F : fs),
  dataset_ok Ld cfg E F ->
  forall (id s : string) (l l' : list string),
  guarded Ld s ->
  tree_guard Ld cfg E s ->
  ffind Ld F (FPaths id cfg) s = Ok l ->
  find_list Ld (map s_string E) s = Ok l' -> forall e : string, In e l <-> In e l'.
Proof. exact find_paths_eq_find_list. Qed.
Print Assumptions C10_find_paths_eq_find_list.

(* rule 1 for the tree finder *)
Theorem C10_tree_comma_rule :
  forall (c : Conf) (Ld : Loaded),
  load c = Some Ld ->
  wf_loadedb Ld = true ->
  unfold_conf_okb Ld = true ->
  paths_unambiguousb Ld = true ->
  forall (cfg : string) (E : list sid) (F : fs),
  dataset_ok Ld cfg E F ->
  forall (id : string) (pre : list string) (a b : string) (post l la lb : list string),
  Forall noslash pre ->
  Forall noslash post ->
  alt_okb a = true ->
  alt_okb b = true ->
  (post = [] -> a <> "" /\ b <> "") ->
  search_ok (mk pre (a ++ "," ++ b) post) = true ->
  shortcut_okb Ld (mk pre (a ++ "," ++ b) post) = true ->
  tree_guard Ld cfg E (mk pre (a ++ "," ++ b) post) ->
  search_ok (mk pre a post) = true ->
  shortcut_okb Ld (mk pre a post) = true ->
  tree_guard Ld cfg E (mk pre a post) ->
  search_ok (mk pre b post) = true ->
  shortcut_okb Ld (mk pre b post) = true ->
  tree_guard Ld cfg E (mk pre b post) ->
  ffind Ld F (FPaths id cfg) (mk pre (a ++ "," ++ b) post) = Ok l ->
  ffind Ld F (FPaths id cfg) (mk pre a post) = Ok la ->
  ffind Ld F (FPaths id cfg) (mk pre b post) = Ok lb ->
  NoDup l /\ (forall e : string, In e l <-> In e la \/ In e lb).
Proof. exact tree_comma_rule2. Qed.
Print Assumptions C10_tree_comma_rule.

Theorem C10_tree_comma_rule_n :
  forall (c : Conf) (Ld : Loaded),
  load c = Some Ld ->
  wf_loadedb Ld = true ->
  unfold_conf_okb Ld = true ->
  paths_unambiguousb Ld = true ->
  forall (cfg : string) (E : list sid) (F : fs),
  dataset_ok Ld cfg E F ->
  forall (id : string) (pre alts post l : list string) (ls : list (list string)),
  alts <> [] ->
  Forall noslash pre ->
  Forall noslash post ->
  Forall (fun a : string => alt_okb a = true) alts ->
  (post = [] -> Forall (fun a : string => a <> "") alts) ->
  search_ok (mk pre (join "," alts) post) = true ->
  shortcut_okb Ld (mk pre (join "," alts) post) = true ->
  tree_guard Ld cfg E (mk pre (join "," alts) post) ->
  (forall a : string,
   In a alts ->
   search_ok (mk pre a post) = true /\ shortcut_okb Ld (mk pre a post) = true /\ tree_guard Ld cfg E (mk pre a post)) ->
  ffind Ld F (FPaths id cfg) (mk pre (join "," alts) post) = Ok l ->
  Forall2 (fun (a : string) (l' : list string) => ffind Ld F (FPaths id cfg) (mk pre a post) = Ok l') alts ls ->
  NoDup l /\ (forall e : string, In e l <-> (exists l' : list string, In l' ls /\ In e l')).
Proof. exact tree_comma_rule. Qed.
Print Assumptions C10_tree_comma_rule_n.

(* rule 2 for the tree finder *)
Theorem C10_tree_alias_rule :
  forall (c : Conf) (Ld : Loaded),
  load c = Some Ld ->
  wf_loadedb Ld = true ->
  unfold_conf_okb Ld = true ->
  paths_unambiguousb Ld = true ->
  forall (cfg : string) (E : list sid) (F : fs),
  dataset_ok Ld cfg E F ->
  forall (id : string) (pre : list string) (a : string) (ms l : list string) (ls : list (list string)),
  Forall noslash pre ->
  noslash a ->
  dget (c_extension_alias (l_conf Ld)) a = Some ms ->
  a <> "" ->
  mem_c "," a = false ->
  Forall (fun m : string => dmem (c_extension_alias (l_conf Ld)) m = false) ms ->
  search_ok (mk pre a []) = true ->
  shortcut_okb Ld (mk pre a []) = true ->
  tree_guard Ld cfg E (mk pre a []) ->
  (forall m : string,
   In m ms ->
   search_ok (mk pre m []) = true /\ shortcut_okb Ld (mk pre m []) = true /\ tree_guard Ld cfg E (mk pre m [])) ->
  ffind Ld F (FPaths id cfg) (mk pre a []) = Ok l ->
  Forall2 (fun (m : string) (l' : list string) => ffind Ld F (FPaths id cfg) (mk pre m []) = Ok l') ms ls ->
  NoDup l /\ (forall e : string, In e l <-> (exists l' : list string, In l' ls /\ In e l')).
Proof. exact tree_alias_rule. Qed.
Print Assumptions C10_tree_alias_rule.

(* rule 3 for the tree finder *)
Theorem C10_tree_dstar_rule :
  forall (c : Conf) (Ld : Loaded),
  load c = Some Ld ->
  wf_loadedb Ld = true ->
  unfold_conf_okb Ld = true ->
  paths_unambiguousb Ld = true ->
  forall (cfg : string) (E : list sid) (F : fs),
  dataset_ok Ld cfg E F ->
  forall (id : string) (pre post l : list string),
  pre <> [] ->
  Forall noslash pre ->
  Forall noslash post ->
  (post = [] -> dmem (c_extension_alias (l_conf Ld)) "**" = false) ->
  (post = [] -> dmem (c_extension_alias (l_conf Ld)) "*" = false) ->
  (post = [] -> lastpre_ok Ld pre) ->
  search_ok (mk pre "**" post) = true ->
  shortcut Ld (mk pre "**" post) = false ->
  tree_guard Ld cfg E (mk pre "**" post) ->
  ffind Ld F (FPaths id cfg) (mk pre "**" post) = Ok l ->
  NoDup l /\
  (forall e : string, In e l <-> In e (map s_string E) /\ (exists n : nat, matched_by (levels_on Ld pre n post) e)).
Proof. exact tree_dstar_rule. Qed.
Print Assumptions C10_tree_dstar_rule.

(* ... every result of pre/**/post is a result of one of the n-level searches *)
Theorem C10_tree_dstar_rule_incl :
  forall (c : Conf) (Ld : Loaded),
  load c = Some Ld ->
  wf_loadedb Ld = true ->
  unfold_conf_okb Ld = true ->
  paths_unambiguousb Ld = true ->
  forall (cfg : string) (E : list sid) (F : fs),
  dataset_ok Ld cfg E F ->
  forall (id : string) (pre post l : list string) (e : string),
  pre <> [] ->
  Forall noslash pre ->
  Forall noslash post ->
  (post = [] -> dmem (c_extension_alias (l_conf Ld)) "**" = false) ->
  (post = [] -> dmem (c_extension_alias (l_conf Ld)) "*" = false) ->
  (post = [] -> lastpre_ok Ld pre) ->
  search_ok (mk pre "**" post) = true ->
  shortcut Ld (mk pre "**" post) = false ->
  tree_guard Ld cfg E (mk pre "**" post) ->
  ffind Ld F (FPaths id cfg) (mk pre "**" post) = Ok l ->
  In e l ->
  exists n : nat,
    forall ln : list string,
    search_ok (mkn pre n post) = true ->
    shortcut_okb Ld (mkn pre n post) = true ->
    tree_guard Ld cfg E (mkn pre n post) ->
    contains "**" (mkn pre n post) = false ->
    ffind Ld F (FPaths id cfg) (mkn pre n post) = Ok ln -> In e ln.
Proof. exact tree_dstar_rule_incl. Qed.
Print Assumptions C10_tree_dstar_rule_incl.

(* ... and a level all of whose typed searches are of a leaf type is included *)
Theorem C10_tree_dstar_rule_level :
  forall (c : Conf) (Ld : Loaded),
  load c = Some Ld ->
  wf_loadedb Ld = true ->
  unfold_conf_okb Ld = true ->
  paths_unambiguousb Ld = true ->
  forall (cfg : string) (E : list sid) (F : fs),
  dataset_ok Ld cfg E F ->
  forall (id : string) (pre post l : list string) (n : nat) (ln : list string),
  pre <> [] ->
  Forall noslash pre ->
  Forall noslash post ->
  (post = [] -> dmem (c_extension_alias (l_conf Ld)) "**" = false) ->
  (post = [] -> dmem (c_extension_alias (l_conf Ld)) "*" = false) ->
  (post = [] -> lastpre_ok Ld pre) ->
  search_ok (mk pre "**" post) = true ->
  shortcut Ld (mk pre "**" post) = false ->
  tree_guard Ld cfg E (mk pre "**" post) ->
  ffind Ld F (FPaths id cfg) (mk pre "**" post) = Ok l ->
  (forall x : sid, plain_denotes Ld (mkn pre n post) x -> levels_on Ld pre n post x) ->
  search_ok (mkn pre n post) = true ->
  shortcut_okb Ld (mkn pre n post) = true ->
  tree_guard Ld cfg E (mkn pre n post) ->
  contains "**" (mkn pre n post) = false ->
  ffind Ld F (FPaths id cfg) (mkn pre n post) = Ok ln -> incl ln l.
Proof. exact tree_dstar_rule_level. Qed.
Print Assumptions C10_tree_dstar_rule_level.

(* rule 4 for the tree finder *)
Theorem C10_tree_filter_rule :
  forall (c : Conf) (Ld : Loaded),
  load c = Some Ld ->
  wf_loadedb Ld = true ->
  unfold_conf_okb Ld = true ->
  paths_unambiguousb Ld = true ->
  forall (cfg : string) (E : list sid) (F : fs),
  dataset_ok Ld cfg E F ->
  forall (id body k v : string) (l lf : list string),
  search_ok body = true ->
  contains "**" body = false ->
  narrow_stableb Ld body = true ->
  shortcut_okb Ld body = true ->
  tree_guard Ld cfg E body ->
  atomb k = true ->
  atomb v = true ->
  literalb v = true ->
  startswith "~" v = false ->
  value_alts Ld k v = [v] ->
  filt_okb Ld body k v = true ->
  ~ In "" (bodies Ld body) ->
  shortcut Ld (body ++ "?" ++ k ++ "=" ++ v) = false ->
  tree_guard Ld cfg E (body ++ "?" ++ k ++ "=" ++ v) ->
  ffind Ld F (FPaths id cfg) body = Ok l ->
  ffind Ld F (FPaths id cfg) (body ++ "?" ++ k ++ "=" ++ v) = Ok lf ->
  NoDup lf /\ (forall e : string, In e lf <-> In e l /\ field_in Ld body k e v).
Proof. exact tree_filter_rule. Qed.
Print Assumptions C10_tree_filter_rule.

(* rule 5 for the tree finder *)
Theorem C10_tree_literal_rule :
  forall (c : Conf) (Ld : Loaded),
  load c = Some Ld ->
  wf_loadedb Ld = true ->
  unfold_conf_okb Ld = true ->
  paths_unambiguousb Ld = true ->
  forall (cfg : string) (E : list sid) (F : fs),
  dataset_ok Ld cfg E F ->
  forall (id : string) (pre : list string) (v : string) (post l lv : list string),
  Forall noslash pre ->
  Forall noslash post ->
  noslash v ->
  literalb v = true ->
  mem_c "," v = false ->
  (post = [] -> v <> "" /\ dmem (c_extension_alias (l_conf Ld)) v = false) ->
  (post = [] -> dmem (c_extension_alias (l_conf Ld)) "*" = false) ->
  lit_ok Ld pre post v ->
  search_ok (mk pre "*" post) = true ->
  contains "**" (mk pre "*" post) = false ->
  narrow_stableb Ld (mk pre "*" post) = true ->
  shortcut_okb Ld (mk pre "*" post) = true ->
  tree_guard Ld cfg E (mk pre "*" post) ->
  search_ok (mk pre v post) = true ->
  contains "**" (mk pre v post) = false ->
  narrow_stableb Ld (mk pre v post) = true ->
  shortcut_okb Ld (mk pre v post) = true ->
  tree_guard Ld cfg E (mk pre v post) ->
  ffind Ld F (FPaths id cfg) (mk pre "*" post) = Ok l ->
  ffind Ld F (FPaths id cfg) (mk pre v post) = Ok lv ->
  NoDup lv /\ (forall e : string, In e lv <-> In e l /\ nth_error (split_c "/" e) (Datatypes.length pre) = Some v).
Proof. exact tree_literal_rule. Qed.
Print Assumptions C10_tree_literal_rule.

(** ** The tree rules instantiated: a data set materialised as a tree on the configuration of this run *)

Definition mks (s : string) : sid := match Sid L s with Ok x => x | Raise _ => empty_sid end.
Definition pth (x : sid) : string := match sid_path L x "" with Ok (Some p) => p | _ => "" end.
Definition E1 : list sid := map mks
  ["hamlet/a/char/ophelia"; "hamlet/a/char/claudius"; "hamlet/a/prop/skull";
   "hamlet/a/char/ophelia/model/v001/w/ma"; "hamlet/a/char/ophelia/model/v001/w/mb";
   "hamlet/a/char/ophelia/model/v001/w/mp4"; "hamlet/a/char/ophelia/model"; "hamlet/s/sq010/sh0010"].
Definition F1 : fs := map (fun e => (pth e, Dir)) E1.
Definition tfind (s : string) : outcome (list string) := ffind L F1 (FPaths "" "") s.
Definition tguard (s : string) : bool := search_ok s && shortcut_okb L s && tree_guardb L "" E1 s.

Lemma conf_paths_ok : paths_unambiguousb L = true.
Proof. vm_compute. reflexivity. Qed.

Lemma data1_ok : dataset_ok L "" E1 F1.
Proof. apply dataset_okb_sound. vm_compute. reflexivity. Qed.

(* the guards of rule 0 hold for a comma search, an alias search and a "**" search (and for their alternatives / members),
   with the computed results of both sides of each rule *)
Example C10_tree_instance :
  dataset_okb L "" E1 F1 = true /\
  forallb tguard ["hamlet/a/char/ophelia,claudius"; "hamlet/a/char/ophelia"; "hamlet/a/char/claudius";
                  "hamlet/a/char/ophelia/model/v001/w/maya"; "hamlet/a/char/ophelia/model/v001/w/ma";
                  "hamlet/a/char/ophelia/model/v001/w/mb"; "hamlet/a/char/**"; "hamlet/a/*/*"; "hamlet/a/char/*"] = true /\
  tree_guardb L "" E1 "hamlet/a/*/*?assettype=char" = true /\
  (* comma *)
  tfind "hamlet/a/char/ophelia,claudius" = Ok ["hamlet/a/char/claudius"; "hamlet/a/char/ophelia"] /\
  tfind "hamlet/a/char/ophelia" = Ok ["hamlet/a/char/ophelia"] /\
  tfind "hamlet/a/char/claudius" = Ok ["hamlet/a/char/claudius"] /\
  (* alias *)
  tfind "hamlet/a/char/ophelia/model/v001/w/maya" =
    Ok ["hamlet/a/char/ophelia/model/v001/w/ma"; "hamlet/a/char/ophelia/model/v001/w/mb"] /\
  tfind "hamlet/a/char/ophelia/model/v001/w/ma" = Ok ["hamlet/a/char/ophelia/model/v001/w/ma"] /\
  tfind "hamlet/a/char/ophelia/model/v001/w/mb" = Ok ["hamlet/a/char/ophelia/model/v001/w/mb"] /\
  (* "**" *)
  tfind "hamlet/a/char/**" =
    Ok ["hamlet/a/char/ophelia/model/v001/w/ma"; "hamlet/a/char/ophelia/model/v001/w/mb";
        "hamlet/a/char/ophelia/model/v001/w/mp4"] /\
  (* filter, literal *)
  tfind "hamlet/a/*/*" = Ok ["hamlet/a/char/claudius"; "hamlet/a/char/ophelia"; "hamlet/a/prop/skull"] /\
  tfind "hamlet/a/*/*?assettype=char" = Ok ["hamlet/a/char/claudius"; "hamlet/a/char/ophelia"] /\
  tfind "hamlet/a/char/*" = Ok ["hamlet/a/char/claudius"; "hamlet/a/char/ophelia"] /\
  (* the same searches by the list finder over the strings of the data set *)
  find_list L (map s_string E1) "hamlet/a/char/ophelia,claudius" = Ok ["hamlet/a/char/claudius"; "hamlet/a/char/ophelia"] /\
  find_list L (map s_string E1) "hamlet/a/char/**" =
    Ok ["hamlet/a/char/ophelia/model/v001/w/ma"; "hamlet/a/char/ophelia/model/v001/w/mb";
        "hamlet/a/char/ophelia/model/v001/w/mp4"].
Proof. vm_compute. repeat split; reflexivity. Qed.
Print Assumptions C10_tree_instance.

Ltac tguard_calc := match goal with |- tree_guard _ _ _ _ => apply tree_guardb_sound; calc end.

(** Rule 0 on the tree *)
Example C10_tree_denotes_hamlet :
  NoDup ["hamlet/a/char/claudius"; "hamlet/a/char/ophelia"] /\
  forall e, In e ["hamlet/a/char/claudius"; "hamlet/a/char/ophelia"] <->
            In e (map s_string E1) /\ matched L "hamlet/a/char/*" e.
Proof.
  apply (find_paths_denotes Hamlet.the_conf L Hamlet.the_loaded_eq Hamlet.conf_wf conf_unfold_ok conf_paths_ok
           "" E1 F1 data1_ok "" "hamlet/a/char/*"); try calc. tguard_calc.
Qed.

(** Rule 1 on the tree *)
Example C10_tree_comma_hamlet :
  NoDup ["hamlet/a/char/claudius"; "hamlet/a/char/ophelia"] /\
  forall e, In e ["hamlet/a/char/claudius"; "hamlet/a/char/ophelia"] <->
            In e ["hamlet/a/char/ophelia"] \/ In e ["hamlet/a/char/claudius"].
Proof.
  apply (tree_comma_rule2 Hamlet.the_conf L Hamlet.the_loaded_eq Hamlet.conf_wf conf_unfold_ok conf_paths_ok
           "" E1 F1 data1_ok "" ["hamlet"; "a"; "char"] "ophelia" "claudius" []); try tguard_calc; try calc; try segs.
  intros _. split; discriminate.
Qed.

(** Rule 2 on the tree *)
Example C10_tree_alias_hamlet :
  NoDup ["hamlet/a/char/ophelia/model/v001/w/ma"; "hamlet/a/char/ophelia/model/v001/w/mb"] /\
  forall e, In e ["hamlet/a/char/ophelia/model/v001/w/ma"; "hamlet/a/char/ophelia/model/v001/w/mb"] <->
    exists l', In l' [["hamlet/a/char/ophelia/model/v001/w/ma"]; ["hamlet/a/char/ophelia/model/v001/w/mb"]] /\ In e l'.
Proof.
  apply (tree_alias_rule Hamlet.the_conf L Hamlet.the_loaded_eq Hamlet.conf_wf conf_unfold_ok conf_paths_ok
           "" E1 F1 data1_ok "" ["hamlet"; "a"; "char"; "ophelia"; "model"; "v001"; "w"] "maya" ["ma"; "mb"]);
    try tguard_calc; try calc; try segs; try discriminate.
  - intros m [<-|[<-|[]]]; (split; [calc|]; split; [calc | tguard_calc]).
  - f2.
Qed.

(** Rule 3 on the tree *)
Example C10_tree_dstar_hamlet :
  NoDup ["hamlet/a/char/ophelia/model/v001/w/ma"; "hamlet/a/char/ophelia/model/v001/w/mb";
         "hamlet/a/char/ophelia/model/v001/w/mp4"] /\
  forall e, In e ["hamlet/a/char/ophelia/model/v001/w/ma"; "hamlet/a/char/ophelia/model/v001/w/mb";
                  "hamlet/a/char/ophelia/model/v001/w/mp4"] <->
    In e (map s_string E1) /\ exists n, matched_by (levels_on L ["hamlet"; "a"; "char"] n []) e.
Proof.
  apply (tree_dstar_rule Hamlet.the_conf L Hamlet.the_loaded_eq Hamlet.conf_wf conf_unfold_ok conf_paths_ok
           "" E1 F1 data1_ok "" ["hamlet"; "a"; "char"] []); try tguard_calc; try calc; try segs; try discriminate.
  - intros _. calc.
  - intros _. calc.
  - intros _ x. vm_compute. tauto.
Qed.

(** Rule 4 on the tree *)
Example C10_tree_filter_hamlet :
  NoDup ["hamlet/a/char/claudius"; "hamlet/a/char/ophelia"] /\
  forall e, In e ["hamlet/a/char/claudius"; "hamlet/a/char/ophelia"] <->
    In e ["hamlet/a/char/claudius"; "hamlet/a/char/ophelia"; "hamlet/a/prop/skull"] /\
    field_in L "hamlet/a/*/*" "assettype" e "char".
Proof.
  apply (tree_filter_rule Hamlet.the_conf L Hamlet.the_loaded_eq Hamlet.conf_wf conf_unfold_ok conf_paths_ok
           "" E1 F1 data1_ok "" "hamlet/a/*/*" "assettype" "char"); try tguard_calc; try calc.
  vm_compute. intros [H|[]]. discriminate H.
Qed.

(** Rule 5 on the tree *)
Example C10_tree_literal_hamlet :
  NoDup ["hamlet/a/char/ophelia"] /\
  forall e, In e ["hamlet/a/char/ophelia"] <->
    In e ["hamlet/a/char/claudius"; "hamlet/a/char/ophelia"] /\ nth_error (split_c "/" e) 3 = Some "ophelia".
Proof.
  apply (tree_literal_rule Hamlet.the_conf L Hamlet.the_loaded_eq Hamlet.conf_wf conf_unfold_ok conf_paths_ok
           "" E1 F1 data1_ok "" ["hamlet"; "a"; "char"] "ophelia" []); try tguard_calc; try calc; try segs.
  - intros _. split; [discriminate | calc].
  - intros _. calc.
  - apply lit_okb_ok. calc.
Qed.

Print Assumptions C10_tree_denotes_hamlet.
Print Assumptions C10_tree_comma_hamlet.
Print Assumptions C10_tree_alias_hamlet.
Print Assumptions C10_tree_dstar_hamlet.
Print Assumptions C10_tree_filter_hamlet.
Print Assumptions C10_tree_literal_hamlet.

(** ** The algebra for the THIRD finder, FindInAll, over a tree (Search/AlgebraAllDefs.v, AlgebraAllProofs.v)

    [find_all Ld Rt F s] ALWAYS unfolds s, groups the typed searches by the finder the routing table [Rt] gives for their
    type and runs [do_find] of each finder on its group.  When every typed search of the unfolding is routed to the path finder
    [FPaths id cfg] ([routed_tob] / [all_routed]):
    - FindInAll.find(s) is the first-occurrence de-duplication of FindInPaths.find(s): same exception or same set; the same LIST
      whenever the path finder's list is duplicate-free (">" searches: [C10_find_all_routed_last]; good searches over a data
      set: [C10_find_all_routed_dataset]).  FindInPaths.find takes a shortcut for a typed non-search Sid (it globs the Sid
      itself), FindInAll never does: the comparison asks that both are given the same list of typed searches
      ([find_searches Ld s = Ok qs] and [unfold_search Ld s false false = Ok qs]; automatic when [shortcut Ld s = false] and
      the Sid factory accepts s), or, generally, that [do_find] answers the same on the two lists ([C10_find_all_routed_gen]);
    - over a data set, with the guard of the tree finder asked of the UNFOLDING ([all_guard] = routing /\ [searches_ok] /\
      [pat_inj] /\ [types_covered]; decidable: [all_guardb]) FindInAll.find(s) returns, without duplicates, exactly the strings
      of the members of E that s matches; [shortcut_okb] is not needed (no shortcut), nor [nosort];
    - hence the FIVE rules hold for FindInAll as set equalities, without any shortcut hypothesis. *)
From Spil Require Import Data.SidLevelDefs Search.AlgebraAllDefs Search.AlgebraAllProofs.

(* (1) FindInAll against FindInPaths when both are given the typed searches qs, all routed to the path finder:
   they raise the same exception, or both succeed and the FindInAll list is the de-duplicated FindInPaths list *)
Theorem C10_find_all_routed :
  forall (Ld : Loaded) (Rt : Routing) (F : fs) (id cfg s : string) (qs : list sid),
  unfold_search Ld s false false = Ok qs ->
  find_searches Ld s = Ok qs ->
  routed_tob Rt id cfg qs = true ->
  match ffind Ld F (FPaths id cfg) s, find_all Ld Rt F s with
  | Ok l, Ok l' => l' = dedup_first l /\ (forall e : string, In e l' <-> In e l) /\ (NoDup l -> l' = l)
  | Raise e, Raise e' => e = e'
  | _, _ => False
  end.
Proof. exact find_all_routed. Qed.
Print Assumptions C10_find_all_routed.

(* ... when FindInPaths.find takes the shortcut (it is given qs', FindInAll unfolds to qs): enough that [do_find] of the path
   finder answers the same on both lists *)
Theorem C10_find_all_routed_gen :
  forall (Ld : Loaded) (Rt : Routing) (F : fs) (id cfg s : string) (qs qs' : list sid),
  unfold_search Ld s false false = Ok qs ->
  find_searches Ld s = Ok qs' ->
  routed_to Rt (FPaths id cfg) qs ->
  do_find_g Ld (paths_star Ld F cfg) qs = do_find_g Ld (paths_star Ld F cfg) qs' ->
  find_all Ld Rt F s = (do r <- ffind Ld F (FPaths id cfg) s; Ok (dedup_first r)).
Proof. exact find_all_routed_gen. Qed.
Print Assumptions C10_find_all_routed_gen.

(* ... as an equation, for every s on which both look at the same searches (also when the unfolding fails) *)
Theorem C10_find_all_routed_eq :
  forall (Ld : Loaded) (Rt : Routing) (F : fs) (id cfg s : string),
  find_searches Ld s = unfold_search Ld s false false ->
  (forall qs : list sid, unfold_search Ld s false false = Ok qs -> routed_to Rt (FPaths id cfg) qs) ->
  find_all Ld Rt F s = (do r <- ffind Ld F (FPaths id cfg) s; Ok (dedup_first r)).
Proof. exact find_all_routed_eq. Qed.
Print Assumptions C10_find_all_routed_eq.

(* the shortcut is not taken: no hypothesis on [find_searches] *)
Theorem C10_find_all_routed_shortcut_free :
  forall (Ld : Loaded) (Rt : Routing) (F : fs) (id cfg s : string) (x : sid),
  shortcut Ld s = false ->
  Sid Ld s = Ok x ->
  (forall qs : list sid, unfold_search Ld s false false = Ok qs -> routed_to Rt (FPaths id cfg) qs) ->
  match ffind Ld F (FPaths id cfg) s, find_all Ld Rt F s with
  | Ok l, Ok l' => l' = dedup_first l /\ (forall e : string, In e l' <-> In e l) /\ (NoDup l -> l' = l)
  | Raise e, Raise e' => e = e'
  | _, _ => False
  end.
Proof. exact find_all_routed_shortcut_free. Qed.
Print Assumptions C10_find_all_routed_shortcut_free.

(* success and failure, unpacked *)
Theorem C10_find_all_routed_ok :
  forall (Ld : Loaded) (Rt : Routing) (F : fs) (id cfg s : string) (qs : list sid),
  unfold_search Ld s false false = Ok qs ->
  find_searches Ld s = Ok qs ->
  routed_tob Rt id cfg qs = true ->
  (forall l' : list string, ffind Ld F (FPaths id cfg) s = Ok l' -> find_all Ld Rt F s = Ok (dedup_first l')) /\
  (forall l : list string, find_all Ld Rt F s = Ok l ->
     exists l' : list string, ffind Ld F (FPaths id cfg) s = Ok l' /\ l = dedup_first l') /\
  (forall e, find_all Ld Rt F s = Raise e <-> ffind Ld F (FPaths id cfg) s = Raise e).
Proof. exact find_all_routed_ok. Qed.
Print Assumptions C10_find_all_routed_ok.

(* the same LIST: a ">" search (any tree) *)
Theorem C10_find_all_routed_last :
  forall (Ld : Loaded) (Rt : Routing) (F : fs) (id cfg s : string) (qs : list sid),
  unfold_search Ld s false false = Ok qs ->
  find_searches Ld s = Ok qs ->
  routed_tob Rt id cfg qs = true ->
  existsb has_gt qs = true ->
  find_all Ld Rt F s = ffind Ld F (FPaths id cfg) s.
Proof. exact find_all_routed_last. Qed.
Print Assumptions C10_find_all_routed_last.

(* the same LIST: good searches over a data set *)
Theorem C10_find_all_routed_dataset :
  forall (c : Conf) (Ld : Loaded),
  load c = Some Ld ->
  wf_loadedb Ld = true ->
  paths_unambiguousb Ld = true ->
  forall (cfg : string) (E : list sid) (F : fs),
  dataset_ok Ld cfg E F ->
  forall (Rt : Routing) (id s : string) (qs : list sid),
  unfold_search Ld s false false = Ok qs ->
  find_searches Ld s = Ok qs ->
  routed_tob Rt id cfg qs = true ->
  searches_ok Ld cfg qs ->
  find_all Ld Rt F s = ffind Ld F (FPaths id cfg) s.
Proof. exact find_all_routed_dataset. Qed.
Print Assumptions C10_find_all_routed_dataset.

(* (2) rule 0 for FindInAll, in the form of [C10_find_paths_denotes]: the guard of the tree finder, the routing hypothesis,
   and "FindInAll looks at the list FindInPaths.find looks at".  [shortcut_okb Ld s = true] is NOT needed *)
Theorem C10_find_all_denotes :
  forall (c : Conf) (Ld : Loaded),
  load c = Some Ld ->
  wf_loadedb Ld = true ->
  unfold_conf_okb Ld = true ->
  paths_unambiguousb Ld = true ->
  forall (cfg : string) (E : list sid) (F : fs),
  dataset_ok Ld cfg E F ->
  forall (Rt : Routing) (id s : string) (l : list string),
  search_ok s = true ->
  tree_guard Ld cfg E s ->
  (forall qs : list sid, unfold_search Ld s false false = Ok qs -> routed_to Rt (FPaths id cfg) qs) ->
  find_searches Ld s = unfold_search Ld s false false ->
  find_all Ld Rt F s = Ok l ->
  NoDup l /\ (forall e : string, In e l <-> In e (map s_string E) /\ matched Ld s e).
Proof. exact find_all_denotes. Qed.
Print Assumptions C10_find_all_denotes.

(* ... with the guard asked of the unfolding (weaker: no hypothesis relating [find_searches] and the unfolding) *)
Theorem C10_find_all_denotes_unf :
  forall (c : Conf) (Ld : Loaded),
  load c = Some Ld ->
  wf_loadedb Ld = true ->
  unfold_conf_okb Ld = true ->
  paths_unambiguousb Ld = true ->
  forall (cfg : string) (E : list sid) (F : fs),
  dataset_ok Ld cfg E F ->
  forall (Rt : Routing) (id s : string) (l : list string),
  search_ok s = true ->
  (forall qs : list sid, unfold_search Ld s false false = Ok qs ->
     routed_to Rt (FPaths id cfg) qs /\ searches_ok Ld cfg qs /\ pat_inj Ld cfg qs /\ types_covered E qs) ->
  find_all Ld Rt F s = Ok l ->
  NoDup l /\ (forall e : string, In e l <-> In e (map s_string E) /\ matched Ld s e).
Proof. exact find_all_denotes_unf. Qed.
Print Assumptions C10_find_all_denotes_unf.

(* the decidable guard is sound *)
Theorem C10_all_guardb_sound :
  forall (Ld : Loaded) (Rt : Routing) (id cfg : string) (E : list sid) (s : string),
  all_guardb Ld Rt id cfg E s = true -> all_guard Ld Rt id cfg E s.
Proof. exact all_guardb_sound. Qed.
Print Assumptions C10_all_guardb_sound.

(* the guard of the tree finder gives the guard of FindInAll when both look at the same searches *)
Theorem C10_tree_guard_all_guard :
  forall (Ld : Loaded) (Rt : Routing) (id cfg : string) (E : list sid) (s : string),
  find_searches Ld s = unfold_search Ld s false false ->
  (forall qs : list sid, unfold_search Ld s false false = Ok qs -> routed_to Rt (FPaths id cfg) qs) ->
  tree_guard Ld cfg E s -> all_guard Ld Rt id cfg E s.
Proof. exact tree_guard_all_guard. Qed.
Print Assumptions C10_tree_guard_all_guard.

(* without [types_covered] *)
Theorem C10_find_all_denotes_typed :
  forall (c : Conf) (Ld : Loaded),
  load c = Some Ld ->
  wf_loadedb Ld = true ->
  unfold_conf_okb Ld = true ->
  paths_unambiguousb Ld = true ->
  forall (cfg : string) (E : list sid) (F : fs),
  dataset_ok Ld cfg E F ->
  forall (Rt : Routing) (id s : string) (l : list string),
  search_ok s = true ->
  all_guard0 Ld Rt id cfg s ->
  find_all Ld Rt F s = Ok l ->
  forall e : string, In e l <-> (exists x : sid, In x E /\ e = s_string x /\ matched_typed Ld s x).
Proof. exact find_all_denotes_typed. Qed.
Print Assumptions C10_find_all_denotes_typed.

(* with a trailing url-safe query *)
Theorem C10_find_all_query_denotes :
  forall (c : Conf) (Ld : Loaded),
  load c = Some Ld ->
  wf_loadedb Ld = true ->
  unfold_conf_okb Ld = true ->
  paths_unambiguousb Ld = true ->
  forall (cfg : string) (E : list sid) (F : fs),
  dataset_ok Ld cfg E F ->
  forall (Rt : Routing) (id body : string) (qd : list (string * string)) (l : list string),
  search_ok body = true ->
  query_okb qd = true ->
  ~ In "" (bodies Ld body) ->
  all_guard Ld Rt id cfg E (body ++ "?" ++ query_str qd) ->
  find_all Ld Rt F (body ++ "?" ++ query_str qd) = Ok l ->
  NoDup l /\ (forall e : string, In e l <-> In e (map s_string E) /\ matched_by (denotes_q Ld body qd) e).
Proof. exact find_all_query_denotes. Qed.
Print Assumptions C10_find_all_query_denotes.

(* rule 1 for FindInAll *)
Theorem C10_all_comma_rule :
  forall (c : Conf) (Ld : Loaded),
  load c = Some Ld ->
  wf_loadedb Ld = true ->
  unfold_conf_okb Ld = true ->
  paths_unambiguousb Ld = true ->
  forall (cfg : string) (E : list sid) (F : fs),
  dataset_ok Ld cfg E F ->
  forall (Rt : Routing) (id : string) (pre : list string) (a b : string) (post l la lb : list string),
  Forall noslash pre ->
  Forall noslash post ->
  alt_okb a = true ->
  alt_okb b = true ->
  (post = [] -> a <> "" /\ b <> "") ->
  search_ok (mk pre (a ++ "," ++ b) post) = true ->
  all_guard Ld Rt id cfg E (mk pre (a ++ "," ++ b) post) ->
  search_ok (mk pre a post) = true ->
  all_guard Ld Rt id cfg E (mk pre a post) ->
  search_ok (mk pre b post) = true ->
  all_guard Ld Rt id cfg E (mk pre b post) ->
  find_all Ld Rt F (mk pre (a ++ "," ++ b) post) = Ok l ->
  find_all Ld Rt F (mk pre a post) = Ok la ->
  find_all Ld Rt F (mk pre b post) = Ok lb ->
  NoDup l /\ (forall e : string, In e l <-> In e la \/ In e lb).
Proof. exact all_comma_rule2. Qed.
Print Assumptions C10_all_comma_rule.

Theorem C10_all_comma_rule_n :
  forall (c : Conf) (Ld : Loaded),
  load c = Some Ld ->
  wf_loadedb Ld = true ->
  unfold_conf_okb Ld = true ->
  paths_unambiguousb Ld = true ->
  forall (cfg : string) (E : list sid) (F : fs),
  dataset_ok Ld cfg E F ->
  forall (Rt : Routing) (id : string) (pre alts post l : list string) (ls : list (list string)),
  alts <> [] ->
  Forall noslash pre ->
  Forall noslash post ->
  Forall (fun a : string => alt_okb a = true) alts ->
  (post = [] -> Forall (fun a : string => a <> "") alts) ->
  search_ok (mk pre (join "," alts) post) = true ->
  all_guard Ld Rt id cfg E (mk pre (join "," alts) post) ->
  (forall a : string, In a alts -> search_ok (mk pre a post) = true /\ all_guard Ld Rt id cfg E (mk pre a post)) ->
  find_all Ld Rt F (mk pre (join "," alts) post) = Ok l ->
  Forall2 (fun (a : string) (l' : list string) => find_all Ld Rt F (mk pre a post) = Ok l') alts ls ->
  NoDup l /\ (forall e : string, In e l <-> (exists l' : list string, In l' ls /\ In e l')).
Proof. exact all_comma_rule. Qed.
Print Assumptions C10_all_comma_rule_n.

(* rule 2 for FindInAll *)
Theorem C10_all_alias_rule :
  forall (c : Conf) (Ld : Loaded),
  load c = Some Ld ->
  wf_loadedb Ld = true ->
  unfold_conf_okb Ld = true ->
  paths_unambiguousb Ld = true ->
  forall (cfg : string) (E : list sid) (F : fs),
  dataset_ok Ld cfg E F ->
  forall (Rt : Routing) (id : string) (pre : list string) (a : string) (ms l : list string) (ls : list (list string)),
  Forall noslash pre ->
  noslash a ->
  dget (c_extension_alias (l_conf Ld)) a = Some ms ->
  a <> "" ->
  mem_c "," a = false ->
  Forall (fun m : string => dmem (c_extension_alias (l_conf Ld)) m = false) ms ->
  search_ok (mk pre a []) = true ->
  all_guard Ld Rt id cfg E (mk pre a []) ->
  (forall m : string, In m ms -> search_ok (mk pre m []) = true /\ all_guard Ld Rt id cfg E (mk pre m [])) ->
  find_all Ld Rt F (mk pre a []) = Ok l ->
  Forall2 (fun (m : string) (l' : list string) => find_all Ld Rt F (mk pre m []) = Ok l') ms ls ->
  NoDup l /\ (forall e : string, In e l <-> (exists l' : list string, In l' ls /\ In e l')).
Proof. exact all_alias_rule. Qed.
Print Assumptions C10_all_alias_rule.

(* rule 3 for FindInAll *)
Theorem C10_all_dstar_rule :
  forall (c : Conf) (Ld : Loaded),
  load c = Some Ld ->
  wf_loadedb Ld = true ->
  unfold_conf_okb Ld = true ->
  paths_unambiguousb Ld = true ->
  forall (cfg : string) (E : list sid) (F : fs),
  dataset_ok Ld cfg E F ->
  forall (Rt : Routing) (id : string) (pre post l : list string),
  pre <> [] ->
  Forall noslash pre ->
  Forall noslash post ->
  (post = [] -> dmem (c_extension_alias (l_conf Ld)) "**" = false) ->
  (post = [] -> dmem (c_extension_alias (l_conf Ld)) "*" = false) ->
  (post = [] -> lastpre_ok Ld pre) ->
  search_ok (mk pre "**" post) = true ->
  all_guard Ld Rt id cfg E (mk pre "**" post) ->
  find_all Ld Rt F (mk pre "**" post) = Ok l ->
  NoDup l /\
  (forall e : string, In e l <-> In e (map s_string E) /\ (exists n : nat, matched_by (levels_on Ld pre n post) e)).
Proof. exact all_dstar_rule. Qed.
Print Assumptions C10_all_dstar_rule.

(* ... every result of pre/**/post is a result of one of the n-level searches *)
Theorem C10_all_dstar_rule_incl :
  forall (c : Conf) (Ld : Loaded),
  load c = Some Ld ->
  wf_loadedb Ld = true ->
  unfold_conf_okb Ld = true ->
  paths_unambiguousb Ld = true ->
  forall (cfg : string) (E : list sid) (F : fs),
  dataset_ok Ld cfg E F ->
  forall (Rt : Routing) (id : string) (pre post l : list string) (e : string),
  pre <> [] ->
  Forall noslash pre ->
  Forall noslash post ->
  (post = [] -> dmem (c_extension_alias (l_conf Ld)) "**" = false) ->
  (post = [] -> dmem (c_extension_alias (l_conf Ld)) "*" = false) ->
  (post = [] -> lastpre_ok Ld pre) ->
  search_ok (mk pre "**" post) = true ->
  all_guard Ld Rt id cfg E (mk pre "**" post) ->
  find_all Ld Rt F (mk pre "**" post) = Ok l ->
  In e l ->
  exists n : nat,
    forall ln : list string,
    search_ok (mkn pre n post) = true ->
    all_guard Ld Rt id cfg E (mkn pre n post) ->
    contains "**" (mkn pre n post) = false ->
    find_all Ld Rt F (mkn pre n post) = Ok ln -> In e ln.
Proof. exact all_dstar_rule_incl. Qed.
Print Assumptions C10_all_dstar_rule_incl.

(* ... and a level all of whose typed searches are of a leaf type is included *)
Theorem C10_all_dstar_rule_level :
  forall (c : Conf) (Ld : Loaded),
  load c = Some Ld ->
  wf_loadedb Ld = true ->
  unfold_conf_okb Ld = true ->
  paths_unambiguousb Ld = true ->
  forall (cfg : string) (E : list sid) (F : fs),
  dataset_ok Ld cfg E F ->
  forall (Rt : Routing) (id : string) (pre post l : list string) (n : nat) (ln : list string),
  pre <> [] ->
  Forall noslash pre ->
  Forall noslash post ->
  (post = [] -> dmem (c_extension_alias (l_conf Ld)) "**" = false) ->
  (post = [] -> dmem (c_extension_alias (l_conf Ld)) "*" = false) ->
  (post = [] -> lastpre_ok Ld pre) ->
  search_ok (mk pre "**" post) = true ->
  all_guard Ld Rt id cfg E (mk pre "**" post) ->
  find_all Ld Rt F (mk pre "**" post) = Ok l ->
  (forall x : sid, plain_denotes Ld (mkn pre n post) x -> levels_on Ld pre n post x) ->
  search_ok (mkn pre n post) = true ->
  all_guard Ld Rt id cfg E (mkn pre n post) ->
  contains "**" (mkn pre n post) = false ->
  find_all Ld Rt F (mkn pre n post) = Ok ln -> incl ln l.
Proof. exact all_dstar_rule_level. Qed.
Print Assumptions C10_all_dstar_rule_level.

(* rule 4 for FindInAll *)
Theorem C10_all_filter_rule :
  forall (c : Conf) (Ld : Loaded),
  load c = Some Ld ->
  wf_loadedb Ld = true ->
  unfold_conf_okb Ld = true ->
  paths_unambiguousb Ld = true ->
  forall (cfg : string) (E : list sid) (F : fs),
  dataset_ok Ld cfg E F ->
  forall (Rt : Routing) (id body k v : string) (l lf : list string),
  search_ok body = true ->
  contains "**" body = false ->
  narrow_stableb Ld body = true ->
  all_guard Ld Rt id cfg E body ->
  atomb k = true ->
  atomb v = true ->
  literalb v = true ->
  startswith "~" v = false ->
  value_alts Ld k v = [v] ->
  filt_okb Ld body k v = true ->
  ~ In "" (bodies Ld body) ->
  all_guard Ld Rt id cfg E (body ++ "?" ++ k ++ "=" ++ v) ->
  find_all Ld Rt F body = Ok l ->
  find_all Ld Rt F (body ++ "?" ++ k ++ "=" ++ v) = Ok lf ->
  NoDup lf /\ (forall e : string, In e lf <-> In e l /\ field_in Ld body k e v).
Proof. exact all_filter_rule. Qed.
Print Assumptions C10_all_filter_rule.

(* rule 5 for FindInAll *)
Theorem C10_all_literal_rule :
  forall (c : Conf) (Ld : Loaded),
  load c = Some Ld ->
  wf_loadedb Ld = true ->
  unfold_conf_okb Ld = true ->
  paths_unambiguousb Ld = true ->
  forall (cfg : string) (E : list sid) (F : fs),
  dataset_ok Ld cfg E F ->
  forall (Rt : Routing) (id : string) (pre : list string) (v : string) (post l lv : list string),
  Forall noslash pre ->
  Forall noslash post ->
  noslash v ->
  literalb v = true ->
  mem_c "," v = false ->
  (post = [] -> v <> "" /\ dmem (c_extension_alias (l_conf Ld)) v = false) ->
  (post = [] -> dmem (c_extension_alias (l_conf Ld)) "*" = false) ->
  lit_ok Ld pre post v ->
  search_ok (mk pre "*" post) = true ->
  contains "**" (mk pre "*" post) = false ->
  narrow_stableb Ld (mk pre "*" post) = true ->
  all_guard Ld Rt id cfg E (mk pre "*" post) ->
  search_ok (mk pre v post) = true ->
  contains "**" (mk pre v post) = false ->
  narrow_stableb Ld (mk pre v post) = true ->
  all_guard Ld Rt id cfg E (mk pre v post) ->
  find_all Ld Rt F (mk pre "*" post) = Ok l ->
  find_all Ld Rt F (mk pre v post) = Ok lv ->
  NoDup lv /\ (forall e : string, In e lv <-> In e l /\ nth_error (split_c "/" e) (Datatypes.length pre) = Some v).
Proof. exact all_literal_rule. Qed.
Print Assumptions C10_all_literal_rule.

(* the three finders return the same set (restated in props/C11.v as C11_three_finders_agree) *)
Theorem C10_find_all_eq_find_paths_eq_find_list :
  forall (c : Conf) (Ld : Loaded),
  load c = Some Ld ->
  wf_loadedb Ld = true ->
  unfold_conf_okb Ld = true ->
  paths_unambiguousb Ld = true ->
  forall (cfg : string) (E : list sid) (F : fs),
  dataset_ok Ld cfg E F ->
  forall (Rt : Routing) (id s : string) (l l' l'' : list string),
  guarded Ld s ->
  tree_guard Ld cfg E s ->
  all_guard Ld Rt id cfg E s ->
  find_all Ld Rt F s = Ok l ->
  ffind Ld F (FPaths id cfg) s = Ok l' ->
  find_list Ld (map s_string E) s = Ok l'' ->
  forall e : string, (In e l <-> In e l') /\ (In e l' <-> In e l'').
Proof. exact find_all_eq_find_paths_eq_find_list. Qed.
Print Assumptions C10_find_all_eq_find_paths_eq_find_list.

(** ** The FindInAll rules instantiated: the data set / tree of [C10_tree_instance], the routing table of this run *)

(* the routing of the run (as [Rt15] of props/C15.v): every path-backed type goes to  FPaths "0" "local" *)
Definition Rt10 : Routing := match parse_routing Hamlet.raw with Some r => r | None => mkRouting [] [] false end.
Definition afind (s : string) : outcome (list string) := find_all L Rt10 F1 s.
Definition pfind (s : string) : outcome (list string) := ffind L F1 (FPaths "0" "local") s.
Definition aguard (s : string) : bool := search_ok s && all_guardb L Rt10 "0" "local" E1 s.
(* FindInAll and FindInPaths.find are given the same typed searches, all routed to the path finder *)
Definition arouted (s : string) : bool :=
  match find_searches L s, unfold_search L s false false with
  | Ok qs', Ok qs => Nat.eqb (List.length qs') (List.length qs)
                     && forallb (fun p => sid_eqb_full (fst p) (snd p)) (combine qs' qs)
                     && routed_tob Rt10 "0" "local" qs
  | _, _ => false
  end.

(* the tree F1 is also the tree of E1 under the configuration "local" the routing table names *)
Lemma data1_ok_local : dataset_ok L "local" E1 F1.
Proof. apply dataset_okb_sound. vm_compute. reflexivity. Qed.

(* the routing guard and the whole guard hold for a comma search, an alias search and a "**" search (and for their
   alternatives / members / the filter and literal searches), with the computed results of FindInAll, which are those of
   FindInPaths ([C10_tree_instance]) *)
Example C10_all_instance :
  parse_routing Hamlet.raw <> None /\
  finder_for Rt10 "asset__asset" = Some (FPaths "0" "local") /\
  dataset_okb L "local" E1 F1 = true /\
  forallb arouted ["hamlet/a/char/ophelia,claudius"; "hamlet/a/char/ophelia/model/v001/w/maya"; "hamlet/a/char/**"] = true /\
  forallb (all_routedb L Rt10 "0" "local")
          ["hamlet/a/char/ophelia,claudius"; "hamlet/a/char/ophelia/model/v001/w/maya"; "hamlet/a/char/**"] = true /\
  forallb aguard ["hamlet/a/char/ophelia,claudius"; "hamlet/a/char/ophelia"; "hamlet/a/char/claudius";
                  "hamlet/a/char/ophelia/model/v001/w/maya"; "hamlet/a/char/ophelia/model/v001/w/ma";
                  "hamlet/a/char/ophelia/model/v001/w/mb"; "hamlet/a/char/**"; "hamlet/a/*/*"; "hamlet/a/char/*"] = true /\
  all_guardb L Rt10 "0" "local" E1 "hamlet/a/*/*?assettype=char" = true /\
  (* typed non-search Sids (FindInPaths.find takes the shortcut): the Sid unfolds to itself *)
  map (shortcut L) ["hamlet/a/char/ophelia"; "hamlet/a/char/ophelia/model/v001/w/ma"; "hamlet/a/char/**"] = [true; true; false] /\
  forallb arouted ["hamlet/a/char/ophelia"; "hamlet/a/char/claudius"; "hamlet/a/char/ophelia/model/v001/w/ma"] = true /\
  (* comma *)
  afind "hamlet/a/char/ophelia,claudius" = Ok ["hamlet/a/char/claudius"; "hamlet/a/char/ophelia"] /\
  afind "hamlet/a/char/ophelia" = Ok ["hamlet/a/char/ophelia"] /\
  afind "hamlet/a/char/claudius" = Ok ["hamlet/a/char/claudius"] /\
  (* alias *)
  afind "hamlet/a/char/ophelia/model/v001/w/maya" =
    Ok ["hamlet/a/char/ophelia/model/v001/w/ma"; "hamlet/a/char/ophelia/model/v001/w/mb"] /\
  afind "hamlet/a/char/ophelia/model/v001/w/ma" = Ok ["hamlet/a/char/ophelia/model/v001/w/ma"] /\
  afind "hamlet/a/char/ophelia/model/v001/w/mb" = Ok ["hamlet/a/char/ophelia/model/v001/w/mb"] /\
  (* "**" *)
  afind "hamlet/a/char/**" =
    Ok ["hamlet/a/char/ophelia/model/v001/w/ma"; "hamlet/a/char/ophelia/model/v001/w/mb";
        "hamlet/a/char/ophelia/model/v001/w/mp4"] /\
  (* filter, literal *)
  afind "hamlet/a/*/*" = Ok ["hamlet/a/char/claudius"; "hamlet/a/char/ophelia"; "hamlet/a/prop/skull"] /\
  afind "hamlet/a/*/*?assettype=char" = Ok ["hamlet/a/char/claudius"; "hamlet/a/char/ophelia"] /\
  afind "hamlet/a/char/*" = Ok ["hamlet/a/char/claudius"; "hamlet/a/char/ophelia"] /\
  (* the same searches by the path finder the routing names, and by the list finder *)
  pfind "hamlet/a/char/ophelia,claudius" = Ok ["hamlet/a/char/claudius"; "hamlet/a/char/ophelia"] /\
  pfind "hamlet/a/char/ophelia/model/v001/w/maya" =
    Ok ["hamlet/a/char/ophelia/model/v001/w/ma"; "hamlet/a/char/ophelia/model/v001/w/mb"] /\
  pfind "hamlet/a/char/**" =
    Ok ["hamlet/a/char/ophelia/model/v001/w/ma"; "hamlet/a/char/ophelia/model/v001/w/mb";
        "hamlet/a/char/ophelia/model/v001/w/mp4"] /\
  find_list L (map s_string E1) "hamlet/a/char/**" =
    Ok ["hamlet/a/char/ophelia/model/v001/w/ma"; "hamlet/a/char/ophelia/model/v001/w/mb";
        "hamlet/a/char/ophelia/model/v001/w/mp4"] /\
  (* a level served by configured constants is NOT routed to the path finder: the routing guard fails there *)
  all_routedb L Rt10 "0" "local" "hamlet/a/char/ophelia/model/v001/*" = false.
Proof. vm_compute. split; [discriminate|]. repeat split; reflexivity. Qed.
Print Assumptions C10_all_instance.

Ltac aguard_calc := match goal with |- all_guard _ _ _ _ _ _ => apply all_guardb_sound; calc end.

(** Rule 0 for FindInAll *)
Example C10_all_denotes_hamlet :
  NoDup ["hamlet/a/char/claudius"; "hamlet/a/char/ophelia"] /\
  forall e, In e ["hamlet/a/char/claudius"; "hamlet/a/char/ophelia"] <->
            In e (map s_string E1) /\ matched L "hamlet/a/char/*" e.
Proof.
  apply (find_all_denotes_unf Hamlet.the_conf L Hamlet.the_loaded_eq Hamlet.conf_wf conf_unfold_ok conf_paths_ok
           "local" E1 F1 data1_ok_local Rt10 "0" "hamlet/a/char/*"); try calc. aguard_calc.
Qed.

(** Rule 1 for FindInAll *)
Example C10_all_comma_hamlet :
  NoDup ["hamlet/a/char/claudius"; "hamlet/a/char/ophelia"] /\
  forall e, In e ["hamlet/a/char/claudius"; "hamlet/a/char/ophelia"] <->
            In e ["hamlet/a/char/ophelia"] \/ In e ["hamlet/a/char/claudius"].
Proof.
  apply (all_comma_rule2 Hamlet.the_conf L Hamlet.the_loaded_eq Hamlet.conf_wf conf_unfold_ok conf_paths_ok
           "local" E1 F1 data1_ok_local Rt10 "0" ["hamlet"; "a"; "char"] "ophelia" "claudius" []);
    try aguard_calc; try calc; try segs.
  intros _. split; discriminate.
Qed.

(** Rule 2 for FindInAll *)
Example C10_all_alias_hamlet :
  NoDup ["hamlet/a/char/ophelia/model/v001/w/ma"; "hamlet/a/char/ophelia/model/v001/w/mb"] /\
  forall e, In e ["hamlet/a/char/ophelia/model/v001/w/ma"; "hamlet/a/char/ophelia/model/v001/w/mb"] <->
    exists l', In l' [["hamlet/a/char/ophelia/model/v001/w/ma"]; ["hamlet/a/char/ophelia/model/v001/w/mb"]] /\ In e l'.
Proof.
  apply (all_alias_rule Hamlet.the_conf L Hamlet.the_loaded_eq Hamlet.conf_wf conf_unfold_ok conf_paths_ok
           "local" E1 F1 data1_ok_local Rt10 "0" ["hamlet"; "a"; "char"; "ophelia"; "model"; "v001"; "w"] "maya" ["ma"; "mb"]);
    try aguard_calc; try calc; try segs; try discriminate.
  - intros m [<-|[<-|[]]]; (split; [calc | aguard_calc]).
  - f2.
Qed.

(** Rule 3 for FindInAll *)
Example C10_all_dstar_hamlet :
  NoDup ["hamlet/a/char/ophelia/model/v001/w/ma"; "hamlet/a/char/ophelia/model/v001/w/mb";
         "hamlet/a/char/ophelia/model/v001/w/mp4"] /\
  forall e, In e ["hamlet/a/char/ophelia/model/v001/w/ma"; "hamlet/a/char/ophelia/model/v001/w/mb";
                  "hamlet/a/char/ophelia/model/v001/w/mp4"] <->
    In e (map s_string E1) /\ exists n, matched_by (levels_on L ["hamlet"; "a"; "char"] n []) e.
Proof.
  apply (all_dstar_rule Hamlet.the_conf L Hamlet.the_loaded_eq Hamlet.conf_wf conf_unfold_ok conf_paths_ok
           "local" E1 F1 data1_ok_local Rt10 "0" ["hamlet"; "a"; "char"] []); try aguard_calc; try calc; try segs; try discriminate.
  - intros _. calc.
  - intros _. calc.
  - intros _ x. vm_compute. tauto.
Qed.

(** Rule 4 for FindInAll *)
Example C10_all_filter_hamlet :
  NoDup ["hamlet/a/char/claudius"; "hamlet/a/char/ophelia"] /\
  forall e, In e ["hamlet/a/char/claudius"; "hamlet/a/char/ophelia"] <->
    In e ["hamlet/a/char/claudius"; "hamlet/a/char/ophelia"; "hamlet/a/prop/skull"] /\
    field_in L "hamlet/a/*/*" "assettype" e "char".
Proof.
  apply (all_filter_rule Hamlet.the_conf L Hamlet.the_loaded_eq Hamlet.conf_wf conf_unfold_ok conf_paths_ok
           "local" E1 F1 data1_ok_local Rt10 "0" "hamlet/a/*/*" "assettype" "char"); try aguard_calc; try calc.
  vm_compute. intros [H|[]]. discriminate H.
Qed.

(** Rule 5 for FindInAll *)
Example C10_all_literal_hamlet :
  NoDup ["hamlet/a/char/ophelia"] /\
  forall e, In e ["hamlet/a/char/ophelia"] <->
    In e ["hamlet/a/char/claudius"; "hamlet/a/char/ophelia"] /\ nth_error (split_c "/" e) 3 = Some "ophelia".
Proof.
  apply (all_literal_rule Hamlet.the_conf L Hamlet.the_loaded_eq Hamlet.conf_wf conf_unfold_ok conf_paths_ok
           "local" E1 F1 data1_ok_local Rt10 "0" ["hamlet"; "a"; "char"] "ophelia" []); try aguard_calc; try calc; try segs.
  - intros _. split; [discriminate | calc].
  - intros _. calc.
  - apply lit_okb_ok. calc.
Qed.

Print Assumptions C10_all_denotes_hamlet.
Print Assumptions C10_all_comma_hamlet.
Print Assumptions C10_all_alias_hamlet.
Print Assumptions C10_all_dstar_hamlet.
Print Assumptions C10_all_filter_hamlet.
Print Assumptions C10_all_literal_hamlet.

(** a typed non-search Sid whose unfolding is NOT the Sid itself: FindInPaths.find takes the shortcut and globs ONE typed search
    (type shot__file), FindInAll unfolds to TWO (the other one, of type shot__cache_node, has no path template, so [all_guard]
    fails although [tree_guard] holds); both are routed to the path finder.  Here [do_find] answers the same on the two lists
    (the hypothesis of [C10_find_all_routed_gen]), so the two finders still agree.  This is why (1) and the form
    [C10_find_all_denotes] of (2) ask that both look at the same list, and why the rules are stated with the guard on the
    unfolding. *)
Definition s_sc : string := "hamlet/s/sq010/sh0010/anim/v001/w/ma".
Definition E2 : list sid := [mks s_sc].
Definition F2 : fs := map (fun e => (pth e, Dir)) E2.
Example C10_all_shortcut_instance :
  shortcut L s_sc = true /\
  match find_searches L s_sc with Ok qs' => map s_type qs' | Raise _ => [] end = ["shot__file"] /\
  match unfold_search L s_sc false false with Ok qs => map s_type qs | Raise _ => [] end = ["shot__cache_node"; "shot__file"] /\
  match unfold_search L s_sc false false with Ok qs => map (fun q => sid_path L q "local") qs | Raise _ => [] end =
    [Ok None; Ok (Some (pth (mks s_sc)))] /\
  all_routedb L Rt10 "0" "local" s_sc = true /\
  dataset_okb L "local" E2 F2 = true /\
  tree_guardb L "local" E2 s_sc = true /\
  all_guardb L Rt10 "0" "local" E2 s_sc = false /\
  match find_searches L s_sc, unfold_search L s_sc false false with
  | Ok qs', Ok qs => do_find_g L (paths_star L F2 "local") qs = do_find_g L (paths_star L F2 "local") qs'
  | _, _ => False
  end /\
  find_all L Rt10 F2 s_sc = Ok [s_sc] /\
  ffind L F2 (FPaths "0" "local") s_sc = Ok [s_sc].
Proof. vm_compute. repeat split; reflexivity. Qed.
Print Assumptions C10_all_shortcut_instance.
