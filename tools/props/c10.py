"""C10 algebra of the search syntax (list-backed part; file-system finders are exercised by C11)."""
from harness.runner import PropBase, Case
from harness import gen
from props import listsearch as ls

class C10(PropBase):
    id = 'C10'
    rule = ('pairs (search, derived searches) by the five rewrite rules (comma -> alternatives, alias -> members, ** -> 0..n /* levels restricted to '
            'leaf types, filter k=v -> field equality, * -> literal) over generated universes on FindInList; non-trivial = the left search finds something; '
            'distinct by (universe, rule, search)')
    partial_note = 'FindInList part; FindInPaths / FindInAll are covered through C11 (finder agreement)'
    def cases(self, rng, ctx, tier):
        v = gen.vocab_from_ctx(ctx)
        nu, ns = (40, 12) if tier == 'quick' else (400, 40)
        out = []
        gid = 0
        for _ in range(nu):
            items = ls.universe(rng, v, kind=rng.choice(['full', 'full', 'leaf', 'mixed']), size=rng.randint(5, 16))
            typed_items = [s for s in items if s]
            for _ in range(ns):
                gid += 1
                base = rng.choice(typed_items) if typed_items else 'hamlet'
                segs = base.split('/')
                # generalise some segments
                for i in range(len(segs)):
                    if rng.random() < 0.35:
                        segs[i] = '*'
                rule = rng.choice(['comma', 'alias', 'dstar', 'filter', 'literal'])
                if rule == 'comma':
                    i = rng.randrange(len(segs))
                    alts = [base.split('/')[i], rng.choice(ls.NAMES + ['ma', 'mov', 'w', 'p', 'char', 'prop', 's', 'a'])]
                    left = '/'.join(segs[:i] + [','.join(alts)] + segs[i + 1:])
                    rights = ['/'.join(segs[:i] + [a] + segs[i + 1:]) for a in alts]
                elif rule == 'alias':
                    if not v.alias:
                        continue
                    al = rng.choice(list(v.alias))
                    if rng.random() < 0.4 and len(v.alias) > 1:
                        al2 = rng.choice([a for a in v.alias if a != al])
                        left = '/'.join(segs[:-1] + [al + ',' + al2])
                        rights = ['/'.join(segs[:-1] + [m]) for m in v.alias[al] + v.alias[al2]]
                    else:
                        left = '/'.join(segs[:-1] + [al])
                        rights = ['/'.join(segs[:-1] + [m]) for m in v.alias[al]]
                elif rule == 'dstar':
                    if len(segs) < 2:
                        continue
                    i = rng.randrange(1, len(segs))
                    left = '/'.join(segs[:i] + ['**'])
                    rights = ['/'.join(segs[:i] + ['*'] * n) for n in range(0, 10)]
                elif rule == 'filter':
                    keys = self.keys_for(v, base)
                    if not keys:
                        continue
                    i = rng.randrange(len(keys))
                    segs[i] = '*'
                    val = base.split('/')[i]
                    if val in v.alias:
                        continue      # an alias value is itself a search (covered by the alias rule)
                    left = '/'.join(segs) + '?' + keys[i] + '=' + val
                    rights = ['/'.join(segs)]
                    out.append(Case('find_list_sids', [items, left], 'pair', {'g': gid, 'rule': rule, 'side': 'L', 'key': keys[i], 'val': val}))
                    out.append(Case('find_list_sids', [items, rights[0]], 'pair', {'g': gid, 'rule': rule, 'side': 'R', 'key': keys[i], 'val': val}))
                    continue
                else:
                    stars = [i for i, g in enumerate(segs) if g == '*']
                    if not stars:
                        continue
                    i = rng.choice(stars)
                    val = base.split('/')[i]
                    if val in v.alias:
                        continue
                    left = '/'.join(segs[:i] + [val] + segs[i + 1:])
                    rights = ['/'.join(segs)]
                    out.append(Case('find_list_sids', [items, left], 'pair', {'g': gid, 'rule': rule, 'side': 'L', 'pos': i, 'val': val}))
                    out.append(Case('find_list_sids', [items, rights[0]], 'pair', {'g': gid, 'rule': rule, 'side': 'R', 'pos': i, 'val': val}))
                    continue
                out.append(Case('find_list_sids', [items, left], 'pair', {'g': gid, 'rule': rule, 'side': 'L'}))
                for r_ in rights:
                    out.append(Case('find_list_sids', [items, r_], 'pair', {'g': gid, 'rule': rule, 'side': 'R'}))
        return out
    def phase2(self, rng, ctx, cases, impl_out, tier):
        more = []
        for c in cases:
            if c.meta.get('rule') in ('dstar', 'filter') and c.meta.get('side') == 'R':
                more.append(Case('unfold', [c.args[1], '0', '0'], 'unfold', {'for': c.args[1]}))
        return more
    def keys_for(self, v, s):
        from props.c01 import natural
        n = natural(v, s)
        return [k for k, _ in n[1]] if n else []
    def oracle_bulk(self, cases, impl_out, ctx):
        v = gen.vocab_from_ctx(ctx)
        leaf_keys = dict(ctx['rawd']['leaf_keys'])
        sep = ctx['rawd']['sep']
        groups = {}
        unfolds = {}
        for c, o in zip(cases, impl_out):
            if c.op == 'unfold':
                unfolds[c.args[0]] = o
        for c, o in zip(cases, impl_out):
            if c.op == 'find_list_sids' and 'g' in c.meta:
                groups.setdefault(c.meta['g'], []).append((c, o))
        fails = []
        for g, lst in groups.items():
            L = [(c, o) for c, o in lst if c.meta['side'] == 'L']
            R = [(c, o) for c, o in lst if c.meta['side'] == 'R']
            if not L:
                continue
            (lc, lo) = L[0]
            if any(o[0] != 'ok' for _, o in lst):
                # raising is only legitimate as SpilException and then on both sides of a ** pair
                if lo[0] != 'ok' and lo[1] != 'SpilException':
                    fails.append((lc, lo, 'search raised %r' % (lo,)))
                continue
            rule = lc.meta['rule']
            key = lambda x: (x[0], x[1])
            # untyped entries of a mixed universe can glob-match a search: the algebra speaks of typed results
            lst = [(c_, ['ok', [x for x in o_[1] if x[1]]]) for c_, o_ in lst]
            L = [(c_, o_) for c_, o_ in lst if c_.meta['side'] == 'L']
            R = [(c_, o_) for c_, o_ in lst if c_.meta['side'] == 'R']
            (lc, lo) = L[0]
            left = sorted(set(key(x) for x in lo[1]))
            if len(left) != len(lo[1]):
                fails.append((lc, lo, 'duplicate results')); continue
            if any(not x[1] for x in lo[1]):
                # untyped entries of a mixed universe can glob-match; the property speaks of typed results when L holds typed entries
                pass
            if rule in ('comma', 'alias'):
                right = sorted(set(key(x) for _, o in R for x in o[1]))
                if left != right:
                    fails.append((lc, lo, '%s: %r gives %r, union of alternatives %r' % (rule, lc.args[1], left, right)))
            elif rule == 'dstar':
                # "restricted to leaf types": only the levels whose unfolded forms include a leaf-typed search contribute
                right = set()
                for rc, o in R:
                    u = unfolds.get(rc.args[1])
                    if not u or u[0] != 'ok':
                        continue
                    has_leaf = any(x[2] and x[2][-1][0] == leaf_keys.get(x[1].split(sep)[0]) for x in u[1])
                    if has_leaf:
                        for x in o[1]:
                            right.add(key(x))
                if left != sorted(right):
                    fails.append((lc, lo, '**: %r gives %r, union over /* levels restricted to leaf types %r' % (lc.args[1], left, sorted(right))))
            elif rule == 'filter':
                k, val = lc.meta['key'], lc.meta['val']
                ru = unfolds.get(R[0][0].args[1]) if R else None
                if not ru or ru[0] != 'ok' or not all(k in dict(x[2]) for x in ru[1]):
                    continue      # the rule is about a key that (all) the searched types have; otherwise the filter adds a level (C07)
                right = sorted(set(key(x) for _, o in R for x in o[1] if dict(x[2]).get(k) == val))
                if left != right:
                    fails.append((lc, lo, 'filter %s=%s: %r gives %r, filtered unfiltered results %r' % (k, val, lc.args[1], left, right)))
            elif rule == 'literal':
                i, val = lc.meta['pos'], lc.meta['val']
                right = sorted(set(key(x) for _, o in R for x in o[1] if x[0].split('/')[i] == val))
                if left != right:
                    fails.append((lc, lo, 'literal: %r gives %r, subset of the * search %r' % (lc.args[1], left, right)))
        return fails
    def nontrivial(self, case, impl):
        return case.args if case.meta.get('side') == 'L' and impl[0] == 'ok' and impl[1] else None
    def histogram_key(self, case, impl):
        return '%s:%s:%s' % (case.meta.get('rule'), case.meta.get('side'), 'raise' if impl[0] != 'ok' else min(len(impl[1]), 3))

PROP = C10()
