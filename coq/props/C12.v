From Coq Require Import List String.
Example C12_placeholder : True. Proof. exact I. Qed.
Print Assumptions C12_placeholder.
