(** A cache wrapper of spil/util/caching.py as DATA: the descriptor that tools/extract_caching.py reads off the source of
    each decorator on every run (fail-closed: any statement it does not recognise is an error), and the generic wrapper
    machine a descriptor denotes.  Definitions only (proofs in Cache/DescProofs.v).

    Shape of a decorator (python, star-args written STAR to keep this a Coq comment):
        def NAME(user_function):
            cache = {}
            def wrapper(STAR args [, STARSTAR kwargs]):                        -- wd_kw
                key = KEY-EXPRESSION                                            -- wd_key
                if key not in cache:
                    if len(cache) >= _max_size: cache.popitem() or cache.clear()   -- wd_evict
                    cache[key] = user_function(STAR args [, STARSTAR kwargs])    -- wd_pass_kw, wd_store = StAlways
                    or: returned = user_function(...); if returned: cache[key] = returned else: return returned   -- StTruthy
                return cache[key]
*)
From Coq Require Import List String Bool Arith.
From Spil Require Import Base.Str Base.Dict Cache.Memo Cache.Wiring.
Import ListNotations.

Inductive key_form :=
| KSortedItems      (* tuple(args) + tuple(sorted(kwargs.items())) *)
| KNamesOnly        (* tuple(args) + tuple(kwargs): keyword NAMES only (the pinned tree) *)
| KArgs.            (* tuple(args) *)

Inductive evict_form := EvPop | EvClear | EvNone.
Inductive store_form := StAlways | StTruthy.

Record wrapper_desc := mkDesc {
  wd_kw : bool;            (* the wrapper accepts keyword arguments *)
  wd_key : key_form;
  wd_pass_kw : bool;       (* the wrapped function is called with them *)
  wd_evict : evict_form;
  wd_store : store_form }.

(* the key of a python call under a key form *)
Inductive ckey :=
| CK_items (pos : list pyarg) (kw : list (string * pyarg))
| CK_names (pos : list pyarg) (names : list string)
| CK_args (pos : list pyarg).

Definition key_under (kf : key_form) (c : call) : ckey :=
  match kf with
  | KSortedItems => CK_items (c_pos c) (sort_kw (c_kw c))
  | KNamesOnly => CK_names (c_pos c) (map fst (c_kw c))
  | KArgs => CK_args (c_pos c)
  end.

(* a descriptor is accepted when its key determines the call it forwards:
   all keyword values are in the key, or no keyword can be passed at all; and what it accepts is what it forwards *)
Definition desc_okb (d : wrapper_desc) : bool :=
  Bool.eqb (wd_kw d) (wd_pass_kw d) &&
  match wd_key d with
  | KSortedItems => true
  | KArgs => negb (wd_kw d)
  | KNamesOnly => negb (wd_kw d)
  end.

(** The generic machine, over the same abstract ingredients as Cache/Memo.v *)
Section Machine.
Variables (K V S : Type).
Variable keq : K -> K -> bool.
Variable truthy : V -> bool.
Variable body : K -> S -> V * S.

Definition evict (e : evict_form) (max_size : nat) (t : table K V) : table K V :=
  if Nat.leb max_size (List.length t) then
    match e with EvPop => popitem K V t | EvClear => [] | EvNone => t end
  else t.

Definition desc_call (e : evict_form) (st : store_form) (max_size : nat) (s : table K V * S) (k : K) : V * (table K V * S) :=
  let (t, s0) := s in
  match lookup K V keq t k with
  | Some v => (v, (t, s0))
  | None =>
      let t' := evict e max_size t in
      let (v, s') := body k s0 in
      match st with
      | StAlways => (v, (t' ++ [(k, v)], s'))
      | StTruthy => if truthy v then (v, (t' ++ [(k, v)], s')) else (v, (t', s'))
      end
  end.

Fixpoint desc_run (e : evict_form) (st : store_form) (n : nat) (s : table K V * S) (ks : list K) : list V * (table K V * S) :=
  match ks with
  | [] => ([], s)
  | k :: r => let (v, s') := desc_call e st n s k in
              let (vs, s'') := desc_run e st n s' r in (v :: vs, s'')
  end.
End Machine.

(** What the translator emits about the uses of the wrappers: every decorated function of the source *)
Record wired := mkWired {
  w_module : string; w_function : string;
  w_decorator : string;                 (* resolved through the module's imports: "spil.util.caching.<name>", "functools.lru_cache", "functools.cache" *)
  w_params : list string }.

Definition known_decorator (wrappers : list (string * wrapper_desc)) (w : wired) : bool :=
  if startswith "spil.util.caching." (w_decorator w)
  then match dget wrappers (drop 18 (w_decorator w)) with Some d => desc_okb d | None => false end
  else String.eqb (w_decorator w) "functools.lru_cache" || String.eqb (w_decorator w) "functools.cache".
