(** C05 — Sid -> path -> Sid is the identity in every path configuration.  Property theorems only.
    The hard direction needs that the path templates are unambiguous (the first template matching a formatted path is
    its own, with its own field values).  [C05_roundtrip_partial] keeps that as an explicit hypothesis; [C05_roundtrip]
    discharges it for every configuration that passes the decidable check [paths_unambiguousb] of Path/UnambiguousDefs.v
    (each template factors a string in one way only; every earlier template is separated from the concrete strings of a
    later one), which the configuration of this run is proved to pass ([C05_paths_unambiguous], by computation, re-proved
    on every run from the regenerated configuration).  Value guard of the full theorem: no value is "" or "." or contains
    "/" or a newline (the D26 collision below is exactly the excluded case), mapped keys carry mapped values, and closed
    placeholders carry concrete (non "*" / ">") alternatives. *)
From Coq Require Import List String Ascii Bool Arith.
From Spil Require Import Base.Str Base.Dict Base.Outcome Base.PyPath Resolva.Resolver Conf.Conf Conf.Routing Conf.WF Sid.Sid
  Search.Unfold Search.Finders FS.Fs Data.Data Data.Crash Path.PathProofs Data.DataProofs Data.CrashProofs
  Sid.SidProofs Path.UnambiguousDefs Path.UnambiguousProofs.
From Spil Require Import Path.RootDefs Path.RootLemmas Path.RootProofs.
From SpilGen Require Hamlet.
Import ListNotations.
Local Open Scope string_scope.

Theorem C05_roundtrip_partial : forall c Ld x cfg p, load c = Some Ld -> wf_loadedb Ld = true ->
  s_fields x <> [] -> sid_path Ld x cfg = Ok (Some p) ->
  path_to_dict Ld p cfg = Ok (Some (s_type x, s_fields x)) ->
  rdict_to_sid Ld (s_fields x) (s_type x) = Ok (s_string x) -> s_string x <> "" ->
  sid_of_path Ld p cfg = Ok x.
Proof. exact roundtrip_partial. Qed.
Print Assumptions C05_roundtrip_partial.

(* the full round trip, for every configuration passing the unambiguity check *)
Theorem C05_roundtrip : forall c Ld x cfg p, load c = Some Ld -> wf_loadedb Ld = true -> paths_unambiguousb Ld = true ->
  naturally_typed Ld x -> concrete Ld x -> path_values_ok x ->
  sid_path Ld x cfg = Ok (Some p) -> sid_of_path Ld p cfg = Ok x.
Proof. exact roundtrip. Qed.
Print Assumptions C05_roundtrip.

(* the resolver gives back type and fields of a formatted path *)
Theorem C05_path_to_dict_of_path : forall c Ld x cfg p, load c = Some Ld -> wf_loadedb Ld = true -> paths_unambiguousb Ld = true ->
  naturally_typed Ld x -> concrete Ld x -> path_values_ok x ->
  sid_path Ld x cfg = Ok (Some p) -> path_to_dict Ld p cfg = Ok (Some (s_type x, s_fields x)).
Proof. exact path_to_dict_of_path. Qed.
Print Assumptions C05_path_to_dict_of_path.

(* two different Sids never map to the same path *)
Theorem C05_path_injective : forall c Ld x y cfg p, load c = Some Ld -> wf_loadedb Ld = true -> paths_unambiguousb Ld = true ->
  naturally_typed Ld x -> concrete Ld x -> path_values_ok x -> sid_path Ld x cfg = Ok (Some p) ->
  naturally_typed Ld y -> concrete Ld y -> path_values_ok y -> sid_path Ld y cfg = Ok (Some p) -> x = y.
Proof. exact path_injective. Qed.
Print Assumptions C05_path_injective.

(* the configuration of this run passes the check *)
Example C05_paths_unambiguous : paths_unambiguousb Hamlet.the_loaded = true.
Proof. vm_compute. reflexivity. Qed.
Print Assumptions C05_paths_unambiguous.

(* non-vacuity: a concrete Sid of this configuration meets every hypothesis of C05_roundtrip *)
Example C05_hypotheses_hold :
  match Sid Hamlet.the_loaded "hamlet/a/char/ophelia/model/v001/w/ma" with
  | Ok x => sid_bool x && concreteb Hamlet.the_loaded x && path_values_okb x
  | Raise _ => false
  end = true.
Proof. vm_compute. reflexivity. Qed.
Print Assumptions C05_hypotheses_hold.

(* one path never yields two Sids *)
Theorem C05_injective : forall c Ld x y cfg p, load c = Some Ld -> wf_loadedb Ld = true ->
  sid_of_path Ld p cfg = Ok x -> sid_of_path Ld p cfg = Ok y -> x = y.
Proof. exact path_injective_partial. Qed.
Print Assumptions C05_injective.

(* an untyped Sid, or a Sid whose type has no path template, has path None rather than an error *)
Theorem C05_no_path_untyped : forall c Ld x cfg, load c = Some Ld -> wf_loadedb Ld = true ->
  s_fields x = [] -> sid_path Ld x cfg = Ok None.
Proof. exact no_path_is_none_untyped. Qed.
Print Assumptions C05_no_path_untyped.

Theorem C05_no_path_no_template : forall c Ld x cfg pc, load c = Some Ld -> wf_loadedb Ld = true ->
  get_path_config Ld cfg = Ok pc -> s_fields x <> [] -> s_type x <> "" ->
  find_tpl (lp_resolver pc) (s_type x) = None -> sid_path Ld x cfg = Ok None.
Proof. exact no_path_is_none_no_template. Qed.
Print Assumptions C05_no_path_no_template.

(* path normalisation (pathlib) is idempotent: path(c) is a function returning a normal form *)
Theorem C05_norm_idempotent : forall p, norm_path (norm_path p) = norm_path p.
Proof. exact norm_path_idem. Qed.
Print Assumptions C05_norm_idempotent.

(* the recorded finding D26: values "" and "." vanish in path normalisation, two Sids share one path (outside C05's value sets) *)
Example C05_dot_value_shares_path :
  match sid_factory Hamlet.the_loaded (FromString "hamlet/a/char/."), sid_factory Hamlet.the_loaded (FromString "hamlet/a/char") with
  | Ok x, Ok y => match sid_path Hamlet.the_loaded x "", sid_path Hamlet.the_loaded y "" with
                  | Ok (Some p), Ok (Some q) => String.eqb p q && negb (sid_eqb x y)
                  | _, _ => false
                  end
  | _, _ => false
  end = true.
Proof. vm_compute. reflexivity. Qed.
Print Assumptions C05_dot_value_shares_path.

(** ** the paths of one Sid under two configurations differ only by the configured root (Path/RootProofs.v) *)

(* for EVERY Sid (no guard on it): if the two loaded path configurations are the same up to the leading literal root
   ([same_up_to_root]: same template names and keys in the same order, every template the other one with r1 replaced by r2, same
   mapping and defaults), the paths differ by exactly that prefix, None corresponds to None and errors to errors *)
Theorem C05_root_only :
  forall (c : Conf) (Ld : Loaded) (cfg1 cfg2 : string) (lp1 lp2 : LoadedPath) (r1 r2 : string) (x : sid),
  load c = Some Ld ->
  get_path_config Ld cfg1 = Ok lp1 ->
  get_path_config Ld cfg2 = Ok lp2 ->
  same_up_to_root lp1 lp2 r1 r2 = true ->
  (forall p1 : string,
   sid_path Ld x cfg1 = Ok (Some p1) -> exists rel : string, p1 = r1 ++ rel /\ sid_path Ld x cfg2 = Ok (Some (r2 ++ rel))) /\
  (forall p2 : string,
   sid_path Ld x cfg2 = Ok (Some p2) -> exists rel : string, p2 = r2 ++ rel /\ sid_path Ld x cfg1 = Ok (Some (r1 ++ rel))) /\
  (sid_path Ld x cfg1 = Ok None <-> sid_path Ld x cfg2 = Ok None) /\
  (forall e : exn, sid_path Ld x cfg1 = Raise e <-> sid_path Ld x cfg2 = Raise e).
Proof. exact paths_differ_only_by_root. Qed.
Print Assumptions C05_root_only.

(* the path configurations of this run, pairwise against the first one, with their roots computed from the templates *)
Example C05_roots_here :
  match l_paths Hamlet.the_loaded with
  | lp1 :: rest => forallb (fun lp2 => same_up_to_root lp1 lp2 (root_of lp1) (root_of lp2)) rest && negb (match rest with [] => true | _ => false end)
  | [] => false
  end = true.
Proof. vm_compute. reflexivity. Qed.
Print Assumptions C05_roots_here.
