(** Model of spil/conf/util.py: extrapolate_templates, pattern_replacing (line by line). *)
From Coq Require Import List String Ascii Bool Arith.
From Spil Require Import Base.Str Base.Dict.
Import ListNotations.
Local Open Scope string_scope.

Definition templates := list (string * string).   (* type name -> template, insertion order *)

(* key from a template part: "{type:a}" -> "type" *)
Definition part_key (part : string) : string :=
  replace "}" "" (replace "{" "" (hd "" (split_c ":" part))).

(* the inner loop: [rev_parts] is reversed(parts) still to visit; the prefix under
   consideration is rev rev_parts; [stem] is sid_type without its keytype *)
Fixpoint walk_up (stem : string) (orig : templates) (rev_parts : list string) (acc : templates) : templates :=
  match rev_parts with
  | [] => acc
  | part :: rest =>
      let new_type := stem ++ part_key part in
      let new_template := join "/" (rev rev_parts) in
      if in_list new_template (map snd orig ++ map snd acc) then walk_up stem orig rest acc
      else if in_list new_type (map fst orig ++ map fst acc) then walk_up stem orig rest acc
      else walk_up stem orig rest (dset acc new_type new_template)
  end.

Definition keytype_of (sep sid_type : string) : string :=
  match last_opt (split_s sep sid_type) with Some k => k | None => sid_type end.

Definition extrapolate_one (sep : string) (orig : templates) (sid_type template : string) (acc : templates) : templates :=
  let keytype := keytype_of sep sid_type in
  let stem := take (String.length sid_type - String.length keytype) sid_type in
  let parts := removelast (split_c "/" template) in
  walk_up stem orig (rev parts) acc.

Definition extrapolate_templates (sep : string) (sid_templates : templates) (to_extrapolate : list string) : templates :=
  fold_left
    (fun acc kv =>
       let acc' := dset acc (fst kv) (snd kv) in
       if in_list (fst kv) to_extrapolate
       then extrapolate_one sep sid_templates (fst kv) (snd kv) acc'
       else acc')
    sid_templates [].

Definition key_patterns_t := list (string * list (string * string)).

Definition replace_all (template : string) (repl : list (string * string)) : string :=
  fold_left (fun t fr => replace (fst fr) (snd fr) t) repl template.

Definition pattern_replace_one (key_patterns : key_patterns_t) (keytype template : string) : string :=
  fold_left (fun t mp => if contains (fst mp) keytype then replace_all t (snd mp) else t) key_patterns template.

Definition pattern_replacing (sid_templates : templates) (key_patterns : key_patterns_t) : templates :=
  map (fun kv => (fst kv, pattern_replace_one key_patterns (fst kv) (snd kv))) sid_templates.
