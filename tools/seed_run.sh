#!/bin/bash
# seed_run.sh <patch> <prop>... : apply a seeded change to /repo, run the checks, undo it
P=$1; shift
git -C /repo apply $P || { echo APPLY-FAIL; exit 1; }
for prop in "$@"; do
  out=$(cd /verif && ./check $prop 2>&1 | grep -E 'VIOLATION|KNOWN' | head -3)
  echo "$prop: ${out:-PASS(no violation)}"
done
git -C /repo checkout -- .
