(** C18 at the level of Sids over a data set: get_last(key) is the existing candidate with the greatest
    value at the key (segment-wise order of the ">" search), the empty Sid iff there is no candidate. *)
From Coq Require Import List String Ascii Bool Arith Lia.
From Spil Require Import Base.Str Base.Dict Base.Outcome Base.PyPath Base.StrProofs Base.SplitProofs Regex.Re
  Resolva.Template Resolva.Resolver Conf.ConfUtil Conf.Conf Conf.WF Conf.Routing Sid.Query Sid.Sid Sid.TypingSpec
  Sid.SidLemmas Sid.SidProofs Path.UnambiguousDefs FS.Fs Cache.OrderProofs
  Search.Unfold Search.UnfoldProofs Search.SortLemmas Search.FindList Search.FindListProofs Search.Finders
  Search.FindersProofs Search.GlobProofs Search.DenoteLemmas Search.DenoteProofs Search.TreeGlob Search.TreePattern
  Search.TreeListDefs Search.TreeListProofs
  Data.Data Data.DataSpecProofs Data.VersionProofs Data.VersionOrderProofs Data.SidLevelDefs Data.SidLevelProofs.
Import ListNotations.
Local Open Scope string_scope.
Local Open Scope list_scope.

(** * Lists and segments *)

Lemma Forall2_glob_plain : forall l l',
  Forall (fun s => glob_magic s = false) l -> Forall2 glob_rel l l' -> l = l'.
Proof.
  induction l as [|a l IH]; intros l' Hpl H; inversion H; subst; [reflexivity|].
  inversion Hpl; subst. f_equal; [apply glob_nomagic_eq; assumption | apply IH; assumption].
Qed.

Lemma Forall2_glob_refl : forall l, Forall2 glob_rel l l.
Proof. induction l as [|a l IH]; constructor; [apply glob_refl | exact IH]. Qed.

(* what "pre/*/post" globs: the strings with segments pre, one more segment, post *)
Lemma glob_star_segment pre post s e :
  Forall (fun g => glob_magic g = false) (pre ++ post) ->
  split_c "/" s = pre ++ ["*"] ++ post ->
  (glob_rel s e <-> exists w, split_c "/" e = pre ++ [w] ++ post).
Proof.
  intros Hpl Hs. apply Forall_app in Hpl. destruct Hpl as (Hpre & Hpost).
  rewrite glob_segmentwise, Hs. split.
  - intros H. apply Forall2_app_inv_l in H. destruct H as (pre' & r' & H1 & H2 & ->).
    apply Forall2_app_inv_l in H2. destruct H2 as (m' & post' & H2 & H3 & ->).
    inversion H2 as [|? w ? ? _ Hnil]; subst. inversion Hnil; subst.
    rewrite (Forall2_glob_plain pre pre' Hpre H1), (Forall2_glob_plain post post' Hpost H3).
    exists w. reflexivity.
  - intros (w & Hw). rewrite Hw. apply Forall2_app; [apply Forall2_glob_refl|].
    apply Forall2_app; [|apply Forall2_glob_refl]. constructor; [|constructor].
    apply glob_star_any. pose proof (Spil.Sid.SidLemmas.split_c_nomem_all "/" e) as Hall. rewrite Hw in Hall.
    apply Forall_app in Hall. destruct Hall as (_ & Hall). inversion Hall; assumption.
Qed.

Lemma firstn_app_len {A} (a b : list A) : firstn (List.length a) (a ++ b) = a.
Proof. induction a as [|x a IH]; simpl; [destruct b; reflexivity | rewrite IH; reflexivity]. Qed.

(* the order of the ">" search on strings that differ in one segment: the order of that segment *)
Lemma segs_ltb_one pre post a b : segs_ltb (pre ++ [a] ++ post) (pre ++ [b] ++ post) = str_ltb a b.
Proof.
  induction pre as [|x pre IH].
  - cbn [app segs_ltb]. destruct (str_ltb a b) eqn:E1; [reflexivity|].
    destruct (str_ltb b a); [reflexivity | apply segs_ltb_irrefl].
  - cbn [app segs_ltb]. rewrite str_ltb_irrefl. exact IH.
Qed.

Lemma dget_nth (d : dict string) : forall i k w, NoDup (map fst d) ->
  nth_error (map fst d) i = Some k -> nth_error (map snd d) i = Some w -> dget d k = Some w.
Proof.
  induction d as [|[k0 v0] d IH]; intros i k w Hnd Hk Hw; [destruct i; discriminate|].
  cbn [map fst snd] in *. inversion Hnd as [|? ? Hnin Hnd']; subst. destruct i as [|i]; cbn [nth_error] in Hk, Hw.
  - inversion Hk; inversion Hw; subst. cbn [dget]. rewrite String.eqb_refl. reflexivity.
  - cbn [dget]. destruct (String.eqb k k0) eqn:Ek.
    + apply String.eqb_eq in Ek. subst k0. exfalso. apply Hnin. exact (nth_error_In _ _ Hk).
    + exact (IH i k w Hnd' Hk Hw).
Qed.

Lemma nth_error_mid {A} (pre post : list A) w : nth_error (pre ++ [w] ++ post) (List.length pre) = Some w.
Proof. rewrite nth_error_app2 by lia. rewrite Nat.sub_diag. reflexivity. Qed.

Section Last.
Variables (c : Conf) (Ld : Loaded).
Hypothesis Hload : load c = Some Ld.
Hypothesis Hwf : wf_loadedb Ld = true.
Hypothesis Hpu : paths_unambiguousb Ld = true.
Variable cfg : string.
Variable E : list sid.
Variable F : fs.
Hypothesis HD : dataset_ok Ld cfg E F.
Variable Rt : Routing.
Variable id : string.

(* the guard on the typed searches of the unfolded ">" search, as a Prop *)
Definition stars_ok (k : string) (pre post : list string) (qs : list sid) : Prop :=
  forall q q', In q qs -> starred Ld q = Ok q' ->
    typed_search Ld q' /\ search_okb Ld cfg q' = true /\
    split_c "/" (s_string q') = pre ++ ["*"] ++ post /\
    nth_error (map fst (s_fields q')) (List.length pre) = Some k.

Lemma star_okb_sound k pre post qs :
  forallb (star_okb Ld cfg k pre post) qs = true -> stars_ok k pre post qs.
Proof.
  rewrite forallb_forall. intros H q q' Hq Hs. specialize (H q Hq). unfold star_okb in H. rewrite Hs in H.
  apply andb_true_iff in H. destruct H as (H & H4). apply andb_true_iff in H. destruct H as (H & H3).
  apply andb_true_iff in H. destruct H as (H1 & H2).
  split; [exact (typed_searchb_sound Ld q' H1)|]. split; [exact H2|].
  split; [apply list_eqb_eq; exact H3|].
  destruct (nth_error (map fst (s_fields q')) (List.length pre)) as [k'|]; [|discriminate].
  apply String.eqb_eq in H4. subst k'. reflexivity.
Qed.

Section Fixed.
Variables (k : string) (pre post : list string) (qs : list sid).
Hypothesis Hpl : Forall (fun g => glob_magic g = false) (pre ++ post).
Hypothesis Hstars : stars_ok k pre post qs.

Lemma single_ok q' : typed_search Ld q' -> search_okb Ld cfg q' = true ->
  searches_ok Ld cfg [q'] /\ pat_inj Ld cfg [q'].
Proof.
  intros Ht Hok. split.
  - intros q [<-|[]]. split; assumption.
  - intros q q2 po po' [<-|[]] [<-|[]] _ _ _ _. reflexivity.
Qed.

(* what the sorted search collects before sorting: the strings of the candidates *)
Lemma founds_spec founds : founds_of Ld (paths_star Ld F cfg) qs = Ok founds ->
  forall s, In s founds <-> exists e, last_candidate Ld E qs pre post e /\ s = s_string e.
Proof.
  intros Hf s. split.
  - intros Hs. unfold founds_of in Hf.
    destruct (concat_mapM_In _ _ _ _ Hf Hs) as (q & ys & Hq & Hy & Hsy).
    fold (starred Ld q) in Hy. destruct (starred Ld q) as [q'|ex] eqn:Eq; cbn [bind] in Hy; [|discriminate].
    destruct (Hstars q q' Hq Eq) as (Ht & Hok & Hsegs & _).
    destruct (single_ok q' Ht Hok) as (Hso & Hpi).
    apply (tree_search_glob c Ld Hload Hwf Hpu cfg E F HD [q'] Hso Hpi ys Hy s) in Hsy.
    destruct Hsy as (e & q2 & He & [<-|[]] & -> & Hty & G).
    exists e. split; [|reflexivity]. split; [exact He|]. split.
    + exact (proj1 (glob_star_segment pre post _ _ Hpl Hsegs) G).
    + exists q, q'. repeat split; assumption.
  - intros (e & (He & (w & Hw) & q & q' & Hq & Eq & Hty) & ->).
    destruct (concat_mapM_In_fwd _ _ _ _ Hf Hq) as (ys & Hy & Hincl). apply Hincl.
    fold (starred Ld q) in Hy. rewrite Eq in Hy. cbn [bind] in Hy.
    destruct (Hstars q q' Hq Eq) as (Ht & Hok & Hsegs & _).
    destruct (single_ok q' Ht Hok) as (Hso & Hpi).
    apply (tree_search_glob c Ld Hload Hwf Hpu cfg E F HD [q'] Hso Hpi ys Hy).
    exists e, q'. split; [exact He|]. split; [left; reflexivity|]. split; [reflexivity|]. split; [exact Hty|].
    apply (glob_star_segment pre post _ _ Hpl Hsegs). exists w. exact Hw.
Qed.

(* a candidate carries a non empty value for the key *)
Lemma candidate_value e w : last_candidate Ld E qs pre post e ->
  split_c "/" (s_string e) = pre ++ [w] ++ post -> sid_get e k = Some w /\ truthy w = true.
Proof.
  intros (He & _ & q & q' & Hq & Eq & Hty) Hw.
  destruct (Hstars q q' Hq Eq) as (Ht & _ & _ & Hk).
  pose proof (nat_typed_search c Ld Hload Hwf e (ds_nat _ _ _ _ HD e He)) as Hte.
  destruct (typed_parts c Ld Hload Hwf e Hte) as (tse & _ & _ & Hfe & Hfste & Hsnde & _ & _ & Hnd & _).
  destruct (typed_parts c Ld Hload Hwf q' Ht) as (tsq & _ & _ & Hfq & Hfstq & _).
  rewrite Hty, Hfq in Hfe. inversion Hfe; subst tse. rewrite <- Hfste in Hfstq. rewrite Hfstq in Hk.
  assert (Hv : nth_error (map snd (s_fields e)) (List.length pre) = Some w).
  { rewrite Hsnde, Hw. apply nth_error_mid. }
  split; [exact (dget_nth _ _ _ _ Hnd Hk Hv)|].
  pose proof (ds_vals _ _ _ _ HD e He) as Hvals. unfold path_values_ok in Hvals. rewrite Forall_forall in Hvals.
  apply nth_error_In in Hv. apply in_map_iff in Hv. destruct Hv as (kv & <- & Hkv).
  destruct (Hvals kv Hkv) as (Hne & _). unfold truthy. destruct (snd kv); [congruence | reflexivity].
Qed.

End Fixed.

(* the Sid factory reads the string of a plain member back as the member *)
Lemma Sid_member e : In e E -> plain_member e -> Sid Ld (s_string e) = Ok e.
Proof.
  intros He (Hq & Hc). rewrite (Sid_plain c Ld Hload Hwf _ Hq Hc).
  pose proof (ds_nat _ _ _ _ HD e He) as Hn. unfold naturally_typed in Hn. rewrite Hn.
  destruct e; reflexivity.
Qed.

(** C18 *)
Theorem get_last_greatest x k q0 qs pre post y :
  sempty k = false -> s_fields x <> [] ->
  get_with_kw Ld x [(k, Some ">")] = Ok q0 ->
  unfold_search Ld (s_string q0) false false = Ok qs ->
  routed_to Rt (FPaths id cfg) qs ->
  existsb has_gt qs = true ->
  (exists q1 rest, qs = q1 :: rest /\ index_of ">" (split_c "/" (s_string q1)) = Some (List.length pre)) ->
  Forall (fun g => glob_magic g = false) (pre ++ post) ->
  stars_ok k pre post qs ->
  (forall e, In e E -> plain_member e) ->
  get_last Ld Rt F x (Some k) = Ok y ->
  (y = empty_sid /\ forall e, ~ last_candidate Ld E qs pre post e) \/
  (last_candidate Ld E qs pre post y /\
   exists wy, split_c "/" (s_string y) = pre ++ [wy] ++ post /\ sid_get y k = Some wy /\
     forall e w, last_candidate Ld E qs pre post e -> split_c "/" (s_string e) = pre ++ [w] ++ post ->
                 str_ltb wy w = false).
Proof.
  intros Hk Hne Hq0 Hu Hrt Hgt (q1 & rest & Hqs & Hidx) Hpl Hstars Hplain H.
  unfold get_last in H. destruct (s_fields x) as [|kv0 fs0] eqn:Ef; [congruence|].
  rewrite Hk in H. unfold get_with_kv in H. rewrite Hq0 in H. cbn [bind] in H.
  unfold all_find_one in H.
  destruct (find_all Ld Rt F (s_string q0)) as [l|ex] eqn:El; cbn [bind] in H; [|discriminate].
  destruct (find_all_one_finder Ld Rt F _ _ qs l Hu Hrt El) as (r & Hr & Hin).
  rewrite (do_find_g_sorted Ld _ qs Hgt) in Hr. cbn [fstar] in Hr.
  destruct (sorted_search_g_spec Ld _ qs r Hr)
    as [(Hnil & _) | (q1' & rest' & index & founds & Hqs' & Hidx' & Hf & Hsub & Hcov & _)].
  { rewrite Hqs in Hnil. discriminate. }
  rewrite Hqs in Hqs'. inversion Hqs'; subst q1' rest'. rewrite Hidx in Hidx'. inversion Hidx'; subst index.
  cbv zeta in Hsub, Hcov.
  pose proof (founds_spec k pre post qs Hpl Hstars founds Hf) as Hfs.
  destruct l as [|s l'].
  - cbn [bind] in H. left. split; [inversion H; reflexivity|].
    intros e He. assert (Hs : In (s_string e) founds) by (apply Hfs; exists e; split; [exact He | reflexivity]).
    destruct (Hcov _ Hs) as (r0 & Hr0 & _). apply Hin in Hr0. destruct Hr0.
  - assert (Hsr : In s r) by (apply Hin; left; reflexivity).
    destruct (proj1 (Hfs s) (Hsub s Hsr)) as (e & Hcand & ->).
    pose proof Hcand as (He & (wy & Hwy) & _).
    rewrite (Sid_member e He (Hplain e He)) in H. cbn [bind] in H.
    destruct (candidate_value k pre post qs Hstars e wy Hcand Hwy) as (Hget & Htr).
    rewrite Hget, Htr in H. inversion H; subst y. right. split; [exact Hcand|].
    exists wy. split; [exact Hwy|]. split; [exact Hget|].
    intros e' w' Hcand' Hw'.
    assert (Hs' : In (s_string e') founds) by (apply Hfs; exists e'; split; [exact Hcand' | reflexivity]).
    pose proof (sorted_search_g_greatest Ld _ qs r (List.length pre) q1 rest founds Hr Hqs Hidx Hf
                  (s_string e) (s_string e') Hsr Hs') as Hge.
    rewrite Hwy, Hw', !firstn_app_len in Hge. specialize (Hge eq_refl).
    rewrite segs_ltb_one in Hge. exact Hge.
Qed.

(* the two cases exclude each other: the empty Sid iff there is no candidate *)
Corollary get_last_empty_iff x k q0 qs pre post y :
  sempty k = false -> s_fields x <> [] ->
  get_with_kw Ld x [(k, Some ">")] = Ok q0 ->
  unfold_search Ld (s_string q0) false false = Ok qs ->
  routed_to Rt (FPaths id cfg) qs ->
  existsb has_gt qs = true ->
  (exists q1 rest, qs = q1 :: rest /\ index_of ">" (split_c "/" (s_string q1)) = Some (List.length pre)) ->
  Forall (fun g => glob_magic g = false) (pre ++ post) ->
  stars_ok k pre post qs ->
  (forall e, In e E -> plain_member e) ->
  get_last Ld Rt F x (Some k) = Ok y ->
  (y = empty_sid <-> forall e, ~ last_candidate Ld E qs pre post e).
Proof.
  intros Hk Hne Hq0 Hu Hrt Hgt Hix Hpl Hstars Hplain H.
  destruct (get_last_greatest x k q0 qs pre post y Hk Hne Hq0 Hu Hrt Hgt Hix Hpl Hstars Hplain H)
    as [(Hy & Hnone) | (Hc & _)].
  - split; intros _; assumption.
  - split.
    + intros ->. exfalso. destruct Hc as (He & _).
      pose proof (member_truthy c Ld Hload Hwf cfg E F HD _ He) as Ht. discriminate Ht.
    + intros Hnone. exfalso. exact (Hnone y Hc).
Qed.

(* for "v" + 3 digits versions the order is numeric *)
Corollary get_last_greatest_numeric x k q0 qs pre post y n :
  sempty k = false -> s_fields x <> [] ->
  get_with_kw Ld x [(k, Some ">")] = Ok q0 ->
  unfold_search Ld (s_string q0) false false = Ok qs ->
  routed_to Rt (FPaths id cfg) qs ->
  existsb has_gt qs = true ->
  (exists q1 rest, qs = q1 :: rest /\ index_of ">" (split_c "/" (s_string q1)) = Some (List.length pre)) ->
  Forall (fun g => glob_magic g = false) (pre ++ post) ->
  stars_ok k pre post qs ->
  (forall e, In e E -> plain_member e) ->
  get_last Ld Rt F x (Some k) = Ok y ->
  split_c "/" (s_string y) = pre ++ [vname n] ++ post -> n < 1000 ->
  forall e m, last_candidate Ld E qs pre post e ->
    split_c "/" (s_string e) = pre ++ [vname m] ++ post -> m < 1000 -> m <= n.
Proof.
  intros Hk Hne Hq0 Hu Hrt Hgt Hix Hpl Hstars Hplain H Hy Hn e m Hc He Hm.
  destruct (get_last_greatest x k q0 qs pre post y Hk Hne Hq0 Hu Hrt Hgt Hix Hpl Hstars Hplain H)
    as [(_ & Hnone0) | (_ & wy & Hwy & _ & Hmax)].
  - exfalso. destruct (Hnone0 e Hc).
  - rewrite Hy in Hwy. apply app_inv_head in Hwy. inversion Hwy; subst wy.
    specialize (Hmax e (vname m) Hc He). rewrite (vname_ltb n m Hn Hm) in Hmax.
    apply Nat.ltb_ge in Hmax. exact Hmax.
Qed.

(* the guards as one boolean on x and the key: [pre] and [post] are the segments of x before and after
   the position of the key *)
Corollary get_last_greatestb x k y :
  last_guardb Ld Rt id cfg x k = true ->
  (forall e, In e E -> plain_member e) ->
  get_last Ld Rt F x (Some k) = Ok y ->
  exists i q0 qs,
    key_index x k = Some i /\ get_with_kw Ld x [(k, Some ">")] = Ok q0 /\
    unfold_search Ld (s_string q0) false false = Ok qs /\
    let pre := firstn i (split_c "/" (s_string x)) in
    let post := skipn (S i) (split_c "/" (s_string x)) in
    (y = empty_sid /\ forall e, ~ last_candidate Ld E qs pre post e) \/
    (last_candidate Ld E qs pre post y /\
     exists wy, split_c "/" (s_string y) = pre ++ [wy] ++ post /\ sid_get y k = Some wy /\
       forall e w, last_candidate Ld E qs pre post e -> split_c "/" (s_string e) = pre ++ [w] ++ post ->
                   str_ltb wy w = false).
Proof.
  unfold last_guardb. intros Hg Hplain H.
  apply andb_true_iff in Hg. destruct Hg as (Hg & Hm). apply andb_true_iff in Hg. destruct Hg as (Hk & Hb).
  apply negb_true_iff in Hk.
  destruct (key_index x k) as [i|] eqn:Ei; [|discriminate].
  destruct (get_with_kw Ld x [(k, Some ">")]) as [q0|ex] eqn:Eq0; [|discriminate].
  cbv zeta in Hm. apply andb_true_iff in Hm. destruct Hm as (Hpl & Hm).
  destruct (unfold_search Ld (s_string q0) false false) as [qs|ex] eqn:Eu; [|discriminate].
  apply andb_true_iff in Hm. destruct Hm as (Hm & Hst). apply andb_true_iff in Hm. destruct Hm as (Hm & Hix).
  apply andb_true_iff in Hm. destruct Hm as (Hrt & Hgt).
  exists i, q0, qs. split; [reflexivity|]. split; [reflexivity|]. split; [exact Eu|]. cbv zeta.
  apply (get_last_greatest x k q0 qs _ _ y Hk); try assumption.
  - unfold sid_bool in Hb. destruct (s_fields x); [discriminate | discriminate].
  - exact (routed_tob_sound _ _ _ _ Hrt).
  - destruct qs as [|q1 rest]; [discriminate|].
    destruct (index_of ">" (split_c "/" (s_string q1))) as [j|] eqn:Ej; [|discriminate].
    apply Nat.eqb_eq in Hix. subst j. exists q1, rest. split; [reflexivity | exact Ej].
  - rewrite forallb_forall in Hpl. apply Forall_forall. intros g Hg'. specialize (Hpl g Hg').
    unfold plain_glob in Hpl. apply negb_true_iff in Hpl. exact Hpl.
  - exact (star_okb_sound k _ _ qs Hst).
Qed.

End Last.

Print Assumptions get_last_greatest.
Print Assumptions get_last_empty_iff.
Print Assumptions get_last_greatest_numeric.
Print Assumptions get_last_greatestb.

(** * Candidates in terms of fields: "agrees with x on every field but the key" *)

Definition agree_but (k : string) (x e : sid) : Prop := forall k', k' <> k -> sid_get e k' = sid_get x k'.

Lemma dict_ext : forall (t1 t2 : dict string), map fst t1 = map fst t2 -> NoDup (map fst t1) ->
  (forall k', In k' (map fst t1) -> dget t1 k' = dget t2 k') -> t1 = t2.
Proof.
  induction t1 as [|[k1 v1] t1 IH]; intros [|[k2 v2] t2] Hf Hnd Hg; try discriminate; [reflexivity|].
  cbn [map fst] in Hf. injection Hf as <- Hf. cbn [map fst] in Hnd. inversion Hnd as [|? ? Hnin Hnd']; subst.
  pose proof (Hg k1 (or_introl eq_refl)) as H1. cbn [dget] in H1. rewrite String.eqb_refl in H1.
  inversion H1; subst v2. f_equal. apply IH; [exact Hf | exact Hnd'|].
  intros k' Hk'. specialize (Hg k' (or_intror Hk')). cbn [dget] in Hg.
  destruct (String.eqb k' k1) eqn:Ek; [|exact Hg].
  apply String.eqb_eq in Ek. subst k'. contradiction.
Qed.

Lemma fst_snd_eq {A B} : forall (t1 t2 : list (A * B)), map fst t1 = map fst t2 -> map snd t1 = map snd t2 -> t1 = t2.
Proof.
  induction t1 as [|[x1 y1] t1 IH]; intros [|[x2 y2] t2] Hf H1; try discriminate; [reflexivity|].
  cbn in Hf, H1. injection Hf as -> Hf. injection H1 as -> H1. f_equal. apply IH; assumption.
Qed.

Lemma fields_agree_but : forall pre (d1 d2 : dict string) post w v k,
  map fst d1 = map fst d2 -> NoDup (map fst d1) ->
  map snd d1 = pre ++ [w] ++ post -> map snd d2 = pre ++ [v] ++ post ->
  nth_error (map fst d1) (List.length pre) = Some k ->
  forall k', k' <> k -> dget d1 k' = dget d2 k'.
Proof.
  induction pre as [|a pre IH]; intros [|[k1 v1] t1] [|[k2 v2] t2] post w v k Hf Hnd H1 H2 Hk k' Hne;
    try discriminate; cbn [map fst snd app List.length nth_error] in *.
  - injection Hf as <- Hf. inversion Hk; subst k1. injection H1 as -> H1. injection H2 as -> H2.
    apply String.eqb_neq in Hne. cbn [dget]. rewrite Hne.
    rewrite (fst_snd_eq t1 t2 Hf (eq_trans H1 (eq_sym H2))). reflexivity.
  - injection Hf as <- Hf. injection H1 as -> H1. injection H2 as -> H2.
    inversion Hnd as [|? ? _ Hnd']; subst.
    cbn [dget]. destruct (String.eqb k' k1); [reflexivity|]. exact (IH t1 t2 post w v k Hf Hnd' H1 H2 Hk k' Hne).
Qed.

Lemma fields_agree_segs : forall pre (d1 d2 : dict string) post v k,
  map fst d1 = map fst d2 -> NoDup (map fst d1) ->
  map snd d2 = pre ++ [v] ++ post ->
  nth_error (map fst d1) (List.length pre) = Some k ->
  (forall k', k' <> k -> dget d1 k' = dget d2 k') ->
  exists w, map snd d1 = pre ++ [w] ++ post.
Proof.
  induction pre as [|a pre IH]; intros [|[k1 v1] t1] [|[k2 v2] t2] post v k Hf Hnd H2 Hk Hag;
    try discriminate; cbn [map fst snd app List.length nth_error] in *.
  - injection Hf as <- Hf. inversion Hk; subst k1. injection H2 as -> H2.
    apply NoDup_cons_iff in Hnd. destruct Hnd as (Hnin & Hnd'). exists v1. cbn [app]. f_equal. rewrite <- H2.
    assert (Et : t1 = t2); [|rewrite Et; reflexivity].
    apply dict_ext; [exact Hf | exact Hnd'|]. intros k' Hk'.
    assert (Hne : k' <> k) by (intros ->; contradiction).
    specialize (Hag k' Hne). cbn [dget] in Hag. apply String.eqb_neq in Hne. rewrite Hne in Hag. exact Hag.
  - injection Hf as <- Hf. injection H2 as -> H2. apply NoDup_cons_iff in Hnd. destruct Hnd as (Hnin & Hnd').
    assert (Hne1 : k1 <> k) by (intros ->; apply Hnin; exact (nth_error_In _ _ Hk)).
    pose proof (Hag k1 Hne1) as H1. cbn [dget] in H1. rewrite String.eqb_refl in H1. inversion H1; subst v1.
    destruct (IH t1 t2 post v k Hf Hnd' H2 Hk) as (w & Hw).
    + intros k' Hne. destruct (String.eqb k' k1) eqn:Ek.
      * apply String.eqb_eq in Ek. subst k'.
        rewrite (proj2 (dget_None_keys t1 k1) Hnin). symmetry. apply dget_None_keys. rewrite <- Hf. exact Hnin.
      * specialize (Hag k' Hne). cbn [dget] in Hag. rewrite Ek in Hag. exact Hag.
    + exists w. rewrite Hw. reflexivity.
Qed.

Section Fields.
Variables (c : Conf) (Ld : Loaded).
Hypothesis Hload : load c = Some Ld.
Hypothesis Hwf : wf_loadedb Ld = true.

(* for typed Sids of one type: same segments but at the position of k  <->  same fields but k *)
Theorem segments_iff_agree x e k pre v post :
  typed_search Ld x -> typed_search Ld e -> s_type e = s_type x ->
  split_c "/" (s_string x) = pre ++ [v] ++ post ->
  nth_error (map fst (s_fields x)) (List.length pre) = Some k ->
  ((exists w, split_c "/" (s_string e) = pre ++ [w] ++ post) <-> agree_but k x e).
Proof.
  intros Hx He Hty Hsx Hk.
  destruct (typed_parts c Ld Hload Hwf x Hx) as (tsx & _ & _ & Hfx & Hfstx & Hsndx & _).
  destruct (typed_parts c Ld Hload Hwf e He) as (tse & _ & _ & Hfe & Hfste & Hsnde & _ & _ & Hnd & _).
  rewrite Hty, Hfx in Hfe. inversion Hfe; subst tse.
  assert (Hkeys : map fst (s_fields e) = map fst (s_fields x)) by (rewrite Hfstx, Hfste; reflexivity).
  rewrite <- Hkeys in Hk. rewrite <- Hsndx in Hsx. rewrite <- Hsnde. unfold agree_but, sid_get. split.
  - intros (w & Hw). exact (fields_agree_but pre _ _ post w v k Hkeys Hnd Hw Hsx Hk).
  - intros Hag. exact (fields_agree_segs pre _ _ post v k Hkeys Hnd Hsx Hk Hag).
Qed.

End Fields.

Section LastFields.
Variables (c : Conf) (Ld : Loaded).
Hypothesis Hload : load c = Some Ld.
Hypothesis Hwf : wf_loadedb Ld = true.
Hypothesis Hpu : paths_unambiguousb Ld = true.
Variable cfg : string.
Variable E : list sid.
Variable F : fs.
Hypothesis HD : dataset_ok Ld cfg E F.
Variable Rt : Routing.
Variable id : string.

(** C18, in terms of fields, when the ">" search unfolds to searches of the type of x only:
    get_last(k) is the member of the data set of the type of x that agrees with x on every field but k and
    has the greatest value of k; the empty Sid iff no member of that type agrees with x on the other fields *)
Theorem get_last_spec_fields x k q0 qs pre v post y :
  naturally_typed Ld x -> sempty k = false ->
  split_c "/" (s_string x) = pre ++ [v] ++ post ->
  nth_error (map fst (s_fields x)) (List.length pre) = Some k ->
  get_with_kw Ld x [(k, Some ">")] = Ok q0 ->
  unfold_search Ld (s_string q0) false false = Ok qs ->
  routed_to Rt (FPaths id cfg) qs ->
  existsb has_gt qs = true ->
  (exists q1 rest, qs = q1 :: rest /\ index_of ">" (split_c "/" (s_string q1)) = Some (List.length pre)) ->
  Forall (fun g => glob_magic g = false) (pre ++ post) ->
  stars_ok Ld cfg k pre post qs ->
  (forall q, In q qs -> exists q', starred Ld q = Ok q' /\ s_type q' = s_type x) ->
  (forall e, In e E -> plain_member e) ->
  get_last Ld Rt F x (Some k) = Ok y ->
  (y = empty_sid /\ forall e, In e E -> s_type e = s_type x -> ~ agree_but k x e) \/
  (In y E /\ s_type y = s_type x /\ agree_but k x y /\
   exists wy, sid_get y k = Some wy /\
     forall e w, In e E -> s_type e = s_type x -> agree_but k x e -> sid_get e k = Some w ->
                 str_ltb wy w = false).
Proof.
  intros Hnat Hk Hsx Hkx Hq0 Hu Hrt Hgt Hix Hpl Hstars Htypes Hplain H.
  pose proof (nat_typed_search c Ld Hload Hwf x Hnat) as Hx.
  assert (Hne : s_fields x <> []).
  { destruct (typed_parts c Ld Hload Hwf x Hx) as (_ & _ & _ & _ & _ & _ & _ & Hne & _). exact Hne. }
  (* candidates = members of the type of x that agree with x but on k *)
  assert (Hcand : forall e, last_candidate Ld E qs pre post e <->
                            In e E /\ s_type e = s_type x /\ agree_but k x e).
  { intros e. split.
    - intros (He & Hw & q & q' & Hq & Eq & Hty). destruct (Htypes q Hq) as (q2 & Eq2 & Hty2).
      rewrite Eq in Eq2. inversion Eq2; subst q2. rewrite Hty2 in Hty.
      split; [exact He|]. split; [exact Hty|].
      apply (segments_iff_agree c Ld Hload Hwf x e k pre v post Hx
               (nat_typed_search c Ld Hload Hwf e (ds_nat _ _ _ _ HD e He)) Hty Hsx Hkx). exact Hw.
    - intros (He & Hty & Hag). split; [exact He|]. split.
      + apply (segments_iff_agree c Ld Hload Hwf x e k pre v post Hx
                 (nat_typed_search c Ld Hload Hwf e (ds_nat _ _ _ _ HD e He)) Hty Hsx Hkx). exact Hag.
      + destruct Hix as (q1 & rest & Hqs & _). assert (Hq1 : In q1 qs) by (rewrite Hqs; left; reflexivity).
        destruct (Htypes q1 Hq1) as (q' & Eq & Hty'). exists q1, q'.
        split; [exact Hq1|]. split; [exact Eq | congruence]. }
  destruct (get_last_greatest c Ld Hload Hwf Hpu cfg E F HD Rt id x k q0 qs pre post y
              Hk Hne Hq0 Hu Hrt Hgt Hix Hpl Hstars Hplain H)
    as [(Hy & Hnone) | (Hc & wy & Hwy & Hget & Hmax)].
  - left. split; [exact Hy|]. intros e He Hty Hag. apply (Hnone e). apply Hcand. repeat split; assumption.
  - right. destruct (proj1 (Hcand y) Hc) as (Hy & Hty & Hag).
    split; [exact Hy|]. split; [exact Hty|]. split; [exact Hag|]. exists wy. split; [exact Hget|].
    intros e w He Htye Hage Hgete.
    assert (Hce : last_candidate Ld E qs pre post e) by (apply Hcand; repeat split; assumption).
    pose proof Hce as (_ & (w' & Hw') & _).
    destruct (candidate_value c Ld Hload Hwf cfg E F HD k pre post qs Hstars e w' Hce Hw') as (Hg' & _).
    rewrite Hgete in Hg'. inversion Hg'; subst w'. exact (Hmax e w Hce Hw').
Qed.

End LastFields.

Print Assumptions segments_iff_agree.
Print Assumptions get_last_spec_fields.
