"""C01 typing of a string."""
import re
from harness.runner import PropBase, Case
from harness import gen

def seg_accepts(expr, seg):
    pat = expr if expr is not None else '[^/]*'
    return re.fullmatch(pat, seg) is not None      # whole segment, no "$" newline tolerance

def natural(vocab, body, forced=None):
    """The property statement: first template (configuration order) with as many placeholders as segments,
    every placeholder pattern accepting its whole segment."""
    segs = body.split('/')
    order = [forced] if forced is not None else vocab.order
    for t in order:
        if t not in vocab.types:
            return None
        keys = vocab.types[t]
        if len(keys) == len(segs) and all(seg_accepts(e, g) for (k, e), g in zip(keys, segs)):
            return t, [[k, g] for (k, e), g in zip(keys, segs)]
    return None

def expected_obs(vocab, s):
    if ':' in s:
        ty, body = s.split(':', 1)
        res = natural(vocab, body, forced=ty) if ty else natural(vocab, body)
    else:
        body = s
        res = natural(vocab, body)
    if body == '':
        res = None
    if res is None:
        return [body, '', []], '0', '0'
    return [body, res[0], res[1]], '1', str(len(res[1]))

class C01(PropBase):
    id = 'C01'
    rule = ('vocabulary-driven valid sids of every configured type (concrete and search), mutations (segments substituted / dropped / '
            'duplicated / swapped, empty segments, trailing "/" and control characters, uri prefixes with 0-3 ":"), junk of 0-12 segments; '
            'non-trivial = typed result or a mutation of a typed string; distinct by input string')
    def gen_strings(self, rng, ctx, n_valid, n_mut, n_junk):
        v = gen.vocab_from_ctx(ctx)
        out = []
        for t in v.order:
            for _ in range(max(1, n_valid // len(v.order))):
                out.append(('structured', v.sid(t, rng, search_p=rng.choice([0, 0, 0.2, 0.5]))))
        for _ in range(n_mut):
            s = v.sid(v.any_type(rng), rng, search_p=rng.choice([0, 0, 0.3]))
            for _ in range(rng.randint(1, 2)):
                s = gen.mutate_string(s, rng, v)
            out.append(('malformed', s))
        for _ in range(n_junk):
            out.append(('junk', gen.junk_string(rng)))
        # forced typing: right / wrong / unknown / empty type prefix, each also with control characters at the end
        for t in v.order:
            for _ in range(max(1, n_mut // (8 * len(v.order)))):
                s = v.sid(t, rng, search_p=rng.choice([0, 0, 0.3]))
                tail = rng.choice(['', '', '\n', '\r', '/', ' ', '\n\n', '\t'])
                ty = rng.choice([t, t, t, rng.choice(v.order), '', 'nosuch', t + ':' + t])
                out.append(('forced', ty + ':' + s + tail))
                out.append(('forced', s + tail))
        return out
    def cases(self, rng, ctx, tier):
        k = 1 if tier == 'quick' else 15
        strings = self.gen_strings(rng, ctx, 2500 * k, 2000 * k, 500 * k)
        out = [Case('obs', [['s', s]], stream) for stream, s in strings if '?' not in s]
        # typing is a function of the string alone: a string that several templates accept, built plainly after (and before) the
        # same string was built with another type forced, handed over as a Sid object and copied - in one process
        v = gen.vocab_from_ctx(ctx)
        seen = set()
        for t in v.order:
            for _ in range(60 * k):
                s = v.sid(t, rng, search_p=rng.choice([0, 0.5, 0.9]))
                if s in seen or any(ch in s for ch in ':?\n'):
                    continue
                acc = [tt for tt in v.order if natural(v, s, forced=tt)]
                if len(acc) < 2:
                    continue
                seen.add(s)
                t2 = rng.choice(acc[1:])
                steps = [['copy', [['s', t2 + ':' + s]]], ['sid', [['x', [s, t2, natural(v, s, forced=t2)[1]]]]], ['obs', [['s', s]]],
                         ['copy', [['s', acc[0] + ':' + s]]], ['obs', [['s', t2 + ':' + s]]], ['obs', [['s', s]]]]
                if rng.random() < 0.5:
                    steps = [['obs', [['s', s]]]] + steps
                out.append(Case('seq', steps, 'history', {'s': s}))
        # ... and after a caller assigned into the dictionary that .fields handed out: the next Sid built from the same string
        # (plain and uri form) is typed from the string, not from what the caller did to that dictionary
        for t in v.order:
            for _ in range(8 * k):
                s = v.sid(t, rng, search_p=rng.choice([0, 0, 0.5]))
                n = natural(v, s)
                if not n or any(ch in s for ch in ':?\n'):
                    continue
                keys = [kk for kk, _ in n[1]]
                steps = [['obs', [['s', s]]], ['fields_mutate', [['s', s], rng.choice(keys + ['foo']), rng.choice(['zzz', '*', 'rig'])]],
                         ['obs', [['s', s]]], ['obs', [['s', n[0] + ':' + s]]]]
                if rng.random() < 0.5:
                    steps = steps[1:]
                out.append(Case('seq', steps, 'history', {'s': s}))
        if tier != 'quick':
            # exhaustive: every string of <= 4 segments over a 9-word alphabet, with and without prefixes
            v = gen.vocab_from_ctx(ctx)
            words = ['hamlet', 'a', 's', 'char', '*', 'x', '', 'sq001', 'x\n']
            import itertools
            for n in range(1, 5):
                for segs in itertools.product(words, repeat=n):
                    s = '/'.join(segs)
                    out.append(Case('obs', [['s', s]], 'exhaustive'))
                    if n <= 3:
                        out.append(Case('obs', [['s', 'asset__assettype:' + s]], 'exhaustive'))
        return out
    def compare(self, case, model, impl):
        if model[:3] != impl[:3]:
            return 'type / fields / string / bool / len differ'
        if model != impl:
            return 'derived observations differ (uri, basetype, keytype, is_search, is_leaf, as_query)'
        return None
    def oracle(self, case, impl, ctx):
        if case.op == 'seq':
            v = gen.vocab_from_ctx(ctx)
            for (op, a), r in zip(case.args, impl):
                if op == 'obs':
                    s = a[0][1]
                    exp = expected_obs(v, s)
                    if not (isinstance(r, list) and len(r) > 2 and (r[0], r[1], r[2]) == (exp[0], exp[1], exp[2])):
                        return 'in the history %r: Sid(%r) gives %r, expected %r' % ([x[0] + ':' + str(x[1][0][1]) for x in case.args], s, r[:3] if isinstance(r, list) else r, exp)
            return None
        s = case.args[0][1]
        if '?' in s:
            return None
        if impl and impl[0] in ('raise-src', 'raise', 'worker-error'):
            return 'Sid(%r) failed: %r' % (s, impl)
        v = gen.vocab_from_ctx(ctx)
        exp = expected_obs(v, s)
        got = (impl[0], impl[1], impl[2])
        if (exp[0], exp[1], exp[2]) != got:
            return 'Sid(%r): expected (sid, bool, len) = %r, got %r' % (s, exp, got)
        return None
    def nontrivial(self, case, impl):
        if case.op == 'seq':
            return case.args
        if case.stream in ('structured', 'malformed', 'exhaustive', 'forced') or (isinstance(impl, list) and impl and isinstance(impl[0], list) and impl[0][1]):
            return case.args
        return None
    def histogram_key(self, case, impl):
        if case.op == 'seq':
            return 'history'
        try:
            ty = impl[0][1] or 'untyped'
        except Exception:
            ty = 'error'
        return '%s:%s:%dseg' % (case.stream, ty, case.args[0][1].count('/') + 1)

PROP = C01()
