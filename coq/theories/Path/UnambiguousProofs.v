(** C05, stages B-D: soundness of the check [paths_unambiguousb]: the path resolver reads the
    formatted path of a concrete Sid back to the type and fields of that Sid. *)
From Coq Require Import List String Ascii Bool Arith Lia Permutation.
From Spil Require Import Base.Str Base.Dict Base.Outcome Base.Tree Base.PyPath Base.StrProofs Base.SplitProofs
  Regex.Re Regex.MatchProofs Resolva.Template Resolva.Resolver Conf.ConfUtil Conf.Conf Conf.WF
  Sid.Query Sid.Sid Sid.TypingSpec Sid.TypingProofs Sid.SidLemmas Sid.SidProofs
  Path.PathProofs Path.ShapeProofs Path.UnambiguousDefs.
Import ListNotations.
Local Open Scope list_scope.

(** * Matching a sequence of regexes word by word *)

Inductive ML : list re -> list string -> caps -> Prop :=
| ML_nil : ML [] [] []
| ML_cons r l w ws c cs : Matches r w c -> ML l ws cs -> ML (r :: l) (w :: ws) (c ++ cs).

Fixpoint sconcat (ws : list string) : string :=
  match ws with [] => EmptyString | w :: t => (w ++ sconcat t)%string end.

Lemma seq_of_ML : forall l w c, Matches (seq_of l) w c -> exists ws, ML l ws c /\ w = sconcat ws.
Proof.
  induction l as [|x l IH]; intros w c M.
  - simpl in M. inversion M; subst. exists []. split; [constructor | reflexivity].
  - destruct l as [|y l].
    + simpl in M. exists [w]. split.
      * rewrite <- (app_nil_r c). constructor; [exact M | constructor].
      * simpl. rewrite app_nil_r_s. reflexivity.
    + change (seq_of (x :: y :: l)) with (Seq x (seq_of (y :: l))) in M.
      inversion M as [| | | r1 r2 w1 w2 c1 c2 M1 M2 | | | |]; subst.
      destruct (IH w2 c2 M2) as (ws & HL & ->).
      exists (w1 :: ws). split; [constructor; assumption | reflexivity].
Qed.

Lemma ML_seq_of : forall l ws c, ML l ws c -> Matches (seq_of l) (sconcat ws) c.
Proof.
  induction 1 as [|r l w ws c cs M HL IH].
  - simpl. constructor.
  - destruct l as [|y l].
    + inversion HL; subst. simpl. rewrite app_nil_r_s, app_nil_r. exact M.
    + change (seq_of (r :: y :: l)) with (Seq r (seq_of (y :: l))). simpl. constructor; assumption.
Qed.

Lemma chars_sconcat ws : chars (sconcat ws) = List.concat (map chars ws).
Proof. induction ws as [|w ws IH]; simpl; [reflexivity|]. rewrite chars_app, IH. reflexivity. Qed.

(** * One element *)

Definition elem_caps (e : elem) (w : string) : caps :=
  match e with ELit _ => [] | EPh _ g _ => [(g, w)] end.

Fixpoint caps_of (es : list elem) (ws : list string) : caps :=
  match es, ws with
  | e :: es', w :: ws' => elem_caps e w ++ caps_of es' ws'
  | _, _ => []
  end.

Lemma shapes_lit_atom a : shapes (lit_atom a) = Some [[lit_cls a]].
Proof. unfold lit_atom, lit_cls. destruct (Ascii.eqb a "."); reflexivity. Qed.

Lemma all_cls_notslash w : all_cls CNotSlash w <-> ~ In "/"%char (chars w).
Proof.
  split.
  - induction 1 as [|a s Ha _ IH]; simpl; [intros []|]. intros [E | E]; [|exact (IH E)].
    subst a. discriminate Ha.
  - induction w as [|a w IH]; simpl; intros H; constructor.
    + simpl. destruct (Ascii.eqb a "/") eqn:E; [|reflexivity]. apply Ascii.eqb_eq in E.
      exfalso. apply H. left. exact E.
    + apply IH. intros H'. apply H. right. exact H'.
Qed.

Lemma is_open_inv b : is_open b = true -> b = Star CNotSlash.
Proof. destruct b as [| | | | |c|]; try discriminate. destruct c; try discriminate. reflexivity. Qed.

Lemma elem_match_sound e s w c : sel_of e = Some s -> Matches (elem_re e) w c ->
  sel_lang s (chars w) /\ c = elem_caps e w.
Proof.
  destruct e as [a | n g b]; cbn [sel_of elem_re elem_caps]; intros Hs M.
  - inversion Hs; subst. destruct (shapes_sound _ _ _ M _ (shapes_lit_atom a)) as (-> & H).
    split; [exact H | reflexivity].
  - inversion M as [| | | | | | |? ? ? c0 M0]; subst.
    destruct (is_open b) eqn:Eo.
    + inversion Hs; subst. rewrite (is_open_inv b Eo) in M0.
      destruct (Matches_Star_inv _ _ _ M0) as (Ha & ->). split; [|reflexivity].
      apply all_cls_notslash. exact Ha.
    + destruct (shapes b) as [Sh|] eqn:Eb; [|discriminate]. inversion Hs; subst.
      destruct (shapes_sound _ _ _ M0 _ Eb) as (-> & H). split; [exact H | reflexivity].
Qed.

Lemma elem_match_complete e s w : sel_of e = Some s -> sel_lang s (chars w) ->
  Matches (elem_re e) w (elem_caps e w).
Proof.
  destruct e as [a | n g b]; cbn [sel_of elem_re elem_caps]; intros Hs H.
  - inversion Hs; subst. rewrite <- (string_of_list_ascii_of_string w).
    exact (shapes_complete _ _ (shapes_lit_atom a) _ H).
  - change [(g, w)] with ([] ++ [(g, w)]). constructor.
    destruct (is_open b) eqn:Eo.
    + inversion Hs; subst. rewrite (is_open_inv b Eo). constructor. apply all_cls_notslash. exact H.
    + destruct (shapes b) as [Sh|] eqn:Eb; [|discriminate]. inversion Hs; subst.
      rewrite <- (string_of_list_ascii_of_string w). exact (shapes_complete _ _ Eb _ H).
Qed.

(** * A list of elements *)

Lemma opt_all_cons {A} (x : option A) l r : opt_all (x :: l) = Some r ->
  exists a r', r = a :: r' /\ x = Some a /\ opt_all l = Some r'.
Proof.
  simpl. destruct x as [a|]; [|discriminate]. destruct (opt_all l) as [r'|]; [|discriminate].
  intros H. inversion H; subst. exists a, r'. auto.
Qed.

Lemma ML_Fact : forall es ss ws c, sels_of es = Some ss -> ML (map elem_re es) ws c ->
  Fact ss (map chars ws) /\ c = caps_of es ws.
Proof.
  induction es as [|e es IH]; intros ss ws c Hs M.
  - inversion Hs; subst. inversion M; subst. split; [constructor | reflexivity].
  - unfold sels_of in Hs. cbn [map] in Hs. destruct (opt_all_cons _ _ _ Hs) as (s & ss' & -> & He & Hs').
    cbn [map] in M. inversion M as [|? ? w ws1 c1 cs1 M1 ML1]; subst.
    destruct (elem_match_sound e s w c1 He M1) as (H1 & ->).
    destruct (IH ss' ws1 cs1 Hs' ML1) as (H2 & ->).
    split; [constructor; assumption | reflexivity].
Qed.

Lemma Fact_ML : forall es ss ws, sels_of es = Some ss -> Fact ss (map chars ws) ->
  ML (map elem_re es) ws (caps_of es ws).
Proof.
  induction es as [|e es IH]; intros ss ws Hs F.
  - inversion Hs; subst. destruct ws; [|inversion F]. constructor.
  - unfold sels_of in Hs. cbn [map] in Hs. destruct (opt_all_cons _ _ _ Hs) as (s & ss' & -> & He & Hs').
    destruct ws as [|w ws]; [inversion F|]. cbn [map] in F. inversion F as [|? ? ? ? H1 F1]; subst.
    cbn [map caps_of]. constructor; [exact (elem_match_complete e s w He H1) | exact (IH ss' ws Hs' F1)].
Qed.

(** * The anchored search on the own formatted string *)

Lemma at_dollar_nonl rest : at_dollar rest = true -> mem_c "010" rest = false -> rest = EmptyString.
Proof.
  intros H Hn. destruct (at_dollar_inv rest H) as [-> | ->]; [reflexivity | discriminate].
Qed.

Theorem search_own es ss ws :
  sels_of es = Some ss -> own_ok ss = true -> Fact ss (map chars ws) ->
  mem_c "010" (sconcat ws) = false ->
  search_anchored (seq_of (map elem_re es)) (sconcat ws) = Some (caps_of es ws).
Proof.
  intros Hs Hok F Hnl. unfold search_anchored.
  rewrite (m_unique' _ (sconcat ws) _ (sconcat ws) EmptyString (caps_of es ws)).
  - reflexivity.
  - rewrite app_nil_r_s. reflexivity.
  - apply ML_seq_of. exact (Fact_ML es ss ws Hs F).
  - intros w' s2' c' E M' Hk.
    destruct (at_dollar s2') eqn:Ed; [|congruence].
    assert (s2' = EmptyString).
    { apply (at_dollar_nonl s2' Ed). rewrite E, mem_c_app in Hnl. apply orb_false_iff in Hnl. apply Hnl. }
    subst s2'. rewrite app_nil_r_s in E. subst w'.
    destruct (seq_of_ML _ _ _ M') as (ws' & ML' & E').
    destruct (ML_Fact es ss ws' c' Hs ML') as (F' & ->).
    assert (Hw : map chars ws' = map chars ws).
    { apply (own_unique ss _ _ Hok F' F). rewrite <- !chars_sconcat, E'. reflexivity. }
    assert (ws' = ws).
    { clear -Hw. revert ws Hw. induction ws' as [|a l IH]; intros [|b m] H; simpl in H; try discriminate; [reflexivity|].
      injection H as H1 H2. rewrite (chars_inj _ _ H1), (IH m H2). reflexivity. }
    subst ws'. repeat split; reflexivity.
Qed.

Theorem search_other es' ss' cs ws :
  sels_of es' = Some ss' -> sepb ss' cs = true -> Fact cs (map chars ws) ->
  mem_c "010" (sconcat ws) = false ->
  search_anchored (seq_of (map elem_re es')) (sconcat ws) = None.
Proof.
  intros Hs Hsep F Hnl. unfold search_anchored. apply m_none. intros w s2 c E M.
  destruct (at_dollar s2) eqn:Ed; [|reflexivity]. exfalso.
  assert (s2 = EmptyString).
  { apply (at_dollar_nonl s2 Ed). rewrite E, mem_c_app in Hnl. apply orb_false_iff in Hnl. apply Hnl. }
  subst s2. rewrite app_nil_r_s in E. subst w.
  destruct (seq_of_ML _ _ _ M) as (ws' & ML' & E').
  destruct (ML_Fact es' ss' ws' c Hs ML') as (F' & _).
  apply (sepb_sound ss' cs _ _ Hsep F' F). rewrite <- !chars_sconcat, E'. reflexivity.
Qed.

(** * From the items of a template to its elements *)

Lemma atom_eqb_eq r1 r2 : atom_eqb r1 r2 = true -> r1 = r2.
Proof.
  destruct r1 as [| a | [] | | | |], r2 as [| b | [] | | | |]; simpl; try discriminate; try reflexivity.
  intros H. apply Ascii.eqb_eq in H. subst. reflexivity.
Qed.

Lemma atoms_eqb_eq : forall l1 l2, atoms_eqb l1 l2 = true -> l1 = l2.
Proof.
  induction l1 as [|x l1 IH]; intros [|y l2] H; simpl in H; try discriminate; [reflexivity|].
  apply andb_true_iff in H. destruct H as (H1 & H2). rewrite (atom_eqb_eq _ _ H1), (IH _ H2). reflexivity.
Qed.

Lemma lit_self t : lit_selfb t = true -> parse_lit (String.length t) t = Some (map lit_atom (chars t)).
Proof.
  unfold lit_selfb. destruct (parse_lit (String.length t) t) as [l|]; [|discriminate].
  intros H. rewrite (atoms_eqb_eq _ _ H). reflexivity.
Qed.

Lemma compile_elems : forall items seen es l,
  elems_of items seen = Some es -> compile_items items seen = Some l -> l = map elem_re es.
Proof.
  induction items as [|[t | n e] items IH]; intros seen es l He Hc.
  - inversion He; inversion Hc; subst. reflexivity.
  - cbn [elems_of] in He. cbn [compile_items] in Hc.
    destruct (lit_selfb t) eqn:Et; [|discriminate]. rewrite (lit_self t Et) in Hc.
    destruct (elems_of items seen) as [r|] eqn:Er; [|discriminate].
    destruct (compile_items items seen) as [lr|] eqn:Ec; [|discriminate].
    inversion He; inversion Hc; subst. rewrite map_app, map_map. cbn [elem_re].
    rewrite (IH seen r lr Er Ec). reflexivity.
  - cbn [elems_of] in He. cbn [compile_items] in Hc.
    destruct (Nat.leb 1000 (S (count_name n seen))); [discriminate|].
    fold (ph_re e) in Hc.
    destruct (ph_re e) as [b|]; [|discriminate].
    destruct (elems_of items (n :: seen)) as [r|] eqn:Er; [|discriminate].
    destruct (compile_items items (n :: seen)) as [lr|] eqn:Ec; [|discriminate].
    inversion He; inversion Hc; subst. cbn [map elem_re]. rewrite (IH _ r lr Er Ec). reflexivity.
Qed.

Definition eword (d : dict string) (e : elem) : string :=
  match e with
  | ELit a => str1 a
  | EPh n _ _ => match dget d n with Some v => v | None => EmptyString end
  end.

Definition ekeys (es : list elem) : list string :=
  flat_map (fun e => match e with EPh n _ _ => [n] | ELit _ => [] end) es.

Definition elem_wf (e : elem) : Prop :=
  match e with EPh n g _ => drop_last 3 g = n | ELit _ => True end.

Lemma sconcat_app a b : sconcat (a ++ b) = (sconcat a ++ sconcat b)%string.
Proof. induction a as [|x a IH]; simpl; [reflexivity|]. rewrite IH, app_assoc_s. reflexivity. Qed.

Lemma sconcat_chars d t : sconcat (map (eword d) (map ELit (chars t))) = t.
Proof. induction t as [|a t IH]; simpl; [reflexivity|]. rewrite IH. reflexivity. Qed.

Lemma fmt_elems d : forall items seen es f,
  elems_of items seen = Some es -> fmt items d = Ok f -> f = sconcat (map (eword d) es).
Proof.
  induction items as [|[t | n e] items IH]; intros seen es f He Hf.
  - inversion He; inversion Hf; subst. reflexivity.
  - cbn [elems_of] in He. cbn [fmt] in Hf.
    destruct (lit_selfb t); [|discriminate].
    destruct (elems_of items seen) as [r|] eqn:Er; [|discriminate]. inversion He; subst.
    destruct (fmt items d) as [fr|] eqn:Ef; [|discriminate]. cbn [bind] in Hf. inversion Hf; subst.
    rewrite map_app, sconcat_app, sconcat_chars, (IH seen r fr Er eq_refl). reflexivity.
  - cbn [elems_of] in He. cbn [fmt] in Hf.
    destruct (ph_re e) as [b|]; [|discriminate].
    destruct (elems_of items (n :: seen)) as [r|] eqn:Er; [|discriminate]. inversion He; subst.
    destruct (dget d n) as [v|] eqn:Ev; [|discriminate].
    destruct (fmt items d) as [fr|] eqn:Ef; [|discriminate]. cbn [bind] in Hf. inversion Hf; subst.
    cbn [map sconcat eword]. rewrite Ev, (IH _ r fr Er eq_refl). reflexivity.
Qed.

Lemma elems_keys : forall items seen es, elems_of items seen = Some es -> ekeys es = item_names items.
Proof.
  induction items as [|[t | n e] items IH]; intros seen es He.
  - inversion He; subst. reflexivity.
  - cbn [elems_of] in He. destruct (lit_selfb t); [|discriminate].
    destruct (elems_of items seen) as [r|] eqn:Er; [|discriminate]. inversion He; subst.
    unfold ekeys. rewrite flat_map_app. fold (ekeys r). rewrite (IH seen r Er), item_names_lit.
    assert (G : flat_map (fun e => match e with EPh n _ _ => [n] | ELit _ => [] end) (map ELit (chars t)) = []).
    { induction (chars t); simpl; auto. }
    rewrite G. reflexivity.
  - cbn [elems_of] in He. destruct (ph_re e) as [b|]; [|discriminate].
    destruct (elems_of items (n :: seen)) as [r|] eqn:Er; [|discriminate]. inversion He; subst.
    rewrite item_names_ph. unfold ekeys. simpl. fold (ekeys r). rewrite (IH _ r Er). reflexivity.
Qed.

Lemma elems_wf : forall items seen es, elems_of items seen = Some es -> Forall elem_wf es.
Proof.
  induction items as [|[t | n e] items IH]; intros seen es He.
  - inversion He; subst. constructor.
  - cbn [elems_of] in He. destruct (lit_selfb t); [|discriminate].
    destruct (elems_of items seen) as [r|] eqn:Er; [|discriminate]. inversion He; subst.
    apply Forall_app. split; [|exact (IH seen r Er)].
    clear. induction (chars t) as [|a l IHl]; simpl; [constructor | constructor; [exact I | exact IHl]].
  - cbn [elems_of] in He. destruct (ph_re e) as [b|]; [|discriminate].
    destruct (elems_of items (n :: seen)) as [r|] eqn:Er; [|discriminate]. inversion He; subst.
    constructor; [|exact (IH _ r Er)]. cbn [elem_wf].
    exact (drop_last_app n (pad3 (S (count_name n seen)))).
Qed.

(** * [match_to_dict] (with duplicate check) on the captures of the own words *)

Lemma dget_dset {V} (d : dict V) k v k' :
  dget (dset d k v) k' = if String.eqb k' k then Some v else dget d k'.
Proof.
  induction d as [|[k0 v0] d IH]; simpl.
  - reflexivity.
  - destruct (String.eqb k k0) eqn:E; simpl.
    + apply String.eqb_eq in E. subst k0. destruct (String.eqb k' k); reflexivity.
    + rewrite IH. destruct (String.eqb k' k0) eqn:E0; [|reflexivity].
      apply String.eqb_eq in E0. subst k0. rewrite String.eqb_sym, E. reflexivity.
Qed.

Lemma mtd_own (chk : bool) (d : dict string) : forall es data,
  Forall elem_wf es -> (forall n, In n (ekeys es) -> dget d n <> None) ->
  (forall k v, dget data k = Some v -> dget d k = Some v) ->
  exists d', match_to_dict_aux chk (caps_of es (map (eword d) es)) data = Ok d' /\
    forall k, dget d' k = if in_list k (ekeys es) then dget d k else dget data k.
Proof.
  induction es as [|[a | n g b] es IH]; intros data Hwf Hk Hc.
  - exists data. split; [reflexivity | intros k; reflexivity].
  - inversion Hwf; subst. cbn [map caps_of elem_caps app]. apply IH; auto.
  - inversion Hwf as [|? ? Hg Hwf']; subst. cbn [elem_wf] in Hg.
    cbn [map caps_of elem_caps app eword match_to_dict_aux]. rewrite Hg.
    destruct (dget d n) as [v|] eqn:Ev.
    2:{ exfalso. apply (Hk n); [left; reflexivity | exact Ev]. }
    assert (Hgo : exists d', match_to_dict_aux chk (caps_of es (map (eword d) es)) (dset data n v) = Ok d' /\
              forall k, dget d' k = if in_list k (ekeys es) then dget d k else dget (dset data n v) k).
    { apply IH; auto.
      - intros m Hm. apply Hk. right. exact Hm.
      - intros k v0. rewrite dget_dset. destruct (String.eqb k n) eqn:E.
        + apply String.eqb_eq in E. subst k. intros H. inversion H; subst. exact Ev.
        + apply Hc. }
    destruct Hgo as (d' & Hd' & Hspec).
    exists d'. split.
    + destruct (dget data n) as [old|] eqn:Eo; [|exact Hd'].
      rewrite (Hc n old Eo) in Ev. inversion Ev; subst. rewrite String.eqb_refl. cbn [negb]. rewrite andb_false_r. exact Hd'.
    + intros k. rewrite Hspec, dget_dset. unfold ekeys at 2. cbn [flat_map app]. fold (ekeys es).
      unfold in_list at 2. cbn [existsb]. fold (in_list k (ekeys es)).
      destruct (in_list k (ekeys es)); [rewrite orb_true_r; reflexivity|]. rewrite orb_false_r.
      destruct (String.eqb k n) eqn:E; [|reflexivity]. apply String.eqb_eq in E. subst k. symmetry. exact Ev.
Qed.

(** * The own words are a factorisation *)

Definition elem_val_ok (d : dict string) (e : elem) : Prop :=
  match e with
  | ELit _ => True
  | EPh n _ b => exists v, dget d n = Some v /\ val_ok v /\
        (is_open b = false -> forall Sh, shapes b = Some Sh -> in_shapes (conc Sh) (chars v))
  end.

Lemma in_conc Sh w : in_shapes (conc Sh) w -> in_shapes Sh w.
Proof. intros (sh & Hin & Hw). exists sh. split; [|exact Hw]. unfold conc in Hin. apply filter_In in Hin. apply Hin. Qed.

Lemma own_Fact_c d : forall es cs, csels_of es = Some cs -> Forall (elem_val_ok d) es ->
  Fact cs (map chars (map (eword d) es)).
Proof.
  induction es as [|e es IH]; intros cs Hc Hv.
  - inversion Hc; subst. constructor.
  - unfold csels_of in Hc. cbn [map] in Hc. destruct (opt_all_cons _ _ _ Hc) as (s & cs' & -> & He & Hc').
    inversion Hv as [|? ? Hv1 Hv2]; subst. cbn [map]. constructor; [|exact (IH cs' Hc' Hv2)].
    destruct e as [a | n g b]; cbn [csel_of eword] in *.
    + inversion He; subst. exists [CSet false [a]]. split; [left; reflexivity|].
      cbn [chars wm str1]. rewrite in_cls_single, Ascii.eqb_refl. reflexivity.
    + destruct Hv1 as (v & Ev & (_ & _ & Hsl & _) & Hsh). rewrite Ev.
      destruct (is_open b) eqn:Eo.
      * inversion He; subst. apply mem_c_chars. exact Hsl.
      * destruct (shapes b) as [Sh|] eqn:Eb; [|discriminate]. inversion He; subst. exact (Hsh eq_refl Sh eq_refl).
Qed.

Lemma own_Fact_s d : forall es ss, sels_of es = Some ss -> Forall (elem_val_ok d) es ->
  Fact ss (map chars (map (eword d) es)).
Proof.
  induction es as [|e es IH]; intros ss Hc Hv.
  - inversion Hc; subst. constructor.
  - unfold sels_of in Hc. cbn [map] in Hc. destruct (opt_all_cons _ _ _ Hc) as (s & ss' & -> & He & Hc').
    inversion Hv as [|? ? Hv1 Hv2]; subst. cbn [map]. constructor; [|exact (IH ss' Hc' Hv2)].
    destruct e as [a | n g b]; cbn [sel_of eword] in *.
    + inversion He; subst. exists [lit_cls a]. split; [left; reflexivity|].
      cbn [chars wm str1]. unfold lit_cls. destruct (Ascii.eqb a ".") eqn:Ea.
      * apply Ascii.eqb_eq in Ea. subst a. reflexivity.
      * rewrite in_cls_single, Ascii.eqb_refl. reflexivity.
    + destruct Hv1 as (v & Ev & (_ & _ & Hsl & _) & Hsh). rewrite Ev.
      destruct (is_open b) eqn:Eo.
      * inversion He; subst. apply mem_c_chars. exact Hsl.
      * destruct (shapes b) as [Sh|] eqn:Eb; [|discriminate]. inversion He; subst.
        apply in_conc. exact (Hsh eq_refl Sh eq_refl).
Qed.

Lemma own_nl d : forall es, forallb lit_nl_ok es = true -> Forall (elem_val_ok d) es ->
  mem_c "010" (sconcat (map (eword d) es)) = false.
Proof.
  induction es as [|e es IH]; intros Hl Hv; [reflexivity|].
  cbn [forallb] in Hl. apply andb_true_iff in Hl. destruct Hl as (Hl1 & Hl2).
  inversion Hv as [|? ? Hv1 Hv2]; subst. cbn [map sconcat]. rewrite mem_c_app, (IH Hl2 Hv2), orb_false_r.
  destruct e as [a | n g b]; cbn [eword lit_nl_ok] in *.
  - cbn [str1 mem_c]. rewrite orb_false_r. destruct (Ascii.eqb a "010"); [discriminate | reflexivity].
  - destruct Hv1 as (v & Ev & (_ & _ & _ & Hn) & _). rewrite Ev. exact Hn.
Qed.

(** * Stage B: the own template reads its formatted string back *)

Lemma tpl_re_elems t es : compile (tp_items t) = Some (tp_re t) -> tpl_elems t = Some es ->
  tp_re t = seq_of (map elem_re es).
Proof.
  unfold compile, tpl_elems. intros Hc He.
  destruct (compile_items (tp_items t) []) as [l|] eqn:El; [|discriminate].
  inversion Hc as [Hr]. rewrite (compile_elems _ _ _ _ He El). reflexivity.
Qed.

Lemma ekeys_val d : forall es, Forall (elem_val_ok d) es -> forall n, In n (ekeys es) -> dget d n <> None.
Proof.
  induction 1 as [|e es He _ IH]; intros n Hn; [destruct Hn|].
  unfold ekeys in Hn. cbn [flat_map] in Hn. apply in_app_or in Hn. destruct Hn as [Hn | Hn]; [|exact (IH n Hn)].
  destruct e as [a | n0 g b]; [destruct Hn|]. destruct Hn as [<- | []].
  destruct He as (v & Ev & _). rewrite Ev. discriminate.
Qed.

Theorem resolve_own pr t es ss d f :
  compile (tp_items t) = Some (tp_re t) -> tpl_elems t = Some es -> sels_of es = Some ss ->
  own_ok ss = true -> forallb lit_nl_ok es = true -> Forall (elem_val_ok d) es -> ekeys es <> [] ->
  fmt (tp_items t) d = Ok f ->
  exists d', resolve_tpl pr t f = Ok (Some d') /\
             forall k, dget d' k = if in_list k (ekeys es) then dget d k else None.
Proof.
  intros Hc He Hs Hok Hnl Hv Hne Hf.
  pose proof (fmt_elems d _ _ _ _ He Hf) as ->.
  unfold resolve_tpl. rewrite (tpl_re_elems t es Hc He).
  rewrite (search_own es ss _ Hs Hok (own_Fact_s d es ss Hs Hv) (own_nl d es Hnl Hv)).
  unfold match_to_dict.
  destruct (mtd_own (r_check_dup pr) d es [] (elems_wf _ _ _ He) (ekeys_val d es Hv)) as (d' & -> & Hspec).
  { intros k v H. discriminate H. }
  cbn [bind]. exists d'. split; [|exact Hspec].
  destruct d' as [|kv d']; [|reflexivity]. exfalso.
  destruct (ekeys es) as [|n l] eqn:En; [congruence|].
  specialize (Hspec n). cbn [dget] in Hspec. unfold in_list in Hspec. cbn [existsb] in Hspec.
  rewrite String.eqb_refl in Hspec. cbn [orb] in Hspec.
  apply (ekeys_val d es Hv n); [rewrite En; left; reflexivity | symmetry; exact Hspec].
Qed.

(** * Stage C: an earlier, separated template does not match *)

Theorem resolve_other pr t' es' ss' t es cs d f :
  compile (tp_items t') = Some (tp_re t') -> tpl_elems t' = Some es' -> sels_of es' = Some ss' ->
  tpl_elems t = Some es -> csels_of es = Some cs -> sepb ss' cs = true ->
  forallb lit_nl_ok es = true -> Forall (elem_val_ok d) es ->
  fmt (tp_items t) d = Ok f ->
  resolve_tpl pr t' f = Ok None.
Proof.
  intros Hc' He' Hs' He Hcs Hsep Hnl Hv Hf.
  pose proof (fmt_elems d _ _ _ _ He Hf) as ->.
  unfold resolve_tpl. rewrite (tpl_re_elems t' es' Hc' He').
  rewrite (search_other es' ss' cs _ Hs' Hsep (own_Fact_c d es cs Hcs Hv) (own_nl d es Hnl Hv)).
  reflexivity.
Qed.

(** * The resolver: first template, in order, that matches *)

Lemma tpl_ok_inv t : tpl_ok t = true ->
  exists es ss cs, tpl_elems t = Some es /\ sels_of es = Some ss /\ csels_of es = Some cs /\
    own_ok ss = true /\ forallb lit_nl_ok es = true /\ comps_ok es = true.
Proof.
  unfold tpl_ok. destruct (tpl_elems t) as [es|] eqn:E1; [|discriminate].
  destruct (sels_of es) as [ss|] eqn:E2; [|discriminate]. destruct (csels_of es) as [cs|] eqn:E3; [|discriminate].
  intros H. apply andb_true_iff in H. destruct H as (H & H3). apply andb_true_iff in H. destruct H as (H1 & H2).
  exists es, ss, cs. repeat split; try assumption; reflexivity.
Qed.

Lemma tpl_sep_inv t' t es cs : tpl_sep t' t = true -> tpl_elems t = Some es -> csels_of es = Some cs ->
  exists es' ss', tpl_elems t' = Some es' /\ sels_of es' = Some ss' /\ sepb ss' cs = true.
Proof.
  unfold tpl_sep. intros H He Hc. destruct (tpl_elems t') as [es'|] eqn:E1; [|discriminate]. rewrite He in H.
  destruct (sels_of es') as [ss'|] eqn:E2; [|discriminate]. rewrite Hc in H. exists es', ss'. repeat split; try assumption; reflexivity.
Qed.

Lemma earlier_sep_spec : forall l pre a t b, earlier_sep pre l = true -> l = a ++ t :: b ->
  forall t', In t' (pre ++ a) -> tpl_sep t' t = true.
Proof.
  induction l as [|x l IH]; intros pre a t b H E t' Hin.
  - destruct a; discriminate.
  - cbn [earlier_sep] in H. apply andb_true_iff in H. destruct H as (H1 & H2).
    destruct a as [|y a]; cbn [app] in E; injection E as -> E.
    + rewrite app_nil_r in Hin. rewrite forallb_forall in H1. exact (H1 t' Hin).
    + apply (IH (pre ++ [y]) a t b H2 E). rewrite <- app_assoc. exact Hin.
Qed.

Lemma find_split {A} (f : A -> bool) : forall l x, find f l = Some x ->
  exists a b, l = a ++ x :: b /\ forall y, In y a -> f y = false.
Proof.
  induction l as [|y l IH]; intros x H; [discriminate|]. cbn [find] in H.
  destruct (f y) eqn:E.
  - inversion H; subst. exists [], l. split; [reflexivity | intros ? []].
  - destruct (IH x H) as (a & b & -> & Ha). exists (y :: a), b. split; [reflexivity|].
    intros z [<- | Hz]; [exact E | exact (Ha z Hz)].
Qed.

Lemma resolve_first_in_skip pr s t d' : forall a b,
  (forall t', In t' a -> resolve_tpl pr t' s = Ok None) -> resolve_tpl pr t s = Ok (Some d') ->
  resolve_first_in pr (a ++ t :: b) s = Ok (Some (tp_name t, d')).
Proof.
  induction a as [|x a IH]; intros b Ha Ht; cbn [app resolve_first_in].
  - rewrite Ht. reflexivity.
  - rewrite (Ha x (or_introl eq_refl)). cbn [bind]. apply IH; [|exact Ht]. intros t' H. apply Ha. right. exact H.
Qed.

Theorem resolve_first_own pr ty tp es d f :
  (forall t, In t (r_tpls pr) -> compile (tp_items t) = Some (tp_re t)) ->
  forallb tpl_ok (r_tpls pr) = true -> earlier_sep [] (r_tpls pr) = true ->
  find_tpl pr ty = Some tp -> tpl_elems tp = Some es ->
  Forall (elem_val_ok d) es -> ekeys es <> [] -> fmt (tp_items tp) d = Ok f -> f <> EmptyString ->
  exists d', resolve_tpl pr tp f = Ok (Some d') /\
             resolve_first pr f = Ok (Some (tp_name tp, d')) /\
             forall k, dget d' k = if in_list k (ekeys es) then dget d k else None.
Proof.
  intros Hcomp Hok Hsep Hfind He Hv Hne Hf Hfne.
  unfold find_tpl in Hfind. destruct (find_split _ _ _ Hfind) as (a & b & El & _).
  rewrite forallb_forall in Hok.
  assert (Hin : In tp (r_tpls pr)) by (rewrite El; apply in_elt).
  destruct (tpl_ok_inv tp (Hok tp Hin)) as (es0 & ss & cs & He0 & Hs & Hc & Hown & Hnl & _).
  rewrite He in He0. inversion He0; subst es0.
  destruct (resolve_own pr tp es ss d f (Hcomp tp Hin) He Hs Hown Hnl Hv Hne Hf) as (d' & Hr & Hspec).
  exists d'. split; [exact Hr|]. split; [|exact Hspec].
  unfold resolve_first. apply sempty_false in Hfne. rewrite Hfne, El.
  apply resolve_first_in_skip; [|exact Hr]. intros t' Ht'.
  assert (Hin' : In t' (r_tpls pr)) by (rewrite El; apply in_or_app; left; exact Ht').
  pose proof (earlier_sep_spec _ [] a tp b Hsep El t' Ht') as Hsp.
  destruct (tpl_sep_inv t' tp es cs Hsp He Hc) as (es' & ss' & He' & Hs' & Hsb).
  exact (resolve_other pr t' es' ss' tp es cs d f (Hcomp t' Hin') He' Hs' He Hc Hsb Hnl Hv Hf).
Qed.

(** * pathlib leaves the formatted path unchanged *)

Lemma norm_path_fixed rel : Forall part_ok (split_c "/" rel) ->
  norm_path (String "/" rel) = String "/" rel.
Proof.
  intros H. unfold norm_path, path_parts. cbn [sempty].
  assert (Hj : join "/" (split_c "/" rel) = rel) by exact (join_split_c "/" rel).
  assert (Hh : noslash_head rel) by (rewrite <- Hj; apply join_parts_head; exact H).
  rewrite (splitroot_1 rel Hh). fold keep_part. rewrite (filter_keep_all _ H).
  unfold format_parts. rewrite Hj. reflexivity.
Qed.

Lemma split_c_prepend c s : forall w, mem_c c w = false ->
  split_c c (w ++ s)%string = match split_c c s with h :: r => (w ++ h)%string :: r | [] => [w] end.
Proof.
  induction w as [|a w IH]; intros Hm.
  - cbn [append]. destruct (split_c c s) as [|h r] eqn:E; [exfalso; exact (split_c_not_nil c s E) | reflexivity].
  - cbn [mem_c] in Hm. apply orb_false_iff in Hm. destruct Hm as (Ha & Hm).
    cbn [append split_c]. rewrite Ha, (IH Hm).
    destruct (split_c c s) as [|h r] eqn:E; [exfalso; exact (split_c_not_nil c s E) | reflexivity].
Qed.

Lemma split_at_not_nil {A} (f : A -> bool) l : split_at f l <> [].
Proof. destruct l as [|x l]; simpl; [discriminate|]. destruct (f x); [discriminate|]. destruct (split_at f l); discriminate. Qed.

Lemma split_at_In {A} (f : A -> bool) : forall l c x, In c (split_at f l) -> In x c -> f x = false /\ In x l.
Proof.
  induction l as [|y l IH]; intros c x Hc Hx; cbn [split_at] in Hc.
  - destruct Hc as [<- | []]. destruct Hx.
  - destruct (f y) eqn:E.
    + destruct Hc as [<- | Hc]; [destruct Hx|]. destruct (IH c x Hc Hx) as (H1 & H2). split; [exact H1 | right; exact H2].
    + destruct (split_at f l) as [|h r] eqn:Es; [exfalso; exact (split_at_not_nil f l Es)|].
      destruct Hc as [<- | Hc].
      * destruct Hx as [<- | Hx]; [split; [exact E | left; reflexivity]|].
        destruct (IH h x (or_introl eq_refl) Hx) as (H1 & H2). split; [exact H1 | right; exact H2].
      * destruct (IH c x (or_intror Hc) Hx) as (H1 & H2). split; [exact H1 | right; exact H2].
Qed.

Definition cword (d : dict string) (c : list elem) : string := sconcat (map (eword d) c).

Lemma is_sl_word d e : is_sl e = true -> eword d e = "/"%string.
Proof. destruct e as [a|]; [|discriminate]. cbn [is_sl eword]. intros H. apply Ascii.eqb_eq in H. subst a. reflexivity. Qed.

Lemma word_noslash d e : elem_val_ok d e -> is_sl e = false -> mem_c "/" (eword d e) = false.
Proof.
  destruct e as [a | n g b]; cbn [is_sl eword elem_val_ok].
  - intros _ H. cbn [str1 mem_c]. rewrite H. reflexivity.
  - intros (v & -> & (_ & _ & H & _) & _) _. exact H.
Qed.

Lemma split_words d : forall es, Forall (elem_val_ok d) es ->
  split_c "/" (cword d es) = map (cword d) (split_at is_sl es).
Proof.
  induction es as [|e es IH]; intros Hv; [reflexivity|].
  inversion Hv as [|? ? Hv1 Hv2]; subst. unfold cword. cbn [map sconcat split_at]. fold (cword d es).
  destruct (is_sl e) eqn:E.
  - rewrite (is_sl_word d e E). cbn [append split_c]. rewrite (IH Hv2). reflexivity.
  - rewrite (split_c_prepend "/" _ _ (word_noslash d e Hv1 E)), (IH Hv2).
    destruct (split_at is_sl es) as [|h r] eqn:Es; [exfalso; exact (split_at_not_nil _ _ Es)|]. reflexivity.
Qed.

Lemma word_len d e : elem_val_ok d e -> 1 <= String.length (eword d e).
Proof.
  destruct e as [a | n g b]; cbn [eword elem_val_ok]; [simpl; lia|].
  intros (v & -> & (H & _) & _). destruct v; [congruence | simpl; lia].
Qed.

Lemma cword_noslash d : forall c, (forall x, In x c -> elem_val_ok d x /\ is_sl x = false) ->
  mem_c "/" (cword d c) = false.
Proof.
  induction c as [|e c IH]; intros H; [reflexivity|]. unfold cword. cbn [map sconcat]. fold (cword d c).
  destruct (H e (or_introl eq_refl)) as (H1 & H2).
  rewrite mem_c_app, (word_noslash d e H1 H2), IH; [reflexivity|]. intros x Hx. apply H. right. exact Hx.
Qed.

Lemma comp_part_ok d c : comp_ok c = true -> (forall x, In x c -> elem_val_ok d x /\ is_sl x = false) ->
  part_ok (cword d c).
Proof.
  intros Hc H. pose proof (cword_noslash d c H) as Hns.
  destruct c as [|e1 [|e2 r]]; [discriminate| |].
  - destruct (H e1 (or_introl eq_refl)) as (H1 & H2). unfold cword in *. cbn [map sconcat] in *.
    rewrite app_nil_r_s in *. destruct e1 as [a | n g b].
    + cbn [eword comp_ok] in *. repeat split; [discriminate | | exact Hns].
      intros E. inversion E; subst. discriminate Hc.
    + cbn [eword elem_val_ok] in *. destruct H1 as (v & -> & (Ha & Hb & Hc2 & _) & _). split; [exact Ha | split; [exact Hb | exact Hc2]].
  - destruct (H e1 (or_introl eq_refl)) as (H1 & _). destruct (H e2 (or_intror (or_introl eq_refl))) as (H2 & _).
    pose proof (word_len d e1 H1) as L1. pose proof (word_len d e2 H2) as L2.
    assert (L : 2 <= String.length (cword d (e1 :: e2 :: r))).
    { unfold cword. cbn [map sconcat]. rewrite !length_app_s. lia. }
    repeat split; [| | exact Hns]; intros E; rewrite E in L; simpl in L; lia.
Qed.

Theorem own_norm d es : comps_ok es = true -> Forall (elem_val_ok d) es ->
  norm_path (cword d es) = cword d es /\ cword d es <> EmptyString.
Proof.
  unfold comps_ok. intros Hc Hv.
  destruct es as [|e1 es1]; [discriminate|]. cbn [split_at] in Hc.
  destruct (is_sl e1) eqn:E1.
  2:{ destruct (split_at is_sl es1) as [|h r]; discriminate. }
  destruct (split_at is_sl es1) as [|c cs] eqn:Es; [discriminate|].
  inversion Hv as [|? ? Hv1 Hv2]; subst.
  unfold cword. cbn [map sconcat]. fold (cword d es1). rewrite (is_sl_word d e1 E1). cbn [append].
  split; [|discriminate]. apply norm_path_fixed. rewrite (split_words d es1 Hv2), Es.
  rewrite forallb_forall in Hc. apply Forall_forall. intros x Hx. apply in_map_iff in Hx.
  destruct Hx as (c0 & <- & Hc0). apply comp_part_ok; [exact (Hc c0 Hc0)|].
  intros y Hy. rewrite <- Es in Hc0. destruct (split_at_In is_sl es1 c0 y Hc0 Hy) as (G1 & G2).
  split; [|exact G1]. rewrite Forall_forall in Hv2. exact (Hv2 y G2).
Qed.

(** * Stage D: the value mapping and its inverse *)

Lemma val_okb_ok v : val_okb v = true -> val_ok v.
Proof.
  unfold val_okb, val_ok. intros H. apply andb_true_iff in H. destruct H as (H & H4).
  apply andb_true_iff in H. destruct H as (H & H3). apply andb_true_iff in H. destruct H as (H1 & H2).
  repeat split.
  - intros ->. discriminate H1.
  - intros ->. discriminate H2.
  - destruct (mem_c "/" v); [discriminate H3 | reflexivity].
  - destruct (mem_c "010" v); [discriminate H4 | reflexivity].
Qed.

Lemma get_key_cases m v : get_key m v = v \/ exists v0, In (get_key m v, v0) m.
Proof.
  unfold get_key. destruct (find (fun kv => String.eqb (snd kv) v) m) as [[k0 v0]|] eqn:E; [|left; reflexivity].
  right. exists v0. exact (proj1 (find_some _ _ E)).
Qed.

Lemma get_key_in m v : In v (map snd m) -> In (get_key m v, v) m.
Proof.
  intros Hin. unfold get_key. destruct (find (fun kv => String.eqb (snd kv) v) m) as [[k0 v0]|] eqn:E.
  - destruct (find_some _ _ E) as (H1 & H2). cbn [snd] in H2. apply String.eqb_eq in H2. subst v0. exact H1.
  - exfalso. apply in_map_iff in Hin. destruct Hin as ([k1 v1] & <- & H1).
    pose proof (find_none _ _ E _ H1) as H2. cbn [snd] in H2. rewrite String.eqb_refl in H2. discriminate.
Qed.

Lemma mapping_ok_inv mp k m : mapping_ok mp = true -> dget mp k = Some m ->
  NoDup (map fst m) /\ forall k0 v0, In (k0, v0) m -> val_ok k0.
Proof.
  unfold mapping_ok. rewrite forallb_forall. intros H Hd. apply dget_Some_In in Hd.
  specialize (H _ Hd). cbn [snd] in H. apply andb_true_iff in H. destruct H as (H1 & H2).
  split; [apply nodupb_NoDup; exact H1|]. rewrite forallb_forall in H2.
  intros k0 v0 Hin. apply val_okb_ok. exact (H2 _ Hin).
Qed.

Lemma pm_val_ok mp k v : mapping_ok mp = true -> val_ok v -> val_ok (pm mp k v).
Proof.
  intros Hm Hv. unfold pm. destruct (dget mp k) as [[|p m]|] eqn:E; try exact Hv.
  destruct (mapping_ok_inv mp k _ Hm E) as (_ & Hk).
  destruct (get_key_cases (p :: m) v) as [-> | (v0 & Hin)]; [exact Hv | exact (Hk _ _ Hin)].
Qed.

Lemma map_in_pm mp k v : mapping_ok mp = true ->
  (forall m, dget mp k = Some m -> m <> [] -> In v (map snd m)) ->
  map_in mp k (pm mp k v) = v.
Proof.
  intros Hm Hr. unfold map_in, pm. destruct (dget mp k) as [[|p m]|] eqn:E; try reflexivity.
  destruct (mapping_ok_inv mp k _ Hm E) as (Hnd & _).
  assert (Hin : In v (map snd (p :: m))) by (apply Hr; [reflexivity | discriminate]).
  rewrite (dget_In (p :: m) _ v Hnd (get_key_in _ _ Hin)). reflexivity.
Qed.

Lemma dget_map_val (g : string -> string -> string) : forall (d : dict string) k,
  dget (map (fun kv => (fst kv, g (fst kv) (snd kv))) d) k = option_map (g k) (dget d k).
Proof.
  induction d as [|[k0 v0] d IH]; intros k; [reflexivity|]. cbn [map dget fst snd].
  destruct (String.eqb k k0) eqn:E; [|apply IH]. apply String.eqb_eq in E. subst k0. reflexivity.
Qed.

Lemma ordered_eq (data : dict string) keys : NoDup (map fst data) ->
  filter (fun k => in_list k (map fst data)) keys = map fst data ->
  flat_map (fun k => match dget data k with Some v => [(k, v)] | None => [] end) keys = data.
Proof.
  intros Hnd Hf.
  set (F := fun k => match dget data k with Some v => [(k, v)] | None => [] end).
  assert (S1 : flat_map F keys = flat_map F (filter (fun k => in_list k (map fst data)) keys)).
  { clear Hf. induction keys as [|k keys IH]; [reflexivity|]. cbn [flat_map filter].
    destruct (in_list k (map fst data)) eqn:E; cbn [flat_map]; rewrite IH; [reflexivity|].
    apply in_list_false in E. apply dget_None_keys in E. unfold F at 1. rewrite E. reflexivity. }
  rewrite S1, Hf.
  assert (S2 : forall l, (forall kv, In kv l -> dget data (fst kv) = Some (snd kv)) -> flat_map F (map fst l) = l).
  { induction l as [|[k v] l IH]; intros H; [reflexivity|]. cbn [map flat_map fst].
    pose proof (H (k, v) (or_introl eq_refl)) as Hk. cbn [fst snd] in Hk.
    unfold F at 1. rewrite Hk. cbn [app]. rewrite IH; [reflexivity|].
    intros kv Hkv. apply H. right. exact Hkv. }
  apply S2. intros [k v] Hin. apply (dget_In data k v Hnd Hin).
Qed.

(** * Stage D: what a successful [dict_to_path] computed *)

Definition pdata (mp : list (string * list (string * string))) (data : dict string) : dict string :=
  map (fun kv => (fst kv, pm mp (fst kv) (snd kv))) data.

Lemma d1_same (defaults : list (string * string)) (data : dict string) :
  Forall (fun kv => val_ok (snd kv)) data ->
  map (fun kv => match dget defaults (fst kv) with
                 | Some dv => if negb (truthy (snd kv)) && truthy dv then (fst kv, dv) else kv
                 | None => kv end) data = data.
Proof.
  induction 1 as [|[k v] data (Hv & _) _ IH]; [reflexivity|]. cbn [map fst snd]. rewrite IH.
  cbn [snd] in Hv. destruct (dget defaults k); [|reflexivity].
  destruct v; [congruence | reflexivity].
Qed.

Lemma d2_same (mp : list (string * list (string * string))) (data : dict string) :
  Forall (fun kv => val_ok (snd kv)) data ->
  map (fun kv => match dget mp (fst kv) with
                 | Some ((_ :: _) as m) => if truthy (snd kv) then (fst kv, get_key m (snd kv)) else kv
                 | _ => kv end) data = pdata mp data.
Proof.
  unfold pdata. induction 1 as [|[k v] data (Hv & _) _ IH]; [reflexivity|]. cbn [map fst snd]. rewrite IH.
  cbn [snd] in Hv. f_equal. unfold pm. destruct (dget mp k) as [[|p m]|]; try reflexivity.
  destruct v; [congruence | reflexivity].
Qed.

Lemma d3_same (defaults : list (string * string)) (d2 : dict string) : forall keys,
  (forall k, In k keys -> In k (dkeys d2)) ->
  fold_left (fun d k => match dget defaults k with
                        | Some dv => if negb (dmem d k) && truthy dv then dset d k dv else d
                        | None => d end) keys d2 = d2.
Proof.
  induction keys as [|k keys IH]; intros H; [reflexivity|]. cbn [fold_left].
  assert (Hm : dmem d2 k = true).
  { unfold dmem. destruct (dget d2 k) eqn:E; [reflexivity|]. exfalso.
    apply dget_None_keys in E. apply E. apply (H k). left. reflexivity. }
  rewrite Hm. cbn [negb andb]. destruct (dget defaults k); apply IH; intros k' Hk'; apply H; right; exact Hk'.
Qed.

Lemma dkeys_pdata mp data : dkeys (pdata mp data) = dkeys data.
Proof. unfold pdata, dkeys. rewrite map_map. reflexivity. Qed.

Lemma dict_to_path_inv Ld (data : dict string) ty cfg pc p :
  data <> [] -> ty <> EmptyString -> Forall (fun kv => val_ok (snd kv)) data ->
  get_path_config Ld cfg = Ok pc -> dict_to_path Ld data ty cfg = Ok p ->
  exists tp, find_tpl (lp_resolver pc) ty = Some tp /\ tp_keys tp <> [] /\
    ((forall k, In k (tp_keys tp) -> In k (dkeys data)) ->
     exists path, fmt (tp_items tp) (pdata (pc_mapping (lp_conf pc)) data) = Ok path /\ p = norm_path path).
Proof.
  intros Hne Hty Hv Hpc. unfold dict_to_path. destruct data as [|kv0 data0] eqn:Ed; [congruence|].
  rewrite <- Ed in *. clear Hne. rewrite Hpc. cbn [bind]. apply sempty_false in Hty. rewrite Hty. cbn [bind].
  destruct (find_tpl (lp_resolver pc) ty) as [tp|]; [|discriminate].
  destruct (tp_keys tp) as [|k0 ks] eqn:Ek; [discriminate|]. rewrite <- Ek.
  rewrite (d1_same _ data Hv), (d2_same _ data Hv).
  intros H. exists tp. split; [reflexivity|]. split; [rewrite Ek; discriminate|].
  intros Hincl. rewrite d3_same in H by (rewrite dkeys_pdata; exact Hincl).
  destruct (negb (keys_eq _ _)); [discriminate|].
  destruct (fmt (tp_items tp) _) as [path|]; [|discriminate]. cbn [bind] in H.
  destruct (format_one _ _ _) as [[p'|]|]; try discriminate. cbn [bind] in H.
  destruct (String.eqb p' path); [|discriminate]. inversion H. exists path. split; reflexivity.
Qed.

Lemma load_path_compile c Ld : load c = Some Ld ->
  forall lp, In lp (l_paths Ld) ->
  forall t, In t (r_tpls (lp_resolver lp)) -> compile (tp_items t) = Some (tp_re t).
Proof.
  unfold load. destruct (mk_resolver (load_sid_templates c) false) as [r|]; [|discriminate].
  destruct (Tree.opt_all (map load_path (c_path_confs c))) as [ps|] eqn:Eo; [|discriminate].
  intros H. inversion H; subst. cbn [l_paths]. intros lp Hlp.
  pose proof (opt_all_In _ _ Eo lp Hlp) as Hin. apply in_map_iff in Hin. destruct Hin as (pcf & Hl & _).
  unfold load_path, mk_resolver in Hl.
  destruct (mk_tpls (load_path_templates pcf)) as [ts|] eqn:Et; [|discriminate].
  inversion Hl; subst. cbn [lp_resolver r_tpls]. apply (mk_tpls_compile _ _ Et).
Qed.

Lemma uniq_first_aux_incl x : forall l seen, In x (uniq_first_aux seen l) -> In x l.
Proof.
  induction l as [|a l IH]; intros seen H; cbn [uniq_first_aux] in H; [destruct H|].
  destruct (in_list a seen); [right; exact (IH _ H)|].
  destruct H as [<- | H]; [left; reflexivity | right; exact (IH _ H)].
Qed.

Lemma tkeys_incl items n : In n (tkeys items) -> In n (item_names items).
Proof. apply uniq_first_aux_incl. Qed.

Lemma dict_to_path_config Ld data ty cfg p : dict_to_path Ld data ty cfg = Ok p ->
  exists pc, get_path_config Ld cfg = Ok pc.
Proof.
  unfold dict_to_path. destruct data; [discriminate|].
  destruct (get_path_config Ld cfg) as [pc|e]; [eexists; reflexivity | discriminate].
Qed.

Lemma resolve_tpl_some_ne pr t s d : resolve_tpl pr t s = Ok (Some d) -> d <> [].
Proof.
  unfold resolve_tpl. destruct (search_anchored (tp_re t) s); [|discriminate].
  destruct (match_to_dict _ _) as [d0|]; [|discriminate]. cbn [bind].
  destruct d0; [discriminate|]. intros H. inversion H. discriminate.
Qed.

(* corollary (a): the reverse check of [dict_to_path] succeeds (no ResolvaException) *)
Lemma format_one_own pr ty tp d f d' : d <> [] ->
  find_tpl pr ty = Some tp -> keys_eq (dkeys d) (tp_keys tp) = true ->
  fmt (tp_items tp) d = Ok f -> f <> EmptyString -> resolve_tpl pr tp f = Ok (Some d') ->
  format_one pr d ty = Ok (Some f).
Proof.
  intros Hd Hfind Hk Hf Hne Hr. unfold format_one. destruct d as [|kv d]; [congruence|].
  rewrite Hfind. unfold format_tpl. rewrite Hk. cbn [negb]. rewrite Hf. cbn [bind].
  unfold resolve_one. apply sempty_false in Hne. rewrite Hne.
  assert (Hn : find_tpl pr (tp_name tp) = Some tp).
  { unfold find_tpl in *. destruct (find_some _ _ Hfind) as (_ & E). apply String.eqb_eq in E. rewrite E. exact Hfind. }
  rewrite Hn, Hr. cbn [bind]. pose proof (resolve_tpl_some_ne _ _ _ _ Hr) as Hd'.
  destruct d'; [congruence | reflexivity].
Qed.

(** * Stage D: assembling *)

Section Main.
Variables (c : Conf) (Ld : Loaded).
Hypothesis Hload : load c = Some Ld.
Hypothesis Hwf : wf_loadedb Ld = true.
Hypothesis Hpu : paths_unambiguousb Ld = true.

Lemma path_conf_parts lp : In lp (l_paths Ld) ->
  forallb tpl_ok (r_tpls (lp_resolver lp)) = true /\ earlier_sep [] (r_tpls (lp_resolver lp)) = true /\
  mapping_ok (pc_mapping (lp_conf lp)) = true /\ forallb (tpl_keys_ok Ld) (r_tpls (lp_resolver lp)) = true.
Proof.
  intros Hin. unfold paths_unambiguousb in Hpu. rewrite forallb_forall in Hpu. specialize (Hpu lp Hin).
  unfold path_conf_ok in Hpu. apply andb_true_iff in Hpu. destruct Hpu as (H & H4).
  apply andb_true_iff in H. destruct H as (H & H3). apply andb_true_iff in H. destruct H as (H1 & H2).
  repeat split; assumption.
Qed.

(* the sid template of a naturally typed Sid, and what the keys clause says about the path template *)
Lemma keys_facts x lp tp : naturally_typed Ld x -> In lp (l_paths Ld) ->
  find_tpl (lp_resolver lp) (s_type x) = Some tp ->
  NoDup (map fst (s_fields x)) /\
  (forall k, In k (item_names (tp_items tp)) <-> In k (map fst (s_fields x))) /\
  exists keys, dget (c_key_types (l_conf Ld)) (basetype_of Ld (s_type x)) = Some keys /\
    filter (fun k => in_list k (map fst (s_fields x))) keys = map fst (s_fields x).
Proof.
  intros Hnat Hlp Hfind. split; [exact (nat_nodup Ld Hwf x Hnat)|].
  destruct (natural_canonical c Ld Hload Hwf _ _ _ Hnat) as (ts & Hts & Hnames & _).
  destruct (path_conf_parts lp Hlp) as (_ & _ & _ & Hk). rewrite forallb_forall in Hk.
  unfold find_tpl in Hfind. destruct (find_some _ _ Hfind) as (Hin & En). apply String.eqb_eq in En.
  specialize (Hk tp Hin). unfold tpl_keys_ok in Hk. rewrite En, Hts in Hk.
  apply andb_true_iff in Hk. destruct Hk as (Hk1 & Hk2). rewrite Hnames.
  apply keys_eq_iff in Hk1. destruct Hk1 as (Ha & Hb). split.
  - intros k. split; [apply Ha | apply Hb].
  - unfold basetype_of. destruct (dget (c_key_types (l_conf Ld)) _) as [keys|]; [|discriminate].
    exists keys. split; [reflexivity|]. apply strs_eqb_eq. exact Hk2.
Qed.

Lemma in_ekeys n g b es : In (EPh n g b) es -> In n (ekeys es).
Proof. intros H. unfold ekeys. apply in_flat_map. exists (EPh n g b). split; [exact H | left; reflexivity]. Qed.

Lemma own_read x cfg p :
  naturally_typed Ld x -> concrete Ld x -> path_values_ok x -> sid_path Ld x cfg = Ok (Some p) ->
  exists pc tp es d', get_path_config Ld cfg = Ok pc /\ In pc (l_paths Ld) /\
    find_tpl (lp_resolver pc) (s_type x) = Some tp /\ tpl_elems tp = Some es /\
    ekeys es = item_names (tp_items tp) /\
    fmt (tp_items tp) (path_data pc x) = Ok p /\ p <> EmptyString /\
    resolve_tpl (lp_resolver pc) tp p = Ok (Some d') /\
    resolve_first (lp_resolver pc) p = Ok (Some (s_type x, d')) /\
    (forall k, dget d' k = if in_list k (ekeys es) then dget (path_data pc x) k else None).
Proof.
  intros Hnat Hconc Hvals Hsp.
  destruct (sid_path_inv Ld x cfg p Hsp) as (Hne & Hd).
  destruct (dict_to_path_config _ _ _ _ _ Hd) as (pc & Hpc).
  pose proof (get_path_config_In _ _ _ Hpc) as Hlp.
  destruct (nat_type_ok Ld Hwf x Hnat) as (Hty & _).
  destruct (dict_to_path_inv Ld _ _ cfg pc p Hne Hty Hvals Hpc Hd) as (tp & Hfind & Hkne & Hrest).
  destruct (keys_facts x pc tp Hnat Hlp Hfind) as (Hnd & Hkeys & _).
  assert (Hin : In tp (r_tpls (lp_resolver pc))) by (unfold find_tpl in Hfind; exact (proj1 (find_some _ _ Hfind))).
  assert (Hname : tp_name tp = s_type x).
  { unfold find_tpl in Hfind. apply String.eqb_eq. exact (proj2 (find_some _ _ Hfind)). }
  pose proof (load_path_keys c Ld Hload pc Hlp tp Hin) as Hk.
  assert (Hincl : forall k, In k (tp_keys tp) -> In k (dkeys (s_fields x))).
  { intros k Hkin. rewrite Hk in Hkin. apply Hkeys. apply tkeys_incl. exact Hkin. }
  destruct (Hrest Hincl) as (path & Hfmt & ->).
  change (pdata (pc_mapping (lp_conf pc)) (s_fields x)) with (path_data pc x) in Hfmt.
  destruct (path_conf_parts pc Hlp) as (Hok & Hsep & Hmap & _).
  pose proof Hok as Hok'. rewrite forallb_forall in Hok'.
  destruct (tpl_ok_inv tp (Hok' tp Hin)) as (es & ss & cs & He & Hs & Hc & Hown & Hnl & Hcomps).
  pose proof (elems_keys _ _ _ He) as Hek.
  assert (Hv : Forall (elem_val_ok (path_data pc x)) es).
  { apply Forall_forall. intros [a | n g b] Hein; [exact I|]. cbn [elem_val_ok].
    pose proof (in_ekeys n g b es Hein) as Hn. rewrite Hek in Hn. apply Hkeys in Hn.
    apply in_map_iff in Hn. destruct Hn as ([k0 v0] & Ek & Hkv). cbn [fst] in Ek. subst k0.
    pose proof (dget_In _ _ _ Hnd Hkv) as Hg.
    assert (Hpd : dget (path_data pc x) n = Some (pm (pc_mapping (lp_conf pc)) n v0)).
    { unfold path_data. rewrite dget_map_val, Hg. reflexivity. }
    exists (pm (pc_mapping (lp_conf pc)) n v0). split; [exact Hpd|]. split.
    - apply pm_val_ok; [exact Hmap|]. unfold path_values_ok in Hvals. rewrite Forall_forall in Hvals.
      exact (Hvals _ Hkv).
    - intros Ho Sh HSh. destruct (Hconc pc Hlp) as (_ & Hc2).
      exact (Hc2 tp es n g b Sh _ Hfind He Hein Ho HSh Hpd). }
  assert (Hene : ekeys es <> []).
  { assert (Hex : exists k0, In k0 (tp_keys tp)).
    { destruct (tp_keys tp) as [|k0 ks]; [congruence | exists k0; left; reflexivity]. }
    destruct Hex as (k0 & Hk0). rewrite Hk in Hk0. apply tkeys_incl in Hk0. rewrite <- Hek in Hk0.
    intros E. rewrite E in Hk0. destruct Hk0. }
  pose proof (fmt_elems _ _ _ _ _ He Hfmt) as Epath.
  destruct (own_norm (path_data pc x) es Hcomps Hv) as (Hnorm & Hpne).
  unfold cword in Hnorm, Hpne. rewrite <- Epath in Hnorm, Hpne. rewrite Hnorm.
  pose proof (load_path_compile c Ld Hload pc Hlp) as Hcomp.
  destruct (resolve_first_own (lp_resolver pc) (s_type x) tp es _ path Hcomp Hok Hsep Hfind He Hv Hene Hfmt Hpne)
    as (d' & Hr1 & Hr & Hspec).
  rewrite Hname in Hr.
  exists pc, tp, es, d'. repeat split; assumption.
Qed.

Theorem path_to_dict_of_path_sec x cfg p :
  naturally_typed Ld x -> concrete Ld x -> path_values_ok x ->
  sid_path Ld x cfg = Ok (Some p) -> path_to_dict Ld p cfg = Ok (Some (s_type x, s_fields x)).
Proof.
  intros Hnat Hconc Hvals Hsp.
  destruct (own_read x cfg p Hnat Hconc Hvals Hsp)
    as (pc & tp & es & d' & Hpc & Hlp & Hfind & He & Hek & Hfmt & Hpne & _ & Hr & Hspec).
  destruct (keys_facts x pc tp Hnat Hlp Hfind) as (Hnd & Hkeys & keys & Hkt & Hfil).
  destruct (path_conf_parts pc Hlp) as (_ & _ & Hmap & _).
  unfold path_to_dict. rewrite Hpc. cbn [bind]. rewrite Hr. cbn [bind]. cbv zeta. rewrite Hkt.
  apply (f_equal (fun z => Ok (Some (s_type x, z)))).
  transitivity (flat_map (fun k => match dget (s_fields x) k with Some v => [(k, v)] | None => [] end) keys);
    [|exact (ordered_eq (s_fields x) keys Hnd Hfil)].
  apply flat_map_ext. intros k.
  assert (G : dget (map (fun kv => (fst kv, map_in (pc_mapping (lp_conf pc)) (fst kv) (snd kv))) d') k
              = dget (s_fields x) k).
  { rewrite dget_map_val, Hspec. destruct (in_list k (ekeys es)) eqn:Ein.
    - unfold path_data. rewrite dget_map_val. destruct (dget (s_fields x) k) as [v|] eqn:Eg; [|reflexivity].
      cbn [option_map]. f_equal. apply map_in_pm; [exact Hmap|]. intros m Hm Hmne.
      destruct (Hconc pc Hlp) as (Hc1 & _). exact (Hc1 k v m (dget_Some_In _ _ _ Eg) Hm Hmne).
    - apply in_list_false in Ein. rewrite Hek in Ein.
      assert (Hnk : ~ In k (map fst (s_fields x))) by (intros H; apply Ein; apply Hkeys; exact H).
      apply dget_None_keys in Hnk. rewrite Hnk. reflexivity. }
  rewrite G. reflexivity.
Qed.

(* corollary (a) of stage B in the form used by the implementation: for such a Sid the reverse check of
   [dict_to_path] (format_one) succeeds, so [dict_to_path] does not raise ResolvaException *)
Theorem reverse_check_ok x cfg p :
  naturally_typed Ld x -> concrete Ld x -> path_values_ok x -> sid_path Ld x cfg = Ok (Some p) ->
  exists pc, get_path_config Ld cfg = Ok pc /\
    format_one (lp_resolver pc) (path_data pc x) (s_type x) = Ok (Some p).
Proof.
  intros Hnat Hconc Hvals Hsp.
  destruct (own_read x cfg p Hnat Hconc Hvals Hsp)
    as (pc & tp & es & d' & Hpc & Hlp & Hfind & He & Hek & Hfmt & Hpne & Hr1 & _ & _).
  exists pc. split; [exact Hpc|].
  destruct (keys_facts x pc tp Hnat Hlp Hfind) as (_ & Hkeys & _).
  destruct (sid_path_inv Ld x cfg p Hsp) as (Hne & _).
  assert (Hin : In tp (r_tpls (lp_resolver pc))) by (unfold find_tpl in Hfind; exact (proj1 (find_some _ _ Hfind))).
  apply (format_one_own _ _ tp _ _ d'); auto.
  - unfold path_data. destruct (s_fields x); [congruence | discriminate].
  - rewrite (load_path_keys c Ld Hload pc Hlp tp Hin). unfold path_data, dkeys. rewrite map_map. cbn [fst].
    apply keys_eq_iff. split.
    + intros k Hk. apply tkeys_In. apply Hkeys. exact Hk.
    + intros k Hk. apply Hkeys. apply tkeys_incl. exact Hk.
Qed.

End Main.

(** * The final statements *)

Theorem path_to_dict_of_path (c : Conf) (Ld : Loaded) x cfg p :
  load c = Some Ld -> wf_loadedb Ld = true -> paths_unambiguousb Ld = true ->
  naturally_typed Ld x -> concrete Ld x -> path_values_ok x ->
  sid_path Ld x cfg = Ok (Some p) -> path_to_dict Ld p cfg = Ok (Some (s_type x, s_fields x)).
Proof. intros H1 H2 H3. apply (path_to_dict_of_path_sec c Ld H1 H2 H3). Qed.

Lemma nat_rdict (c : Conf) (Ld : Loaded) x :
  load c = Some Ld -> wf_loadedb Ld = true -> naturally_typed Ld x -> path_values_ok x ->
  rdict_to_sid Ld (s_fields x) (s_type x) = Ok (s_string x) /\ s_string x <> EmptyString /\ s_fields x <> [].
Proof.
  intros Hload Hwf Hnat Hvals.
  destruct (nat_parts Ld x Hnat) as (Hs & pre & tp & post & _ & Hin & Hn & Ha & _).
  destruct (accepts_fields Ld Hwf tp _ _ Hin Ha) as (Hfst & _ & Hne & _).
  assert (Hnl : mem_c "010" (s_string x) = false).
  { rewrite (nat_string Ld Hwf x Hnat). apply mem_c_join; [reflexivity|].
    unfold path_values_ok in Hvals. apply Forall_forall. intros v Hv. apply in_map_iff in Hv.
    destruct Hv as (kv & <- & Hkv). rewrite Forall_forall in Hvals. exact (proj2 (proj2 (proj2 (Hvals kv Hkv)))). }
  split; [|split; [exact Hs | exact Hne]].
  unfold rdict_to_sid. destruct (s_fields x) as [|kv d] eqn:Ed; [congruence|]. rewrite <- Ed in *.
  unfold format_one. rewrite Ed at 1. rewrite <- Hn, (tpl_find c Ld Hload Hwf tp Hin).
  rewrite (perm_format c Ld Hload Hwf x (s_fields x) tp Hnat Hnl (Permutation_refl _) Hin), Ha.
  assert (Hk : keys_eq (dkeys (s_fields x)) (item_names (tp_items tp)) = true).
  { apply keys_eq_iff. unfold dkeys. rewrite Hfst. split; intros k Hk; exact Hk. }
  rewrite Hk. reflexivity.
Qed.

(** C05: Sid -> path -> Sid *)
Theorem roundtrip (c : Conf) (Ld : Loaded) x cfg p :
  load c = Some Ld -> wf_loadedb Ld = true -> paths_unambiguousb Ld = true ->
  naturally_typed Ld x -> concrete Ld x -> path_values_ok x ->
  sid_path Ld x cfg = Ok (Some p) -> sid_of_path Ld p cfg = Ok x.
Proof.
  intros Hload Hwf Hpu Hnat Hconc Hvals Hsp.
  destruct (nat_rdict c Ld x Hload Hwf Hnat Hvals) as (Hrd & Hs & Hne).
  apply (roundtrip_partial c Ld x cfg p Hload Hwf Hne Hsp); [|exact Hrd | exact Hs].
  exact (path_to_dict_of_path c Ld x cfg p Hload Hwf Hpu Hnat Hconc Hvals Hsp).
Qed.

(* two such Sids with the same path are equal *)
Corollary path_injective (c : Conf) (Ld : Loaded) x y cfg p :
  load c = Some Ld -> wf_loadedb Ld = true -> paths_unambiguousb Ld = true ->
  naturally_typed Ld x -> concrete Ld x -> path_values_ok x -> sid_path Ld x cfg = Ok (Some p) ->
  naturally_typed Ld y -> concrete Ld y -> path_values_ok y -> sid_path Ld y cfg = Ok (Some p) ->
  x = y.
Proof.
  intros Hload Hwf Hpu X1 X2 X3 X4 Y1 Y2 Y3 Y4.
  pose proof (roundtrip c Ld x cfg p Hload Hwf Hpu X1 X2 X3 X4) as Hx.
  pose proof (roundtrip c Ld y cfg p Hload Hwf Hpu Y1 Y2 Y3 Y4) as Hy.
  rewrite Hx in Hy. inversion Hy. reflexivity.
Qed.

(** * The decidable versions of the hypotheses are sound *)

Lemma path_values_okb_sound x : path_values_okb x = true -> path_values_ok x.
Proof.
  unfold path_values_okb, path_values_ok. rewrite forallb_forall. intros H. apply Forall_forall.
  intros kv Hkv. apply val_okb_ok. exact (H kv Hkv).
Qed.

Lemma concrete_forb_sound lp x : concrete_forb lp x = true -> concrete_for lp x.
Proof.
  unfold concrete_forb. intros H. apply andb_true_iff in H. destruct H as (H1 & H2). split.
  - rewrite forallb_forall in H1. intros k v m Hin Hm Hne. specialize (H1 (k, v) Hin). cbn [fst snd] in H1.
    rewrite Hm in H1. destruct m as [|p m]; [congruence|]. apply in_list_In. exact H1.
  - intros tp es n g b Sh v Hfind He Hin Ho HSh Hv. rewrite Hfind, He in H2.
    rewrite forallb_forall in H2. specialize (H2 _ Hin). cbn beta iota in H2.
    rewrite Ho, HSh, Hv in H2. cbn [orb] in H2. unfold in_shapesb in H2.
    apply existsb_exists in H2. destruct H2 as (sh & Hsh & Hw). exists sh. split; assumption.
Qed.

Lemma concreteb_sound Ld x : concreteb Ld x = true -> concrete Ld x.
Proof.
  unfold concreteb, concrete. rewrite forallb_forall. intros H lp Hlp. apply concrete_forb_sound. exact (H lp Hlp).
Qed.

Print Assumptions path_to_dict_of_path.
Print Assumptions roundtrip.
Print Assumptions reverse_check_ok.
