(** C03 — parent, get_as and "/" navigate one consistent hierarchy.  Property theorems only. *)
From Coq Require Import List String Ascii Bool Arith Permutation.
From Spil Require Import Base.Str Base.Dict Base.Outcome Regex.Re Regex.MatchProofs Resolva.Template Resolva.Resolver
  Conf.Conf Conf.WF Sid.Query Sid.Sid Sid.TypingSpec Sid.TypingProofs Sid.SidProofs Sid.QueryStringProofs Sid.QueryProofs.
From Spil Require Import Sid.NewlineLemmas Sid.NewlineProofs Sid.NewlineHits Sid.NewlineConf Sid.NewlineRefute.
From SpilGen Require Hamlet.
Import ListNotations.
Local Open Scope string_scope.

Theorem C03_get_as_partial : forall c Ld, load c = Some Ld -> wf_loadedb Ld = true ->
  forall x i, naturally_typed Ld x -> mem_c "010" (s_string x) = false -> 1 <= i <= List.length (s_fields x) ->
  exists y, get_as Ld x (nth (i - 1) (map fst (s_fields x)) "") = Ok y /\
            s_fields y = firstn i (s_fields x) /\
            s_string y = join "/" (firstn i (split_c "/" (s_string x))) /\
            sid_bool y = true.
Proof. exact get_as_prefix. Qed.
Print Assumptions C03_get_as_partial.

(* in full (no guard on the string) for every configuration passing [nl_safe] *)
Theorem C03_get_as : forall c Ld, load c = Some Ld -> wf_loadedb Ld = true -> nl_safe (r_tpls (l_sid Ld)) = true ->
  forall x i, naturally_typed Ld x -> 1 <= i <= List.length (s_fields x) ->
  exists y, get_as Ld x (nth (i - 1) (map fst (s_fields x)) "") = Ok y /\
            s_fields y = firstn i (s_fields x) /\
            s_string y = join "/" (firstn i (split_c "/" (s_string x))) /\
            sid_bool y = true.
Proof. exact get_as_prefix_conf. Qed.
Print Assumptions C03_get_as.

Theorem C03_get_as_unguarded_refuted :
  ~ (forall x i, naturally_typed bad_loaded x -> 1 <= i <= List.length (s_fields x) ->
     exists y, get_as bad_loaded x (nth (i - 1) (map fst (s_fields x)) "") = Ok y /\
       s_fields y = firstn i (s_fields x) /\ s_string y = join "/" (firstn i (split_c "/" (s_string x))) /\ sid_bool y = true).
Proof. exact get_as_prefix_refuted. Qed.
Print Assumptions C03_get_as_unguarded_refuted.

Example C03_nl_safe_here : nl_safe (r_tpls (l_sid Hamlet.the_loaded)) = true.
Proof. vm_compute. reflexivity. Qed.
Print Assumptions C03_nl_safe_here.

Theorem C03_parent : forall c Ld, load c = Some Ld -> wf_loadedb Ld = true ->
  forall x, naturally_typed Ld x ->
  (1 < List.length (s_fields x) ->
     parent Ld x = get_as Ld x (nth (List.length (s_fields x) - 2) (map fst (s_fields x)) "")) /\
  (List.length (s_fields x) = 1 -> mem_c "?" (s_string x) = false -> parent Ld x = Ok x).
Proof. exact parent_spec. Qed.
Print Assumptions C03_parent.

(* parent / last-value gives back the Sid *)
Theorem C03_div_partial : forall c Ld, load c = Some Ld -> wf_loadedb Ld = true ->
  forall x y, naturally_typed Ld x -> 1 < List.length (s_fields x) ->
  mem_c "?" (s_string x) = false -> mem_c ":" (s_string x) = false -> mem_c "010" (s_string x) = false ->
  parent Ld x = Ok y -> sid_div Ld y (last (map snd (s_fields x)) "") = Ok x.
Proof. exact div_parent. Qed.
Print Assumptions C03_div_partial.

Theorem C03_div : forall c Ld, load c = Some Ld -> wf_loadedb Ld = true -> nl_safe (r_tpls (l_sid Ld)) = true ->
  forall x y, naturally_typed Ld x -> 1 < List.length (s_fields x) ->
  mem_c "?" (s_string x) = false -> mem_c ":" (s_string x) = false ->
  parent Ld x = Ok y -> sid_div Ld y (last (map snd (s_fields x)) "") = Ok x.
Proof. exact div_parent_conf. Qed.
Print Assumptions C03_div.

(* keytype / basetype / len *)
Theorem C03_coherence : forall c Ld, load c = Some Ld -> wf_loadedb Ld = true ->
  forall x, naturally_typed Ld x ->
  exists tp, find_tpl (l_sid Ld) (s_type x) = Some tp /\
    sid_len x = List.length (item_names (tp_items tp)) /\
    sid_len x = List.length (split_c "/" (s_string x)) /\
    1 <= sid_len x /\
    keytype x = Some (last (map fst (s_fields x)) "") /\
    keytype x = Some (last (item_names (tp_items tp)) "") /\
    basetype Ld x = Some (hd "" (split_s (c_sep (l_conf Ld)) (s_type x))).
Proof. exact coherence. Qed.
Print Assumptions C03_coherence.

(* on an untyped Sid the navigations return the empty Sid instead of failing *)
Theorem C03_untyped : forall c Ld s k, load c = Some Ld -> wf_loadedb Ld = true ->
  let x := mkSid s "" [] in
  parent Ld x = Ok empty_sid /\ get_as Ld x k = Ok empty_sid /\ keytype x = None /\ basetype Ld x = None /\ sid_len x = 0.
Proof. exact untyped_nav. Qed.
Print Assumptions C03_untyped.

(* the forced-type case is NOT covered by C03_div: parent / value re-types the string naturally (recorded, D19) *)
Example C03_div_forced_refuted :
  match sid_factory Hamlet.the_loaded (FromString "shot__cache_node:hamlet/s/sq001/sh0010/anim/v001/w/abc") with
  | Ok x => match parent Hamlet.the_loaded x with
            | Ok y => match sid_div Hamlet.the_loaded y "abc" with
                      | Ok z => sid_bool x && negb (String.eqb (s_type z) (s_type x))
                      | Raise _ => false
                      end
            | Raise _ => false
            end
  | Raise _ => false
  end = true.
Proof. vm_compute. reflexivity. Qed.
Print Assumptions C03_div_forced_refuted.

Example C03_instance :
  match get_as Hamlet.the_loaded (mkSid "hamlet/a/char/x" "asset__asset" [("project","hamlet");("type","a");("assettype","char");("asset","x")]) "type" with
  | Ok y => String.eqb (s_string y) "hamlet/a" && String.eqb (s_type y) "asset"
  | Raise _ => false
  end = true.
Proof. vm_compute. reflexivity. Qed.
Print Assumptions C03_instance.
