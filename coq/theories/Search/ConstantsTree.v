(** C11 / C12: a constants-backed level below a level served by the PATH finder, over a data set
    materialised as a tree (Search/TreeListDefs.dataset_ok): the answer is "<e>/<v>" for the members e of the
    data set that the parent search globs and the accepted configured values v. *)
From Coq Require Import List String Ascii Bool Arith Lia.
From Spil Require Import Base.Str Base.Dict Base.Outcome Base.PyPath Base.StrProofs Base.SplitProofs Regex.Re
  Resolva.Template Resolva.Resolver Conf.ConfUtil Conf.Conf Conf.WF Conf.Routing
  Sid.Query Sid.Sid Sid.TypingSpec Sid.SidLemmas Sid.SidProofs Path.UnambiguousDefs Path.UnambiguousProofs
  Search.Unfold Search.FindList FS.Fs Search.Finders Search.FindersProofs Search.GlobProofs
  Search.TreeListDefs Search.TreePattern Search.TreeListProofs
  Data.Data Data.SidLevelDefs Data.SidLevelProofs
  Search.ConstantsDefs Search.ConstantsLemmas Search.ConstantsProofs.
Import ListNotations.
Local Open Scope string_scope.

Section Tree.
Variables (c : Conf) (Ld : Loaded).
Hypothesis Hload : load c = Some Ld.
Hypothesis Hwf : wf_loadedb Ld = true.
Hypothesis Hpu : paths_unambiguousb Ld = true.
Variable cfg : string.
Variable E : list sid.
Variable F : fs.
Hypothesis HD : dataset_ok Ld cfg E F.
Variable Rt : Routing.

(* the answer of the path finder to a parent search [rp] (a search Sid: it is unfolded again) *)
Lemma parent_found idp rp qs' found :
  typed_search Ld rp -> mem_c "?" (s_string rp) = false -> is_search Ld rp = true ->
  unfold_search Ld (s_string rp) false false = Ok qs' ->
  searches_ok Ld cfg qs' -> pat_inj Ld cfg qs' ->
  find_g_sid Ld (fstar Ld F (FPaths idp cfg)) rp = Ok found ->
  forall p, In p found <->
    exists e q', In e E /\ In q' qs' /\ p = s_string e /\ s_type e = s_type q' /\
                 glob_rel (s_string q') (s_string e).
Proof.
  intros Ht Hq His Hu Hqs Hinj H. unfold find_g_sid in H.
  rewrite (proj1 (ts_roundtrip c Ld Hload Hwf rp Ht Hq)) in H. cbn [bind] in H.
  rewrite His in H. cbn [negb] in H. rewrite andb_false_r in H. cbn [andb] in H.
  rewrite Hu in H. cbn [bind] in H.
  rewrite (do_find_star_g Ld _ qs' (searches_ok_no_gt c Ld Hload Hwf cfg qs' Hqs) eq_refl) in H. cbn [fstar] in H.
  exact (tree_search_glob c Ld Hload Hwf Hpu cfg E F HD qs' Hqs Hinj found H).
Qed.

Lemma par_str_noq s : mem_c "?" s = false -> mem_c "?" (par_str s) = false.
Proof.
  intros H. unfold par_str. apply mem_c_join; [reflexivity|]. apply Forall_removelast'. apply mem_c_split. exact H.
Qed.

(* a member of the data set that has the type of a parent search is a good root *)
Lemma member_found_ok e q' pkeys :
  In e E -> plain_member e -> typed_search Ld q' -> s_type e = s_type q' -> map fst (s_fields q') = pkeys ->
  found_ok Ld pkeys (s_string e).
Proof.
  intros He (Hq & Hc) Htq Hty Hk.
  pose proof (ds_nat _ _ _ _ HD e He) as Hnat. pose proof (nat_typed_search c Ld Hload Hwf e Hnat) as Hte.
  destruct (typed_parts c Ld Hload Hwf e Hte) as (ts & _ & _ & Hf1 & Hk1 & _ & Hj & _).
  destruct (typed_parts c Ld Hload Hwf q' Htq) as (ts' & _ & _ & Hf2 & Hk2 & _).
  rewrite Hty in Hf1. rewrite Hf1 in Hf2. inversion Hf2; subst ts'.
  split; [exact Hq|]. split; [exact Hc|]. split.
  - rewrite Hj. apply mem_c_join; [reflexivity|]. pose proof (ds_vals _ _ _ _ HD e He) as Hv.
    unfold path_values_ok in Hv. rewrite Forall_forall in Hv. apply Forall_forall. intros v Hin.
    apply in_map_iff in Hin. destruct Hin as (kv & <- & Hkv). exact (proj2 (proj2 (proj2 (Hv kv Hkv)))).
  - exists (s_type e), (s_fields e). split; [exact Hnat|]. rewrite Hk1, <- Hk2. exact Hk.
Qed.

(** the states of the versions that exist: a search with a "*" above its last segment, the parent level
    served by the path finder over the data set E *)
Theorem find_all_constants_over_tree s q id key values idp root rp qs' l :
  unfold_search Ld s false false = Ok [q] ->
  finder_for Rt (s_type q) = Some (FConstants id key values (Some (FPaths idp cfg))) ->
  const_guard Ld key q -> forallb const_value_okb values = true -> mem_c ">" (s_string q) = false ->
  mem_c "*" (par_str (s_string q)) = true -> dget (s_fields q) key = Some "*" ->
  get_as Ld q key = Ok root -> parent Ld root = Ok rp ->
  is_search Ld rp = true ->
  unfold_search Ld (s_string rp) false false = Ok qs' ->
  searches_ok Ld cfg qs' -> pat_inj Ld cfg qs' ->
  (forall q', In q' qs' -> map fst (s_fields q') = removelast (map fst (s_fields q))) ->
  (forall e, In e E -> plain_member e) ->
  find_all Ld Rt F s = Ok l ->
  forall r, In r l <->
    exists e q' v, In e E /\ In q' qs' /\ s_type e = s_type q' /\ glob_rel (s_string q') (s_string e) /\
      In v values /\ accepted Ld (map fst (s_fields q)) (child_str (s_string e) v) /\
      r = child_str (s_string e) v.
Proof.
  intros Hu Hfd G Hv Hgt Hp Hget Hroot Hpar His Hu' Hqs Hinj Hkeys Hplain Hl r.
  destruct (const_parent_rp c Ld Hload Hwf key q root rp G Hp Hroot Hpar) as (_ & _ & _ & Htrp & Hsrp & _ & _).
  assert (Hqrp : mem_c "?" (s_string rp) = false).
  { rewrite Hsrp. apply par_str_noq. exact (proj1 (proj2 (proj2 G))). }
  destruct (find_all_constants_parent c Ld Hload Hwf Rt F s q id key values (FPaths idp cfg) root rp
              Hu Hfd G Hv Hgt Hp Hget Hroot Hpar) as (Hraise & Hfound).
  destruct (find_g_sid Ld (fstar Ld F (FPaths idp cfg)) rp) as [found|ex] eqn:Ef.
  2:{ rewrite (Hraise ex eq_refl) in Hl. discriminate. }
  pose proof (parent_found idp rp qs' found Htrp Hqrp His Hu' Hqs Hinj Ef) as Hin.
  assert (Hall : Forall (found_ok Ld (removelast (map fst (s_fields q)))) found).
  { apply Forall_forall. intros p Hpf. apply Hin in Hpf. destruct Hpf as (e & q' & He & Hq' & -> & Hty & _).
    exact (member_found_ok e q' _ He (Hplain e He) (proj1 (Hqs q' Hq')) Hty (Hkeys q' Hq')). }
  rewrite (Hfound found eq_refl Hall) in Hl. inversion Hl; subst l.
  rewrite dedup_first_In, expand_below_In. split.
  - intros (p & v & Hpf & Hv' & Ha & ->). apply Hin in Hpf. destruct Hpf as (e & q' & He & Hq' & -> & Hty & Hg).
    exists e, q', v. repeat split; assumption.
  - intros (e & q' & v & He & Hq' & Hty & Hg & Hv' & Ha & ->). exists (s_string e), v.
    split; [|repeat split; assumption]. apply Hin. exists e, q'. repeat split; assumption.
Qed.

End Tree.

Print Assumptions find_all_constants_over_tree.
