(** Theorems for C01-C04 about the Sid layer: factory (A), canonical form and round trips (B),
    hierarchy (C), queries (D).  All under [load c = Some Ld] and [wf_loadedb Ld = true]. *)
From Coq Require Import List String Ascii Bool Arith Lia Permutation.
From Spil Require Import Base.Str Base.Dict Base.Outcome Base.Tree Base.StrProofs Base.SplitProofs
  Regex.Re Regex.MatchProofs Resolva.Template Resolva.Resolver Conf.ConfUtil Conf.Conf Conf.WF
  Sid.Query Sid.Sid Sid.TypingSpec Sid.TypingProofs Sid.SidLemmas.
Import ListNotations.
Local Open Scope string_scope.

Definition typed_or_untyped (s : string) (o : option (string * dict string)) : sid :=
  match o with Some (t, d) => mkSid s t d | None => mkSid s "" [] end.

(* x is what natural typing of its own string gives *)
Definition naturally_typed (Ld : Loaded) (x : sid) : Prop :=
  natural Ld (s_string x) = Some (s_type x, s_fields x).

Section Proofs.
Variables (c : Conf) (Ld : Loaded).
Hypothesis Hload : load c = Some Ld.
Hypothesis Hwf : wf_loadedb Ld = true.

Local Notation tpls := (r_tpls (l_sid Ld)).
Local Notation r := (l_sid Ld).
Local Notation names t := (item_names (tp_items t)).

(** * A. C01: the factory on strings *)

Lemma sid_of_string_noquery ty body :
  mem_c "?" ty = false -> mem_c ":" ty = false -> mem_c "?" body = false ->
  sid_of_string Ld (ty ++ ":" ++ body) =
  Ok (typed_or_untyped body (if sempty ty then natural Ld body else forced Ld ty body)).
Proof.
  intros Hq1 Hc Hq2. unfold sid_of_string.
  rewrite (split1_c_nomem "?" (ty ++ ":" ++ body)).
  2:{ rewrite mem_c_app, Hq1. cbn [append mem_c]. rewrite Hq2. reflexivity. }
  change (ty ++ ":" ++ body) with (ty ++ String ":" body).
  rewrite (split1_c_app ":" ty body Hc).
  destruct (sempty ty) eqn:Ety.
  - destruct ty; [|discriminate].
    rewrite (sid_to_dict_natural c Ld body Hload Hwf). cbn [bind truthy sempty negb andb].
    destruct (natural Ld body) as [[t d]|]; reflexivity.
  - rewrite (sid_to_dict_forced c Ld body ty Hload Hwf) by (apply sempty_false; exact Ety).
    cbn [bind truthy sempty negb andb].
    destruct (forced Ld ty body) as [[t d]|]; reflexivity.
Qed.

Theorem Sid_plain s :
  mem_c "?" s = false -> mem_c ":" s = false ->
  Sid Ld s = Ok (typed_or_untyped s (natural Ld s)).
Proof.
  intros Hq Hc. unfold Sid, sid_factory. destruct (sempty s) eqn:Es.
  - destruct s; [|discriminate]. reflexivity.
  - unfold sid_of_string. rewrite (split1_c_nomem "?" s Hq), (split1_c_nomem ":" s Hc).
    rewrite (sid_to_dict_natural c Ld s Hload Hwf). cbn [bind truthy sempty negb andb].
    destruct (natural Ld s) as [[t d]|]; reflexivity.
Qed.

(* deviation from the brief: the guard [mem_c "?" ty = false] is added (a "?" in the type part
   would be taken as the start of a query) *)
Theorem Sid_uri ty body :
  mem_c "?" body = false -> mem_c ":" ty = false -> mem_c "?" ty = false ->
  Sid Ld (ty ++ ":" ++ body) =
  Ok (typed_or_untyped body (if sempty ty then natural Ld body else forced Ld ty body)).
Proof.
  intros Hq2 Hc Hq1. unfold Sid, sid_factory.
  change (ty ++ ":" ++ body) with (ty ++ String ":" body). rewrite sempty_app_r.
  apply sid_of_string_noquery; assumption.
Qed.

Theorem Sid_total s : mem_c "?" s = false -> exists x, Sid Ld s = Ok x.
Proof.
  intros Hq. destruct (split1_c ":" s) as [h [tl|]] eqn:E.
  - destruct (split1_c_some _ _ _ _ E) as (-> & Hh).
    rewrite mem_c_app in Hq. apply orb_false_iff in Hq. destruct Hq as (Hq1 & Hq2).
    cbn [mem_c] in Hq2. apply orb_false_iff in Hq2. destruct Hq2 as (_ & Hq2).
    eexists. apply (Sid_uri h tl Hq2 Hh Hq1).
  - destruct (split1_c_none _ _ _ E) as (_ & Hc).
    eexists. apply (Sid_plain s Hq Hc).
Qed.

(** * B. C02: canonical form and round trips *)

Lemma nat_parts x : naturally_typed Ld x ->
  s_string x <> "" /\
  exists pre tp post, tpls = (pre ++ tp :: post)%list /\ In tp tpls /\ tp_name tp = s_type x /\
    accepts tp (s_string x) = Some (s_fields x) /\
    (forall t', In t' pre -> accepts t' (s_string x) = None).
Proof.
  intros H. destruct (natural_inv Ld _ _ _ H) as (Hs & pre & tp & post & E & Hn & Ha & Hpre).
  split; [exact Hs|]. exists pre, tp, post. repeat split; auto.
  rewrite E. apply in_elt.
Qed.

Theorem natural_canonical s t d : natural Ld s = Some (t, d) ->
  exists tp, find_tpl (l_sid Ld) t = Some tp /\ map fst d = item_names (tp_items tp) /\
             s = join "/" (map snd d).
Proof.
  intros H. destruct (nat_parts (mkSid s t d) H) as (_ & pre & tp & post & _ & Hin & Hn & Ha & _).
  cbn [s_string s_type s_fields] in *.
  exists tp. split; [rewrite <- Hn; apply (tpl_find c Ld Hload Hwf tp Hin)|].
  destruct (accepts_fields Ld Hwf tp s d Hin Ha) as (H1 & _ & _ & H4). split; assumption.
Qed.

Lemma nat_forced x : naturally_typed Ld x ->
  forced Ld (s_type x) (s_string x) = Some (s_type x, s_fields x).
Proof.
  intros H. destruct (nat_parts x H) as (Hs & pre & tp & post & _ & Hin & Hn & Ha & _).
  rewrite <- Hn. apply (forced_of_accepts c Ld Hload Hwf tp _ _ Hin Hs Ha).
Qed.

Lemma nat_type_ok x : naturally_typed Ld x ->
  s_type x <> "" /\ mem_c ":" (s_type x) = false /\ mem_c "?" (s_type x) = false.
Proof.
  intros H. destruct (nat_parts x H) as (_ & pre & tp & post & _ & Hin & Hn & _).
  rewrite <- Hn. apply (tpl_name_ok Ld Hwf tp Hin).
Qed.

Lemma nat_uri x : naturally_typed Ld x -> uri x = s_type x ++ ":" ++ s_string x.
Proof.
  intros H. destruct (nat_type_ok x H) as (Hne & _). unfold uri.
  apply sempty_false in Hne. rewrite Hne. rewrite app_assoc_s. reflexivity.
Qed.

Theorem roundtrip_uri x : naturally_typed Ld x -> mem_c "?" (s_string x) = false ->
  Sid Ld (uri x) = Ok x /\ sid_copy Ld x = Ok x.
Proof.
  intros H Hq.
  assert (G : Sid Ld (uri x) = Ok x).
  { rewrite (nat_uri x H). destruct (nat_type_ok x H) as (Hne & Hc & Hq1).
    rewrite (Sid_uri _ _ Hq Hc Hq1). apply sempty_false in Hne. rewrite Hne.
    rewrite (nat_forced x H). destruct x; reflexivity. }
  split; [exact G | exact G].
Qed.

Lemma nat_nodup x : naturally_typed Ld x -> NoDup (map fst (s_fields x)).
Proof.
  intros H. destruct (nat_parts x H) as (_ & pre & tp & post & _ & Hin & _ & Ha & _).
  destruct (accepts_fields Ld Hwf tp _ _ Hin Ha) as (-> & _).
  apply (tpl_parts Ld Hwf tp Hin).
Qed.

Lemma nat_string x : naturally_typed Ld x -> s_string x = join "/" (map snd (s_fields x)).
Proof.
  intros H. destruct (nat_parts x H) as (_ & pre & tp & post & _ & Hin & _ & Ha & _).
  apply (accepts_fields Ld Hwf tp _ _ Hin Ha).
Qed.

(* formatting a dict that has the keys of [dd0] (NoDup) and the same values under a template
   with that key set gives [join "/" (map snd dd0)] when the template lists the keys in dd0's order *)
Lemma fmt_str_same t' (dd0 dd : dict string) :
  NoDup (map fst dd0) -> names t' = map fst dd0 ->
  (forall k, dget dd k = dget dd0 k) ->
  fmt_str t' dd = join "/" (map snd dd0).
Proof.
  intros Hnd Hn Hget. unfold fmt_str. rewrite Hn.
  rewrite (vals_for_ext dd0 dd) by (intros k _; apply Hget).
  rewrite (vals_for_self dd0 Hnd). reflexivity.
Qed.

Lemma perm_format x d' t' : naturally_typed Ld x -> mem_c "010" (s_string x) = false ->
  Permutation (s_fields x) d' -> In t' tpls ->
  format_tpl r t' d' =
  Ok (if keys_eq (dkeys d') (names t')
      then match accepts t' (s_string x) with Some _ => Some (s_string x) | None => None end
      else None).
Proof.
  intros H Hnl Hp Hin'.
  destruct (keys_eq (dkeys d') (names t')) eqn:Hk;
    [|apply (format_tpl_keys_false c Ld Hload Hwf t' d' Hin' Hk)].
  destruct (nat_parts x H) as (Hs & pre & tp & post & _ & Hin & _ & Ha & _).
  pose proof (nat_nodup x H) as Hnd.
  destruct (accepts_fields Ld Hwf tp _ _ Hin Ha) as (Hfst & _ & _ & Hstr).
  assert (Hnames : names t' = map fst (s_fields x)).
  { rewrite Hfst. apply keys_eq_iff in Hk. destruct Hk as (Hk1 & Hk2).
    pose proof (Permutation_map fst Hp) as Hpk. rewrite Hfst in Hpk.
    apply (same_seq Ld Hwf t' tp Hin' Hin).
    - intros k Hk. apply (Permutation_in _ (Permutation_sym Hpk)). apply Hk2. exact Hk.
    - intros k Hk. apply Hk1. apply (Permutation_in _ Hpk). exact Hk. }
  assert (Hf : fmt_str t' d' = s_string x).
  { rewrite Hstr. apply fmt_str_same; [exact Hnd | exact Hnames|].
    intros k. apply dget_perm; assumption. }
  rewrite (format_tpl_nonl c Ld Hload Hwf t' d' Hin' Hk); rewrite Hf; auto.
Qed.

(* guard: the string has no newline (python's "$" in the reverse check of format_tpl) *)
Theorem roundtrip_fields x d' : naturally_typed Ld x -> mem_c "010" (s_string x) = false ->
  Permutation (s_fields x) d' -> sid_factory Ld (FromFields d') = Ok x.
Proof.
  intros H Hnl Hp.
  destruct (nat_parts x H) as (Hs & pre & tp & post & E & Hin & Hn & Ha & Hpre).
  destruct (accepts_fields Ld Hwf tp _ _ Hin Ha) as (Hfst & _ & Hne & _).
  assert (Hd' : d' <> []).
  { intros ->. apply Permutation_sym, Permutation_nil in Hp. congruence. }
  assert (Hgoal : sid_of_fields Ld d' = Ok x).
  { rewrite (sid_of_fields_first c Ld Hload Hwf d' pre tp post (s_string x) Hd' E).
    - unfold of_forced. rewrite Hn, (nat_forced x H). destruct x; reflexivity.
    - intros t' Hin'. rewrite (perm_format x d' t' H Hnl Hp) by (rewrite E; apply in_or_app; left; exact Hin').
      rewrite (Hpre t' Hin'). destruct (keys_eq _ _); reflexivity.
    - rewrite (perm_format x d' tp H Hnl Hp Hin), Ha.
      assert (Hk : keys_eq (dkeys d') (names tp) = true).
      { apply keys_eq_iff. rewrite <- Hfst. unfold dkeys.
        pose proof (Permutation_map fst Hp) as Hpk.
        split; intros k Hk; [apply (Permutation_in _ (Permutation_sym Hpk)) | apply (Permutation_in _ Hpk)]; exact Hk. }
      rewrite Hk. reflexivity. }
  unfold sid_factory. destruct d'; [congruence | exact Hgoal].
Qed.

Theorem eq_iff x y : naturally_typed Ld x -> naturally_typed Ld y ->
  sid_eqb x y = true <-> (s_type x = s_type y /\ s_fields x = s_fields y).
Proof.
  intros Hx Hy. unfold sid_eqb. rewrite (nat_uri x Hx), (nat_uri y Hy). split.
  - intros E. apply String.eqb_eq in E.
    destruct (nat_type_ok x Hx) as (_ & Hcx & _). destruct (nat_type_ok y Hy) as (_ & Hcy & _).
    apply (f_equal (split1_c ":")) in E.
    change (s_type x ++ ":" ++ s_string x) with (s_type x ++ String ":" (s_string x)) in E.
    change (s_type y ++ ":" ++ s_string y) with (s_type y ++ String ":" (s_string y)) in E.
    rewrite (split1_c_app ":" _ _ Hcx), (split1_c_app ":" _ _ Hcy) in E.
    inversion E as [[Et Es]]. split; [reflexivity|].
    unfold naturally_typed in Hx, Hy. rewrite Es, Hy in Hx. inversion Hx. reflexivity.
  - intros (Et & Ed). rewrite (nat_string x Hx), (nat_string y Hy), Et, Ed. apply String.eqb_refl.
Qed.

(** * C. C03: hierarchy *)

Lemma keys_eq_refl l : keys_eq l l = true.
Proof. apply keys_eq_iff. split; apply incl_refl. Qed.

(* Any dict in canonical order whose joined values some template with exactly these keys accepts:
   the factory on fields gives a typed Sid with this string and exactly these fields. *)
Lemma fields_hit (dd : dict string) tq :
  dd <> [] -> NoDup (map fst dd) ->
  Forall (fun v => mem_c "/" v = false) (map snd dd) ->
  mem_c "010" (join "/" (map snd dd)) = false ->
  join "/" (map snd dd) <> "" ->
  In tq tpls -> names tq = map fst dd -> accepts tq (join "/" (map snd dd)) <> None ->
  exists n, sid_of_fields Ld dd = Ok (mkSid (join "/" (map snd dd)) n dd) /\
            forced Ld n (join "/" (map snd dd)) = Some (n, dd).
Proof.
  intros Hdd Hnd Hsl Hnl Hne Hq Hnq Haq.
  set (s' := join "/" (map snd dd)) in *.
  assert (Hsplit : split_c "/" s' = map snd dd).
  { unfold s'. apply (split_c_join "/"); [|exact Hsl]. destruct dd; [congruence | discriminate]. }
  (* every template that formats dd is an accepted hit with fields dd *)
  assert (Hhit : forall t1 f, In t1 tpls -> format_tpl r t1 dd = Ok (Some f) ->
            f = s' /\ forced Ld (tp_name t1) s' = Some (tp_name t1, dd)).
  { intros t1 f Hin1 Hf.
    destruct (format_tpl_cases c Ld Hload Hwf t1 dd Hin1) as [H | (Hk & H & _)];
      rewrite H in Hf; [discriminate|]. inversion Hf as [Ef]. clear Hf.
    assert (Hn1 : names t1 = map fst dd).
    { rewrite <- Hnq. apply keys_eq_iff in Hk. destruct Hk as (Hk1 & Hk2). unfold dkeys in *.
      rewrite <- Hnq in Hk1, Hk2. apply (same_seq Ld Hwf t1 tq Hin1 Hq); assumption. }
    assert (Hf : fmt_str t1 dd = s').
    { apply fmt_str_same; [exact Hnd | exact Hn1 | reflexivity]. }
    split; [exact Hf|].
    pose proof (format_tpl_nonl c Ld Hload Hwf t1 dd Hin1 Hk) as Hfn.
    rewrite Hf in Hfn. specialize (Hfn Hnl Hne). rewrite H in Hfn.
    destruct (accepts t1 s') as [d1|] eqn:Ea; [|discriminate].
    rewrite (forced_of_accepts c Ld Hload Hwf t1 s' d1 Hin1 Hne Ea).
    destruct (accepts_inv Ld Hwf t1 s' d1 Hin1 Ea) as (-> & _).
    rewrite Hn1, Hsplit, combine_fst_snd. reflexivity. }
  rewrite (sid_of_fields_eq c Ld Hload Hwf dd Hdd).
  destruct (flat_map (fhit Ld dd) tpls) as [|[n f] rest] eqn:E.
  - exfalso. pose proof (flat_map_nil_inv _ _ E tq Hq) as Hnil. unfold fhit in Hnil.
    assert (Hk : keys_eq (dkeys dd) (names tq) = true) by (rewrite Hnq; apply keys_eq_refl).
    assert (Hf : fmt_str tq dd = s') by (apply fmt_str_same; [exact Hnd | exact Hnq | reflexivity]).
    pose proof (format_tpl_nonl c Ld Hload Hwf tq dd Hq Hk) as Hfn.
    rewrite Hf in Hfn. specialize (Hfn Hnl Hne). rewrite Hfn in Hnil.
    destruct (accepts tq s'); [discriminate | congruence].
  - destruct (fhit_in Ld dd n f) as (t1 & Hin1 & Hn1 & Hf). { rewrite E. left. reflexivity. }
    destruct (Hhit t1 f Hin1 Hf) as (-> & Hforced). subst n.
    exists (tp_name t1). split; [|exact Hforced].
    unfold of_forced. rewrite Hforced. reflexivity.
Qed.

Lemma fields_upto_nth : forall (d : dict string) i, NoDup (map fst d) -> i < List.length d ->
  fields_upto d (nth i (map fst d) "") = firstn (S i) d.
Proof.
  induction d as [|[k v] d IH]; intros i Hnd Hi; [simpl in Hi; lia|].
  cbn [map fst] in Hnd. inversion Hnd as [|? ? Hk Hnd']; subst.
  destruct i as [|i].
  - cbn [map fst nth fields_upto]. rewrite String.eqb_refl. reflexivity.
  - cbn [map fst nth fields_upto]. simpl in Hi.
    assert (Hin : In (nth i (map fst d) "") (map fst d)).
    { apply nth_In. rewrite map_length. lia. }
    destruct (String.eqb k (nth i (map fst d) "")) eqn:E.
    + apply String.eqb_eq in E. rewrite <- E in Hin. contradiction.
    + rewrite IH by (auto; lia). reflexivity.
Qed.

Lemma names_firstn : forall items, Shape items -> forall j,
  item_names (firstn (2 * j + 1) items) = firstn (j + 1) (item_names items).
Proof.
  induction 1 as [n e | n e rest Hsh IH]; intros j.
  - replace (2 * j + 1) with (S (2 * j)) by lia. replace (j + 1) with (S j) by lia.
    cbn [firstn]. rewrite firstn_nil. cbn [item_names flat_map app firstn].
    rewrite firstn_nil. reflexivity.
  - destruct j as [|j].
    + reflexivity.
    + replace (2 * S j + 1) with (S (S (2 * j + 1))) by lia.
      replace (S j + 1) with (S (j + 1)) by lia.
      cbn [firstn]. rewrite !item_names_ph, !item_names_lit. cbn [firstn]. rewrite IH. reflexivity.
Qed.

Lemma phs_firstn : forall items, Shape items -> forall ps j, phs items = Some ps ->
  phs (firstn (2 * j + 1) items) = Some (firstn (j + 1) ps).
Proof.
  induction 1 as [n e | n e rest Hsh IH]; intros ps j Hps.
  - replace (2 * j + 1) with (S (2 * j)) by lia. replace (j + 1) with (S j) by lia.
    cbn [firstn]. rewrite firstn_nil. cbn [phs] in *.
    destruct (ph_re e); [|discriminate]. inversion Hps; subst. cbn [firstn]. rewrite firstn_nil.
    reflexivity.
  - cbn [phs] in Hps. destruct (ph_re e) as [re0|] eqn:Ee; [|discriminate].
    destruct (phs rest) as [l|] eqn:El; [|discriminate]. inversion Hps; subst.
    destruct j as [|j].
    + cbn [Nat.mul Nat.add firstn phs]. rewrite Ee. reflexivity.
    + replace (2 * S j + 1) with (S (S (2 * j + 1))) by lia.
      replace (S j + 1) with (S (j + 1)) by lia.
      cbn [firstn phs]. rewrite Ee, (IH l j eq_refl). reflexivity.
Qed.

Lemma firstn_ne {A} i (l : list A) : 1 <= i -> l <> [] -> firstn i l <> [].
Proof. destruct i; [lia|]. destruct l; [congruence | discriminate]. Qed.

(* the prefix of length i of a naturally typed sid's fields, as a Sid built from fields *)
Lemma prefix_fields x i : naturally_typed Ld x -> mem_c "010" (s_string x) = false ->
  1 <= i <= List.length (s_fields x) ->
  exists n, sid_of_fields Ld (firstn i (s_fields x)) =
            Ok (mkSid (join "/" (firstn i (split_c "/" (s_string x)))) n (firstn i (s_fields x))) /\
            forced Ld n (join "/" (firstn i (split_c "/" (s_string x)))) = Some (n, firstn i (s_fields x)).
Proof.
  intros H Hnl Hi.
  destruct (nat_parts x H) as (Hs & pre & tp & post & _ & Hin & _ & Ha & _).
  destruct (accepts_fields Ld Hwf tp _ _ Hin Ha) as (Hfst & Hsnd & Hne & _).
  pose proof (nat_nodup x H) as Hnd.
  destruct (tpl_parts Ld Hwf tp Hin) as (Hsh & _ & ps & Hps & _ & Hpn).
  set (d := s_fields x) in *. set (s := s_string x) in *.
  assert (Hlen : List.length (names tp) = List.length d) by (rewrite <- Hfst, map_length; reflexivity).
  destruct (prefix_tpl Ld Hwf tp (i - 1) Hin) as (tq & Hq & Hitems); [lia|].
  assert (Hi1 : i - 1 + 1 = i) by lia.
  assert (Hnq : names tq = map fst (firstn i d)).
  { rewrite Hitems, (names_firstn _ Hsh), Hi1, <- Hfst, firstn_map. reflexivity. }
  assert (Hsnd' : map snd (firstn i d) = firstn i (split_c "/" s)).
  { rewrite <- firstn_map, Hsnd. reflexivity. }
  rewrite <- Hsnd'.
  assert (Hsl : Forall (fun v => mem_c "/" v = false) (map snd (firstn i d))).
  { rewrite Hsnd'. apply Forall_firstn. apply split_c_nomem_all. }
  assert (Hdd : firstn i d <> []) by (apply firstn_ne; [lia | exact Hne]).
  assert (Hne' : join "/" (map snd (firstn i d)) <> "").
  { pose proof (first_seg_nonempty Ld Hwf tp s _ Hin Ha) as Hg.
    rewrite Hsnd'. destruct (split_c "/" s) as [|g segs]; cbn [hd] in Hg; [congruence|].
    destruct i as [|i]; [lia|]. cbn [firstn].
    destruct (firstn i segs); [exact Hg|]. rewrite join_cons2. destruct g; [congruence | discriminate]. }
  apply (fields_hit (firstn i d) tq Hdd).
  - rewrite <- firstn_map. apply NoDup_firstn. exact Hnd.
  - exact Hsl.
  - rewrite Hsnd'. apply mem_c_join; [reflexivity|]. apply Forall_firstn. apply mem_c_split. exact Hnl.
  - exact Hne'.
  - exact Hq.
  - exact Hnq.
  - unfold accepts. rewrite Hitems, (phs_firstn _ Hsh ps (i - 1) Hps), Hi1. cbv zeta.
    assert (Hmne : map snd (firstn i d) <> []) by (intros E; apply map_eq_nil in E; congruence).
    pose proof (split_c_join "/" _ Hmne Hsl) as Hsj. unfold str1 in Hsj. rewrite Hsj.
    unfold accepts in Ha. rewrite Hps in Ha. cbv zeta in Ha.
    destruct (segs_ok ps (split_c "/" s)) eqn:Eok; [|discriminate].
    rewrite Hsnd', (segs_ok_firstn i _ _ Eok). discriminate.
Qed.

Theorem get_as_prefix x i : naturally_typed Ld x -> mem_c "010" (s_string x) = false ->
  1 <= i <= List.length (s_fields x) ->
  exists y, get_as Ld x (nth (i - 1) (map fst (s_fields x)) "") = Ok y /\
    s_fields y = firstn i (s_fields x) /\
    s_string y = join "/" (firstn i (split_c "/" (s_string x))) /\
    sid_bool y = true.
Proof.
  intros H Hnl Hi.
  destruct (prefix_fields x i H Hnl Hi) as (n & Hsf & _).
  pose proof (nat_nodup x H) as Hnd.
  exists (mkSid (join "/" (firstn i (split_c "/" (s_string x)))) n (firstn i (s_fields x))).
  split; [|split; [reflexivity | split; [reflexivity|]]].
  - assert (Hm : dmem (s_fields x) (nth (i - 1) (map fst (s_fields x)) "") = true).
    { unfold dmem. destruct (dget (s_fields x) (nth (i - 1) (map fst (s_fields x)) "")) eqn:E; [reflexivity|].
      exfalso. apply dget_None_keys in E. apply E. apply nth_In. rewrite map_length. lia. }
    unfold get_as.
    destruct (s_fields x) as [|p d0] eqn:Ed; [simpl in Hi; lia|].
    rewrite Hm. rewrite (fields_upto_nth _ (i - 1) Hnd) by lia.
    replace (S (i - 1)) with i by lia.
    unfold sid_factory. destruct i as [|i]; [lia|]. exact Hsf.
  - unfold sid_bool. cbn [s_fields]. destruct i; [lia|].
    destruct (s_fields x); [simpl in Hi; lia | reflexivity].
Qed.

Lemma rev_second (l : list string) : 2 <= List.length l ->
  exists a l', rev l = a :: nth (List.length l - 2) l "" :: l'.
Proof.
  intros Hl. pose proof (rev_length l) as Hr.
  pose proof (@rev_nth _ l "" 1) as Hn.
  destruct (rev l) as [|a [|b l']]; simpl in Hr; try lia.
  exists a, l'. simpl in Hn. rewrite Hn by lia. reflexivity.
Qed.

Theorem parent_spec x : naturally_typed Ld x ->
  (1 < List.length (s_fields x) ->
   parent Ld x = get_as Ld x (nth (List.length (s_fields x) - 2) (map fst (s_fields x)) "")) /\
  (List.length (s_fields x) = 1 -> mem_c "?" (s_string x) = false -> parent Ld x = Ok x).
Proof.
  intros H. split.
  - intros Hn. unfold parent, dkeys.
    destruct (rev_second (map fst (s_fields x))) as (a & l' & E); [rewrite map_length; lia|].
    rewrite E, map_length. reflexivity.
  - intros Hn Hq. unfold parent, dkeys.
    destruct (s_fields x) as [|[k v] [|p d0]]; try discriminate Hn.
    cbn [map fst rev app]. apply (roundtrip_uri x H Hq).
Qed.

Lemma firstn_last (l : list string) : l <> [] ->
  l = (firstn (List.length l - 1) l ++ [last l ""])%list.
Proof.
  intros Hne. rewrite (app_removelast_last "" Hne) at 1.
  rewrite removelast_firstn_len. replace (Nat.pred (List.length l)) with (List.length l - 1) by lia.
  reflexivity.
Qed.

(* guards: no "?" and no ":" in the string (so that the string alone is read back plainly), no newline *)
Theorem div_parent x y : naturally_typed Ld x ->
  1 < List.length (s_fields x) ->
  mem_c "?" (s_string x) = false -> mem_c ":" (s_string x) = false ->
  mem_c "010" (s_string x) = false ->
  parent Ld x = Ok y ->
  sid_div Ld y (last (map snd (s_fields x)) "") = Ok x.
Proof.
  intros H Hn Hq Hc Hnl Hp.
  destruct (parent_spec x H) as (Hps & _). rewrite (Hps Hn) in Hp.
  destruct (get_as_prefix x (List.length (s_fields x) - 1) H Hnl) as (y' & Hy' & _ & Hstr & _); [lia|].
  replace (List.length (s_fields x) - 1 - 1) with (List.length (s_fields x) - 2) in Hy' by lia.
  rewrite Hy' in Hp. inversion Hp; subst y'. clear Hp.
  unfold sid_div. rewrite Hstr.
  destruct (nat_parts x H) as (_ & pre & tp & post & _ & Hin & _ & Ha & _).
  destruct (accepts_fields Ld Hwf tp _ _ Hin Ha) as (_ & Hsnd & Hne & _).
  rewrite Hsnd.
  assert (Hlen : List.length (split_c "/" (s_string x)) = List.length (s_fields x)).
  { rewrite <- Hsnd, map_length. reflexivity. }
  assert (Es : join "/" (firstn (List.length (s_fields x) - 1) (split_c "/" (s_string x))) ++ sip ++
               last (split_c "/" (s_string x)) "" = s_string x).
  { rewrite <- (join_split_c "/" (s_string x)) at 3.
    rewrite (firstn_last (split_c "/" (s_string x)) (split_c_not_nil _ _)) at 3.
    rewrite Hlen. unfold sip. symmetry. apply join_snoc.
    apply firstn_ne; [lia | apply split_c_not_nil]. }
  rewrite Es. rewrite (Sid_plain _ Hq Hc). unfold naturally_typed in H. rewrite H.
  destruct x; reflexivity.
Qed.

Theorem coherence x : naturally_typed Ld x ->
  exists tp, find_tpl (l_sid Ld) (s_type x) = Some tp /\
    sid_len x = List.length (item_names (tp_items tp)) /\
    sid_len x = List.length (split_c "/" (s_string x)) /\
    1 <= sid_len x /\
    keytype x = Some (last (map fst (s_fields x)) "") /\
    keytype x = Some (last (item_names (tp_items tp)) "") /\
    basetype Ld x = Some (hd "" (split_s (c_sep (l_conf Ld)) (s_type x))).
Proof.
  intros H. destruct (nat_parts x H) as (_ & pre & tp & post & _ & Hin & Hn & Ha & _).
  destruct (accepts_fields Ld Hwf tp _ _ Hin Ha) as (Hfst & Hsnd & Hne & _).
  assert (Hk : keytype x = Some (last (map fst (s_fields x)) "")).
  { unfold keytype, dkeys.
    assert (G : forall l : list string, l <> [] -> last_opt l = Some (last l "")).
    { induction l as [|a l IH]; [congruence|]. intros _. destruct l; [reflexivity|].
      change (last_opt (a :: s :: l)) with (last_opt (s :: l)).
      change (last (a :: s :: l) "") with (last (s :: l) ""). apply IH. discriminate. }
    apply G. intros E. apply map_eq_nil in E. congruence. }
  exists tp. split; [rewrite <- Hn; apply (tpl_find c Ld Hload Hwf tp Hin)|].
  unfold sid_len. repeat split.
  - rewrite <- Hfst, map_length. reflexivity.
  - rewrite <- Hsnd, map_length. reflexivity.
  - destruct (s_fields x); [congruence | simpl; lia].
  - exact Hk.
  - rewrite Hk, Hfst. reflexivity.
  - unfold basetype, basetype_of. destruct (nat_type_ok x H) as (Ht & _).
    apply sempty_false in Ht. rewrite Ht. reflexivity.
Qed.

End Proofs.

(** The two statements about untyped Sids do not depend on the configuration being well formed;
    the standing hypotheses are kept for uniformity. *)
Theorem untyped_obs (c : Conf) (Ld : Loaded) s :
  load c = Some Ld -> wf_loadedb Ld = true ->
  let x := mkSid s "" [] in
  sid_bool x = false /\ sid_len x = 0 /\ s_type x = "" /\ s_fields x = [] /\ s_string x = s.
Proof. intros _ _. repeat split. Qed.

Theorem untyped_nav (c : Conf) (Ld : Loaded) s k :
  load c = Some Ld -> wf_loadedb Ld = true ->
  let x := mkSid s "" [] in
  parent Ld x = Ok empty_sid /\ get_as Ld x k = Ok empty_sid /\
  keytype x = None /\ basetype Ld x = None /\ sid_len x = 0.
Proof. intros _ _. repeat split. Qed.
