(** C10: the algebra of the search syntax.  Definitions only (proofs in Search/AlgebraProofs.v).

    The list-backed finder [find_list Ld items s] is characterised through the C07 denotation
    ([bodies], [typed_of], [narrowed], [queries], [query_applied] of Search/UnfoldSpec.v) and the
    glob relation [glob_rel] of Search/GlobProofs.v; results are compared as sets. *)
From Coq Require Import List String Ascii Bool Arith.
From Spil Require Import Base.Str Base.Dict Base.Outcome Regex.Re
  Resolva.Template Resolva.Resolver Conf.ConfUtil Conf.Conf Conf.WF Sid.Query Sid.Sid Sid.TypingSpec
  Search.Unfold Search.FindList Search.GlobProofs Search.UnfoldSpec.
Import ListNotations.
Local Open Scope string_scope.

Section Defs.
Variable Ld : Loaded.
Let c := l_conf Ld.
Let tpls := r_tpls (l_sid Ld).

(** ** 1. What a search denotes, and which entries it matches *)

(* the typed searches denoted by a query-free search string (right-hand side of [unfold_noquery_spec]) *)
Definition denotes (s : string) (x : sid) : Prop :=
  exists b y, In b (bodies Ld s) /\ typed_of Ld b y /\ narrowed Ld y x.

(* the same, keeping only the typed searches [y] (before narrowing) that satisfy [P] *)
Definition denotes_on (P : sid -> Prop) (s : string) (x : sid) : Prop :=
  exists b y, In b (bodies Ld s) /\ typed_of Ld b y /\ P y /\ narrowed Ld y x.

(* the typed searches denoted by  body?k1=v1&...  (right-hand side of [unfold_query_spec]) *)
Definition denotes_q (body : string) (qd : list (string * string)) (x : sid) : Prop :=
  exists b u y x1, In b (bodies Ld body) /\ In u (queries Ld qd) /\ typed_of Ld b y /\
                   query_applied Ld u y x1 /\ narrowed Ld x1 x.

(* an entry matched by one of a set of typed searches *)
Definition matched_by (D : sid -> Prop) (e : string) : Prop :=
  exists x, D x /\ glob_rel (s_string x) e.

Definition matched (s e : string) : Prop := matched_by (denotes s) e.

(** ** 2. The dispatch of [find_list] and [do_find] *)

(* the shortcut of [find_list]: a typed Sid that is not a search, whose last segment is not an
   alias and that has no "?" is searched as itself (no unfolding, no narrowing) *)
Definition shortcut (s : string) : bool :=
  match Sid Ld s with
  | Ok x => sid_bool x && negb (is_search Ld x)
            && negb (dmem (c_extension_alias c) (last (split_c "/" (s_string x)) ""))
            && negb (mem_c "?" (s_string x))
  | Raise _ => false
  end.

(* no denoted typed search contains ">" : [do_find] runs [star_search], not [sorted_search] *)
Definition nosort_by (D : sid -> Prop) : Prop := forall x, D x -> mem_c ">" (s_string x) = false.
Definition nosort (s : string) : Prop := nosort_by (denotes s).

(* a decidable reading of [nosort] : run the pipeline and look *)
Definition nosortb (s : string) : bool :=
  match unfold_search Ld s false false with
  | Ok qs => negb (existsb (fun q => mem_c ">" (s_string q)) qs)
  | Raise _ => false
  end.

(** ** 3. Basetype narrowing that leaves the search string alone *)

(* the narrowing entry of the type of [tp], applied to the body [b] typed by [tp], keeps the string *)
Definition stable_at (b : string) (tp : tpl) : bool :=
  match accepts tp b with
  | None => true
  | Some d =>
      let nq := narrowing_query Ld (tp_name tp) in
      sempty nq ||
      match apply_query Ld b nq (tp_name tp) d with
      | Ok (s', _, _) => String.eqb s' b
      | Raise _ => false
      end
  end.

Definition stable_body (b : string) : bool := forallb (stable_at b) tpls.

(* ... for every body of s and every template *)
Definition narrow_stableb (s : string) : bool := forallb stable_body (bodies Ld s).

(* when the shortcut is taken, it agrees with the denotation: s is its only body, has no "/**",
   no ">" and narrowing keeps it *)
Definition shortcut_okb (s : string) : bool :=
  negb (shortcut s) ||
  (match bodies Ld s with [b] => String.eqb b s | _ => false end
   && Nat.eqb (count dstar s) 0 && negb (mem_c ">" s) && narrow_stableb s).

(* the guards of a query-free search *)
Definition guarded (s : string) : Prop :=
  search_ok s = true /\ shortcut_okb s = true /\ nosort s.

(** ** 4. Search strings given by their "/"-segments *)

(* the search  pre/g/post *)
Definition mk (pre : list string) (g : string) (post : list string) : string :=
  join "/" (pre ++ g :: post).

Definition noslash (x : string) : Prop := mem_c "/" x = false.

(* the alternatives of the segment g when [post] follows it *)
Definition seg_alts (post : list string) (g : string) : list string :=
  match post with [] => last_alts Ld g | _ => comma_alts g end.

(* an alternative of a "," list: stripped, without "," and "/" *)
Definition alt_okb (a : string) : bool :=
  String.eqb (strip a) a && negb (mem_c "," a) && negb (mem_c "/" a).

(* a literal value: no glob character *)
Definition literalb (v : string) : bool := negb (mem_c "*" v) && negb (mem_c "?" v).

(* a choice of one alternative in every segment of pre (not last) / of post (last segment included) *)
Definition choice_pre (pre c1 : list string) : Prop := Forall2 (fun p a => In a (comma_alts p)) pre c1.
Definition choice_post (post c2 : list string) : Prop := Forall2 (fun l a => In a l) (alts_of_parts Ld post) c2.

(* some template accepts the body *)
Definition typable (b : string) : Prop := exists tp d, In tp tpls /\ accepts tp b = Some d.
Definition typableb (b : string) : bool :=
  existsb (fun tp => match accepts tp b with Some _ => true | None => false end) tpls.

(* the bodies of  pre/*/post  and their instances  pre/v/post  are typable together *)
Definition lit_ok (pre post : list string) (v : string) : Prop :=
  forall c1 c2, choice_pre pre c1 -> choice_post post c2 ->
    (typable (join "/" (c1 ++ "*" :: c2)) <-> typable (join "/" (c1 ++ v :: c2))).

Definition lit_okb (pre post : list string) (v : string) : bool :=
  forallb (fun c1 => forallb (fun c2 =>
      Bool.eqb (typableb (join "/" (c1 ++ "*" :: c2))) (typableb (join "/" (c1 ++ v :: c2))))
    (product (alts_of_parts Ld post))) (product (map comma_alts pre)).

(** ** 5. The filter rule *)

(* the body b typed by tp (fields d) with its field k set to v, re-rendered by tp *)
Definition set_field (tp : tpl) (d : dict string) (k v : string) : string := str_of tp (dset d k v).

(* for every typed search (b, tp, d) of the body: k is a key of tp searched as "*", tp accepts the
   string with v in place of that "*", and basetype narrowing keeps that string *)
Definition filt_at (k v b : string) (tp : tpl) : bool :=
  match accepts tp b with
  | None => true
  | Some d =>
      match dget d k with Some w => String.eqb w "*" | None => false end
      && match accepts tp (set_field tp d k v) with
         | Some _ => stable_at (set_field tp d k v) tp
         | None => false
         end
  end.
Definition filt_okb (body k v : string) : bool :=
  forallb (fun b => forallb (filt_at k v b) tpls) (bodies Ld body).

(* the entry e, read with the keys of a searched type of [body] whose typed search matches it,
   has field k = v *)
Definition field_in (body k e v : string) : Prop :=
  exists b tp d, In b (bodies Ld body) /\ In tp tpls /\ accepts tp b = Some d /\ glob_rel b e /\
                 dget (combine (item_names (tp_items tp)) (split_c "/" e)) k = Some v.

(** ** 6. The "**" rule *)

(* the search  pre / * / ... / * / post  with n levels "*" *)
Definition mkn (pre : list string) (n : nat) (post : list string) : string :=
  join "/" (pre ++ repeat "*" n ++ post).

(* the typed searches obtained by typing every body of s with every template that accepts it *)
Definition plain_denotes (s : string) (x : sid) : Prop :=
  exists b tp d, In b (bodies Ld s) /\ In tp tpls /\ accepts tp b = Some d /\
                 narrowed Ld (mkSid b (tp_name tp) d) x.

(* ... restricted to leaf types: the last key of the template is the leaf key configured for the
   root (the first |pre| segments of the body) *)
Definition levels_on (pre : list string) (n : nat) (post : list string) (x : sid) : Prop :=
  exists b tp d lk, In b (bodies Ld (mkn pre n post)) /\ In tp tpls /\ accepts tp b = Some d /\
    leaf_of Ld (join "/" (firstn (List.length pre) (split_c "/" b))) = Some lk /\
    tpl_last_key tp = Some lk /\
    narrowed Ld (mkSid b (tp_name tp) d) x.

(* when "**" is the last segment and n = 0, the last segment of pre becomes the last segment of the
   search: it must not be changed by alias expansion *)
Definition lastpre_ok (pre : list string) : Prop :=
  forall x, In x (last_alts Ld (last pre "")) <-> In x (comma_alts (last pre "")).

End Defs.
