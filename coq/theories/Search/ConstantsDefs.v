(** C11 / C12 for the levels the routing backs by constants (FindInConstants): definitions and guards.
    The proofs are in Search/ConstantsProofs.v; instances on the live configuration in gen/ConstantsExamples.v. *)
From Coq Require Import List String Ascii Bool Arith.
From Spil Require Import Base.Str Base.Dict Base.Outcome Base.PyPath Regex.Re
  Resolva.Template Resolva.Resolver Conf.ConfUtil Conf.Conf Conf.WF Conf.Routing Sid.Query Sid.Sid Sid.TypingSpec
  Sid.SidProofs Search.Unfold Search.FindList FS.Fs Search.Finders Search.TreeListDefs Data.Data.
Import ListNotations.
Local Open Scope string_scope.

(** ** The star search of FindInConstants, one search at a time *)

(* the expansion below one root string found by the parent finder ([root] is the search cut at [key]) *)
Definition const_below (Ld : Loaded) (key : string) (values : list string) (root : sid) (fr_s : string)
  : outcome (list string) :=
  do fr <- Sid Ld fr_s;
  match sid_get root key with
  | Some v => if String.eqb v "*" then append_values Ld key values fr
              else do r <- sid_div Ld fr v; Ok [s_string r]
  | None => do r <- sid_div Ld fr "None"; Ok [s_string r]
  end.

(* the body of the loop of [fstar (FConstants _ key values pfd)]; [pstar] is the star search of the parent finder *)
Definition const_one (Ld : Loaded) (key : string) (values : list string) (pstar : option star_fn) (q : sid)
  : outcome (list string) :=
  do q' <- sid_factory Ld (FromSid q);
  do root <- get_as Ld q' key;
  if negb (sid_bool root) then Ok [] else
  if negb (contains "*" (s_string root)) then Ok [s_string root] else
  do rp <- parent Ld root;
  if contains "*" (s_string rp) && negb (sid_eqb root rp) then
    match pstar with
    | None => Raise SpilException
    | Some ps =>
        do found_roots <- find_g_sid Ld ps rp;
        concat_mapM (const_below Ld key values root) found_roots
    end
  else append_values Ld key values root.

(** ** Strings *)

(* the string with its last "/"-segment replaced by [v] *)
Definition set_last (s v : string) : string := join "/" (removelast (split_c "/" s) ++ [v])%list.

(* the string without its last "/"-segment ("" for a single segment) *)
Definition par_str (s : string) : string := join "/" (removelast (split_c "/" s)).

(* "<p>/<v>" *)
Definition child_str (p v : string) : string := p ++ "/" ++ v.

(** ** Which configured values are kept: the placeholder patterns of a template with these keys accept
    the string (segment by segment: [TypingSpec.accepts]) *)

Definition accepted (Ld : Loaded) (keys : list string) (s : string) : Prop :=
  exists t, In t (r_tpls (l_sid Ld)) /\ item_names (tp_items t) = keys /\ accepts t s <> None.

Definition acceptedb (Ld : Loaded) (keys : list string) (s : string) : bool :=
  existsb (fun t => strs_eqb (item_names (tp_items t)) keys &&
                    match accepts t s with Some _ => true | None => false end)
          (r_tpls (l_sid Ld)).

(* the configured values, in order, that give a typed Sid when they replace the last segment of [s] *)
Definition expand (Ld : Loaded) (keys : list string) (s : string) (values : list string) : list string :=
  map (set_last s) (filter (fun v => acceptedb Ld keys (set_last s v)) values).

(* the configured values, in order, that give a typed Sid below the string [p] *)
Definition expand_below (Ld : Loaded) (keys : list string) (values : list string) (p : string) : list string :=
  map (child_str p) (filter (fun v => acceptedb Ld keys (child_str p v)) values).

(** ** Guards *)

(* a configured value: not empty, one segment, no newline *)
Definition const_value_okb (v : string) : bool :=
  negb (sempty v) && negb (mem_c "/" v) && negb (mem_c "010" v).

(* a typed search (as produced by unfolding) whose last key is [key], whose string has no query mark and
   no newline *)
Definition const_guard (Ld : Loaded) (key : string) (q : sid) : Prop :=
  typed_search Ld q /\ last (map fst (s_fields q)) "" = key /\
  mem_c "?" (s_string q) = false /\ mem_c "010" (s_string q) = false.

Definition const_guardb (Ld : Loaded) (key : string) (q : sid) : bool :=
  typed_searchb Ld q && String.eqb (last (map fst (s_fields q)) "") key &&
  negb (mem_c "?" (s_string q)) && negb (mem_c "010" (s_string q)).

(* a root string found by the parent finder: read back plainly, naturally typed at the parent level
   (its keys are [pkeys]) *)
Definition found_ok (Ld : Loaded) (pkeys : list string) (p : string) : Prop :=
  mem_c "?" p = false /\ mem_c ":" p = false /\ mem_c "010" p = false /\
  exists t d, natural Ld p = Some (t, d) /\ map fst d = pkeys.

Definition found_okb (Ld : Loaded) (pkeys : list string) (p : string) : bool :=
  negb (mem_c "?" p) && negb (mem_c ":" p) && negb (mem_c "010" p) &&
  match natural Ld p with
  | Some (_, d) => strs_eqb (map fst d) pkeys
  | None => false
  end.

(** ** exists(): the guard on x, computed.  [x] is naturally typed, its string has none of "*", ">", "?",
    newline; the search unfolds to typed versions of that very string, all routed to the constants finder
    [fd] whose key is the last key of each of them. *)
Definition no_specialb (s : string) : bool :=
  negb (mem_c "*" s) && negb (mem_c ">" s) && negb (mem_c "?" s) && negb (mem_c "010" s).

Fixpoint finder_eqb (a b : finder) : bool :=
  match a, b with
  | FPaths i c, FPaths i' c' => String.eqb i i' && String.eqb c c'
  | FList i l, FList i' l' => String.eqb i i' && strs_eqb l l'
  | FConstants i k vs p, FConstants i' k' vs' p' =>
      String.eqb i i' && String.eqb k k' && strs_eqb vs vs' &&
      match p, p' with
      | None, None => true
      | Some x, Some y => finder_eqb x y
      | _, _ => false
      end
  | _, _ => false
  end.

Definition routed_allb (Rt : Routing) (fd : finder) (qs : list sid) : bool :=
  forallb (fun q => match finder_for Rt (s_type q) with Some g => finder_eqb g fd | None => false end) qs.

Definition same_strb (s : string) (qs : list sid) : bool :=
  forallb (fun q => String.eqb (s_string q) s) qs.

Definition const_exists_guardb (Ld : Loaded) (Rt : Routing) (fd : finder) (key : string) (x : sid) : bool :=
  nat_typedb Ld x && no_specialb (s_string x) &&
  match unfold_search Ld (s_string x) false false with
  | Ok qs => match qs with [] => false | _ => true end &&
             routed_allb Rt fd qs && same_strb (s_string x) qs && forallb (const_guardb Ld key) qs
  | Raise _ => false
  end.

(** ** children(): the guard on x, computed.  "<x>/*" unfolds to typed searches of the string "<x>/*", all
    routed to the constants finder [fd] whose key is their last key; x itself has no "*". *)
Definition const_children_guardb (Ld : Loaded) (Rt : Routing) (fd : finder) (key : string) (x : sid) : bool :=
  negb (is_leaf Ld x) && negb (mem_c "*" (s_string x)) && negb (mem_c ">" (s_string x)) &&
  match sid_div Ld x "*" with
  | Ok q0 =>
      String.eqb (s_string q0) (child_str (s_string x) "*") &&
      match unfold_search Ld (s_string q0) false false with
      | Ok qs => match qs with [] => false | _ => true end &&
                 routed_allb Rt fd qs && same_strb (s_string q0) qs && forallb (const_guardb Ld key) qs
      | Raise _ => false
      end
  | Raise _ => false
  end.
