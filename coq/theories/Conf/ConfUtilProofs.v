(** Proofs about extrapolate_templates and pattern_replacing (C19). *)
From Coq Require Import List String Ascii Bool Arith Lia.
From Spil Require Import Base.Str Base.Dict Base.StrProofs Conf.ConfUtil.
Import ListNotations.
Local Open Scope string_scope.
Local Open Scope list_scope.

Definition nm (stem part : string) : string := (stem ++ part_key part)%string.
Definition pf (part : string) (rest : list string) : string := join "/" (rev (part :: rest)).

Definition names (t : templates) : list string := map fst t.
Definition tpls (t : templates) : list string := map snd t.

(** What one walk up the parts of an extrapolated type appends. *)
Inductive walk_adds (stem : string) (orig : templates) : list string -> templates -> templates -> Prop :=
| wa_nil acc : walk_adds stem orig [] acc []
| wa_skip part rest acc added :
    (In (pf part rest) (tpls orig ++ tpls acc) \/
     In (nm stem part) (names orig ++ names acc)) ->
    walk_adds stem orig rest acc added ->
    walk_adds stem orig (part :: rest) acc added
| wa_add part rest acc added :
    ~ In (pf part rest) (tpls orig ++ tpls acc) ->
    ~ In (nm stem part) (names orig ++ names acc) ->
    walk_adds stem orig rest (acc ++ [(nm stem part, pf part rest)]) added ->
    walk_adds stem orig (part :: rest) acc ((nm stem part, pf part rest) :: added).

Lemma walk_up_spec stem orig rp : forall acc,
  exists added, walk_up stem orig rp acc = (acc ++ added) /\ walk_adds stem orig rp acc added.
Proof.
  induction rp as [|part rest IH]; intros acc.
  - exists []. split; [simpl; rewrite app_nil_r; reflexivity | constructor].
  - cbn [walk_up].
    destruct (in_list (join "/" (rev (part :: rest))) (map snd orig ++ map snd acc)) eqn:E1.
    + destruct (IH acc) as (added & Hw & Ha). exists added. split; [exact Hw|].
      apply wa_skip; [left; apply in_list_In; exact E1 | exact Ha].
    + destruct (in_list ((stem ++ part_key part)%string) (map fst orig ++ map fst acc)) eqn:E2.
      * destruct (IH acc) as (added & Hw & Ha). exists added. split; [exact Hw|].
        apply wa_skip; [right; apply in_list_In; exact E2 | exact Ha].
      * apply in_list_false in E1. apply in_list_false in E2.
        assert (Hk : ~ In ((stem ++ part_key part)%string) (map fst acc)).
        { intros H. apply E2. apply in_or_app. right. exact H. }
        rewrite (dset_new acc _ _ Hk).
        destruct (IH (acc ++ [((stem ++ part_key part)%string, join "/" (rev (part :: rest)))])) as (added & Hw & Ha).
        exists (((stem ++ part_key part)%string, join "/" (rev (part :: rest))) :: added). split.
        -- rewrite Hw. rewrite <- app_assoc. reflexivity.
        -- apply wa_add; assumption.
Qed.

(** Facts about the appended entries. *)
Lemma walk_adds_fresh stem orig rp acc added :
  walk_adds stem orig rp acc added ->
  Forall (fun kv => ~ In (fst kv) (names orig) /\ ~ In (snd kv) (tpls orig)) added.
Proof.
  induction 1; [constructor | assumption |].
  constructor; [|assumption]. simpl. split; intros Hin.
  - apply H0. apply in_or_app. left. exact Hin.
  - apply H. apply in_or_app. left. exact Hin.
Qed.

Lemma walk_adds_nodup stem orig rp acc added :
  walk_adds stem orig rp acc added ->
  NoDup (names acc) -> NoDup (tpls acc) ->
  NoDup (names (acc ++ added)) /\ NoDup (tpls (acc ++ added)).
Proof.
  induction 1; intros Hn Ht.
  - rewrite app_nil_r. split; assumption.
  - apply IHwalk_adds; assumption.
  - assert (E : (acc ++ (nm stem part, pf part rest) :: added
                 = (acc ++ [(nm stem part, pf part rest)]) ++ added)).
    { rewrite <- app_assoc. reflexivity. }
    rewrite E. apply IHwalk_adds.
    + unfold names. rewrite map_app. simpl. apply NoDup_snoc; [exact Hn|].
      intros Hin. apply H0. apply in_or_app. right. exact Hin.
    + unfold tpls. rewrite map_app. simpl. apply NoDup_snoc; [exact Ht|].
      intros Hin. apply H. apply in_or_app. right. exact Hin.
Qed.

(* every appended entry names a "/"-prefix of the walked parts *)
Lemma walk_adds_form stem orig rp acc added :
  walk_adds stem orig rp acc added ->
  Forall (fun kv => exists pre part rest, rp = (pre ++ part :: rest) /\
                    fst kv = nm stem part /\ snd kv = pf part rest) added.
Proof.
  induction 1.
  - constructor.
  - eapply Forall_impl; [|exact IHwalk_adds].
    intros kv (pre & p & r & E & Hk & Hv). exists (part :: pre), p, r. subst. auto.
  - constructor.
    + exists [], part, rest. auto.
    + eapply Forall_impl; [|exact IHwalk_adds].
      intros kv (pre & p & r & E & Hk & Hv). exists (part :: pre), p, r. subst. auto.
Qed.

(* every level is covered afterwards: owned by some template, or its name is taken *)
Lemma walk_adds_complete stem orig rp acc added :
  walk_adds stem orig rp acc added ->
  forall pre part rest, rp = (pre ++ part :: rest) ->
    In (pf part rest) (tpls orig ++ tpls (acc ++ added)) \/
    In (nm stem part) (names orig ++ names (acc ++ added)).
Proof.
  assert (mono : forall (f : string * string -> string) (a b : templates) x o,
             In x (o ++ map f a) -> In x (o ++ map f (a ++ b))).
  { intros f a b x o Hin. apply in_app_or in Hin. apply in_or_app. destruct Hin as [Hin|Hin]; [left; exact Hin|].
    right. rewrite map_app. apply in_or_app. left. exact Hin. }
  induction 1; intros pre p r E.
  - destruct pre; discriminate.
  - destruct pre as [|x pre]; simpl in E; inversion E; subst.
    + destruct H as [H|H]; [left | right]; apply mono; exact H.
    + eapply IHwalk_adds. reflexivity.
  - assert (Eapp : (acc ++ (nm stem part, pf part rest) :: added
                 = (acc ++ [(nm stem part, pf part rest)]) ++ added)).
    { rewrite <- app_assoc. reflexivity. }
    destruct pre as [|x pre]; simpl in E; inversion E; subst.
    + left. apply in_or_app. right. unfold tpls. rewrite map_app. apply in_or_app. right. simpl. left. reflexivity.
    + rewrite Eapp. eapply IHwalk_adds. reflexivity.
Qed.

(** The outer loop. *)
Definition step (sep : string) (orig : templates) (te : list string) (acc : templates) (kv : string * string) : templates :=
  let acc' := dset acc (fst kv) (snd kv) in
  if in_list (fst kv) te then extrapolate_one sep orig (fst kv) (snd kv) acc' else acc'.

Lemma extrapolate_fold sep orig te : extrapolate_templates sep orig te = fold_left (step sep orig te) orig [].
Proof. reflexivity. Qed.

Definition is_orig (orig : templates) (kv : string * string) : bool := in_list (fst kv) (names orig).

(* invariant after the explicit entries [done] have been visited *)
Definition Inv (orig done acc : templates) : Prop :=
  filter (is_orig orig) acc = done /\
  NoDup (names acc) /\ NoDup (tpls acc) /\
  Forall (fun kv => In kv done \/ (~ In (fst kv) (names orig) /\ ~ In (snd kv) (tpls orig))) acc.

Lemma filter_fresh orig (added : templates) :
  Forall (fun kv => ~ In (fst kv) (names orig) /\ ~ In (snd kv) (tpls orig)) added ->
  filter (is_orig orig) added = [].
Proof.
  induction 1 as [|kv l [Hk _] _ IH]; simpl; [reflexivity|].
  unfold is_orig at 1. apply in_list_false in Hk. rewrite Hk. exact IH.
Qed.

Lemma inv_step sep orig te done x todo acc :
  NoDup (names orig) -> NoDup (tpls orig) ->
  orig = (done ++ x :: todo) ->
  Inv orig done acc -> Inv orig (done ++ [x]) (step sep orig te acc x).
Proof.
  intros Hno Hto E (Hf & Hn & Ht & Hall).
  assert (Hx_in : In (fst x) (names orig)).
  { rewrite E. unfold names. rewrite map_app. apply in_or_app. right. left. reflexivity. }
  assert (Hx_notdone : ~ In (fst x) (names done) /\ ~ In (snd x) (tpls done)).
  { rewrite E in Hno, Hto. unfold names, tpls in *. rewrite map_app in Hno, Hto. simpl in Hno, Hto.
    split; intros Hin.
    - apply NoDup_remove_2 in Hno. apply Hno. apply in_or_app. left. exact Hin.
    - apply NoDup_remove_2 in Hto. apply Hto. apply in_or_app. left. exact Hin. }
  assert (Hx_tin : In (snd x) (tpls orig)).
  { rewrite E. unfold tpls. rewrite map_app. apply in_or_app. right. left. reflexivity. }
  assert (Hk : ~ In (fst x) (names acc)).
  { intros Hin. unfold names in Hin. apply in_map_iff in Hin. destruct Hin as (kv & Ek & Hin).
    rewrite Forall_forall in Hall. destruct (Hall kv Hin) as [Hd|[Hfr _]].
    - apply (proj1 Hx_notdone). rewrite <- Ek. unfold names. apply in_map. exact Hd.
    - apply Hfr. rewrite Ek. exact Hx_in. }
  assert (Hv : ~ In (snd x) (tpls acc)).
  { intros Hin. unfold tpls in Hin. apply in_map_iff in Hin. destruct Hin as (kv & Ek & Hin).
    rewrite Forall_forall in Hall. destruct (Hall kv Hin) as [Hd|[_ Hfr]].
    - apply (proj2 Hx_notdone). rewrite <- Ek. unfold tpls. apply in_map. exact Hd.
    - apply Hfr. rewrite Ek. exact Hx_tin. }
  assert (Inv1 : Inv orig (done ++ [x]) (acc ++ [x])).
  { repeat split.
    - rewrite filter_app. rewrite Hf. simpl. unfold is_orig at 1.
      apply in_list_In in Hx_in. rewrite Hx_in. reflexivity.
    - unfold names. rewrite map_app. apply NoDup_snoc; assumption.
    - unfold tpls. rewrite map_app. apply NoDup_snoc; assumption.
    - apply Forall_app. split.
      + eapply Forall_impl; [|exact Hall]. intros kv [H|H]; [left; apply in_or_app; left; exact H | right; exact H].
      + constructor; [|constructor]. left. apply in_or_app. right. left. reflexivity. }
  unfold step. destruct x as [k v]. simpl in *. rewrite (dset_new acc k v Hk).
  destruct (in_list k te); [|exact Inv1].
  unfold extrapolate_one.
  destruct (walk_up_spec (take (String.length k - String.length (keytype_of sep k)) k) orig
              (rev (removelast (split_c "/" v))) (acc ++ [(k, v)])) as (added & Hw & Ha).
  rewrite Hw. destruct Inv1 as (Hf1 & Hn1 & Ht1 & Hall1).
  pose proof (walk_adds_fresh _ _ _ _ _ Ha) as Hfresh.
  destruct (walk_adds_nodup _ _ _ _ _ Ha Hn1 Ht1) as (Hn2 & Ht2).
  repeat split.
  - rewrite filter_app. rewrite Hf1. rewrite (filter_fresh orig added Hfresh). apply app_nil_r.
  - exact Hn2.
  - exact Ht2.
  - apply Forall_app. split; [exact Hall1|].
    eapply Forall_impl; [|exact Hfresh]. intros kv H. right. exact H.
Qed.

Lemma extrapolate_inv sep orig te :
  NoDup (names orig) -> NoDup (tpls orig) ->
  Inv orig orig (extrapolate_templates sep orig te).
Proof.
  intros Hn Ht. rewrite extrapolate_fold.
  apply (fold_left_inv (step sep orig te) (fun done acc => Inv orig done acc)).
  - repeat split; constructor.
  - intros done x todo acc E HI. eapply inv_step; eassumption.
Qed.

(** C19: explicit entries are kept, with their templates, in their relative order. *)
Theorem extrapolate_keeps sep orig te :
  NoDup (names orig) -> NoDup (tpls orig) ->
  filter (is_orig orig) (extrapolate_templates sep orig te) = orig.
Proof. intros Hn Ht. exact (proj1 (extrapolate_inv sep orig te Hn Ht)). Qed.

Theorem extrapolate_nodup sep orig te :
  NoDup (names orig) -> NoDup (tpls orig) ->
  NoDup (names (extrapolate_templates sep orig te)) /\ NoDup (tpls (extrapolate_templates sep orig te)).
Proof.
  intros Hn Ht. destruct (extrapolate_inv sep orig te Hn Ht) as (_ & H1 & H2 & _). split; assumption.
Qed.

(* nothing else: an entry is explicit, or its name and template are both new *)
Theorem extrapolate_nothing_else sep orig te :
  NoDup (names orig) -> NoDup (tpls orig) ->
  Forall (fun kv => In kv orig \/ (~ In (fst kv) (names orig) /\ ~ In (snd kv) (tpls orig)))
         (extrapolate_templates sep orig te).
Proof. intros Hn Ht. exact (proj2 (proj2 (proj2 (extrapolate_inv sep orig te Hn Ht)))). Qed.

(** pattern_replacing *)
Theorem pattern_replacing_names t kp : names (pattern_replacing t kp) = names t.
Proof. unfold pattern_replacing, names. rewrite map_map. reflexivity. Qed.

Lemma pattern_replace_one_untouched kp keytype template :
  (forall sel repl, In (sel, repl) kp -> contains sel keytype = false) ->
  pattern_replace_one kp keytype template = template.
Proof.
  unfold pattern_replace_one. revert template.
  induction kp as [|[sel repl] kp IH]; intros template H; simpl; [reflexivity|].
  rewrite (H sel repl (or_introl eq_refl)). apply IH.
  intros s r Hin. apply (H s r). right. exact Hin.
Qed.

Theorem pattern_replacing_untouched t kp n tpl :
  In (n, tpl) t ->
  (forall sel repl, In (sel, repl) kp -> contains sel n = false) ->
  In (n, tpl) (pattern_replacing t kp).
Proof.
  intros Hin H. unfold pattern_replacing. apply in_map_iff. exists (n, tpl). split; [|exact Hin].
  simpl. rewrite pattern_replace_one_untouched; [reflexivity | exact H].
Qed.

Theorem pattern_replacing_pointwise t kp :
  pattern_replacing t kp = map (fun kv => (fst kv, pattern_replace_one kp (fst kv) (snd kv))) t.
Proof. reflexivity. Qed.

(** Lifting the facts about one walk to the whole result. *)
Definition stem_of (sep sid_type : string) : string :=
  take (String.length sid_type - String.length (keytype_of sep sid_type)) sid_type.
Definition rparts (template : string) : list string := rev (removelast (split_c "/" template)).

(* kv was generated from the extrapolated explicit type (t, tpl) at some level *)
Definition generated_from (sep : string) (t tpl : string) (kv : string * string) : Prop :=
  exists pre part rest, rparts tpl = pre ++ part :: rest /\
    fst kv = nm (stem_of sep t) part /\ snd kv = pf part rest.

Definition covered (sep : string) (orig acc : templates) (t tpl : string) : Prop :=
  forall pre part rest, rparts tpl = pre ++ part :: rest ->
    In (pf part rest) (tpls orig ++ tpls acc) \/ In (nm (stem_of sep t) part) (names orig ++ names acc).

Lemma covered_mono sep orig acc more t tpl : covered sep orig acc t tpl -> covered sep orig (acc ++ more) t tpl.
Proof.
  intros H pre part rest E. destruct (H pre part rest E) as [Hin|Hin]; [left|right];
    apply in_app_or in Hin; apply in_or_app; (destruct Hin as [Hin|Hin]; [left; exact Hin|right]).
  - unfold tpls. rewrite map_app. apply in_or_app. left. exact Hin.
  - unfold names. rewrite map_app. apply in_or_app. left. exact Hin.
Qed.

Definition Inv2 (sep : string) (te : list string) (orig done acc : templates) : Prop :=
  Inv orig done acc /\
  Forall (fun kv => In kv orig \/ exists t tpl, In (t, tpl) orig /\ in_list t te = true /\ generated_from sep t tpl kv) acc /\
  (forall t tpl, In (t, tpl) done -> in_list t te = true -> covered sep orig acc t tpl).

Lemma inv2_step sep orig te done x todo acc :
  NoDup (names orig) -> NoDup (tpls orig) ->
  orig = done ++ x :: todo ->
  Inv2 sep te orig done acc -> Inv2 sep te orig (done ++ [x]) (step sep orig te acc x).
Proof.
  intros Hno Hto E (HI & Hform & Hcov).
  pose proof (inv_step sep orig te done x todo acc Hno Hto E HI) as HI'.
  split; [exact HI'|].
  destruct HI as (Hf & Hn & Ht & Hall).
  assert (Hx_in : In (fst x) (names orig)).
  { rewrite E. unfold names. rewrite map_app. apply in_or_app. right. left. reflexivity. }
  assert (Hx_notdone : ~ In (fst x) (names done)).
  { rewrite E in Hno. unfold names in *. rewrite map_app in Hno. simpl in Hno.
    intros Hin. apply NoDup_remove_2 in Hno. apply Hno. apply in_or_app. left. exact Hin. }
  assert (Hk : ~ In (fst x) (names acc)).
  { intros Hin. unfold names in Hin. apply in_map_iff in Hin. destruct Hin as (kv & Ek & Hin).
    rewrite Forall_forall in Hall. destruct (Hall kv Hin) as [Hd|[Hfr _]].
    - apply Hx_notdone. rewrite <- Ek. unfold names. apply in_map. exact Hd.
    - apply Hfr. rewrite Ek. exact Hx_in. }
  assert (Hxo : In x orig). { rewrite E. apply in_or_app. right. left. reflexivity. }
  unfold step. destruct x as [k v]. simpl in *. rewrite (dset_new acc k v Hk).
  destruct (in_list k te) eqn:Ete.
  - unfold extrapolate_one.
    destruct (walk_up_spec (take (String.length k - String.length (keytype_of sep k)) k) orig
                (rev (removelast (split_c "/" v))) (acc ++ [(k, v)])) as (added & Hw & Ha).
    rewrite Hw. split.
    + apply Forall_app. split; [apply Forall_app; split|].
      * exact Hform.
      * constructor; [left; exact Hxo | constructor].
      * pose proof (walk_adds_form _ _ _ _ _ Ha) as Hf2.
        eapply Forall_impl; [|exact Hf2]. intros kv Hg. right. exists k, v. repeat split; try assumption.
    + intros t tpl Hin Het. apply in_app_or in Hin. destruct Hin as [Hin|[Hin|[]]].
      * rewrite <- app_assoc. apply covered_mono. apply Hcov; assumption.
      * inversion Hin; subst t tpl. intros pre part rest Epr.
        exact (walk_adds_complete _ _ _ _ _ Ha pre part rest Epr).
  - split.
    + apply Forall_app. split; [exact Hform|]. constructor; [left; exact Hxo | constructor].
    + intros t tpl Hin Het. apply in_app_or in Hin. destruct Hin as [Hin|[Hin|[]]].
      * apply covered_mono. apply Hcov; assumption.
      * inversion Hin; subst t tpl. congruence.
Qed.

Lemma extrapolate_inv2 sep orig te :
  NoDup (names orig) -> NoDup (tpls orig) ->
  Inv2 sep te orig orig (extrapolate_templates sep orig te).
Proof.
  intros Hn Ht. rewrite extrapolate_fold.
  apply (fold_left_inv (step sep orig te) (fun done acc => Inv2 sep te orig done acc)).
  - split; [repeat split; constructor|]. split; [constructor|]. intros t tpl [].
  - intros done x todo acc E HI. eapply inv2_step; eassumption.
Qed.

(* every added entry is a "/"-prefix level of an extrapolated explicit type, named stem + last key *)
Theorem extrapolate_added_form sep orig te :
  NoDup (names orig) -> NoDup (tpls orig) ->
  Forall (fun kv => In kv orig \/ exists t tpl, In (t, tpl) orig /\ in_list t te = true /\ generated_from sep t tpl kv)
         (extrapolate_templates sep orig te).
Proof. intros Hn Ht. exact (proj1 (proj2 (extrapolate_inv2 sep orig te Hn Ht))). Qed.

(* every level of every extrapolated type is owned by some type afterwards, unless its name was taken *)
Theorem extrapolate_complete sep orig te t tpl :
  NoDup (names orig) -> NoDup (tpls orig) ->
  In (t, tpl) orig -> in_list t te = true ->
  forall pre part rest, rparts tpl = pre ++ part :: rest ->
    In (pf part rest) (tpls (extrapolate_templates sep orig te)) \/
    In (nm (stem_of sep t) part) (names (extrapolate_templates sep orig te)).
Proof.
  intros Hn Ht Hin Het pre part rest E.
  destruct (extrapolate_inv2 sep orig te Hn Ht) as (HI & _ & Hcov).
  destruct (Hcov t tpl Hin Het pre part rest E) as [H|H]; [left|right]; apply in_app_or in H; destruct H as [H|H]; try exact H.
  - (* owned by an explicit type: explicit types are all in the result *)
    destruct HI as (Hf & _). unfold tpls in *. apply in_map_iff in H. destruct H as (kv & Ek & Hk).
    apply in_map_iff. exists kv. split; [exact Ek|].
    rewrite <- Hf in Hk. apply filter_In in Hk. exact (proj1 Hk).
  - destruct HI as (Hf & _). unfold names in *. apply in_map_iff in H. destruct H as (kv & Ek & Hk).
    apply in_map_iff. exists kv. split; [exact Ek|].
    rewrite <- Hf in Hk. apply filter_In in Hk. exact (proj1 Hk).
Qed.
