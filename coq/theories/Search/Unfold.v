(** Model of the search unfolding pipeline: spil/sid/read/unfolders/*.py, spil/sid/core/utils.py
    (expand, simple_typing, extrapolate) and spil/sid/read/tools.py (apply_unfolders, unfold_search). *)
From Coq Require Import List String Ascii Bool Arith.
From Spil Require Import Base.Str Base.Dict Base.Outcome Regex.Re
  Resolva.Template Resolva.Resolver Conf.ConfUtil Conf.Conf Sid.Query Sid.Sid.
Import ListNotations.
Local Open Scope string_scope.

Section WithConf.
Variable L : Loaded.
Let c := l_conf L.

Definition split_query (s : string) : string * string :=
  match split1_c "?" s with
  | (b, Some q) => (b, q)
  | (b, None) => (b, "")
  end.

(** ** extensions.py *)

Definition handle_extension (ext : string) : string :=
  if sempty ext then "" else
  let l := if Nat.ltb 0 (count ors ext) then map strip (split_c "," ext) else [ext] in
  let expanded := flat_map (fun e => match dget (c_extension_alias c) e with Some m => m | None => [e] end) l in
  join "," (sort_s (nodup_s expanded)).

Definition extensions (ss : string) : outcome string :=
  let (body, query) := split_query ss in
  let parts := split_c "/" body in
  let newsid := (removelast parts ++ [handle_extension (last parts "")])%list in
  do query' <- (if sempty query then Ok "" else
                do qd <- to_dict query;
                let leafs := nodup_s (map snd (c_leaf_keys c) ++ match c_leaf_default c with Some k => [k] | None => [] end)%list in
                let qd' := fold_left (fun q lk => match dget q lk with
                                                  | Some e => if sempty e then q else dset q lk (handle_extension e)
                                                  | None => q
                                                  end) leafs qd in
                Ok (to_string qd'));
  Ok (join "/" newsid ++ (if sempty query' then "" else "?" ++ query')).

(** ** or_op.py *)

Fixpoint replace_first (l : list string) (old new : string) : list string :=
  match l with
  | [] => []
  | x :: t => if String.eqb x old then new :: t else x :: replace_first t old new
  end.

Definition start_marker : string := "--start--".

(* for sid in current: new = sid/alt ; replace in found, or append *)
Definition or_alt (current : list string) (alt : string) (found : list string) : list string :=
  fold_left (fun fnd cur =>
               let new := cur ++ sip ++ alt in
               if in_list cur fnd then replace_first fnd cur new else (fnd ++ [new])%list)
            current found.

Definition or_part (found : list string) (part : string) : list string :=
  if contains ors part then
    fold_left (fun fnd alt => or_alt found (strip alt) fnd) (split_c "," part) found
  else
    fold_left (fun fnd cur => replace_first fnd cur (cur ++ sip ++ part)) found found.

Definition or_on_path (ss : string) : list string :=
  let found := fold_left or_part (split_c "/" ss) [start_marker] in
  fold_left (fun result s => if in_list s result then result
                             else (result ++ [replace (start_marker ++ sip) "" s])%list) found [].

Definition or_on_query (query : string) : outcome (list string) :=
  do qd <- to_dict query;
  let result :=
    fold_left (fun (res : list (dict string)) kv =>
                 if Nat.ltb 0 (count ors (snd kv)) then
                   flat_map (fun i => map (fun d => dset d (fst kv) i) res) (split_c "," (snd kv))
                 else res) qd [qd] in
  Ok (map to_string result).

Definition or_op (ss : string) : outcome (list string) :=
  if Nat.eqb (count ors ss) 0 then Ok [ss] else
  let (body, query) := split_query ss in
  let sids := or_on_path body in
  if sempty query then Ok sids else
  do uris <- or_on_query query;
  Ok (flat_map (fun s => map (fun u => s ++ "?" ++ u) uris) sids).

(** ** core/utils.py : simple_typing, expand *)

Definition typed_uri (ty body query : string) : string :=
  ty ++ ":" ++ body ++ (if sempty query then "" else "?" ++ query).

Fixpoint nodup_sid (l : list sid) : list sid :=
  match l with
  | [] => []
  | x :: t => if existsb (sid_eqb x) t then nodup_sid t else x :: nodup_sid t
  end.

Definition simple_typing (ss : string) : outcome (list sid) :=
  let (body, query) := split_query ss in
  let root := hd "" (split_s "/*" body) in
  do rs <- Sid L root;
  match basetype L rs with
  | None => do x <- Sid L ss; Ok [x]
  | Some _ =>
      do matching <- sid_to_dicts L body;
      do result <- mapM (fun td => Sid L (typed_uri (fst td) body query)) matching;
      match result with
      | [] => do x <- Sid L ss; Ok [x]
      | _ => Ok (nodup_sid result)
      end
  end.

Fixpoint repeat_s (s : string) (n : nat) : string :=
  match n with O => "" | S n' => s ++ repeat_s s n' end.

Definition n_placeholders (t : tpl) : nat := List.length (item_names (tp_items t)).
Definition last_key (t : tpl) : option string := last_opt (item_names (tp_items t)).

(* the loop of expand over sid_templates; state = (tested, found, result) *)
Definition expand_step (body query leaf_key : string) (st : outcome (list string * list string * list sid)) (t : tpl)
  : outcome (list string * list string * list sid) :=
  do '(tested, found, result) <- st;
  if in_list (tp_name t) found then Ok (tested, found, result) else
  if negb (match last_key t with Some k => String.eqb k leaf_key | None => false end) then Ok (tested, found, result) else
  let cnt := n_placeholders t - 1 in
  let current := count "/" body in
  let needed := cnt + 1 - current in          (* python: count - current + 1, negative -> repeat gives "" *)
  let test := replace "/**" (repeat_s "/*" needed) body in
  if in_list test tested then Ok (tested, found, result) else
  do matching <- sid_to_dicts L test;
  do news <- mapM (fun td =>
                     match last_opt (dkeys (snd td)) with
                     | Some k => if String.eqb k leaf_key
                                 then do x <- Sid L (typed_uri (fst td) test query); Ok [x]
                                 else Ok []
                     | None => Ok []
                     end) matching;
  Ok ((tested ++ [test])%list, (found ++ map fst matching)%list, (result ++ List.concat news)%list).

Definition expand (ss : string) : outcome (list sid) :=
  if Nat.eqb (count "/**" ss) 0 then simple_typing ss else
  if Nat.ltb 1 (count "/**" ss) then Raise SpilException else
  let (body, query) := split_query ss in
  let root := hd "" (split_s "/**" body) in
  do rs <- Sid L root;
  match basetype L rs with
  | None => Raise SpilException
  | Some bt =>
      match dget (c_leaf_keys c) bt with
      | None => Raise SpilException
      | Some leaf_key =>
          if sempty leaf_key then Raise SpilException else
          do '(_, _, result) <- fold_left (expand_step body query leaf_key) (r_tpls (l_sid L)) (Ok ([], [], []));
          Ok (nodup_sid result)
      end
  end.

(** ** typed_narrow.py *)

Definition narrow_with (table : list (string * string)) (key : option string) (x : sid) : outcome sid :=
  match key with
  | None => Ok x
  | Some k => match dget table k with
              | Some q => if sempty q then Ok x else get_with_query L x q
              | None => Ok x
              end
  end.

Definition type_narrow (x : sid) : outcome sid :=
  if Nat.ltb 0 (count "?" (s_string x)) then Ok x else
  do x1 <- narrow_with (c_base_narrowing c) (basetype L x) x;
  narrow_with (c_typed_narrowing c) (Some (s_type x1)) x1.

(** ** core/utils.extrapolate on one sid (as_sid=True): the sid itself and its "/"-prefixes, longest first *)

Fixpoint prefixes_desc (parts : list string) (n : nat) : list string :=
  match n with
  | O => []
  | S n' => join "/" (firstn n parts) :: prefixes_desc parts n'
  end.

Definition extrapolate_one_sid (x : sid) : outcome (list sid) :=
  let s := s_string x in
  let parts := split_c "/" s in
  mapM (Sid L) (nodup_s (s :: prefixes_desc parts (List.length parts - 1))).

(** ** tools.py *)

Fixpoint concat_mapM {A B} (f : A -> outcome (list B)) (l : list A) : outcome (list B) :=
  match l with
  | [] => Ok []
  | x :: t => do y <- f x; do ys <- concat_mapM f t; Ok (y ++ ys)%list
  end.

Definition sid_key_leb (x y : sid) : bool :=
  if str_ltb (s_string x) (s_string y) then true
  else if str_ltb (s_string y) (s_string x) then false
  else str_leb (s_type x) (s_type y).

Fixpoint insert_sid (x : sid) (l : list sid) : list sid :=
  match l with
  | [] => [x]
  | y :: t => if sid_key_leb x y then x :: l else y :: insert_sid x t
  end.
Definition sort_sids (l : list sid) : list sid := fold_right insert_sid [] l.

Definition apply_unfolders (ss : string) (do_extrapolate : bool) : outcome (list sid) :=
  do s1 <- extensions ss;
  do s2 <- or_op s1;
  do s3 <- concat_mapM expand s2;
  do s4 <- mapM type_narrow s3;
  do s5 <- (if do_extrapolate then concat_mapM extrapolate_one_sid s4 else Ok s4);
  Ok (sort_sids (nodup_sid s5)).

Fixpoint uniquify (done : list string) (l : list sid) : list sid :=
  match l with
  | [] => []
  | x :: t => if in_list (s_string x) done then uniquify done t else x :: uniquify (s_string x :: done) t
  end.

Definition unfold_search (search : string) (do_uniquify do_extrapolate : bool) : outcome (list sid) :=
  do l <- apply_unfolders search do_extrapolate;
  let l' := filter (fun x => sid_bool x && Nat.eqb (count "?" (s_string x)) 0) l in
  Ok (if do_uniquify then uniquify [] l' else l').

End WithConf.
