(** C12 — exists, find_one, children and siblings agree with find.  Property theorems only (Finder level, list-backed;
    and the Sid-level clauses - exists() is membership, children() / siblings() are the members below / beside, what exists has
    an existing parent - over a data set materialised as a tree, for the levels served by the path finder, under decidable
    guards evaluated on the live configuration below.  Levels served by configured constants: correspondence + oracle). *)
From Coq Require Import List String Ascii Bool Arith Permutation Sorted.
From Spil Require Import Base.Str Base.Dict Base.Outcome Regex.Re Conf.Conf Conf.WF Sid.Sid
  Search.Unfold Search.FindList Search.Finders Search.GlobProofs Search.FindListProofs Search.UnfoldProofs Search.FindersProofs Conf.Routing FS.Fs Data.Data Data.DataSpecProofs.
From Spil Require Import Base.PyPath Sid.Query Sid.SidProofs Path.UnambiguousDefs Path.UnambiguousProofs Search.GlobProofs
  Search.TreeListDefs Search.TreeListProofs Data.SidLevelDefs Data.SidLevelProofs Data.SidLevelLast.
From Spil Require Import Search.ConstantsDefs Search.ConstantsLemmas Search.ConstantsProofs Search.ConstantsTree.
From SpilGen Require Hamlet.
Import ListNotations.
Local Open Scope string_scope.

Theorem C12_find_one : forall L items s o, find_one L items s = Ok o ->
  exists l, find_list L items s = Ok l /\ o = hd_error l.
Proof. exact find_one_spec. Qed.
Print Assumptions C12_find_one.

Theorem C12_exists : forall L items s b, ~ In "" items -> exists_ L items s = Ok b ->
  exists l, find_list L items s = Ok l /\ b = negb (match l with [] => true | _ => false end).
Proof. exact exists_nonempty. Qed.
Print Assumptions C12_exists.

(* as_sid=False yields exactly the strings of the as_sid=True results *)
Theorem C12_as_sid : forall c Ld, load c = Some Ld -> wf_loadedb Ld = true ->
  forall items s xs, Forall plain_entry items -> find_list_sids Ld items s = Ok xs ->
  exists l, find_list Ld items s = Ok l /\ map s_string xs = l.
Proof. exact find_list_sids_strings_items. Qed.
Print Assumptions C12_as_sid.

(* Sid level, over the file-system model: exists() is non-emptiness of FindInAll's answer; a leaf has no children; no duplicates *)
Theorem C12_sid_exists : forall Ld Rt F x b, sid_exists Ld Rt F x = Ok b -> s_fields x <> [] ->
  exists l, find_all Ld Rt F (s_string x) = Ok l /\ b = match l with [] => false | s :: _ => truthy s end.
Proof. exact FindersProofs.sid_exists_spec. Qed.
Print Assumptions C12_sid_exists.

Theorem C12_leaf_no_children : forall Ld Rt F x, is_leaf Ld x = true -> children Ld Rt F x = Ok [].
Proof. exact leaf_no_children. Qed.
Print Assumptions C12_leaf_no_children.

Theorem C12_find_all_nodup : forall Ld Rt F s l, find_all Ld Rt F s = Ok l -> NoDup l.
Proof. exact find_all_nodup. Qed.
Print Assumptions C12_find_all_nodup.

(* children() is FindInAll's answer for "<sid>/*"; siblings() for the parent level with the key starred *)
Theorem C12_children : forall Ld Rt F x l, is_leaf Ld x = false -> children Ld Rt F x = Ok l ->
  (exists q, sid_div Ld x "*" = Ok q /\ find_all Ld Rt F (s_string q) = Ok l) /\ NoDup l.
Proof. exact children_spec. Qed.
Print Assumptions C12_children.

Theorem C12_siblings : forall Ld Rt F x k l, siblings Ld Rt F x = Ok l -> keytype x = Some k ->
  exists a q, get_as Ld x k = Ok a /\ get_with_kw Ld a [(k, Some "*")] = Ok q /\ find_all Ld Rt F (s_string q) = Ok l.
Proof. exact siblings_spec. Qed.
Print Assumptions C12_siblings.

(* the guard of C12_exists is needed: the recorded edge (D20) *)
Example C12_exists_empty_string_refuted :
  exists_ Hamlet.the_loaded [""] "*" = Ok false /\ find_list Hamlet.the_loaded [""] "*" = Ok [""].
Proof. vm_compute. split; reflexivity. Qed.
Print Assumptions C12_exists_empty_string_refuted.

(** ** Sid level, over a data set materialised as a tree (Data/SidLevelProofs.v): for the levels served by the path finder *)

(* FindInAll on searches routed to the path finder: exactly the matching members of the data set *)
Theorem C12_find_all_paths :
  forall (c : Conf) (Ld : Loaded),
  load c = Some Ld ->
  wf_loadedb Ld = true ->
  paths_unambiguousb Ld = true ->
  forall (cfg : string) (E : list sid) (F : fs),
  dataset_ok Ld cfg E F ->
  forall (Rt : Routing) (id s : string) (qs : list sid) (l : list string),
  unfold_search Ld s false false = Ok qs ->
  routed_to Rt (FPaths id cfg) qs ->
  searches_ok Ld cfg qs ->
  pat_inj Ld cfg qs ->
  find_all Ld Rt F s = Ok l ->
  forall r : string,
  In r l <->
  (exists e q : sid, In e E /\ In q qs /\ r = s_string e /\ s_type e = s_type q /\ glob_rel (s_string q) (s_string e)).
Proof. exact find_all_paths_spec. Qed.
Print Assumptions C12_find_all_paths.

(* exists() is membership *)
Theorem C12_exists_is_membership :
  forall (c : Conf) (Ld : Loaded),
  load c = Some Ld ->
  wf_loadedb Ld = true ->
  paths_unambiguousb Ld = true ->
  forall (cfg : string) (E : list sid) (F : fs),
  dataset_ok Ld cfg E F ->
  forall (Rt : Routing) (id : string) (x : sid) (b : bool),
  exists_guardb Ld Rt id cfg x = true -> sid_exists Ld Rt F x = Ok b -> b = true <-> In x E.
Proof. exact sid_exists_specb. Qed.
Print Assumptions C12_exists_is_membership.

(* children(): the existing Sids whose parent is the Sid (when every member below it is of a searched type) *)
Theorem C12_children_are_the_members_below :
  forall (c : Conf) (Ld : Loaded),
  load c = Some Ld ->
  wf_loadedb Ld = true ->
  paths_unambiguousb Ld = true ->
  forall (cfg : string) (E : list sid) (F : fs),
  dataset_ok Ld cfg E F ->
  forall (Rt : Routing) (id : string) (x : sid) (l : list string),
  children_guardb Ld Rt id cfg x = true ->
  (forall (q0 : sid) (qs : list sid),
   sid_div Ld x "*" = Ok q0 -> unfold_search Ld (s_string q0) false false = Ok qs -> covered E qs (s_string x)) ->
  children Ld Rt F x = Ok l ->
  forall r : string, In r l <-> (exists e : sid, In e E /\ r = s_string e /\ parent_str (s_string e) = s_string x).
Proof. exact children_spec_coveredb. Qed.
Print Assumptions C12_children_are_the_members_below.

(* ... in general: those of a searched type *)
Theorem C12_children_typed :
  forall (c : Conf) (Ld : Loaded),
  load c = Some Ld ->
  wf_loadedb Ld = true ->
  paths_unambiguousb Ld = true ->
  forall (cfg : string) (E : list sid) (F : fs),
  dataset_ok Ld cfg E F ->
  forall (Rt : Routing) (id : string) (x : sid) (l : list string),
  children_guardb Ld Rt id cfg x = true ->
  children Ld Rt F x = Ok l ->
  exists (q0 : sid) (qs : list sid),
    sid_div Ld x "*" = Ok q0 /\
    unfold_search Ld (s_string q0) false false = Ok qs /\
    (forall r : string,
     In r l <->
     (exists e : sid,
        In e E /\
        r = s_string e /\
        parent_str (s_string e) = s_string x /\
        (exists q : sid, In q qs /\ s_type e = s_type q /\ glob_rel (s_string q) (s_string e)))).
Proof. exact children_spec_setb. Qed.
Print Assumptions C12_children_typed.

(* siblings(): the existing Sids sharing its parent *)
Theorem C12_siblings_set :
  forall (c : Conf) (Ld : Loaded),
  load c = Some Ld ->
  wf_loadedb Ld = true ->
  paths_unambiguousb Ld = true ->
  forall (cfg : string) (E : list sid) (F : fs),
  dataset_ok Ld cfg E F ->
  forall (Rt : Routing) (id : string) (x : sid) (l : list string),
  siblings_guardb Ld Rt id cfg x = true ->
  siblings Ld Rt F x = Ok l ->
  exists (k : string) (a q0 : sid) (qs : list sid),
    keytype x = Some k /\
    get_as Ld x k = Ok a /\
    get_with_kw Ld a [(k, Some "*")] = Ok q0 /\
    unfold_search Ld (s_string q0) false false = Ok qs /\
    (forall r : string,
     In r l <->
     (exists e : sid,
        In e E /\
        r = s_string e /\
        parent_str (s_string e) = parent_str (s_string x) /\
        (exists q : sid, In q qs /\ s_type e = s_type q /\ glob_rel (s_string q) (s_string e)))).
Proof. exact siblings_spec_setb. Qed.
Print Assumptions C12_siblings_set.

(* whatever exists has an existing parent (tree closed under parent directories) *)
Theorem C12_existing_parent :
  forall (c : Conf) (Ld : Loaded),
  load c = Some Ld ->
  wf_loadedb Ld = true ->
  paths_unambiguousb Ld = true ->
  forall (cfg : string) (E : list sid) (F : fs),
  dataset_ok Ld cfg E F ->
  fs_closed F ->
  forall (Rt : Routing) (id : string) (e y : sid) (p : string) (b : bool),
  In e E ->
  parent Ld e = Ok y ->
  sid_path Ld e cfg = Ok (Some p) ->
  nat_typedb Ld y = true ->
  concreteb Ld y = true ->
  path_values_okb y = true ->
  sid_path Ld y cfg = Ok (Some (parent_path p)) ->
  parent_path p <> p -> exists_guardb Ld Rt id cfg y = true -> sid_exists Ld Rt F y = Ok b -> b = true.
Proof. exact exists_parent. Qed.
Print Assumptions C12_existing_parent.

(** ** instance on the configuration of this run: a project down to a task with two versions, as a tree *)
Definition Rt_opt : option Routing := parse_routing Hamlet.raw.
Lemma Rt_parses : Rt_opt <> None.
Proof. vm_compute. discriminate. Qed.
Definition Rt0 : Routing :=
  match Rt_opt as o return (o <> None -> Routing) with
  | Some r => fun _ => r
  | None => fun H => match H eq_refl with end
  end Rt_parses.
Definition mk0 (s : string) : sid := match Sid Hamlet.the_loaded s with Ok x => x | Raise _ => empty_sid end.
Definition v1 := mk0 "hamlet/a/char/ophelia/model/v001".
Definition v3 := mk0 "hamlet/a/char/ophelia/model/v003".
Definition task0 := mk0 "hamlet/a/char/ophelia/model".
(* the path finder that serves the version level, and its configuration, read from the routing table *)
Definition fp : string * string := match finder_for Rt0 (s_type v1) with Some (FPaths i c) => (i, c) | _ => ("", "") end.
Definition E0 : list sid := map mk0
  ["hamlet"; "hamlet/a"; "hamlet/a/char"; "hamlet/a/char/ophelia"; "hamlet/a/char/ophelia/model";
   "hamlet/a/char/ophelia/model/v001"; "hamlet/a/char/ophelia/model/v002"].
Definition pathof0 (x : sid) : string := match sid_path Hamlet.the_loaded x (snd fp) with Ok (Some p) => p | _ => "" end.
Definition F0 : fs :=
  fold_left (fun f x => match fs_mkdir_parents f (pathof0 x) with Ok f' => f' | Raise _ => f end) E0 [("/", Dir)].
Lemma Hpu0 : paths_unambiguousb Hamlet.the_loaded = true.
Proof. vm_compute. reflexivity. Qed.
Lemma HD0 : dataset_ok Hamlet.the_loaded (snd fp) E0 F0.
Proof. apply dataset_okb_sound. vm_compute. reflexivity. Qed.

Example C12_instance_exists :
  map (exists_guardb Hamlet.the_loaded Rt0 (fst fp) (snd fp)) [task0; v1; v3] = [true; true; true] /\
  map (sid_exists Hamlet.the_loaded Rt0 F0) [task0; v1; v3] = [Ok true; Ok true; Ok false] /\
  children Hamlet.the_loaded Rt0 F0 task0 = Ok ["hamlet/a/char/ophelia/model/v001"; "hamlet/a/char/ophelia/model/v002"] /\
  children_guardb Hamlet.the_loaded Rt0 (fst fp) (snd fp) task0 = true /\
  siblings_guardb Hamlet.the_loaded Rt0 (fst fp) (snd fp) v1 = true.
Proof. vm_compute. repeat split; reflexivity. Qed.
Print Assumptions C12_instance_exists.

Example C12_instance_membership x b : In x [task0; v1; v3] -> sid_exists Hamlet.the_loaded Rt0 F0 x = Ok b -> (b = true <-> In x E0).
Proof.
  intros Hx. apply (sid_exists_specb Hamlet.the_conf Hamlet.the_loaded Hamlet.the_loaded_eq Hamlet.conf_wf Hpu0 (snd fp) E0 F0 HD0 Rt0 (fst fp)).
  assert (H : forallb (exists_guardb Hamlet.the_loaded Rt0 (fst fp) (snd fp)) [task0; v1; v3] = true) by (vm_compute; reflexivity).
  rewrite forallb_forall in H. exact (H x Hx).
Qed.
Print Assumptions C12_instance_membership.

(** ** levels served by configured constants: existence and children are by configuration, whatever the tree *)

(* a concrete Sid at a constants-backed level exists, for EVERY file system *)
Theorem C12_constants_exists :
  forall (c : Conf) (Ld : Loaded),
  load c = Some Ld ->
  wf_loadedb Ld = true ->
  forall (Rt : Routing) (F : fs) (x : sid) (id key : string) (values : list string) (pfd : option finder),
  const_exists_guardb Ld Rt (FConstants id key values pfd) key x = true ->
  find_all Ld Rt F (s_string x) = Ok [s_string x] /\ sid_exists Ld Rt F x = Ok true.
Proof. exact constants_existsb. Qed.
Print Assumptions C12_constants_exists.

(* children at a constants-backed level: the accepted configured values below the Sid (the parent finder is not consulted) *)
Theorem C12_constants_children :
  forall (c : Conf) (Ld : Loaded),
  load c = Some Ld ->
  wf_loadedb Ld = true ->
  forall (Rt : Routing) (F : fs) (x q0 : sid) (qs : list sid) (id key : string) (values : list string) (pfd : option finder),
  is_leaf Ld x = false ->
  mem_c "*" (s_string x) = false ->
  mem_c ">" (s_string x) = false ->
  sid_div Ld x "*" = Ok q0 ->
  s_string q0 = child_str (s_string x) "*" ->
  unfold_search Ld (s_string q0) false false = Ok qs ->
  routed_to Rt (FConstants id key values pfd) qs ->
  (forall q : sid, In q qs -> s_string q = s_string q0 /\ const_guard Ld key q) ->
  forallb const_value_okb values = true ->
  children Ld Rt F x =
  Ok (dedup_first (flat_map (fun q : sid => expand_below Ld (map fst (s_fields q)) values (s_string x)) qs)).
Proof. exact constants_children. Qed.
Print Assumptions C12_constants_children.

Example C12_constants_instance :
  let x := mk0 "hamlet/a/char/ophelia/model/v009/w" in
  sid_exists Hamlet.the_loaded Rt0 [] x = Ok true /\
  children Hamlet.the_loaded Rt0 [] (mk0 "hamlet/a/char/ophelia/model/v009") =
    Ok ["hamlet/a/char/ophelia/model/v009/w"; "hamlet/a/char/ophelia/model/v009/p"] /\
  match finder_for Rt0 (s_type x) with
  | Some (FConstants id key values pfd) => const_exists_guardb Hamlet.the_loaded Rt0 (FConstants id key values pfd) key x
  | _ => false
  end = true.
Proof. vm_compute. repeat split; reflexivity. Qed.
Print Assumptions C12_constants_instance.
