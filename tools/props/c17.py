"""C17 an interrupted attribute write leaves the old or the new data, never a ruin; corrupt sidecars are tolerated."""
from harness.runner import PropBase, Case
from harness import gen, core
from props import datalayer as dl

class C17(PropBase):
    id = 'C17'
    rule = ('for first writes and overwrites of several Sids: a crash injected before the first file-system effect, after every written prefix of the (temporary) file '
            '(each byte boundary in thorough, sampled in quick), before and after the replacement, and - independently of how the writer is coded - right before its n-th call that changes the file system; then reads of the Sid and of its neighbours, a search, and a further set; '
            'sidecars corrupted by truncation (at each byte of a sidecar holding non-ASCII values), emptied, or replaced by a directory; non-trivial = an injected crash or corruption; distinct by (scenario, crash point)')
    partial_note = 'durability (fsync) and real-kernel atomicity of rename are assumptions; the crash is simulated by intercepting pathlib / os from the harness'
    def confdir(self, ws):
        return core.make_fs_confdir(ws)
    def cases(self, rng, ctx, tier):
        out = []
        sid_a = dl.ALPHABET['F1']; sid_b = dl.ALPHABET['F3']; sid_d = dl.ALPHABET['D1']
        hid = 0
        points = [('before', 0), ('partial', 0), ('partial', 1), ('partial', 7), ('partial', 5000), ('before_replace', 0), ('after_replace', 0)]
        if tier != 'quick':
            points += [('partial', n) for n in range(2, 60)]
        # and, independently of how the writer is coded, right before its n-th call that changes the file system
        points += [('syscall', n) for n in range(0, 4)]
        for target in (sid_a, sid_d):
            for overwrite in (False, True):
                for mode, n in points:
                    hid += 1
                    m = {'h': hid, 'target': target, 'overwrite': overwrite, 'mode': mode, 'n': n}
                    out.append(Case('fs_reset', [], 'setup', m))
                    for s in (sid_a, sid_b, sid_d):
                        out.append(Case('w_create', ['', s, []], 'setup', m))
                    out.append(Case('w_update', ['', sid_b, [['k', 'other']]], 'setup', m))
                    if overwrite:
                        out.append(Case('w_update', ['', target, [['a', 'old'], ['keep', 'me']]], 'setup', m))
                    out.append(Case('crash_write', ['', target, [['a', 'new'], ['b', 'x y']], mode, str(n)], 'crash', m))
                    out.append(Case('get_data_paths', ['', ['s', target], [], 'str'], 'after-target', m))
                    out.append(Case('get_data_paths', ['', ['s', sid_b], [], 'str'], 'after-other', m))
                    out.append(Case('find_paths', ['', 'hamlet/a/char/x/model/*/*/*'], 'after-search', m))
                    out.append(Case('find_all', ['hamlet/a/char/x/model/*'], 'after-search', m))
                    out.append(Case('fs_dump', [], 'dump', m))
                    out.append(Case('w_update', ['', target, [['c', 'again']]], 'next-set', m))
                    out.append(Case('get_data_paths', ['', ['s', target], [], 'str'], 'after-next-set', m))
        # corrupted sidecars
        for kind in ('corrupt', 'empty', 'dir'):
            hid += 1
            m = {'h': hid, 'kind': kind}
            out.append(Case('fs_reset', [], 'setup', m))
            for s in (sid_a, sid_b, sid_d):
                out.append(Case('w_create', ['', s, [['a', '1']]], 'setup', m))
            out.append(Case('sidecar_of', ['', sid_a], 'setup', m))
            out.append(Case('corrupt_sidecar', ['', sid_a, kind], 'corrupt', m))
            out.append(Case('get_data_paths', ['', ['s', sid_a], [], 'str'], 'corrupt-target', m))
            out.append(Case('get_data_paths', ['', ['s', sid_b], [], 'str'], 'corrupt-other', m))
            out.append(Case('get_paths', ['', 'hamlet/a/char/x/model/*/*/*', [], 'str'], 'corrupt-search', m))
            out.append(Case('find_all', ['hamlet/a/char/x/**/ma'], 'corrupt-search', m))
        # truncation at each byte of a sidecar holding non-ASCII values (a strict prefix of a JSON object is never valid JSON)
        for n in list(range(0, 90)) if tier == 'quick' else list(range(0, 400)):
            hid += 1
            m = {'h': hid, 'kind': 'trunc:%d' % n}
            out.append(Case('fs_reset', [], 'setup', m))
            for s in (sid_a, sid_b):
                out.append(Case('w_create', ['', s, [['a', '1']]], 'setup', m))
            out.append(Case('w_update', ['', sid_a, [['name', 'na\xefve caf\xe9'], ['k', '\xe9' * (1 + n % 7)]]], 'setup', m))
            out.append(Case('corrupt_sidecar', ['', sid_a, 'trunc:%d' % n], 'corrupt', m))
            out.append(Case('get_data_paths', ['', ['s', sid_a], [], 'str'], 'corrupt-target', m))
            out.append(Case('get_data_paths', ['', ['s', sid_b], [], 'str'], 'corrupt-other', m))
            out.append(Case('get_paths', ['', 'hamlet/a/char/x/model/*/*/*', [], 'str'], 'corrupt-search', m))
        out.append(Case('fs_reset', [], 'setup', {}))
        return out
    def compare(self, case, model, impl):
        if case.op == 'fs_dump':
            roots = getattr(self, '_roots', None)
            if roots is None:
                return None
            return None if dl.filter_dump(model, roots) == dl.filter_dump(impl, roots) else 'the real tree differs from the model tree after the crash'
        if case.op in ('get_paths',) and model[0] == 'ok' and impl[0] == 'ok':
            return None if sorted(map(str, model[1])) == sorted(map(str, impl[1])) else 'records differ'
        return None if model == impl else 'model and implementation differ'
    def phase2(self, rng, ctx, cases, impl_out, tier):
        self._roots = dl.roots_of(ctx)
        return []
    def oracle_bulk(self, cases, impl_out, ctx):
        self._roots = dl.roots_of(ctx)
        fails = []
        byh = {}
        for c, o in zip(cases, impl_out):
            if c.meta.get('h'):
                byh.setdefault(c.meta['h'], []).append((c, o))
        for h, lst in byh.items():
            m = lst[0][0].meta
            rec = lambda o: dict((k, v[0] if v else None) for k, v in o[1]) if o[0] == 'ok' else None
            if 'mode' in m:
                old = {'a': 'old', 'keep': 'me'} if m['overwrite'] else {}
                new = dict(old, a='new', b='x y')
                for c, o in lst:
                    if c.stream == 'crash' and o[0] not in ('crashed', 'completed'):
                        fails.append((c, o, 'the write itself failed: %r' % (o,)))
                    if c.stream == 'after-target':
                        r = rec(o)
                        if r is None:
                            fails.append((c, o, 'read after crash failed: %r' % (o,))); break
                        data = {k: v for k, v in r.items() if k != 'sid'}
                        if data != old and data != new:
                            fails.append((c, o, 'after a crash (%s, %s) the data is %r: neither the previous %r nor the new %r' % (m['mode'], m['n'], data, old, new))); break
                        seen = data
                    elif c.stream == 'after-other':
                        r = rec(o)
                        if r is None or {k: v for k, v in r.items() if k != 'sid'} != {'k': 'other'}:
                            fails.append((c, o, 'the data of another Sid changed: %r' % (o,))); break
                    elif c.stream == 'after-search' and o[0] != 'ok':
                        fails.append((c, o, 'a search failed after the crash: %r' % (o,))); break
                    elif c.stream == 'next-set' and o != ['ok', '1']:
                        fails.append((c, o, 'the next set after a crash (%s, %s) failed: %r' % (m['mode'], m['n'], o))); break
                    elif c.stream == 'after-next-set':
                        r = rec(o)
                        if r is None or r.get('c') != 'again':
                            fails.append((c, o, 'the next set did not take effect: %r' % (o,))); break
            else:
                for c, o in lst:
                    if c.stream == 'corrupt-target':
                        r = rec(o)
                        if r is None or r != {'sid': dl.ALPHABET['F1']}:
                            fails.append((c, o, 'a %s sidecar: read returns %r instead of just the sid entry' % (m['kind'], o))); break
                    elif c.stream == 'corrupt-other':
                        r = rec(o)
                        if r is None or r.get('a') != '1':
                            fails.append((c, o, 'a %s sidecar of another Sid changed this read: %r' % (m['kind'], o))); break
                    elif c.stream == 'corrupt-search' and o[0] != 'ok':
                        fails.append((c, o, 'a %s sidecar made a search fail: %r' % (m['kind'], o))); break
        return fails
    def nontrivial(self, case, impl):
        return [case.meta.get('h'), case.op] if case.stream in ('crash', 'corrupt') else None
    def histogram_key(self, case, impl):
        return case.stream + ':' + str(impl[0] if isinstance(impl, list) and impl and isinstance(impl[0], str) else ('dump' if isinstance(impl, list) else impl))

PROP = C17()
