(** C12 / C18: children, siblings, get_last and find_all in terms of the searches they run. *)
From Coq Require Import List String Ascii Bool Arith Lia.
From Spil Require Import Base.Str Base.Dict Base.Outcome Base.StrProofs Base.SplitProofs
  Conf.Conf Conf.Routing Sid.Query Sid.Sid Sid.SidLemmas
  Search.Unfold Search.SortLemmas Search.FindList Search.Finders Search.FindersProofs FS.Fs Data.Data.
Import ListNotations.
Local Open Scope string_scope.
Local Open Scope list_scope.

Section Spec.
Variable Ld : Loaded.
Variable Rt : Routing.
Variable F : fs.

(** * B1. children *)

Theorem children_spec x l :
  is_leaf Ld x = false -> children Ld Rt F x = Ok l ->
  (exists q, sid_div Ld x "*" = Ok q /\ find_all Ld Rt F (s_string q) = Ok l) /\ NoDup l.
Proof.
  intros Hleaf H. split; [|exact (children_nodup Ld Rt F x l H)].
  rewrite (children_nonleaf Ld Rt F x Hleaf) in H.
  destruct (sid_div Ld x "*") as [q|e]; cbn [bind] in H; [|discriminate].
  exists q. split; [reflexivity | exact H].
Qed.

(* a raise of children of a non-leaf is a raise of "/" or of the search *)
Lemma children_raise x e :
  children Ld Rt F x = Raise e ->
  is_leaf Ld x = false /\
  (sid_div Ld x "*" = Raise e \/ exists q, sid_div Ld x "*" = Ok q /\ find_all Ld Rt F (s_string q) = Raise e).
Proof.
  unfold children. destruct (is_leaf Ld x); [discriminate|]. intros H. split; [reflexivity|].
  destruct (sid_div Ld x "*") as [q|e']; cbn [bind] in H.
  - right. exists q. split; [reflexivity | exact H].
  - left. inversion H. reflexivity.
Qed.

(** * B2. siblings *)

Lemma last_opt_In {A} (l : list A) x : last_opt l = Some x -> In x l.
Proof.
  induction l as [|y l IH]; [discriminate|]. destruct l as [|z l].
  - intros H. inversion H. left. reflexivity.
  - intros H. right. apply IH. exact H.
Qed.

(* the keytype is a key of the fields *)
Lemma keytype_dmem x k : keytype x = Some k -> dmem (s_fields x) k = true.
Proof.
  unfold keytype, dkeys, dmem. intros H. apply last_opt_In in H.
  apply (dget_In_keys (s_fields x) k) in H. destruct (dget (s_fields x) k); [reflexivity | congruence].
Qed.

Theorem siblings_as_spec x k l :
  dmem (s_fields x) k = true -> siblings_as Ld Rt F x k = Ok l ->
  exists a q, get_as Ld x k = Ok a /\ get_with_kw Ld a [(k, Some "*")] = Ok q /\
              find_all Ld Rt F (s_string q) = Ok l.
Proof.
  unfold siblings_as, get_with_kv. intros Hm H. rewrite Hm in H. cbn [negb] in H.
  destruct (get_as Ld x k) as [a|e]; cbn [bind] in H; [|discriminate].
  destruct (get_with_kw Ld a [(k, Some "*")]) as [q|e] eqn:Eq; cbn [bind] in H; [|discriminate].
  exists a, q. split; [reflexivity|]. split; [exact Eq | exact H].
Qed.

Theorem siblings_spec x k l :
  siblings Ld Rt F x = Ok l -> keytype x = Some k ->
  exists a q, get_as Ld x k = Ok a /\ get_with_kw Ld a [(k, Some "*")] = Ok q /\
              find_all Ld Rt F (s_string q) = Ok l.
Proof.
  unfold siblings. intros H Hk. rewrite Hk in H.
  exact (siblings_as_spec x k l (keytype_dmem x k Hk) H).
Qed.

Corollary siblings_nodup x l : siblings Ld Rt F x = Ok l -> NoDup l.
Proof.
  intros H. destruct (keytype x) as [k|] eqn:Hk.
  - destruct (siblings_spec x k l H Hk) as (a & q & _ & _ & Hf). exact (find_all_nodup Ld Rt F _ l Hf).
  - unfold siblings in H. rewrite Hk in H. inversion H. constructor.
Qed.

Lemma siblings_no_keytype x : keytype x = None -> siblings Ld Rt F x = Ok [].
Proof. unfold siblings. intros ->. reflexivity. Qed.

(** * C1. get_last *)

Definition effective_key (x : sid) (key : option string) : option string :=
  match key with Some k => if sempty k then keytype x else Some k | None => keytype x end.

(* the answer is the empty Sid, or the Sid of the first result of the ">" search, with a truthy value for the key *)
Theorem get_last_cases x key y :
  get_last Ld Rt F x key = Ok y ->
  y = empty_sid \/
  exists k q l s v,
    effective_key x key = Some k /\
    get_with_kw Ld x [(k, Some ">")] = Ok q /\
    find_all Ld Rt F (s_string q) = Ok l /\
    hd_error l = Some s /\ Sid Ld s = Ok y /\
    sid_get y k = Some v /\ truthy v = true.
Proof.
  unfold get_last. destruct (s_fields x) as [|kv fs] eqn:Ef; intros H.
  - left. inversion H. reflexivity.
  - fold (effective_key x key) in H. destruct (effective_key x key) as [k|] eqn:Ek.
    2:{ left. inversion H. reflexivity. }
    unfold get_with_kv in H.
    destruct (get_with_kw Ld x [(k, Some ">")]) as [q|e] eqn:Eq; cbn [bind] in H; [|discriminate].
    unfold all_find_one in H.
    destruct (find_all Ld Rt F (s_string q)) as [l|e] eqn:El; cbn [bind] in H; [|discriminate].
    destruct l as [|s l'].
    + cbn [bind] in H. left. inversion H. reflexivity.
    + destruct (Sid Ld s) as [found|e] eqn:Es; cbn [bind] in H; [|discriminate].
      destruct (sid_get found k) as [v|] eqn:Ev.
      * destruct (truthy v) eqn:Et.
        -- right. inversion H; subst y. exists k, q, (s :: l'), s, v. repeat split; assumption.
        -- left. inversion H. reflexivity.
      * left. inversion H. reflexivity.
Qed.

Theorem get_last_spec x k y :
  sempty k = false ->
  get_last Ld Rt F x (Some k) = Ok y -> sid_bool y = true ->
  exists q l s v,
    get_with_kw Ld x [(k, Some ">")] = Ok q /\
    find_all Ld Rt F (s_string q) = Ok l /\
    hd_error l = Some s /\ Sid Ld s = Ok y /\
    sid_get y k = Some v /\ truthy v = true.
Proof.
  intros Hk H Hb. destruct (get_last_cases x (Some k) y H) as [->|(k' & q & l & s & v & Ek & Hq & Hl & Hs & Hy & Hv & Ht)].
  - discriminate Hb.
  - unfold effective_key in Ek. rewrite Hk in Ek. inversion Ek; subst k'.
    exists q, l, s, v. repeat split; assumption.
Qed.

(* without an explicit key the keytype is used *)
Corollary get_last_spec_keytype x k y :
  keytype x = Some k ->
  get_last Ld Rt F x None = Ok y -> sid_bool y = true ->
  exists q l s v,
    get_with_kw Ld x [(k, Some ">")] = Ok q /\
    find_all Ld Rt F (s_string q) = Ok l /\
    hd_error l = Some s /\ Sid Ld s = Ok y /\
    sid_get y k = Some v /\ truthy v = true.
Proof.
  intros Hk H Hb. destruct (get_last_cases x None y H) as [->|(k' & q & l & s & v & Ek & Hq & Hl & Hs & Hy & Hv & Ht)].
  - discriminate Hb.
  - unfold effective_key in Ek. rewrite Hk in Ek. inversion Ek; subst k'.
    exists q, l, s, v. repeat split; assumption.
Qed.

(** * B3. find_all: every result comes from the do_find of the finder a typed search is routed to *)

Definition add_to (fd : finder) (q : sid) : list (finder * list sid) -> list (finder * list sid) :=
  fix add (l : list (finder * list sid)) : list (finder * list sid) :=
    match l with
    | [] => [(fd, [q])]
    | (g, qs') :: t => if String.eqb (finder_id g) (finder_id fd) then (g, (qs' ++ [q])%list) :: t
                       else (g, qs') :: add t
    end.

Lemma group_by_finder_cons q rest acc :
  group_by_finder Rt (q :: rest) acc =
  match finder_for Rt (s_type q) with
  | None => group_by_finder Rt rest acc
  | Some fd => group_by_finder Rt rest (add_to fd q acc)
  end.
Proof. reflexivity. Qed.

(* a group: its finder is the one its first search is routed to; every member is a search of [qs]
   routed to a finder with the same finder id *)
Definition good_group (qs : list sid) (fg : finder * list sid) : Prop :=
  (exists q0 tl, snd fg = q0 :: tl /\ finder_for Rt (s_type q0) = Some (fst fg)) /\
  Forall (fun q => In q qs /\ exists fd', finder_for Rt (s_type q) = Some fd' /\
                                          finder_id fd' = finder_id (fst fg)) (snd fg).

Definition group_ids (acc : list (finder * list sid)) : list string := map (fun fg => finder_id (fst fg)) acc.

Lemma add_to_good qs fd q acc :
  In q qs -> finder_for Rt (s_type q) = Some fd ->
  Forall (good_group qs) acc -> Forall (good_group qs) (add_to fd q acc).
Proof.
  intros Hq Hfd. induction acc as [|[g qs'] acc IH]; intros Hall; cbn [add_to].
  - constructor; [|constructor]. split; cbn [fst snd].
    + exists q, []. split; [reflexivity | exact Hfd].
    + constructor; [|constructor]. split; [exact Hq|]. exists fd. split; [exact Hfd | reflexivity].
  - inversion Hall as [|? ? Hg Hrest]; subst.
    destruct (String.eqb (finder_id g) (finder_id fd)) eqn:E.
    + constructor; [|exact Hrest]. apply String.eqb_eq in E.
      destruct Hg as ((q0 & tl & Hs & Hf0) & Hmem). cbn [fst snd] in *. split; cbn [fst snd].
      * exists q0, (tl ++ [q]). split; [rewrite Hs; reflexivity | exact Hf0].
      * apply Forall_app. split; [exact Hmem|]. constructor; [|constructor].
        split; [exact Hq|]. exists fd. split; [exact Hfd | symmetry; exact E].
    + constructor; [exact Hg | apply IH; exact Hrest].
Qed.

Lemma add_to_ids fd q acc :
  NoDup (group_ids acc) -> NoDup (group_ids (add_to fd q acc)) /\
  (forall i, In i (group_ids (add_to fd q acc)) <-> In i (group_ids acc) \/ i = finder_id fd).
Proof.
  induction acc as [|[g qs'] acc IH]; intros Hn; cbn [add_to].
  - split; [constructor; [intros []|constructor]|]. intros i. simpl. intuition.
  - destruct (String.eqb (finder_id g) (finder_id fd)) eqn:E.
    + split; [exact Hn|]. apply String.eqb_eq in E. intros i. simpl. cbn [fst]. rewrite <- E.
      intuition.
    + inversion Hn as [|? ? Hni Hn']; subst. destruct (IH Hn') as (Hn2 & Hin).
      apply String.eqb_neq in E. cbn [fst] in *. split.
      * unfold group_ids. cbn [map fst]. constructor; [|exact Hn2].
        fold (group_ids (add_to fd q acc)). rewrite Hin. intros [H|H]; [exact (Hni H) | exact (E H)].
      * intros i. unfold group_ids. cbn [map fst In]. fold (group_ids (add_to fd q acc)) (group_ids acc).
        rewrite Hin. tauto.
Qed.

Lemma add_to_has fd q acc : exists g grp, In (g, grp) (add_to fd q acc) /\ In q grp /\ finder_id g = finder_id fd.
Proof.
  induction acc as [|[g qs'] acc IH]; cbn [add_to].
  - exists fd, [q]. repeat split; left; reflexivity.
  - destruct (String.eqb (finder_id g) (finder_id fd)) eqn:E.
    + apply String.eqb_eq in E. exists g, (qs' ++ [q]). split; [left; reflexivity|].
      split; [apply in_or_app; right; left; reflexivity | exact E].
    + destruct IH as (g' & grp & Hin & Hq & Hid). exists g', grp. split; [right; exact Hin | split; assumption].
Qed.

(* members stay members *)
Lemma add_to_keeps fd q acc g grp q' : In (g, grp) acc -> In q' grp ->
  exists grp', In (g, grp') (add_to fd q acc) /\ In q' grp'.
Proof.
  induction acc as [|[g0 qs'] acc IH]; intros Hin Hq'; [destruct Hin|]. cbn [add_to].
  destruct (String.eqb (finder_id g0) (finder_id fd)) eqn:E.
  - destruct Hin as [Heq|Hin].
    + inversion Heq; subst. exists (grp ++ [q]). split; [left; reflexivity | apply in_or_app; left; exact Hq'].
    + exists grp. split; [right; exact Hin | exact Hq'].
  - destruct Hin as [Heq|Hin].
    + inversion Heq; subst. exists grp. split; [left; reflexivity | exact Hq'].
    + destruct (IH Hin Hq') as (grp' & H1 & H2). exists grp'. split; [right; exact H1 | exact H2].
Qed.

Lemma group_by_finder_good qs : forall rest acc,
  (forall q, In q rest -> In q qs) ->
  Forall (good_group qs) acc -> NoDup (group_ids acc) ->
  Forall (good_group qs) (group_by_finder Rt rest acc) /\ NoDup (group_ids (group_by_finder Rt rest acc)).
Proof.
  induction rest as [|q rest IH]; intros acc Hsub Hall Hn.
  - split; assumption.
  - rewrite group_by_finder_cons. destruct (finder_for Rt (s_type q)) as [fd|] eqn:Ef.
    + apply IH.
      * intros q' Hq'. apply Hsub. right. exact Hq'.
      * apply add_to_good; [apply Hsub; left; reflexivity | exact Ef | exact Hall].
      * exact (proj1 (add_to_ids fd q acc Hn)).
    + apply IH; [intros q' Hq'; apply Hsub; right; exact Hq' | exact Hall | exact Hn].
Qed.

(* every routed search ends up in a group whose finder has the id of its own finder *)
Lemma group_by_finder_complete : forall rest acc,
  (forall g grp q, In (g, grp) acc -> In q grp ->
     exists grp', In (g, grp') (group_by_finder Rt rest acc) /\ In q grp') /\
  (forall q fd, In q rest -> finder_for Rt (s_type q) = Some fd ->
     exists g grp, In (g, grp) (group_by_finder Rt rest acc) /\ In q grp /\ finder_id g = finder_id fd).
Proof.
  induction rest as [|q0 rest IH]; intros acc.
  - split; [|intros q fd []]. intros g grp q Hin Hq. exists grp. split; assumption.
  - rewrite group_by_finder_cons. destruct (finder_for Rt (s_type q0)) as [fd0|] eqn:Ef.
    + destruct (IH (add_to fd0 q0 acc)) as (Hk & Hc). split.
      * intros g grp q Hin Hq. destruct (add_to_keeps fd0 q0 acc g grp q Hin Hq) as (grp1 & H1 & H2).
        exact (Hk g grp1 q H1 H2).
      * intros q fd [<-|Hq] Hfd.
        -- rewrite Ef in Hfd. inversion Hfd; subst fd0.
           destruct (add_to_has fd q0 acc) as (g & grp & Hin & Hq & Hid).
           destruct (Hk g grp q0 Hin Hq) as (grp' & H1 & H2). exists g, grp'. repeat split; assumption.
        -- exact (Hc q fd Hq Hfd).
    + destruct (IH acc) as (Hk & Hc). split; [exact Hk|].
      intros q fd [<-|Hq] Hfd; [congruence | exact (Hc q fd Hq Hfd)].
Qed.

(** B3, full form *)
Theorem find_all_results_from_groups s l :
  find_all Ld Rt F s = Ok l ->
  exists qs, unfold_search Ld s false false = Ok qs /\
    Forall (good_group qs) (group_by_finder Rt qs []) /\
    NoDup (group_ids (group_by_finder Rt qs [])) /\
    forall e, In e l <->
      exists fd grp r, In (fd, grp) (group_by_finder Rt qs []) /\
                       do_find_g Ld (fstar Ld F fd) grp = Ok r /\ In e r.
Proof.
  unfold find_all. destruct (unfold_search Ld s false false) as [qs|e]; cbn [bind]; [|discriminate].
  destruct (concat_mapM _ (group_by_finder Rt qs [])) as [res|e] eqn:Ec; cbn [bind]; [|discriminate].
  intros H. inversion H; subst l. clear H. exists qs. split; [reflexivity|].
  destruct (group_by_finder_good qs qs [] (fun q H => H) (Forall_nil _) (NoDup_nil _)) as (Hg & Hn).
  split; [exact Hg|]. split; [exact Hn|].
  intros e. rewrite dedup_first_In. split.
  - intros He. destruct (concat_mapM_In _ _ _ _ Ec He) as ([fd grp] & r & Hin & Hr & Her).
    exists fd, grp, r. repeat split; assumption.
  - intros (fd & grp & r & Hin & Hr & Her).
    clear - Ec Hin Hr Her. revert res Ec. induction (group_by_finder Rt qs []) as [|gq gl IH]; [destruct Hin|].
    intros res Ec. cbn [concat_mapM] in Ec.
    destruct (do_find_g Ld (fstar Ld F (fst gq)) (snd gq)) as [y|ex] eqn:Ey; cbn [bind] in Ec; [|discriminate].
    destruct (concat_mapM _ gl) as [ys|ex] eqn:Eys; cbn [bind] in Ec; [|discriminate].
    inversion Ec; subst res. apply in_or_app. destruct Hin as [->|Hin].
    + left. cbn [fst snd] in Ey. rewrite Hr in Ey. inversion Ey; subst y. exact Her.
    + right. apply (IH Hin ys eq_refl).
Qed.

(** B3, in the form of the brief: each result is produced by the do_find of the finder [fd] that some
    typed search [q] of the unfolded search is routed to, run on the group of searches [q] heads. *)
Theorem find_all_results_from_finders s l :
  find_all Ld Rt F s = Ok l ->
  forall e, In e l ->
    exists qs q fd grp,
      unfold_search Ld s false false = Ok qs /\ In q qs /\
      finder_for Rt (s_type q) = Some fd /\
      In (fd, grp) (group_by_finder Rt qs []) /\ hd_error grp = Some q /\
      (forall q', In q' grp -> In q' qs /\ exists fd', finder_for Rt (s_type q') = Some fd' /\
                                                       finder_id fd' = finder_id fd) /\
      exists r, do_find_g Ld (fstar Ld F fd) grp = Ok r /\ In e r.
Proof.
  intros H e He. destruct (find_all_results_from_groups s l H) as (qs & Hu & Hg & _ & Hin).
  destruct (proj1 (Hin e) He) as (fd & grp & r & Hmem & Hr & Her).
  rewrite Forall_forall in Hg. destruct (Hg (fd, grp) Hmem) as ((q0 & tl & Hs & Hf0) & Hall).
  cbn [fst snd] in *. rewrite Forall_forall in Hall.
  exists qs, q0, fd, grp. split; [exact Hu|]. split.
  - apply (Hall q0). rewrite Hs. left. reflexivity.
  - split; [exact Hf0|]. split; [exact Hmem|]. split; [rewrite Hs; reflexivity|].
    split; [exact Hall|]. exists r. split; assumption.
Qed.

(* when finder ids identify finders (one instance per id), every member of a group is routed to the group's finder *)
Corollary find_all_results_from_finders_inj s l :
  (forall t1 t2 f1 f2, finder_for Rt t1 = Some f1 -> finder_for Rt t2 = Some f2 ->
                       finder_id f1 = finder_id f2 -> f1 = f2) ->
  find_all Ld Rt F s = Ok l ->
  forall e, In e l ->
    exists qs fd grp r,
      unfold_search Ld s false false = Ok qs /\
      grp <> [] /\
      (forall q, In q grp <-> In q qs /\ finder_for Rt (s_type q) = Some fd) /\
      do_find_g Ld (fstar Ld F fd) grp = Ok r /\ In e r.
Proof.
  intros Hinj H e He.
  destruct (find_all_results_from_groups s l H) as (qs & Hu & Hg & Hn & Hin).
  destruct (proj1 (Hin e) He) as (fd & grp & r & Hmem & Hr & Her).
  rewrite Forall_forall in Hg. destruct (Hg (fd, grp) Hmem) as ((q0 & tl & Hs & Hf0) & Hall).
  cbn [fst snd] in *. rewrite Forall_forall in Hall.
  exists qs, fd, grp, r. split; [exact Hu|]. split; [rewrite Hs; discriminate|]. split; [|split; assumption].
  intros q. split.
  - intros Hq. destruct (Hall q Hq) as (Hqs & fd' & Hf' & Hid). split; [exact Hqs|].
    rewrite Hf'. f_equal. exact (Hinj _ _ _ _ Hf' Hf0 Hid).
  - intros (Hq & Hf).
    destruct (proj2 (group_by_finder_complete qs []) q fd Hq Hf) as (g & grp' & Hmem' & Hq' & Hid).
    (* the group of q has the id of fd, so it is the group (fd, grp) *)
    assert (E : (g, grp') = (fd, grp)).
    { clear - Hn Hmem Hmem' Hid. induction (group_by_finder Rt qs []) as [|x gl IH]; [destruct Hmem|].
      unfold group_ids in Hn. cbn [map] in Hn. inversion Hn as [|? ? Hni Hn']; subst.
      destruct Hmem as [->|Hmem], Hmem' as [E'|Hmem'].
      - symmetry. exact E'.
      - exfalso. apply Hni. cbn [fst]. rewrite <- Hid.
        apply (in_map (fun fg : finder * list sid => finder_id (fst fg)) gl (g, grp') Hmem').
      - exfalso. apply Hni. subst x. cbn [fst]. rewrite Hid.
        apply (in_map (fun fg : finder * list sid => finder_id (fst fg)) gl (fd, grp) Hmem).
      - apply (IH Hn' Hmem Hmem'). }
    inversion E; subst. exact Hq'.
Qed.

End Spec.
