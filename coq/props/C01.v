From Coq Require Import List String Ascii.
From Spil Require Import Base.Str.
Example C01_placeholder : True. Proof. exact I. Qed.
Print Assumptions C01_placeholder.
