From Coq Require Import List String.
Example C20_placeholder : True. Proof. exact I. Qed.
Print Assumptions C20_placeholder.
