(** Extraction of the executable model. Directives used: exactly those of ExtrOcamlBasic
    and ExtrOcamlString (bool, option, unit, prod, list, sumbool, sumor -> OCaml's own;
    ascii -> char, string -> char list). nat stays the extracted inductive. *)
From Coq Require Import ExtrOcamlBasic ExtrOcamlString.
From Spil Require Import Base.Tree Conf.Conf Conf.Routing Driver.Dispatch Driver.DispatchFs.
Extraction Language OCaml.
Separate Extraction DispatchFs.run_top Dispatch.run Conf.load_tree Routing.parse_routing Tree.tree.
