(** C15: "an entity exists exactly from the moment it or a descendant was created; creating an existing entity
    fails with SpilException and changes nothing", as an invariant over histories of creations without data.
    Definitions and guards: Data/CreateDefs.v; the file tree: Data/CreateFs.v; instances: gen/CreateExamples.v. *)
From Coq Require Import List String Ascii Bool Arith Lia.
From Spil Require Import Base.Str Base.Dict Base.Outcome Base.PyPath Base.StrProofs Base.SplitProofs Regex.Re
  Resolva.Template Resolva.Resolver Conf.ConfUtil Conf.Conf Conf.WF Conf.Routing Sid.Query Sid.Sid Sid.TypingSpec
  Sid.SidLemmas Sid.SidProofs Path.UnambiguousDefs Path.UnambiguousProofs Path.PathProofs FS.Fs
  Search.Unfold Search.Finders Search.GlobProofs Search.TreeListDefs Search.TreeListProofs
  Data.Data Data.SidLevelDefs Data.SidLevelProofs Data.CreateDefs Data.CreateFs.
Import ListNotations.
Local Open Scope string_scope.
Local Open Scope list_scope.

(** * The guard, unpacked *)

Lemma good_sidb_sound Ld x : good_sidb Ld x = true ->
  naturally_typed Ld x /\ concrete Ld x /\ path_values_ok x.
Proof.
  unfold good_sidb. intros H. apply andb_true_iff in H. destruct H as (H & H3).
  apply andb_true_iff in H. destruct H as (H1 & H2).
  split; [exact (nat_typedb_sound Ld x H1)|]. split; [exact (concreteb_sound Ld x H2)|].
  exact (path_values_okb_sound x H3).
Qed.

Lemma outcome_is_sound o y : outcome_is o y = true -> o = Ok y.
Proof. destruct o as [z|e]; cbn; [|discriminate]. intros H. rewrite (sid_eqb_full_eq _ _ H). reflexivity. Qed.

Lemma path_is_sound Ld cfg y a : path_is Ld cfg y a = true -> sid_path Ld y cfg = Ok (Some a).
Proof.
  unfold path_is. destruct (sid_path Ld y cfg) as [[q|]|e]; try discriminate.
  intros H. apply String.eqb_eq in H. subst. reflexivity.
Qed.

Lemma dir_sid_In Ld cfg a y : In y (dir_sid Ld cfg a) <-> sid_factory Ld (FromPath a cfg) = Ok y /\ sid_bool y = true.
Proof.
  unfold dir_sid. destruct (sid_factory Ld (FromPath a cfg)) as [z|e].
  - destruct (sid_bool z) eqn:Eb; cbn [In]; split.
    + intros [<- | []]. split; [reflexivity | exact Eb].
    + intros (H & _). inversion H. left. reflexivity.
    + intros [].
    + intros (H & Hb). inversion H. subst. congruence.
  - cbn [In]. split; [intros [] | intros (H & _); discriminate].
Qed.

Lemma dir_sids_In Ld cfg p y :
  In y (dir_sids Ld cfg p) <->
  exists a, In a (proper_dirs p) /\ sid_factory Ld (FromPath a cfg) = Ok y /\ sid_bool y = true.
Proof.
  unfold dir_sids. rewrite in_flat_map. split; intros (a & Ha & H); exists a; (split; [exact Ha|]); apply dir_sid_In; exact H.
Qed.

Lemma create_guardb_inv Ld cfg x : create_guardb Ld cfg x = true ->
  exists p, sid_path Ld x cfg = Ok (Some p) /\
    naturally_typed Ld x /\ concrete Ld x /\ path_values_ok x /\ abs_path p = true /\ no_hiddenb p = true /\
    (forall a y, In a (proper_dirs p) -> sid_factory Ld (FromPath a cfg) = Ok y -> sid_bool y = true ->
       naturally_typed Ld y /\ concrete Ld y /\ path_values_ok y /\ no_hiddenb a = true /\
       sid_path Ld y cfg = Ok (Some a) /\ exists k, get_as Ld x k = Ok y) /\
    (forall k y py, In k (dkeys (s_fields x)) -> get_as Ld x k = Ok y -> sid_path Ld y cfg = Ok (Some py) ->
       y = x \/ In y (dir_sids Ld cfg p)).
Proof.
  unfold create_guardb. destruct (sid_path Ld x cfg) as [[p|]|e]; try discriminate.
  intros H. apply andb_true_iff in H. destruct H as (H & H5). apply andb_true_iff in H. destruct H as (H & H4).
  apply andb_true_iff in H. destruct H as (H & H3). apply andb_true_iff in H. destruct H as (H1 & H2).
  destruct (good_sidb_sound Ld x H1) as (G1 & G2 & G3).
  exists p. split; [reflexivity|]. repeat (split; [assumption|]). split.
  - intros a y Ha Hy Hb. rewrite forallb_forall in H4. specialize (H4 a Ha). unfold dir_okb in H4.
    rewrite forallb_forall in H4. specialize (H4 y (proj2 (dir_sid_In Ld cfg a y) (conj Hy Hb))).
    apply andb_true_iff in H4. destruct H4 as (K & K4). apply andb_true_iff in K. destruct K as (K & K3).
    apply andb_true_iff in K. destruct K as (K1 & K2).
    destruct (good_sidb_sound Ld y K1) as (Y1 & Y2 & Y3). repeat (split; [assumption|]).
    split; [exact (path_is_sound _ _ _ _ K3)|].
    apply existsb_exists in K4. destruct K4 as (k & _ & Hk). exists k. exact (outcome_is_sound _ _ Hk).
  - intros k y py Hk Hy Hpy. unfold anc_backedb in H5. rewrite forallb_forall in H5. specialize (H5 k Hk).
    rewrite Hy, Hpy in H5. apply existsb_exists in H5. destruct H5 as (z & Hz & Heq).
    apply sid_eqb_full_eq in Heq. subst z. destruct Hz as [<- | Hz]; [left; reflexivity | right; exact Hz].
Qed.

(* under the hypothesis on the configuration, the guard is the guard on the Sid alone *)
Lemma mirror_guard Ld cfg x p : mirror Ld cfg -> good_sidb Ld x = true -> sid_path Ld x cfg = Ok (Some p) ->
  abs_path p = true -> no_hiddenb p = true -> create_guardb Ld cfg x = true.
Proof.
  intros M Hg Hp Ha Hh. destruct (M x p Hg Hp Ha Hh) as (M1 & M2).
  unfold create_guardb. rewrite Hp, Hg, Ha, Hh, M1, M2. reflexivity.
Qed.

(* a prefix Sid on a key that x has not is the empty Sid: it has no path *)
Lemma get_as_path_key Ld cfg x k y py : get_as Ld x k = Ok y -> sid_path Ld y cfg = Ok (Some py) ->
  In k (dkeys (s_fields x)).
Proof.
  unfold get_as. intros Hy Hpy. destruct (s_fields x) as [|kv d] eqn:Ef.
  - inversion Hy. subst y. discriminate.
  - destruct (dmem (kv :: d) k) eqn:Em.
    + unfold dmem in Em. unfold dkeys. apply dget_In_keys. destruct (dget (kv :: d) k); congruence.
    + inversion Hy. subst y. discriminate.
Qed.

(* what a creation adds = the Sid and its prefix Sids that have a path *)
Theorem added_char Ld cfg x e : create_guardb Ld cfg x = true ->
  (In e (added Ld cfg x) <-> anc_with_path Ld cfg x e).
Proof.
  intros Hg. destruct (create_guardb_inv Ld cfg x Hg) as (p & Hp & _ & _ & _ & _ & _ & Hdown & Hup).
  unfold added, anc_with_path. rewrite Hp. cbn [In]. split.
  - intros [<- | He]; [left; reflexivity|]. right.
    apply dir_sids_In in He. destruct He as (a & Ha & Hy & Hb).
    destruct (Hdown a e Ha Hy Hb) as (_ & _ & _ & _ & Hpa & k & Hk). exists k, a. split; assumption.
  - intros [-> | (k & pe & Hk & Hpe)]; [left; reflexivity|].
    destruct (Hup k e pe (get_as_path_key Ld cfg x k e pe Hk Hpe) Hk Hpe) as [-> | H];
      [left; reflexivity | right; exact H].
Qed.

(** * 1. One creation *)

Section Step.
Variables (c : Conf) (Ld : Loaded).
Hypothesis Hload : load c = Some Ld.
Hypothesis Hwf : wf_loadedb Ld = true.
Hypothesis Hpu : paths_unambiguousb Ld = true.
Variable Rt : Routing.

Lemma dataset_add cfg E F F' x p :
  dataset_ok Ld cfg E F -> create_guardb Ld cfg x = true -> sid_path Ld x cfg = Ok (Some p) ->
  (forall k, In k (dkeys F) -> In k (dkeys F')) -> In p (dkeys F') ->
  (forall k, In k (dkeys F') -> In k (dkeys F) \/ k = p \/ In k (proper_dirs p)) ->
  (forall a, In a (proper_dirs p) -> In a (dkeys F')) ->
  dataset_ok Ld cfg (E ++ added Ld cfg x) F'.
Proof.
  intros HD Hg Hp Hsub Hin Hnew Hdirs.
  destruct (create_guardb_inv Ld cfg x Hg) as (p' & Hp' & X1 & X2 & X3 & Xa & Xh & Hdown & _).
  rewrite Hp in Hp'. inversion Hp'. subst p'. clear Hp'.
  assert (Hadd : forall e, In e (added Ld cfg x) -> e = x \/
            exists a, In a (proper_dirs p) /\ sid_factory Ld (FromPath a cfg) = Ok e /\ sid_bool e = true).
  { intros e He. unfold added in He. rewrite Hp in He. destruct He as [<- | He]; [left; reflexivity|].
    right. apply dir_sids_In. exact He. }
  constructor.
  - intros e He. apply in_app_or in He. destruct He as [He | He]; [exact (ds_nat _ _ _ _ HD e He)|].
    destruct (Hadd e He) as [-> | (a & Ha & Hy & Hb)]; [exact X1|]. exact (proj1 (Hdown a e Ha Hy Hb)).
  - intros e He. apply in_app_or in He. destruct He as [He | He]; [exact (ds_conc _ _ _ _ HD e He)|].
    destruct (Hadd e He) as [-> | (a & Ha & Hy & Hb)]; [exact X2|]. exact (proj1 (proj2 (Hdown a e Ha Hy Hb))).
  - intros e He. apply in_app_or in He. destruct He as [He | He]; [exact (ds_vals _ _ _ _ HD e He)|].
    destruct (Hadd e He) as [-> | (a & Ha & Hy & Hb)]; [exact X3|].
    exact (proj1 (proj2 (proj2 (Hdown a e Ha Hy Hb)))).
  - intros e He. apply in_app_or in He. destruct He as [He | He].
    + destruct (ds_path _ _ _ _ HD e He) as (q & Hq & Hk & Hh). exists q. split; [exact Hq|].
      split; [exact (Hsub q Hk) | exact Hh].
    + destruct (Hadd e He) as [-> | (a & Ha & Hy & Hb)].
      * exists p. split; [exact Hp|]. split; [exact Hin | exact Xh].
      * destruct (Hdown a e Ha Hy Hb) as (_ & _ & _ & Hh & Hpa & _). exists a. split; [exact Hpa|].
        split; [exact (Hdirs a Ha) | exact Hh].
  - intros q z Hq Hz Hb. apply in_or_app. destruct (Hnew q Hq) as [HF | [-> | Hd]].
    + left. exact (ds_only _ _ _ _ HD q z HF Hz Hb).
    + right. unfold added. rewrite Hp. left.
      assert (Hne : sempty p = false) by (destruct (abs_path_inv p Xa) as (r & ->); reflexivity).
      cbn [sid_factory] in Hz. rewrite Hne in Hz.
      rewrite (roundtrip c Ld x cfg p Hload Hwf Hpu X1 X2 X3 Hp) in Hz. inversion Hz. reflexivity.
    + right. unfold added. rewrite Hp. right. apply dir_sids_In. exists q. repeat split; assumption.
Qed.

(* create() of a good Sid on a data set: the data set afterwards *)
Theorem create_step_ok cfg E F F' s x :
  dataset_ok Ld (default_cfg Ld cfg) E F -> fs_inv F ->
  w_create Ld Rt F cfg s [] = Ok (F', true) -> Sid Ld s = Ok x ->
  create_guardb Ld (default_cfg Ld cfg) x = true ->
  dataset_ok Ld (default_cfg Ld cfg) (E ++ added Ld (default_cfg Ld cfg) x) F' /\ fs_inv F'.
Proof.
  intros HD Hinv Hw Hs Hg.
  destruct (w_create_ok_inv Ld Rt F cfg s F' true Hw) as (x' & p & Hs' & Hp & Hex & Hop & Hb).
  rewrite Hs in Hs'. inversion Hs'. subst x'. clear Hs'. symmetry in Hb.
  destruct (create_guardb_inv Ld _ x Hg) as (p' & Hp' & _ & _ & _ & Xa & _).
  rewrite Hp in Hp'. inversion Hp'. subst p'. clear Hp'.
  destruct (create_op_keys Ld Rt F x p F' Xa Hop) as (K1 & K2 & _ & K4).
  pose proof (proj1 (fs_exists_In F' p) Hb) as Hin. pose proof (K4 Hb Hinv) as Hdirs. split.
  - exact (dataset_add _ E F F' x p HD Hg Hp K1 Hin K2 Hdirs).
  - exact (fs_inv_step F F' p Xa Hinv K1 Hin K2 Hdirs).
Qed.

(* in the form of the brief: the data set afterwards holds what it held, the Sid, and the prefix Sids of
   the Sid that have a path *)
Corollary create_step_spec cfg E F F' s x :
  dataset_ok Ld (default_cfg Ld cfg) E F -> fs_inv F ->
  w_create Ld Rt F cfg s [] = Ok (F', true) -> Sid Ld s = Ok x ->
  create_guardb Ld (default_cfg Ld cfg) x = true ->
  exists E', dataset_ok Ld (default_cfg Ld cfg) E' F' /\ fs_inv F' /\
    forall e, In e E' <-> In e E \/ e = x \/
      exists k pe, get_as Ld x k = Ok e /\ sid_path Ld e (default_cfg Ld cfg) = Ok (Some pe).
Proof.
  intros HD Hinv Hw Hs Hg. destruct (create_step_ok cfg E F F' s x HD Hinv Hw Hs Hg) as (H1 & H2).
  exists (E ++ added Ld (default_cfg Ld cfg) x). split; [exact H1|]. split; [exact H2|].
  intros e. rewrite in_app_iff, (added_char Ld _ x e Hg). unfold anc_with_path. reflexivity.
Qed.

(* a create() that returns False (no touch, a leaf) leaves the tree as it is *)
Lemma create_false_same cfg F F' s x :
  w_create Ld Rt F cfg s [] = Ok (F', false) -> Sid Ld s = Ok x ->
  create_guardb Ld (default_cfg Ld cfg) x = true -> F' = F.
Proof.
  intros Hw Hs Hg.
  destruct (w_create_ok_inv Ld Rt F cfg s F' false Hw) as (x' & p & Hs' & Hp & Hex & Hop & Hb).
  rewrite Hs in Hs'. inversion Hs'. subst x'. clear Hs'. symmetry in Hb.
  destruct (create_guardb_inv Ld _ x Hg) as (p' & Hp' & _ & _ & _ & Xa & _).
  rewrite Hp in Hp'. inversion Hp'. subst p'.
  destruct (create_op_keys Ld Rt F x p F' Xa Hop) as (_ & _ & K3 & _). exact (K3 Hb).
Qed.

End Step.

Print Assumptions added_char.
Print Assumptions create_step_ok.
Print Assumptions create_step_spec.

(** * 2. A failed creation: which exceptions, when; the tree is as it was *)

Section Fail.
Variables (Ld : Loaded) (Rt : Routing).

Lemma write_data_raise F p data e : write_data Ld F p data = Raise e -> e = JSONDecodeError \/ e = OSError.
Proof.
  unfold write_data. destruct (fs_get F (sidecar Ld p)) as [[|[| |]|]|]; intros H; inversion H; auto.
Qed.

Lemma create_op_raise F x p e : create_op Ld Rt F x p = Raise e -> e = OSError.
Proof.
  unfold create_op. destruct (truthy (path_suffix p) && is_leaf Ld x).
  - destruct (rt_touch Rt); [apply touch_raise | discriminate].
  - apply mkdir_raise.
Qed.

(* every way create() raises: the string is no Sid / the path cannot be computed (both: whatever these raise);
   SpilException exactly when the Sid has no path or the path exists; OSError from the file system (a directory
   above is a file); with data, JSONDecodeError / OSError from the sidecar *)
Theorem create_raise F cfg s data e :
  w_create Ld Rt F cfg s data = Raise e ->
  Sid Ld s = Raise e \/
  exists x, Sid Ld s = Ok x /\
    (sid_path Ld x (default_cfg Ld cfg) = Raise e \/
     (sid_path Ld x (default_cfg Ld cfg) = Ok None /\ e = SpilException) \/
     exists p, sid_path Ld x (default_cfg Ld cfg) = Ok (Some p) /\
       ((fs_exists F p = true /\ e = SpilException) \/
        (fs_exists F p = false /\ create_op Ld Rt F x p = Raise OSError /\ e = OSError) \/
        (fs_exists F p = false /\ data <> [] /\ (e = JSONDecodeError \/ e = OSError)))).
Proof.
  unfold w_create. destruct (Sid Ld s) as [x|e0] eqn:Es; cbn [bind]; [|intros H; inversion H; left; reflexivity].
  intros H. right. exists x. split; [reflexivity|].
  destruct (sid_path Ld x (default_cfg Ld cfg)) as [[p|]|e0] eqn:Ep; cbn [bind] in H.
  - right. right. exists p. split; [reflexivity|].
    destruct (fs_exists F p) eqn:Ex; [left; inversion H; split; reflexivity|]. right.
    fold (create_op Ld Rt F x p) in H. destruct (create_op Ld Rt F x p) as [F1|e1] eqn:Eo; cbn [bind] in H.
    + right. destruct (negb (fs_exists F1 p)); [discriminate|]. destruct data as [|kv data]; [discriminate|].
      split; [reflexivity|]. split; [discriminate|].
      destruct (write_data Ld F1 p (kv :: data)) as [F2|e2] eqn:Ew; cbn [bind] in H; [discriminate|].
      inversion H. subst e2. exact (write_data_raise _ _ _ _ Ew).
    + left. inversion H. subst e1. pose proof (create_op_raise _ _ _ _ Eo) as ->. repeat split; reflexivity.
  - right. left. inversion H. split; reflexivity.
  - left. inversion H. reflexivity.
Qed.

(* creating what has no path, or what is there, fails with SpilException *)
Theorem create_no_path F cfg s data x :
  Sid Ld s = Ok x -> sid_path Ld x (default_cfg Ld cfg) = Ok None ->
  w_create Ld Rt F cfg s data = Raise SpilException.
Proof. intros Hs Hp. unfold w_create. rewrite Hs. cbn [bind]. rewrite Hp. reflexivity. Qed.

Theorem create_existing_path F cfg s data x p :
  Sid Ld s = Ok x -> sid_path Ld x (default_cfg Ld cfg) = Ok (Some p) -> fs_exists F p = true ->
  w_create Ld Rt F cfg s data = Raise SpilException.
Proof. intros Hs Hp Hex. unfold w_create. rewrite Hs. cbn [bind]. rewrite Hp. cbn [bind]. rewrite Hex. reflexivity. Qed.

(* "changes nothing": an exception carries no tree; the history goes on with the tree as it was *)
Theorem create_raise_same F cfg s e :
  w_create Ld Rt F cfg s [] = Raise e ->
  create_step Ld Rt cfg F s = F /\ create_done Ld Rt cfg F s = false.
Proof. intros H. unfold create_step, create_done. rewrite H. split; reflexivity. Qed.

(* mkdir -p fails exactly when the path is there or a directory above it is not a directory *)
Lemma mkdir_raise_iff (F : fs) q :
  (exists e, fs_mkdir_parents F q = Raise e) <->
  fs_exists F q = true \/
  exists a n, In a (ancestors_and_self q) /\ fs_get F a = Some n /\ n <> Dir.
Proof.
  unfold fs_mkdir_parents. destruct (fs_exists F q).
  - split; [intros _; left; reflexivity | intros _; exists OSError; reflexivity].
  - destruct (existsb _ (ancestors_and_self q)) eqn:Eb.
    + split; [intros _; right | intros _; exists OSError; reflexivity].
      apply existsb_exists in Eb. destruct Eb as (a & Ha & Hn). exists a.
      destruct (fs_get F a) as [n|]; [|discriminate]. exists n. split; [exact Ha|]. split; [reflexivity|].
      intros ->. discriminate.
    + split; [intros (e & He); discriminate|]. intros [H | (a & n & Ha & Hg & Hn)]; [discriminate|].
      exfalso. assert (Ht : existsb (fun a0 => match fs_get F a0 with Some Dir | None => false | Some _ => true end)
                              (ancestors_and_self q) = true).
      { apply existsb_exists. exists a. split; [exact Ha|]. rewrite Hg. destruct n; congruence. }
      congruence.
Qed.

(* a Sid with an absolute path that is not there: create() returns True, or the file system raises OSError *)
Theorem create_new F cfg s x p :
  Sid Ld s = Ok x -> sid_path Ld x (default_cfg Ld cfg) = Ok (Some p) -> abs_path p = true ->
  rt_touch Rt = true -> fs_exists F p = false ->
  (exists F', create_op Ld Rt F x p = Ok F' /\ w_create Ld Rt F cfg s [] = Ok (F', true)) \/
  (create_op Ld Rt F x p = Raise OSError /\ w_create Ld Rt F cfg s [] = Raise OSError).
Proof.
  intros Hs Hp Ha Ht Hex. unfold w_create. rewrite Hs. cbn [bind]. rewrite Hp. cbn [bind]. rewrite Hex.
  fold (create_op Ld Rt F x p). destruct (create_op Ld Rt F x p) as [F'|e] eqn:Eo; cbn [bind].
  - left. exists F'. split; [reflexivity|].
    assert (Hin : fs_exists F' p = true).
    { destruct (fs_exists F' p) eqn:E1; [reflexivity|]. exfalso.
      destruct (create_op_keys Ld Rt F x p F' Ha Eo) as (_ & _ & K3 & _). specialize (K3 E1). subst F'.
      unfold create_op in Eo. rewrite Ht in Eo. apply fs_exists_false in E1.
      assert (Hne : p <> "") by (destruct (abs_path_inv p Ha) as (r & ->); discriminate).
      destruct (truthy (path_suffix p) && is_leaf Ld x).
      - destruct (touch_keys F F p Eo) as (_ & T2 & _). contradiction.
      - apply E1. apply (mkdir_keys F F p Eo). right. exact (anc_self p Hne). }
    rewrite Hin. reflexivity.
  - right. pose proof (create_op_raise _ _ _ _ Eo) as ->. split; reflexivity.
Qed.

End Fail.

Section FailData.
Variables (c : Conf) (Ld : Loaded).
Hypothesis Hload : load c = Some Ld.
Hypothesis Hwf : wf_loadedb Ld = true.
Hypothesis Hpu : paths_unambiguousb Ld = true.
Variable Rt : Routing.

(* on a data set: creating a good Sid that has a path fails with SpilException exactly when the Sid exists *)
Theorem create_existing_iff cfg E F s x p :
  dataset_ok Ld (default_cfg Ld cfg) E F -> Sid Ld s = Ok x ->
  naturally_typed Ld x -> concrete Ld x -> path_values_ok x ->
  sid_path Ld x (default_cfg Ld cfg) = Ok (Some p) ->
  (w_create Ld Rt F cfg s [] = Raise SpilException <-> In x E).
Proof.
  intros HD Hs X1 X2 X3 Hp. split.
  - intros H. destruct (create_raise Ld Rt F cfg s [] SpilException H) as [H0 | (x' & Hs' & H0)]; [congruence|].
    rewrite Hs in Hs'. inversion Hs'. subst x'.
    destruct H0 as [H0 | [(H0 & _) | (p' & Hp' & H0)]]; try congruence.
    rewrite Hp in Hp'. inversion Hp'. subst p'.
    destruct H0 as [(Hex & _) | [(_ & _ & H0) | (_ & H0 & _)]]; [|discriminate | congruence].
    apply fs_exists_In in Hex. apply (ds_only _ _ _ _ HD p x Hex).
    + destruct (own_read c Ld Hload Hwf Hpu x _ p X1 X2 X3 Hp) as (_ & _ & _ & _ & _ & _ & _ & _ & _ & _ & Hne & _).
      cbn [sid_factory]. apply sempty_false in Hne. rewrite Hne.
      exact (roundtrip c Ld x _ p Hload Hwf Hpu X1 X2 X3 Hp).
    + destruct (nat_rdict c Ld x Hload Hwf X1 X3) as (_ & _ & Hne). unfold sid_bool.
      destruct (s_fields x); [congruence | reflexivity].
  - intros He. destruct (ds_path _ _ _ _ HD x He) as (q & Hq & Hk & _). rewrite Hp in Hq. inversion Hq. subst q.
    apply (create_existing_path Ld Rt F cfg s [] x p Hs Hp). apply fs_exists_In. exact Hk.
Qed.

End FailData.

Print Assumptions create_raise.
Print Assumptions create_new.
Print Assumptions create_existing_iff.

(** * 3. Histories of creations *)

Section History.
Variables (c : Conf) (Ld : Loaded).
Hypothesis Hload : load c = Some Ld.
Hypothesis Hwf : wf_loadedb Ld = true.
Hypothesis Hpu : paths_unambiguousb Ld = true.
Variable Rt : Routing.
Variable cfg : string.
Let cfg' := default_cfg Ld cfg.

Lemma closure_cons s l :
  closure Ld cfg (s :: l) = (match Sid Ld s with Ok x => added Ld cfg' x | Raise _ => [] end) ++ closure Ld cfg l.
Proof. reflexivity. Qed.

Lemma closure_app l1 l2 : closure Ld cfg (l1 ++ l2) = closure Ld cfg l1 ++ closure Ld cfg l2.
Proof. unfold closure. apply flat_map_app. Qed.

(* the invariant: after any history of creations from a data set, the tree holds the data set, the created Sids
   and the Sids of the directories above them *)
Theorem history_invariant : forall ss E F,
  dataset_ok Ld cfg' E F -> fs_inv F -> hist_okb Ld cfg ss = true ->
  dataset_ok Ld cfg' (E ++ closure Ld cfg (created Ld Rt cfg F ss)) (run_creates Ld Rt cfg F ss) /\
  fs_inv (run_creates Ld Rt cfg F ss).
Proof.
  induction ss as [|s ss IH]; intros E F HD Hinv Hh.
  - cbn. rewrite app_nil_r. split; assumption.
  - cbn [hist_okb forallb] in Hh. apply andb_true_iff in Hh. destruct Hh as (Hs & Hh).
    change (forallb _ ss) with (hist_okb Ld cfg ss) in Hh.
    cbn [created run_creates fold_left]. fold (run_creates Ld Rt cfg (create_step Ld Rt cfg F s) ss).
    destruct (w_create Ld Rt F cfg s []) as [[F' b]|e] eqn:Ew.
    + assert (Hst : create_step Ld Rt cfg F s = F') by (unfold create_step; rewrite Ew; reflexivity).
      assert (Hdn : create_done Ld Rt cfg F s = b) by (unfold create_done; rewrite Ew; reflexivity).
      rewrite Hst, Hdn.
      destruct (w_create_ok_inv Ld Rt F cfg s F' b Ew) as (x & p & Hx & Hp & _).
      rewrite Hx in Hs. fold cfg' in Hp. fold cfg' in Hs. rewrite Hp in Hs.
      destruct b.
      * destruct (create_step_ok c Ld Hload Hwf Hpu Rt cfg E F F' s x HD Hinv Ew Hx Hs) as (HD' & Hinv').
        destruct (IH _ F' HD' Hinv' Hh) as (H1 & H2). split; [|exact H2].
        cbn [app]. rewrite closure_cons, Hx. rewrite app_assoc. exact H1.
      * rewrite (create_false_same Ld Rt cfg F F' s x Ew Hx Hs) in *. cbn [app]. exact (IH E F HD Hinv Hh).
    + assert (Hst : create_step Ld Rt cfg F s = F) by (unfold create_step; rewrite Ew; reflexivity).
      assert (Hdn : create_done Ld Rt cfg F s = false) by (unfold create_done; rewrite Ew; reflexivity).
      rewrite Hst, Hdn. cbn [app]. exact (IH E F HD Hinv Hh).
Qed.

(* from the empty tree (the root directory alone) *)
Corollary history_from_root ss :
  dataset_okb Ld cfg' [] fs_root = true -> hist_okb Ld cfg ss = true ->
  dataset_ok Ld cfg' (closure Ld cfg (created Ld Rt cfg fs_root ss)) (run_creates Ld Rt cfg fs_root ss) /\
  fs_inv (run_creates Ld Rt cfg fs_root ss).
Proof.
  intros H0 Hh.
  exact (history_invariant ss [] fs_root (dataset_okb_sound Ld cfg' [] fs_root H0) fs_inv_root Hh).
Qed.

(* the members of the closure: a created Sid, or a prefix Sid with a path of a created Sid *)
Lemma closure_In l e : hist_okb Ld cfg l = true ->
  (In e (closure Ld cfg l) <->
   exists s x p, In s l /\ Sid Ld s = Ok x /\ sid_path Ld x cfg' = Ok (Some p) /\ anc_with_path Ld cfg' x e).
Proof.
  intros Hh. unfold closure. rewrite in_flat_map. unfold hist_okb in Hh. rewrite forallb_forall in Hh. split.
  - intros (s & Hs & He). specialize (Hh s Hs). destruct (Sid Ld s) as [x|ex] eqn:Ex; [|destruct He].
    fold cfg' in Hh, He. unfold added in He. destruct (sid_path Ld x cfg') as [[p|]|e0] eqn:Ep; try destruct He.
    + exists s, x, p. repeat (split; [assumption|]). apply (added_char Ld cfg' x e Hh).
      unfold added. rewrite Ep. left. assumption.
    + exists s, x, p. repeat (split; [assumption|]). apply (added_char Ld cfg' x e Hh).
      unfold added. rewrite Ep. right. assumption.
  - intros (s & x & p & Hs & Ex & Ep & He). exists s. split; [exact Hs|]. specialize (Hh s Hs).
    rewrite Ex in *. fold cfg' in Hh |- *. rewrite Ep in Hh. apply (added_char Ld cfg' x e Hh). exact He.
Qed.

Lemma created_incl : forall ss F s, In s (created Ld Rt cfg F ss) -> In s ss.
Proof.
  induction ss as [|s0 ss IH]; intros F s H; [destruct H|]. cbn [created] in H. apply in_app_or in H.
  destruct H as [H | H].
  - destruct (create_done Ld Rt cfg F s0); [|destruct H]. destruct H as [<- | []]. left. reflexivity.
  - right. exact (IH _ s H).
Qed.

Lemma hist_okb_created ss F : hist_okb Ld cfg ss = true -> hist_okb Ld cfg (created Ld Rt cfg F ss) = true.
Proof.
  unfold hist_okb. rewrite !forallb_forall. intros H s Hs. apply H. exact (created_incl ss F s Hs).
Qed.

(** ** exists() along a history *)

(* for x at a level served by the path finder [FPaths id cfg'] ([exists_guardb]): after a history of creations
   from the empty tree, x.exists() is True exactly when x was created, or a Sid of which x is a prefix Sid *)
Theorem exists_after_history id ss x b :
  dataset_okb Ld cfg' [] fs_root = true -> hist_okb Ld cfg ss = true ->
  exists_guardb Ld Rt id cfg' x = true ->
  sid_exists Ld Rt (run_creates Ld Rt cfg fs_root ss) x = Ok b ->
  (b = true <->
   exists s z p, In s (created Ld Rt cfg fs_root ss) /\ Sid Ld s = Ok z /\
     sid_path Ld z cfg' = Ok (Some p) /\ anc_with_path Ld cfg' z x).
Proof.
  intros H0 Hh Hg Hex. destruct (history_from_root ss H0 Hh) as (HD & _).
  rewrite (sid_exists_specb c Ld Hload Hwf Hpu cfg' _ _ HD Rt id x b Hg Hex).
  apply closure_In. apply hist_okb_created. exact Hh.
Qed.

(* before anything is created nothing exists *)
Corollary exists_before id x b :
  dataset_okb Ld cfg' [] fs_root = true -> exists_guardb Ld Rt id cfg' x = true ->
  sid_exists Ld Rt fs_root x = Ok b -> b = false.
Proof.
  intros H0 Hg Hex. destruct b; [|reflexivity].
  destruct (proj1 (exists_after_history id [] x true H0 eq_refl Hg Hex) eq_refl) as (s & _ & _ & [] & _).
Qed.

(** ** searches along a history *)

(* every search that the routing sends to the path finder finds, after a history of creations from the empty
   tree, exactly the created Sids and their prefix Sids with a path that it globs (same type) *)
Theorem find_after_history id ss s qs l :
  dataset_okb Ld cfg' [] fs_root = true -> hist_okb Ld cfg ss = true ->
  unfold_search Ld s false false = Ok qs -> paths_searchesb Ld Rt id cfg' qs = true ->
  find_all Ld Rt (run_creates Ld Rt cfg fs_root ss) s = Ok l ->
  forall r, In r l <->
    exists e q, In e (closure Ld cfg (created Ld Rt cfg fs_root ss)) /\ In q qs /\ r = s_string e /\
      s_type e = s_type q /\ glob_rel (s_string q) (s_string e).
Proof.
  intros H0 Hh Hu Hq Hf. destruct (history_from_root ss H0 Hh) as (HD & _).
  exact (find_all_paths_specb c Ld Hload Hwf Hpu cfg' _ _ HD Rt id s qs l Hu Hq Hf).
Qed.

End History.

Print Assumptions history_invariant.
Print Assumptions history_from_root.
Print Assumptions exists_after_history.
Print Assumptions exists_before.
Print Assumptions find_after_history.
