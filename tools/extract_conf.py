#!/venv/bin/python
"""Configuration extractor (translator for the *data* half): runs the configuration modules
with Python and dumps their values as a tree of strings.  No parsing logic here: templates,
placeholders and regexes are parsed inside Coq.

  extract_conf.py raw  <confdir>                 -> JSON tree of the raw configuration
  extract_conf.py rawpath <confdir> <module>     -> JSON of one path-configuration module (fresh process)
  extract_conf.py loaded <confdir> <order,...>   -> JSON of what spil loaded (resolver dumps), path configs in that order
"""
import sys, os, json, copy, io, contextlib, subprocess

def S(x):
    return str(x)

def pairs(d):
    return [[S(k), S(v)] for k, v in d.items()]

def kpairs(d):
    return [[S(k), pairs(v)] for k, v in d.items()]

def kstrs(d):
    return [[S(k), [S(x) for x in v]] for k, v in d.items()]

def rec(**kw):
    return [[k, v] for k, v in kw.items()]

def raw(confdir):
    sys.path.insert(0, confdir)
    import importlib
    m = importlib.import_module('spil_sid_conf')
    snap = {k: copy.deepcopy(getattr(m, k)) for k in
            ['sid_templates', 'to_extrapolate', 'key_patterns', 'key_types', 'leaf_keys', 'extension_alias',
             'basetyped_search_narrowing', 'typed_search_narrowing'] if hasattr(m, k)}
    unsupported = []
    for k in ['sid_templates', 'to_extrapolate', 'key_patterns', 'key_types', 'leaf_keys', 'extension_alias', 'basetyped_search_narrowing']:
        if k not in snap:
            unsupported.append('missing:' + k)
            snap[k] = {} if k != 'to_extrapolate' else []
    snap.setdefault('typed_search_narrowing', {})
    leaf = snap['leaf_keys']
    leaf_default = [S(leaf[None])] if None in leaf else []
    leaf_str = {k: v for k, v in leaf.items() if k is not None}
    for k in leaf_str:
        if not isinstance(k, str):
            unsupported.append('leaf_keys:key')
    for sel, repl in snap['key_patterns'].items():
        if not isinstance(sel, str):
            unsupported.append('key_patterns:selector')
        for f in repl:
            if not f:
                unsupported.append('key_patterns:emptyfind')
    d = importlib.import_module('spil_data_conf')
    path_configs = dict(getattr(d, 'path_configs', {}))
    pcs = []
    for name, module in path_configs.items():
        out = subprocess.run([sys.executable, __file__, 'rawpath', confdir, module], capture_output=True, text=True, check=True)
        pcs.append([name, json.loads(out.stdout.strip().splitlines()[-1])])
    # global constants: read without importing spil (which would load and mutate)
    g = {'__file__': os.path.join(os.environ.get('SPIL_REPO', '/repo'), 'spil', 'conf', 'global_conf.py')}
    gpath = os.path.join(os.environ.get('SPIL_REPO', '/repo'), 'spil', 'conf', 'global_conf.py')
    exec(compile(open(gpath).read(), gpath, 'exec'), g)
    c = {}
    cpath = os.path.join(os.environ.get('SPIL_REPO', '/repo'), 'spil', 'util', 'caching.py')
    exec(compile(open(cpath).read(), cpath, 'exec'), c)
    if g['sip'] != '/' or g['ors'] != ',':
        unsupported.append('sip/ors')
    tree = rec(
        sep=S(g['sidtype_keytype_sep']),
        search_symbols=[S(x) for x in g['search_symbols']],
        max_size=S(c['_max_size']),
        sid_templates=pairs(snap['sid_templates']),
        to_extrapolate=[S(x) for x in snap['to_extrapolate']],
        key_patterns=kpairs(snap['key_patterns']),
        key_types=kstrs(snap['key_types']),
        leaf_keys=pairs(leaf_str),
        leaf_default=leaf_default,
        extension_alias=kstrs(snap['extension_alias']),
        base_narrowing=pairs(snap['basetyped_search_narrowing']),
        typed_narrowing=pairs(snap['typed_search_narrowing']),
        path_configs=pcs,
        default_path_config=S(getattr(d, 'default_path_config', '') or ''),
        path_data_suffix=S(getattr(d, 'path_data_suffix', '')),
        unsupported=unsupported,
    )
    return tree

def rawpath(confdir, module):
    sys.path.insert(0, confdir)
    import importlib
    m = importlib.import_module(module)
    unsupported = []
    pm = {}
    for k, v in getattr(m, 'path_mapping', {}).items():
        if isinstance(k, str):
            pm[k] = v
        else:
            unsupported.append('path_mapping:tuplekey')
    for k in ['sidkeys_to_extrakeys', 'extrakeys_to_sidkeys', 'search_path_mapping']:
        if getattr(m, k, None):
            unsupported.append(k)
    for sel, repl in m.key_patterns.items():
        for f in repl:
            if not f:
                unsupported.append('key_patterns:emptyfind')
    return rec(
        module=module,
        templates=pairs(m.path_templates),
        key_patterns=kpairs(m.key_patterns),
        path_mapping=kpairs(pm),
        path_defaults=pairs(getattr(m, 'path_defaults', {})),
        unsupported=unsupported,
    )

def describe_finder(f, ids):
    if f is None:
        return ['none']
    from spil import FindInConstants, FindInPaths, FindInList
    fid = ids.setdefault(id(f), str(len(ids)))
    if isinstance(f, FindInPaths):
        return ['paths', fid, f.config_name]
    if isinstance(f, FindInConstants):
        return ['constants', fid, S(f.key), [S(v) for v in f.values], [] if f.parent_source is None else [describe_finder(f.parent_source, ids)]]
    if isinstance(f, FindInList):
        return ['list', fid, [S(x) for x in f.searchlist]]
    return ['unsupported', type(f).__name__]

def describe_getter(g):
    if g is None:
        return ['none']
    from spil import GetFromPaths
    if isinstance(g, GetFromPaths):
        return ['paths', S(g.config)]
    return [type(g).__name__]

def routing(confdir):
    """probe get_finder_for / get_getter_for with one (dummy) Sid of every type"""
    sys.path.insert(0, confdir)
    os.environ.setdefault('HOME', '/tmp')
    with contextlib.redirect_stdout(io.StringIO()):
        import spil
        from spil import conf, Sid
    ids = {}
    finders = []
    getters = []
    types = list(conf.sid_templates.keys()) + ['']
    def dummy(t):
        x = Sid(from_factory=True)
        x._init(string='x', type=t, fields={'k': 'v'})
        return x
    # finders first (instance identity matters: FindInAll groups typed searches by Finder instance), in one module state
    for t in types:
        x = dummy(t)
        f1 = conf.get_finder_for(x, None)
        f2 = conf.get_finder_for(x, None)
        d = describe_finder(f1, ids)
        if f1 is not f2:
            d = ['unsupported', 'new finder instance on every call']
        finders.append([t, d])
    # getters: every probe from a fresh module state, and again after other calls: routing must not depend on history
    import importlib
    for t in types:
        x = dummy(t)
        dm = importlib.reload(sys.modules['spil_data_conf'])
        g1 = describe_getter(dm.get_getter_for(x))
        g2 = describe_getter(dm.get_getter_for(x))
        g3 = describe_getter(dm.get_getter_for(x, attribute='next.version'))
        for other in types[:3]:
            dm.get_getter_for(dummy(other))
        g4 = describe_getter(dm.get_getter_for(x))
        if g2 != g1 or g4 != g1:
            g1 = ['unsupported: get_getter_for depends on earlier calls (%r then %r / %r)' % (g1, g2, g4)]
        getters.append([t, g1, g3])
    from pathlib import Path
    battery = ['/r/a/b.ma', '/r/a/b', '/r/a/b.c.d', '/r/a/.b', '/r/a/b.', '/r/x_y_v001.abc']
    sidecars = [[p, str(conf.get_data_json_path(Path(p)))] for p in battery]
    return [['finders', finders], ['getters', getters], ['sidecars', sidecars],
            ['create_file_using_touch', '1' if getattr(conf, 'create_file_using_touch', False) else '0'],
            ['create_file_using_template', pairs(getattr(conf, 'create_file_using_template', {}))]]

def dump_resolver(r):
    out = []
    for label in r.get_labels():
        out.append([label, r.get_regex_for(label).pattern, r.get_format_for(label), sorted(r.get_keys_for(label))])
    return out

def loaded(confdir, order):
    sys.path.insert(0, confdir)
    os.environ.setdefault('HOME', '/tmp')
    with contextlib.redirect_stdout(io.StringIO()):
        import spil
        from spil import conf
        from resolva import Resolver
        from spil.sid.pathops.pathconfig import get_path_config
        for name in order:
            get_path_config(name)
    return [pairs(conf.sid_templates), dump_resolver(Resolver.get('sid')),
            [[name, dump_resolver(Resolver.get(name))] for name in conf.path_configs.keys()]]

if __name__ == '__main__':
    cmd = sys.argv[1]
    confdir = sys.argv[2]
    if cmd == 'raw':
        r = raw(confdir)
    elif cmd == 'rawpath':
        r = rawpath(confdir, sys.argv[3])
    elif cmd == 'routing':
        r = routing(confdir)
    elif cmd == 'loaded':
        r = loaded(confdir, [x for x in sys.argv[3].split(',') if x])
    print(json.dumps(r))
