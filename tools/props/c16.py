"""C16 a Getter returns one record per Sid its Finder finds, in the same order."""
import json
from harness.runner import PropBase, Case
from harness import gen, core
from props import datalayer as dl
from props import listsearch as ls
from props.c11 import C11
from props.c01 import natural

class C16(PropBase):
    id = 'C16'
    rule = ('generated trees (created through WriteToPaths) with random attribute data; searches of the C07 family derived from the entities; every attributes subset of a small '
            'key set and three sid_encode functions (str, uri, None); GetFromPaths in both configurations, GetFromAll, get_one / get_data / get_attr; '
            'non-trivial = a search yielding at least one record; distinct by (tree, search, attributes, encoder)')
    def confdir(self, ws):
        return core.make_fs_confdir(ws)
    def cases(self, rng, ctx, tier):
        v = gen.vocab_from_ctx(ctx)
        c11 = C11()
        nu, ns = (6, 30) if tier == "quick" else (40, 60)
        out = []
        for ui in range(nu):
            leafs = c11.leafs(rng, v, rng.randint(4, 9))
            out.append(Case('fs_reset', [], 'setup', {}))
            allsids = []
            for s in leafs:
                parts = s.split('/')
                for cfg in ('', 'server'):
                    out.append(Case('w_create', [cfg, s, []], 'setup', {}))
                for i in range(4, len(parts) + 1):
                    allsids.append('/'.join(parts[:i]))
            allsids = sorted(set(allsids))
            stored = {}
            for s in allsids:
                if rng.random() < 0.6:
                    data = [[k, rng.choice(['1', 'two', 'x y', ''])] for k in rng.sample(['a', 'b', 'sid', 'c'], rng.randint(1, 3))]
                    out.append(Case('w_update', ['', s, data], 'setup', {}))
                    stored[s] = [k for k, _ in data]
            self._stored = getattr(self, '_stored', {})
            self._stored[ui] = stored
            for _ in range(ns):
                q = ls.search_from(rng, v, allsids, allow_gt=(rng.random() < 0.15)) if rng.random() < 0.85 else rng.choice(allsids)
                if rng.random() < 0.2 and v.alias:
                    # a search without any search symbol: a fully valued Sid whose last value (or ext filter) is an extension alias
                    cands = [(e, al) for e in allsids for al, members in v.alias.items() if e.split('/')[-1] in members]
                    if cands:
                        e, al = rng.choice(cands)
                        q = '/'.join(e.split('/')[:-1] + [al]) if rng.random() < 0.6 else '/'.join(e.split('/')[:-1]) + '?' + self.leaf_key(ctx, v, e) + '=' + al
                if rng.random() < 0.08:
                    q = v.sid(v.any_type(rng), rng)      # a plain Sid that (most probably) does not exist: no record, get_one gives nothing
                if rng.random() < 0.15:
                    # overlapping alternatives: a value and '*' (or a partial star) at one level - still ONE record per Sid
                    e = rng.choice(allsids).split('/')
                    i = rng.randrange(len(e))
                    if e[i] and not any(ch in e[i] for ch in '*>,?:'):
                        e[i] = e[i] + ',' + rng.choice(['*', e[i][0] + '*'])
                        q = '/'.join(e)
                attrs = rng.choice([[], [], ['a'], ['a', 'zz'], ['sid'], ['b', 'a', 'c']])
                enc = rng.choice(['str', 'uri', 'none', 'none', 'last'])
                m = {'u': ui, 'q': q, 'attrs': attrs, 'enc': enc}
                out.append(Case('get_and_find', ['', q, attrs, enc], 'get', m))
                out.append(Case('get_paths', ['', q, attrs, enc], 'diag', m))
                out.append(Case('get_all', [q, attrs, enc], 'get_all', m))
                if rng.random() < 0.3:
                    q0 = rng.choice(['hamlet/a/*', 'hamlet', 'hamlet/*/*', 'hamlet/*', '*'])
                    out.append(Case('get_all', [q0, attrs, enc], 'get_all_constants', dict(m, q=q0)))
                out.append(Case('find_all', [q], 'find_all', m))
                s1 = rng.choice(allsids)
                out.append(Case('get_data_all', [s1, attrs, enc], 'get_data', m))
            # several found Sids that encode alike: the last value kept, earlier ones starred, with the non-injective encoder
            for _ in range(4):
                base = rng.choice(allsids).split('/')
                if len(base) < 5:
                    continue
                q = '/'.join(base[:2] + ['*'] * (len(base) - 3) + base[-1:])
                for attrs in ([], ['sid', 'a']):
                    m = {'u': ui, 'q': q, 'attrs': attrs, 'enc': 'last'}
                    out.append(Case('get_all', [q, attrs, 'last'], 'get_all', m))
                    out.append(Case('find_all', [q], 'find_all', m))
                    out.append(Case('get_and_find', ['', q, attrs, 'last'], 'get', m))
                out.append(Case('get_attr', [['s', s1], rng.choice(['a', 'b', 'zz'])], 'get_attr', m))
        out.append(Case('fs_reset', [], 'setup', {}))
        return out
    def leaf_key(self, ctx, v, e):
        n = natural(v, e)
        return n[1][-1][0] if n else 'ext'
    def compare(self, case, model, impl):
        if case.op in ('get_paths', 'get_all') and model[0] == 'ok' and impl[0] == 'ok':
            return None if sorted(map(str, model[1])) == sorted(map(str, impl[1])) else 'records differ (as multisets)'
        if case.op == 'get_and_find':
            return None
        return None if model == impl else 'model and implementation differ'
    def oracle(self, case, impl, ctx):
        if case.stream == 'get_all_constants':
            # the demo routes the constant-backed levels to no Getter: nothing is yielded, nothing fails
            gr = dict((k, v) for k, v in dict((k, vv) for k, vv in ctx['raw'])['routing'])['getters']
            none_types = set(t for t, g, _ in gr if g == ['none'])
            if impl[0] != 'ok':
                return 'GetFromAll.get(%r) failed: %r' % (case.args[0], impl)
            if case.args[0] in ('hamlet/a/*', 'hamlet', 'hamlet/*') and none_types and impl[1]:
                return 'GetFromAll.get(%r) yields %r for types configured without a Getter' % (case.args[0], impl[1][:2])
            return None
        if case.stream == 'get_data' and case.meta.get('enc') == 'none' and not case.meta.get('attrs') and impl[0] == 'ok':
            sid_ = case.args[0] if isinstance(case.args[0], str) else None
            for k, val in impl[1]:
                if k == 'sid' and sid_ and val and (val[0] == sid_ or val[0].endswith(':' + sid_)):
                    return "get_data(%r, sid_encode -> None) carries the Sid under 'sid' (%r): an earlier call's encoding leaked into this record" % (sid_, val[0])
        if case.op == 'get_and_find':
            if impl[0] != 'ok':
                return None if impl[1] == 'SpilException' else 'get / find raised %r' % (impl,)
            found, records, singles = impl[1][:3]
            if len(impl[1]) > 3 and impl[1][3] != (records[0] if records else []):
                return 'get_one(%r) = %r is not the first record of get() %r' % (case.args[1], impl[1][3], records[:1])
            if len(found) != len(records):
                return 'get(%r) yields %d records, find yields %d Sids' % (case.args[1], len(records), len(found))
            attrs, enc = case.meta['attrs'], case.meta['enc']
            for uri_str, rec, single in zip(found, records, singles):
                s, u = uri_str
                if rec != single:
                    return 'record %r in get() differs from get_data(%r) = %r (or the order differs)' % (rec, s, single)
                d = dict((k, v[0] if v else None) for k, v in rec)
                if attrs:
                    if [k for k, _ in rec] != attrs:
                        return 'with attributes %r the record has keys %r' % (attrs, [k for k, _ in rec])
                else:
                    exp = {'str': s, 'uri': u, 'none': None, 'last': s.split('/')[-1]}[enc]
                    if enc == 'none':
                        if d.get('sid') in (s, u):
                            return "record of %r carries the Sid under 'sid' (%r) although the encoder returns None (stored values are never the Sid itself)" % (s, d.get('sid'))
                        # omitted when the encoder returns None (unless the stored data itself has a key of that name)
                        if 'sid' in d and not any('sid' in ks for ks in self._stored.get(case.meta['u'], {'?': ['sid']}).values()):      # (entities may share a sidecar)
                            return "record of %r carries 'sid' = %r although the encoder returns None" % (s, d.get('sid'))
                    elif d.get('sid') != exp:
                        return "record of %r carries sid %r (encoder %s)" % (s, d.get('sid'), enc)
        return None
    def oracle_bulk(self, cases, impl_out, ctx):
        """GetFromAll: one record per Sid that FindInAll finds and whose type has a configured Getter"""
        v = gen.vocab_from_ctx(ctx)
        gr = dict((k, vv) for k, vv in dict((k, vv) for k, vv in ctx['raw'])['routing'])['getters']
        no_getter = set(t for t, g, _ in gr if g == ['none'])
        fails = []
        pend = {}
        for c, o in zip(cases, impl_out):
            if c.stream in ('get_all', 'find_all'):
                key = (c.meta['u'], c.meta['q'], json.dumps(c.meta['attrs']), c.meta['enc'])
                pend.setdefault(key, {})[c.stream] = (c, o)
        for key, d in pend.items():
            if 'get_all' not in d or 'find_all' not in d:
                continue
            (cg, og), (cf, of) = d['get_all'], d['find_all']
            if og[0] != 'ok' or of[0] != 'ok':
                continue
            found = of[1]
            if any(natural(v, s) is None for s in found) or '>' in key[1]:
                continue
            exp = [s for s in found if natural(v, s)[0] not in no_getter]
            if len(og[1]) != len(exp):
                fails.append((cg, og, 'GetFromAll.get(%r, sid_encode=%s) yields %d records, FindInAll finds %d Sids of types with a Getter: %r' % (key[1], key[3], len(og[1]), len(exp), exp[:6])))
        return fails
    def nontrivial(self, case, impl):
        return [case.args] if case.op == 'get_and_find' and impl[0] == 'ok' and impl[1][0] else None
    def histogram_key(self, case, impl):
        if case.op == 'get_and_find':
            return 'get:%s' % ('raise' if impl[0] != 'ok' else min(len(impl[1][0]), 3))
        return case.stream

PROP = C16()
