#!/usr/bin/env python3
"""Writes seeded/<id>/meta.json for the round-2 / round-3 changes from notes/seed_sweep_results.txt (result of the final
checks) and the table of what had to be strengthened (kept in sync with DESIGN.md I.7)."""
import os, json, re
V = os.path.dirname(os.path.dirname(os.path.abspath(__file__)))
STRENGTHENED = {
 'C02-r2-m1': 'histories on multi-typed strings (seq)', 'C02-r2-m3': 'histories on multi-typed strings (seq), == of forced twins',
 'C05-r2-m1': 'free values containing ":" written as uri',
 'C10-r2-m1': 'rules on FindInPaths / FindInAll over real trees; targeted extension pairs with a wildcard in any other field',
 'C10-r2-m2': 'FindInList(do_pre_sort=True); values starting with "~" / non-ASCII; targeted literal groups',
 'C10-r2-m3': 'rules on FindInAll over real trees; overlapping alternatives "v,*" at every level; multiplicity rule',
 'C11-r2-m3': "more '>' searches with wildcards after the '>'",
 'C12-r2-m1': 'histories over a real tree: one entity of every type of a family sharing a key sequence',
 'C12-r2-m2': 'histories over a real tree: entities whose parent string is a leaf',
 'C12-r2-m3': 'histories over a real tree: probes on the empty tree before the creations (one process)',
 'C13-r2-m1': 'long-lived Finder instances, partially consumed generators, comparison with a new instance',
 'C15-r2-m1': 'creation data under another key than the neighbour\'s',
 'C15-r2-m2': 'free values with a dot; sharing classes computed from the paths',
 'C15-r2-m3': 'writes to asset-level folder entities and star searches at that level',
 'C16-r2-m2': 'fully valued Sids whose last value / ext filter is an alias',
 'C01-r3-m2': 'histories: multi-typed string built plainly after being forced, handed over as object, copied',
 'C03-r3-m2': 'navigations again after mutating the dictionary returned by .fields',
 'C03-r3-m3': 'caught by C19; by C20 after adding a family member with explicitly pinned intermediate types',
 'C09-r3-m1': 'file-system stream; free names with digit runs', 'C09-r3-m2': 'file-system stream: FindInAll.find_one vs find', 'C09-r3-m3': 'file-system stream: Sid.get_last vs the corresponding search',
 'C14-r3-m1': 'removal-only get_with in the histories', 'C14-r3-m2': 'twins X / X?unapplied-query; == iff uri equality stated in the oracle', 'C14-r3-m3': 'values extending one another by a character below "/" in sorted lists',
 'C17-r3-m2': 'truncation at each byte of a sidecar holding non-ASCII values',
 'C20-r3-m1': 'family member with two equal-depth branches in one basetype', 'C20-r3-m3': 'family member without default leaf key',
 'C03-r4-m1': 'Sids made from their own path (via_path): observation, get_as, parent', 'C03-r4-m3': 'caught as written (typed searches with "*" in the type field / nodes named like extensions)',
 'C09-r4-m3': 'get_last again after a greater entry was created in the same process',
 'C11-r4-m2': 'the search handed over as a Sid object built from the string, on every finder',
 'C12-r4-m2': 'concrete-looking searches through exists(): alias as last value, un-applied query',
 'C14-r4-m2': 'optional ("~") query values on keys the Sid has, in the histories',
 'C15-r4-m2': 'GetFromPaths.get over entities sharing a sidecar, records collected before being read (worker) and compared with find',
 'C15-r4-m3': 'histories for every ordered pair of entities with a path (data to the first, then to the second)',
 'C16-r4-m1': "the oracle knows what was stored: 'sid' must be omitted when the encoder returns None",
 'C16-r4-m2': 'a non-injective encoder (last value) and searches whose results encode alike; GetFromAll count = FindInAll count for types with a Getter',
 'C08-r5-m2': 'match() against a fully valued Sid whose last value is an alias',
 'C08-r5-m3': 'results asked as Sid objects on searches derived from untypeable (near-miss) entries',
 'C20-r5-m1': 'family member whose third path configuration has its own one-to-one value mappings (C05 stream in all configurations of one process)',
 'C20-r5-m3': 'the C11 finder-agreement stream (real trees) on every family member',
 'C02-r6-m3': 'histories: assignment into the dictionary returned by .fields, then the rebuilds again',
 'C07-r6-m3': "histories in one process: a '**' search, then the star-filled strings it stands for",
 'C10-r6-m1': "'**' in the middle of a search, including the zero-level case on the base's own depth",
 'C11-r6-m2': 'an extension alias as the only search feature, on every Finder',
 'C13-r6-m1': 'one unchanged tree with files of several types per entity, asked by fresh processes under 6 hash seeds: raw order and find_one compared',
 'C15-r6-m3': 'writes through two long-lived writer objects taking turns on the same entity',
 'C01-r7-m3': 'histories: assignment into the dictionary returned by .fields, then the same string (plain and uri) typed again',
 'C03-r7-m2': 'caught by C19 and C20 as written (the change only shows under a configuration with an explicit intermediate level)',
 'C08-r7-m1': 'a star inside a free value, head and tail taken from an entry value and possibly overlapping in it',
 'C09-r7-m1': "universes varying the levels between two '>' and searches '>' ... '*' ... '>'",
 'C12-r7-m2': 'exists() of the Finder objects themselves (FindInPaths, FindInAll) against their own find(), incl. alias-only searches',
 'C19-r7-m1': 'a second, diverging chain per basetype (names proposed twice)',
 'C20-r7-m2': 'family feature: key names holding the separator character (pub_status, work_step), one of them the keytype of an extrapolated type',
 'C20-r7-m3': 'family feature: alias names that are not lower case',
 'C02-r8-m1': "free values holding the '~' of the query syntax inside (only a leading one means optional); the query round trip is judged for them",
 'C02-r8-m3': 'collide histories: the Sid object of the second type handed to Sid() before the plain string',
 'C04-r8-m3': 'an alias as the value of the leaf key in a query, after searches with the same query text were unfolded in the process',
 'C10-r8-m2': "the ',' list / the alias only in a filter value (none in the path part)",
 'C10-r8-m3': 'caught by C11 as written (searches handed over as Sid objects)',
 'C11-r8-m1': "folder entities whose free value holds a dot, named exactly, with an inner star, or in a ',' list",
 'C11-r8-m3': 'caught by C12 as written (finder_exists)',
 'C13-r8-m3': 'history: Sids built from dictionaries that share one key set (a concrete leaf value, then a search value), and get_with on it',
 'C15-r8-m1': 'histories writing under the non-default path configuration (creation with data, update, set), reads under both; the oracle tracks created / written per configuration',
 'C16-r8-m3': 'get_one against the first record of get(); plain Sids that do not exist as searches',
 'C18-r8-m3': 'the first publish of a task: lookups while the task folder does not exist, then create(get_new) three times, lookups again',
 'C05-r9-m3': 'free values holding a backslash (an ordinary character of a posix path component)',
 'C09-r9-m1': "the same '>' search answered with as_sid=True: the same Sids in the same order as with as_sid=False",
 'C12-r9-m2': "caught by C09 as written (FindInAll.find_one against find on '>' searches over real trees)",
 'C20-r3-m2': 'NOT CAUGHT: needs overlapping key_patterns groups (precedence between them is not a documented convention); see DESIGN.md I.7',
}
res = {}
for line in open(os.path.join(V, 'notes', 'seed_sweep_results.txt')):
    if ' | ' in line:
        k, v = line.split(' | ', 1)
        res[k.strip()] = v.strip()
for d in sorted(os.listdir(os.path.join(V, 'seeded'))):
    if not any(t in d for t in ('-r2-', '-r3-', '-r4-', '-r5-', '-r6-', '-r7-', '-r8-', '-r9-')):
        continue
    dd = os.path.join(V, 'seeded', d)
    note = open(os.path.join(dd, 'note.txt')).read().strip() if os.path.exists(os.path.join(dd, 'note.txt')) else ''
    prop = d.split('-')[0]
    also = open(os.path.join(dd, 'also.txt')).read().split() if os.path.exists(os.path.join(dd, 'also.txt')) else []
    r = res.get(d, 'not run')
    caught = 'VIOLATION' in r
    meta = {
        'property': prop, 'round': 2 if '-r2-' in d else (3 if '-r3-' in d else (4 if '-r4-' in d else (5 if '-r5-' in d else (6 if '-r6-' in d else (7 if '-r7-' in d else (8 if '-r8-' in d else 9)))))),
        'breaks': note,
        'needs_to_manifest': note.splitlines()[-1] if note else '',
        'confirmed': 'patch applied in a scratch worktree: repository test suite unchanged (46 passed, 1 known failure); demo.py exits 1 with the patch and 0 without',
        'checks_run': 'tools/seed_run.sh seeded/%s/patch.diff %s' % (d, ' '.join([prop] + also)),
        'result': ('caught: ' if caught else 'not caught: ') + re.sub(r'replay=\S+', '', r).strip(),
        'check_strengthened': STRENGTHENED.get(d, 'no (caught as written)'),
    }
    json.dump(meta, open(os.path.join(dd, 'meta.json'), 'w'), indent=1)
print('meta written')
