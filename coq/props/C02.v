From Coq Require Import List String.
Example C02_placeholder : True. Proof. exact I. Qed.
Print Assumptions C02_placeholder.
