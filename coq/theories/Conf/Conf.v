(** One configuration, as data (parsed from the tree the extractor emits), and the
    load step of spil/conf/sid_conf_load.py and spil/sid/pathops/pathconfig.py. *)
From Coq Require Import List String Ascii Bool Arith.
From Spil Require Import Base.Str Base.Dict Base.Outcome Base.Tree Regex.Re Resolva.Template Resolva.Resolver Conf.ConfUtil.
Import ListNotations.
Local Open Scope string_scope.

Record PathConf := mkPathConf {
  pc_name : string;
  pc_templates : templates;                         (* module value before PathConfig.__init__ *)
  pc_key_patterns : key_patterns_t;                 (* as that module sees them *)
  pc_mapping : list (string * list (string * string));   (* key -> [(path value, sid value)] *)
  pc_defaults : list (string * string)
}.

Record Conf := mkConf {
  c_sep : string;
  c_search_symbols : list string;
  c_sid_templates : templates;
  c_to_extrapolate : list string;
  c_key_patterns : key_patterns_t;
  c_key_types : list (string * list string);
  c_leaf_keys : list (string * string);
  c_leaf_default : option string;
  c_extension_alias : list (string * list string);
  c_base_narrowing : list (string * string);
  c_typed_narrowing : list (string * string);
  c_path_confs : list PathConf;
  c_default_path_conf : string;
  c_data_suffix : string
}.

Definition sip : string := "/".
Definition ors : string := ",".

Definition opt_bind {A B} (x : option A) (f : A -> option B) : option B :=
  match x with Some a => f a | None => None end.
Notation "'let?' x := e1 'in' e2" := (opt_bind e1 (fun x => e2)) (at level 200, x name, e1 at level 100, e2 at level 200).

Definition parse_pathconf (t : tree) : option PathConf :=
  match t with
  | N [L name; N fs] =>
      let? a := opt_bind (t_field fs "templates") t_pairs in
      let? b := opt_bind (t_field fs "key_patterns") t_kpairs_list in
      let? c := opt_bind (t_field fs "path_mapping") t_kpairs_list in
      let? d := opt_bind (t_field fs "path_defaults") t_pairs in
      let? u := opt_bind (t_field fs "unsupported") t_strs in
      match u with [] => Some (mkPathConf name a b c d) | _ => None end
  | _ => None
  end.

Definition parse_conf (t : tree) : option Conf :=
  match t with
  | N fs =>
      let? sep := opt_bind (t_field fs "sep") t_str in
      let? ss := opt_bind (t_field fs "search_symbols") t_strs in
      let? st := opt_bind (t_field fs "sid_templates") t_pairs in
      let? te := opt_bind (t_field fs "to_extrapolate") t_strs in
      let? kp := opt_bind (t_field fs "key_patterns") t_kpairs_list in
      let? kt := opt_bind (t_field fs "key_types") t_kstrs_list in
      let? lk := opt_bind (t_field fs "leaf_keys") t_pairs in
      let? ld := opt_bind (t_field fs "leaf_default") t_strs in
      let? ea := opt_bind (t_field fs "extension_alias") t_kstrs_list in
      let? bn := opt_bind (t_field fs "base_narrowing") t_pairs in
      let? tn := opt_bind (t_field fs "typed_narrowing") t_pairs in
      let? pcs := opt_bind (t_field fs "path_configs") t_list in
      let? pcs' := opt_all (map parse_pathconf pcs) in
      let? dpc := opt_bind (t_field fs "default_path_config") t_str in
      let? ds := opt_bind (t_field fs "path_data_suffix") t_str in
      let? u := opt_bind (t_field fs "unsupported") t_strs in
      match u with
      | [] => Some (mkConf sep ss st te kp kt lk (hd_error ld) ea bn tn pcs' dpc ds)
      | _ => None
      end
  | L _ => None
  end.

(** ** Load *)

Definition load_sid_templates (c : Conf) : templates :=
  pattern_replacing (extrapolate_templates (c_sep c) (c_sid_templates c) (c_to_extrapolate c)) (c_key_patterns c).

Definition load_path_templates (p : PathConf) : templates :=
  pattern_replacing (pc_templates p) (pc_key_patterns p).

Record LoadedPath := mkLoadedPath {
  lp_conf : PathConf;
  lp_templates : templates;
  lp_resolver : resolver
}.

Record Loaded := mkLoaded {
  l_conf : Conf;
  l_sid_templates : templates;
  l_sid : resolver;
  l_paths : list LoadedPath
}.

Definition load_path (p : PathConf) : option LoadedPath :=
  let t := load_path_templates p in
  match mk_resolver t true with
  | Some r => Some (mkLoadedPath p t r)
  | None => None
  end.

Definition load (c : Conf) : option Loaded :=
  let t := load_sid_templates c in
  match mk_resolver t false, opt_all (map load_path (c_path_confs c)) with
  | Some r, Some ps => Some (mkLoaded c t r ps)
  | _, _ => None
  end.

Definition load_tree (t : tree) : option Loaded := opt_bind (parse_conf t) load.

(* string-level construct_regular_expression, for comparison with the impl's .pattern *)
Fixpoint regex_string_items (items : list item) (seen : list string) : string :=
  match items with
  | [] => ""
  | Lit t :: rest => t ++ regex_string_items rest seen
  | Ph n e :: rest =>
      let cnt := S (count_name n seen) in
      "(?P<" ++ n ++ pad3 cnt ++ ">" ++ (match e with Some e => e | None => "[^/]*" end) ++ ")"
      ++ regex_string_items rest (n :: seen)
  end.
Definition regex_string (t : tpl) : string := "^" ++ regex_string_items (tp_items t) [] ++ "$".

Definition resolver_dump (r : resolver) : list (string * (string * (string * list string))) :=
  map (fun t => (tp_name t, (regex_string t, (fmt_spec (tp_items t), sort_s (tp_keys t))))) (r_tpls r).
