(* SCRATCH SPIKE from the design round — not part of any build; see DESIGN.md Appendix D.  coqc 8.16.1: 2.5 s, Closed under the global context. *)
From Coq Require Import List String Ascii Bool Arith Lia.
Import ListNotations.
Local Open Scope string_scope.

Inductive cls := CDigit | CNotSlash | CAnyNoNl.
Definition in_cls (c:cls) (a:ascii) : bool :=
  match c with
  | CDigit => let n := nat_of_ascii a in (Nat.leb 48 n && Nat.leb n 57)%bool
  | CNotSlash => negb (Ascii.eqb a "/")
  | CAnyNoNl => negb (Ascii.eqb a "010")
  end.

Inductive re :=
| Eps | Chr (a:ascii) | Cls (c:cls) | Seq (r1 r2:re) | Alt (r1 r2:re) | Star (c:cls) | Grp (name:string) (r:re).

Definition caps := list (string * string).

Fixpoint star (c:cls) (pre s:string) (k: string -> string -> option caps) : option caps :=
  match s with
  | String a s' => if in_cls c a then
                     match star c (pre ++ String a "") s' k with Some r => Some r | None => k pre s end
                   else k pre s
  | EmptyString => k pre s
  end.

(* captures carry the consumed text explicitly: matcher threads "consumed so far in this group" via continuation on prefix *)
Fixpoint m (r:re) (s:string) (k: string -> string -> caps -> option caps) : option caps :=
  (* k consumed rest caps_of_this_subterm *)
  match r with
  | Eps => k "" s []
  | Chr a => match s with String b s' => if Ascii.eqb a b then k (String b "") s' [] else None | _ => None end
  | Cls c => match s with String b s' => if in_cls c b then k (String b "") s' [] else None | _ => None end
  | Seq r1 r2 => m r1 s (fun w1 s1 c1 => m r2 s1 (fun w2 s2 c2 => k (w1 ++ w2) s2 (c1 ++ c2)%list))
  | Alt r1 r2 => match m r1 s k with Some x => Some x | None => m r2 s k end
  | Star c => star c "" s (fun w s' => k w s' [])
  | Grp n r => m r s (fun w s' c => k w s' (c ++ [(n, w)])%list)
  end.

Inductive all_cls (c:cls) : string -> Prop :=
| ac_nil : all_cls c ""
| ac_cons a s : in_cls c a = true -> all_cls c s -> all_cls c (String a s).

Inductive Matches : re -> string -> caps -> Prop :=
| MEps : Matches Eps "" []
| MChr a : Matches (Chr a) (String a "") []
| MCls c a : in_cls c a = true -> Matches (Cls c) (String a "") []
| MSeq r1 r2 w1 w2 c1 c2 : Matches r1 w1 c1 -> Matches r2 w2 c2 -> Matches (Seq r1 r2) (w1 ++ w2) (c1 ++ c2)%list
| MAltL r1 r2 w c : Matches r1 w c -> Matches (Alt r1 r2) w c
| MAltR r1 r2 w c : Matches r2 w c -> Matches (Alt r1 r2) w c
| MStar c w : all_cls c w -> Matches (Star c) w []
| MGrp n r w c : Matches r w c -> Matches (Grp n r) w (c ++ [(n,w)])%list.

Lemma app_assoc_s (a b c:string) : (a ++ b) ++ c = a ++ (b ++ c).
Proof. induction a; simpl; congruence. Qed.
Lemma app_nil_r_s (a:string) : a ++ "" = a.
Proof. induction a; simpl; congruence. Qed.

(* Soundness *)
Lemma star_sound c : forall s pre k res,
  all_cls c pre ->
  star c pre s k = Some res ->
  exists w s2, pre ++ s = w ++ s2 /\ all_cls c w /\ k w s2 = Some res.
Proof.
  induction s as [|a s IH]; intros pre k res Hpre H; simpl in H.
  - exists pre, "". auto.
  - destruct (in_cls c a) eqn:Ha.
    + match type of H with match ?X with _ => _ end = _ => destruct X eqn:Hgo end.
      * inversion H; subst. apply IH in Hgo.
        -- destruct Hgo as (w & s2 & E & Hw & Hk). exists w, s2. split; auto.
           rewrite <- E. rewrite app_assoc_s. reflexivity.
        -- clear - Hpre Ha. induction Hpre; simpl. constructor; auto. constructor. constructor; auto.
      * exists pre, (String a s). auto.
    + exists pre, (String a s). auto.
Qed.

Lemma m_sound : forall r s k res, m r s k = Some res ->
  exists w s2 c, s = w ++ s2 /\ Matches r w c /\ k w s2 c = Some res.
Proof.
  induction r; intros s k res H; simpl in H.
  - exists "", s, []. repeat split; auto. constructor.
  - destruct s as [|b s']; try discriminate. destruct (Ascii.eqb a b) eqn:E; try discriminate.
    apply Ascii.eqb_eq in E; subst. exists (String b ""), s', []. repeat split; auto. constructor.
  - destruct s as [|b s']; try discriminate. destruct (in_cls c b) eqn:E; try discriminate.
    exists (String b ""), s', []. repeat split; auto. constructor; auto.
  - apply IHr1 in H. destruct H as (w1 & s1 & c1 & E1 & M1 & H).
    apply IHr2 in H. destruct H as (w2 & s2 & c2 & E2 & M2 & H).
    exists (w1 ++ w2), s2, (c1 ++ c2)%list. subst. rewrite app_assoc_s. repeat split; auto. constructor; auto.
  - destruct (m r1 s k) eqn:H1.
    + inversion H; subst. apply IHr1 in H1. destruct H1 as (w & s2 & c & ? & ? & ?). exists w, s2, c. repeat split; auto. apply MAltL; auto.
    + apply IHr2 in H. destruct H as (w & s2 & c & ? & ? & ?). exists w, s2, c. repeat split; auto. apply MAltR; auto.
  - apply star_sound in H; [|constructor]. destruct H as (w & s2 & E & Hw & Hk). simpl in E.
    exists w, s2, []. repeat split; auto. constructor; auto.
  - apply IHr in H. destruct H as (w & s2 & c & ? & ? & ?). exists w, s2, (c ++ [(name, w)])%list. repeat split; auto. constructor; auto.
Qed.

Lemma star_complete c : forall w, all_cls c w -> forall pre s2 k,
  k (pre ++ w) s2 <> None -> star c pre (w ++ s2) k <> None.
Proof.
  induction 1 as [|a w Ha Hw IH]; intros pre s2 k Hk.
  - simpl. rewrite app_nil_r_s in Hk.
    destruct s2 as [|b s2']; simpl; auto.
    destruct (in_cls c b); auto.
    destruct (star c (pre ++ String b "") s2' k); auto; try discriminate.
  - simpl. rewrite Ha.
    specialize (IH (pre ++ String a "") s2 k).
    rewrite app_assoc_s in IH. simpl in IH. specialize (IH Hk).
    destruct (star c (pre ++ String a "") (w ++ s2) k); auto; try discriminate.
Qed.

Lemma m_complete : forall r w c, Matches r w c -> forall s2 k,
  k w s2 c <> None -> m r (w ++ s2) k <> None.
Proof.
  induction 1; intros s2 k Hk; simpl.
  - exact Hk.
  - rewrite Ascii.eqb_refl. exact Hk.
  - rewrite H. exact Hk.
  - rewrite app_assoc_s. apply IHMatches1. apply IHMatches2. exact Hk.
  - specialize (IHMatches s2 k Hk). destruct (m r1 (w ++ s2) k); auto; try discriminate.
  - destruct (m r1 (w ++ s2) k); [discriminate|]. apply IHMatches; auto.
  - apply (star_complete c w H "" s2 (fun w' s' => k w' s' [])). exact Hk.
  - apply IHMatches. exact Hk.
Qed.

(* determinism under unambiguity *)
Theorem m_unique : forall r s k w s2 c,
  s = w ++ s2 -> Matches r w c -> k w s2 c <> None ->
  (forall w' s2' c', s = w' ++ s2' -> Matches r w' c' -> k w' s2' c' <> None -> w' = w /\ s2' = s2 /\ c' = c) ->
  m r s k = k w s2 c.
Proof.
  intros r s k w s2 c E M Hk U.
  destruct (m r s k) eqn:H.
  - apply m_sound in H. destruct H as (w' & s2' & c' & E' & M' & Hk').
    destruct (U w' s2' c' E' M') as (-> & -> & ->); [congruence|]. auto.
  - exfalso. subst s. apply (m_complete r w c M s2 k Hk H).
Qed.
Print Assumptions m_unique.
