(** Data routing: which Finder / Getter serves which Sid type (probed from spil_data_conf by the extractor). *)
From Coq Require Import List String Ascii Bool Arith.
From Spil Require Import Base.Str Base.Dict Base.Outcome Base.Tree Conf.Conf.
Import ListNotations.
Local Open Scope string_scope.

Inductive finder :=
| FPaths (id cfg : string)
| FConstants (id key : string) (values : list string) (parent : option finder)
| FList (id : string) (items : list string).

Definition finder_id (f : finder) : string :=
  match f with FPaths i _ | FConstants i _ _ _ | FList i _ => i end.

Inductive getter := GPaths (cfg : string) | GNext | GNone.

Fixpoint parse_finder (fuel : nat) (t : tree) : option finder :=
  match fuel with
  | O => None
  | S f =>
    match t with
    | N [L "paths"; L i; L cfg] => Some (FPaths i cfg)
    | N [L "constants"; L i; L key; vals; N []] =>
        match t_strs vals with Some v => Some (FConstants i key v None) | None => None end
    | N [L "constants"; L i; L key; vals; N [p]] =>
        match t_strs vals, parse_finder f p with
        | Some v, Some pf => Some (FConstants i key v (Some pf))
        | _, _ => None
        end
    | N [L "list"; L i; items] => match t_strs items with Some it => Some (FList i it) | None => None end
    | _ => None
    end
  end.

Definition parse_getter (t : tree) : option getter :=
  match t with
  | N [L "paths"; L cfg] => Some (GPaths cfg)
  | N [L "NextGetter"] => Some GNext
  | N [L "none"] => Some GNone
  | _ => None
  end.

Record Routing := mkRouting {
  rt_finders : list (string * option finder);           (* type -> finder (None = no finder) ; "" = the fallback for unknown types *)
  rt_getters : list (string * (getter * getter));       (* type -> (getter for data, getter for "next.version") *)
  rt_touch : bool
}.

Definition parse_finder_entry (t : tree) : option (string * option finder) :=
  match t with
  | N [L ty; N [L "none"]] => Some (ty, None)
  | N [L ty; d] => match parse_finder 20 d with Some f => Some (ty, Some f) | None => None end
  | _ => None
  end.

Definition parse_getter_entry (t : tree) : option (string * (getter * getter)) :=
  match t with
  | N [L ty; a; b] => match parse_getter a, parse_getter b with
                      | Some x, Some y => Some (ty, (x, y))
                      | _, _ => None
                      end
  | _ => None
  end.

Definition parse_routing (t : tree) : option Routing :=
  match t with
  | N fs =>
      match t_field fs "routing" with
      | Some (N rs) =>
          let? fl := opt_bind (t_field rs "finders") t_list in
          let? gl := opt_bind (t_field rs "getters") t_list in
          let? fe := opt_all (map parse_finder_entry fl) in
          let? ge := opt_all (map parse_getter_entry gl) in
          let? touch := opt_bind (t_field rs "create_file_using_touch") t_str in
          let? tpl := opt_bind (t_field rs "create_file_using_template") t_pairs in
          match tpl with
          | [] => Some (mkRouting fe ge (String.eqb touch "1"))
          | _ => None                                   (* file templates: outside the model *)
          end
      | _ => None
      end
  | L _ => None
  end.

Definition finder_for (r : Routing) (ty : string) : option finder :=
  match dget (rt_finders r) ty with
  | Some f => f
  | None => match dget (rt_finders r) "" with Some f => f | None => None end
  end.

Definition getter_for (r : Routing) (ty : string) (next : bool) : getter :=
  match dget (rt_getters r) ty with
  | Some (a, b) => if next then b else a
  | None => match dget (rt_getters r) "" with Some (a, b) => if next then b else a | None => GNone end
  end.
