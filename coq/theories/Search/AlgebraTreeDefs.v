(** C10 for the TREE finder (FindInPaths): definitions and guards (proofs in Search/AlgebraTreeProofs.v).

    The tree finder [ffind Ld F (FPaths id cfg) s] over a file tree F that materialises a data set E
    ([dataset_ok Ld cfg E F] of Search/TreeListDefs.v) is characterised like the list finder of
    Search/AlgebraDefs.v: its result set is  { e in strings(E) | matched Ld s e }.
    What [Finder.find] hands to the star search of FindInPaths is [find_searches Ld s]
    (Search/LastAgreeProofs.v): the Sid itself when the shortcut is taken, else the unfolded typed
    searches; the guards of C11 ([searches_ok], [pat_inj], [types_covered]) are asked of that list. *)
From Coq Require Import List String Ascii Bool Arith.
From Spil Require Import Base.Str Base.Dict Base.Outcome Base.PyPath Regex.Re
  Resolva.Template Resolva.Resolver Conf.ConfUtil Conf.Conf Conf.WF Sid.Query Sid.Sid Sid.TypingSpec
  Sid.SidProofs Path.UnambiguousDefs FS.Fs
  Search.Unfold Search.FindList Search.GlobProofs Search.UnfoldSpec Search.Finders
  Search.TreeListDefs Search.TreeListProofs Search.LastAgreeProofs Search.AlgebraDefs.
Import ListNotations.
Local Open Scope string_scope.

(** ** 1. The guard of a search string against a data set *)

(* the typed searches that FindInPaths.find(s) globs are good searches of C11:
   typed search Sids with good values, no ">", a path pattern, mapped keys searched by a literal or a
   whole "*" ([searches_ok]); two of them with the same (type, pattern) have the same fields
   ([pat_inj], FindInPaths skips a pair already globbed); every member of E globbed by one of them is
   globbed by one of its own type ([types_covered], FindInList does not look at types).
   Universally quantified: no claim that [find_searches] succeeds *)
Definition tree_guard (Ld : Loaded) (cfg : string) (E : list sid) (s : string) : Prop :=
  forall qs, find_searches Ld s = Ok qs ->
    searches_ok Ld cfg qs /\ pat_inj Ld cfg qs /\ types_covered E qs.

(* the part that does not mention the data set (enough for the typed characterisation) *)
Definition tree_guard0 (Ld : Loaded) (cfg : string) (s : string) : Prop :=
  forall qs, find_searches Ld s = Ok qs -> searches_ok Ld cfg qs /\ pat_inj Ld cfg qs.

(* decidable reading: run [find_searches] and check *)
Definition tree_guardb (Ld : Loaded) (cfg : string) (E : list sid) (s : string) : bool :=
  match find_searches Ld s with
  | Ok qs => forallb (fun q => typed_searchb Ld q && search_okb Ld cfg q) qs
             && pat_injb Ld cfg qs && types_coveredb E qs
  | Raise _ => false
  end.

Definition tree_guard0b (Ld : Loaded) (cfg : string) (s : string) : bool :=
  match find_searches Ld s with
  | Ok qs => forallb (fun q => typed_searchb Ld q && search_okb Ld cfg q) qs && pat_injb Ld cfg qs
  | Raise _ => false
  end.

(** ** 2. Entries matched by a typed search of their own type *)

(* a member x of the data set is matched by a typed search of its own type among D *)
Definition matched_typed_by (D : sid -> Prop) (x : sid) : Prop :=
  exists y, D y /\ s_type x = s_type y /\ glob_rel (s_string y) (s_string x).

Definition matched_typed (Ld : Loaded) (s : string) (x : sid) : Prop := matched_typed_by (denotes Ld s) x.

(** ** 3. No duplicates without a data set (auxiliary; over a data set [dataset_ok] is enough, see
      [paths_star_NoDup_dataset] in Search/AlgebraTreeProofs.v) *)

(* two paths of the tree that resolve to non-empty Sids with the same string are the same path *)
Definition paths_distinct (Ld : Loaded) (cfg : string) (F : fs) : Prop :=
  forall p1 p2 x1 x2, In p1 (dkeys F) -> In p2 (dkeys F) ->
    sid_factory Ld (FromPath p1 cfg) = Ok x1 -> sid_factory Ld (FromPath p2 cfg) = Ok x2 ->
    sid_bool x1 = true -> sid_bool x2 = true -> s_string x1 = s_string x2 -> p1 = p2.

(* sufficient (with [dataset_ok]): every path of the tree is in normal form (no "//", no "." component,
   no trailing "/": what a directory listing returns) *)
Definition fs_normalb (F : fs) : bool := forallb (fun p => String.eqb (norm_path p) p) (dkeys F).

(* the direct decidable reading *)
Definition paths_distinctb (Ld : Loaded) (cfg : string) (F : fs) : bool :=
  forallb (fun p1 => forallb (fun p2 =>
    String.eqb p1 p2 ||
    match sid_factory Ld (FromPath p1 cfg), sid_factory Ld (FromPath p2 cfg) with
    | Ok x1, Ok x2 => negb (sid_bool x1 && sid_bool x2 && String.eqb (s_string x1) (s_string x2))
    | _, _ => true
    end) (dkeys F)) (dkeys F).
