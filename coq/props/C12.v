(** C12 — exists, find_one, children and siblings agree with find.  Property theorems only (Finder level, list-backed;
    the Sid-level clauses over the file system are exercised by correspondence in the data checks). *)
From Coq Require Import List String Ascii Bool Arith Permutation Sorted.
From Spil Require Import Base.Str Base.Dict Base.Outcome Regex.Re Conf.Conf Conf.WF Sid.Sid
  Search.Unfold Search.FindList Search.Finders Search.GlobProofs Search.FindListProofs Search.UnfoldProofs Search.FindersProofs Conf.Routing FS.Fs Data.Data Data.DataSpecProofs.
From SpilGen Require Hamlet.
Import ListNotations.
Local Open Scope string_scope.

Theorem C12_find_one : forall L items s o, find_one L items s = Ok o ->
  exists l, find_list L items s = Ok l /\ o = hd_error l.
Proof. exact find_one_spec. Qed.
Print Assumptions C12_find_one.

Theorem C12_exists : forall L items s b, ~ In "" items -> exists_ L items s = Ok b ->
  exists l, find_list L items s = Ok l /\ b = negb (match l with [] => true | _ => false end).
Proof. exact exists_nonempty. Qed.
Print Assumptions C12_exists.

(* as_sid=False yields exactly the strings of the as_sid=True results *)
Theorem C12_as_sid : forall c Ld, load c = Some Ld -> wf_loadedb Ld = true ->
  forall items s xs, Forall plain_entry items -> find_list_sids Ld items s = Ok xs ->
  exists l, find_list Ld items s = Ok l /\ map s_string xs = l.
Proof. exact find_list_sids_strings_items. Qed.
Print Assumptions C12_as_sid.

(* Sid level, over the file-system model: exists() is non-emptiness of FindInAll's answer; a leaf has no children; no duplicates *)
Theorem C12_sid_exists : forall Ld Rt F x b, sid_exists Ld Rt F x = Ok b -> s_fields x <> [] ->
  exists l, find_all Ld Rt F (s_string x) = Ok l /\ b = match l with [] => false | s :: _ => truthy s end.
Proof. exact sid_exists_spec. Qed.
Print Assumptions C12_sid_exists.

Theorem C12_leaf_no_children : forall Ld Rt F x, is_leaf Ld x = true -> children Ld Rt F x = Ok [].
Proof. exact leaf_no_children. Qed.
Print Assumptions C12_leaf_no_children.

Theorem C12_find_all_nodup : forall Ld Rt F s l, find_all Ld Rt F s = Ok l -> NoDup l.
Proof. exact find_all_nodup. Qed.
Print Assumptions C12_find_all_nodup.

(* children() is FindInAll's answer for "<sid>/*"; siblings() for the parent level with the key starred *)
Theorem C12_children : forall Ld Rt F x l, is_leaf Ld x = false -> children Ld Rt F x = Ok l ->
  (exists q, sid_div Ld x "*" = Ok q /\ find_all Ld Rt F (s_string q) = Ok l) /\ NoDup l.
Proof. exact children_spec. Qed.
Print Assumptions C12_children.

Theorem C12_siblings : forall Ld Rt F x k l, siblings Ld Rt F x = Ok l -> keytype x = Some k ->
  exists a q, get_as Ld x k = Ok a /\ get_with_kw Ld a [(k, Some "*")] = Ok q /\ find_all Ld Rt F (s_string q) = Ok l.
Proof. exact siblings_spec. Qed.
Print Assumptions C12_siblings.

(* the guard of C12_exists is needed: the recorded edge (D20) *)
Example C12_exists_empty_string_refuted :
  exists_ Hamlet.the_loaded [""] "*" = Ok false /\ find_list Hamlet.the_loaded [""] "*" = Ok [""].
Proof. vm_compute. split; reflexivity. Qed.
Print Assumptions C12_exists_empty_string_refuted.
