(** C18 — get_last, get_next and get_new implement a gap-free version workflow.  Property theorems only.
    Proved about the model of the demo NextGetter and the Sid methods: the successor of "v"+ddd is requested as exactly
    "v"+(n+1) formatted with 3 digits through get_with on the same Sid (all other fields untouched), the first version is
    v001, formatted versions parse back, are pairwise distinct and ordered like the numbers (so ">" picks the numerically
    last), and a number needing 4 digits cannot be a version.  get_last / get_new over a tree go through FindInAll: their
    agreement with the specification is checked on the implementation over generated trees and create(get_new) chains
    and by correspondence with the file-system model: NOT theorems (partial). *)
From Coq Require Import List String Ascii Bool Arith Permutation Sorted.
From Spil Require Import Base.Str Base.Dict Base.Outcome Regex.Re Conf.Conf Conf.Routing Conf.WF Sid.Sid
  Search.Unfold Search.FindList Search.Finders Search.FindListProofs Search.FindersProofs FS.Fs Data.Data Data.VersionProofs.
From SpilGen Require Hamlet.
Import ListNotations.
Local Open Scope string_scope.

Theorem C18_next_concrete : forall Ld Rt F x0 x n,
  sid_factory Ld (FromSid x0) = Ok x -> sid_get x "version" = Some ("v" ++ fmt_03d n) ->
  next_version Ld Rt F x0 = request_version Ld x (S n).
Proof. exact next_version_concrete. Qed.
Print Assumptions C18_next_concrete.

Theorem C18_next_first : forall Ld Rt F x0 x,
  sid_factory Ld (FromSid x0) = Ok x -> sid_get x "version" = None ->
  next_version Ld Rt F x0 = request_version Ld x 1 /\ "v" ++ fmt_03d 1 = "v001".
Proof. exact next_version_first. Qed.
Print Assumptions C18_next_first.

Theorem C18_versions_ordered : forall n m, n < m -> m < 1000 -> str_ltb (vname n) (vname m) = true.
Proof. exact vname_monotone. Qed.
Print Assumptions C18_versions_ordered.

Theorem C18_versions_distinct : forall n m, n <> m -> vname n <> vname m.
Proof. exact vname_distinct. Qed.
Print Assumptions C18_versions_distinct.

Theorem C18_parse_format : forall n, py_int (fmt_03d n) = Some n.
Proof. exact py_int_fmt. Qed.
Print Assumptions C18_parse_format.

Theorem C18_three_digits : forall n, n < 1000 -> String.length (fmt_03d n) = 3.
Proof. exact fmt_03d_length. Qed.
Print Assumptions C18_three_digits.

(* beyond the last representable version the result is the empty Sid: instance on today's configuration *)
Example C18_beyond_last :
  match sid_factory Hamlet.the_loaded (FromString "hamlet/a/char/x/model/v999") with
  | Ok x => match next_version Hamlet.the_loaded (mkRouting [] [] true) [] x with
            | Ok y => negb (sid_bool y)
            | Raise _ => false
            end
  | Raise _ => false
  end = true.
Proof. vm_compute. reflexivity. Qed.
Print Assumptions C18_beyond_last.
