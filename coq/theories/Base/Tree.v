(** Untyped data exchanged with the outside (configuration in, results out). *)
From Coq Require Import List String.
Import ListNotations.
Local Open Scope string_scope.

Inductive tree := L (s : string) | N (l : list tree).

Definition t_str (t : tree) : option string := match t with L s => Some s | N _ => None end.
Definition t_list (t : tree) : option (list tree) := match t with N l => Some l | L _ => None end.

Fixpoint opt_all {A} (l : list (option A)) : option (list A) :=
  match l with
  | [] => Some []
  | Some x :: t => match opt_all t with Some r => Some (x :: r) | None => None end
  | None :: _ => None
  end.

Definition t_strs (t : tree) : option (list string) :=
  match t with N l => opt_all (map t_str l) | L _ => None end.

Definition t_pair (t : tree) : option (string * string) :=
  match t with N [L a; L b] => Some (a, b) | _ => None end.
Definition t_pairs (t : tree) : option (list (string * string)) :=
  match t with N l => opt_all (map t_pair l) | L _ => None end.
Definition t_kstrs (t : tree) : option (string * list string) :=
  match t with N [L a; b] => match t_strs b with Some l => Some (a, l) | None => None end | _ => None end.
Definition t_kstrs_list (t : tree) : option (list (string * list string)) :=
  match t with N l => opt_all (map t_kstrs l) | L _ => None end.
Definition t_kpairs (t : tree) : option (string * list (string * string)) :=
  match t with N [L a; b] => match t_pairs b with Some l => Some (a, l) | None => None end | _ => None end.
Definition t_kpairs_list (t : tree) : option (list (string * list (string * string))) :=
  match t with N l => opt_all (map t_kpairs l) | L _ => None end.

(* lookup in a record-like tree  N [N [L key; value]; ...] *)
Fixpoint t_field (l : list tree) (k : string) : option tree :=
  match l with
  | [] => None
  | N [L k'; v] :: t => if String.eqb k k' then Some v else t_field t k
  | _ :: t => t_field t k
  end.

Definition of_strs (l : list string) : tree := N (map L l).
Definition of_pairs (l : list (string * string)) : tree := N (map (fun kv => N [L (fst kv); L (snd kv)]) l).
