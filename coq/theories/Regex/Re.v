(** The regex fragment used by resolva templates and by glob2re, with a backtracking
    continuation-passing matcher that follows CPython's priority order (left alternative
    first, greedy class-star). Model of the *runtime* ([re]); validated by correspondence. *)
From Coq Require Import List String Ascii Bool Arith.
From Spil Require Import Base.Str.
Import ListNotations.
Local Open Scope string_scope.

Inductive cls :=
| CDigit                       (* \d restricted to [0-9] *)
| CNotSlash                    (* [^/]  (matches newline) *)
| CDot                         (* .  without DOTALL: anything but "\n" *)
| CAny                         (* .  with DOTALL *)
| CSet (neg : bool) (chars : list ascii).  (* [abc] / [^abc] / [!abc] from glob2re *)

Definition in_cls (c : cls) (a : ascii) : bool :=
  match c with
  | CDigit => is_digit a
  | CNotSlash => negb (Ascii.eqb a "/")
  | CDot => negb (Ascii.eqb a "010")
  | CAny => true
  | CSet neg chars => xorb neg (existsb (Ascii.eqb a) chars)
  end.

Inductive re :=
| Eps
| Chr (a : ascii)
| Cls (c : cls)
| Seq (r1 r2 : re)
| Alt (r1 r2 : re)
| Star (c : cls)               (* c*  greedy *)
| Grp (name : string) (r : re).  (* (?P<name>r) *)

Definition caps := list (string * string).

Fixpoint star (c : cls) (pre s : string) (k : string -> string -> option caps) : option caps :=
  match s with
  | String a s' =>
      if in_cls c a then
        match star c (pre ++ str1 a) s' k with
        | Some r => Some r
        | None => k pre s
        end
      else k pre s
  | "" => k pre s
  end.

(* [m r s k]: k receives (text consumed by r) (rest) (captures of r, in closing order) *)
Fixpoint m (r : re) (s : string) (k : string -> string -> caps -> option caps) : option caps :=
  match r with
  | Eps => k "" s []
  | Chr a => match s with
             | String b s' => if Ascii.eqb a b then k (str1 b) s' [] else None
             | "" => None
             end
  | Cls c => match s with
             | String b s' => if in_cls c b then k (str1 b) s' [] else None
             | "" => None
             end
  | Seq r1 r2 => m r1 s (fun w1 s1 c1 => m r2 s1 (fun w2 s2 c2 => k (w1 ++ w2) s2 (c1 ++ c2)%list))
  | Alt r1 r2 => match m r1 s k with Some x => Some x | None => m r2 s k end
  | Star c => star c "" s (fun w s' => k w s' [])
  | Grp n r => m r s (fun w s' c => k w s' (c ++ [(n, w)])%list)
  end.

(* python "$" (no MULTILINE): at the end, or just before a final newline *)
Definition at_dollar (rest : string) : bool :=
  match rest with "" => true | String a "" => Ascii.eqb a "010" | _ => false end.

(* re.compile("^" + r + "$").search(s)  -> groupdict as ordered captures *)
Definition search_anchored (r : re) (s : string) : option caps :=
  m r s (fun _ rest c => if at_dollar rest then Some c else None).

(* re.compile(r + "\Z").match(s) *)
Definition match_full (r : re) (s : string) : bool :=
  match m r s (fun _ rest c => if sempty rest then Some c else None) with Some _ => true | None => false end.

Fixpoint seq_of (l : list re) : re :=
  match l with [] => Eps | [x] => x | x :: t => Seq x (seq_of t) end.
Fixpoint alt_of (l : list re) : re :=
  match l with [] => Eps | [x] => x | x :: t => Alt x (alt_of t) end.
Fixpoint lit (s : string) : re :=
  match s with "" => Eps | String a "" => Chr a | String a s' => Seq (Chr a) (lit s') end.

(** ** Parser for placeholder expressions and literal template text (fail-closed). *)

Definition is_alnum_ (a : ascii) : bool :=
  let n := nat_of_ascii a in
  is_digit a || (Nat.leb 65 n && Nat.leb n 90) || (Nat.leb 97 n && Nat.leb n 122) || Nat.eqb n 95.

(* characters that stand for themselves in a python regex *)
Definition plain_char (a : ascii) : bool :=
  negb (existsb (Ascii.eqb a)
    ["."; "^"; "$"; "*"; "+"; "?"; "{"; "}"; "["; "]"; "\"; "|"; "("; ")"]%char).

(* one character of regex text outside groups: plain, ".", "\d", "\<punct>" ; None = outside fragment *)
Definition parse_atom (s : string) : option (re * string) :=
  match s with
  | "" => None
  | String "\" (String "d" s') => Some (Cls CDigit, s')
  | String "\" (String c s') => if is_alnum_ c then None else Some (Chr c, s')
  | String "\" "" => None
  | String "." s' => Some (Cls CDot, s')
  | String "[" (String "^" (String "/" (String "]" (String "*" s')))) => Some (Star CNotSlash, s')
  | String "[" (String "^" (String "/" (String "]" s'))) => Some (Cls CNotSlash, s')
  | String a s' => if plain_char a then Some (Chr a, s') else None
  end.

(* alt := seq ("|" seq)* ; seq := (atom | "(" alt ")")* ; stops at ")" or end. fuel = length *)
Fixpoint parse_alt (fuel : nat) (s : string) : option (re * string) :=
  match fuel with
  | O => None
  | S f =>
      let fix pseq (n : nat) (s : string) (acc : list re) : option (list re * string) :=
          match n with
          | O => None
          | S n' =>
              match s with
              | "" => Some (rev acc, s)
              | String ")" _ => Some (rev acc, s)
              | String "|" _ => Some (rev acc, s)
              | String "(" s' =>
                  match parse_alt f s' with
                  | Some (r, String ")" s'') => pseq n' s'' (r :: acc)
                  | _ => None
                  end
              | _ => match parse_atom s with
                     | Some (r, s') => pseq n' s' (r :: acc)
                     | None => None
                     end
              end
          end in
      let fix palts (n : nat) (s : string) (acc : list re) : option (list re * string) :=
          match n with
          | O => None
          | S n' =>
              match pseq (S (String.length s)) s [] with
              | Some (items, String "|" s') => palts n' s' (seq_of items :: acc)
              | Some (items, rest) => Some (rev (seq_of items :: acc), rest)
              | None => None
              end
          end in
      match palts (S (String.length s)) s [] with
      | Some (alts, rest) => Some (alt_of alts, rest)
      | None => None
      end
  end.

Definition parse_re (s : string) : option re :=
  match parse_alt (S (String.length s)) s with
  | Some (r, "") => Some r
  | _ => None
  end.
