(** C08 / C09 / C12: FindInList.star_search, sorted_search ('>'), find, find_one, exists. *)
From Coq Require Import List String Ascii Bool Arith Lia Permutation Sorted Setoid.
From Spil Require Import Base.Str Base.Dict Base.Outcome Base.StrProofs Base.SplitProofs
  Regex.Re Regex.MatchProofs Resolva.Template Resolva.Resolver Conf.ConfUtil Conf.Conf Conf.WF
  Sid.Query Sid.Sid Sid.TypingSpec Sid.SidProofs Cache.OrderProofs
  Search.Unfold Search.FindList Search.SortLemmas Search.GlobProofs.
Import ListNotations.
Local Open Scope string_scope.

(** * F1. star_search *)

Definition hit_step (acc : list string) (ib : string * bool) : list string :=
  if snd ib && negb (in_list (fst ib) acc) then (acc ++ [fst ib])%list else acc.

Lemma hits_fold : forall hits done, NoDup done ->
  exists ext, fold_left hit_step hits done = (done ++ ext)%list /\ NoDup (done ++ ext) /\
    forall e, In e ext <-> ~ In e done /\ In (e, true) hits.
Proof.
  induction hits as [|[it b] hits IH]; intros done Hnd.
  - exists []. rewrite app_nil_r. split; [reflexivity|]. split; [exact Hnd|].
    intros e; split; [intros [] | intros (_ & [])].
  - change (fold_left hit_step ((it, b) :: hits) done) with (fold_left hit_step hits (hit_step done (it, b))).
    assert (Hstep : hit_step done (it, b) = if b && negb (in_list it done) then (done ++ [it])%list else done)
      by reflexivity.
    rewrite Hstep. clear Hstep.
    destruct (b && negb (in_list it done)) eqn:Econd.
    + apply andb_true_iff in Econd. destruct Econd as (-> & Ein). apply negb_true_iff in Ein.
      apply in_list_false in Ein.
      destruct (IH (done ++ [it])%list (NoDup_snoc done it Hnd Ein)) as (ext' & E & Hnd' & Hin).
      exists (it :: ext'). split; [rewrite E, <- app_assoc; reflexivity|].
      split; [rewrite <- app_assoc in Hnd'; exact Hnd'|].
      intros e. simpl. rewrite Hin. split.
      * intros [<- | (Hn & Hh)].
        -- split; [exact Ein | left; reflexivity].
        -- split; [intros H; apply Hn; apply in_or_app; left; exact H | right; exact Hh].
      * intros (Hn & [Heq | Hh]).
        -- left. inversion Heq. reflexivity.
        -- destruct (string_dec it e) as [->|Hne]; [left; reflexivity|]. right. split; [|exact Hh].
           intros H. apply in_app_or in H. destruct H as [H|[H|[]]]; [apply Hn; exact H | apply Hne; exact H].
    + destruct (IH done Hnd) as (ext & E & Hnd' & Hin).
      exists ext. split; [exact E|]. split; [exact Hnd'|].
      intros e. rewrite Hin. split.
      * intros (Hn & Hh). split; [exact Hn | right; exact Hh].
      * intros (Hn & [Heq | Hh]); [|split; assumption].
        inversion Heq; subst. simpl in Econd. apply negb_false_iff in Econd. apply in_list_In in Econd.
        contradiction.
Qed.

Lemma hits_spec q : forall items hits,
  mapM (fun it => do b <- glob_match q it; Ok (it, b)) items = Ok hits ->
  forall e, In (e, true) hits <-> In e items /\ glob_match q e = Ok true.
Proof.
  induction items as [|a items IH]; intros hits H e; simpl in H.
  - inversion H. simpl. split; [intros [] | intros ([] & _)].
  - destruct (glob_match q a) as [b|] eqn:E; [|discriminate]. cbn [bind] in H.
    destruct (mapM _ items) as [hs|] eqn:E2; [|discriminate]. cbn [bind] in H. inversion H; subst.
    simpl. rewrite (IH hs eq_refl e). split.
    + intros [Heq | (Hi & Hg)].
      * inversion Heq; subst. split; [left; reflexivity | exact E].
      * split; [right|]; assumption.
    + intros ([<- | Hi] & Hg).
      * left. rewrite E in Hg. inversion Hg. reflexivity.
      * right; split; assumption.
Qed.

Lemma skipn_length_app {A} (a b : list A) : skipn (List.length a) (a ++ b) = b.
Proof. induction a as [|x a IH]; simpl; [reflexivity | exact IH]. Qed.

Lemma star_search_aux_spec : forall qs items done l, NoDup done ->
  star_search_aux qs items done = Ok l ->
  NoDup (done ++ l) /\
  forall e, In e l <->
    ~ In e done /\ In e items /\ exists q, In q qs /\ glob_match (s_string q) e = Ok true.
Proof.
  induction qs as [|q rest IH]; intros items done l Hnd H; cbn [star_search_aux] in H.
  - inversion H; subst. rewrite app_nil_r. split; [exact Hnd|].
    intros e. split; [intros [] | intros (_ & _ & q & [] & _)].
  - destruct (mapM _ items) as [hits|] eqn:Eh; [|discriminate]. cbn [bind] in H.
    destruct (hits_fold hits done Hnd) as (ext & Ef & Hnd2 & Hext). unfold hit_step in Ef.
    rewrite Ef in H.
    destruct (star_search_aux rest items (done ++ ext)) as [more|] eqn:Em; [|discriminate].
    cbn [bind] in H. inversion H; subst l. clear H. rewrite skipn_length_app.
    destruct (IH items (done ++ ext)%list more Hnd2 Em) as (Hnd3 & Hmore).
    split; [rewrite app_assoc; exact Hnd3|].
    intros e. rewrite in_app_iff, Hext, Hmore, (hits_spec _ _ _ Eh e). split.
    + intros [(Hn & Hi & Hg) | (Hn & Hi & q' & Hq' & Hg)].
      * repeat split; auto. exists q; split; [left; reflexivity | exact Hg].
      * split; [intros Hd; apply Hn; apply in_or_app; left; exact Hd|]. split; [exact Hi|].
        exists q'. split; [right; exact Hq' | exact Hg].
    + intros (Hn & Hi & q' & [<- | Hq'] & Hg).
      * left. auto.
      * destruct (in_dec string_dec e ext) as [He|He].
        -- left. apply (proj1 (Hext e)) in He. rewrite (hits_spec _ _ _ Eh e) in He. exact He.
        -- right. split; [|split; [exact Hi | exists q'; auto]].
           intros Hd. apply in_app_or in Hd. destruct Hd; [apply Hn | apply He]; assumption.
Qed.

(** F1 *)
Theorem star_search_spec qs items l : star_search qs items = Ok l ->
  NoDup l /\
  forall e, In e l <-> In e items /\ exists q, In q qs /\ glob_match (s_string q) e = Ok true.
Proof.
  intros H. destruct (star_search_aux_spec qs items [] l (NoDup_nil _) H) as (Hnd & Hin).
  split; [exact Hnd|]. intros e. rewrite Hin. split.
  - intros (_ & H1). exact H1.
  - intros H1. split; [intros []| exact H1].
Qed.

Lemma glob_match_raise pat it ex : glob_match pat it = Raise ex -> ex = Unmodelled /\ glob2re pat = None.
Proof.
  unfold glob_match. destruct (glob2re pat); [discriminate|]. intros H. inversion H. split; reflexivity.
Qed.

Lemma star_search_aux_raise : forall qs items done ex, star_search_aux qs items done = Raise ex ->
  ex = Unmodelled /\ exists q it, In q qs /\ In it items /\ glob_match (s_string q) it = Raise Unmodelled.
Proof.
  induction qs as [|q rest IH]; intros items done ex H; cbn [star_search_aux] in H; [discriminate|].
  destruct (mapM _ items) as [hits|e] eqn:Eh; cbn [bind] in H.
  - match type of H with context [star_search_aux rest items ?d] =>
      destruct (star_search_aux rest items d) as [more|e] eqn:Em end; cbn [bind] in H; [discriminate|].
    inversion H; subst e. destruct (IH _ _ _ Em) as (-> & q' & it & Hq & Hit & Hg).
    split; [reflexivity|]. exists q', it. repeat split; [right; exact Hq | exact Hit | exact Hg].
  - inversion H; subst e. apply mapM_raise in Eh. destruct Eh as (it & Hit & Hg).
    destruct (glob_match (s_string q) it) as [b|e] eqn:Eg; cbn [bind] in Hg; [discriminate|].
    inversion Hg; subst e. destruct (glob_match_raise _ _ _ Eg) as (-> & _).
    split; [reflexivity|]. exists q, it. repeat split; [left; reflexivity | exact Hit | exact Eg].
Qed.

(* star_search raises (only) Unmodelled, iff some glob_match does *)
Theorem star_search_raises qs items :
  (exists ex, star_search qs items = Raise ex) <->
  (exists q it, In q qs /\ In it items /\ glob_match (s_string q) it = Raise Unmodelled).
Proof.
  split.
  - intros (ex & H). apply star_search_aux_raise in H. destruct H as (_ & H). exact H.
  - intros (q & it & Hq & Hit & Hg). destruct (star_search qs items) as [l|ex] eqn:E; [|eauto].
    exfalso. unfold star_search in E. revert E. generalize (@nil string) as done. revert l.
    induction qs as [|q0 rest IH]; intros l done E; [destruct Hq|]. cbn [star_search_aux] in E.
    destruct (mapM _ items) as [hits|e] eqn:Eh; [|discriminate]. cbn [bind] in E.
    match type of E with context [star_search_aux rest items ?d] =>
      destruct (star_search_aux rest items d) as [more|e] eqn:Em end; [|discriminate].
    destruct Hq as [-> | Hq].
    + apply mapM_Forall2 in Eh. clear - Eh Hit Hg. induction Eh as [|x y l1 l2 Hxy _ IH2]; [destruct Hit|].
      destruct Hit as [-> | Hit]; [|apply IH2; exact Hit]. rewrite Hg in Hxy. discriminate.
    + apply (IH Hq _ _ Em).
Qed.

Theorem star_search_raise_exn qs items ex : star_search qs items = Raise ex -> ex = Unmodelled.
Proof. intros H. apply star_search_aux_raise in H. tauto. Qed.

(* C08: star_search in terms of the glob specification [glob_rel] *)
Corollary star_search_glob_spec qs items l : star_search qs items = Ok l ->
  forall e, In e l <-> In e items /\ exists q, In q qs /\ glob_rel (s_string q) e.
Proof.
  intros H e. destruct (star_search_spec _ _ _ H) as (_ & Hin). rewrite Hin. split.
  - intros (Hi & q & Hq & Hg). split; [exact Hi|]. exists q. split; [exact Hq|].
    apply (glob_match_spec _ _ _ Hg). reflexivity.
  - intros (Hi & q & Hq & Hg). split; [exact Hi|]. exists q. split; [exact Hq|].
    destruct (glob_match (s_string q) e) as [b|ex] eqn:Eg.
    + f_equal. apply (glob_match_spec _ _ _ Eg). exact Hg.
    + exfalso. destruct (glob_match_raise _ _ _ Eg) as (-> & _).
      assert (Hr : exists ex, star_search qs items = Raise ex).
      { apply star_search_raises. exists q, e. repeat split; assumption. }
      destruct Hr as (ex & Hr). congruence.
Qed.

(** * S1. segs_ltb is a strict total order *)

Lemma segs_ltb_irrefl a : segs_ltb a a = false.
Proof. induction a as [|x a IH]; simpl; [reflexivity|]. rewrite str_ltb_irrefl. exact IH. Qed.

Lemma segs_ltb_trans : forall a b c, segs_ltb a b = true -> segs_ltb b c = true -> segs_ltb a c = true.
Proof.
  induction a as [|x a IH]; intros [|y b] [|z c] Hab Hbc; simpl in *; try discriminate; try reflexivity.
  destruct (str_ltb x y) eqn:Exy.
  - destruct (str_ltb y z) eqn:Eyz.
    + rewrite (str_ltb_trans x y z Exy Eyz). reflexivity.
    + destruct (str_ltb z y) eqn:Ezy; [discriminate|].
      pose proof (str_ltb_total y z Eyz Ezy) as ->. rewrite Exy. reflexivity.
  - destruct (str_ltb y x) eqn:Eyx; [discriminate|].
    pose proof (str_ltb_total x y Exy Eyx) as ->.
    destruct (str_ltb y z); [reflexivity|]. destruct (str_ltb z y); [discriminate|].
    apply (IH b c Hab Hbc).
Qed.

Lemma segs_ltb_total : forall a b, segs_ltb a b = false -> segs_ltb b a = false -> a = b.
Proof.
  induction a as [|x a IH]; intros [|y b] Hab Hba; simpl in *; try discriminate; try reflexivity.
  destruct (str_ltb x y) eqn:Exy; [discriminate|]. destruct (str_ltb y x) eqn:Eyx; [discriminate|].
  pose proof (str_ltb_total x y Exy Eyx) as ->. f_equal. apply IH; assumption.
Qed.

Lemma segs_ltb_asym a b : segs_ltb a b = true -> segs_ltb b a = false.
Proof.
  intros H. destruct (segs_ltb b a) eqn:E; [|reflexivity].
  pose proof (segs_ltb_trans a b a H E) as H1. rewrite segs_ltb_irrefl in H1. discriminate.
Qed.

Lemma segs_ge_trans a b c : segs_ltb a b = false -> segs_ltb b c = false -> segs_ltb a c = false.
Proof.
  intros Hab Hbc. destruct (segs_ltb a c) eqn:E; [|reflexivity]. exfalso.
  destruct (segs_ltb c b) eqn:Ecb.
  - rewrite (segs_ltb_trans a c b E Ecb) in Hab. discriminate.
  - pose proof (segs_ltb_total b c Hbc Ecb) as ->. congruence.
Qed.

(* S1, packaged *)
Theorem segs_ltb_strict_total_order :
  (forall a, segs_ltb a a = false) /\
  (forall a b c, segs_ltb a b = true -> segs_ltb b c = true -> segs_ltb a c = true) /\
  (forall a b, segs_ltb a b = false -> segs_ltb b a = false -> a = b).
Proof. split; [exact segs_ltb_irrefl | split; [exact segs_ltb_trans | exact segs_ltb_total]]. Qed.

(** * S2. sort_paths *)

Lemma path_leb_total a b : path_leb a b = false -> path_leb b a = true.
Proof.
  unfold path_leb. intros H. apply negb_false_iff in H. apply negb_true_iff. apply segs_ltb_asym. exact H.
Qed.

Lemma path_leb_trans a b c : path_leb a b = true -> path_leb b c = true -> path_leb a c = true.
Proof.
  unfold path_leb. rewrite !negb_true_iff. intros Hab Hbc. apply (segs_ge_trans _ _ _ Hbc Hab).
Qed.

Lemma sort_paths_isort l : sort_paths l = isort path_leb l.
Proof. reflexivity. Qed.

Definition path_le (a b : string) : Prop := path_leb a b = true.

(** S2 *)
Theorem sort_paths_spec l : Permutation l (sort_paths l) /\ StronglySorted path_le (sort_paths l).
Proof.
  rewrite sort_paths_isort. split.
  - apply isort_perm.
  - apply (isort_sorted path_leb path_leb_total path_leb_trans).
Qed.

(* descending: an earlier element is never smaller than a later one *)
Definition seg_ge (a b : string) : Prop := segs_ltb (split_c "/" a) (split_c "/" b) = false.

Lemma rev_sort_desc l : StronglySorted seg_ge (rev (sort_paths l)).
Proof.
  destruct (sort_paths_spec l) as (_ & Hs). apply StronglySorted_rev in Hs.
  revert Hs. apply StronglySorted_impl. intros a b H. unfold path_le, path_leb in H.
  apply negb_true_iff in H. exact H.
Qed.

(** * S3. group_firsts *)

Lemma list_eqb_eq : forall a b, list_eqb a b = true <-> a = b.
Proof.
  induction a as [|x a IH]; intros [|y b]; simpl; split; intros H; try discriminate; try reflexivity.
  - apply andb_true_iff in H. destruct H as (H1 & H2). apply String.eqb_eq in H1. apply IH in H2. congruence.
  - inversion H; subst. rewrite String.eqb_refl. apply IH. reflexivity.
Qed.

Definition key_hit (prev : option (list string)) (kx : list string) : bool :=
  match prev with Some p => list_eqb p kx | None => false end.

Lemma gf_cons key x t prev : group_firsts key (x :: t) prev =
  ((if key_hit prev (key x) then [] else [x]) ++ group_firsts key t (Some (key x)))%list.
Proof.
  cbn [group_firsts]. destruct prev as [p|]; cbn [key_hit]; [|reflexivity].
  destruct (list_eqb p (key x)) eqn:E; [|reflexivity]. apply list_eqb_eq in E. subst. reflexivity.
Qed.

Lemma gf_incl key : forall l prev r, In r (group_firsts key l prev) -> In r l.
Proof.
  induction l as [|x t IH]; intros prev r H; [destruct H|]. rewrite gf_cons in H.
  apply in_app_or in H. destruct H as [H|H].
  - destruct (key_hit prev (key x)); [destruct H|]. destruct H as [<-|[]]. left. reflexivity.
  - right. apply (IH _ _ H).
Qed.

(* entries with the same [firstn n] prefix are contiguous in the lexicographic order *)
Lemma prefix_between : forall n a b c, segs_ltb a b = false -> segs_ltb b c = false ->
  firstn n a = firstn n c -> firstn n b = firstn n a.
Proof.
  induction n as [|n IH]; intros a b c Hab Hbc Hac; [reflexivity|].
  destruct a as [|x a'], c as [|z c']; simpl in Hac; try discriminate.
  - destruct b; [reflexivity | simpl in Hab; discriminate].
  - inversion Hac; subst z. destruct b as [|y b']; [simpl in Hbc; discriminate|].
    simpl in Hab, Hbc. destruct (str_ltb x y) eqn:Exy; [discriminate|].
    destruct (str_ltb y x) eqn:Eyx; [discriminate|].
    pose proof (str_ltb_total x y Exy Eyx) as ->. simpl. f_equal. apply (IH a' b' c'); assumption.
Qed.

Section GroupFirsts.
Variable index : nat.
Let k (x : string) : list string := firstn index (split_c "/" x).

Lemma gf_cover : forall l, StronglySorted seg_ge l -> forall prev e, In e l ->
  prev = Some (k e) \/
  exists r, In r (group_firsts k l prev) /\ k r = k e /\ (r = e \/ seg_ge r e).
Proof.
  induction 1 as [|x t Hs IH Hall]; intros prev e He; [destruct He|]. rewrite gf_cons.
  destruct He as [<- | He].
  - destruct (key_hit prev (k x)) eqn:Eh.
    + left. destruct prev as [p|]; [|discriminate]. simpl in Eh. apply list_eqb_eq in Eh. congruence.
    + right. exists x. split; [left; reflexivity|]. split; [reflexivity | left; reflexivity].
  - destruct (IH (Some (k x)) e He) as [Hk | (r & Hr & Hkr & Hre)].
    + injection Hk as Hk'. destruct (key_hit prev (k x)) eqn:Eh.
      * left. destruct prev as [p|]; [|discriminate]. simpl in Eh. apply list_eqb_eq in Eh. congruence.
      * right. exists x. split; [left; reflexivity|]. split; [exact Hk'|]. right.
        rewrite Forall_forall in Hall. apply Hall. exact He.
    + right. exists r. split; [apply in_or_app; right; exact Hr|]. split; assumption.
Qed.

Lemma gf_fresh : forall t x, StronglySorted seg_ge (x :: t) ->
  forall r, In r (group_firsts k t (Some (k x))) -> k r <> k x.
Proof.
  induction t as [|y t IH]; intros x Hs r Hr; [destruct Hr|]. rewrite gf_cons in Hr.
  inversion Hs as [|? ? Hst Hall]; subst. inversion Hall as [|? ? Hxy Hall']; subst.
  apply in_app_or in Hr. destruct Hr as [Hr|Hr].
  - cbn [key_hit] in Hr. destruct (list_eqb (k x) (k y)) eqn:E; [destruct Hr|].
    destruct Hr as [<-|[]]. intros Heq. rewrite <- Heq, (proj2 (list_eqb_eq _ _) eq_refl) in E. discriminate.
  - pose proof (IH y Hst r Hr) as Hne. intros Heq. apply Hne.
    assert (Hrt : In r t) by (apply (gf_incl _ _ _ _ Hr)).
    inversion Hst as [|? ? _ Hally]; subst. rewrite Forall_forall in Hally.
    pose proof (Hally r Hrt) as Hyr.
    unfold k in *. rewrite Heq. symmetry. apply (prefix_between index _ _ _ Hxy Hyr). symmetry. exact Heq.
Qed.

Lemma gf_nodup : forall l, StronglySorted seg_ge l -> forall prev,
  NoDup (map k (group_firsts k l prev)).
Proof.
  induction 1 as [|x t Hs IH Hall]; intros prev; [constructor|]. rewrite gf_cons.
  destruct (key_hit prev (k x)); simpl; [apply IH|].
  constructor; [|apply IH]. intros Hin. apply in_map_iff in Hin. destruct Hin as (r & Hk & Hr).
  apply (gf_fresh t x (SSorted_cons x Hs Hall) r Hr Hk).
Qed.

(** S3.  [l] sorted descending; distinctness of the elements of [l] is not needed *)
Theorem group_firsts_spec l : StronglySorted seg_ge l ->
  let res := group_firsts k l None in
  incl res l /\
  (forall e, In e l -> exists r, In r res /\ k r = k e /\
                                 segs_ltb (split_c "/" r) (split_c "/" e) = false) /\
  NoDup (map k res).
Proof.
  intros Hs res. split; [|split].
  - intros r Hr. apply (gf_incl _ _ _ _ Hr).
  - intros e He. destruct (gf_cover l Hs None e He) as [Hk | (r & Hr & Hkr & Hre)]; [discriminate|].
    exists r. split; [exact Hr|]. split; [exact Hkr|]. destruct Hre as [-> | Hre]; [apply segs_ltb_irrefl | exact Hre].
  - apply gf_nodup. exact Hs.
Qed.

End GroupFirsts.

(** * sorted_search / do_find / find_list : results are entries of [items] *)

Section Finder.
Variable L : Loaded.

(* C09: what sorted_search returns *)
Theorem sorted_search_spec qs items l : sorted_search L qs items = Ok l ->
  qs = [] /\ l = [] \/
  exists q0 rest index founds,
    qs = q0 :: rest /\ index_of ">" (split_c "/" (s_string q0)) = Some index /\
    concat_mapM (fun q => do q' <- Sid L (replace ">" "*" (uri q)); star_search [q'] items) qs = Ok founds /\
    let k := fun x => firstn index (split_c "/" x) in
    (forall r, In r l -> In r founds) /\
    (forall e, In e founds -> exists r, In r l /\ k r = k e /\
                                        segs_ltb (split_c "/" r) (split_c "/" e) = false) /\
    NoDup (map k l).
Proof.
  unfold sorted_search. destruct qs as [|q0 rest]; intros H.
  - left. inversion H. split; reflexivity.
  - right. destruct (index_of ">" (split_c "/" (s_string q0))) as [index|] eqn:Ei; [|discriminate].
    destruct (concat_mapM _ (q0 :: rest)) as [founds|] eqn:Ec; [|discriminate]. cbn [bind] in H.
    inversion H as [Hl]. clear H. exists q0, rest, index, founds.
    split; [reflexivity|]. split; [exact Ei|]. split; [reflexivity|].
    destruct (group_firsts_spec index _ (rev_sort_desc (nodup_s founds))) as (H1 & H2 & H3).
    assert (Hmem : forall e, In e (rev (sort_paths (nodup_s founds))) <-> In e founds).
    { intros e. rewrite <- in_rev, <- (nodup_s_In e founds). destruct (sort_paths_spec (nodup_s founds)) as (Hp & _).
      split; [apply (Permutation_in _ (Permutation_sym Hp)) | apply (Permutation_in _ Hp)]. }
    cbv zeta. split; [|split].
    + intros r Hr. apply Hmem. apply H1. exact Hr.
    + intros e He. apply Hmem in He. apply (H2 e He).
    + exact H3.
Qed.

Lemma sorted_search_incl qs items l : sorted_search L qs items = Ok l -> incl l items.
Proof.
  intros H. destruct (sorted_search_spec _ _ _ H) as [(_ & ->) | (q0 & rest & index & founds & _ & _ & Hc & Hin & _)].
  - intros e [].
  - intros e He. apply Hin in He. destruct (concat_mapM_In _ _ _ _ Hc He) as (q & ys & _ & Hq & Hy).
    destruct (Sid L (replace ">" "*" (uri q))) as [q'|]; [|discriminate]. cbn [bind] in Hq.
    apply star_search_spec in Hq. destruct Hq as (_ & Hq). apply Hq in Hy. tauto.
Qed.

Lemma do_find_incl qs items l : do_find L qs items = Ok l -> incl l items.
Proof.
  unfold do_find. destruct qs as [|q qs]; intros H.
  - inversion H. intros e [].
  - destruct (existsb _ (q :: qs)).
    + apply (sorted_search_incl _ _ _ H).
    + apply star_search_spec in H. destruct H as (_ & H). intros e He. apply H in He. tauto.
Qed.

Theorem find_list_incl items s l : find_list L items s = Ok l -> incl l items.
Proof.
  unfold find_list. destruct (Sid L s) as [x|]; [|discriminate]. cbn [bind].
  match goal with |- context [if ?b then _ else _] => destruct b end.
  - apply do_find_incl.
  - destruct (unfold_search L s false false) as [qs|]; [|discriminate]. cbn [bind]. apply do_find_incl.
Qed.

(* without '>' the results are pairwise distinct *)
Lemma do_find_star_nodup qs items l :
  existsb (fun q => Nat.ltb 0 (count ">" (s_string q))) qs = false ->
  do_find L qs items = Ok l -> NoDup l.
Proof.
  unfold do_find. destruct qs as [|q qs]; intros Hex H.
  - inversion H. constructor.
  - rewrite Hex in H. apply star_search_spec in H. tauto.
Qed.

(** * F2. find_one / exists *)

Theorem find_one_spec items s o : find_one L items s = Ok o ->
  exists l, find_list L items s = Ok l /\ o = hd_error l.
Proof.
  unfold find_one. destruct (find_list L items s) as [l|]; [|discriminate]. cbn [bind].
  intros H. inversion H. exists l. split; reflexivity.
Qed.

Theorem exists_spec items s b : exists_ L items s = Ok b ->
  exists l, find_list L items s = Ok l /\ b = match l with [] => false | x :: _ => truthy x end.
Proof.
  unfold exists_. destruct (find_one L items s) as [o|] eqn:E; [|discriminate]. cbn [bind].
  intros H. inversion H. destruct (find_one_spec _ _ _ E) as (l & Hl & ->).
  exists l. split; [exact Hl|]. destruct l; reflexivity.
Qed.

(* guard: the empty string is not an entry *)
Corollary exists_nonempty items s b : ~ In "" items -> exists_ L items s = Ok b ->
  exists l, find_list L items s = Ok l /\ b = negb (match l with [] => true | _ => false end).
Proof.
  intros Hne H. destruct (exists_spec _ _ _ H) as (l & Hl & ->). exists l. split; [exact Hl|].
  destruct l as [|x l]; [reflexivity|]. simpl.
  pose proof (find_list_incl _ _ _ Hl x (or_introl eq_refl)) as Hx.
  destruct x; [contradiction | reflexivity].
Qed.

Lemma find_one_raise items s ex : find_one L items s = Raise ex -> find_list L items s = Raise ex.
Proof. unfold find_one. destruct (find_list L items s); cbn [bind]; [discriminate|]. intros H. inversion H. reflexivity. Qed.

End Finder.

(** * F3. find_list_sids *)

Section FinderSids.
Variables (c : Conf) (Ld : Loaded).
Hypothesis Hload : load c = Some Ld.
Hypothesis Hwf : wf_loadedb Ld = true.

Definition plain_entry (e : string) : Prop := mem_c "?" e = false /\ mem_c ":" e = false.

Theorem find_list_sids_strings items s xs : find_list_sids Ld items s = Ok xs ->
  exists l, find_list Ld items s = Ok l /\ List.length xs = List.length l /\
            (Forall plain_entry l -> map s_string xs = l).
Proof.
  unfold find_list_sids. destruct (find_list Ld items s) as [l|]; [|discriminate]. cbn [bind].
  intros H. exists l. split; [reflexivity|]. split; [apply (mapM_length _ _ _ H)|].
  intros Hall. apply mapM_Forall2 in H. induction H as [|e x l xs Hex _ IH]; [reflexivity|].
  inversion Hall as [|? ? (Hq & Hc) Hall']; subst. simpl. f_equal; [|apply IH; exact Hall'].
  rewrite (Sid_plain c Ld Hload Hwf e Hq Hc) in Hex. inversion Hex.
  destruct (natural Ld e) as [[t d]|]; reflexivity.
Qed.

(* the guard stated on the entries *)
Corollary find_list_sids_strings_items items s xs : Forall plain_entry items ->
  find_list_sids Ld items s = Ok xs ->
  exists l, find_list Ld items s = Ok l /\ map s_string xs = l.
Proof.
  intros Hall H. destruct (find_list_sids_strings _ _ _ H) as (l & Hl & _ & Hm).
  exists l. split; [exact Hl|]. apply Hm. rewrite Forall_forall in *. intros e He.
  apply Hall. apply (find_list_incl _ _ _ _ Hl e He).
Qed.

End FinderSids.
