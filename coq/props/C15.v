(** C15 — created entities exist, and attribute data reads back what was written.  Property theorems only
    (over the file-system model FS/Fs.v and the writer / getter model Data/Data.v).  A failing operation returns no new
    state (outcome type): "changes nothing" holds by construction.  Existence through searches goes through FindInAll and
    is checked on the implementation over exhaustive short and random histories and by tree-to-model comparison. *)
From Coq Require Import List String Ascii Bool Arith.
From Spil Require Import Base.Str Base.Dict Base.Outcome Base.PyPath Resolva.Resolver Conf.Conf Conf.Routing Conf.WF Sid.Sid
  Search.Unfold Search.Finders FS.Fs Data.Data Data.Crash Path.PathProofs Data.DataProofs Data.CrashProofs.
From SpilGen Require Hamlet.
Import ListNotations.
Local Open Scope string_scope.

Theorem C15_create_existing_fails : forall c Ld Rt, load c = Some Ld -> wf_loadedb Ld = true ->
  forall F cfg s data x p, Sid Ld s = Ok x -> sid_path Ld x (default_cfg Ld cfg) = Ok (Some p) ->
  fs_exists F p = true -> w_create Ld Rt F cfg s data = Raise SpilException.
Proof. exact create_existing_fails. Qed.
Print Assumptions C15_create_existing_fails.

Theorem C15_update_missing_fails : forall c Ld, load c = Some Ld -> wf_loadedb Ld = true ->
  forall F cfg s data x p, Sid Ld s = Ok x -> sid_path Ld x (default_cfg Ld cfg) = Ok (Some p) ->
  fs_exists F p = false -> w_update Ld F cfg s data = Raise SpilException.
Proof. exact update_missing_fails. Qed.
Print Assumptions C15_update_missing_fails.

Theorem C15_no_path_fails : forall c Ld Rt, load c = Some Ld -> wf_loadedb Ld = true ->
  forall F cfg s data x, Sid Ld s = Ok x -> sid_path Ld x (default_cfg Ld cfg) = Ok None ->
  w_create Ld Rt F cfg s data = Raise SpilException /\ w_update Ld F cfg s data = Raise SpilException.
Proof. exact no_path_write_fails. Qed.
Print Assumptions C15_no_path_fails.

(* what is read after a write is the overlay of the previous data with the written values (later replace earlier, other keys persist) *)
Theorem C15_read_after_write : forall c Ld, load c = Some Ld -> wf_loadedb Ld = true ->
  forall F cfg s data F' b x p, w_update Ld F cfg s data = Ok (F', b) -> Sid Ld s = Ok x ->
  sid_path Ld x (default_cfg Ld cfg) = Ok (Some p) ->
  load_sidecar F' (sidecar Ld p) = match fs_get F (sidecar Ld p) with
                                    | Some _ => dupdate (load_sidecar F (sidecar Ld p)) data
                                    | None => data
                                    end.
Proof. exact read_after_write_sidecar. Qed.
Print Assumptions C15_read_after_write.

(* a write touches exactly one file: the sidecar of the written entity *)
Theorem C15_isolation : forall c Ld, load c = Some Ld -> wf_loadedb Ld = true ->
  forall F cfg s data F' b, w_update Ld F cfg s data = Ok (F', b) ->
  exists x p, Sid Ld s = Ok x /\ sid_path Ld x (default_cfg Ld cfg) = Ok (Some p) /\
              forall q, q <> sidecar Ld p -> fs_get F' q = fs_get F q.
Proof. exact write_isolation. Qed.
Print Assumptions C15_isolation.

Theorem C15_isolation_read : forall c Ld, load c = Some Ld -> wf_loadedb Ld = true ->
  forall F cfg s data F' b x p, w_update Ld F cfg s data = Ok (F', b) -> Sid Ld s = Ok x ->
  sid_path Ld x (default_cfg Ld cfg) = Ok (Some p) ->
  forall cfg' y attrs enc,
  (forall py, sid_path Ld y (default_cfg Ld cfg') = Ok (Some py) -> sidecar Ld py <> sidecar Ld p) ->
  get_data_paths Ld F' cfg' y attrs enc = get_data_paths Ld F cfg' y attrs enc.
Proof. exact write_isolation_get. Qed.
Print Assumptions C15_isolation_read.

(* entities whose paths differ only by the file extension share one sidecar (by design of get_data_json_path) *)
Theorem C15_same_stem_shares : forall suf d stem, mem_c "/" stem = false ->
  sidecar_path suf (d ++ "/" ++ stem ++ ".ma") = sidecar_path suf (d ++ "/" ++ stem ++ ".mb").
Proof. exact sidecar_same_stem_ma_mb. Qed.
Print Assumptions C15_same_stem_shares.
