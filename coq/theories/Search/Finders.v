(** Finders over a data environment: FindInPaths (spil/sid/pathops/find_paths.py), FindInConstants
    (read/finders/find_constants.py), FindInAll (read/finders/find_all.py), generic over the star search
    (find_glob.py do_find / sorted_search, finder.py find / find_one / exists). *)
From Coq Require Import List String Ascii Bool Arith.
From Spil Require Import Base.Str Base.Dict Base.Outcome Base.PyPath Regex.Re
  Resolva.Template Resolva.Resolver Conf.ConfUtil Conf.Conf Conf.Routing Sid.Query Sid.Sid
  Search.Unfold Search.FindList FS.Fs.
Import ListNotations.
Local Open Scope string_scope.

Section WithEnv.
Variable L : Loaded.
Variable R : Routing.
Variable F : fs.

Definition star_fn := list sid -> outcome (list string).

(* find_glob.sorted_search over any star search *)
Definition sorted_search_g (star : star_fn) (searches : list sid) : outcome (list string) :=
  match searches with
  | [] => Ok []
  | q0 :: _ =>
      match index_of ">" (split_c "/" (s_string q0)) with
      | None => Raise ValueError
      | Some index =>
          do founds <- concat_mapM (fun q => do q' <- Sid L (replace ">" "*" (uri q)); star [q']) searches;
          let sorted_desc := rev (sort_paths (nodup_s founds)) in
          Ok (group_firsts (fun x => firstn index (split_c "/" x)) sorted_desc None)
      end
  end.

Definition do_find_g (star : star_fn) (searches : list sid) : outcome (list string) :=
  match searches with
  | [] => Ok []
  | _ => if existsb (fun q => Nat.ltb 0 (count ">" (s_string q))) searches
         then sorted_search_g star searches
         else star searches
  end.

(* Finder.find(search, as_sid=False) ; the argument is a string (a Sid argument is passed as str(sid)) *)
Definition find_g (star : star_fn) (search : string) : outcome (list string) :=
  do x <- Sid L search;
  let is_alias := dmem (c_extension_alias (l_conf L)) (last (split_c "/" (s_string x)) "") in
  if sid_bool x && negb (is_search L x) && negb is_alias && negb (mem_c "?" (s_string x)) then do_find_g star [x]
  else do qs <- unfold_search L search false false; do_find_g star qs.

(* Finder.find(sid_object): Sid(sid) keeps the type, unfold_search(sid) drops it (str(sid)) *)
Definition find_g_sid (star : star_fn) (x0 : sid) : outcome (list string) :=
  do x <- sid_factory L (FromSid x0);
  let is_alias := dmem (c_extension_alias (l_conf L)) (last (split_c "/" (s_string x)) "") in
  if sid_bool x && negb (is_search L x) && negb is_alias && negb (mem_c "?" (s_string x)) then do_find_g star [x]
  else do qs <- unfold_search L (s_string x0) false false; do_find_g star qs.

(** ** FindInPaths.star_search_simple (results as they come out of glob, here: sorted paths) *)

Definition dedup_first (l : list string) : list string := uniq_first l.

Definition paths_star (cfg : string) (searches : list sid) : outcome (list string) :=
  let step (st : outcome (list (string * string) * list string * list string)) (q : sid) :=
      do '(searched, found_paths, results) <- st;
      do po <- sid_path L q cfg;
      let pattern := match po with Some p => p | None => "None" end in
      if existsb (fun tp => String.eqb (fst tp) (s_type q) && String.eqb (snd tp) pattern) searched
      then Ok (searched, found_paths, results) else
      match fs_glob F pattern with
      | None => Raise Unmodelled
      | Some found =>
          do r <- fold_left
                (fun (acc : outcome (list string * list string)) path =>
                   do '(fp, res) <- acc;
                   if in_list path fp then Ok (fp, res) else
                   do x <- sid_factory L (FromPath path cfg);
                   if negb (String.eqb (s_type x) (s_type q)) then Ok (fp, res) else
                   if negb (sid_bool x) then Ok (fp, res) else
                   if negb (forallb (fun kv => let pat := replace ">" "*" (snd kv) in
                                               let val := match sid_get x (fst kv) with Some w => w | None => "None" end in
                                               fn_match (S (String.length pat + String.length val)) pat val)
                                    (s_fields q)) then Ok (fp, res) else
                   Ok ((fp ++ [path])%list, (res ++ [s_string x])%list))
                found (Ok (found_paths, results));
          Ok ((searched ++ [(s_type q, pattern)])%list, fst r, snd r)
      end in
  do '(_, _, results) <- fold_left step searches (Ok ([], [], []));
  Ok results.

(** ** FindInConstants.star_search *)

Definition append_values (key : string) (values : list string) (root : sid) : outcome (list string) :=
  concat_mapM (fun v => do r <- get_with_kw L root [(key, Some v)];
                        Ok (if sid_bool r then [s_string r] else [])) values.

Fixpoint fstar (fd : finder) (searches : list sid) : outcome (list string) :=
  match fd with
  | FPaths _ cfg => paths_star cfg searches
  | FList _ items => star_search searches items
  | FConstants _ key values pfd =>
      concat_mapM
        (fun q =>
           do q' <- sid_factory L (FromSid q);
           do root <- get_as L q' key;
           if negb (sid_bool root) then Ok [] else
           if negb (contains "*" (s_string root)) then Ok [s_string root] else
           do rp <- parent L root;
           if contains "*" (s_string rp) && negb (sid_eqb root rp) then
             match pfd with
             | None => Raise SpilException
             | Some pf =>
                 do found_roots <- find_g_sid (fstar pf) rp;
                 concat_mapM
                   (fun fr_s =>
                      do fr <- Sid L fr_s;
                      match sid_get root key with
                      | Some v => if String.eqb v "*" then append_values key values fr
                                  else do r <- sid_div L fr v; Ok [s_string r]
                      | None => do r <- sid_div L fr "None"; Ok [s_string r]
                      end)
                   found_roots
             end
           else append_values key values root)
        searches
  end.

Definition ffind (fd : finder) (search : string) : outcome (list string) := find_g (fstar fd) search.

(** ** FindInAll.find: unfold, route every typed search to its Finder, group by Finder instance *)

Fixpoint group_by_finder (qs : list sid) (acc : list (finder * list sid)) : list (finder * list sid) :=
  match qs with
  | [] => acc
  | q :: rest =>
      match finder_for R (s_type q) with
      | None => group_by_finder rest acc
      | Some fd =>
          let fix add (l : list (finder * list sid)) : list (finder * list sid) :=
              match l with
              | [] => [(fd, [q])]
              | (g, qs') :: t => if String.eqb (finder_id g) (finder_id fd) then (g, (qs' ++ [q])%list) :: t
                                 else (g, qs') :: add t
              end in
          group_by_finder rest (add acc)
      end
  end.

Definition find_all (search : string) : outcome (list string) :=
  do qs <- unfold_search L search false false;
  do res <- concat_mapM (fun gq => do_find_g (fstar (fst gq)) (snd gq)) (group_by_finder qs []);
  Ok (dedup_first res).

Definition find_all_one (search : string) : outcome (option string) :=
  do r <- find_all search; Ok (hd_error r).

End WithEnv.
