(** C16 — a Getter returns one record per Sid its Finder finds, in the same order.  Property theorems only. *)
From Coq Require Import List String Ascii Bool Arith.
From Spil Require Import Base.Str Base.Dict Base.Outcome Base.PyPath Resolva.Resolver Conf.Conf Conf.Routing Conf.WF Sid.Sid
  Search.Unfold Search.Finders FS.Fs Data.Data Data.Crash Path.PathProofs Data.DataProofs Data.CrashProofs.
From SpilGen Require Hamlet.
Import ListNotations.
Local Open Scope string_scope.

Theorem C16_get_is_map_of_find : forall c Ld, load c = Some Ld -> wf_loadedb Ld = true ->
  forall F cfg q attrs enc recs, get_paths Ld F cfg q attrs enc = Ok recs ->
  exists found, ffind Ld F (FPaths "" (default_cfg Ld cfg)) q = Ok found /\
                List.length recs = List.length found /\
                Forall2 (fun s r => exists x, Sid Ld s = Ok x /\ get_data_paths Ld F cfg x attrs enc = Ok r) found recs.
Proof. exact get_is_map_of_find. Qed.
Print Assumptions C16_get_is_map_of_find.

(* with an attributes list each mapping has exactly those keys *)
Theorem C16_record_keys : forall c Ld, load c = Some Ld -> wf_loadedb Ld = true ->
  forall F cfg x attrs enc r, get_data_paths Ld F cfg x attrs enc = Ok r -> attrs <> [] ->
  (sid_path Ld x (default_cfg Ld cfg) = Ok None /\ r = []) \/ map fst r = attrs.
Proof. exact record_keys_cases. Qed.
Print Assumptions C16_record_keys.

(* the Sid under "sid", encoded by the given encoder; omitted when it returns None *)
Theorem C16_sid_key : forall c Ld, load c = Some Ld -> wf_loadedb Ld = true ->
  forall F cfg x enc r e p, get_data_paths Ld F cfg x [] enc = Ok r -> encode enc x = Some e -> truthy e = true ->
  sid_path Ld x (default_cfg Ld cfg) = Ok (Some p) -> dget r "sid" = Some (Some e).
Proof. exact record_sid_key. Qed.
Print Assumptions C16_sid_key.

Theorem C16_sid_key_omitted : forall c Ld, load c = Some Ld -> wf_loadedb Ld = true ->
  forall F cfg x enc r p, get_data_paths Ld F cfg x [] enc = Ok r -> encode enc x = None ->
  sid_path Ld x (default_cfg Ld cfg) = Ok (Some p) ->
  r = map (fun kv => (fst kv, Some (snd kv))) (load_sidecar F (sidecar Ld p)) /\
  dget r "sid" = option_map Some (dget (load_sidecar F (sidecar Ld p)) "sid").
Proof. exact record_sid_key_untouched. Qed.
Print Assumptions C16_sid_key_omitted.

(* types configured without a Getter yield nothing, without failing *)
Theorem C16_no_getter : forall c Ld Rt, load c = Some Ld -> wf_loadedb Ld = true ->
  forall F search attrs enc qs, unfold_search Ld search false false = Ok qs ->
  (forall q, In q qs -> getter_for Rt (s_type q) false = GNone) ->
  get_all Ld Rt F search attrs enc = Ok [].
Proof. exact get_all_no_getter. Qed.
Print Assumptions C16_no_getter.

(** ** Getter <-> Finder over data sets and histories (Data/GetterDefs.v, Data/GetterProofs.v).

    The record of one Sid: [record_from stored x attrs enc] = [project_record (with_sid enc x (stored_record stored)) attrs],
    where [stored] is what the sidecar of the Sid's path holds, [stored_record] turns it into a mapping (every value [Some v]),
    [with_sid] does  data["sid"] = e  when the encoder gives a truthy string e ([sid_entry]; in place when the stored data has a
    key "sid" already, else appended) and [project_record] is the attributes projection of Data/Data.v.  [full_keys] / [full_val]
    are the keys and the values of the full mapping. *)
From Spil Require Import Search.TreeListDefs Search.AlgebraDefs Data.CreateDefs Data.HistoryDefs Data.HistoryProofs
  Data.GetterDefs Data.GetterProofs.

(* what [record_from] is, for the two shapes of the attributes list *)
Theorem C16_record_from_spec : forall (stored : dict string) (x : sid) (enc : encoder),
  (record_from stored x [] enc = with_sid enc x (stored_record stored) /\
   map fst (record_from stored x [] enc) =
     match sid_entry enc x with
     | Some _ => if in_list "sid" (dkeys stored) then dkeys stored else (dkeys stored ++ ["sid"])%list
     | None => dkeys stored
     end) /\
  (forall attrs, attrs <> [] ->
     record_from stored x attrs enc = map (fun k => (k, full_val stored x enc k)) attrs /\
     map fst (record_from stored x attrs enc) = attrs) /\
  (forall attrs k, In k (map fst (record_from stored x attrs enc)) ->
     dget (record_from stored x attrs enc) k = Some (full_val stored x enc k)) /\
  (forall e, sid_entry enc x = Some e -> full_val stored x enc "sid" = Some e) /\
  (forall k, k <> "sid" -> full_val stored x enc k = dget stored k).
Proof.
  intros stored x enc. split; [exact (record_from_full stored x enc)|].
  split; [intros attrs; exact (record_from_attrs stored x attrs enc)|].
  split; [intros attrs k; exact (record_from_value stored x attrs enc k)|].
  split; [intros e; exact (full_val_sid stored x enc e) | intros k; exact (full_val_other stored x enc k)].
Qed.
Print Assumptions C16_record_from_spec.

(* the first sentence of the property at full strength, for every tree: one record per found Sid, in the same order; the i-th
   record is built from what the sidecar of the path of the i-th found Sid holds, with the "sid" entry; without an attributes list
   its keys are those of the stored data plus "sid" when the encoder gives a truthy string; with one, exactly the attributes
   (missing ones None).  A found string whose re-read Sid has no path under the configuration gets the empty mapping
   (get_data returns {} then): this case cannot be excluded for an arbitrary tree. *)
Theorem C16_get_paths_records : forall c Ld, load c = Some Ld -> wf_loadedb Ld = true ->
  forall F cfg s attrs enc recs, get_paths Ld F cfg s attrs enc = Ok recs ->
  exists found, ffind Ld F (FPaths "" (default_cfg Ld cfg)) s = Ok found /\
    List.length recs = List.length found /\
    Forall2 (fun si r =>
      exists x, Sid Ld si = Ok x /\
        ((sid_path Ld x (default_cfg Ld cfg) = Ok None /\ r = []) \/
         (exists p, sid_path Ld x (default_cfg Ld cfg) = Ok (Some p) /\
            r = record_from (load_sidecar F (sidecar Ld p)) x attrs enc /\
            (attrs = [] -> map fst r = full_keys (load_sidecar F (sidecar Ld p)) x enc) /\
            (attrs <> [] -> map fst r = attrs) /\
            (forall k, In k (map fst r) -> dget r k = Some (full_val (load_sidecar F (sidecar Ld p)) x enc k)))))
      found recs.
Proof. exact get_paths_records. Qed.
Print Assumptions C16_get_paths_records.

(* the same by positions *)
Theorem C16_get_paths_records_nth : forall c Ld, load c = Some Ld -> wf_loadedb Ld = true ->
  forall F cfg s attrs enc recs, get_paths Ld F cfg s attrs enc = Ok recs ->
  exists found, ffind Ld F (FPaths "" (default_cfg Ld cfg)) s = Ok found /\
    List.length recs = List.length found /\
    forall i si, nth_error found i = Some si ->
      exists r, nth_error recs i = Some r /\ record_of Ld (load_sidecar F) cfg attrs enc si r.
Proof. exact get_paths_records_nth. Qed.
Print Assumptions C16_get_paths_records_nth.

(* after any history of create / set / update calls (guard: the written dicts have distinct keys) from any tree F0: every record
   of get_paths is built from the overlay, in call order, of the successful writes to the sidecar of its Sid over what the
   sidecar held in F0 *)
Theorem C16_get_paths_after_history : forall c Ld Rt, load c = Some Ld -> wf_loadedb Ld = true ->
  forall F0 ops cfg s attrs enc recs, hist_nodupb ops = true ->
  get_paths Ld (fst (run_hist Ld Rt F0 ops)) cfg s attrs enc = Ok recs ->
  exists found, ffind Ld (fst (run_hist Ld Rt F0 ops)) (FPaths "" (default_cfg Ld cfg)) s = Ok found /\
    List.length recs = List.length found /\
    forall i si, nth_error found i = Some si ->
      exists r x, nth_error recs i = Some r /\ Sid Ld si = Ok x /\
        ((sid_path Ld x (default_cfg Ld cfg) = Ok None /\ r = []) \/
         (exists p, sid_path Ld x (default_cfg Ld cfg) = Ok (Some p) /\
            r = project_record (with_sid enc x (stored_record
                   (fold_left dupdate (writes_to Ld Rt (sidecar Ld p) F0 ops) (load_sidecar F0 (sidecar Ld p))))) attrs)).
Proof. exact get_paths_after_history_nth. Qed.
Print Assumptions C16_get_paths_after_history.

(* ... with the keys / values clauses ([overlay Ld Rt F0 ops dp] is the fold above) *)
Theorem C16_get_paths_after_history_records : forall c Ld Rt, load c = Some Ld -> wf_loadedb Ld = true ->
  forall F0 ops cfg s attrs enc recs, hist_nodupb ops = true ->
  get_paths Ld (fst (run_hist Ld Rt F0 ops)) cfg s attrs enc = Ok recs ->
  exists found, ffind Ld (fst (run_hist Ld Rt F0 ops)) (FPaths "" (default_cfg Ld cfg)) s = Ok found /\
    List.length recs = List.length found /\
    Forall2 (record_of Ld (overlay Ld Rt F0 ops) cfg attrs enc) found recs.
Proof. exact get_paths_after_history. Qed.
Print Assumptions C16_get_paths_after_history_records.

(* one Sid, any attributes list (C15_data_history_read is the case attrs = []) *)
Theorem C16_get_data_after_history : forall Ld Rt F0 ops cfg x p attrs enc, hist_nodupb ops = true ->
  sid_path Ld x (default_cfg Ld cfg) = Ok (Some p) ->
  get_data_paths Ld (fst (run_hist Ld Rt F0 ops)) cfg x attrs enc =
  Ok (record_from (fold_left dupdate (writes_to Ld Rt (sidecar Ld p) F0 ops) (load_sidecar F0 (sidecar Ld p))) x attrs enc).
Proof. exact get_data_after_history. Qed.
Print Assumptions C16_get_data_after_history.

(** *** GetFromAll, after the repair of D30: the typed searches of the unfolding are grouped by the path configuration of their
    Getter ([group_by_getter]) and each group is handed, as a whole, to that Getter's do_get; types without a path getter are in
    no group.  [routed_to Rt cfg q]: the type of q has the getter [GPaths cfg]. *)

(* what the groups are: no configuration twice; a group holds, in order, exactly the typed searches its configuration serves
   (so it is never empty); every served typed search is in the group of its configuration *)
Theorem C16_group_by_getter_spec : forall Rt qs,
  NoDup (map fst (group_by_getter Rt qs)) /\
  (forall g, In g (group_by_getter Rt qs) ->
     snd g = filter (fun q => match getter_for Rt (s_type q) false with GPaths c0 => String.eqb c0 (fst g) | _ => false end) qs /\
     snd g <> []) /\
  (forall q cfg, In q qs -> getter_for Rt (s_type q) false = GPaths cfg ->
     In (cfg, filter (routed_to Rt cfg) qs) (group_by_getter Rt qs)).
Proof. exact group_by_getter_spec. Qed.
Print Assumptions C16_group_by_getter_spec.

Theorem C16_get_all_is_concat : forall Ld Rt F s attrs enc,
  get_all Ld Rt F s attrs enc =
  (do qs <- unfold_search Ld s false false;
   do parts <- mapM (fun g => do_get_paths Ld F (fst g) (snd g) attrs enc) (group_by_getter Rt qs);
   Ok (List.concat parts)).
Proof. exact get_all_is_concat. Qed.
Print Assumptions C16_get_all_is_concat.

Theorem C16_get_all_ok_iff : forall Ld Rt F s attrs enc qs recs, unfold_search Ld s false false = Ok qs ->
  (get_all Ld Rt F s attrs enc = Ok recs <->
   exists parts, Forall2 (fun g part => do_get_paths Ld F (fst g) (snd g) attrs enc = Ok part) (group_by_getter Rt qs) parts /\
                 recs = List.concat parts).
Proof. exact get_all_ok_iff. Qed.
Print Assumptions C16_get_all_ok_iff.

Theorem C16_get_all_flat_map : forall Ld Rt F s attrs enc qs (h : string * list sid -> list record),
  unfold_search Ld s false false = Ok qs ->
  (forall g, In g (group_by_getter Rt qs) -> do_get_paths Ld F (fst g) (snd g) attrs enc = Ok (h g)) ->
  get_all Ld Rt F s attrs enc = Ok (flat_map h (group_by_getter Rt qs)).
Proof. exact get_all_flat_map. Qed.
Print Assumptions C16_get_all_flat_map.

(* the typed searches whose type has no path getter are in no group (they can be left out of the unfolding: same groups), so
   they contribute no record and never make get_all fail: a failure is one of the unfolding, or of the do_get of one group;
   every record comes from the do_get of one group.  C16_no_getter is the case where there is no group at all. *)
Theorem C16_get_all_no_getter_types : forall Ld Rt F s attrs enc,
  (forall qs, group_by_getter Rt qs =
              group_by_getter Rt (filter (fun q => match getter_for Rt (s_type q) false with GPaths _ => true | _ => false end) qs)) /\
  (forall qs g q, In g (group_by_getter Rt qs) -> In q (snd g) -> In q qs /\ getter_for Rt (s_type q) false = GPaths (fst g)) /\
  get_all Ld Rt F s attrs enc =
    (do qs <- unfold_search Ld s false false;
     concat_mapM (fun g => do_get_paths Ld F (fst g) (snd g) attrs enc) (group_by_getter Rt (filter (has_path_getter Rt) qs))) /\
  (forall e, get_all Ld Rt F s attrs enc = Raise e ->
     unfold_search Ld s false false = Raise e \/
     exists qs g, unfold_search Ld s false false = Ok qs /\ In g (group_by_getter Rt qs) /\
       snd g = filter (routed_to Rt (fst g)) qs /\ snd g <> [] /\
       do_get_paths Ld F (fst g) (snd g) attrs enc = Raise e) /\
  (forall recs r, get_all Ld Rt F s attrs enc = Ok recs -> In r recs ->
     exists qs g part, unfold_search Ld s false false = Ok qs /\ In g (group_by_getter Rt qs) /\
       snd g = filter (routed_to Rt (fst g)) qs /\ snd g <> [] /\
       do_get_paths Ld F (fst g) (snd g) attrs enc = Ok part /\ In r part).
Proof.
  intros Ld Rt F s attrs enc. split; [exact (group_by_getter_filter Rt)|]. split; [exact (group_member Rt)|].
  split; [exact (get_all_no_getter_types Ld Rt F s attrs enc)|].
  split; [exact (get_all_raise Ld Rt F s attrs enc) | exact (get_all_records_from Ld Rt F s attrs enc)].
Qed.
Print Assumptions C16_get_all_no_getter_types.

(* one typed search with the path getter cfg' (one group of one): GetFromAll is GetFromPaths(cfg').  Needed: the search string
   re-reads as a Sid (Finder.find begins with Sid(search); GetFromAll does not), and Finder.find does not take its shortcut, or the
   shortcut searches the very typed search q.  Nothing is asked of the path configurations. *)
Theorem C16_get_all_single : forall Ld Rt F s attrs enc x q cfg', Sid Ld s = Ok x ->
  unfold_search Ld s false false = Ok [q] ->
  getter_for Rt (s_type q) false = GPaths cfg' ->
  (shortcut Ld s = false \/ q = x) ->
  get_all Ld Rt F s attrs enc = get_paths Ld F cfg' s attrs enc.
Proof. exact get_all_single. Qed.
Print Assumptions C16_get_all_single.

(* EVERY typed search of the unfolding is served by the one path configuration cfg': one group, the whole unfolding, and
   GetFromAll IS GetFromPaths(cfg') -- as an equation of outcomes (failures included), with no independence hypothesis and no
   restriction on "last" searches: the group is searched by one do_find, as FindInPaths.find does *)
Theorem C16_get_all_eq_get_paths : forall Ld Rt F s attrs enc x qs cfg', Sid Ld s = Ok x -> shortcut Ld s = false ->
  unfold_search Ld s false false = Ok qs ->
  (forall q, In q qs -> getter_for Rt (s_type q) false = GPaths cfg') ->
  group_by_getter Rt qs = match qs with [] => [] | _ => [(cfg', qs)] end /\
  get_all Ld Rt F s attrs enc = get_paths Ld F cfg' s attrs enc.
Proof. exact get_all_eq_get_paths. Qed.
Print Assumptions C16_get_all_eq_get_paths.

(* the mixed case: the typed searches that have a path getter all have cfg', the others have none and are dropped from the group:
   GetFromAll is do_get of GetFromPaths(cfg') on the served typed searches, where FindInPaths.find searches them all *)
Theorem C16_get_all_one_getter : forall Ld Rt F s attrs enc cfg' qs, unfold_search Ld s false false = Ok qs ->
  (forall q cfg, In q qs -> getter_for Rt (s_type q) false = GPaths cfg -> cfg = cfg') ->
  group_by_getter Rt qs = match filter (has_path_getter Rt) qs with [] => [] | l => [(cfg', l)] end /\
  get_all Ld Rt F s attrs enc = do_get_paths Ld F cfg' (filter (has_path_getter Rt) qs) attrs enc.
Proof.
  intros Ld Rt F s attrs enc cfg' qs Hu H. split; [exact (group_by_getter_one Rt cfg' qs H)|].
  exact (get_all_one_getter Ld Rt F s attrs enc cfg' qs Hu H).
Qed.
Print Assumptions C16_get_all_one_getter.

Theorem C16_get_all_eq_get_paths_mixed : forall Ld Rt F s attrs enc x qs cfg', Sid Ld s = Ok x -> shortcut Ld s = false ->
  unfold_search Ld s false false = Ok qs ->
  (forall q cfg, In q qs -> getter_for Rt (s_type q) false = GPaths cfg -> cfg = cfg') ->
  group_by_getter Rt qs = match filter (has_path_getter Rt) qs with [] => [] | l => [(cfg', l)] end /\
  get_all Ld Rt F s attrs enc =
  (do found <- do_find_g Ld (paths_star Ld F (default_cfg Ld cfg')) (filter (has_path_getter Rt) qs);
   mapM (fun s0 => do x0 <- Sid Ld s0; get_data_paths Ld F cfg' x0 attrs enc) found) /\
  ffind Ld F (FPaths "" (default_cfg Ld cfg')) s = do_find_g Ld (paths_star Ld F (default_cfg Ld cfg')) qs.
Proof. exact get_all_eq_get_paths_mixed. Qed.
Print Assumptions C16_get_all_eq_get_paths_mixed.

(* so the records of GetFromAll are, one for one and in order, those of the Sids that FindInPaths(cfg') finds *)
Theorem C16_get_all_length : forall c Ld Rt, load c = Some Ld -> wf_loadedb Ld = true ->
  forall F s attrs enc x qs cfg' recs, Sid Ld s = Ok x -> shortcut Ld s = false ->
  unfold_search Ld s false false = Ok qs ->
  (forall q, In q qs -> getter_for Rt (s_type q) false = GPaths cfg') ->
  get_all Ld Rt F s attrs enc = Ok recs ->
  exists found, ffind Ld F (FPaths "" (default_cfg Ld cfg')) s = Ok found /\
    List.length recs = List.length found /\
    Forall2 (record_of Ld (load_sidecar F) cfg' attrs enc) found recs.
Proof. exact get_all_length. Qed.
Print Assumptions C16_get_all_length.

(* kept, about FindInPaths alone (not needed for GetFromAll any more): over pairwise independent typed searches ([independent]:
   different (type, pattern) globs and disjoint single results) it finds the concatenation of what it finds for each one alone *)
Theorem C16_paths_star_concat : forall Ld cfg F qs parts,
  Forall2 (fun q r => paths_star Ld F cfg [q] = Ok r) qs parts ->
  ForallOrdPairs (fun q q' =>
    (forall po po', sid_path Ld q cfg = Ok po -> sid_path Ld q' cfg = Ok po' ->
       String.eqb (s_type q) (s_type q') && String.eqb (pattern_str po) (pattern_str po') = false) /\
    (forall r r', paths_star Ld F cfg [q] = Ok r -> paths_star Ld F cfg [q'] = Ok r' -> forall s, In s r -> ~ In s r')) qs ->
  paths_star Ld F cfg qs = Ok (List.concat parts).
Proof. exact paths_star_concat. Qed.
Print Assumptions C16_paths_star_concat.

(* get_data: the record of that Sid; get_attr: one value of it *)
Theorem C16_get_data_all_is_record : forall Ld Rt F s attrs enc x cfg, Sid Ld s = Ok x ->
  getter_for Rt (s_type x) false = GPaths cfg ->
  get_data_all Ld Rt F s attrs enc = get_data_paths Ld F cfg x attrs enc.
Proof. exact get_data_all_is_record. Qed.
Print Assumptions C16_get_data_all_is_record.

Theorem C16_get_data_all_no_getter : forall Ld Rt F s attrs enc x, Sid Ld s = Ok x ->
  (forall cfg, getter_for Rt (s_type x) false <> GPaths cfg) ->
  get_data_all Ld Rt F s attrs enc = Ok [].
Proof. exact get_data_all_no_getter. Qed.
Print Assumptions C16_get_data_all_no_getter.

Theorem C16_get_attr_is_value : forall Ld Rt F x a cfg, a <> "next.version" ->
  getter_for Rt (s_type x) false = GPaths cfg ->
  get_attr Ld Rt F x a =
  (do r <- get_data_paths Ld F cfg x [] EncStr; Ok (match dget r a with Some v => v | None => None end)).
Proof. exact get_attr_is_value. Qed.
Print Assumptions C16_get_attr_is_value.

Theorem C16_get_attr_value : forall Ld Rt F x a cfg p, a <> "next.version" ->
  getter_for Rt (s_type x) false = GPaths cfg ->
  sid_path Ld x (default_cfg Ld cfg) = Ok (Some p) ->
  get_attr Ld Rt F x a = Ok (full_val (load_sidecar F (sidecar Ld p)) x EncStr a).
Proof. exact get_attr_value. Qed.
Print Assumptions C16_get_attr_value.

Theorem C16_get_attr_no_getter : forall Ld Rt F x a, a <> "next.version" ->
  (forall cfg, getter_for Rt (s_type x) false <> GPaths cfg) -> get_attr Ld Rt F x a = Ok None.
Proof. exact get_attr_no_getter. Qed.
Print Assumptions C16_get_attr_no_getter.

(** ** Over a data set ([dataset_ok]: the tree holds exactly the paths of the Sids of E, everything else resolves to nothing; the
    members contain no "?" and no ":"; [tree_guard0]: the typed searches FindInPaths globs are good searches of C11): every found
    Sid is a member, re-reads as itself and has a path, so the empty-mapping case does not occur, every record is the full one,
    and GetFromPaths never fails when FindInPaths does not *)
From Spil Require Import Path.UnambiguousDefs Search.AlgebraTreeDefs Data.SidLevelDefs.

Theorem C16_get_paths_records_dataset : forall c Ld, load c = Some Ld -> wf_loadedb Ld = true -> paths_unambiguousb Ld = true ->
  forall cfg E F, dataset_ok Ld (default_cfg Ld cfg) E F -> (forall e, In e E -> plain_member e) ->
  forall s attrs enc recs, tree_guard0 Ld (default_cfg Ld cfg) s ->
  get_paths Ld F cfg s attrs enc = Ok recs ->
  exists found, ffind Ld F (FPaths "" (default_cfg Ld cfg)) s = Ok found /\
    List.length recs = List.length found /\
    Forall2 (fun si r => exists x p, In x E /\ si = s_string x /\ Sid Ld si = Ok x /\
                           sid_path Ld x (default_cfg Ld cfg) = Ok (Some p) /\
                           r = record_from (load_sidecar F (sidecar Ld p)) x attrs enc) found recs.
Proof. exact get_paths_records_dataset. Qed.
Print Assumptions C16_get_paths_records_dataset.

Theorem C16_get_paths_total_dataset : forall c Ld, load c = Some Ld -> wf_loadedb Ld = true -> paths_unambiguousb Ld = true ->
  forall cfg E F, dataset_ok Ld (default_cfg Ld cfg) E F -> (forall e, In e E -> plain_member e) ->
  forall s attrs enc found, tree_guard0 Ld (default_cfg Ld cfg) s ->
  ffind Ld F (FPaths "" (default_cfg Ld cfg)) s = Ok found ->
  get_paths Ld F cfg s attrs enc =
  Ok (map (fun si => match Sid Ld si with
                     | Ok x => match sid_path Ld x (default_cfg Ld cfg) with
                               | Ok (Some p) => record_from (load_sidecar F (sidecar Ld p)) x attrs enc
                               | _ => []
                               end
                     | Raise _ => []
                     end) found).
Proof. exact get_paths_total_dataset. Qed.
Print Assumptions C16_get_paths_total_dataset.

(** ** Instance on the configuration of this run: the history of C15_data_history_instance (two entities .../w/ma, .../w/mb that
    share a sidecar, and hamlet/a/prop/skull) *)
Definition L16 : Loaded := Hamlet.the_loaded.
Definition Rt16 : Routing := match parse_routing Hamlet.raw with Some r => r | None => mkRouting [] [] false end.
Definition ma16 : string := "hamlet/a/char/ophelia/model/v001/w/ma".
Definition mb16 : string := "hamlet/a/char/ophelia/model/v001/w/mb".
Definition skull16 : string := "hamlet/a/prop/skull".
Definition whist16 : list wop :=
  [ WUpdate "" ma16 [("a", "0")];
    WCreate "" ma16 [("a", "1"); ("b", "1")];
    WUpdate "" mb16 [("b", "9")];
    WCreate "" mb16 [("b", "2"); ("c", "2")];
    WCreate "" skull16 [("k", "v")];
    WUpdate "" ma16 [("a", "3")];
    WCreate "" ma16 [("z", "z")];
    WUpdate "" skull16 [("k", "w"); ("m", "n")] ].
Definition F16 : fs := fst (run_hist L16 Rt16 fs_root whist16).
Definition s16 : string := "hamlet/a/char/ophelia/model/v001/w/*".

Example C16_history_instance :
  hist_nodupb whist16 = true /\
  (* the search unfolds to three typed searches (cache_file, file, movie_file), all with the path getter "local" *)
  (match unfold_search L16 s16 false false with
   | Ok qs => Ok (map (fun q => (s_type q, getter_for Rt16 (s_type q) false)) qs)
   | Raise e => Raise e end)
  = Ok [("asset__cache_file", GPaths "local"); ("asset__file", GPaths "local"); ("asset__movie_file", GPaths "local")] /\
  (* what the finder finds, and the overlay of the writes to the (shared) sidecar of the two found Sids *)
  ffind L16 F16 (FPaths "" (default_cfg L16 "")) s16 = Ok [ma16; mb16] /\
  map (fun s => option_map (overlay L16 Rt16 fs_root whist16) (target L16 "" s)) [ma16; mb16]
  = [Some [("a", "3"); ("b", "2"); ("c", "2")]; Some [("a", "3"); ("b", "2"); ("c", "2")]] /\
  (* the two records, in finder order, with the overlay data and "sid" *)
  get_paths L16 F16 "" s16 [] EncStr
  = Ok [[("a", Some "3"); ("b", Some "2"); ("c", Some "2"); ("sid", Some ma16)];
        [("a", Some "3"); ("b", Some "2"); ("c", Some "2"); ("sid", Some mb16)]] /\
  (* with an attributes list: exactly those keys *)
  get_paths L16 F16 "" s16 ["a"; "zz"] EncStr
  = Ok [[("a", Some "3"); ("zz", None)]; [("a", Some "3"); ("zz", None)]] /\
  (* an encoder that returns None: no "sid"; the uri encoder; "sid" asked for as an attribute *)
  get_paths L16 F16 "" s16 [] EncNone
  = Ok [[("a", Some "3"); ("b", Some "2"); ("c", Some "2")]; [("a", Some "3"); ("b", Some "2"); ("c", Some "2")]] /\
  get_paths L16 F16 "" s16 ["sid"; "c"] EncUri
  = Ok [[("sid", Some ("asset__file:" ++ ma16)); ("c", Some "2")]; [("sid", Some ("asset__file:" ++ mb16)); ("c", Some "2")]] /\
  (* GetFromAll answers the same *)
  get_all L16 Rt16 F16 s16 [] EncStr = get_paths L16 F16 "local" s16 [] EncStr /\
  get_all L16 Rt16 F16 s16 [] EncStr = get_paths L16 F16 "" s16 [] EncStr /\
  (* a type configured without a Getter (asset__assettype): the finder finds, GetFromAll yields nothing *)
  ffind L16 F16 (FPaths "" (default_cfg L16 "")) "hamlet/a/*" = Ok ["hamlet/a/char"; "hamlet/a/prop"] /\
  get_all L16 Rt16 F16 "hamlet/a/*" [] EncStr = Ok [] /\
  (* get_data / get_attr *)
  get_data_all L16 Rt16 F16 ma16 [] EncStr = Ok [("a", Some "3"); ("b", Some "2"); ("c", Some "2"); ("sid", Some ma16)] /\
  (match Sid L16 ma16 with
   | Ok x => [get_attr L16 Rt16 F16 x "a"; get_attr L16 Rt16 F16 x "sid"; get_attr L16 Rt16 F16 x "zz"]
   | Raise e => [] end)
  = [Ok (Some "3"); Ok (Some ma16); Ok None].
Proof. vm_compute. repeat split; reflexivity. Qed.
Print Assumptions C16_history_instance.

(* the hypotheses of C16_get_all_length hold on the instance (every typed search routed to "local"), so the theorem applies *)
Example C16_get_all_length_instance : forall recs, get_all L16 Rt16 F16 s16 [] EncStr = Ok recs ->
  exists found, ffind L16 F16 (FPaths "" (default_cfg L16 "local")) s16 = Ok found /\
    List.length recs = List.length found /\
    Forall2 (record_of L16 (load_sidecar F16) "local" [] EncStr) found recs.
Proof.
  intros recs H.
  destruct (Sid L16 s16) as [x|e] eqn:Hs; [|vm_compute in Hs; discriminate].
  destruct (unfold_search L16 s16 false false) as [qs|e] eqn:Hu; [|vm_compute in Hu; discriminate].
  apply (C16_get_all_length Hamlet.the_conf L16 Rt16 Hamlet.the_loaded_eq Hamlet.conf_wf F16 s16 [] EncStr x qs "local" recs Hs);
    try exact H; try exact Hu.
  - vm_compute. reflexivity.
  - vm_compute in Hu. inversion Hu; subst qs. intros q [<- | [<- | [<- | []]]]; vm_compute; reflexivity.
Qed.
Print Assumptions C16_get_all_length_instance.

(* the witness of the former defect D30 (two typed searches of the SAME type asset__asset that both find hamlet/a/char/ophelia):
   the two are one group, searched by one do_find, which records a path once: ONE record, as GetFromPaths and as the Finder *)
Definition F16o : fs := fst (run_hist L16 Rt16 fs_root [WCreate "" "hamlet/a/char/ophelia" [("k", "v")]]).
Definition s16o : string := "hamlet/a/char/ophelia,*".
Example C16_get_all_overlap_instance :
  (match unfold_search L16 s16o false false with
   | Ok qs => Ok (map (fun q => (s_type q, s_string q)) qs, map fst (group_by_getter Rt16 qs),
                  map (fun g => List.length (snd g)) (group_by_getter Rt16 qs))
   | Raise e => Raise e end)
  = Ok ([("asset__asset", "hamlet/a/char/*"); ("asset__asset", "hamlet/a/char/ophelia")], ["local"], [2]) /\
  shortcut L16 s16o = false /\
  ffind L16 F16o (FPaths "" (default_cfg L16 "local")) s16o = Ok ["hamlet/a/char/ophelia"] /\
  get_all L16 Rt16 F16o s16o [] EncStr = Ok [[("k", Some "v"); ("sid", Some "hamlet/a/char/ophelia")]] /\
  get_all L16 Rt16 F16o s16o [] EncStr = get_paths L16 F16o "local" s16o [] EncStr /\
  (match get_all L16 Rt16 F16o s16o [] EncStr, ffind L16 F16o (FPaths "" (default_cfg L16 "local")) s16o with
   | Ok recs, Ok found => Some (List.length recs, List.length found)
   | _, _ => None end) = Some (1, 1).
Proof. vm_compute. repeat split; reflexivity. Qed.
Print Assumptions C16_get_all_overlap_instance.
