"""C08 list search = glob match of the unfolded forms."""
from harness.runner import PropBase, Case
from harness import gen
from props import listsearch as ls
from props.c07 import denote, SpecError

class C08(PropBase):
    id = 'C08'
    rule = ('universes (full hierarchies, leaf-only, mixed with near-miss / untyped / duplicate entries) x searches derived from their entries '
            '(*, comma lists, partial *, **, aliases, filters; no >); plus match(); non-trivial = at least one entry found; distinct by (universe, search)')
    def cases(self, rng, ctx, tier):
        v = gen.vocab_from_ctx(ctx)
        nu, ns = (40, 40) if tier == 'quick' else (400, 120)
        out = []
        for _ in range(nu):
            items = ls.universe(rng, v)
            for _ in range(ns):
                r = rng.random()
                if r < 0.75:
                    q = ls.search_from(rng, v, items)
                elif r < 0.9:
                    q = rng.choice(items) if items else 'hamlet'      # literal, non-search
                else:
                    q = gen.mutate_string(rng.choice(items), rng, v) if items else 'x'
                out.append(Case('find_list', [items, q], 'find', {}))
                if rng.random() < 0.3 and items:
                    out.append(Case('match', [['s', rng.choice(items)], q], 'match', {}))
            # as_sid=True re-reads every found entry with Sid(): the entries are Sid strings there, not uris (':' / '?')
            items_s = [e for e in items if ':' not in e and '?' not in e]
            out.append(Case('find_list_sids', [items_s, ls.search_from(rng, v, items_s)], 'find_as_sid', {}))
            # results asked as Sid objects: entries that match but are not typeable (near-miss / unknown values) are results too
            from props.c01 import natural as _nat0
            odd = [e for e in items_s if e and _nat0(v, e) is None and '\n' not in e and not any(ch in e for ch in '*>,[')]
            for e in odd[:3]:
                segs = e.split('/')
                i = rng.randrange(len(segs))
                q = '/'.join(segs[:i] + ['*'] + segs[i + 1:])
                out.append(Case('find_list_sids', [items_s, q], 'find_as_sid', {}))
                out.append(Case('find_list', [items_s, q], 'find', {}))
            # match() against a search without any search symbol: a fully valued Sid whose last value is an alias
            for e in items_s:
                last = e.split('/')[-1]
                als = [al for al, ms in v.alias.items() if last in ms]
                if als and _nat0(v, e) is not None:
                    qa = '/'.join(e.split('/')[:-1] + [rng.choice(als)])
                    out.append(Case('match', [['s', e], qa], 'match', {}))
                    out.append(Case('find_list', [[e], qa], 'find', {}))
                    break
            # match() against a ',' list whose SECOND alternative is the Sid's own value (a comma before any star)
            for e in rng.sample(items_s, min(3, len(items_s))):
                if not e or _nat0(v, e) is None or any(ch in e for ch in '*>,[\n'):
                    continue
                segs = e.split('/')
                i = rng.randrange(len(segs))
                others = sorted(set(x.split('/')[i] for x in items_s if len(x.split('/')) > i and x.split('/')[i] != segs[i] and x.split('/')[i]
                                    and not any(ch in x.split('/')[i] for ch in '*>,[?:\n ')))
                alt = rng.choice(others) if others else rng.choice(ls.NAMES)
                q2 = list(segs)
                q2[i] = alt + ',' + segs[i]
                for j in range(i + 1, len(q2)):
                    if rng.random() < 0.3:
                        q2[j] = '*'
                out.append(Case('match', [['s', e], '/'.join(q2)], 'match', {}))
                out.append(Case('find_list', [[e], '/'.join(q2)], 'find', {}))
            # an alias name used as an ordinary (open) value in last position: the last segment still expands
            if v.alias and rng.random() < 0.5:
                al = rng.choice(list(v.alias))
                base = rng.choice(['hamlet/a/char', 'hamlet/a/prop', 'hamlet/s/sq001/sh0010/anim/v001/w'])
                items2 = items + [base + '/' + m for m in v.alias[al]] + [base + '/' + al]
                rng.shuffle(items2)
                out.append(Case('find_list', [items2, base + '/' + al], 'alias-open', {}))
                out.append(Case('find_list', [items2, base + '/' + al + ',x'], 'alias-open', {}))
        return out
    def phase2(self, rng, ctx, cases, impl_out, tier):
        # the unfolded forms of each search (C07's subject) are an input of this property's oracle
        seen = {}
        more = []
        for c in cases:
            q = c.args[1]
            if q not in seen:
                seen[q] = True
                more.append(Case('unfold', [q, '0', '0'], 'unfold', {}))
                more.append(Case('obs', [['s', q]], 'obs', {}))
        self._unfold = None
        return more
    def _tables(self, cases_impl):
        pass
    def oracle(self, case, impl, ctx):
        return None     # evaluated in bulk by oracle_bulk (needs the unfold results of phase 2)
    def oracle_bulk(self, cases, impl_out, ctx):
        unfold = {}; obs = {}
        for c, o in zip(cases, impl_out):
            if c.op == 'unfold':
                unfold[c.args[0]] = o
            elif c.op == 'obs':
                obs[c.args[0][1]] = o
        fails = []
        for c, o in zip(cases, impl_out):
            if c.op not in ('find_list', 'match', 'find_list_sids'):
                continue
            q = c.args[1]
            if '[' in q or '>' in q or not ls.plain(q):
                continue
            u = unfold.get(q); ob = obs.get(q)
            if u is None or ob is None or not isinstance(ob[0], list):
                continue
            v = gen.vocab_from_ctx(ctx)
            typed_literal = ob[1] == '1' and ob[6] == '0' and ob[0][0].split('/')[-1] not in v.alias
            if c.op == 'match':
                me = c.args[0][1]
                from props.c01 import natural as _nat
                if ':' in me:
                    ty_, body_ = me.split(':', 1)
                    nat_me = _nat(v, body_, forced=ty_) if ty_ else _nat(v, body_)      # a uri is typed iff the type it names accepts the string
                else:
                    nat_me = _nat(v, me)
                if nat_me is None:
                    continue      # match() is defined on typed Sids (an undefined Sid answers False by design)
                if me.split('/')[-1] in v.alias:
                    continue      # a Sid whose last value is an alias name is a search, not an entity
                # found by q in a list containing only itself
                exp = self.expected([me], q, u, ob, typed_literal)
                if exp is None:
                    continue
                if o[0] != 'ok':
                    fails.append((c, o, 'match raised')); continue
                # Sid(search) == self shortcut is part of "would be found"
                want = (exp == [me])
                from props.c01 import natural
                if o[1] != ('1' if want else '0'):
                    # match on an untyped Sid is False by definition; equality shortcut
                    fails.append((c, o, 'match(%r) on %r: expected %s' % (q, me, want)))
                continue
            items = c.args[0]
            exp = self.expected(items, q, u, ob, typed_literal)
            if exp is None:
                continue
            if o[0] != 'ok':
                fails.append((c, o, 'find raised %r' % (o,))); continue
            got = o[1] if c.op == 'find_list' else [x[0] for x in o[1]]
            if len(set(got)) != len(got):
                fails.append((c, o, 'duplicate results')); continue
            if sorted(got) != sorted(exp):
                fails.append((c, o, 'find(%r): expected %r got %r' % (q, sorted(exp), sorted(got))))
        return fails
    def expected(self, items, q, u, ob, typed_literal):
        if typed_literal:
            forms = [ob[0][0]]
        else:
            if u[0] != 'ok':
                return None if u[1] == 'SpilException' else None
            forms = [x[0] for x in u[1]]
        out = []
        for e in items:
            if e not in out and any(ls.glob(f, e) for f in forms):
                out.append(e)
        return out
    def nontrivial(self, case, impl):
        if case.op in ('find_list', 'find_list_sids') and impl[0] == 'ok' and impl[1]:
            return case.args
        if case.op == 'match' and impl == ['ok', '1']:
            return case.args
        return None
    def histogram_key(self, case, impl):
        if case.op in ('find_list', 'find_list_sids'):
            return '%s:%s' % (case.op, 'raise' if impl[0] != 'ok' else min(len(impl[1]), 5))
        return case.op + ':' + str(impl[1] if impl[0] == 'ok' else impl[0])[:12]

PROP = C08()
