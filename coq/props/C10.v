From Coq Require Import List String.
Example C10_placeholder : True. Proof. exact I. Qed.
Print Assumptions C10_placeholder.
