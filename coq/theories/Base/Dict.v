(** Python dicts with string keys: insertion-ordered association lists. *)
From Coq Require Import List String Ascii Bool Arith.
From Spil Require Import Base.Str.
Import ListNotations.
Local Open Scope string_scope.

Definition dict (V : Type) := list (string * V).

Section Dict.
Context {V : Type}.

Fixpoint dget (d : dict V) (k : string) : option V :=
  match d with
  | [] => None
  | (k', v) :: t => if String.eqb k k' then Some v else dget t k
  end.

Definition dmem (d : dict V) (k : string) : bool :=
  match dget d k with Some _ => true | None => false end.

(* d[k] = v : overwrite in place, else append *)
Fixpoint dset (d : dict V) (k : string) (v : V) : dict V :=
  match d with
  | [] => [(k, v)]
  | (k', v') :: t => if String.eqb k k' then (k', v) :: t else (k', v') :: dset t k v
  end.

(* d.pop(k, None) *)
Fixpoint dpop (d : dict V) (k : string) : dict V :=
  match d with
  | [] => []
  | (k', v') :: t => if String.eqb k k' then t else (k', v') :: dpop t k
  end.

Definition dkeys (d : dict V) : list string := map fst d.
Definition dvals (d : dict V) : list V := map snd d.

(* d.update(e) *)
Definition dupdate (d e : dict V) : dict V := fold_left (fun acc kv => dset acc (fst kv) (snd kv)) e d.

(* dict(pairs): last value wins, first position kept *)
Definition dict_of_pairs (l : list (string * V)) : dict V := dupdate [] l.

End Dict.

(* set equality of two key lists (python: d.keys() == set) ; both sides have distinct elements in use *)
Definition incl_s (a b : list string) : bool := forallb (fun x => in_list x b) a.
Definition keys_eq (a b : list string) : bool := incl_s a b && incl_s b a.

Fixpoint assoc_eqb (a b : dict string) : bool :=
  match a, b with
  | [], [] => true
  | (k, v) :: a', (k', v') :: b' => String.eqb k k' && String.eqb v v' && assoc_eqb a' b'
  | _, _ => false
  end.
