(** C04 — updating a Sid by query or get_with is all-or-nothing and never guesses.  Property theorems only. *)
From Coq Require Import List String Ascii Bool Arith Permutation.
From Spil Require Import Base.Str Base.Dict Base.Outcome Regex.Re Regex.MatchProofs Resolva.Template Resolva.Resolver
  Conf.Conf Conf.WF Sid.Query Sid.Sid Sid.TypingSpec Sid.TypingProofs Sid.SidProofs Sid.QueryStringProofs Sid.QueryProofs.
From SpilGen Require Hamlet.
Import ListNotations.
Local Open Scope string_scope.

(* the SpilException branches of apply_query are unreachable: it raises only if the query text is outside the modelled urllib fragment *)
Theorem C04_never_raises : forall c Ld, load c = Some Ld -> wf_loadedb Ld = true ->
  forall s q t d ov, (t = "" -> d = []) -> update d q = Ok ov ->
  exists res, apply_query Ld s q t d = Ok res.
Proof. exact apply_query_never_raises. Qed.
Print Assumptions C04_never_raises.

(* either untouched with the query visibly kept in the string, or: fields = old fields overlaid (as a dictionary),
   typed by the key set, clean canonical string ([forced] = the type's template accepts the whole string and gives exactly these fields) *)
Theorem C04_all_or_nothing : forall c Ld, load c = Some Ld -> wf_loadedb Ld = true ->
  forall s q t d s' t' d', NoDup (map fst d) -> apply_query Ld s q t d = Ok (s', t', d') -> q <> "" ->
  (s' = s ++ "?" ++ q /\ t' = t /\ d' = d) \/
  (exists ov, update d q = Ok ov /\ (forall k, dget d' k = dget ov k) /\ List.length d' = List.length ov /\
              forced Ld t' s' = Some (t', d')).
Proof. exact apply_query_all_or_nothing. Qed.
Print Assumptions C04_all_or_nothing.

(* get_with(key=value...): the Sid with exactly the overlaid fields, or the empty Sid; never a typed Sid with other fields *)
Theorem C04_get_with_exact : forall c Ld, load c = Some Ld -> wf_loadedb Ld = true ->
  forall x kw y, get_with_kw Ld x kw = Ok y ->
  y = empty_sid \/
  (sid_bool y = true /\ (forall k, dget (s_fields y) k = dget (apply_kwargs (s_fields x) kw) k) /\
   forced Ld (s_type y) (s_string y) = Some (s_type y, s_fields y)).
Proof. exact get_with_kw_exact. Qed.
Print Assumptions C04_get_with_exact.

(* a None value removes the key, also when it is absent (D3, fixed) *)
Example C04_none_absent :
  get_with_kw Hamlet.the_loaded (mkSid "hamlet/a/char/x" "asset__asset" [("project","hamlet");("type","a");("assettype","char");("asset","x")]) [("task", None)]
  = Ok (mkSid "hamlet/a/char/x" "asset__asset" [("project","hamlet");("type","a");("assettype","char");("asset","x")]).
Proof. vm_compute. reflexivity. Qed.
Print Assumptions C04_none_absent.

(* "~"-prefixed values only replace keys that already exist *)
Example C04_optional :
  update [("project", "hamlet"); ("type", "a")] "type=~s&task=~rig" = Ok [("project", "hamlet"); ("type", "s")].
Proof. vm_compute. reflexivity. Qed.
Print Assumptions C04_optional.
