(** Lemmas for the trailing query of a search (C07, stage 3): reading and writing url-safe queries,
    alias expansion in the leaf-key filters ([extensions]), distribution of the "," alternatives ([or_on_query]). *)
From Coq Require Import List String Ascii Bool Arith Lia Permutation.
From Spil Require Import Base.Str Base.Dict Base.Outcome Base.StrProofs Base.SplitProofs
  Regex.Re Regex.MatchProofs Resolva.Template Resolva.Resolver Conf.ConfUtil Conf.Conf Conf.WF
  Sid.Query Sid.Sid Sid.TypingSpec Sid.TypingProofs Sid.SidLemmas Sid.SidProofs Sid.QueryStringProofs Sid.QueryProofs
  Search.Unfold Search.SortLemmas Search.UnfoldProofs Search.UnfoldSpec Search.DenoteLemmas.
Import ListNotations.
Local Open Scope string_scope.

(** * strings that [to_dict] / [to_string] read and write unchanged *)

Definition qchar (a : ascii) : bool :=
  negb (is_space a) && negb (existsb (Ascii.eqb a) ["&"; "="; "?"; "#"; "%"; "+"; ";"]%char).
Definition qstr (s : string) : bool := negb (sempty s) && all_c qchar s.
Definition qdict (d : dict string) : Prop :=
  Forall (fun kv => qstr (fst kv) = true /\ qstr (snd kv) = true) d.

Lemma qstr_mem s a : qstr s = true -> qchar a = false -> mem_c a s = false.
Proof.
  unfold qstr. intros H Ha. apply andb_true_iff in H. destruct H as (_ & H). apply (all_c_mem _ _ _ H Ha).
Qed.

Lemma qstr_ne s : qstr s = true -> s <> "".
Proof. unfold qstr. destruct s; simpl; [discriminate | discriminate]. Qed.

Lemma kv_str_enc kv : kv_str kv = enc kv.
Proof. reflexivity. Qed.

Lemma to_string_q d : qdict d -> to_string d = join "&" (map enc d).
Proof.
  intros H. unfold to_string. f_equal. apply map_ext_in. intros [k v] Hin.
  unfold qdict in H. rewrite Forall_forall in H. destruct (H _ Hin) as (Hk & Hv).
  cbn [fst snd] in *. unfold q_encode, enc. cbn [fst snd].
  change " " with (str1 " ").
  rewrite (replace_id " " "" k), (replace_id " " "" v); [reflexivity | |]; apply qstr_mem; auto.
Qed.

Lemma mem_c_qquery a d : qdict d -> qchar a = false ->
  Ascii.eqb "=" a = false -> Ascii.eqb "&" a = false ->
  mem_c a (join "&" (map enc d)) = false.
Proof.
  intros H Ha H1 H2. apply mem_c_join.
  - cbn [mem_c]. rewrite H2. reflexivity.
  - apply Forall_forall. intros x Hx. apply in_map_iff in Hx. destruct Hx as (kv & <- & Hin).
    unfold qdict in H. rewrite Forall_forall in H. destruct (H _ Hin) as (Hk & Hv).
    apply mem_c_enc; [exact H1 | |]; apply qstr_mem; auto.
Qed.

Lemma parse_items_q d : qdict d -> parse_qsl_items (map enc d) = Ok d.
Proof.
  induction d as [|[k v] d IH]; intros H; [reflexivity|].
  inversion H as [|? ? (Hk & Hv) Hd]; subst. cbn [fst snd] in *.
  cbn [map parse_qsl_items]. rewrite (IH Hd). cbn [bind].
  unfold enc. cbn [fst snd].
  change (k ++ "=" ++ v) with (k ++ String "=" v). rewrite sempty_app_r.
  rewrite (split1_c_app "=" k v) by (apply qstr_mem; auto).
  assert (Ev : sempty v = false) by (apply sempty_false; apply qstr_ne; exact Hv).
  rewrite Ev. unfold plus_to_space. change "+" with (str1 "+").
  rewrite (replace_id "+" " " k), (replace_id "+" " " v) by (apply qstr_mem; auto).
  rewrite (unquote_id k), (unquote_id v) by (apply qstr_mem; auto).
  reflexivity.
Qed.

Lemma qq_first d : qdict d -> d <> [] ->
  exists a rest, join "&" (map enc d) = String a rest /\ Ascii.eqb a "&" = false.
Proof.
  intros Hs Hne. destruct d as [|[k v] d]; [congruence|].
  inversion Hs as [|? ? (Hk & _) _]; subst. cbn [fst] in Hk.
  pose proof (qstr_mem _ "&" Hk eq_refl) as Hm. pose proof (qstr_ne _ Hk) as Hn.
  destruct k as [|a k']; [congruence|].
  cbn [mem_c] in Hm. apply orb_false_iff in Hm. destruct Hm as (Ha & _).
  cbn [map]. unfold enc at 1. cbn [fst snd].
  destruct (map enc d); cbn [join append]; eexists _, _; (split; [reflexivity | exact Ha]).
Qed.

Theorem to_dict_q d : qdict d -> NoDup (map fst d) -> d <> [] -> to_dict (join "&" (map enc d)) = Ok d.
Proof.
  intros Hs Hnd Hne. set (qs := join "&" (map enc d)).
  assert (Hq : mem_c "?" qs = false) by (apply mem_c_qquery; auto).
  assert (H9 : mem_c "009" qs = false) by (apply mem_c_qquery; auto).
  assert (H10 : mem_c "010" qs = false) by (apply mem_c_qquery; auto).
  assert (H13 : mem_c "013" qs = false) by (apply mem_c_qquery; auto).
  assert (Hh : mem_c "#" qs = false) by (apply mem_c_qquery; auto).
  assert (Hmne : map enc d <> []) by (intros E; apply map_eq_nil in E; congruence).
  destruct (qq_first d Hs Hne) as (a0 & rest0 & Eq0 & Ea0). fold qs in Eq0.
  assert (Hfirst : forall rest, qs <> String "&" rest).
  { intros rest E. rewrite Eq0 in E. inversion E; subst a0. discriminate Ea0. }
  assert (Hlast : endswith "&" qs = false).
  { destruct (join_last "&" (map enc d) Hmne) as (p & E). fold qs in E.
    assert (exists kv, In kv d /\ last (map enc d) "" = enc kv) as (kv & Hin & El).
    { clear -Hne. induction d as [|x d IH]; [congruence|]. destruct d as [|y d].
      - exists x. split; [left; reflexivity | reflexivity].
      - destruct IH as (kv & Hin & El); [discriminate|]. exists kv. split; [right; exact Hin|].
        exact El. }
    unfold qdict in Hs. rewrite Forall_forall in Hs. destruct (Hs kv Hin) as (_ & Hv).
    destruct (string_snoc (snd kv) (qstr_ne _ Hv)) as (v' & b & Ev).
    assert (Hb : Ascii.eqb "&" b = false).
    { pose proof (qstr_mem _ "&" Hv eq_refl) as Hm. rewrite Ev, mem_c_app in Hm.
      apply orb_false_iff in Hm. destruct Hm as (_ & Hm). cbn [str1 mem_c] in Hm.
      rewrite orb_false_r in Hm. rewrite Ascii.eqb_sym. exact Hm. }
    rewrite E, El. unfold enc. rewrite Ev.
    replace (p ++ fst kv ++ "=" ++ v' ++ str1 b) with ((p ++ fst kv ++ "=" ++ v') ++ str1 b)
      by (rewrite !app_assoc_s; reflexivity).
    change "&" with (str1 "&"). rewrite endswith_snoc. exact Hb. }
  unfold to_dict. change "?" with (str1 "?"). rewrite (replace_id "?" "&" qs Hq).
  rewrite (strip_one_amp_id qs Hfirst Hlast).
  unfold urlsplit_query. rewrite (remove_chars_id qs H9 H10 H13).
  rewrite (split1_c_nomem "#" qs Hh). cbn [fst].
  unfold parse_qsl.
  assert (Eqs : sempty qs = false) by (rewrite Eq0; reflexivity).
  rewrite Eqs.
  assert (Hsplit : split_c "&" qs = map enc d).
  { unfold qs. apply (split_c_join "&" _ Hmne).
    apply Forall_forall. intros x Hx. apply in_map_iff in Hx. destruct Hx as (kv & <- & Hin).
    unfold qdict in Hs. rewrite Forall_forall in Hs. destruct (Hs _ Hin) as (Hk & Hv).
    apply mem_c_enc; [reflexivity | |]; apply qstr_mem; auto. }
  rewrite Hsplit, (parse_items_q d Hs). cbn [bind]. rewrite (dict_of_pairs_id d Hnd). reflexivity.
Qed.

Lemma qquery_ne d : qdict d -> d <> [] -> join "&" (map enc d) <> "".
Proof. intros Hs Hne. destruct (qq_first d Hs Hne) as (a & rest & E & _). rewrite E. discriminate. Qed.

(** * tokens *)

Lemma all_c_imp (f g : ascii -> bool) s : (forall a, f a = true -> g a = true) -> all_c f s = true -> all_c g s = true.
Proof.
  intros H. induction s as [|a s IH]; [reflexivity|]. cbn [all_c]. intros H1.
  apply andb_true_iff in H1. destruct H1 as (Ha & Hs). rewrite (H a Ha), (IH Hs). reflexivity.
Qed.

Lemma all_c_app f a b : all_c f (a ++ b) = all_c f a && all_c f b.
Proof. induction a as [|x a IH]; [reflexivity|]. cbn [append all_c]. rewrite IH, andb_assoc. reflexivity. Qed.

Lemma all_c_join f sep l : all_c f sep = true -> Forall (fun x => all_c f x = true) l -> all_c f (join sep l) = true.
Proof.
  intros Hsep. induction l as [|x l IH]; intros H; [reflexivity|]. inversion H as [|? ? Hx Hl]; subst.
  destruct l as [|y l]; [exact Hx|]. rewrite join_cons2, !all_c_app, Hx, Hsep, (IH Hl). reflexivity.
Qed.

Lemma all_c_rev_s f s : all_c f (rev_s s) = all_c f s.
Proof.
  induction s as [|a s IH]; [reflexivity|]. rewrite rev_s_cons, all_c_app, IH. cbn [all_c].
  rewrite andb_true_r, andb_comm. reflexivity.
Qed.

Definition nsp (a : ascii) : bool := negb (is_space a).

Lemma nsp_head s : all_c nsp s = true -> head_ok s.
Proof.
  destruct s as [|a s]; [intros; exact I|]. cbn [all_c head_ok]. intros H. apply andb_true_iff in H.
  destruct H as (H & _). unfold nsp in H. apply negb_true_iff in H. exact H.
Qed.

Lemma nsp_strip s : all_c nsp s = true -> strip s = s.
Proof. intros H. apply strip_id; apply nsp_head; [exact H | rewrite all_c_rev_s; exact H]. Qed.

Lemma atom_char_q a : atom_char a = true -> qchar a = true.
Proof.
  unfold atom_char, qchar. intros H. apply andb_true_iff in H. destruct H as (H1 & H2). rewrite H1. cbn [andb].
  apply negb_true_iff in H2. apply negb_true_iff. cbn [existsb] in *.
  repeat (apply orb_false_iff in H2; destruct H2 as (? & H2)).
  repeat match goal with Hx : Ascii.eqb _ _ = false |- _ => rewrite Hx; clear Hx end. reflexivity.
Qed.

Lemma atom_char_nsp a : atom_char a = true -> nsp a = true.
Proof. unfold atom_char, nsp. intros H. apply andb_true_iff in H. tauto. Qed.

Definition atom (x : string) : Prop := atomb x = true.

Lemma atom_parts x : atom x -> x <> "" /\ all_c atom_char x = true.
Proof.
  unfold atom, atomb. intros H. apply andb_true_iff in H. destruct H as (H1 & H2).
  split; [destruct x; [discriminate | discriminate] | exact H2].
Qed.

Lemma atom_qstr x : atom x -> qstr x = true.
Proof.
  intros H. destruct (atom_parts x H) as (Hne & Hall). unfold qstr. apply sempty_false in Hne. rewrite Hne. cbn [negb andb].
  apply (all_c_imp atom_char qchar x atom_char_q Hall).
Qed.

Lemma atom_nomem x a : atom x -> atom_char a = false -> mem_c a x = false.
Proof. intros H Ha. destruct (atom_parts x H) as (_ & Hall). apply (all_c_mem _ _ _ Hall Ha). Qed.

Lemma atom_nsp x : atom x -> all_c nsp x = true.
Proof. intros H. destruct (atom_parts x H) as (_ & Hall). apply (all_c_imp atom_char nsp x atom_char_nsp Hall). Qed.

Lemma atom_strip x : atom x -> strip x = x.
Proof. intros H. apply nsp_strip. apply atom_nsp. exact H. Qed.

(* a value: a non empty "," separated list of tokens *)
Definition vok (v : string) : Prop := exists toks, toks <> [] /\ Forall atom toks /\ v = join "," toks.

Lemma value_okb_vok v : value_okb v = true -> vok v.
Proof.
  unfold value_okb. rewrite forallb_forall. intros H. exists (split_c "," v).
  split; [apply split_c_not_nil|]. split; [apply Forall_forall; exact H|]. symmetry. apply (join_split_c "," v).
Qed.

Lemma vok_qstr v : vok v -> qstr v = true.
Proof.
  intros (toks & Hne & Hall & ->). unfold qstr. apply andb_true_iff. split.
  - apply negb_true_iff. apply sempty_false. destruct toks as [|x [|y l]]; [congruence | |].
    + inversion Hall; subst. apply (atom_parts x). assumption.
    + inversion Hall; subst. rewrite join_cons2. destruct (atom_parts x) as (Hx & _); [assumption|].
      destruct x; [congruence | discriminate].
  - apply all_c_join; [reflexivity|]. eapply Forall_impl; [|exact Hall].
    intros x Hx. destruct (atom_parts x Hx) as (_ & H). apply (all_c_imp atom_char qchar x atom_char_q H).
Qed.

Lemma vok_nomem v a : vok v -> atom_char a = false -> Ascii.eqb "," a = false -> mem_c a v = false.
Proof.
  intros (toks & Hne & Hall & ->) Ha Hc. apply mem_c_join; [cbn [mem_c]; rewrite Hc; reflexivity|].
  eapply Forall_impl; [|exact Hall]. intros x Hx. apply (atom_nomem x a Hx Ha).
Qed.

Lemma comma_alts_toks toks : toks <> [] -> Forall atom toks -> comma_alts (join "," toks) = toks.
Proof.
  intros Hne Hall. unfold comma_alts.
  assert (Hnc : Forall (fun x => mem_c "," x = false) toks).
  { eapply Forall_impl; [|exact Hall]. intros x Hx. apply (atom_nomem x "," Hx eq_refl). }
  destruct (mem_c "," (join "," toks)) eqn:E.
  - pose proof (split_c_join "," toks Hne Hnc) as Hs. unfold str1 in Hs. rewrite Hs.
    apply map_id_in. intros x Hx. rewrite Forall_forall in Hall. apply atom_strip. apply Hall. exact Hx.
  - destruct (join_nomem_single "," toks Hne E) as (x & ->). reflexivity.
Qed.

(* the model's split of a query value (no strip) *)
Definition qalts (v : string) : list string := if Nat.ltb 0 (count ors v) then split_c "," v else [v].

Lemma qalts_toks toks : toks <> [] -> Forall atom toks -> qalts (join "," toks) = toks.
Proof.
  intros Hne Hall. unfold qalts. change ors with (str1 ","). rewrite count_str1, count_c_pos.
  assert (Hnc : Forall (fun x => mem_c "," x = false) toks).
  { eapply Forall_impl; [|exact Hall]. intros x Hx. apply (atom_nomem x "," Hx eq_refl). }
  destruct (mem_c "," (join "," toks)) eqn:E.
  - pose proof (split_c_join "," toks Hne Hnc) as Hs. unfold str1 in Hs. exact Hs.
  - destruct (join_nomem_single "," toks Hne E) as (x & ->). reflexivity.
Qed.

Lemma qalts_comma_alts v : vok v -> qalts v = comma_alts v.
Proof. intros (toks & Hne & Hall & ->). rewrite qalts_toks, comma_alts_toks; auto. Qed.

Lemma comma_alts_atoms v x : vok v -> In x (comma_alts v) -> atom x.
Proof.
  intros (toks & Hne & Hall & ->). rewrite comma_alts_toks by assumption. rewrite Forall_forall in Hall. apply Hall.
Qed.

(** * dictionaries *)

Lemma dset_mid (A : dict string) k v i todo : ~ In k (map fst A) ->
  dset (A ++ (k, v) :: todo)%list k i = (A ++ (k, i) :: todo)%list.
Proof.
  induction A as [|[k' v'] A IH]; intros H; cbn [app dset].
  - rewrite String.eqb_refl. reflexivity.
  - destruct (String.eqb k k') eqn:E.
    + apply String.eqb_eq in E. subst. exfalso. apply H. left. reflexivity.
    + f_equal. apply IH. intros Hin. apply H. right. exact Hin.
Qed.

Lemma combine_app {A B} (a1 a2 : list A) (b1 b2 : list B) : List.length a1 = List.length b1 ->
  combine (a1 ++ a2) (b1 ++ b2) = (combine a1 b1 ++ combine a2 b2)%list.
Proof.
  revert b1. induction a1 as [|x a1 IH]; intros [|y b1] H; simpl in *; try discriminate; [reflexivity|].
  f_equal. apply IH. lia.
Qed.

Lemma Forall2_length_s {A B} (R : A -> B -> Prop) l l' : Forall2 R l l' -> List.length l = List.length l'.
Proof. induction 1; simpl; congruence. Qed.

Lemma Forall2_snoc_inv {A B} (R : A -> B -> Prop) l x l' :
  Forall2 R (l ++ [x]) l' <-> exists a b, l' = (a ++ [b])%list /\ Forall2 R l a /\ R x b.
Proof.
  split.
  - intros H. apply Forall2_app_inv_l in H. destruct H as (a & b & H1 & H2 & E).
    inversion H2 as [|? y ? t Hy Ht]; subst. inversion Ht; subst. exists a, y. auto.
  - intros (a & b & -> & H1 & H2). apply Forall2_app; [exact H1 | constructor; [exact H2 | constructor]].
Qed.

(** * [or_on_query]: distribution of the "," alternatives of the values *)

Definition oq_step (res : list (dict string)) (kv : string * string) : list (dict string) :=
  if Nat.ltb 0 (count ors (snd kv)) then
    flat_map (fun i => map (fun d => dset d (fst kv) i) res) (split_c "," (snd kv))
  else res.

Definition oq_inv (qd done : dict string) (res : list (dict string)) : Prop :=
  forall todo, qd = (done ++ todo)%list ->
  forall d, In d res <-> exists ch, Forall2 (fun kv x => In x (qalts (snd kv))) done ch /\
                              d = (combine (map fst done) ch ++ todo)%list.

Lemma oq_fold qd : NoDup (map fst qd) -> oq_inv qd qd (fold_left oq_step qd [qd]).
Proof.
  intros Hnd. apply (fold_left_inv oq_step (oq_inv qd) qd [qd]).
  - intros todo E d. cbn [app] in E. subst todo. split.
    + intros [<-|[]]. exists []. split; [constructor | reflexivity].
    + intros (ch & Hch & ->). inversion Hch; subst. left. reflexivity.
  - intros done [k v] todo acc Eqd IH todo' E'.
    assert (todo' = todo).
    { rewrite Eqd in E'. rewrite <- app_assoc in E'. apply app_inv_head in E'. cbn [app] in E'. inversion E'. reflexivity. }
    subst todo'. specialize (IH ((k, v) :: todo) Eqd).
    assert (Hk : ~ In k (map fst done)).
    { rewrite Eqd, map_app in Hnd. cbn [map fst] in Hnd. apply NoDup_remove_2 in Hnd.
      intros Hin. apply Hnd. apply in_or_app. left. exact Hin. }
    intros d'.
    assert (Hmain : In d' (oq_step acc (k, v)) <->
              exists i ch, In i (qalts v) /\ Forall2 (fun kv x => In x (qalts (snd kv))) done ch /\
                           d' = (combine (map fst done) ch ++ (k, i) :: todo)%list).
    { unfold oq_step, qalts. cbn [fst snd]. destruct (Nat.ltb 0 (count ors v)).
      - rewrite in_flat_map. split.
        + intros (i & Hi & Hd). apply in_map_iff in Hd. destruct Hd as (d & <- & Hd).
          apply IH in Hd. destruct Hd as (ch & Hch & ->). exists i, ch. split; [exact Hi|]. split; [exact Hch|].
          apply dset_mid. rewrite map_fst_combine; [exact Hk|].
          rewrite map_length. apply (Forall2_length_s _ _ _ Hch).
        + intros (i & ch & Hi & Hch & ->). exists i. split; [exact Hi|]. apply in_map_iff.
          exists (combine (map fst done) ch ++ (k, v) :: todo)%list. split.
          * apply dset_mid. rewrite map_fst_combine; [exact Hk|].
            rewrite map_length. apply (Forall2_length_s _ _ _ Hch).
          * apply IH. exists ch. auto.
      - rewrite IH. split.
        + intros (ch & Hch & ->). exists v, ch. split; [left; reflexivity | auto].
        + intros (i & ch & [<-|[]] & Hch & ->). exists ch. auto. }
    rewrite Hmain. split.
    + intros (i & ch & Hi & Hch & ->). exists (ch ++ [i])%list. split.
      * apply Forall2_snoc_inv. exists ch, i. auto.
      * rewrite map_app. cbn [map fst]. rewrite combine_app by (rewrite map_length; apply (Forall2_length_s _ _ _ Hch)).
        cbn [combine]. rewrite <- app_assoc. reflexivity.
    + intros (ch' & Hch' & ->). apply Forall2_snoc_inv in Hch'. destruct Hch' as (ch & i & -> & Hch & Hi).
      cbn [snd] in Hi. exists i, ch. split; [exact Hi|]. split; [exact Hch|].
      rewrite map_app. cbn [map fst]. rewrite combine_app by (rewrite map_length; apply (Forall2_length_s _ _ _ Hch)).
      cbn [combine]. rewrite <- app_assoc. reflexivity.
Qed.

(* the choices of a query dict *)
Definition qchoice (qd : dict string) (ch : list string) : Prop :=
  Forall2 (fun kv x => In x (qalts (snd kv))) qd ch.

Lemma or_on_query_spec qd : qdict qd -> NoDup (map fst qd) -> qd <> [] ->
  (forall kv, In kv qd -> vok (snd kv)) ->
  exists uris, or_on_query (join "&" (map enc qd)) = Ok uris /\
    forall u, In u uris <-> exists ch, qchoice qd ch /\ u = join "&" (map enc (combine (map fst qd) ch)).
Proof.
  intros Hq Hnd Hne Hv. unfold or_on_query. rewrite (to_dict_q qd Hq Hnd Hne). cbn [bind].
  eexists. split; [reflexivity|]. intros u. rewrite in_map_iff.
  pose proof (oq_fold qd Hnd [] (eq_sym (app_nil_r qd))) as Hin. fold oq_step.
  assert (Hqd : forall ch, qchoice qd ch -> qdict (combine (map fst qd) ch)).
  { intros ch Hch. unfold qdict. apply Forall_forall. intros [k x] Hkx.
    pose proof (in_combine_l _ _ _ _ Hkx) as Hk. apply in_map_iff in Hk. destruct Hk as ([k' v'] & Ek & Hkv).
    cbn [fst] in Ek. subst k'. cbn [fst snd]. split.
    - unfold qdict in Hq. rewrite Forall_forall in Hq. apply (Hq _ Hkv).
    - (* x is an alternative of some value *)
      assert (Hx : exists kv, In kv qd /\ In x (qalts (snd kv))).
      { clear -Hch Hkx. unfold qchoice in Hch. induction Hch as [|kv y qd' ch' Hy Hch IH]; [destruct Hkx|].
        cbn [map combine] in Hkx. destruct Hkx as [E|Hkx].
        - inversion E; subst. exists kv. split; [left; reflexivity | exact Hy].
        - destruct (IH Hkx) as (kv' & H1 & H2). exists kv'. split; [right; exact H1 | exact H2]. }
      destruct Hx as (kv & Hkv' & Hx). rewrite (qalts_comma_alts _ (Hv kv Hkv')) in Hx.
      apply atom_qstr. apply (comma_alts_atoms _ x (Hv kv Hkv') Hx). }
  split.
  - intros (d & <- & Hd). apply Hin in Hd. destruct Hd as (ch & Hch & ->). rewrite app_nil_r.
    exists ch. split; [exact Hch|]. apply to_string_q. apply Hqd. exact Hch.
  - intros (ch & Hch & ->). exists (combine (map fst qd) ch). split; [apply to_string_q; apply Hqd; exact Hch|].
    apply Hin. exists ch. split; [exact Hch|]. rewrite app_nil_r. reflexivity.
Qed.

(** * [extensions] on a search with a query *)

Lemma in_list_cons x l ls : in_list x (l :: ls) = String.eqb x l || in_list x ls.
Proof. reflexivity. Qed.

Lemma in_list_nodup_s x l : in_list x (nodup_s l) = in_list x l.
Proof.
  destruct (in_list x l) eqn:E.
  - apply in_list_In. apply nodup_s_In. apply in_list_In. exact E.
  - apply in_list_false. rewrite nodup_s_In. apply in_list_false. exact E.
Qed.

Lemma Forall2_iff_in {A B} (R R' : A -> B -> Prop) l l' :
  (forall a, In a l -> forall b, R a b <-> R' a b) -> (Forall2 R l l' <-> Forall2 R' l l').
Proof.
  revert l'. induction l as [|a l IH]; intros l' H.
  - split; intros H0; inversion H0; constructor.
  - split; intros H0; inversion H0; subst; constructor.
    + apply (H a (or_introl eq_refl)). assumption.
    + apply IH; [intros a' Ha'; apply H; right; exact Ha' | assumption].
    + apply (H a (or_introl eq_refl)). assumption.
    + apply IH; [intros a' Ha'; apply H; right; exact Ha' | assumption].
Qed.

Section ExtQuery.
Variable Ld : Loaded.
Hypothesis Hconf : unfold_conf_okb Ld = true.

Local Notation h := (handle_extension Ld).

Lemma member_atom x : is_member Ld x -> atom x.
Proof.
  intros H. pose proof (is_member_ok Ld Hconf x H) as Hm. unfold member_ok in Hm.
  apply andb_true_iff in Hm. destruct Hm as (_ & Hm). exact Hm.
Qed.

Lemma handle_vok v : vok v -> vok (h v).
Proof.
  intros Hv. rewrite (handle_extension_eq Ld). pose proof (vok_qstr v Hv) as Hq. apply qstr_ne in Hq.
  apply sempty_false in Hq. rewrite Hq.
  exists (sort_s (nodup_s (ext_list Ld v))). split; [|split; [|reflexivity]].
  - intros E. pose proof (ext_list_ne Ld Hconf v) as Hne. destruct (ext_list Ld v) as [|e l] eqn:El; [congruence|].
    assert (Hin : In e (sort_s (nodup_s (e :: l)))) by (rewrite sort_s_In, nodup_s_In; left; reflexivity).
    rewrite E in Hin. destruct Hin.
  - apply Forall_forall. intros x Hx. rewrite sort_s_In, nodup_s_In in Hx.
    destruct (ext_list_cases Ld v x Hx) as [H|H]; [apply (comma_alts_atoms v x Hv H) | apply member_atom; exact H].
Qed.

Definition ext_val (k v : string) : string := if in_list k (leaf_names Ld) then h v else v.
Definition ext_dict (qd : dict string) : dict string := map (fun kv => (fst kv, ext_val (fst kv) (snd kv))) qd.

Lemma ext_val_vok k v : vok v -> vok (ext_val k v).
Proof. intros H. unfold ext_val. destruct (in_list k (leaf_names Ld)); [apply handle_vok; exact H | exact H]. Qed.

Lemma ext_dict_keys qd : map fst (ext_dict qd) = map fst qd.
Proof. unfold ext_dict. rewrite map_map. reflexivity. Qed.

Definition ext_step (q : dict string) (lk : string) : dict string :=
  match dget q lk with Some e => if sempty e then q else dset q lk (h e) | None => q end.

Lemma ext_step_map : forall d l, NoDup (map fst d) -> (forall v, In (l, v) d -> v <> "") ->
  ext_step d l = map (fun kv => if String.eqb (fst kv) l then (fst kv, h (snd kv)) else kv) d.
Proof.
  induction d as [|[k v] d IH]; intros l Hnd Hv; [reflexivity|].
  cbn [map fst] in Hnd. inversion Hnd as [|? ? Hk Hnd']; subst.
  unfold ext_step. cbn [dget map fst snd]. rewrite (String.eqb_sym k l).
  destruct (String.eqb l k) eqn:E.
  - apply String.eqb_eq in E. subst l.
    assert (Hne : sempty v = false) by (apply sempty_false; apply Hv; left; reflexivity).
    rewrite Hne. cbn [dset]. rewrite String.eqb_refl. f_equal. symmetry. apply map_id_in.
    intros [k' v'] Hin. cbn [fst]. destruct (String.eqb k' k) eqn:E'; [|reflexivity].
    apply String.eqb_eq in E'. subst k'. exfalso. apply Hk. apply (in_map fst) in Hin. exact Hin.
  - rewrite <- (IH l Hnd') by (intros v0 H0; apply Hv; right; exact H0). unfold ext_step.
    destruct (dget d l) as [e|]; [|reflexivity]. destruct (sempty e); [reflexivity|].
    cbn [dset]. rewrite E. reflexivity.
Qed.

Lemma ext_fold : forall ls d, NoDup ls -> NoDup (map fst d) ->
  (forall k v, In k ls -> In (k, v) d -> v <> "") ->
  fold_left ext_step ls d = map (fun kv => if in_list (fst kv) ls then (fst kv, h (snd kv)) else kv) d.
Proof.
  induction ls as [|l ls IH]; intros d Hls Hnd Hv.
  - cbn [fold_left in_list existsb]. symmetry. apply map_id_in. reflexivity.
  - inversion Hls as [|? ? Hl Hls']; subst. cbn [fold_left].
    rewrite (ext_step_map d l Hnd) by (intros v H0; apply (Hv l v); [left; reflexivity | exact H0]).
    set (g := fun kv : string * string => if String.eqb (fst kv) l then (fst kv, h (snd kv)) else kv).
    assert (Hfst : forall kv, fst (g kv) = fst kv) by (intros kv; unfold g; destruct (String.eqb (fst kv) l); reflexivity).
    rewrite IH; [| exact Hls' | |].
    + rewrite map_map. apply map_ext. intros kv. rewrite Hfst, in_list_cons. unfold g.
      destruct (String.eqb (fst kv) l) eqn:E; cbn [orb fst snd]; [|reflexivity].
      apply String.eqb_eq in E. rewrite E.
      assert (Hnl : in_list l ls = false) by (apply in_list_false; exact Hl). rewrite Hnl. reflexivity.
    + rewrite map_map. rewrite (map_ext _ fst Hfst). exact Hnd.
    + intros k v Hk Hin. apply in_map_iff in Hin. destruct Hin as (kv & Eg & Hkv). unfold g in Eg.
      destruct (String.eqb (fst kv) l) eqn:E.
      * exfalso. apply String.eqb_eq in E. inversion Eg; subst. apply Hl. exact Hk.
      * subst kv. apply (Hv k v); [right; exact Hk | exact Hkv].
Qed.

Lemma ext_dict_qdict qd : (forall kv, In kv qd -> atom (fst kv) /\ vok (snd kv)) -> qdict (ext_dict qd).
Proof.
  intros H. unfold qdict, ext_dict. apply Forall_forall. intros kv' Hin. apply in_map_iff in Hin.
  destruct Hin as (kv & <- & Hkv). cbn [fst snd]. destruct (H kv Hkv) as (Hk & Hv).
  split; [apply atom_qstr; exact Hk | apply vok_qstr; apply ext_val_vok; exact Hv].
Qed.

Lemma qdict_of qd : (forall kv, In kv qd -> atom (fst kv) /\ vok (snd kv)) -> qdict qd.
Proof.
  intros H. apply Forall_forall. intros kv Hkv. destruct (H kv Hkv) as (Hk & Hv).
  split; [apply atom_qstr; exact Hk | apply vok_qstr; exact Hv].
Qed.

(* [extensions] on  body?k1=v1&...  *)
Theorem extensions_query body qd : mem_c "?" body = false ->
  qd <> [] -> NoDup (map fst qd) -> (forall kv, In kv qd -> atom (fst kv) /\ vok (snd kv)) ->
  extensions Ld (body ++ "?" ++ join "&" (map enc qd)) =
  Ok (extended Ld body ++ "?" ++ join "&" (map enc (ext_dict qd))).
Proof.
  intros Hb Hne Hnd Hok. pose proof (qdict_of qd Hok) as Hq. unfold extensions.
  assert (Hsp : split_query (body ++ "?" ++ join "&" (map enc qd)) = (body, join "&" (map enc qd))).
  { unfold split_query. change (body ++ "?" ++ join "&" (map enc qd)) with (body ++ String "?" (join "&" (map enc qd))).
    rewrite (split1_c_app "?" body _ Hb). reflexivity. }
  rewrite Hsp. pose proof (qquery_ne qd Hq Hne) as Hqne. apply sempty_false in Hqne. rewrite Hqne.
  rewrite (to_dict_q qd Hq Hnd Hne). cbn [bind]. fold (leaf_names Ld). fold ext_step.
  rewrite (ext_fold (nodup_s (leaf_names Ld)) qd (nodup_s_NoDup _) Hnd).
  2:{ intros k v _ Hin. destruct (Hok _ Hin) as (_ & Hv). cbn [snd] in Hv. apply qstr_ne. apply vok_qstr. exact Hv. }
  assert (Ed : map (fun kv : string * string => if in_list (fst kv) (nodup_s (leaf_names Ld)) then (fst kv, h (snd kv)) else kv) qd
               = ext_dict qd).
  { unfold ext_dict, ext_val. apply map_ext. intros [k v]. cbn [fst snd]. rewrite in_list_nodup_s.
    destruct (in_list k (leaf_names Ld)); reflexivity. }
  rewrite Ed. rewrite (to_string_q _ (ext_dict_qdict qd Hok)).
  assert (Hne' : ext_dict qd <> []) by (unfold ext_dict; destruct qd; [congruence | discriminate]).
  pose proof (qquery_ne _ (ext_dict_qdict qd Hok) Hne') as Hq2. apply sempty_false in Hq2. rewrite Hq2.
  reflexivity.
Qed.

(* the alternatives the pipeline distributes are those of the denotation *)
Lemma qalts_value_alts k v x : vok v -> In x (qalts (ext_val k v)) <-> In x (value_alts Ld k v).
Proof.
  intros Hv. rewrite (qalts_comma_alts _ (ext_val_vok k v Hv)). unfold ext_val, value_alts.
  destruct (in_list k (leaf_names Ld)); [|reflexivity]. rewrite <- alts_comma. apply (alts_handle Ld Hconf).
Qed.

Lemma queries_choices qd u : (forall kv, In kv qd -> vok (snd kv)) ->
  In u (queries Ld qd) <->
  exists ch, qchoice (ext_dict qd) ch /\ u = join "&" (map enc (combine (map fst (ext_dict qd)) ch)).
Proof.
  intros Hv. unfold queries, query_dicts. rewrite map_map, in_map_iff. rewrite ext_dict_keys.
  assert (Hiff : forall ch, In ch (product (map (fun kv => value_alts Ld (fst kv) (snd kv)) qd)) <-> qchoice (ext_dict qd) ch).
  { intros ch. rewrite product_In, Forall2_map_l. unfold qchoice, ext_dict. rewrite Forall2_map_l.
    apply Forall2_iff_in. intros kv Hkv x. cbn [fst snd]. symmetry. apply qalts_value_alts. apply Hv. exact Hkv. }
  split.
  - intros (ch & <- & Hch). exists ch. split; [apply Hiff; exact Hch | reflexivity].
  - intros (ch & Hch & ->). exists ch. split; [reflexivity | apply Hiff; exact Hch].
Qed.

End ExtQuery.

(** * [or_op] on a search with a query *)

Definition adict (d : dict string) : Prop := Forall (fun kv => atom (fst kv) /\ atom (snd kv)) d.

Lemma adict_qdict d : adict d -> qdict d.
Proof. intros H. eapply Forall_impl; [|exact H]. intros kv (H1 & H2). split; apply atom_qstr; assumption. Qed.

Lemma qchoice_adict qd ch : (forall kv, In kv qd -> atom (fst kv) /\ vok (snd kv)) -> qchoice qd ch ->
  adict (combine (map fst qd) ch).
Proof.
  intros Hok Hch. unfold qchoice in Hch. induction Hch as [|kv x qd' ch' Hx Hch IH]; [constructor|].
  cbn [map combine]. constructor.
  - cbn [fst snd]. destruct (Hok kv (or_introl eq_refl)) as (Hk & Hv). split; [exact Hk|].
    rewrite (qalts_comma_alts _ Hv) in Hx. apply (comma_alts_atoms _ x Hv Hx).
  - apply IH. intros kv' Hkv'. apply Hok. right. exact Hkv'.
Qed.

Lemma adict_nomem a d : adict d -> atom_char a = false -> Ascii.eqb "=" a = false -> Ascii.eqb "&" a = false ->
  mem_c a (join "&" (map enc d)) = false.
Proof.
  intros H Ha H1 H2. apply mem_c_join; [cbn [mem_c]; rewrite H2; reflexivity|].
  apply Forall_forall. intros x Hx. apply in_map_iff in Hx. destruct Hx as (kv & <- & Hin).
  unfold adict in H. rewrite Forall_forall in H. destruct (H _ Hin) as (Hk & Hv).
  apply mem_c_enc; [exact H1 | apply (atom_nomem _ a Hk Ha) | apply (atom_nomem _ a Hv Ha)].
Qed.

Definition uok (u : string) : Prop :=
  u <> "" /\ (exists nd, to_dict u = Ok nd) /\ mem_c "/" u = false /\ mem_c "?" u = false.

Lemma adict_uok (qd : dict string) (ch : list string) : qd <> [] -> NoDup (map fst qd) -> List.length ch = List.length qd ->
  adict (combine (map fst qd) ch) -> uok (join "&" (map enc (combine (map fst qd) ch))).
Proof.
  intros Hne Hnd Hlen Ha. set (d := combine (map fst qd) ch) in *.
  assert (Hk : map fst d = map fst qd) by (unfold d; apply map_fst_combine; rewrite map_length; auto).
  assert (Hdne : d <> []).
  { intros E. rewrite E in Hk. cbn in Hk. symmetry in Hk. apply map_eq_nil in Hk. congruence. }
  split; [apply qquery_ne; [apply adict_qdict; exact Ha | exact Hdne]|].
  split; [eexists; apply to_dict_q; [apply adict_qdict; exact Ha | rewrite Hk; exact Hnd | exact Hdne]|].
  split; apply adict_nomem; auto.
Qed.

Lemma mem_c_join_inv a sep l x : mem_c a (join sep l) = false -> In x l -> mem_c a x = false.
Proof.
  intros H Hin. destruct (join_In_decomp sep x l Hin) as (pre & post & E). rewrite E in H.
  apply mem_c_app_false in H. destruct H as (_ & H). apply mem_c_app_false in H. tauto.
Qed.

Lemma qchoice_single qd ch : Forall (fun kv => mem_c "," (snd kv) = false) qd ->
  (qchoice qd ch <-> ch = map snd qd).
Proof.
  intros Hall. unfold qchoice. split.
  - intros H. induction H as [|kv x qd' ch' Hx H IH]; [reflexivity|].
    inversion Hall as [|? ? Hp Hall']; subst. unfold qalts in Hx. change ors with (str1 ",") in Hx.
    rewrite count_str1, count_c_pos, Hp in Hx. destruct Hx as [<-|[]]. cbn [map]. f_equal. apply IH. exact Hall'.
  - intros ->. induction Hall as [|kv qd' Hp Hall IH]; constructor; [|exact IH].
    unfold qalts. change ors with (str1 ","). rewrite count_str1, count_c_pos, Hp. left. reflexivity.
Qed.

Lemma or_op_query eb qd : mem_c "?" eb = false -> no_marker eb ->
  qd <> [] -> NoDup (map fst qd) -> (forall kv, In kv qd -> atom (fst kv) /\ vok (snd kv)) ->
  exists s2, or_op (eb ++ "?" ++ join "&" (map enc qd)) = Ok s2 /\
    forall r, In r s2 <->
      exists choice ch, choice_ok (split_c "/" eb) choice /\ qchoice qd ch /\
        r = join "/" choice ++ "?" ++ join "&" (map enc (combine (map fst qd) ch)).
Proof.
  intros Hq Hmk Hne Hnd Hok. set (Q := join "&" (map enc qd)).
  pose proof (qdict_of qd Hok) as Hqd.
  assert (HQ : Q <> "") by (apply qquery_ne; assumption).
  assert (Hsp : split_query (eb ++ "?" ++ Q) = (eb, Q)).
  { unfold split_query. change (eb ++ "?" ++ Q) with (eb ++ String "?" Q). rewrite (split1_c_app "?" eb _ Hq). reflexivity. }
  unfold or_op. change ors with (str1 ","). rewrite count_str1, count_c_zero.
  destruct (mem_c "," (eb ++ "?" ++ Q)) eqn:Ec; cbn [negb].
  - rewrite Hsp. apply sempty_false in HQ. rewrite HQ.
    destruct (or_on_query_spec qd Hqd Hnd Hne (fun kv H => proj2 (Hok kv H))) as (uris & Eu & Hu).
    fold Q in Eu. rewrite Eu. cbn [bind]. eexists. split; [reflexivity|]. intros r.
    rewrite in_flat_map. split.
    + intros (b & Hb & Hr). apply in_map_iff in Hr. destruct Hr as (u & <- & Hu').
      apply (or_on_path_product eb Hmk) in Hb. destruct Hb as (choice & Hc & ->).
      apply Hu in Hu'. destruct Hu' as (ch & Hch & ->). exists choice, ch. auto.
    + intros (choice & ch & Hc & Hch & ->). exists (join "/" choice). split.
      * apply (or_on_path_product eb Hmk). exists choice. auto.
      * apply in_map_iff. eexists. split; [reflexivity|]. apply Hu. exists ch. auto.
  - apply mem_c_app_false in Ec. destruct Ec as (Ec1 & Ec2). cbn [append mem_c Ascii.eqb orb] in Ec2.
    assert (Hall : Forall (fun p => mem_c "," p = false) (split_c "/" eb)) by (apply mem_c_split; exact Ec1).
    assert (Hvals : Forall (fun kv => mem_c "," (snd kv) = false) qd).
    { apply Forall_forall. intros kv Hkv.
      assert (He : mem_c "," (enc kv) = false) by (apply (mem_c_join_inv "," "&" (map enc qd)); [exact Ec2 | apply in_map; exact Hkv]).
      unfold enc in He. apply mem_c_app_false in He. destruct He as (_ & He). apply mem_c_app_false in He. tauto. }
    pose proof (join_split_c "/" eb) as Hj. unfold str1 in Hj.
    exists [eb ++ "?" ++ Q]. split; [reflexivity|]. intros r. split.
    + intros [<-|[]]. exists (split_c "/" eb), (map snd qd). split; [apply choice_ok_single; auto|].
      split; [apply qchoice_single; auto|]. rewrite combine_fst_snd.
      rewrite Hj. reflexivity.
    + intros (choice & ch & Hc & Hch & ->). apply (choice_ok_single _ _ Hall) in Hc. subst choice.
      apply (qchoice_single _ _ Hvals) in Hch. subst ch. rewrite combine_fst_snd.
      left. rewrite Hj. reflexivity.
Qed.
