From Coq Require Import List String.
Example C17_placeholder : True. Proof. exact I. Qed.
Print Assumptions C17_placeholder.
