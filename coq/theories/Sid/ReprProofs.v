(** C02: eval(repr(sid)) == sid.  [repr x] is the text  Sid('<uri>')  ; python's eval of that text
    calls Sid on the string literal.  [py_unrepr] reads such a literal back, for the literals whose
    content python takes verbatim (no quote, no backslash, no line break, no NUL). *)
From Coq Require Import List String Ascii Bool Arith Lia.
From Spil Require Import Base.Str Base.Dict Base.Outcome Base.StrProofs Base.SplitProofs
  Conf.Conf Conf.WF Sid.Query Sid.Sid Sid.SidProofs.
Import ListNotations.
Local Open Scope string_scope.

(* characters that a single-quoted python literal contains verbatim *)
Definition plain_char (a : ascii) : bool :=
  negb (Ascii.eqb a "'") && negb (Ascii.eqb a "\") && negb (Ascii.eqb a "010")
  && negb (Ascii.eqb a "013") && negb (Ascii.eqb a "000").

Fixpoint strip_prefix (p s : string) : option string :=
  match p with
  | "" => Some s
  | String a p' => match s with
                   | String b s' => if Ascii.eqb a b then strip_prefix p' s' else None
                   | "" => None
                   end
  end.

(* the argument u of the expression  Sid('u')  when u is a verbatim literal; None otherwise *)
Definition py_unrepr (s : string) : option string :=
  match strip_prefix "Sid('" s with
  | None => None
  | Some rest =>
      let u := drop_last 2 rest in
      if String.eqb rest (u ++ "')") && all_c plain_char u then Some u else None
  end.

Lemma py_unrepr_literal u : all_c plain_char u = true -> py_unrepr ("Sid('" ++ u ++ "')") = Some u.
Proof.
  intros H. unfold py_unrepr. cbn [append strip_prefix Ascii.eqb Bool.eqb]. cbv iota.
  change 2 with (String.length "')"). rewrite drop_last_app. rewrite String.eqb_refl, H. reflexivity.
Qed.

(* py_unrepr only accepts texts of that shape *)
Lemma py_unrepr_sound s u : py_unrepr s = Some u -> s = "Sid('" ++ u ++ "')" /\ all_c plain_char u = true.
Proof.
  unfold py_unrepr. destruct (strip_prefix "Sid('" s) as [rest|] eqn:E; [|discriminate].
  destruct (String.eqb rest (drop_last 2 rest ++ "')")) eqn:E1; [|discriminate].
  destruct (all_c plain_char (drop_last 2 rest)) eqn:E2; [|discriminate].
  cbn [andb]. intros H. inversion H; subst u. split; [|exact E2].
  apply String.eqb_eq in E1. rewrite <- E1. clear - E.
  repeat (destruct s as [|? s]; [discriminate E|]; cbn [strip_prefix] in E;
          match type of E with (if ?b then _ else _) = _ => destruct b eqn:?; [|discriminate E] end).
  cbn [strip_prefix] in E. inversion E; subst.
  repeat match goal with H : Ascii.eqb _ _ = true |- _ => apply Ascii.eqb_eq in H; subst end.
  reflexivity.
Qed.

(* the guard in terms of mem_c *)
Lemma plain_chars_mem u :
  all_c plain_char u = true <->
  mem_c "'" u = false /\ mem_c "\" u = false /\ mem_c "010" u = false /\ mem_c "013" u = false /\ mem_c "000" u = false.
Proof.
  induction u as [|a u IH]; cbn [all_c mem_c].
  - tauto.
  - unfold plain_char at 1. rewrite !andb_true_iff, !negb_true_iff, !orb_false_iff, IH. tauto.
Qed.

Section Repr.
Variables (c : Conf) (Ld : Loaded).
Hypothesis Hload : load c = Some Ld.
Hypothesis Hwf : wf_loadedb Ld = true.

(** D1 *)
Theorem repr_roundtrip x :
  naturally_typed Ld x -> mem_c "?" (s_string x) = false ->
  all_c plain_char (uri x) = true ->
  exists u, py_unrepr (repr x) = Some u /\ Sid Ld u = Ok x.
Proof.
  intros Hnat Hq Hplain. exists (uri x). split.
  - unfold repr. apply py_unrepr_literal. exact Hplain.
  - exact (proj1 (roundtrip_uri c Ld Hload Hwf x Hnat Hq)).
Qed.

End Repr.
